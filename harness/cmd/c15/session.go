// Session tier of the C15 harness: a real gocql.Session (control connection disabled) runs ONE paged
// query against a scripted in-memory node. The node answers the k-th QUERY/EXECUTE it receives with
// the k-th entry of the scenario's script (a page of rows with or without has_more_pages + an opaque
// paging state, or a failure: server ERROR, UNPREPARED, connection closed, never answered, caller's
// context cancelled) and records what it received: opcode, skip-metadata flag, paging state bytes,
// page size, and whether statement / prepared id / values / consistency equal the first request's.
// The application side drains the result with one of the consumers and reports the rows it got and
// the final error. Op line:
//
//	sess v<2..5>[n<nodes>] <consumer> <prefetch> <pagesize> <q|x|xs|xd> <first> <script>
//	  n<nodes>  2..3 nodes share the script (follow-up pages go to other hosts; PREPAREs are then not logged)
//	  consumer  scan | scanner | mapscan | slicemap | manual (PageState loop, auto paging disabled)
//	  q         unprepared (QUERY)   x  prepared, NoSkipMetadata (EXECUTE)   xs  prepared, skip-metadata
//	            xd  prepared, cfg.DisableSkipMetadata
//	  first     caller-supplied page state of the first request (manual only): `.` none, `-` empty, hex
//	  script    `;`-separated replies:  <rows>:<state>   rows `-` or i,j,k ; state `.` = no more pages,
//	            `-` = has_more_pages with an EMPTY paging state, hex otherwise
//	            Es<hexcode> server ERROR   Eu UNPREPARED   Ec connection closed   Et never answered
//	            (driver timeout)   Ex context cancelled while the request is outstanding
//
// `sessx` is the same op for scenarios in which a paging state that must be sent is EMPTY (known
// finding KF-C15-1: conn.go sends no paging state when len(pageState)==0): model-vs-code only.
package main

import (
	"context"
	"errors"
	"fmt"
	"hash/fnv"
	"io"
	"strconv"
	"strings"
	"sync"
	"sync/atomic"
	"time"

	"github.com/gocql/gocql"
	"github.com/golang/snappy"
	"verifharness/memcluster"
	"verifharness/sess"
	"verifharness/vh"
)

type reply struct {
	fail  string // "" page, "s" server error, "u" unprepared, "c" closed, "t" timeout, "x" ctx cancelled
	code  int
	rows  []int32
	state []byte // nil = no more pages; non-nil (possibly empty) = has_more_pages
}

type scen struct {
	zbits    string // v<n>[n<nodes>]z<bits>: snappy negotiated; the k-th QUERY/EXECUTE answer is compressed iff bits[k mod len] = 1
	op       string // sess | sessx
	ver      int
	nodes    int // 1..3 scripted nodes sharing the script (round-robin host selection)
	consumer string
	prefetch string
	pageSize int
	kind     string
	first    []byte // nil = none
	script   []reply
}

func showState(b []byte) string {
	if b == nil {
		return "."
	}
	return vh.Hex(b)
}

func parseState(s string) []byte {
	if s == "." {
		return nil
	}
	b, err := vh.UnHex(s)
	if err != nil {
		panic("bad state " + s)
	}
	return b
}

func (r reply) String() string {
	switch r.fail {
	case "":
		rows := "-"
		if len(r.rows) > 0 {
			s := make([]string, len(r.rows))
			for i, v := range r.rows {
				s[i] = strconv.Itoa(int(v))
			}
			rows = strings.Join(s, ",")
		}
		return rows + ":" + showState(r.state)
	case "s":
		return fmt.Sprintf("Es%04x", r.code)
	case "p":
		return fmt.Sprintf("Ep%04x", r.code)
	}
	return "E" + r.fail
}

func (s scen) String() string {
	sc := make([]string, len(s.script))
	for i, r := range s.script {
		sc[i] = r.String()
	}
	v := fmt.Sprintf("v%d", s.ver)
	if s.nodes > 1 {
		v += fmt.Sprintf("n%d", s.nodes)
	}
	if s.zbits != "" {
		v += "z" + s.zbits
	}
	return fmt.Sprintf("%s %s %s %s %d %s %s %s", s.op, v, s.consumer, s.prefetch, s.pageSize, s.kind, showState(s.first), strings.Join(sc, ";"))
}

func parseScen(op string) scen {
	w := strings.Fields(op)
	if len(w) != 8 {
		panic("bad sess op")
	}
	s := scen{op: w[0], consumer: w[2], prefetch: w[3], kind: w[5], first: parseState(w[6])}
	vtok := w[1]
	if i := strings.Index(vtok, "z"); i >= 0 {
		s.zbits, vtok = vtok[i+1:], vtok[:i]
		if s.zbits == "" || strings.Trim(s.zbits, "01") != "" {
			panic("bad compression bits")
		}
	}
	vn := strings.SplitN(strings.TrimPrefix(vtok, "v"), "n", 2)
	s.ver, _ = strconv.Atoi(vn[0])
	s.nodes = 1
	if len(vn) == 2 {
		s.nodes, _ = strconv.Atoi(vn[1])
	}
	if s.ver < 2 || s.ver > 5 || s.nodes < 1 || s.nodes > 8 {
		panic("bad version/nodes")
	}
	s.pageSize, _ = strconv.Atoi(w[4])
	for _, p := range strings.Split(w[7], ";") {
		var r reply
		switch {
		case strings.HasPrefix(p, "Es"):
			c, err := strconv.ParseInt(p[2:], 16, 32)
			if err != nil {
				panic("bad code")
			}
			r.fail, r.code = "s", int(c)
		case strings.HasPrefix(p, "Ep"):
			// the PREPARE of this fetch attempt is answered with an ERROR (tier psess)
			c, err := strconv.ParseInt(p[2:], 16, 32)
			if err != nil {
				panic("bad code")
			}
			r.fail, r.code = "p", int(c)
		case strings.HasPrefix(p, "E"):
			r.fail = p[1:]
		default:
			h := strings.SplitN(p, ":", 2)
			if len(h) != 2 {
				panic("bad page " + p)
			}
			if h[0] != "-" {
				for _, x := range strings.Split(h[0], ",") {
					n, err := strconv.Atoi(x)
					if err != nil {
						panic("bad row")
					}
					r.rows = append(r.rows, int32(n))
				}
			}
			r.state = parseState(h[1])
		}
		s.script = append(s.script, r)
	}
	return s
}

// seen is one request as the node saw it.
type seen struct {
	op       byte
	skip     bool
	state    []byte
	hasState bool
	ps       int32
	hasPS    bool
	ident    string // statement / prepared id / values / consistency / serial / remaining flags
}

func errClass(err error) string {
	var re gocql.RequestError
	switch {
	case err == nil:
		return "nil"
	case errors.As(err, &re):
		if re.Code() == memcluster.ErrServer && re.Message() == "script exhausted" {
			return "exhausted"
		}
		return fmt.Sprintf("srv:%04x", re.Code())
	case err == gocql.ErrTimeoutNoResponse:
		return "timeout"
	case err == context.Canceled:
		return "ctx"
	case err == io.EOF || err == gocql.ErrConnectionClosed || err == io.ErrClosedPipe:
		return "closed"
	case err == gocql.ErrNoConnections:
		return "noconn"
	case err == gocql.ErrUnknownRetryType:
		return "unknownrt"
	}
	return "other:" + strings.ReplaceAll(err.Error(), " ", "_")
}

const stmtPrepared = "SELECT v FROM tbl WHERE id = ?"
const stmtPlain = "PAGED v FROM tbl"

var preparedID = []byte{0xc1, 0x5c, 0x15, 0x00, 0x01, 0x02, 0x03, 0x04}

// runSess runs the scenario; spurious reports an environment problem (a driver timeout although the
// node had answered every request it received), in which case the caller re-runs the scenario.
func runSess(sc scen, driverTimeout time.Duration) (answer string, spurious bool) {
	defer func() {
		if r := recover(); r != nil {
			answer = fmt.Sprintf("crash:%v", r)
		}
	}()
	var ips []string
	for i := 1; i <= sc.nodes; i++ {
		ips = append(ips, fmt.Sprintf("10.0.0.%d", i))
	}
	cl := memcluster.NewCluster(sc.ver, ips...)
	var mu sync.Mutex
	var reqs []seen
	var log []string
	unanswered := false
	ctx, cancel := context.WithCancel(context.Background())
	defer cancel()
	cols := []memcluster.Col{{Name: "v", Type: memcluster.TInt}}
	// compression as a dimension (see walk.go): the k-th QUERY/EXECUTE answer carries the compression flag or not
	send := func(req *memcluster.Request, k int, op byte, body []byte) {
		if sc.zbits != "" && sc.zbits[k%len(sc.zbits)] == '1' {
			f := &memcluster.Frame{Version: byte(sc.ver) | 0x80, Flags: 0x01, Stream: req.Stream, Op: op, Body: snappy.Encode(nil, body)}
			req.Conn.WriteRaw(f.Encode(sc.ver))
			return
		}
		req.Conn.Reply(req.Stream, op, body)
	}
	handle := func(req *memcluster.Request) {
		switch req.Op {
		case memcluster.OpPrepare:
			mu.Lock()
			if sc.nodes == 1 {
				// with several nodes WHICH node still needs a PREPARE depends on the host selection order: not logged
				log = append(log, "P")
			}
			mu.Unlock()
			req.Conn.Reply(req.Stream, memcluster.OpResult, memcluster.PreparedBody(sc.ver, preparedID,
				[]memcluster.Col{{Name: "id", Type: memcluster.TInt}}, []int{0}, cols))
		case memcluster.OpQuery, memcluster.OpExecute:
			o := seen{op: req.Op, skip: req.QFlags&0x02 != 0, state: req.PageState, hasState: req.QFlags&0x08 != 0,
				ps: req.PageSize, hasPS: req.HasPageSize}
			o.ident = fmt.Sprintf("%q %x %v c%d s%d f%x e%v", req.Stmt, req.PreparedID, req.Values, req.Consistency, req.Serial, req.QFlags&^0x08, req.ParseErr)
			mu.Lock()
			k := len(reqs)
			reqs = append(reqs, o)
			same := "="
			if o.ident != reqs[0].ident {
				same = "!"
			}
			name := "Q"
			if o.op == memcluster.OpExecute {
				name = "X"
				if o.skip {
					name = "Xs"
				}
			}
			st, ps := ".", "."
			if o.hasState {
				st = vh.Hex(o.state)
			}
			if o.hasPS {
				ps = strconv.Itoa(int(o.ps))
			}
			log = append(log, fmt.Sprintf("%s%s:%s:%s", name, same, st, ps))
			var r reply
			if k < len(sc.script) {
				r = sc.script[k]
			} else {
				r = reply{fail: "exhausted"}
			}
			if r.fail == "t" || r.fail == "x" {
				unanswered = true
			}
			mu.Unlock()
			switch r.fail {
			case "":
				rows := make([][][]byte, len(r.rows))
				for i, v := range r.rows {
					rows[i] = [][]byte{{byte(v >> 24), byte(v >> 16), byte(v >> 8), byte(v)}}
				}
				send(req, k, memcluster.OpResult, memcluster.RowsBody(cols, rows, r.state, o.skip))
			case "s":
				var extra []byte
				switch r.code {
				case memcluster.ErrUnavailable:
					extra = memcluster.UnavailableExtra(1, 2, 1)
				case memcluster.ErrReadTO:
					extra = memcluster.ReadTimeoutExtra(1, 1, 2, 0)
				case memcluster.ErrWriteTO:
					extra = memcluster.WriteTimeoutExtra(1, 1, 2, "SIMPLE")
				}
				send(req, k, memcluster.OpError, memcluster.ErrorBody(int32(r.code), "scripted", extra))
			case "u":
				send(req, k, memcluster.OpError, memcluster.ErrorBody(memcluster.ErrUnprepared, "unprepared", memcluster.UnpreparedExtra(preparedID)))
			case "c":
				req.Conn.Close()
			case "t":
			case "x":
				cancel()
			default:
				send(req, k, memcluster.OpError, memcluster.ErrorBody(memcluster.ErrServer, "script exhausted", nil))
			}
		default:
			req.Conn.Reply(req.Stream, memcluster.OpResult, memcluster.VoidBody())
		}
	}
	for _, n := range cl.Nodes {
		n.Handle = handle
		if sc.zbits != "" {
			n.Supported = map[string][]string{"CQL_VERSION": {"3.0.0"}, "COMPRESSION": {"snappy"}}
			n.FrameHook = func(_ *memcluster.ServerConn, f *memcluster.Frame) bool {
				if f.Flags&0x01 != 0 {
					if b, err := snappy.Decode(nil, f.Body); err == nil {
						f.Body, f.Flags = b, f.Flags&^0x01
					}
				}
				return false
			}
		}
	}
	cfg := sess.Config(cl, sc.ver, ips...)
	if sc.zbits != "" {
		cfg.Compressor = gocql.SnappyCompressor{}
	}
	cfg.Timeout = 20 * time.Second
	for _, r := range sc.script {
		if r.fail == "t" {
			cfg.Timeout = driverTimeout
		}
	}
	cfg.ConnectTimeout = 20 * time.Second
	cfg.WriteTimeout = 20 * time.Second
	cfg.DisableSkipMetadata = sc.kind == "xd"
	s, err := cfg.CreateSession()
	if err != nil {
		// the session could not even be set up (an overloaded machine and a short driver timeout): environment
		return "fatal:" + err.Error(), true
	}
	defer s.Close()
	if sc.pageSize == 3 {
		s.SetPageSize(3)
	}
	if sc.prefetch == "0.5" {
		s.SetPrefetch(0.5)
	}
	if !sess.WaitConns(s, sc.nodes, 10*time.Second) {
		return "fatal:no connection", false
	}
	pf, err := strconv.ParseFloat(sc.prefetch, 64)
	if err != nil {
		return "bad-op", false
	}
	mkQuery := func() *gocql.Query {
		var q *gocql.Query
		switch sc.kind {
		case "q":
			q = s.Query(stmtPlain)
		case "x":
			q = s.Query(stmtPrepared, 7).NoSkipMetadata()
		case "xs", "xd":
			q = s.Query(stmtPrepared, 7)
		default:
			panic("bad kind")
		}
		// page size 5000 and prefetch 0.25 are the session defaults; 3 and 0.5 are set on the session
		if sc.pageSize != 5000 && sc.pageSize != 3 {
			q = q.PageSize(sc.pageSize)
		}
		if sc.prefetch != "0.25" && sc.prefetch != "0.5" {
			q = q.Prefetch(pf)
		}
		return q.WithContext(ctx)
	}
	type result struct {
		rows []int
		err  error
		nilr bool
	}
	done := make(chan result, 1)
	go func() {
		var res result
		defer func() {
			if r := recover(); r != nil {
				res.err = fmt.Errorf("crash:%v", r)
			}
			done <- res
		}()
		drain := func(it *gocql.Iter) error {
			var v int
			for it.Scan(&v) {
				res.rows = append(res.rows, v)
			}
			return it.Close()
		}
		switch sc.consumer {
		case "scan":
			res.err = drain(mkQuery().Iter())
		case "scanner":
			scn := mkQuery().Iter().Scanner()
			for scn.Next() {
				var v int
				if e := scn.Scan(&v); e != nil {
					res.err = fmt.Errorf("scan-error:%v", e)
					return
				}
				res.rows = append(res.rows, v)
			}
			res.err = scn.Err()
		case "mapscan":
			it := mkQuery().Iter()
			for {
				m := map[string]interface{}{}
				if !it.MapScan(m) {
					break
				}
				res.rows = append(res.rows, m["v"].(int))
			}
			res.err = it.Close()
		case "slicemap":
			it := mkQuery().Iter()
			ms, e := it.SliceMap()
			if e != nil {
				res.nilr, res.err = true, e
				return
			}
			for _, m := range ms {
				res.rows = append(res.rows, m["v"].(int))
			}
			res.err = it.Close()
		case "manual":
			// the documented manual paging loop: one Iter per page, the next one resumes from PageState()
			st := sc.first
			for n := 0; ; n++ {
				it := mkQuery().PageState(st).Iter()
				next := it.PageState()
				if e := drain(it); e != nil {
					res.err = e
					return
				}
				if len(next) == 0 {
					return
				}
				st = append([]byte{}, next...)
			}
		default:
			panic("bad consumer")
		}
	}()
	var res result
	select {
	case res = <-done:
	case <-time.After(60 * time.Second):
		return "hang", false
	}
	mu.Lock()
	l := strings.Join(log, ",")
	un := unanswered
	mu.Unlock()
	if l == "" {
		l = "-"
	}
	ec := errClass(res.err)
	if ec == "timeout" && !un {
		return "spurious-timeout", true
	}
	if strings.HasPrefix(ec, "other:") && strings.Contains(ec, "i/o_timeout") {
		// a read/write deadline of the short driver timeout expired on the in-memory pipe: environment
		return "spurious-" + ec, true
	}
	rows := showRows(res.rows)
	if res.nilr {
		rows = "nil"
	}
	return fmt.Sprintf("rows=%s err=%s reqs=%s", rows, ec, l), false
}

var spuriousReruns int64

func execSess(op string) string {
	sc := parseScen(op)
	// the driver timeout of `Et` scenarios is the only real timer; an environment fault (see runSess) re-runs
	// the scenario with a longer one
	timeouts := []time.Duration{80 * time.Millisecond, 250 * time.Millisecond, time.Second, 3 * time.Second, 8 * time.Second}
	// An answer that ends in a driver timeout is only taken when the next larger driver timeout gives the same
	// answer: a scripted `Et` (the node never answers) times out under every timer, a request that was merely slow on
	// a starved machine does not (seen once in a thorough run under 20 concurrent builders: a request AFTER the
	// scripted one took longer than the 80 ms timer and the scenario was reported as a violation).
	prev := ""
	for try := 0; ; try++ {
		a, spurious := runSess(sc, timeouts[try])
		last := try == len(timeouts)-1
		if !spurious {
			if !strings.Contains(a, "err=timeout") || a == prev || last {
				return a
			}
			prev = a
			atomic.AddInt64(&confirmReruns, 1)
			continue
		}
		if last {
			return a
		}
		atomic.AddInt64(&spuriousReruns, 1)
	}
}

var confirmReruns int64

// ---------- generation ----------

var (
	consumersS = []string{"scan", "scanner", "mapscan", "slicemap", "manual"}
	prefetches = []string{"0", "0.25", "0.5", "1", "1.5", "-1"}
	pageSizes  = []int{0, -1, 1, 2, 3, 10, 100, 5000, 2147483647}
	kinds      = []string{"q", "x", "xs", "xd"}
	srvCodes   = []int{0x0000, 0x1000, 0x1001, 0x1002, 0x1003, 0x1100, 0x1200, 0x2000, 0x2100, 0x2200, 0x2300}
)

type sgen struct {
	r    *vh.Rng
	next int
}

func (g *sgen) rows(n int) []int32 {
	out := make([]int32, n)
	for i := range out {
		g.next++
		v := int32(g.next)
		if g.r.Intn(6) == 0 {
			v = -v
		}
		out[i] = v
	}
	return out
}

func (g *sgen) nrows() int {
	switch g.r.Intn(8) {
	case 0, 1:
		return 0
	case 2:
		return 1
	case 3:
		return g.r.Intn(40)
	}
	return g.r.Intn(5)
}

// state: a non-nil paging state; empty only if allowed
func (g *sgen) state(prev []byte, allowEmpty bool) []byte {
	if allowEmpty && g.r.Intn(3) == 0 {
		return []byte{}
	}
	switch g.r.Intn(48) {
	case 1, 2, 3:
		if len(prev) > 0 {
			return append([]byte{}, prev...) // the same state twice in a row
		}
	case 4, 5, 6:
		return []byte{0}
	case 7, 8:
		return g.r.Bytes(200 + g.r.Intn(800))
	case 9:
		if g.r.Intn(10) == 0 {
			return g.r.Bytes(65536 + g.r.Intn(100))
		}
	}
	return g.r.Bytes(1 + g.r.Intn(10))
}

func (g *sgen) failure() reply {
	switch g.r.Intn(8) {
	case 0:
		return reply{fail: "t"}
	case 1, 2:
		return reply{fail: "c"}
	case 3, 4:
		return reply{fail: "x"}
	}
	return reply{fail: "s", code: srvCodes[g.r.Intn(len(srvCodes))]}
}

func (g *sgen) base() scen {
	nodes := 1
	if g.r.Intn(5) == 0 {
		nodes = 2 + g.r.Intn(2)
	}
	sc := scen{op: "sess", ver: 2 + g.r.Intn(4), nodes: nodes, consumer: consumersS[g.r.Intn(len(consumersS))],
		prefetch: prefetches[g.r.Intn(len(prefetches))], pageSize: pageSizes[g.r.Intn(len(pageSizes))], kind: kinds[g.r.Intn(len(kinds))]}
	return sc
}

// finish classifies: a present-but-empty paging state anywhere (or as the caller's state) ⇒ sessx (KF-C15-1)
func finish(sc scen) scen {
	sc.op = "sess"
	// compression: a third of the scenarios negotiate snappy, with a pattern of flagged / unflagged answers — chosen by a
	// hash of the (PRNG-generated) scenario, so that the PRNG stream of the later tiers is what it was
	sc.zbits = ""
	h := fnv.New32a()
	h.Write([]byte(sc.String()))
	if v := h.Sum32(); v%3 == 0 {
		sc.zbits = []string{"0", "1", "01", "10", "001", "110", "0110", "1001"}[(v/3)%8]
	}
	if sc.first != nil && len(sc.first) == 0 {
		sc.op = "sessx"
	}
	for _, r := range sc.script {
		if r.fail == "" && r.state != nil && len(r.state) == 0 {
			sc.op = "sessx"
		}
	}
	return sc
}

func (g *sgen) random() scen {
	sc := g.base()
	g.next = 0
	allowEmpty := g.r.Intn(12) == 0
	if sc.consumer == "manual" && g.r.Intn(3) == 0 {
		sc.first = g.state(nil, allowEmpty)
	}
	np := 1 + g.r.Intn(5)
	if g.r.Intn(8) == 0 {
		np = 1 + g.r.Intn(14)
	}
	var prev []byte
	emptyRun := g.r.Intn(6) == 0 // mostly empty pages
	for p := 0; p < np-1; p++ {
		if g.r.Intn(12) == 0 {
			sc.script = append(sc.script, reply{fail: "u"})
		}
		n := g.nrows()
		if emptyRun && g.r.Intn(4) > 0 {
			n = 0
		}
		st := g.state(prev, allowEmpty)
		prev = st
		sc.script = append(sc.script, reply{rows: g.rows(n), state: st})
	}
	if g.r.Intn(12) == 0 {
		sc.script = append(sc.script, reply{fail: "u"})
	}
	// terminal
	switch g.r.Intn(10) {
	case 0, 1, 2:
		sc.script = append(sc.script, g.failure())
	case 3:
		// the script ends while has_more_pages is still set: the node answers `script exhausted`
		if len(sc.script) == 0 {
			sc.script = append(sc.script, reply{rows: g.rows(g.nrows()), state: g.state(prev, allowEmpty)})
		}
	default:
		n := g.nrows()
		if g.r.Intn(3) == 0 {
			n = 0
		}
		sc.script = append(sc.script, reply{rows: g.rows(n)})
	}
	// replies that must never be asked for
	if last := sc.script[len(sc.script)-1]; (last.fail != "" && last.fail != "u" || last.fail == "" && last.state == nil) && g.r.Intn(3) == 0 {
		sc.script = append(sc.script, reply{rows: g.rows(1 + g.r.Intn(2)), state: g.state(prev, false)}, reply{rows: g.rows(1)})
	}
	return finish(sc)
}

// exhaustive: every list of <= maxMore pages with has_more_pages of 0..2 rows each, followed by a last
// page of 0..2 rows or a failure (server error / closed / cancelled), for every consumer
func (g *sgen) exhaustive(maxMore int, emit func(scen, string)) {
	var rec func(prefix []int)
	rec = func(prefix []int) {
		for term := 0; term < 6; term++ {
			for _, c := range consumersS {
				sc := g.base()
				sc.consumer = c
				g.next = 0
				for _, n := range prefix {
					sc.script = append(sc.script, reply{rows: g.rows(n), state: g.r.Bytes(1 + g.r.Intn(4))})
				}
				switch term {
				case 0, 1, 2:
					sc.script = append(sc.script, reply{rows: g.rows(term)})
				case 3:
					sc.script = append(sc.script, reply{fail: "s", code: srvCodes[g.r.Intn(len(srvCodes))]})
				case 4:
					sc.script = append(sc.script, reply{fail: "c"})
				case 5:
					sc.script = append(sc.script, reply{fail: "x"})
				}
				emit(finish(sc), fmt.Sprintf("sess-exh/%s/more%d", c, len(prefix)))
			}
		}
		if len(prefix) < maxMore {
			for n := 0; n <= 2; n++ {
				rec(append(append([]int{}, prefix...), n))
			}
		}
	}
	rec(nil)
}

func scenClass(sc scen) string {
	term := "last"
	empties := 0
	mid := false
	for i, r := range sc.script {
		if r.fail == "" && len(r.rows) == 0 {
			empties++
			if r.state != nil && i > 0 {
				mid = true
			}
		}
	}
	for _, r := range sc.script {
		if r.fail != "" && r.fail != "u" {
			term = "fail-" + r.fail
			break
		}
		if r.fail == "" && r.state == nil {
			break
		}
	}
	e := "noempty"
	if mid {
		e = "empty-middle"
	} else if empties > 0 {
		e = "empty"
	}
	return fmt.Sprintf("%s/%s/v%d/n%d/%s/%s/%s", sc.op, sc.consumer, sc.ver, sc.nodes, sc.kind, term, e)
}

func sessionTier(r *vh.Rng, out *vh.Out, tier string) map[string]interface{} {
	g := &sgen{r: r}
	type job struct {
		sc  scen
		cls string
	}
	var jobs []job
	emit := func(sc scen, cls string) { jobs = append(jobs, job{sc, cls}) }
	n, maxMore := 4000, 2
	if tier == "thorough" {
		n, maxMore = 120000, 3
	}
	g.exhaustive(maxMore, emit)
	for i := 0; i < n; i++ {
		sc := g.random()
		emit(sc, scenClass(sc))
	}
	res := make([]string, len(jobs))
	var wg sync.WaitGroup
	sem := make(chan struct{}, 24)
	for i := range jobs {
		wg.Add(1)
		sem <- struct{}{}
		go func(i int) {
			defer wg.Done()
			defer func() { <-sem }()
			journalStart(1000000+i, jobs[i].sc.String())
			res[i] = execSess(jobs[i].sc.String())
			journalDone(1000000+i, res[i])
		}(i)
	}
	wg.Wait()
	for i, j := range jobs {
		out.Case(j.sc.String(), res[i], j.cls, true)
	}
	return map[string]interface{}{"session_scenarios": len(jobs), "spurious_timeout_reruns": atomic.LoadInt64(&spuriousReruns), "timeout_answers_confirmed_with_a_longer_timer": atomic.LoadInt64(&confirmReruns)}
}
