// Tier `psess` of the C15 harness: a PREPARE that FAILS at a page fetch — the first fetch of an uncached
// prepared statement, or the fetch of any page after the node answered UNPREPARED (gocql evicts the statement,
// prepares again and executes again). Real Session, one scripted node (the walk tier's), draining consumers.
//
//	psess v<2..5> <scan|scanner|mapscan|slicemap> <prefetch> <pagesize> <x|xs|xd> <script>
//	  script as for `sess`, plus  Ep<hexcode> = the PREPARE of this fetch attempt is answered with that ERROR
//	  (stands first, or right after an `Eu`)
//	-> rows=… err=… reqs=…   (spec-backed: C15_prepare_failure_surfaces — the rows of the pages before, THAT error,
//	   and after the failed PREPARE neither the EXECUTE of that attempt nor anything else is sent)
package main

import (
	"fmt"
	"strings"
	"sync"
	"time"

	"verifharness/vh"
)

var prepFailCodes = []int{0x0000, 0x1001, 0x1002, 0x1003, 0x2000, 0x2100, 0x2200, 0x2300}

func execPsess(op string) (answer string) {
	defer func() {
		if r := recover(); r != nil {
			answer = fmt.Sprintf("crash:%v", r)
		}
	}()
	w := strings.Fields(op)
	if len(w) != 7 || w[5] == "q" {
		return "bad-op"
	}
	sc := parseWalk(fmt.Sprintf("walk %s %s %s %s %s %s d", w[1], w[2], w[3], w[4], w[5], w[6]))
	env, fatal := setupWalk(sc)
	if fatal != "" {
		return fatal
	}
	defer env.s.Close()
	defer env.cancel()
	type result struct {
		rows []int
		err  error
		nilr bool
	}
	done := make(chan result, 1)
	go func() {
		var res result
		defer func() {
			if r := recover(); r != nil {
				res.err = fmt.Errorf("crash:%v", r)
			}
			done <- res
		}()
		it := env.q.Iter()
		switch sc.consumer {
		case "scan":
			var v int
			for it.Scan(&v) {
				res.rows = append(res.rows, v)
			}
			res.err = it.Close()
		case "scanner":
			scn := it.Scanner()
			for scn.Next() {
				var v int
				if e := scn.Scan(&v); e != nil {
					panic("scan-error:" + e.Error())
				}
				res.rows = append(res.rows, v)
			}
			res.err = scn.Err()
		case "mapscan":
			for {
				m := map[string]interface{}{}
				if !it.MapScan(m) {
					break
				}
				res.rows = append(res.rows, m["v"].(int))
			}
			res.err = it.Close()
		case "slicemap":
			ms, e := it.SliceMap()
			if e != nil {
				res.nilr, res.err = true, e
				return
			}
			for _, m := range ms {
				res.rows = append(res.rows, m["v"].(int))
			}
			res.err = it.Close()
		default:
			panic("bad consumer")
		}
	}()
	var res result
	select {
	case res = <-done:
	case <-time.After(60 * time.Second):
		return "hang"
	}
	if res.err != nil && strings.HasPrefix(res.err.Error(), "crash:") {
		return res.err.Error()
	}
	rows := showRows(res.rows)
	if res.nilr {
		rows = "nil"
	}
	// the consumer drained to the end: every fetch (the prefetched ones included) has completed
	return fmt.Sprintf("rows=%s err=%s reqs=%s", rows, errClass(res.err), env.reqLog())
}

func psessTier(r *vh.Rng, out *vh.Out, tier string) map[string]interface{} {
	g := &wgen{r: r}
	consumers := []string{"scan", "scanner", "mapscan", "slicemap"}
	pkinds := []string{"x", "xs", "xd"}
	type job struct {
		op  string
		cls string
	}
	var jobs []job
	mk := func(ver int, consumer, pf string, ps int, kind string, script []reply) string {
		sc := make([]string, len(script))
		for i, x := range script {
			sc[i] = x.String()
		}
		return fmt.Sprintf("psess v%d %s %s %d %s %s", ver, consumer, pf, ps, kind, strings.Join(sc, ";"))
	}
	pfail := func() reply { return reply{fail: "p", code: prepFailCodes[r.Intn(len(prepFailCodes))]} }
	// exhaustive: 0..3 pages before the failing PREPARE (0 = the very first PREPARE; otherwise after an UNPREPARED at
	// that page), pages of 0..2 rows, every consumer, every kind
	for _, c := range consumers {
		for before := 0; before <= 3; before++ {
			for n := 0; n <= 2; n++ {
				g.next = 0
				sizes := make([]int, before+1)
				for i := range sizes {
					sizes[i] = (n + i) % 3
				}
				script := g.script(sizes, 0, -1)
				var sc []reply
				sc = append(sc, script[:before]...)
				if before > 0 {
					sc = append(sc, reply{fail: "u"})
				}
				sc = append(sc, pfail())
				sc = append(sc, script[before:]...) // must never be asked for
				jobs = append(jobs, job{mk(2+(before+n)%4, c, prefetches[(before+n)%len(prefetches)], 5000, pkinds[(before+n)%3], sc),
					fmt.Sprintf("psess-exh/%s/before%d", c, before)})
			}
		}
	}
	n := 500
	if tier == "thorough" {
		n = 8000
	}
	for i := 0; i < n; i++ {
		ws, _ := g.random()
		for ws.kind == "q" {
			ws.kind = pkinds[r.Intn(3)]
		}
		// strip UNPREPAREDs of the base script, then place: a failing first PREPARE | UNPREPARED + failing PREPARE
		// at a random page | UNPREPARED + successful re-PREPARE (no failure at all)
		var pages []reply
		for _, x := range ws.script {
			if x.fail != "u" {
				pages = append(pages, x)
			}
		}
		var sc []reply
		cls := ""
		switch r.Intn(6) {
		case 0:
			sc = append([]reply{pfail()}, pages...)
			cls = "first"
		case 1:
			at := r.Intn(len(pages))
			sc = append(sc, pages[:at]...)
			sc = append(sc, reply{fail: "u"})
			sc = append(sc, pages[at:]...)
			cls = "unprepared-ok"
		default:
			at := r.Intn(len(pages))
			sc = append(sc, pages[:at]...)
			if r.Intn(4) == 0 {
				sc = append(sc, reply{fail: "u"}) // two UNPREPARED round trips, the second PREPARE fails
			}
			sc = append(sc, reply{fail: "u"}, pfail())
			sc = append(sc, pages[at:]...)
			cls = fmt.Sprintf("after-unprepared/page%d", at)
		}
		c := consumers[r.Intn(4)]
		op := mk(ws.ver, c, ws.prefetch, ws.pageSize, ws.kind, sc)
		op = strings.Replace(op, fmt.Sprintf("psess v%d ", ws.ver), "psess "+ws.vtok()+" ", 1) // delay / compression of the walk scenario
		jobs = append(jobs, job{op, "psess/" + c + "/" + cls})
	}
	res := make([]string, len(jobs))
	var wg sync.WaitGroup
	sem := make(chan struct{}, 24)
	for i := range jobs {
		wg.Add(1)
		sem <- struct{}{}
		go func(i int) {
			defer wg.Done()
			defer func() { <-sem }()
			journalStart(5000000+i, jobs[i].op)
			res[i] = execPsess(jobs[i].op)
			journalDone(5000000+i, res[i])
		}(i)
	}
	wg.Wait()
	for i, j := range jobs {
		out.Case(j.op, res[i], j.cls, true)
	}
	return map[string]interface{}{"psess_scenarios": len(jobs)}
}
