// Tier `csess` of the C15 harness: a paged statement bound to ONE connection (Conn.query: `q.conn = c`,
// skipPrepare, consistency ONE) — the way the driver runs its own system.peers / system_schema.* queries, whose
// results do span pages on large clusters and schemas. The first page comes from conn.executeQuery directly (no
// query executor), every further page from nextIter.fetch's `n.qry.conn != nil` branch. Real Session, one
// scripted node (the walk tier's); page size and prefetch are the SESSION's (Session.SetPageSize / SetPrefetch).
//
//	csess v<2..5> <scan|scanner|mapscan|slicemap> <prefetch> <pagesize> <script>   -> rows=… err=… reqs=…
//
// Same model and specification as an unprepared `sess` scenario (Paging.run / Spec.rows, err, reqs).
package main

import (
	"context"
	"fmt"
	"strconv"
	"strings"
	"sync"
	"time"

	"github.com/gocql/gocql"
	"verifharness/vh"
)

func execCsess(op string) (answer string) {
	defer func() {
		if r := recover(); r != nil {
			answer = fmt.Sprintf("crash:%v", r)
		}
	}()
	w := strings.Fields(op)
	if len(w) != 6 {
		return "bad-op"
	}
	sc := parseWalk(fmt.Sprintf("walk %s %s 0.25 5000 q %s d", w[1], w[2], w[5]))
	pf, err := strconv.ParseFloat(w[3], 64)
	if err != nil {
		return "bad-op"
	}
	ps, err := strconv.Atoi(w[4])
	if err != nil {
		return "bad-op"
	}
	env, fatal := setupWalk(sc)
	if fatal != "" {
		return fatal
	}
	defer env.s.Close()
	defer env.cancel()
	env.s.SetPageSize(ps)
	env.s.SetPrefetch(pf)
	conns := gocql.VerifSessionConns(env.s)
	if len(conns) != 1 {
		return "fatal:no connection"
	}
	type result struct {
		rows []int
		err  error
		nilr bool
	}
	done := make(chan result, 1)
	go func() {
		var res result
		defer func() {
			if r := recover(); r != nil {
				res.err = fmt.Errorf("crash:%v", r)
			}
			done <- res
		}()
		it := gocql.VerifC15ConnQuery(conns[0], context.Background(), stmtPlain)
		switch sc.consumer {
		case "scan":
			var v int
			for it.Scan(&v) {
				res.rows = append(res.rows, v)
			}
			res.err = it.Close()
		case "scanner":
			scn := it.Scanner()
			for scn.Next() {
				var v int
				if e := scn.Scan(&v); e != nil {
					panic("scan-error:" + e.Error())
				}
				res.rows = append(res.rows, v)
			}
			res.err = scn.Err()
		case "mapscan":
			for {
				m := map[string]interface{}{}
				if !it.MapScan(m) {
					break
				}
				res.rows = append(res.rows, m["v"].(int))
			}
			res.err = it.Close()
		case "slicemap":
			ms, e := it.SliceMap()
			if e != nil {
				res.nilr, res.err = true, e
				return
			}
			for _, m := range ms {
				res.rows = append(res.rows, m["v"].(int))
			}
			res.err = it.Close()
		default:
			panic("bad consumer")
		}
	}()
	var res result
	select {
	case res = <-done:
	case <-time.After(60 * time.Second):
		return "hang"
	}
	if res.err != nil && strings.HasPrefix(res.err.Error(), "crash:") {
		return res.err.Error()
	}
	rows := showRows(res.rows)
	if res.nilr {
		rows = "nil"
	}
	return fmt.Sprintf("rows=%s err=%s reqs=%s", rows, errClass(res.err), env.reqLog())
}

func csessTier(r *vh.Rng, out *vh.Out, tier string) map[string]interface{} {
	g := &wgen{r: r}
	consumers := []string{"scan", "scanner", "mapscan", "slicemap"}
	type job struct {
		op  string
		cls string
	}
	var jobs []job
	mk := func(ver int, consumer, pf string, ps int, script []reply) string {
		sc := make([]string, len(script))
		for i, x := range script {
			sc[i] = x.String()
		}
		return fmt.Sprintf("csess v%d %s %s %d %s", ver, consumer, pf, ps, strings.Join(sc, ";"))
	}
	// exhaustive: <= 2 has_more_pages pages of 0..2 rows, then a last page of 0..2 rows | server error | exhausted, every consumer
	for _, c := range consumers {
		for np := 0; np <= 2; np++ {
			for n := 0; n <= 2; n++ {
				for term := 0; term < 3; term++ {
					g.next = 0
					sizes := make([]int, np+1)
					for i := range sizes {
						sizes[i] = (n + 2*i) % 3
					}
					jobs = append(jobs, job{mk(2+(np+n+term)%4, c, prefetches[(np+n+term)%len(prefetches)], pageSizes[(np+2*n+term)%len(pageSizes)], g.script(sizes, term, -1)),
						fmt.Sprintf("csess-exh/%s/more%d/term%d", c, np, term)})
				}
			}
		}
	}
	n := 600
	if tier == "thorough" {
		n = 10000
	}
	for i := 0; i < n; i++ {
		ws, cls := g.random()
		// UNPREPARED answers to an unprepared statement are legal for the script too (the driver runs the request again)
		c := consumers[r.Intn(4)]
		op := mk(ws.ver, c, ws.prefetch, ws.pageSize, ws.script)
		op = strings.Replace(op, fmt.Sprintf("csess v%d ", ws.ver), "csess "+ws.vtok()+" ", 1) // delay / compression of the walk scenario
		jobs = append(jobs, job{op, "csess/" + c + "/" + strings.SplitN(cls, "/", 4)[3]})
	}
	res := make([]string, len(jobs))
	var wg sync.WaitGroup
	sem := make(chan struct{}, 24)
	for i := range jobs {
		wg.Add(1)
		sem <- struct{}{}
		go func(i int) {
			defer wg.Done()
			defer func() { <-sem }()
			journalStart(6000000+i, jobs[i].op)
			res[i] = execCsess(jobs[i].op)
			journalDone(6000000+i, res[i])
		}(i)
	}
	wg.Wait()
	for i, j := range jobs {
		out.Case(j.op, res[i], j.cls, true)
	}
	return map[string]interface{}{"csess_scenarios": len(jobs)}
}
