// Walk tier of the C15 harness: an application that consumes ONE paged iterator of a real gocql.Session
// step by step — single calls of Iter.Scan / Iter.MapScan / Scanner.Next, looks at Iter.NumRows(),
// Iter.WillSwitchPage() and Iter.PageState() in between, may stop anywhere (ABANDON the iterator) and
// closes it while the asynchronous prefetch of the next page may be running. Op line:
//
//	walk v<2..5> <scan|mapscan|scanner> <prefetch> <pagesize> <q|x|xs|xd> <script> <steps>
//	  script  as for `sess` (pages with DISTINCT non-empty paging states, Es<code>, Eu; 1 node)
//	  steps   `,`-separated:
//	    s<k>  k single calls of the consumer, stopping at the first that returns false
//	          -> `s=<rows delivered>/<T|F result of the last call>`
//	    o     -> `o=<NumRows>/<WillSwitchPage 0|1>/<PageState hex|.>` (of the Scanner's current Iter for `scanner`)
//	    a     probe whether Iter.Scan has started the asynchronous prefetch of the current page's next page
//	          (hook VerifC15PrefetchProbe: fetchAsync runs synchronously inside Scan, so this is decided when
//	          Scan returns); if it has: wait until the node has received the request carrying this page's
//	          paging state (the goroutine exists), then until that fetch is complete (nextIter.fetch)
//	          -> a0 not started (now disarmed) | a1 started | a2 probed before | a3 no next page | a9 started, but its request never arrived
//	    d     drain with the consumer -> `d=<rows>`     D  drain with SliceMap -> `D=<rows>` | `D=nil`
//	  then: Close() / Scanner.Err(), an un-probed prefetch is awaited as in `a`, and the node's request log is read.
//
// DETERMINISM: whether the prefetch was started is read off the real nextIter (not predicted); if it was,
// its request WILL arrive (waited for without a deadline that matters: 8 s, then `a9`), if it was not, no
// goroutine exists that could send one. So the request log at the moment of abandonment is exact.
package main

import (
	"bytes"
	"context"
	"fmt"
	"strconv"
	"strings"
	"sync"
	"sync/atomic"
	"time"

	"github.com/gocql/gocql"
	"github.com/golang/snappy"
	"verifharness/memcluster"
	"verifharness/sess"
	"verifharness/vh"
)

var prefetchNeverArrived int32

type walkScen struct {
	zbits    string // `v<n>[d]z<bits>`: snappy negotiated; the k-th QUERY/EXECUTE answer is sent compressed iff bits[k mod len] = 1
	delay    bool   // `v<n>d`: the node holds the answer to every follow-up request for a moment (see setupWalk)
	ver      int
	consumer string
	prefetch string
	pageSize int
	kind     string
	script   []reply
	steps    []string
}

// vtok is the version token of the op line: v<ver>[d][z<bits>]
func (s walkScen) vtok() string {
	t := fmt.Sprintf("v%d", s.ver)
	if s.delay {
		t += "d"
	}
	if s.zbits != "" {
		t += "z" + s.zbits
	}
	return t
}

func (s walkScen) String() string {
	sc := make([]string, len(s.script))
	for i, r := range s.script {
		sc[i] = r.String()
	}
	d := ""
	if s.delay {
		d = "d"
	}
	if s.zbits != "" {
		d += "z" + s.zbits
	}
	return fmt.Sprintf("walk v%d%s %s %s %d %s %s %s", s.ver, d, s.consumer, s.prefetch, s.pageSize, s.kind, strings.Join(sc, ";"), strings.Join(s.steps, ","))
}

func parseWalk(op string) walkScen {
	w := strings.Fields(op)
	if len(w) != 8 || (w[0] != "walk" && w[0] != "walko" && w[0] != "walkc") {
		panic("bad walk op")
	}
	// reuse the session tier's parser for the script
	vtok, zbits := w[1], ""
	if i := strings.Index(vtok, "z"); i >= 0 {
		vtok, zbits = vtok[:i], vtok[i+1:]
		if zbits == "" || strings.Trim(zbits, "01") != "" {
			panic("bad compression bits")
		}
	}
	delay := strings.HasSuffix(vtok, "d")
	ps := parseScen(fmt.Sprintf("sess %s scan %s %s %s . %s", strings.TrimSuffix(vtok, "d"), w[3], w[4], w[5], w[6]))
	return walkScen{zbits: zbits, delay: delay, ver: ps.ver, consumer: w[2], prefetch: w[3], pageSize: ps.pageSize, kind: w[5], script: ps.script, steps: strings.Split(w[7], ",")}
}

func execWalk(op string) (answer string) {
	defer func() {
		if r := recover(); r != nil {
			answer = fmt.Sprintf("crash:%v", r)
		}
	}()
	sc := parseWalk(op)
	env, fatal := setupWalk(sc)
	if fatal != "" {
		return fatal
	}
	defer env.s.Close()
	defer env.cancel()
	return env.walk(sc)
}

// walkEnv is one real Session against one scripted node, with the paged query of the scenario.
type walkEnv struct {
	s      *gocql.Session
	q      *gocql.Query
	mu     sync.Mutex
	log    []string
	states [][]byte // paging state of every QUERY/EXECUTE received
	cancel func()   // cancels the query's context
}

func (e *walkEnv) reqLog() string {
	e.mu.Lock()
	defer e.mu.Unlock()
	if len(e.log) == 0 {
		return "-"
	}
	return strings.Join(e.log, ",")
}

func setupWalk(sc walkScen) (env *walkEnv, fatal string) {
	env = &walkEnv{}
	mu, log, states := &env.mu, &env.log, &env.states
	cl := memcluster.NewCluster(sc.ver, "10.0.0.1")
	nreq := 0 // QUERY/EXECUTE requests received
	idx := 0  // script entries (fetch attempts) consumed
	var first string
	cols := []memcluster.Col{{Name: "v", Type: memcluster.TInt}}
	// COMPRESSION AS A DIMENSION: with snappy negotiated the protocol compresses a body only if the frame's flag says
	// so; the scripted node answers the k-th QUERY/EXECUTE compressed or not as the scenario's bits say (every other
	// answer uncompressed). What the application receives must not depend on it.
	send := func(req *memcluster.Request, k int, op byte, body []byte) {
		if sc.zbits != "" && sc.zbits[k%len(sc.zbits)] == '1' {
			f := &memcluster.Frame{Version: byte(sc.ver) | 0x80, Flags: 0x01, Stream: req.Stream, Op: op, Body: snappy.Encode(nil, body)}
			req.Conn.WriteRaw(f.Encode(sc.ver))
			return
		}
		req.Conn.Reply(req.Stream, op, body)
	}
	handle := func(req *memcluster.Request) {
		switch req.Op {
		case memcluster.OpPrepare:
			mu.Lock()
			*log = append(*log, "P")
			// tier psess: the entry of the fetch attempt this PREPARE belongs to may say that it fails
			failCode := -1
			if idx < len(sc.script) && sc.script[idx].fail == "p" {
				failCode = sc.script[idx].code
				idx++
			}
			mu.Unlock()
			if failCode >= 0 {
				req.Conn.Reply(req.Stream, memcluster.OpError, memcluster.ErrorBody(int32(failCode), "scripted prepare failure", nil))
				return
			}
			req.Conn.Reply(req.Stream, memcluster.OpResult, memcluster.PreparedBody(sc.ver, preparedID,
				[]memcluster.Col{{Name: "id", Type: memcluster.TInt}}, []int{0}, cols))
		case memcluster.OpQuery, memcluster.OpExecute:
			skip := req.QFlags&0x02 != 0
			ident := fmt.Sprintf("%q %x %v c%d s%d f%x e%v", req.Stmt, req.PreparedID, req.Values, req.Consistency, req.Serial, req.QFlags&^0x08, req.ParseErr)
			mu.Lock()
			k := idx
			idx++
			if nreq == 0 {
				first = ident
			}
			nreq++
			same := "="
			if ident != first {
				same = "!"
			}
			name := "Q"
			if req.Op == memcluster.OpExecute {
				name = "X"
				if skip {
					name = "Xs"
				}
			}
			st, ps := ".", "."
			if req.QFlags&0x08 != 0 {
				st = vh.Hex(req.PageState)
				*states = append(*states, append([]byte{}, req.PageState...))
			}
			if req.HasPageSize {
				ps = strconv.Itoa(int(req.PageSize))
			}
			*log = append(*log, fmt.Sprintf("%s%s:%s:%s", name, same, st, ps))
			var r reply
			if k < len(sc.script) {
				r = sc.script[k]
			} else {
				r = reply{fail: "exhausted"}
			}
			// THE NODE KNOWS ITS PAGING STATES: a request must carry exactly the state of the page served before it (none
			// for the first page; UNPREPARED / failed-PREPARE entries do not change it). Any other state is answered like a
			// real server answers a paging state it did not hand out: ERROR 0x2200 — so a wrong state shows in what the
			// application receives (op `walk`, spec-backed), not only in the request log.
			if k < len(sc.script) {
				j := k - 1
				for j >= 0 && (sc.script[j].fail == "u" || sc.script[j].fail == "p") {
					j--
				}
				var want []byte
				if j >= 0 && sc.script[j].fail == "" {
					want = sc.script[j].state
				}
				var got []byte
				if req.QFlags&0x08 != 0 {
					got = req.PageState
				}
				if (j < 0 || sc.script[j].fail == "") && !bytes.Equal(want, got) {
					r = reply{fail: "s", code: 0x2200}
				}
			}
			mu.Unlock()
			if sc.delay && req.QFlags&0x08 != 0 {
				// PREFETCH RACING THE CONSUMER: with the answer to a follow-up request held for a moment, a consumer that
				// keeps scanning reaches the page switch while the asynchronous fetch is still in flight and has to
				// wait for it inside nextIter.fetch (sync.Once hand-over). Outcomes do not depend on the timing.
				time.Sleep(300 * time.Microsecond)
			}
			switch r.fail {
			case "":
				rows := make([][][]byte, len(r.rows))
				for i, v := range r.rows {
					rows[i] = [][]byte{{byte(v >> 24), byte(v >> 16), byte(v >> 8), byte(v)}}
				}
				send(req, k, memcluster.OpResult, memcluster.RowsBody(cols, rows, r.state, skip))
			case "s", "p": // ("p": an entry no PREPARE consumed — not generated)
				var extra []byte
				switch r.code {
				case memcluster.ErrUnavailable:
					extra = memcluster.UnavailableExtra(1, 2, 1)
				case memcluster.ErrReadTO:
					extra = memcluster.ReadTimeoutExtra(1, 1, 2, 0)
				case memcluster.ErrWriteTO:
					extra = memcluster.WriteTimeoutExtra(1, 1, 2, "SIMPLE")
				}
				send(req, k, memcluster.OpError, memcluster.ErrorBody(int32(r.code), "scripted", extra))
			case "u":
				send(req, k, memcluster.OpError, memcluster.ErrorBody(memcluster.ErrUnprepared, "unprepared", memcluster.UnpreparedExtra(preparedID)))
			default:
				send(req, k, memcluster.OpError, memcluster.ErrorBody(memcluster.ErrServer, "script exhausted", nil))
			}
		default:
			req.Conn.Reply(req.Stream, memcluster.OpResult, memcluster.VoidBody())
		}
	}
	for _, n := range cl.Nodes {
		n.Handle = handle
		if sc.zbits != "" {
			n.Supported = map[string][]string{"CQL_VERSION": {"3.0.0"}, "COMPRESSION": {"snappy"}}
			n.FrameHook = func(_ *memcluster.ServerConn, f *memcluster.Frame) bool {
				if f.Flags&0x01 != 0 { // the driver compresses every request body once snappy is negotiated
					if b, err := snappy.Decode(nil, f.Body); err == nil {
						f.Body, f.Flags = b, f.Flags&^0x01
					}
				}
				return false
			}
		}
	}
	cfg := sess.Config(cl, sc.ver, "10.0.0.1")
	if sc.zbits != "" {
		cfg.Compressor = gocql.SnappyCompressor{}
	}
	cfg.Timeout = 20 * time.Second
	cfg.ConnectTimeout = 20 * time.Second
	cfg.WriteTimeout = 20 * time.Second
	cfg.DisableSkipMetadata = sc.kind == "xd"
	s, err := cfg.CreateSession()
	if err != nil {
		return nil, "fatal:" + err.Error()
	}
	env.s = s
	if sc.pageSize == 3 {
		s.SetPageSize(3)
	}
	if sc.prefetch == "0.5" {
		s.SetPrefetch(0.5)
	}
	if !sess.WaitConns(s, 1, 10*time.Second) {
		s.Close()
		return nil, "fatal:no connection"
	}
	pf, err := strconv.ParseFloat(sc.prefetch, 64)
	if err != nil {
		s.Close()
		return nil, "bad-op"
	}
	var q *gocql.Query
	switch sc.kind {
	case "q":
		q = s.Query(stmtPlain)
	case "x":
		q = s.Query(stmtPrepared, 7).NoSkipMetadata()
	case "xs", "xd":
		q = s.Query(stmtPrepared, 7)
	default:
		s.Close()
		return nil, "bad-op"
	}
	if sc.pageSize != 5000 && sc.pageSize != 3 {
		q = q.PageSize(sc.pageSize)
	}
	if sc.prefetch != "0.25" && sc.prefetch != "0.5" {
		q = q.Prefetch(pf)
	}
	ctx, cancel := context.WithCancel(context.Background())
	env.cancel = cancel
	env.q = q.WithContext(ctx)
	return env, ""
}

func (env *walkEnv) walk(sc walkScen) string {
	q, mu, states := env.q, &env.mu, &env.states
	done := make(chan string, 1)
	go func() {
		var res string
		defer func() {
			if r := recover(); r != nil {
				res = fmt.Sprintf("crash:%v", r)
			}
			done <- res
		}()
		it := q.Iter()
		var scn gocql.Scanner
		if sc.consumer == "scanner" {
			scn = it.Scanner()
		}
		cur := func() *gocql.Iter {
			if scn != nil {
				return gocql.VerifC15ScannerIter(scn)
			}
			return it
		}
		var all []int
		one := func() (int, bool) {
			switch sc.consumer {
			case "scan":
				var v int
				if it.Scan(&v) {
					return v, true
				}
			case "mapscan":
				m := map[string]interface{}{}
				if it.MapScan(m) {
					return m["v"].(int), true
				}
			case "scanner":
				if scn.Next() {
					var v int
					if e := scn.Scan(&v); e != nil {
						panic("scan-error:" + e.Error())
					}
					return v, true
				}
			default:
				panic("bad consumer")
			}
			return 0, false
		}
		probed := map[interface{}]bool{}
		origState := map[interface{}][]byte{}
		await := func(c *gocql.Iter) int {
			tok := gocql.VerifC15NextToken(c)
			if tok == nil {
				return 3
			}
			if probed[tok] {
				return 2
			}
			probed[tok] = true
			if !gocql.VerifC15PrefetchProbe(c) {
				return 0
			}
			// started: the goroutine exists, so its request arrives
			want := c.PageState()
			if o, ok := origState[tok]; ok {
				want = o // the caller has overwritten its view of the state (step m): the node is asked with the original
			}
			// 8 s are far more than a goroutine needs to put a request on the in-memory pipe, whatever the load; once a
			// request has failed to arrive in this process (the code under test starts no fetch), later waits are short
			wait := 8 * time.Second
			if atomic.LoadInt32(&prefetchNeverArrived) != 0 {
				wait = 20 * time.Millisecond
			}
			deadline := time.Now().Add(wait)
			for {
				mu.Lock()
				seenIt := false
				for _, st := range *states {
					if bytes.Equal(st, want) {
						seenIt = true
					}
				}
				mu.Unlock()
				if seenIt {
					break
				}
				if time.Now().After(deadline) {
					atomic.StoreInt32(&prefetchNeverArrived, 1)
					return 9 // oncea has fired but no request arrives: no goroutine is fetching (not a crash of gocql: a disagreement of op walko)
				}
				time.Sleep(50 * time.Microsecond)
			}
			gocql.VerifC15AwaitNext(c)
			return 1
		}
		var obs []string
		nilr := false
		for _, st := range sc.steps {
			if nilr {
				panic("step after SliceMap failed")
			}
			switch {
			case strings.HasPrefix(st, "s"):
				k, e := strconv.Atoi(st[1:])
				if e != nil {
					panic("bad step")
				}
				var got []int
				last := true
				for i := 0; i < k; i++ {
					v, ok := one()
					if !ok {
						last = false
						break
					}
					got = append(got, v)
				}
				all = append(all, got...)
				r := "T"
				if !last {
					r = "F"
				}
				obs = append(obs, fmt.Sprintf("s=%s/%s", showRows(got), r))
			case st == "o":
				c := cur()
				ws := 0
				if c.WillSwitchPage() {
					ws = 1
				}
				ps := "."
				if p := c.PageState(); len(p) > 0 {
					ps = vh.Hex(p)
				}
				obs = append(obs, fmt.Sprintf("o=%d/%d/%s", c.NumRows(), ws, ps))
			case st == "a":
				obs = append(obs, fmt.Sprintf("a%d", await(cur())))
			case st == "m":
				// A CALLER THAT MUTATES WHAT THE API HANDED IT: the slice returned by Iter.PageState() is overwritten (every
				// byte flipped); the driver's own copy — what the next page is requested with — must not change
				p := cur().PageState()
				if tok := gocql.VerifC15NextToken(cur()); tok != nil {
					if _, ok := origState[tok]; !ok {
						origState[tok] = append([]byte{}, p...)
					}
				}
				for i := range p {
					p[i] ^= 0xff
				}
				obs = append(obs, "m")
			case st == "x":
				// the caller cancels the query's context; the generator puts an `a` right before, so no fetch is in flight
				env.cancel()
				obs = append(obs, "x")
			case st == "d":
				var got []int
				for {
					v, ok := one()
					if !ok {
						break
					}
					got = append(got, v)
				}
				all = append(all, got...)
				obs = append(obs, "d="+showRows(got))
			case st == "D":
				if sc.consumer == "scanner" {
					panic("bad step")
				}
				ms, e := it.SliceMap()
				if e != nil {
					nilr = true
					obs = append(obs, "D=nil")
					break
				}
				var got []int
				for _, m := range ms {
					got = append(got, m["v"].(int))
				}
				all = append(all, got...)
				obs = append(obs, "D="+showRows(got))
			default:
				panic("bad step")
			}
		}
		c := cur()
		var cerr error
		if scn != nil {
			cerr = scn.Err()
		} else {
			cerr = it.Close()
		}
		// let a running prefetch finish (Close does not stop it), then the log is final
		await(c)
		res = fmt.Sprintf("%s rows=%s err=%s reqs=%s", strings.Join(obs, ";"), showRows(all), errClass(cerr), env.reqLog())
	}()
	select {
	case a := <-done:
		return a
	case <-time.After(60 * time.Second):
		return "hang"
	}
}

// reduceWalk keeps what the specification determines (op `walk`): the strides, all rows, and the final error
// once a call has returned false; the full answer is op `walko`.
func reduceWalk(full string) string {
	f := strings.Fields(full)
	if len(f) != 4 || !strings.HasPrefix(f[1], "rows=") || !strings.HasPrefix(f[2], "err=") {
		return full // crash:, hang, fatal:
	}
	var keep []string
	ended := false
	for _, o := range strings.Split(f[0], ";") {
		if strings.HasPrefix(o, "s=") || strings.HasPrefix(o, "d=") || strings.HasPrefix(o, "D=") {
			keep = append(keep, o)
			if strings.HasSuffix(o, "/F") || !strings.HasPrefix(o, "s=") {
				ended = true
			}
		}
	}
	e := "err=*"
	if ended {
		e = f[2]
	}
	k := "-"
	if len(keep) > 0 {
		k = strings.Join(keep, ";")
	}
	return fmt.Sprintf("%s %s %s", k, f[1], e)
}

// ---------- generation ----------

type wgen struct {
	r    *vh.Rng
	next int
}

func (g *wgen) rows(n int) []int32 {
	out := make([]int32, n)
	for i := range out {
		g.next++
		out[i] = int32(g.next)
	}
	return out
}

// script: np pages with DISTINCT non-empty states; terminal last page | server error | exhausted
func (g *wgen) script(sizes []int, term int, unprepAt int) []reply {
	var sc []reply
	for i, n := range sizes {
		if i == unprepAt {
			sc = append(sc, reply{fail: "u"})
		}
		st := []byte{byte(i + 1), byte(g.r.Intn(256))}
		if i == len(sizes)-1 {
			switch term {
			case 0:
				sc = append(sc, reply{rows: g.rows(n)})
			case 1:
				sc = append(sc, reply{rows: g.rows(n), state: st}, reply{fail: "s", code: srvCodes[g.r.Intn(len(srvCodes))]})
			default:
				sc = append(sc, reply{rows: g.rows(n), state: st}) // has_more_pages, script exhausted
			}
		} else {
			sc = append(sc, reply{rows: g.rows(n), state: st})
		}
	}
	return sc
}

var walkConsumers = []string{"scan", "mapscan", "scanner"}

func (g *wgen) random() (walkScen, string) {
	g.next = 0
	sc := walkScen{ver: 2 + g.r.Intn(4), consumer: walkConsumers[g.r.Intn(3)], prefetch: prefetches[g.r.Intn(len(prefetches))],
		pageSize: pageSizes[g.r.Intn(len(pageSizes))], kind: kinds[g.r.Intn(len(kinds))]}
	np := 1 + g.r.Intn(5)
	sizes := make([]int, np)
	total := 0
	for i := range sizes {
		switch g.r.Intn(6) {
		case 0:
			sizes[i] = 0
		case 1:
			sizes[i] = 1
		case 2:
			sizes[i] = 4 + g.r.Intn(9) // room for every threshold of the quarter prefetches
		default:
			sizes[i] = g.r.Intn(6)
		}
		total += sizes[i]
	}
	sc.delay = g.r.Intn(4) == 0
	if g.r.Intn(3) == 0 {
		sc.zbits = []string{"0", "1", "01", "10", "001", "110", "0110", "1001"}[g.r.Intn(8)]
	}
	unprepAt := -1
	if sc.kind != "q" && g.r.Intn(6) == 0 {
		unprepAt = g.r.Intn(np)
	}
	term := g.r.Intn(4)
	sc.script = g.script(sizes, term, unprepAt)
	// steps: a walk of random strides with observations / probes in between; abandoned or drained
	ns := 1 + g.r.Intn(6)
	abandoned := "abandon"
	for i := 0; i < ns; i++ {
		switch g.r.Intn(8) {
		case 0, 1:
			sc.steps = append(sc.steps, "o")
		case 2:
			if g.r.Intn(2) == 0 {
				sc.steps = append(sc.steps, "m")
			} else {
				sc.steps = append(sc.steps, "a")
			}
		default:
			k := 1 + g.r.Intn(4)
			if g.r.Intn(4) == 0 {
				k = g.r.Intn(total + 2)
			}
			sc.steps = append(sc.steps, "s"+strconv.Itoa(k))
			if g.r.Intn(2) == 0 {
				sc.steps = append(sc.steps, "o")
			}
		}
	}
	switch g.r.Intn(5) {
	case 0:
		sc.steps = append(sc.steps, "d")
		abandoned = "drain"
	case 1:
		if sc.consumer != "scanner" {
			sc.steps = append(sc.steps, "D")
			abandoned = "slicemap"
		}
	case 2:
		sc.steps = append(sc.steps, "a")
	}
	t := []string{"last", "fail", "exhausted", "exhausted"}[term]
	return sc, fmt.Sprintf("walk/%s/%s/%s/pf%s", sc.consumer, abandoned, t, sc.prefetch)
}

// exhaustive: one or two pages of 0..4 rows before a last page, every prefetch, every consumer, the
// walk abandoned after every number of rows 0..total+1 (then `o`, `a`, Close)
func (g *wgen) exhaustive(emit func(walkScen, string)) {
	for _, c := range walkConsumers {
		for _, pf := range prefetches {
			for n1 := 0; n1 <= 4; n1++ {
				for n2 := -1; n2 <= 2; n2 += 3 { // one page before the last, or two (second of 2 rows)
					g.next = 0
					sizes := []int{n1}
					if n2 >= 0 {
						sizes = append(sizes, n2)
					}
					sizes = append(sizes, 1)
					total := n1 + 1
					if n2 >= 0 {
						total += n2
					}
					script := g.script(sizes, 0, -1)
					for k := 0; k <= total+1; k++ {
						sc := walkScen{ver: 4, consumer: c, prefetch: pf, pageSize: 5000, kind: kinds[(k+n1)%len(kinds)], script: script}
						if k > 0 {
							sc.steps = append(sc.steps, "s"+strconv.Itoa(k))
						}
						sc.steps = append(sc.steps, "o", "a")
						emit(sc, fmt.Sprintf("walk-exh/%s/pf%s", c, pf))
					}
				}
			}
		}
	}
}

// compressed: snappy negotiated, every pattern of flagged / unflagged answers over three pages of 3..4 rows, the
// walk takes k rows of a page, lets the prefetched next page ARRIVE (`a`: its answer has been read off the
// connection while rows of the current page are still unread), then takes the rest — for every k, prefetch 1 and
// 0.5, every API, every page
func (g *wgen) compressed(emit func(walkScen, string)) {
	for _, c := range walkConsumers {
		for _, bits := range []string{"0", "1", "01", "10", "011", "100"} {
			for _, pf := range []string{"1", "0.5"} {
				for k := 2; k <= 3; k++ {
					g.next = 0
					script := g.script([]int{4, 3, 4}, 0, -1)
					sc := walkScen{zbits: bits, ver: 2 + (k+len(bits))%4, consumer: c, prefetch: pf, pageSize: 5000, kind: kinds[(k+len(bits))%len(kinds)], script: script}
					// page 1: k rows, await, rest; page 2: k rows, await, drain
					sc.steps = []string{"s" + strconv.Itoa(k), "a", "s" + strconv.Itoa(4-k), "o", "s" + strconv.Itoa(k), "a", "d"}
					emit(sc, fmt.Sprintf("walk-z/%s/bits%s/pf%s", c, bits, pf))
				}
			}
		}
	}
}

// mutating: the caller overwrites the slice it got from PageState() — before the first row, mid-page (before and
// after the prefetch threshold), at the end of the page — on every page, then goes on; every prefetch, API, kind
func (g *wgen) mutating(emit func(walkScen, string)) {
	for _, c := range walkConsumers {
		for ki, kind := range kinds {
			for pi, pf := range prefetches {
				for k := 0; k <= 3; k++ {
					g.next = 0
					sc := walkScen{ver: 2 + (k+ki+pi)%4, consumer: c, prefetch: pf, pageSize: 5000, kind: kind, script: g.script([]int{3, 0, 3, 2}, 0, -1)}
					if k > 0 {
						sc.steps = append(sc.steps, "s"+strconv.Itoa(k))
					}
					sc.steps = append(sc.steps, "o", "m", "o", "s3", "m", "d")
					emit(sc, fmt.Sprintf("walk-mut/%s/%s/pf%s", c, kind, pf))
				}
			}
		}
	}
}

func walkTier(r *vh.Rng, out *vh.Out, tier string) map[string]interface{} {
	g := &wgen{r: r}
	type job struct {
		sc  walkScen
		cls string
	}
	var jobs []job
	emit := func(sc walkScen, cls string) { jobs = append(jobs, job{sc, cls}) }
	g.exhaustive(emit)
	g.compressed(emit)
	g.mutating(emit)
	n := 2500
	if tier == "thorough" {
		n = 40000
	}
	for i := 0; i < n; i++ {
		sc, cls := g.random()
		emit(sc, cls)
	}
	// cancellation walks (op walkc): the query's context is cancelled at a moment where no fetch is in flight —
	// right after an `a` (no prefetch started: it is disarmed; started: it has completed and its page is in hand)
	nWalk := len(jobs)
	nc := 700
	if tier == "thorough" {
		nc = 12000
	}
	for i := 0; i < nc; i++ {
		sc, cls := g.random()
		// drop the tail after a random point, put `a,x` there, then drain or stride on
		cut := r.Intn(len(sc.steps) + 1)
		steps := append([]string{}, sc.steps[:cut]...)
		for len(steps) > 0 && (steps[len(steps)-1] == "D" || steps[len(steps)-1] == "d") {
			steps = steps[:len(steps)-1]
		}
		steps = append(steps, "a", "x")
		switch r.Intn(4) {
		case 0:
			steps = append(steps, "o")
		case 1:
			steps = append(steps, "s"+strconv.Itoa(1+r.Intn(4)), "o", "d")
		case 2:
			if sc.consumer != "scanner" {
				steps = append(steps, "D")
			} else {
				steps = append(steps, "d")
			}
		default:
			steps = append(steps, "d")
		}
		sc.steps = steps
		emit(sc, "c/"+cls)
	}
	// walks under prefetch values whose threshold `int((1 - prefetch) * numRows)` is a matter of float rounding
	// (not modelled: the rows do not depend on the threshold, C15_walk_rows_spec holds for every position function):
	// compared as op `walk` only — strides, rows, final error
	nCancelEnd := len(jobs)
	oddPrefetches := []string{"0.1", "0.3", "0.7", "0.9", "0.99", "0.01", "0.333", "2", "-0.5"}
	no := 500
	if tier == "thorough" {
		no = 8000
	}
	for i := 0; i < no; i++ {
		sc, cls := g.random()
		sc.prefetch = oddPrefetches[r.Intn(len(oddPrefetches))]
		emit(sc, "odd-prefetch/"+cls)
	}
	opOf := func(i int) string {
		if i >= nWalk && i < nCancelEnd {
			return "walkc" + strings.TrimPrefix(jobs[i].sc.String(), "walk")
		}
		return jobs[i].sc.String()
	}
	res := make([]string, len(jobs))
	var wg sync.WaitGroup
	sem := make(chan struct{}, 24)
	for i := range jobs {
		wg.Add(1)
		sem <- struct{}{}
		go func(i int) {
			defer wg.Done()
			defer func() { <-sem }()
			journalStart(3000000+i, opOf(i))
			res[i] = execWalk(opOf(i))
			if strings.HasPrefix(opOf(i), "walk ") {
				journalDone(3000000+i, reduceWalk(res[i])) // what op `walk` answers (the full answer is op walko's)
			} else {
				journalDone(3000000+i, res[i])
			}
		}(i)
	}
	wg.Wait()
	for i, j := range jobs {
		if i >= nWalk && i < nCancelEnd {
			out.Case(opOf(i), res[i], j.cls, true)
			continue
		}
		op := j.sc.String()
		out.Case(op, reduceWalk(res[i]), j.cls, true)
		if i >= nCancelEnd {
			continue
		}
		out.Case("walko"+strings.TrimPrefix(op, "walk"), res[i], "o/"+j.cls, true)
	}
	return map[string]interface{}{"walk_scenarios": len(jobs)}
}
