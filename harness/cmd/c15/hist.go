// History tier of the C15 harness (op `hist`): ONE *gocql.Query object of a real Session is driven through
// a history of application calls — setters (Bind, PageSize, Prefetch, Consistency, SerialConsistency,
// WithTimestamp, CustomPayload, Trace, Observer, RetryPolicy, Idempotent, SetSpeculativeExecutionPolicy,
// PageState, NoSkipMetadata, WithContext, Release + Session.Query), Iter() calls that start iterators, Scan
// calls on any of the iterators started so far (interleaved in any order), cancellation of caller contexts
// — and every iterator is finally drained with the scenario's consumer.
//
// The scripted node is KEYED: it serves a page script per bound key (the int value of the EXECUTE; key 0 for
// an unprepared QUERY, which carries no values) and finds the page to serve by the paging state the request
// carries (all states of a scenario are distinct and non-empty; no state = page 0). A request whose state
// does not belong to the script of ITS key is answered with a server error and logged with the raw state.
// Answering by content makes the node stateless: duplicate requests (speculative executions) get the same
// answer, and the order in which requests of different iterators arrive does not matter. Since the request
// for page i+1 of a chain can only be built from answer i (the state is unguessable), order within a chain
// carries no information either: the request log is compared as a MULTISET, rendered in canonical order
// with every attribute the node decoded from the wire (opcode, skip-metadata, bound key, consistency, serial
// consistency, page size, timestamp, custom payload, tracing flag, page index of the state).
//
//	hist v<2..5>[n<nodes>] <q|x|xs> <consumer> <scripts> <steps>
//	  scripts  <key>=<script>|<key>=<script>...   script as in op `sess` (pages `rows:state`, `Es<code>`)
//	  steps    `,`-separated:
//	    b<k> Bind(k)            z<n> PageSize(n)          f<q> Prefetch(q/4)       c<n> Consistency(n)
//	    s<n> SerialConsistency  t<n> WithTimestamp(n) (t0: DefaultTimestamp(false))  p<n> CustomPayload{"p":[n]} (p0: nil)
//	    r<0|1> Trace            o<0|1> Observer           y<n>|y- RetryPolicy(Simple{n})|nil
//	    i<0|1> Idempotent       e<a><l|s> SetSpeculativeExecutionPolicy(Simple{a, 1h | 1µs})
//	    g<hex|.> PageState(hex|nil)   n NoSkipMetadata()   w<id> q = q.WithContext(ctx id) (0 = Background;
//	    wd<id>: with a deadline one hour ahead)           R<k> q.Release(); q = session.Query(stmt, k)
//	    x<id> cancel ctx id     I  q.Iter()               I<id> q.WithContext(ctx id).Iter()
//	    S<i>.<n> n Scan calls on iterator i               D<i> drain iterator i with <consumer>, Close
//
// Answer: per iterator the rows it delivered and its final error, the request multiset, the observer's
// multiset (bound key, rows, error per attempt) and the number of Tracer.Trace calls. In scenarios with a
// speculative execution policy of short delay (`e<a>s`, a > 0, on an idempotent query) the number of
// duplicates is a matter of scheduling: counts, observer and tracer are then not part of the answer.
package main

import (
	"context"
	"fmt"
	"runtime"
	"sort"
	"strconv"
	"strings"
	"sync"
	"sync/atomic"
	"time"

	"github.com/gocql/gocql"
	"github.com/golang/snappy"
	"verifharness/memcluster"
	"verifharness/sess"
	"verifharness/vh"
)

type hscen struct {
	zbits      string // v<n>[n<nodes>]z<bits>: snappy negotiated; the k-th answer to a QUERY/EXECUTE/PREPARE without tracing is compressed iff bits[k mod len] = 1
	ver, nodes int
	kind       string
	consumer   string
	keys       []int
	scripts    map[int][]reply
	steps      []string
}

func (h hscen) String() string {
	v := fmt.Sprintf("v%d", h.ver)
	if h.nodes > 1 {
		v += fmt.Sprintf("n%d", h.nodes)
	}
	if h.zbits != "" {
		v += "z" + h.zbits
	}
	var sc []string
	for _, k := range h.keys {
		var rs []string
		for _, r := range h.scripts[k] {
			rs = append(rs, r.String())
		}
		sc = append(sc, fmt.Sprintf("%d=%s", k, strings.Join(rs, ";")))
	}
	return fmt.Sprintf("hist %s %s %s %s %s", v, h.kind, h.consumer, strings.Join(sc, "|"), strings.Join(h.steps, ","))
}

func parseHist(op string) (h hscen, ok bool) {
	defer func() {
		if recover() != nil {
			ok = false
		}
	}()
	w := strings.Fields(op)
	if len(w) != 6 || w[0] != "hist" {
		return h, false
	}
	vtok := w[1]
	if i := strings.Index(vtok, "z"); i >= 0 {
		h.zbits, vtok = vtok[i+1:], vtok[:i]
		if h.zbits == "" || strings.Trim(h.zbits, "01") != "" {
			return h, false
		}
	}
	vn := strings.SplitN(strings.TrimPrefix(vtok, "v"), "n", 2)
	h.ver, _ = strconv.Atoi(vn[0])
	h.nodes = 1
	if len(vn) == 2 {
		h.nodes, _ = strconv.Atoi(vn[1])
	}
	if h.ver < 2 || h.ver > 5 || h.nodes < 1 || h.nodes > 8 {
		return h, false
	}
	h.kind, h.consumer = w[2], w[3]
	if h.kind != "q" && h.kind != "x" && h.kind != "xs" {
		return h, false
	}
	switch h.consumer {
	case "scan", "scanner", "mapscan", "slicemap":
	default:
		return h, false
	}
	h.scripts = map[int][]reply{}
	for _, ks := range strings.Split(w[4], "|") {
		kv := strings.SplitN(ks, "=", 2)
		if len(kv) != 2 {
			return h, false
		}
		k, err := strconv.Atoi(kv[0])
		if err != nil || k < 0 {
			return h, false
		}
		if _, dup := h.scripts[k]; dup {
			return h, false
		}
		sc := parseScen("sess v4 scan 0 0 q . " + kv[1])
		for _, r := range sc.script {
			if r.fail != "" && r.fail != "s" {
				return h, false
			}
		}
		h.keys = append(h.keys, k)
		h.scripts[k] = sc.script
	}
	h.steps = strings.Split(w[5], ",")
	return h, true
}

// hobs is the QueryObserver and the Tracer of a scenario.
type hobs struct {
	mu     sync.Mutex
	seen   []string
	traces int
}

func (o *hobs) ObserveQuery(_ context.Context, q gocql.ObservedQuery) {
	k := "-"
	if len(q.Values) > 0 {
		k = fmt.Sprint(q.Values[0])
	}
	o.mu.Lock()
	o.seen = append(o.seen, fmt.Sprintf("k%s:%d:%s", k, q.Rows, errClass(q.Err)))
	o.mu.Unlock()
}

func (o *hobs) Trace(id []byte) {
	o.mu.Lock()
	o.traces++
	o.mu.Unlock()
}

func multiset(l []string, counts bool) string {
	if len(l) == 0 {
		return "-"
	}
	m := map[string]int{}
	for _, s := range l {
		m[s]++
	}
	keys := make([]string, 0, len(m))
	for k := range m {
		keys = append(keys, k)
	}
	sort.Strings(keys)
	for i, k := range keys {
		if counts {
			keys[i] = fmt.Sprintf("%s*%d", k, m[k])
		}
	}
	return strings.Join(keys, ",")
}

var traceID = []byte{0xc1, 0x5c, 0x15, 0x7a, 0xce, 0x1d, 0x40, 0x00, 0x80, 0x00, 0x01, 0x02, 0x03, 0x04, 0x05, 0x06}

func runHist(h hscen) (answer string) {
	defer func() {
		if r := recover(); r != nil {
			answer = fmt.Sprintf("crash:%v", r)
		}
	}()
	var ips []string
	for i := 1; i <= h.nodes; i++ {
		ips = append(ips, fmt.Sprintf("10.0.0.%d", i))
	}
	cl := memcluster.NewCluster(h.ver, ips...)
	var mu sync.Mutex
	var log []string
	prepares := 0
	// state -> (key, index of the page the state asks for)
	type at struct{ key, idx int }
	states := map[string]at{}
	for _, k := range h.keys {
		for i, r := range h.scripts[k] {
			if r.fail == "" && r.state != nil {
				if len(r.state) == 0 {
					return "bad-op"
				}
				if _, dup := states[string(r.state)]; dup {
					return "bad-op"
				}
				states[string(r.state)] = at{k, i + 1}
			}
		}
	}
	cols := []memcluster.Col{{Name: "v", Type: memcluster.TInt}}
	var nAnswers int64
	reply := func(req *memcluster.Request, op byte, body []byte) {
		if req.Frame.Flags&0x02 != 0 {
			// tracing requested: the response carries a tracing id
			f := &memcluster.Frame{Version: byte(h.ver) | 0x80, Flags: 0x02, Stream: req.Stream, Op: op, Body: append(append([]byte{}, traceID...), body...)}
			req.Conn.WriteRaw(f.Encode(h.ver))
			return
		}
		if h.zbits != "" {
			// compression as a dimension (see walk.go): answers with and without the compression flag on one connection
			k := int(atomic.AddInt64(&nAnswers, 1) - 1)
			if h.zbits[k%len(h.zbits)] == '1' {
				f := &memcluster.Frame{Version: byte(h.ver) | 0x80, Flags: 0x01, Stream: req.Stream, Op: op, Body: snappy.Encode(nil, body)}
				req.Conn.WriteRaw(f.Encode(h.ver))
				return
			}
		}
		req.Conn.Reply(req.Stream, op, body)
	}
	handle := func(req *memcluster.Request) {
		switch req.Op {
		case memcluster.OpPrepare:
			mu.Lock()
			prepares++
			mu.Unlock()
			req.Conn.Reply(req.Stream, memcluster.OpResult, memcluster.PreparedBody(h.ver, preparedID,
				[]memcluster.Col{{Name: "id", Type: memcluster.TInt}}, []int{0}, cols))
		case memcluster.OpQuery, memcluster.OpExecute:
			name := "Q"
			key, kname := 0, "k-"
			if req.Op == memcluster.OpExecute {
				name = "X"
				if req.QFlags&0x02 != 0 {
					name = "Xs"
				}
				key, kname = -1, "k?"
				if len(req.Values) == 1 && len(req.Values[0]) == 4 {
					v := req.Values[0]
					key = int(int32(uint32(v[0])<<24 | uint32(v[1])<<16 | uint32(v[2])<<8 | uint32(v[3])))
					kname = fmt.Sprintf("k%d", key)
				}
				if string(req.PreparedID) != string(preparedID) {
					kname += "!id"
				}
			} else if req.Stmt != stmtPlain || len(req.Values) != 0 {
				kname = "k!"
			}
			sr, zs, ts, pl := "-", "-", "-", "-"
			if req.QFlags&0x10 != 0 {
				sr = strconv.Itoa(req.Serial)
			}
			if req.HasPageSize {
				zs = strconv.Itoa(int(req.PageSize))
			}
			if req.QFlags&0x20 != 0 {
				ts = "*" // the driver's clock
				if req.Timestamp >= 0 && req.Timestamp < 1000000 {
					ts = strconv.FormatInt(req.Timestamp, 10)
				}
			}
			if req.Frame.Flags&0x04 != 0 && h.ver >= 4 {
				r := &memcluster.R{B: req.Frame.Body}
				n := r.Short()
				var parts []string
				for i := 0; i < n && r.Err == nil; i++ {
					k := r.String()
					parts = append(parts, k+vh.Hex(r.Bytes()))
				}
				sort.Strings(parts)
				pl = strings.Join(parts, "+")
			}
			tr := 0
			if req.Frame.Flags&0x02 != 0 {
				tr = 1
			}
			other := req.QFlags &^ (0x01 | 0x02 | 0x04 | 0x08 | 0x10 | 0x20)
			ext := ""
			if other != 0 || req.ParseErr != nil {
				ext = fmt.Sprintf(".f%x.e%v", other, req.ParseErr != nil)
			}
			// which page?
			idx, known := 0, true
			if req.QFlags&0x08 != 0 {
				a, ok := states[string(req.PageState)]
				idx, known = a.idx, ok && a.key == key
			}
			script, haveScript := h.scripts[key]
			pg := strconv.Itoa(idx)
			if !known {
				pg = "?" + vh.Hex(req.PageState)
			}
			mu.Lock()
			log = append(log, fmt.Sprintf("%s.%s.c%d.s%s.z%s.t%s.p%s.r%d%s@%s", name, kname, req.Consistency, sr, zs, ts, pl, tr, ext, pg))
			mu.Unlock()
			switch {
			case !haveScript:
				reply(req, memcluster.OpError, memcluster.ErrorBody(0x2200, "no script for this key", nil))
			case !known:
				reply(req, memcluster.OpError, memcluster.ErrorBody(0x2200, "paging state of another query", nil))
			case idx >= len(script):
				reply(req, memcluster.OpError, memcluster.ErrorBody(memcluster.ErrServer, "script exhausted", nil))
			case script[idx].fail == "s":
				var extra []byte
				switch script[idx].code {
				case memcluster.ErrUnavailable:
					extra = memcluster.UnavailableExtra(1, 2, 1)
				case memcluster.ErrReadTO:
					extra = memcluster.ReadTimeoutExtra(1, 1, 2, 0)
				case memcluster.ErrWriteTO:
					extra = memcluster.WriteTimeoutExtra(1, 1, 2, "SIMPLE")
				}
				reply(req, memcluster.OpError, memcluster.ErrorBody(int32(script[idx].code), "scripted", extra))
			default:
				r := script[idx]
				rows := make([][][]byte, len(r.rows))
				for i, v := range r.rows {
					rows[i] = [][]byte{{byte(v >> 24), byte(v >> 16), byte(v >> 8), byte(v)}}
				}
				reply(req, memcluster.OpResult, memcluster.RowsBody(cols, rows, r.state, req.QFlags&0x02 != 0))
			}
		default:
			req.Conn.Reply(req.Stream, memcluster.OpResult, memcluster.VoidBody())
		}
	}
	for _, n := range cl.Nodes {
		n.Handle = handle
		if h.zbits != "" {
			n.Supported = map[string][]string{"CQL_VERSION": {"3.0.0"}, "COMPRESSION": {"snappy"}}
			n.FrameHook = func(_ *memcluster.ServerConn, f *memcluster.Frame) bool {
				if f.Flags&0x01 != 0 {
					if b, err := snappy.Decode(nil, f.Body); err == nil {
						f.Body, f.Flags = b, f.Flags&^0x01
					}
				}
				return false
			}
		}
	}
	cfg := sess.Config(cl, h.ver, ips...)
	if h.zbits != "" {
		cfg.Compressor = gocql.SnappyCompressor{}
	}
	cfg.Timeout = 30 * time.Second
	cfg.ConnectTimeout = 30 * time.Second
	cfg.WriteTimeout = 30 * time.Second
	s, err := cfg.CreateSession()
	if err != nil {
		return "fatal:" + err.Error()
	}
	defer s.Close()
	if !sess.WaitConns(s, h.nodes, 20*time.Second) {
		return "fatal:no connection"
	}
	ob := &hobs{}
	type cctx struct {
		ctx    context.Context
		cancel context.CancelFunc
	}
	ctxs := map[string]cctx{}
	var deadlineCancels []context.CancelFunc
	defer func() {
		for _, c := range deadlineCancels {
			c()
		}
		for _, c := range ctxs {
			c.cancel()
		}
	}()
	getCtx := func(id string, deadline bool) (context.Context, bool) {
		if id == "0" {
			return context.Background(), true
		}
		if n, err := strconv.Atoi(id); err != nil || n < 1 {
			return nil, false
		}
		c, ok := ctxs[id]
		if !ok {
			c.ctx, c.cancel = context.WithCancel(context.Background())
			ctxs[id] = c
		}
		if deadline {
			d, dc := context.WithDeadline(c.ctx, time.Now().Add(time.Hour))
			deadlineCancels = append(deadlineCancels, dc)
			return d, true
		}
		return c.ctx, true
	}
	newQuery := func(key int) *gocql.Query {
		switch h.kind {
		case "q":
			return s.Query(stmtPlain)
		case "x":
			return s.Query(stmtPrepared, key).NoSkipMetadata()
		}
		return s.Query(stmtPrepared, key)
	}
	q := newQuery(0)
	type hiter struct {
		it   *gocql.Iter
		rows []int
		err  error
		nilr bool
		done bool
	}
	var its []*hiter
	specShort := false
	num := func(s string) (int, bool) {
		n, err := strconv.Atoi(s)
		return n, err == nil
	}
	for _, st := range h.steps {
		if st == "" {
			return "bad-op"
		}
		arg := st[1:]
		switch st[0] {
		case 'b':
			k, ok := num(arg)
			if !ok || h.kind == "q" {
				return "bad-op"
			}
			q.Bind(k)
		case 'z':
			n, ok := num(arg)
			if !ok {
				return "bad-op"
			}
			q.PageSize(n)
		case 'f':
			n, ok := num(arg)
			if !ok {
				return "bad-op"
			}
			q.Prefetch(float64(n) / 4)
		case 'c':
			n, ok := num(arg)
			if !ok || n < 0 || n > 0xffff {
				return "bad-op"
			}
			q.Consistency(gocql.Consistency(n))
		case 's':
			n, ok := num(arg)
			if !ok || n < 0 || n > 0xffff {
				return "bad-op"
			}
			q.SerialConsistency(gocql.SerialConsistency(n))
		case 't':
			n, ok := num(arg)
			if !ok || n < 0 || n >= 1000000 || h.ver < 3 {
				return "bad-op"
			}
			if n == 0 {
				q.DefaultTimestamp(false)
			} else {
				q.WithTimestamp(int64(n))
			}
		case 'p':
			n, ok := num(arg)
			if !ok || n < 0 || n > 255 || h.ver < 4 {
				return "bad-op"
			}
			if n == 0 {
				q.CustomPayload(nil)
			} else {
				q.CustomPayload(map[string][]byte{"p": {byte(n)}})
			}
		case 'r':
			switch arg {
			case "0":
				q.Trace(nil)
			case "1":
				q.Trace(ob)
			default:
				return "bad-op"
			}
		case 'o':
			switch arg {
			case "0":
				q.Observer(nil)
			case "1":
				q.Observer(ob)
			default:
				return "bad-op"
			}
		case 'y':
			if arg == "-" {
				q.RetryPolicy(nil)
			} else if n, ok := num(arg); ok && n >= 0 {
				q.RetryPolicy(&gocql.SimpleRetryPolicy{NumRetries: n})
			} else {
				return "bad-op"
			}
		case 'i':
			switch arg {
			case "0", "1":
				q.Idempotent(arg == "1")
			default:
				return "bad-op"
			}
		case 'e':
			if len(arg) < 2 {
				return "bad-op"
			}
			a, ok := num(arg[:len(arg)-1])
			if !ok || a < 0 || a > 4 {
				return "bad-op"
			}
			d := time.Hour
			switch arg[len(arg)-1] {
			case 'l':
			case 's':
				d = time.Microsecond
				if a > 0 {
					specShort = true
				}
			default:
				return "bad-op"
			}
			q.SetSpeculativeExecutionPolicy(&gocql.SimpleSpeculativeExecution{NumAttempts: a, TimeoutDelay: d})
		case 'g':
			if arg == "." {
				q.PageState(nil)
			} else if b, err := vh.UnHex(arg); err == nil && len(b) > 0 {
				q.PageState(b)
			} else {
				return "bad-op"
			}
		case 'n':
			if arg != "" {
				return "bad-op"
			}
			q.NoSkipMetadata()
		case 'w':
			dl := strings.HasPrefix(arg, "d")
			c, ok := getCtx(strings.TrimPrefix(arg, "d"), dl)
			if !ok {
				return "bad-op"
			}
			q = q.WithContext(c)
		case 'x':
			c, ok := ctxs[arg]
			if !ok {
				if _, ok2 := getCtx(arg, false); !ok2 || arg == "0" {
					return "bad-op"
				}
				c = ctxs[arg]
			}
			c.cancel()
		case 'R':
			k, ok := num(arg)
			if !ok || (h.kind == "q" && k != 0) {
				return "bad-op"
			}
			q.Release()
			q = newQuery(k)
		case 'I':
			qq := q
			if arg != "" {
				c, ok := getCtx(arg, false)
				if !ok {
					return "bad-op"
				}
				qq = q.WithContext(c)
			}
			its = append(its, &hiter{it: qq.Iter()})
		case 'S':
			p := strings.SplitN(arg, ".", 2)
			if len(p) != 2 {
				return "bad-op"
			}
			i, ok1 := num(p[0])
			n, ok2 := num(p[1])
			if !ok1 || !ok2 || i < 0 || i >= len(its) || n < 0 || its[i].done {
				return "bad-op"
			}
			for j := 0; j < n; j++ {
				var v int
				if !its[i].it.Scan(&v) {
					break
				}
				its[i].rows = append(its[i].rows, v)
			}
		case 'D':
			i, ok := num(arg)
			if !ok || i < 0 || i >= len(its) || its[i].done {
				return "bad-op"
			}
			hi := its[i]
			hi.done = true
			switch h.consumer {
			case "scan":
				var v int
				for hi.it.Scan(&v) {
					hi.rows = append(hi.rows, v)
				}
				hi.err = hi.it.Close()
			case "scanner":
				scn := hi.it.Scanner()
				for scn.Next() {
					var v int
					if e := scn.Scan(&v); e != nil {
						return "scan-error:" + e.Error()
					}
					hi.rows = append(hi.rows, v)
				}
				hi.err = scn.Err()
			case "mapscan":
				for {
					m := map[string]interface{}{}
					if !hi.it.MapScan(m) {
						break
					}
					hi.rows = append(hi.rows, m["v"].(int))
				}
				hi.err = hi.it.Close()
			case "slicemap":
				ms, e := hi.it.SliceMap()
				if e != nil {
					hi.nilr, hi.err = true, e
				} else {
					for _, m := range ms {
						hi.rows = append(hi.rows, m["v"].(int))
					}
					hi.err = hi.it.Close()
				}
			}
		default:
			return "bad-op"
		}
	}
	var parts []string
	for i, hi := range its {
		if !hi.done {
			return "bad-op" // every iterator must be drained: only then is every request it makes on the log
		}
		rows := showRows(hi.rows)
		if hi.nilr {
			rows += "!nil"
		}
		parts = append(parts, fmt.Sprintf("it%d=%s/%s", i, rows, errClass(hi.err)))
	}
	if len(parts) == 0 {
		parts = []string{"-"}
	}
	mu.Lock()
	l := append([]string{}, log...)
	np := prepares
	mu.Unlock()
	ob.mu.Lock()
	seen := append([]string{}, ob.seen...)
	ntr := ob.traces
	ob.mu.Unlock()
	prep := "*"
	if h.nodes == 1 && !specShort {
		prep = strconv.Itoa(np)
	}
	if specShort {
		return fmt.Sprintf("%s reqs=%s prep=%s obs=* tr=*", strings.Join(parts, ";"), multiset(l, false), prep)
	}
	return fmt.Sprintf("%s reqs=%s prep=%s obs=%s tr=%d", strings.Join(parts, ";"), multiset(l, true), prep, multiset(seen, true), ntr)
}

func execHist(op string) string {
	h, ok := parseHist(op)
	if !ok {
		return "bad-op"
	}
	type res struct{ a string }
	done := make(chan res, 1)
	go func() { done <- res{runHist(h)} }()
	select {
	case r := <-done:
		return r.a
	case <-time.After(120 * time.Second):
		// only a goroutine blocked inside gocql makes this the implementation's answer
		buf := make([]byte, 1<<22)
		buf = buf[:runtime.Stack(buf, true)]
		if strings.Contains(string(buf), "github.com/gocql/gocql.") {
			return "hang:goroutine-blocked-in-gocql"
		}
		return "hang:environment"
	}
}
