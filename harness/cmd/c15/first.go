// Tier `first` of the C15 harness: the single-row helpers of a Query on a PAGED statement — Query.Scan,
// Query.MapScan ("copies the columns of the first selected row … and discards the rest. If no rows were
// selected, ErrNotFound is returned") and Query.Exec — on a real Session against the scripted node of the
// walk tier. Op line:
//
//	first  v<2..5> <scan|mapscan|exec> <prefetch> <pagesize> <q|x|xs|xd> <script>   -> row=<v|-> err=<class>
//	firstx …the same…                                                               -> row=… err=… reqs=<request log>
//
// `first` is compared with the SPECIFICATION (first row of the whole result / ErrNotFound only if the result has
// no row; Exec: outcome of the first fetch) for EVERY script — the code as repaired for KF-C15-4
// (props/C15.fix-4.diff; theorem C15_query_scan); `firstx` (model-vs-code) adds the node's request log: nothing
// beyond the first non-empty page may be asked for.
package main

import (
	"fmt"
	"strings"
	"sync"
	"time"

	"github.com/gocql/gocql"
	"verifharness/vh"
)

type firstScen struct {
	walkScen // steps unused; consumer = scan | mapscan | exec
}

func (s firstScen) String(op string) string {
	sc := make([]string, len(s.script))
	for i, r := range s.script {
		sc[i] = r.String()
	}
	return fmt.Sprintf("%s %s %s %s %d %s %s", op, s.vtok(), s.consumer, s.prefetch, s.pageSize, s.kind, strings.Join(sc, ";"))
}

// firstPageDecides: false for scripts whose first page (after UNPREPARED answers) is EMPTY with has_more_pages (the inputs of KF-C15-4); used for the case classes only
func firstPageDecides(script []reply) bool {
	for _, r := range script {
		if r.fail == "u" {
			continue
		}
		return !(r.fail == "" && len(r.rows) == 0 && r.state != nil)
	}
	return true
}

func execFirst(op string) (answer string) {
	defer func() {
		if r := recover(); r != nil {
			answer = fmt.Sprintf("crash:%v", r)
		}
	}()
	w := strings.Fields(op)
	if len(w) != 7 {
		return "bad-op"
	}
	sc := parseWalk(fmt.Sprintf("walk %s %s %s %s %s %s o", w[1], w[2], w[3], w[4], w[5], w[6]))
	env, fatal := setupWalk(sc)
	if fatal != "" {
		return fatal
	}
	defer env.s.Close()
	done := make(chan string, 1)
	go func() {
		var res string
		defer func() {
			if r := recover(); r != nil {
				res = fmt.Sprintf("crash:%v", r)
			}
			done <- res
		}()
		row := "-"
		var err error
		switch sc.consumer {
		case "scan":
			v := -999999
			err = env.q.Scan(&v)
			if err == nil {
				row = fmt.Sprint(v)
			}
		case "mapscan":
			m := map[string]interface{}{}
			err = env.q.MapScan(m)
			if err == nil {
				row = fmt.Sprint(m["v"].(int))
			}
		case "exec":
			err = env.q.Exec()
		default:
			panic("bad consumer")
		}
		ec := errClass(err)
		if err == gocql.ErrNotFound {
			ec = "notfound"
		}
		res = fmt.Sprintf("row=%s err=%s", row, ec)
	}()
	var res string
	select {
	case res = <-done:
	case <-time.After(60 * time.Second):
		return "hang"
	}
	if w[0] == "first" || strings.HasPrefix(res, "crash:") {
		return res
	}
	// no goroutine of the driver is left that could send anything: the one Iter.Scan stood at position 0, below
	// every prefetch threshold. (Were one started, its request would be in flight: give it the time of a
	// round trip on the in-memory pipe before the log is read — a started prefetch is a disagreement either way.)
	time.Sleep(200 * time.Microsecond)
	return res + " reqs=" + env.reqLog()
}

func firstTier(r *vh.Rng, out *vh.Out, tier string) map[string]interface{} {
	g := &wgen{r: r}
	type job struct {
		sc  firstScen
		cls string
	}
	var jobs []job
	helpers := []string{"scan", "mapscan", "exec"}
	add := func(sc firstScen, cls string) { jobs = append(jobs, job{sc, cls}) }
	// exhaustive: first page of 0..2 rows x {last, has_more_pages + 0..2 further pages of 0..2 rows, failure} x helper x kind
	for _, h := range helpers {
		for n1 := 0; n1 <= 2; n1++ {
			for shape := 0; shape < 7; shape++ {
				g.next = 0
				var script []reply
				switch shape {
				case 0:
					script = g.script([]int{n1}, 0, -1)
				case 1:
					script = g.script([]int{n1, 1}, 0, -1)
				case 2:
					script = g.script([]int{n1, 0, 2}, 0, -1)
				case 3:
					script = g.script([]int{n1, 0}, 0, -1)
				case 4:
					script = g.script([]int{n1}, 1, -1) // has_more_pages, then a server error
				case 5:
					script = []reply{{fail: "s", code: srvCodes[r.Intn(len(srvCodes))]}, {rows: g.rows(n1)}}
				case 6:
					script = g.script([]int{n1, 2}, 0, 0) // UNPREPARED first
				}
				kind := kinds[(n1+shape)%len(kinds)]
				if shape == 6 && kind == "q" {
					kind = "xs"
				}
				sc := firstScen{walkScen{ver: 2 + (n1+shape)%4, consumer: h, prefetch: prefetches[(n1+shape)%len(prefetches)], pageSize: 5000, kind: kind, script: script}}
				add(sc, fmt.Sprintf("first-exh/%s/shape%d", h, shape))
			}
		}
	}
	n := 600
	if tier == "thorough" {
		n = 10000
	}
	for i := 0; i < n; i++ {
		ws, _ := g.random()
		sc := firstScen{ws}
		sc.consumer = helpers[r.Intn(3)]
		if r.Intn(3) == 0 && len(sc.script) > 1 && sc.script[0].fail == "" {
			sc.script[0].rows = nil // an EMPTY first page
		}
		if r.Intn(12) == 0 {
			sc.script = append([]reply{{fail: "s", code: srvCodes[r.Intn(len(srvCodes))]}}, sc.script...)
		}
		cls := "decides"
		if !firstPageDecides(sc.script) {
			cls = "empty-first-page-more"
		}
		add(sc, fmt.Sprintf("first/%s/%s", sc.consumer, cls))
	}
	res := make([]string, len(jobs))
	var wg sync.WaitGroup
	sem := make(chan struct{}, 24)
	for i := range jobs {
		wg.Add(1)
		sem <- struct{}{}
		go func(i int) {
			defer wg.Done()
			defer func() { <-sem }()
			op := jobs[i].sc.String("firstx")
			journalStart(4000000+i, op)
			res[i] = execFirst(op)
			journalDone(4000000+i, res[i])
		}(i)
	}
	wg.Wait()
	spec := 0
	for i, j := range jobs {
		out.Case(j.sc.String("firstx"), res[i], "x/"+j.cls, true)
		// (code as repaired for KF-C15-4: every scenario is compared with the specification; `cls` still says
		// which ones have an EMPTY first page with has_more_pages)
		{
			short := res[i]
			if k := strings.Index(short, " reqs="); k >= 0 {
				short = short[:k]
			}
			out.Case(j.sc.String("first"), short, j.cls, true)
			spec++
		}
	}
	return map[string]interface{}{"first_scenarios": len(jobs), "first_spec_backed": spec}
}
