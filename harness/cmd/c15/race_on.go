//go:build race

package main

const raceBuild = true
