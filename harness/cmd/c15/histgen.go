// Generation of `hist` scenarios (see hist.go): an exhaustive small family (every mutation of the Query
// object x every point of partial consumption x every consumption order of two iterators; every decoration
// x every executor path) and random histories of three flavours (decorated single query / object reuse with
// several iterators / caller cancellation between pages).
package main

import (
	"hash/fnv"
	"fmt"
	"strconv"
	"strings"
	"sync"

	"verifharness/vh"
)

type hgen struct {
	r *vh.Rng
}

var hConsumers = []string{"scan", "scanner", "mapscan", "slicemap"}

// script builds the page script of one key: np replies, unique non-empty states (key, page index, salt)
func (g *hgen) script(key, np int, term int, salt byte) []reply {
	var out []reply
	row := int32(key * 1000)
	rows := func(n int) []int32 {
		o := make([]int32, n)
		for i := range o {
			row++
			o[i] = row
			if g.r.Intn(7) == 0 {
				o[i] = -row
			}
		}
		return o
	}
	nrows := func() int {
		switch g.r.Intn(8) {
		case 0:
			return 0
		case 1:
			return 1
		case 2:
			return 5 + g.r.Intn(6)
		}
		return 1 + g.r.Intn(4)
	}
	for p := 0; p < np; p++ {
		st := []byte{byte(key), byte(p), salt}
		st = append(st, g.r.Bytes(g.r.Intn(3))...)
		last := p == np-1
		switch {
		case last && term == 1: // server error instead of the last page
			out = append(out, reply{fail: "s", code: srvCodes[g.r.Intn(len(srvCodes))]})
		case last && term == 2: // has_more_pages on the last scripted page: the node answers `script exhausted`
			out = append(out, reply{rows: rows(nrows()), state: st})
		case last:
			n := nrows()
			if g.r.Intn(4) == 0 {
				n = 0
			}
			out = append(out, reply{rows: rows(n)})
		default:
			out = append(out, reply{rows: rows(nrows()), state: st})
		}
	}
	return out
}

// totals: number of rows of each page of a script up to the end of the iteration
func pageSizesOf(sc []reply) []int {
	var out []int
	for _, r := range sc {
		if r.fail != "" {
			break
		}
		out = append(out, len(r.rows))
		if r.state == nil {
			break
		}
	}
	return out
}

// partial picks a number of rows to consume before the next step: below / at / above page boundaries
func (g *hgen) partial(sc []reply) int {
	ps := pageSizesOf(sc)
	if len(ps) == 0 {
		return g.r.Intn(2)
	}
	total := 0
	for _, n := range ps {
		total += n
	}
	switch g.r.Intn(8) {
	case 0:
		return 0
	case 1:
		return 1
	case 2:
		if ps[0] > 1 {
			return ps[0] - 1
		}
	case 3:
		return ps[0]
	case 4:
		return ps[0] + 1
	case 5:
		if len(ps) > 1 {
			return ps[0] + ps[1]
		}
	case 6:
		return total + 1
	}
	return g.r.Intn(total + 2)
}

var (
	hPageSizes = []int{0, -1, 1, 2, 3, 10, 5000}
	hPrefetch  = []int{0, 1, 2, 4, 6, -4}
	hCons      = []int{0, 1, 2, 3, 4, 5, 6, 7, 10}
)

// decoration returns one setter step that does not change what rows the query returns
func (g *hgen) decoration(ver int, allowRetry bool) string {
	for {
		switch g.r.Intn(10) {
		case 0:
			return "z" + strconv.Itoa(hPageSizes[g.r.Intn(len(hPageSizes))])
		case 1:
			return "f" + strconv.Itoa(hPrefetch[g.r.Intn(len(hPrefetch))])
		case 2:
			return "c" + strconv.Itoa(hCons[g.r.Intn(len(hCons))])
		case 3:
			return "s" + strconv.Itoa(8+g.r.Intn(2))
		case 4:
			if ver >= 3 {
				if g.r.Intn(4) == 0 {
					return "t0"
				}
				return "t" + strconv.Itoa(1+g.r.Intn(9999))
			}
		case 5:
			if ver >= 4 {
				return "p" + strconv.Itoa(g.r.Intn(4))
			}
		case 6:
			return "r" + strconv.Itoa(g.r.Intn(2))
		case 7:
			return "o" + strconv.Itoa(g.r.Intn(2))
		case 8:
			if allowRetry {
				if g.r.Intn(4) == 0 {
					return "y-"
				}
				return "y" + strconv.Itoa(g.r.Intn(3))
			}
		case 9:
			return "w" + []string{"0", "8", "d9"}[g.r.Intn(3)] // contexts 8 and 9 are never cancelled
		}
	}
}

func hasFailure(scripts map[int][]reply) bool {
	for _, sc := range scripts {
		for i, r := range sc {
			if r.fail != "" || (i == len(sc)-1 && r.state != nil) {
				return true
			}
		}
	}
	return false
}

func (g *hgen) random() (hscen, string) {
	h := hscen{ver: 2 + g.r.Intn(4), nodes: 1, consumer: hConsumers[g.r.Intn(len(hConsumers))], scripts: map[int][]reply{}}
	h.kind = []string{"q", "x", "xs", "xs", "x"}[g.r.Intn(5)]
	if g.r.Intn(4) == 0 {
		h.nodes = 2 + g.r.Intn(2)
	}
	if h.kind == "q" {
		h.keys = []int{0}
	} else {
		nk := 2 + g.r.Intn(2)
		for len(h.keys) < nk {
			k := 1 + g.r.Intn(9)
			dup := false
			for _, x := range h.keys {
				dup = dup || x == k
			}
			if !dup {
				h.keys = append(h.keys, k)
			}
		}
	}
	salt := byte(g.r.Intn(256))
	for _, k := range h.keys {
		np := 2 + g.r.Intn(3)
		if g.r.Intn(6) == 0 {
			np = 1
		}
		term := 0
		switch g.r.Intn(8) {
		case 0:
			term = 1
		case 1:
			term = 2
		}
		h.scripts[k] = g.script(k, np, term, salt)
	}
	add := func(s ...string) { h.steps = append(h.steps, s...) }
	key := func() int { return h.keys[g.r.Intn(len(h.keys))] }
	flavour := g.r.Intn(20)
	spec := "none"
	switch {
	case flavour < 8: // a decorated query
		cur := key()
		if h.kind != "q" {
			add(fmt.Sprintf("b%d", cur))
		}
		// executor path
		switch g.r.Intn(6) {
		case 0, 1:
			a := 1 + g.r.Intn(2)
			add("i1", fmt.Sprintf("e%dl", a))
			spec = "long"
		case 2:
			a := 1 + g.r.Intn(2)
			add("i1", fmt.Sprintf("e%ds", a))
			if h.nodes < a+1 {
				h.nodes = a + 1
			}
			spec = "short"
		case 3:
			add([]string{"i1", "i0"}[g.r.Intn(2)], []string{"e0l", "e1l", "e0s"}[g.r.Intn(3)])
			if h.steps[len(h.steps)-2] == "i1" && h.steps[len(h.steps)-1] == "e1l" {
				spec = "long"
			}
		}
		allowRetry := h.nodes == 1 || !hasFailure(h.scripts)
		for n := g.r.Intn(5); n > 0; n-- {
			add(g.decoration(h.ver, allowRetry))
		}
		if g.r.Intn(3) == 0 {
			add("I8")
		} else {
			add("I")
		}
		if g.r.Intn(2) == 0 {
			add(fmt.Sprintf("S0.%d", g.partial(h.scripts[cur])))
			if spec != "short" {
				// later changes of the object must not reach the running iterator
				for n := g.r.Intn(3); n > 0; n-- {
					add(g.decoration(h.ver, allowRetry))
				}
				if h.kind != "q" && g.r.Intn(2) == 0 {
					add(fmt.Sprintf("b%d", key()))
				}
			}
			if g.r.Intn(2) == 0 {
				add(fmt.Sprintf("S0.%d", 1+g.r.Intn(4)))
			}
		}
		add("D0")
		return h, fmt.Sprintf("hist/decor/%s/v%d/n%d/spec-%s", h.kind, h.ver, h.nodes, spec)
	case flavour < 17: // one Query object, several iterators
		ni := 2 + g.r.Intn(2)
		var itKey []int
		allowRetry := h.nodes == 1 || !hasFailure(h.scripts)
		if g.r.Intn(4) == 0 {
			add("i1", fmt.Sprintf("e%dl", 1+g.r.Intn(2)))
			spec = "long"
		}
		mutate := func() {
			for n := 1 + g.r.Intn(2); n > 0; n-- {
				switch g.r.Intn(8) {
				case 0, 1, 2:
					if h.kind != "q" {
						add(fmt.Sprintf("b%d", key()))
					} else {
						add(g.decoration(h.ver, allowRetry))
					}
				case 3:
					// manual paging from some state of some script, or from the start
					k := key()
					var sts []string
					for _, r := range h.scripts[k] {
						if r.fail == "" && r.state != nil {
							sts = append(sts, vh.Hex(r.state))
						}
					}
					if len(sts) > 0 && g.r.Intn(3) > 0 {
						if h.kind != "q" {
							add(fmt.Sprintf("b%d", k))
						}
						add("g" + sts[g.r.Intn(len(sts))])
					} else {
						add("g.")
					}
				case 4:
					k := 0
					if h.kind != "q" {
						k = key()
					}
					add(fmt.Sprintf("R%d", k))
					if spec == "long" && g.r.Intn(2) == 0 {
						add("i1", "e1l")
					}
				case 5:
					add("n")
				default:
					add(g.decoration(h.ver, allowRetry))
				}
			}
		}
		curKey := func() int {
			// the key the object is bound to now (last b / R step; 0 for an unprepared query)
			k := 0
			for _, s := range h.steps {
				if s[0] == 'b' || s[0] == 'R' {
					k, _ = strconv.Atoi(s[1:])
				}
			}
			return k
		}
		if h.kind != "q" {
			add(fmt.Sprintf("b%d", key()))
		}
		for i := 0; i < ni; i++ {
			if i > 0 || g.r.Intn(3) == 0 {
				mutate()
			}
			add("I")
			itKey = append(itKey, curKey())
			if g.r.Intn(3) > 0 {
				add(fmt.Sprintf("S%d.%d", i, g.partial(h.scripts[itKey[i]])))
			}
		}
		if g.r.Intn(2) == 0 {
			mutate()
		}
		// consume interleaved
		switch g.r.Intn(4) {
		case 0: // row by row alternating
			for n := 2 + g.r.Intn(8); n > 0; n-- {
				for i := 0; i < ni; i++ {
					add(fmt.Sprintf("S%d.1", i))
				}
			}
		case 1:
			for n := g.r.Intn(8); n > 0; n-- {
				add(fmt.Sprintf("S%d.%d", g.r.Intn(ni), 1+g.r.Intn(4)))
				if g.r.Intn(4) == 0 {
					mutate()
				}
			}
		}
		order := g.r.Intn(3)
		for j := 0; j < ni; j++ {
			i := j
			switch order {
			case 1:
				i = ni - 1 - j
			case 2:
				i = (j + 1) % ni
			}
			add(fmt.Sprintf("D%d", i))
		}
		return h, fmt.Sprintf("hist/reuse/%s/v%d/n%d/spec-%s", h.kind, h.ver, h.nodes, spec)
	default: // the caller cancels a context between pages; no asynchronous prefetch in these scenarios
		h.nodes = 1
		cur := key()
		if h.kind != "q" {
			add(fmt.Sprintf("b%d", cur))
		}
		add([]string{"f0", "f-4"}[g.r.Intn(2)])
		if g.r.Intn(3) == 0 {
			add("i1", "e1l")
			spec = "long"
		}
		// iterator 0 always runs with a live context first (so the statement is prepared before any fetch with a
		// dead context: a PREPARE under a dead context would race with the caller's error)
		add("w2", "I", fmt.Sprintf("S0.%d", g.partial(h.scripts[cur])))
		ni := 1
		start := func() {
			switch g.r.Intn(6) {
			case 0:
				add("I1") // a temporary copy: the object keeps its context
			case 1:
				add("w1", "I")
			case 2:
				add("wd1", "I")
			case 3:
				add("w1", "I", "w0")
			case 4:
				add("I2")
			case 5:
				add("w0", "I")
			}
			ni++
		}
		start()
		if g.r.Intn(3) == 0 {
			start()
		}
		for i := 1; i < ni; i++ {
			if g.r.Intn(3) > 0 {
				add(fmt.Sprintf("S%d.%d", i, g.partial(h.scripts[cur])))
			}
		}
		switch g.r.Intn(4) {
		case 0:
			add("x2")
		case 1:
			add("x1", "x2")
		default:
			add("x1")
		}
		// iterators started after the cancellation: from the object as it is, or with an explicit context
		for n := g.r.Intn(3); n > 0; n-- {
			add([]string{"I", "I", "I1", "I2", "I0"}[g.r.Intn(5)])
			ni++
		}
		for n := g.r.Intn(3); n > 0; n-- {
			add(fmt.Sprintf("S%d.%d", g.r.Intn(ni), 1+g.r.Intn(3)))
		}
		order := g.r.Intn(2)
		for j := 0; j < ni; j++ {
			i := j
			if order == 1 {
				i = ni - 1 - j
			}
			add(fmt.Sprintf("D%d", i))
		}
		return h, fmt.Sprintf("hist/cancel/%s/v%d/n%d/spec-%s", h.kind, h.ver, h.nodes, spec)
	}
}

// exhaustive: (a) every mutation of the object x consumed rows 0..5 of the first iterator (pages of 2, 2, 1
// rows) x every consumption order of the two iterators; (b) every decoration x every executor path.
func (g *hgen) exhaustive(emit func(hscen, string)) {
	mk := func(ver, nodes int, kind string, steps string) hscen {
		h := hscen{ver: ver, nodes: nodes, kind: kind, consumer: hConsumers[g.r.Intn(len(hConsumers))], scripts: map[int][]reply{}}
		keys := []int{1, 2}
		if kind == "q" {
			keys = []int{0}
		}
		for _, k := range keys {
			b := int32(k * 100)
			h.keys = append(h.keys, k)
			h.scripts[k] = []reply{
				{rows: []int32{b + 1, b + 2}, state: []byte{byte(k), 0xa1}},
				{rows: []int32{b + 3, b + 4}, state: []byte{byte(k), 0xa2}},
				{rows: []int32{b + 5}},
			}
		}
		h.steps = strings.Split(steps, ",")
		return h
	}
	mutations := []string{"b2", "b1", "b2,g02a1", "g01a2", "z1", "z0", "f0", "f4", "c5", "s9", "t77", "t0", "p3", "r1", "o1", "y1", "i1,e1l", "g02a1", "g.", "n", "w8", "wd9", "R2", "R1"}
	orders := []string{"D0,D1", "D1,D0", "S0.1,S1.1,S0.1,S1.1,S0.1,S1.1,S0.1,S1.1,D0,D1"}
	for _, m := range mutations {
		for k := 0; k <= 5; k++ {
			kind := []string{"xs", "x"}[g.r.Intn(2)]
			ver := 4 + g.r.Intn(2)
			pf := hPrefetch[g.r.Intn(len(hPrefetch))]
			emit(mk(ver, 1, kind, fmt.Sprintf("b1,z2,f%d,I,S0.%d,%s,I,%s", pf, k, m, orders[g.r.Intn(len(orders))])), "hist-exh/reuse")
		}
	}
	// (c) cancellation: the context of a temporary copy / of the object, cancelled after k rows; then an iterator from the object
	for _, pat := range []string{"I1,S1.%d,x1,I", "w1,I,w0,S1.%d,x1,I", "w1,I,S1.%d,x1,I", "wd1,I,w3,S1.%d,x1,I,I1", "I1,S1.%d,x2,I,I1"} {
		for k := 0; k <= 3; k++ {
			kind := []string{"xs", "x", "q"}[g.r.Intn(3)]
			pre := "b1,"
			if kind == "q" {
				pre = ""
			}
			steps := pre + "z2,f0,w2,I," + fmt.Sprintf(pat, k)
			n := strings.Count(steps, "I")
			for i := 0; i < n; i++ {
				steps += fmt.Sprintf(",D%d", i)
			}
			emit(mk(4+g.r.Intn(2), 1, kind, steps), "hist-exh/cancel")
		}
	}
	paths := []struct {
		steps string
		nodes int
	}{{"i0", 1}, {"i1,e0l", 1}, {"i0,e2l", 1}, {"i1,e1l", 1}, {"i1,e2l", 2}, {"i1,e1s", 2}, {"i1,e2s", 3}}
	decos := []string{"z2", "z0", "f0", "f4", "c4", "s8", "t5", "t0", "p1", "r1", "o1", "y0", "y2", "w8", "wd9", "I8"}
	for _, p := range paths {
		for _, d := range decos {
			kind := []string{"xs", "x", "q"}[g.r.Intn(3)]
			ver := 4 + g.r.Intn(2)
			start := "I"
			if d == "I8" {
				d, start = "z3", "I8"
			}
			pre := "b1,"
			if kind == "q" {
				pre = ""
			}
			emit(mk(ver, p.nodes, kind, fmt.Sprintf("%s%s,%s,%s,D0", pre, p.steps, d, start)), "hist-exh/decor")
		}
	}
}

func histTier(r *vh.Rng, out *vh.Out, tier string) map[string]interface{} {
	g := &hgen{r: r}
	type job struct {
		op, cls string
	}
	var jobs []job
	// compression: a third of the histories run with snappy negotiated and a pattern of flagged / unflagged answers,
	// chosen by a hash of the (PRNG-generated) history so that the PRNG stream is what it was
	withZ := func(h hscen) string {
		h.zbits = ""
		f := fnv.New32a()
		f.Write([]byte(h.String()))
		if v := f.Sum32(); v%3 == 0 {
			h.zbits = []string{"0", "1", "01", "10", "001", "110", "0110", "1001"}[(v/3)%8]
		}
		return h.String()
	}
	g.exhaustive(func(h hscen, cls string) { jobs = append(jobs, job{withZ(h), cls}) })
	n := 4000
	if tier == "thorough" {
		n = 60000
	}
	for i := 0; i < n; i++ {
		h, cls := g.random()
		jobs = append(jobs, job{withZ(h), cls})
	}
	res := make([]string, len(jobs))
	var wg sync.WaitGroup
	sem := make(chan struct{}, 24)
	for i := range jobs {
		wg.Add(1)
		sem <- struct{}{}
		go func(i int) {
			defer wg.Done()
			defer func() { <-sem }()
			journalStart(i, jobs[i].op)
			res[i] = execHist(jobs[i].op)
			journalDone(i, res[i])
		}(i)
	}
	wg.Wait()
	for i, j := range jobs {
		out.Case(j.op, res[i], j.cls, true)
	}
	return map[string]interface{}{"history_scenarios": len(jobs)}
}
