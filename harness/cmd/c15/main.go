// Harness for C15 (paged iteration). Four tiers, all compared with the Lean model (lean/Model/Paging.lean,
// lean/Model/PagingHist.lean, lean/Model/PagingRetry.lean):
//   - retry tier (retry.go, ops `rsess` / `rsessx`): faults at page fetches x the retry policy's decisions
//     (policy scripted per attempt, budgets, the real Simple / Downgrading policies), 1..3 nodes; observed:
//     rows + final error, requests, Query.Attempts() at every RetryPolicy.Attempt call.
//   - session tier (session.go, ops `sess` / `sessx`): a real gocql.Session runs a paged query against a
//     scripted in-memory node; observed: rows + final error at the application, requests at the node.
//   - history tier (hist.go, histgen.go, op `hist`): ONE *gocql.Query object driven through a history of
//     setters, Iter() calls, interleaved Scan calls and cancellations against a KEYED node; observed: rows +
//     error per iterator, the multiset of requests with every wire attribute, observer and tracer calls.
//   - Iter tier (op `iter`): REAL gocql Iter / nextIter / framer chains for scripted pages (built through
//     the hook file) consumed with the real Scan, Scanner, MapScan and SliceMap, without a server.
//
// Plus AST-level expectations (op `ast`) on the next-page query construction in conn.go executeQuery and
// on the page-switch code in session.go.
package main

import (
	"bytes"
	"encoding/json"
	"errors"
	"fmt"
	"go/ast"
	"go/parser"
	"go/printer"
	"go/token"
	"os"
	osexec "os/exec"
	"path/filepath"
	"strconv"
	"strings"
	"sync"

	"github.com/gocql/gocql"
	"verifharness/vh"
)

func parsePages(s string) []gocql.VerifC15Page {
	var out []gocql.VerifC15Page
	for _, p := range strings.Split(s, ";") {
		pg := gocql.VerifC15Page{PrefetchPos: 1}
		if at := strings.Index(p, "@"); at >= 0 {
			n, err := strconv.Atoi(p[at+1:])
			if err != nil {
				panic("bad prefetch pos")
			}
			pg.PrefetchPos = n
			p = p[:at]
		}
		switch p {
		case "E":
			pg.Err = errors.New("fetch failed")
		case "-", "":
		default:
			for _, x := range strings.Split(p, ",") {
				n, err := strconv.Atoi(x)
				if err != nil {
					panic("bad row")
				}
				pg.Rows = append(pg.Rows, int32(n))
			}
		}
		out = append(out, pg)
	}
	return out
}

func showRows(r []int) string {
	if len(r) == 0 {
		return "-"
	}
	s := make([]string, len(r))
	for i, v := range r {
		s[i] = strconv.Itoa(v)
	}
	return strings.Join(s, ",")
}

func errStr(err error) string {
	if err == nil {
		return "nil"
	}
	return err.Error()
}

func exec(op string) (res string) {
	defer func() {
		if r := recover(); r != nil {
			res = fmt.Sprintf("crash:%v", r)
		}
	}()
	w := strings.Fields(op)
	if len(w) == 0 {
		return "bad-op"
	}
	switch w[0] {
	case "iter":
		it := gocql.VerifC15Chain(parsePages(w[2]))
		var rows []int
		var err error
		switch w[1] {
		case "scan":
			var v int
			for it.Scan(&v) {
				rows = append(rows, v)
			}
			err = it.Close()
		case "scanner":
			sc := it.Scanner()
			for sc.Next() {
				var v int
				if e := sc.Scan(&v); e != nil {
					return "scan-error:" + e.Error()
				}
				rows = append(rows, v)
			}
			err = sc.Err()
		case "mapscan":
			for {
				m := map[string]interface{}{}
				if !it.MapScan(m) {
					break
				}
				rows = append(rows, m["v"].(int))
			}
			err = it.Close()
		case "slicemap":
			ms, e := it.SliceMap()
			if e != nil {
				return "rows=nil err=" + errStr(e)
			}
			for _, m := range ms {
				rows = append(rows, m["v"].(int))
			}
			err = it.Close()
		default:
			return "bad-op"
		}
		return fmt.Sprintf("rows=%s err=%s", showRows(rows), errStr(err))
	case "ast":
		return astFacts()
	case "sess", "sessx":
		return execSess(op)
	case "hist":
		return execHist(op)
	case "rsess", "rsessx":
		return execRetry(op)
	case "walk":
		return reduceWalk(execWalk(op))
	case "walko", "walkc":
		return execWalk(op)
	case "first", "firstx":
		return execFirst(op)
	case "psess":
		return execPsess(op)
	case "csess":
		return execCsess(op)
	}
	return "bad-op"
}

// ---------- AST expectations ----------

func funcSrc(file string, recv, name string) string {
	fset := token.NewFileSet()
	f, err := parser.ParseFile(fset, file, nil, 0)
	if err != nil {
		return ""
	}
	for _, d := range f.Decls {
		fd, ok := d.(*ast.FuncDecl)
		if !ok || fd.Name.Name != name {
			continue
		}
		if recv != "" {
			if fd.Recv == nil || len(fd.Recv.List) != 1 {
				continue
			}
			var b bytes.Buffer
			printer.Fprint(&b, fset, fd.Recv.List[0].Type)
			if b.String() != recv {
				continue
			}
		}
		var b bytes.Buffer
		printer.Fprint(&b, fset, fd.Body)
		// normalise whitespace
		return strings.Join(strings.Fields(b.String()), " ")
	}
	return ""
}

func astFacts() string {
	dir := gocql.VerifC15SourceDir()
	eq := funcSrc(filepath.Join(dir, "conn.go"), "*Conn", "executeQuery")
	has := func(src string, parts ...string) bool {
		at := 0
		for _, p := range parts {
			i := strings.Index(src[at:], p)
			if i < 0 {
				return false
			}
			at += i + len(p)
		}
		return true
	}
	guard := has(eq, "case *resultRowsFrame:", "if x.meta.morePages() && !qry.disableAutoPage {")
	copies := has(eq, "if x.meta.morePages() && !qry.disableAutoPage {", "newQry := new(Query)", "*newQry = *qry")
	state := has(eq, "*newQry = *qry", "newQry.pageState = copyBytes(x.meta.pagingState)")
	nAssign := strings.Count(eq, "newQry.pageState = ") + strings.Count(eq, "newQry.metrics = ")
	other := 0
	for _, f := range []string{"stmt", "values", "cons", "pageSize", "prefetch", "session", "conn", "serialCons", "binding", "disableAutoPage", "skipPrepare", "customPayload"} {
		other += strings.Count(eq, "newQry."+f+" = ")
	}
	next := has(eq, "iter.next = &nextIter{ qry: newQry, pos: int((1 - qry.prefetch) * float64(x.numRows)), }")
	clamp := has(eq, "iter.next = &nextIter{", "if iter.next.pos < 1 { iter.next.pos = 1 }")
	carries := has(eq, "if len(qry.pageState) > 0 { params.pagingState = qry.pageState }") &&
		has(eq, "frame = &writeExecuteFrame{ preparedID: info.id, params: params,") &&
		has(eq, "frame = &writeQueryFrame{ statement: qry.stmt, params: params,")
	sess := filepath.Join(dir, "session.go")
	manual := has(funcSrc(sess, "*Query", "PageState"), "q.pageState = state", "q.disableAutoPage = true")
	fetch := funcSrc(sess, "*nextIter", "fetch")
	fetchOnce := has(fetch, "n.once.Do(func() {", "n.next = n.qry.conn.executeQuery(n.qry.Context(), n.qry)", "n.next = n.qry.session.executeQuery(n.qry)", "return n.next") &&
		strings.Count(fetch, "executeQuery(") == 2
	async := has(funcSrc(sess, "*nextIter", "fetchAsync"), "n.oncea.Do(func() { go n.fetch() })")
	scan := funcSrc(sess, "*Iter", "Scan")
	scanSw := has(scan, "if iter.err != nil { return false }", "if iter.pos >= iter.numRows { if iter.next != nil { *iter = *iter.next.fetch() return iter.Scan(dest...) } return false }",
		"if iter.next != nil && iter.pos >= iter.next.pos { iter.next.fetchAsync() }", "iter.pos++ return true")
	scnr := funcSrc(sess, "*iterScanner", "Next")
	scnrSw := has(scnr, "if iter.err != nil { return false }", "if iter.pos >= iter.numRows { if iter.next != nil { is.iter = iter.next.fetch() return is.Next() } return false }", "iter.pos++")
	return fmt.Sprintf("more-pages-guard=%v copies-query=%v page-state-from-response=%v newqry-assignments=%d next-iter=%v pos-clamp=%v request-carries-state=%v manual-disables-auto=%v fetch-once=%v async-once=%v scan-switches=%v scanner-switches=%v",
		guard, copies, state, nAssign+other, next, clamp, carries, manual, fetchOnce, async, scanSw, scnrSw)
}

// ---------- crash supervision ----------
//
// A panic in one of gocql's own goroutines (not in a call the harness makes) cannot be recovered: it kills
// the process. `run` therefore works in a child process that journals every scenario of the concurrent
// tiers (start, answer). If the child dies, the supervisor runs each scenario that was in flight alone in a
// fresh process (three times); one that kills that process too is written out as the run's result with the
// answer `crash:<panic line>` — a concrete, replayable failing input instead of a broken run. If none does
// (the crash needs the concurrency of the full run), the scenarios that had been answered before the crash
// are written out from the journal, followed by a marker line that the model cannot agree with: the check
// then reports the first real disagreement among them, or else the broken run.

var journal struct {
	mu sync.Mutex
	f  *os.File
}

func journalStart(i int, op string) {
	if journal.f != nil {
		journal.mu.Lock()
		fmt.Fprintf(journal.f, "S %d %s\n", i, op)
		journal.mu.Unlock()
	}
}

func journalDone(i int, answer string) {
	if journal.f != nil {
		journal.mu.Lock()
		fmt.Fprintf(journal.f, "D %d %s\n", i, answer)
		journal.mu.Unlock()
	}
}

func supervise(tier, path string) {
	os.MkdirAll(path, 0o755)
	jpath := filepath.Join(path, "journal.txt")
	racePrefix := filepath.Join(path, "race_report")
	os.Remove(jpath)
	cmd := osexec.Command(os.Args[0], os.Args[1:]...)
	cmd.Env = append(os.Environ(), "C15_CHILD=1", "C15_JOURNAL="+jpath)
	if raceBuild {
		// race reports go to files and are judged below (known finding KF-C15-2 is tolerated, nothing else)
		old, _ := filepath.Glob(racePrefix + ".*")
		for _, f := range old {
			os.Remove(f)
		}
		cmd.Env = append(cmd.Env, "GORACE="+strings.TrimSpace(os.Getenv("GORACE")+" exitcode=0 log_path="+racePrefix))
	}
	var buf bytes.Buffer
	cmd.Stdout, cmd.Stderr = &buf, &buf
	err := cmd.Run()
	if err == nil {
		os.Stdout.Write(buf.Bytes())
		if raceBuild {
			known, unknown := judgeRaces(racePrefix)
			patchStats(path, map[string]interface{}{"race_reports_known_KF-C15-2": known, "race_reports_other": len(unknown)})
			if len(unknown) > 0 {
				fmt.Printf("%d data race report(s) other than KF-C15-2:\n%s\n", len(unknown), tailString(strings.Join(unknown, "\n"), 6000))
				os.Exit(66)
			}
		}
		return
	}
	code := 1
	if ee, ok := err.(*osexec.ExitError); ok && ee.ExitCode() > 0 {
		code = ee.ExitCode()
	}
	started := map[string]string{}
	answered := map[string]string{}
	var order []string
	if _, e := os.Stat(jpath); e == nil {
		for _, l := range vh.ReadLines(jpath) {
			w := strings.SplitN(l, " ", 3)
			if len(w) != 3 {
				continue // a line cut short by the crash
			}
			switch w[0] {
			case "S":
				started[w[1]] = w[2]
				order = append(order, w[1])
			case "D":
				answered[w[1]] = w[2]
			}
		}
	}
	var ops, answers []string
	ncand := 0
	for _, id := range order {
		if _, done := answered[id]; done {
			continue
		}
		ncand++
		if len(ops) >= 8 {
			continue
		}
		op := started[id]
		tmp := filepath.Join(path, "crash_candidate.txt")
		os.WriteFile(tmp, []byte(op+"\n"), 0o644)
		for try := 0; try < 3; try++ {
			c := osexec.Command(os.Args[0], "replay", "-", tmp)
			var out bytes.Buffer
			c.Stdout, c.Stderr = &out, &out
			if e := c.Run(); e != nil {
				msg := "process died"
				for _, l := range strings.Split(out.String(), "\n") {
					if strings.HasPrefix(l, "panic:") || strings.HasPrefix(l, "fatal error:") {
						msg = l
						break
					}
				}
				ops = append(ops, op)
				answers = append(answers, "crash:"+strings.ReplaceAll(msg, " ", "_"))
				break
			}
		}
	}
	if len(order) == 0 {
		os.Stdout.Write(buf.Bytes())
		os.Exit(code)
	}
	out := vh.NewOut(path)
	if len(ops) > 0 {
		fmt.Printf("the run died (exit %d); %d scenario(s) kill the process when run alone\n", code, len(ops))
		for i, op := range ops {
			out.Case(op, answers[i], "process-crash", true)
		}
	} else {
		fmt.Printf("the run died (exit %d); none of the %d scenarios in flight does it alone; writing out the %d scenarios answered before\n%s\n",
			code, ncand, len(answered), tailString(buf.String(), 2500))
		for _, id := range order {
			if a, done := answered[id]; done {
				out.Case(started[id], a, "answered-before-process-crash", true)
			}
		}
		out.Case("crashed process-died-with-scenarios-in-flight", "the-harness-process-died;see-stats.json-process_crash_output", "process-crash", true)
	}
	out.Close(map[string]interface{}{"process_crash_output": tailString(buf.String(), 3000)})
}

// judgeRaces reads the race detector's reports. KNOWN (KF-C15-2): a plain read whose innermost frame is
// conn.go's (*Conn).executeQuery (the struct copy `*newQry = *qry` for the next-page query) or
// (*Query).WithContext (`q2 := *q`) — both read the whole Query including refCount — against an atomic add
// (borrowForExecution / releaseAfterExecution of an execution goroutine of the same query that the
// speculative path of queryExecutor.executeQuery started and that is still running). Everything else is
// returned verbatim.
func judgeRaces(prefix string) (known int, unknown []string) {
	files, _ := filepath.Glob(prefix + ".*")
	for _, f := range files {
		b, err := os.ReadFile(f)
		if err != nil {
			continue
		}
		for _, rep := range strings.Split(string(b), "==================") {
			if !strings.Contains(rep, "WARNING: DATA RACE") {
				continue
			}
			// the two accesses: "<Read|Write> at ... by goroutine N:" and "Previous <read|write> at ..."
			var tops []string
			lines := strings.Split(rep, "\n")
			for i, l := range lines {
				t := strings.TrimSpace(l)
				if (strings.HasPrefix(t, "Read at ") || strings.HasPrefix(t, "Write at ") || strings.HasPrefix(t, "Previous read at ") ||
					strings.HasPrefix(t, "Previous write at ")) && i+1 < len(lines) {
					kind := "write"
					if strings.HasPrefix(t, "Read at ") || strings.HasPrefix(t, "Previous read at ") {
						kind = "read"
					}
					tops = append(tops, kind+" "+strings.TrimSpace(lines[i+1]))
				}
			}
			isCopy := func(s string) bool {
				return s == "read github.com/gocql/gocql.(*Conn).executeQuery()" || s == "read github.com/gocql/gocql.(*Query).WithContext()"
			}
			isAtomic := func(s string) bool { return strings.HasPrefix(s, "write sync/atomic.Add") }
			if len(tops) == 2 && (isCopy(tops[0]) && isAtomic(tops[1]) || isCopy(tops[1]) && isAtomic(tops[0])) {
				known++
			} else {
				unknown = append(unknown, rep)
			}
		}
	}
	return
}

func patchStats(dir string, extra map[string]interface{}) {
	p := filepath.Join(dir, "stats.json")
	b, err := os.ReadFile(p)
	if err != nil {
		return
	}
	st := map[string]interface{}{}
	if json.Unmarshal(b, &st) != nil {
		return
	}
	for k, v := range extra {
		st[k] = v
	}
	if nb, err := json.MarshalIndent(st, "", " "); err == nil {
		os.WriteFile(p, nb, 0o644)
	}
}

func tailString(s string, n int) string {
	if len(s) > n {
		return s[len(s)-n:]
	}
	return s
}

func main() {
	mode, tier, path := vh.Args()
	if mode == "replay" {
		for _, l := range vh.ReadLines(path) {
			fmt.Println(exec(l))
		}
		return
	}
	if os.Getenv("C15_CHILD") == "" {
		supervise(tier, path)
		return
	}
	if jp := os.Getenv("C15_JOURNAL"); jp != "" {
		journal.f, _ = os.OpenFile(jp, os.O_CREATE|os.O_WRONLY|os.O_APPEND, 0o644)
	}
	r := vh.NewRng(vh.EnvSeed())
	out := vh.NewOut(path)
	mult := 1
	if tier == "thorough" {
		mult = 30
	}
	out.Case("ast paging", exec("ast paging"), "ast", true)
	consumers := []string{"scan", "scanner", "mapscan", "slicemap"}
	next := 0
	genPage := func(n int) string {
		if n == 0 {
			return "-"
		}
		s := make([]string, n)
		for i := range s {
			next++
			v := next
			if r.Intn(5) == 0 {
				v = -v
			}
			s[i] = strconv.Itoa(v)
		}
		return strings.Join(s, ",")
	}
	emit := func(consumer string, pages []string, cls string) {
		op := fmt.Sprintf("iter %s %s", consumer, strings.Join(pages, ";"))
		out.Case(op, exec(op), cls, true)
	}
	// exhaustive small scope: every shape of <= 3 pages (<= 4 in thorough) with 0..2 rows each, an error at any page, all consumers
	maxPages := 3
	if tier == "thorough" {
		maxPages = 4
	}
	var rec func(prefix []string, depth int)
	rec = func(prefix []string, depth int) {
		if len(prefix) > 0 {
			for _, c := range consumers {
				emit(c, prefix, fmt.Sprintf("exh/%s/pages%d", c, len(prefix)))
			}
		}
		if depth == 0 || (len(prefix) > 0 && prefix[len(prefix)-1] == "E") {
			return
		}
		for n := 0; n <= 2; n++ {
			next = 100 * len(prefix)
			rec(append(append([]string{}, prefix...), genPage(n)+"@"+strconv.Itoa(1+r.Intn(3))), depth-1)
		}
		rec(append(append([]string{}, prefix...), "E"), depth-1)
	}
	rec(nil, maxPages)
	// random: up to 12 pages, 0..40 rows, empty pages, empty last page, error at a random page, prefetch positions
	for i := 0; i < 1500*mult; i++ {
		np := 1 + r.Intn(12)
		var pages []string
		next = 0
		failAt := -1
		if r.Intn(3) == 0 {
			failAt = r.Intn(np)
		}
		total := 0
		for p := 0; p < np; p++ {
			if p == failAt {
				pages = append(pages, "E")
				break
			}
			n := r.Intn(8)
			switch r.Intn(6) {
			case 0:
				n = 0
			case 1:
				n = r.Intn(40)
			}
			if p == np-1 && r.Intn(3) == 0 {
				n = 0
			}
			total += n
			pos := 1
			if n > 0 {
				pos = 1 + r.Intn(n+1)
			}
			pages = append(pages, genPage(n)+"@"+strconv.Itoa(pos))
		}
		c := consumers[r.Intn(len(consumers))]
		cls := fmt.Sprintf("rand/%s/", c)
		if failAt >= 0 {
			cls += "fail"
		} else {
			cls += "ok"
		}
		emit(c, pages, cls)
	}
	extra := sessionTier(r, out, tier)
	for k, v := range histTier(r, out, tier) {
		extra[k] = v
	}
	// the retry tier draws from the PRNG after every other tier, so their scenarios are what they were
	for k, v := range retryTier(r, out, tier) {
		extra[k] = v
	}
	// the walk tier draws after the retry tier
	for k, v := range walkTier(r, out, tier) {
		extra[k] = v
	}
	for k, v := range firstTier(r, out, tier) {
		extra[k] = v
	}
	for k, v := range psessTier(r, out, tier) {
		extra[k] = v
	}
	for k, v := range csessTier(r, out, tier) {
		extra[k] = v
	}
	out.Close(extra)
}
