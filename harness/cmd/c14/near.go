// Near-colliding statements (C14, the cache key as an injective function of host id + keyspace + statement
// text): generators of texts / triples that a key function which normalises, truncates, hashes or joins
// carelessly would identify, and the ops that drive the REAL keyFor / preparedLRU with them:
//
//	keyfor  <host> <ks> <text>                          (hex, "-" = empty)  the key string the code computes
//	keypair <h1> <k1> <s1> <h2> <k2> <s2>               same | differ: do the two triples get ONE cache entry?
//	                                                    (spec-backed for EVERY pair: same iff the triples are equal,
//	                                                    C14_keypair_spec)
//	lookupx / unprepx / completex                       lookup / unprep / complete with hex triples and keys (any bytes)
//
// There is no excluded class any more (KF-C14-1 repaired: the key carries the lengths of host id and keyspace):
// the pairs whose plain concatenations are equal although the host-id lengths or the keyspace lengths differ -
// the ones the old key identified - are ordinary keypair cases, counted as near/concat-equal in the distribution.
package main

import (
	"bytes"
	"fmt"
	"strings"

	"verifharness/vh"
)

// one variant of a statement text: each changes exactly one thing that is significant to the server
type nearV struct {
	name                    string
	lead, kw, sp, lit, tail string
}

var nearBase = nearV{"base", "", "SELECT", " ", "a b", ""}

func nv(name string, f func(*nearV)) nearV {
	v := nearBase
	v.name = name
	f(&v)
	return v
}

var longPad = strings.Repeat("x", 300)

// nearVariants[0] is the base text; every other entry differs from it (and from every other entry) in
// whitespace, letter case, a trailing semicolon, unicode normalisation form, a NUL / separator-like byte, or
// only after a long common prefix.
var nearVariants = []nearV{
	nearBase,
	nv("lit-2sp", func(v *nearV) { v.lit = "a  b" }),
	nv("lit-tab", func(v *nearV) { v.lit = "a\tb" }),
	nv("lit-nl", func(v *nearV) { v.lit = "a\nb" }),
	nv("lit-crlf", func(v *nearV) { v.lit = "a\r\nb" }),
	nv("lit-nbsp", func(v *nearV) { v.lit = "a\u00a0b" }),
	nv("lit-lead-sp", func(v *nearV) { v.lit = " a b" }),
	nv("lit-trail-sp", func(v *nearV) { v.lit = "a b " }),
	nv("lit-nosp", func(v *nearV) { v.lit = "ab" }),
	nv("lit-upper", func(v *nearV) { v.lit = "A b" }),
	nv("lit-nul", func(v *nearV) { v.lit = "a\x00b" }),
	nv("lit-slash", func(v *nearV) { v.lit = "a/b" }),
	nv("lit-colon", func(v *nearV) { v.lit = "a:b" }),
	nv("lit-us", func(v *nearV) { v.lit = "a\x1fb" }),
	nv("lit-nfc", func(v *nearV) { v.lit = "\u00e9 b" }),
	nv("lit-nfd", func(v *nearV) { v.lit = "e\u0301 b" }),
	nv("lit-long-a", func(v *nearV) { v.lit = longPad + "a" }),
	nv("lit-long-b", func(v *nearV) { v.lit = longPad + "b" }),
	nv("sp-2", func(v *nearV) { v.sp = "  " }),
	nv("sp-tab", func(v *nearV) { v.sp = "\t" }),
	nv("sp-nl", func(v *nearV) { v.sp = "\n" }),
	nv("lead-sp", func(v *nearV) { v.lead = " " }),
	nv("lead-nl", func(v *nearV) { v.lead = "\n\t" }),
	nv("trail-sp", func(v *nearV) { v.tail = " " }),
	nv("trail-nl", func(v *nearV) { v.tail = "\n" }),
	nv("trail-semi", func(v *nearV) { v.tail = ";" }),
	nv("trail-sp-semi", func(v *nearV) { v.tail = " ;" }),
	nv("trail-nul", func(v *nearV) { v.tail = "\x00" }),
	nv("kw-lower", func(v *nearV) { v.kw = "select" }),
	nv("kw-mixed", func(v *nearV) { v.kw = "Select" }),
}

// nearText: variant v of the statement of group g with nc bind markers.
func nearText(g, nc, v int) string {
	x := nearVariants[v%len(nearVariants)]
	s := x.lead + x.kw + x.sp + fmt.Sprintf("v FROM t%d WHERE c = '%s'", g, x.lit)
	for i := 0; i < nc; i++ {
		s += fmt.Sprintf(" AND b%d = ?", i)
	}
	return s + x.tail
}

// nearPick chooses n distinct variants (the base with probability 1/2).
func nearPick(r *vh.Rng, n int) []int {
	if n > len(nearVariants) {
		n = len(nearVariants)
	}
	seen := map[int]bool{}
	var vs []int
	if r.Bool() {
		seen[0] = true
		vs = append(vs, 0)
	}
	for len(vs) < n {
		v := r.Intn(len(nearVariants))
		if !seen[v] {
			seen[v] = true
			vs = append(vs, v)
		}
	}
	return vs
}

// ---------- triples ----------

type triple [3][]byte

func (t triple) hex() string { return vh.Hex(t[0]) + " " + vh.Hex(t[1]) + " " + vh.Hex(t[2]) }
func (t triple) cat() []byte { return append(append(append([]byte{}, t[0]...), t[1]...), t[2]...) }
func (t triple) eq(u triple) bool {
	return bytes.Equal(t[0], u[0]) && bytes.Equal(t[1], u[1]) && bytes.Equal(t[2], u[2])
}

var nearHosts = []string{
	"2b4d1e6a-0c1f-4f0e-9d3a-5b6c7d8e9f01", "2b4d1e6a-0c1f-4f0e-9d3a-5b6c7d8e9f02", "2B4D1E6A-0C1F-4F0E-9D3A-5B6C7D8E9F01",
	"h1", "h2", "h", "h12", "", "h\x001", "h/1", "h:1", "10.0.0.1", "10.0.0.11", "h\u00e9", "1", "12", longPad[:100], longPad[:109],
}
var nearKss = []string{"", "ks", "Ks", "kS", "ks1", "ks2", "k", "s", "ks\x00", "k/s", "k:s", "k s", "system", "system_auth", "SELECT", "k\u00e9", "\u00e9", "2", "0/", longPad[:10], longPad[:99], longPad[:100], longPad[:101]}
var nearSeps = []string{"\x00", "/", ":", "|", " ", ",", "\x1f", "\n", "0", "2/"}

func nearBaseTriple(r *vh.Rng) triple {
	var st string
	switch r.Intn(4) {
	case 0:
		st = string(r.Bytes(r.Intn(6)))
	case 1:
		st = []string{"a", "b", "ab", "bc", "abc", " a", "a ", "SELECT", "sSELECT"}[r.Intn(9)]
	default:
		st = nearText(r.Intn(3), r.Intn(3), r.Intn(len(nearVariants)))
	}
	return triple{[]byte(nearHosts[r.Intn(len(nearHosts))]), []byte(nearKss[r.Intn(len(nearKss))]), []byte(st)}
}

// nearPair: a triple and a near-colliding partner; kind names the relation.
func nearPair(r *vh.Rng) (triple, triple, string) {
	a := nearBaseTriple(r)
	b := triple{a[0], a[1], a[2]}
	switch k := r.Intn(15); k {
	case 12:
		// both borders moved so that the KEYSPACE length stays: only the host-id length tells the two apart
		c := a.cat()
		if len(c) <= len(a[1]) {
			return a, b, "identical"
		}
		i := r.Intn(len(c) - len(a[1]) + 1)
		b[0], b[1], b[2] = c[:i], c[i:i+len(a[1])], c[i+len(a[1]):]
		return a, b, "borders-moved-same-ks-len"
	case 13:
		// lengths (n, nn) and (nn, n) over one concatenation: the digits of the two lengths, written without a
		// separator, are the same string ("111", "222", ...)
		n := 1 + r.Intn(3)
		c := append(r.Bytes(12*n), a[2]...)
		for i := range c[:12*n] {
			c[i] = "abk/0123456789"[int(c[i])%14]
		}
		a[0], a[1], a[2] = c[:n], c[n:12*n], c[12*n:]
		b[0], b[1], b[2] = c[:11*n], c[11*n:12*n], c[12*n:]
		return a, b, "length-digits-ambiguous"
	case 14:
		// a digit at the start of the host id continues the decimal length before it: ("2", x, y..) against
		// (x, the next 12 bytes, rest) - "1/1" + "2"+X and "1/12" + X if the second '/' were missing
		x := r.Bytes(20 + r.Intn(6))
		for i := range x {
			x[i] = "abk/0123456789"[int(x[i])%14]
		}
		d := r.Intn(10)
		if r.Bool() {
			a[0], a[1], a[2] = []byte{byte('0' + d)}, x[:1], x[1:]
			b[0], b[1], b[2] = x[:1], x[1:11+d], x[11+d:]
			return a, b, "length-digit-bleeds"
		}
		// lengths (1, 1d) and (11, d) over one concatenation: "1"+"1d" and "11"+"d" are the same digits
		a[0], a[1], a[2] = x[:1], x[1:11+d], x[11+d:]
		b[0], b[1], b[2] = x[:11], x[11:11+d], x[11+d:]
		return a, b, "length-digits-ambiguous"
	case 0:
		return a, b, "identical"
	case 1, 2, 3:
		// another variant of the same statement
		g, nc := r.Intn(3), r.Intn(3)
		vs := nearPick(r, 2)
		a[2], b[2] = []byte(nearText(g, nc, vs[0])), []byte(nearText(g, nc, vs[1]))
		return a, b, "text-variant/" + nearVariants[vs[0]].name + "~" + nearVariants[vs[1]].name
	case 4:
		// the same text on another keyspace
		for string(b[1]) == string(a[1]) {
			b[1] = []byte(nearKss[r.Intn(len(nearKss))])
		}
		return a, b, "keyspace-differs"
	case 5:
		for string(b[0]) == string(a[0]) {
			b[0] = []byte(nearHosts[r.Intn(len(nearHosts))])
		}
		return a, b, "host-differs"
	case 6:
		// move the keyspace / statement border
		c := append(append([]byte{}, a[1]...), a[2]...)
		i := r.Intn(len(c) + 1)
		b[1], b[2] = c[:i], c[i:]
		return a, b, "border-ks|text-moved"
	case 7:
		// move the host / keyspace border
		c := append(append([]byte{}, a[0]...), a[1]...)
		i := r.Intn(len(c) + 1)
		b[0], b[1] = c[:i], c[i:]
		return a, b, "border-host|ks-moved"
	case 8, 9:
		// what a naive join with a separator identifies: (x, y<sep>z) and (x<sep>y, z)
		sep := nearSeps[r.Intn(len(nearSeps))]
		x, y, z := string(r.Bytes(r.Intn(3))), string(r.Bytes(r.Intn(3))), string(a[2])
		if r.Bool() {
			a[1], a[2] = []byte(x), []byte(y+sep+z)
			b[1], b[2] = []byte(x+sep+y), []byte(z)
			return a, b, "join-ks|text/sep"
		}
		h := string(a[0])
		a[0], a[1] = []byte(h), []byte(x+sep+y)
		b[0], b[1] = []byte(h+sep+x), []byte(y)
		return a, b, "join-host|ks/sep"
	case 10:
		// one byte changed / dropped / added somewhere in the text
		if len(a[2]) == 0 {
			b[2] = []byte{byte(r.Intn(256))}
			return a, b, "text-byte/added"
		}
		c := append([]byte{}, a[2]...)
		i := r.Intn(len(c))
		switch r.Intn(3) {
		case 0:
			c[i] ^= byte(1 << uint(r.Intn(8)))
		case 1:
			c = append(c[:i], c[i+1:]...)
		default:
			c = append(c[:i], append([]byte{c[i]}, c[i:]...)...)
		}
		b[2] = c
		return a, b, "text-byte"
	default:
		// a component moved to another position: (h, ks, s) vs (ks, h, s) / (h, s, ks)
		if r.Bool() {
			b[0], b[1] = a[1], a[0]
			return a, b, "swapped-host-ks"
		}
		b[1], b[2] = a[2], a[1]
		return a, b, "swapped-ks-text"
	}
}

// concatEqual: different triples whose plain concatenations are equal - the pairs a key without lengths identifies
// (the former excluded class of KF-C14-1; only counted now, the pair is judged like every other).
func concatEqual(a, b triple) bool {
	return bytes.Equal(a.cat(), b.cat()) && (len(a[0]) != len(b[0]) || len(a[1]) != len(b[1]))
}

func pairOp(a, b triple) string { return "keypair " + a.hex() + " " + b.hex() }

func unhex3(w []string) (triple, bool) {
	var t triple
	for i := 0; i < 3; i++ {
		b, err := vh.UnHex(w[i])
		if err != nil {
			return t, false
		}
		t[i] = b
	}
	return t, true
}

// hexEv renders OnEvicted records "<raw key>:<flight>" with the key in hex (keys may contain any byte).
func hexEv(e []string) string {
	if len(e) == 0 {
		return "-"
	}
	var p []string
	for _, x := range e {
		i := strings.LastIndexByte(x, ':')
		p = append(p, vh.Hex([]byte(x[:i]))+x[i:])
	}
	return strings.Join(p, ",")
}

// execNear: the ops of this file on the real preparedLRU.
func (st *state) execNear(w []string) string {
	switch w[0] {
	case "keyfor":
		if len(w) != 4 {
			return "bad-op"
		}
		t, ok := unhex3(w[1:])
		if !ok {
			return "bad-op"
		}
		return vh.Hex([]byte(st.p.KeyFor(string(t[0]), string(t[1]), string(t[2]))))
	case "keypair":
		if len(w) != 7 {
			return "bad-op"
		}
		a, ok1 := unhex3(w[1:4])
		b, ok2 := unhex3(w[4:7])
		if !ok1 || !ok2 {
			return "bad-op"
		}
		if st.p.KeyFor(string(a[0]), string(a[1]), string(a[2])) == st.p.KeyFor(string(b[0]), string(b[1]), string(b[2])) {
			return "same"
		}
		return "differ"
	case "lookupx":
		if len(w) != 4 {
			return "bad-op"
		}
		t, ok := unhex3(w[1:])
		if !ok {
			return "bad-op"
		}
		f, hit, e := st.p.Lookup(st.p.KeyFor(string(t[0]), string(t[1]), string(t[2])))
		h := "miss"
		if hit {
			h = "hit"
		}
		return fmt.Sprintf("%s f=%d ev=%s len=%d", h, f, hexEv(e), st.p.Len())
	case "completex":
		if len(w) != 4 {
			return "bad-op"
		}
		id, err := vh.UnHex(w[3])
		if err != nil {
			return "bad-op"
		}
		ok, e := st.p.Complete(atoi(w[1]), id, w[2] != "ok")
		if !ok {
			return "rejected"
		}
		return fmt.Sprintf("done ev=%s len=%d", hexEv(e), st.p.Len())
	case "unprepx":
		if len(w) != 5 {
			return "bad-op"
		}
		t, ok := unhex3(w[1:])
		id, err := vh.UnHex(w[4])
		if !ok || err != nil {
			return "bad-op"
		}
		e := st.p.Unprepared(st.p.KeyFor(string(t[0]), string(t[1]), string(t[2])), id)
		return fmt.Sprintf("ev=%s len=%d", hexEv(e), st.p.Len())
	}
	return "bad-op"
}

// nearTier: keyfor / keypair on generated near-collisions, and the single-flight protocol on groups of
// near-colliding triples (every member has its own entry, its own flight, its own id).
func nearTier(r *vh.Rng, out *vh.Out, emit func(op, class string) string, mult int) {
	emit("reset plru 0", "near/reset")
	for i := 0; i < 1500*mult; i++ {
		a, b, kind := nearPair(r)
		if i%3 == 0 {
			emit("keyfor "+a.hex(), "near/keyfor")
			emit("keyfor "+b.hex(), "near/keyfor")
		}
		op := pairOp(a, b)
		ans := emit(op, "near/"+strings.Fields(op)[0])
		k := strings.SplitN(kind, "/", 2)[0]
		out.Dist["near/pair/"+k+"/"+ans]++
		if concatEqual(a, b) {
			out.Dist["near/concat-equal(lengths-differ)/"+ans]++
		}
		// the relation is symmetric and reflexive
		if i%5 == 0 {
			emit(pairOp(b, a), "near/keypair-sym")
			emit(pairOp(a, a), "near/keypair-refl")
		}
	}
	// every pair of variants of one statement, on one host and keyspace
	for v1 := 0; v1 < len(nearVariants); v1++ {
		for v2 := v1 + 1; v2 < len(nearVariants); v2++ {
			a := triple{[]byte(nearHosts[0]), []byte("ks"), []byte(nearText(0, 1, v1))}
			b := triple{[]byte(nearHosts[0]), []byte("ks"), []byte(nearText(0, 1, v2))}
			emit(pairOp(a, b), "near/keypair-variants")
		}
	}
	// single flight over near-colliding groups
	caps := []int{0, 0, 1000, 1000, 2, 3, 5, 8}
	for seq := 0; seq < 100*mult; seq++ {
		cp := caps[r.Intn(len(caps))]
		emit(fmt.Sprintf("reset plru %d", cp), "nearlru/reset")
		var group []triple
		a := nearBaseTriple(r)
		group = append(group, a)
		for len(group) < 3+r.Intn(5) {
			var x, y triple
			if r.Intn(3) == 0 {
				x, y, _ = nearPair(r)
			} else {
				// a partner of a member of the group
				m := group[r.Intn(len(group))]
				g, nc := r.Intn(2), r.Intn(2)
				vs := nearPick(r, 2)
				x = triple{m[0], m[1], []byte(nearText(g, nc, vs[0]))}
				y = triple{m[0], m[1], []byte(nearText(g, nc, vs[1]))}
			}
			group = append(group, x, y)
		}
		type fl struct {
			done, ok bool
			id       string
			t        triple
		}
		var flights []fl
		for i, n := 0, 12+r.Intn(50); i < n; i++ {
			t := group[r.Intn(len(group))]
			switch x := r.Intn(20); {
			case x < 10:
				ans := emit("lookupx "+t.hex(), "nearlru/lookup")
				w := strings.Fields(ans)
				if len(w) > 0 {
					out.Dist["nearlru/lookup/"+w[0]]++
					if w[0] == "miss" {
						flights = append(flights, fl{t: t})
					}
				}
			case x < 16:
				if len(flights) == 0 {
					continue
				}
				f := r.Intn(len(flights))
				for k := 0; k < 4 && flights[f].done; k++ {
					f = r.Intn(len(flights))
				}
				if r.Intn(4) == 0 {
					if emit(fmt.Sprintf("completex %d fail -", f), "nearlru/complete-fail") != "rejected" {
						flights[f].done = true
					}
				} else {
					id := vh.Hex([]byte{byte(1 + f%250)})
					if emit(fmt.Sprintf("completex %d ok %s", f, id), "nearlru/complete-ok") != "rejected" {
						flights[f].done, flights[f].ok, flights[f].id = true, true, id
					}
				}
			case x < 19:
				id := vh.Hex([]byte{byte(1 + r.Intn(3))})
				if len(flights) > 0 {
					g := flights[r.Intn(len(flights))]
					t = g.t
					if g.ok && r.Intn(4) != 0 {
						id = g.id
					}
				}
				ans := emit("unprepx "+t.hex()+" "+id, "nearlru/unprep")
				if !strings.HasPrefix(ans, "ev=- ") {
					out.Dist["nearlru/unprep/evicted"]++
				}
			default:
				if len(flights) > 0 {
					emit(fmt.Sprintf("outcome %d", r.Intn(len(flights))), "nearlru/outcome")
				}
			}
		}
		emit("reset plru 0", "nearlru/reset")
	}
}
