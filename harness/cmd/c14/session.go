// Session tier of the C14 harness: a real gocql.Session over the in-memory scripted cluster, N concurrent
// callers executing overlapping prepared statements (queries and batches) on 1..2 hosts with a statement
// cache that may be smaller than the working set, scripted server behaviour per PREPARE / EXECUTE / BATCH
// (PREPARE ok with a chosen id and bind metadata / error / delayed; EXECUTE ok / UNPREPARED / error; the
// server forgetting statements), and a totally ordered history of
//
//	S  call starts            (logged by the caller before Exec / ExecuteBatch)
//	P  PREPARE at the server  (logged by the server together with the answer it chose, before replying)
//	R  entry left the cache   (lru.Cache.OnEvicted, called under the cache mutex)
//	X  EXECUTE / BATCH at the server (with the answer chosen, before replying)
//	T  call returned          (logged by the caller after Exec returned)
//	K  the call's context is done from here on (logged by whoever cancels, BEFORE cancelling; for a
//	   deadline context when it is armed, i.e. before the call)
//
// Caller contexts: every call has one of the modes below (background; cancelled before the call; deadline
// already passed; cancelled by the scripted server when a PREPARE of one of the call's statements arrives /
// just before that PREPARE is answered / when the call's own EXECUTE or BATCH arrives; cancelled by the
// call's own value-binding callback, i.e. after PREPARE and before EXECUTE; a short deadline; cancelled by
// a timer). The first five cancellation points are reached by event order; the timers only perturb.
// After the callers of a run have returned, every statement they used is executed once more on its host
// with a background context (liveness probe: an in-flight entry nobody completes blocks exactly these).
//
// Metadata, failure kinds (meta.go): P and X carry, next to the prepared id, the byte widths of the bind columns
// declared / of the values found in the frame (one token for the specification); a query call checks its Iter's
// column against the PREPARE whose id it executed; a PREPARE fails as ERROR frame / undecodable frame / answer of
// another kind / never answered (request timeout; own Sessions, judged at the end of the tier) / by the server
// closing the host's connections (connectionLost: K then also stands for "the connection serving the call was
// closed", the licence to return an abort error). Batches may carry an entry without values (plain statement, not
// prepared: absent from S, checked at the server); an entry written <key>/<1000+n> binds n values one of which no
// column type accepts (value error expected, nothing sent).
// Stepped runs (stepped): every PREPARE / EXECUTE / BATCH answer is held at the server and released - like the
// starts and cancellations of the executions - by a schedule word, one letter at a time.
//
// The history is one `trace` op; the Lean specification `Obs` (lean/Model/Prepare.lean) judges it.
// Decisions depend on the ORDER of events only (the one exception is declared: a PREPARE that is never answered
// fails by the Session's 2.5 s request timeout; a run in which that timeout hits anything else is not judged). Delays are schedule perturbation, never part of a verdict;
// the watchdog (25 s) counts only together with a goroutine dump that shows a goroutine blocked in gocql.
package main

import (
	"context"
	"errors"
	"fmt"
	"os"
	"regexp"
	"runtime"
	"sort"
	"strconv"
	"strings"
	"sync"
	"sync/atomic"
	"time"

	"github.com/gocql/gocql"
	"verifharness/memcluster"
	"verifharness/sess"
	"verifharness/vh"
)

const watchdog = 25 * time.Second

// grace: after the watchdog expired and the goroutine dump was taken, the executions get this much longer; a hang is
// declared only if they are still blocked then (second dump)
const grace = 6 * time.Second

// ---------- history ----------

type hev struct {
	text   string      // complete event, or for R events the prefix "R:<key>:"
	flight interface{} // R events: the flight, resolved to its PREPARE number at the end
}

type hist struct {
	mu      sync.Mutex
	evs     []hev
	ncalls  int
	nprep   int
	stopped bool
}

func (h *hist) add(s string) {
	h.mu.Lock()
	if !h.stopped {
		h.evs = append(h.evs, hev{text: s})
	}
	h.mu.Unlock()
}

// ---------- scripted server ----------

type pfate struct {
	fail  bool
	kind  int // how a failing PREPARE fails (pfFrame, pfUndecodable, pfOtherKind, pfSilent; meta.go)
	delay time.Duration
}

type xfate struct {
	kind  int // 0 ok, 1 error, 2 forget everything on this host first, 3 UNPREPARED carrying another id
	delay time.Duration
}

type stmtDef struct {
	text  string
	ncols int
}

type nodeState struct {
	node       *memcluster.Node
	idx        int
	ip         string
	hostID     string
	registered map[string]int // id -> statement index
	pf         map[int][]pfate
	xf         []xfate
	nx         int
}

type world struct {
	r        *vh.Rng
	h        *hist
	stmts    []stmtDef
	stmtIdx  map[string]int
	nodes    []*nodeState
	byIP     map[string]*nodeState
	stableID bool
	ks       string
	sess     *gocql.Session
	keyLabel map[string]string // cache key string -> "h<i>.s<j>"
	capacity int
	maxLen   int32
	calls    sync.Map          // call number -> *callSpec
	pending  int32             // frames received and not answered yet
	frames   map[int]int       // EXECUTE/BATCH frames per call (history lock)
	cut      map[int]bool      // calls declared not terminating
	nforget  int               // scripted "forget" / foreign-id answers so far
	live     map[int]*liveCall // calls with a cancellable context (history lock)
	stalled  bool              // the watchdog expired but the executions returned right after the goroutine dump
	// hooks for directed scenarios: called with the history lock held, may override the fate
	issued   map[string][]byte // id -> the value widths declared with it (never forgotten; history lock)
	serialOf map[string]int    // id -> the number of the latest PREPARE that issued it (history lock)
	prepKey  map[int]string    // PREPARE number -> key label (history lock)
	lastX    map[int][][]byte  // call -> the ids of its last EXECUTE / BATCH frame (history lock)
	silent   map[string]int    // key label -> the one PREPARE of that key that was never answered (history lock)
	proto    int
	roams    []*roam // the roaming Queries of this world (history lock)
	pol      *pinPolicy
	// connection loss (at most one per world): from D on - until the pool is seen whole again - every call that is
	// running or starts is PERMITTED to return an abort error (K:<c>, here: "the connection serving call c was closed
	// by the server", the same licence a done context gives); a call that starts later has no such licence
	lossy        bool         // the window is open (history lock)
	lost         bool         // a connection loss happened in this world
	running      map[int]bool // calls started and not returned (history lock)
	permitted    map[int]bool // calls with a K logged for the connection loss (history lock)
	connsAtStart map[*gocql.Conn]bool
	closedAt     map[string]int // key label -> the PREPARE that was answered by closing the connections
	spurious     bool           // a call returned the driver's timeout error without a silent PREPARE of its statements
	timeout      time.Duration  // the Session's request timeout, if the world has a short one (silent PREPAREs allowed)
	onPrepare    func(n *nodeState, stmt int, serial int) (pfate, chan struct{})
	onExec       func(n *nodeState, call int, known bool) (xfate, chan struct{}, bool)
}

// badValue: nvals = badValue + n stands for n bound values one of which cannot be marshalled into any column type. For
// the specification that is a value list that matches no bind metadata (its 'number' equals no column count): the
// execution must end with the value error and send nothing, exactly as for a wrong number of values.
const badValue = 1000

type entrySpec struct {
	stmt  int
	nvals int
	plain bool // batch entry without values: sent as a plain statement, not prepared (nvals 0)
}

// prepared: the entries the driver prepares (all but the plain entries of a batch)
func (c *callSpec) prepared() []entrySpec {
	var es []entrySpec
	for _, e := range c.entries {
		if !e.plain {
			es = append(es, e)
		}
	}
	return es
}

type callSpec struct {
	batch   bool
	host    int
	entries []entrySpec
	ctx     int           // context mode (ctxBg ...)
	ctxAt   int           // ctxAtBind: the entry whose binding callback cancels
	ctxD    time.Duration // ctxDlDuring / ctxTimer
}

// context modes of a call
const (
	ctxBg          = iota // context.Background (plus the host pin)
	ctxPre                // cancelled before the call
	ctxDlPast             // deadline already passed
	ctxAtPrepRecv         // cancelled when the server receives a PREPARE of one of the call's statements on its host
	ctxAtPrepReply        // ... just before the server answers such a PREPARE
	ctxAtBind             // cancelled by the call's own binding callback (after PREPARE, before EXECUTE)
	ctxAtExec             // cancelled when the server receives the call's EXECUTE / BATCH
	ctxDlDuring           // deadline ctxD after the start
	ctxTimer              // cancelled ctxD after the start
	nCtxModes
)

// ctxManual: a cancellable context that nothing cancels by itself (the stepped runs cancel it from their schedule)
const ctxManual = nCtxModes + 1

var ctxNames = []string{"bg", "pre", "dlpast", "at-prep-recv", "at-prep-reply", "at-bind", "at-exec", "dl-during", "timer"}

type liveCall struct {
	spec     *callSpec
	cancel   context.CancelFunc
	kLogged  bool
	returned bool
}

// cancelLocked logs K:<num> and cancels the call's context (history lock held; K precedes the cancellation).
func (w *world) cancelLocked(num int) {
	lc := w.live[num]
	if lc == nil || lc.kLogged || lc.returned {
		return
	}
	lc.kLogged = true
	if !w.h.stopped {
		w.h.evs = append(w.h.evs, hev{text: fmt.Sprintf("K:%d", num)})
	}
	lc.cancel()
}

func (w *world) cancelCall(num int) {
	w.h.mu.Lock()
	w.cancelLocked(num)
	w.h.mu.Unlock()
}

// cancelOnPrepareLocked cancels the running calls of the given mode that execute statement si on node n.
func (w *world) cancelOnPrepareLocked(n *nodeState, si int, mode int) {
	var nums []int
	for num, lc := range w.live {
		if lc.spec.ctx != mode || lc.returned || lc.kLogged || lc.spec.host != n.idx {
			continue
		}
		for _, e := range lc.spec.prepared() {
			if e.stmt == si {
				nums = append(nums, num)
				break
			}
		}
	}
	sort.Ints(nums)
	for _, num := range nums {
		w.cancelLocked(num)
	}
}

// permitAbortLocked logs K:<num> once: call num may return an abort error from here on (history lock held).
func (w *world) permitAbortLocked(num int) {
	if !w.permitted[num] {
		w.permitted[num] = true
		w.h.evs = append(w.h.evs, hev{text: fmt.Sprintf("K:%d", num)})
	}
}

// loseConnections: the server closes every connection of node n. Logged first (K for every running call, in call
// order), then done.
func (w *world) loseConnections(n *nodeState) {
	w.h.mu.Lock()
	w.lossy, w.lost = true, true
	var nums []int
	for num := range w.running {
		nums = append(nums, num)
	}
	sort.Ints(nums)
	for _, num := range nums {
		w.permitAbortLocked(num)
	}
	w.h.mu.Unlock()
	for _, sc := range n.node.ServerConns() {
		sc.Close()
	}
}

// poolRenewed (one-host worlds): the pool holds at least one connection, none of them closed and none of them one
// of the connections the session had before the loss (those are all closed by the server, whether or not the
// driver has noticed yet; a connection dialled after the driver noticed a loss is a good one). The pool refills
// the rest on the next Pick.
func (w *world) poolRenewed() bool {
	conns := gocql.VerifSessionConns(w.sess)
	if len(conns) == 0 {
		return false
	}
	for _, c := range conns {
		if c.Closed() || w.connsAtStart[c] {
			return false
		}
	}
	return true
}

func keyLabel(host, stmt int) string { return fmt.Sprintf("h%d.s%d", host, stmt) }

// idFor: the id host number `host` issues for statement stmt (PREPARE number serial). No two hosts ever issue the same
// id: an id that another host issued is an id this host does not know.
func (w *world) idFor(host, stmt, serial int) []byte {
	if w.stableID {
		return []byte(fmt.Sprintf("S%02dh%d", stmt, host))
	}
	return []byte(fmt.Sprintf("s%02dn%04d", stmt, serial))
}

func intCols(n int, prefix string) []memcluster.Col {
	var c []memcluster.Col
	for i := 0; i < n; i++ {
		c = append(c, memcluster.Col{Name: fmt.Sprintf("%s%d", prefix, i), Type: memcluster.TInt})
	}
	return c
}

func after(d time.Duration, gate chan struct{}, f func()) {
	if d == 0 && gate == nil {
		f()
		return
	}
	go func() {
		if gate != nil {
			// gates only shape the schedule: if the awaited event does not happen the answer goes out anyway
			select {
			case <-gate:
			case <-time.After(500 * time.Millisecond):
			}
		}
		if d > 0 {
			time.Sleep(d)
		}
		f()
	}()
}

// parseBatchTail returns the default timestamp of a BATCH frame (v3+), 0 if none.
func parseBatchTail(req *memcluster.Request) (ts int64, vals [][][]byte) {
	r := &memcluster.R{B: req.Frame.Body}
	r.Byte()
	n := r.Short()
	for i := 0; i < n && r.Err == nil; i++ {
		if r.Byte() == 0 {
			r.LongString()
		} else {
			r.ShortBytes()
		}
		nv := r.Short()
		ev := [][]byte{}
		for j := 0; j < nv && r.Err == nil; j++ {
			ev = append(ev, r.Bytes())
		}
		vals = append(vals, ev)
	}
	r.Short()
	flags := r.Byte()
	if flags&0x10 != 0 {
		r.Short()
	}
	if flags&0x20 != 0 {
		ts = r.Long()
	}
	return
}

func trimTrace(op string) string {
	return strings.TrimPrefix(strings.TrimPrefix(op, "traceU "), "trace ")
}

// hexToks: per prepared entry <id>/<widths of its values>
func hexToks(ids, sigs [][]byte) string {
	var p []string
	for i, id := range ids {
		var sg []byte
		if i < len(sigs) {
			sg = sigs[i]
		}
		p = append(p, vh.Hex(id)+"/"+vh.Hex(sg))
	}
	return strings.Join(p, ",")
}

func (w *world) handle(n *nodeState, req *memcluster.Request) {
	sc := req.Conn
	switch req.Op {
	case memcluster.OpQuery:
		if strings.HasPrefix(req.Stmt, "USE ") {
			b := &memcluster.W{}
			b.Int(3)
			b.String(strings.Trim(strings.TrimPrefix(req.Stmt, "USE "), `"`))
			sc.Reply(req.Stream, memcluster.OpResult, b.B)
			return
		}
		sc.Reply(req.Stream, memcluster.OpResult, memcluster.VoidBody())
	case memcluster.OpPrepare:
		si, ok := w.stmtIdx[req.Stmt]
		if !ok {
			w.h.add("Z:prepare-of-unknown-statement")
			sc.Reply(req.Stream, memcluster.OpError, memcluster.ErrorBody(memcluster.ErrSyntax, "unknown statement", nil))
			return
		}
		w.h.mu.Lock()
		serial := w.h.nprep
		w.h.nprep++
		var f pfate
		var gate chan struct{}
		if w.onPrepare != nil {
			f, gate = w.onPrepare(n, si, serial)
		} else if l := n.pf[si]; len(l) > 0 {
			f = l[0]
			n.pf[si] = l[1:]
		}
		key := keyLabel(n.idx, si)
		w.cancelOnPrepareLocked(n, si, ctxAtPrepRecv)
		var op byte
		var body []byte
		w.prepKey[serial] = key
		silent, closing := false, false
		if f.fail {
			kind := f.kind
			if kind == pfSilent {
				// at most one PREPARE per key is never answered, and only where the driver's timeout is short
				if _, used := w.silent[key]; used || w.timeout == 0 {
					kind = pfFrame
				} else {
					w.silent[key] = serial
					silent = true
				}
			}
			if kind == pfClosed {
				if _, used := w.closedAt[key]; used || w.lost {
					kind = pfFrame
				} else {
					w.closedAt[key] = serial
					closing = true
				}
			}
			w.h.evs = append(w.h.evs, hev{text: fmt.Sprintf("P:%d:%s:err/%s", serial, key, pfWords[kind])})
			op, body = failedPrepareReply(kind, serial)
		} else {
			id := w.idFor(n.idx, si, serial)
			n.registered[string(id)] = si
			nc := w.stmts[si].ncols
			sig := w.bindSig(si, serial, nc)
			w.issued[string(id)] = sig
			w.serialOf[string(id)] = serial
			w.h.evs = append(w.h.evs, hev{text: fmt.Sprintf("P:%d:%s:ok/%s/%d/%s", serial, key, vh.Hex(id), nc, vh.Hex(sig))})
			op = memcluster.OpResult
			body = memcluster.PreparedBody(w.proto, id, sigCols(sig, "b"), nil,
				[]memcluster.Col{{Name: fmt.Sprintf("r%d", serial), Type: memcluster.TInt}})
		}
		w.h.mu.Unlock()
		if silent {
			// never answered: the flight's Conn.exec ends with the driver's timeout
			return
		}
		if closing {
			// never answered: the connections go instead (after the gate / delay, like an answer)
			after(f.delay, gate, func() { w.loseConnections(n) })
			return
		}
		atomic.AddInt32(&w.pending, 1)
		after(f.delay, gate, func() {
			w.h.mu.Lock()
			w.cancelOnPrepareLocked(n, si, ctxAtPrepReply)
			w.h.mu.Unlock()
			sc.Reply(req.Stream, op, body)
			atomic.AddInt32(&w.pending, -1)
		})
	case memcluster.OpExecute, memcluster.OpBatch:
		var ids, sigs [][]byte
		var ts int64
		var frameVals []int
		var plainStmts []string
		if req.Op == memcluster.OpExecute {
			ids = [][]byte{req.PreparedID}
			sigs = [][]byte{widthsOf(req.Values)}
			ts = req.Timestamp
			frameVals = []int{len(req.Values)}
		} else {
			var vals [][][]byte
			ts, vals = parseBatchTail(req)
			for i, k := range req.BatchKinds {
				if k == 1 {
					ids = append(ids, req.BatchIDs[i])
					if i < len(vals) {
						frameVals = append(frameVals, len(vals[i]))
						sigs = append(sigs, widthsOf(vals[i]))
					} else {
						sigs = append(sigs, nil)
					}
				} else {
					plainStmts = append(plainStmts, req.BatchStmts[i])
				}
			}
		}
		call := int(ts) - 1
		w.h.mu.Lock()
		var rm *roam
		if ts >= roamBase {
			// a frame of a roaming Query: it belongs to that Query's latest attempt on THIS host
			call = -1
			if i := int(ts - roamBase); i < len(w.roams) {
				rm = w.roams[i]
				if a, ok := rm.onHost[n.idx]; ok {
					call = a
				}
			}
		}
		// the frame itself: right host, right number of values per prepared entry
		bad := ""
		if cs, ok := w.calls.Load(call); !ok {
			bad = "Z:frame-of-unknown-call"
		} else {
			c := cs.(*callSpec)
			pes := c.prepared()
			if c.host != n.idx {
				bad = fmt.Sprintf("Z:frame-of-call-%d-on-another-host", call)
			} else if len(frameVals) == len(pes) {
				for i, e := range pes {
					if frameVals[i] != e.nvals {
						bad = fmt.Sprintf("Z:frame-of-call-%d-carries-%d-values-for-%d-bound", call, frameVals[i], e.nvals)
					}
				}
			}
			// the entries without values travel as plain statements, in their places, with their own texts
			var wantPlain []string
			wantKinds := ""
			for _, e := range c.entries {
				if e.plain {
					wantPlain = append(wantPlain, w.stmts[e.stmt].text)
					wantKinds += "0"
				} else {
					wantKinds += "1"
				}
			}
			if req.Op == memcluster.OpBatch && bad == "" {
				gotKinds := ""
				for _, k := range req.BatchKinds {
					gotKinds += strconv.Itoa(int(k))
				}
				if gotKinds != wantKinds || strings.Join(plainStmts, "\x00") != strings.Join(wantPlain, "\x00") {
					bad = fmt.Sprintf("Z:batch-of-call-%d-entry-kinds-%s-for-%s-or-another-plain-statement", call, gotKinds, wantKinds)
				}
			}
		}
		if bad != "" {
			w.h.evs = append(w.h.evs, hev{text: bad})
		}
		var unknown []byte
		for _, id := range ids {
			if _, ok := n.registered[string(id)]; !ok {
				unknown = id
				break
			}
		}
		var f xfate
		var gate chan struct{}
		handled := false
		// a correct driver re-prepares after an UNPREPARED answer, so a call's frames are bounded by the
		// PREPAREs and the scripted losses so far; beyond that the call is declared not terminating (event
		// L) and is answered with an error from then on so that the run ends
		w.frames[call]++
		if !w.cut[call] && (w.frames[call] > 20+3*(w.h.nprep+w.nforget) || w.frames[call] > 150) {
			w.cut[call] = true
			w.h.evs = append(w.h.evs, hev{text: fmt.Sprintf("L:%d", call)})
		}
		if w.cut[call] {
			w.h.evs = append(w.h.evs, hev{text: fmt.Sprintf("X:%d:%s:err", call, hexToks(ids, sigs))})
			w.h.mu.Unlock()
			sc.Reply(req.Stream, memcluster.OpError, memcluster.ErrorBody(memcluster.ErrInvalid, "xe", nil))
			return
		}
		morePages := false
		if rm != nil {
			// the roaming Query's own script: the first `errs` executions that carry known ids are answered with an
			// error (the retry policy moves on to the next host), the pages but the last say that there is more
			handled = true
			if unknown == nil {
				rm.served++
				if rm.served <= rm.errs {
					f = xfate{kind: 1}
				} else if rm.served < rm.errs+rm.pages {
					morePages = true
				}
			}
		} else if w.onExec != nil {
			f, gate, handled = w.onExec(n, call, unknown == nil)
		}
		if !handled && unknown == nil && n.nx < len(n.xf) {
			f = n.xf[n.nx]
			n.nx++
		}
		w.lastX[call] = ids
		ans := "ok"
		op, body := byte(memcluster.OpResult), memcluster.VoidBody()
		if req.Op == memcluster.OpExecute {
			// rows of one column named after the PREPARE that issued the id (with stable ids: the latest one); without
			// metadata if the frame says the driver has it from the PREPARE answer
			name := "r?"
			if sn, ok := w.serialOf[string(ids[0])]; ok {
				name = fmt.Sprintf("r%d", sn)
			}
			var rows [][][]byte
			var paging []byte
			if rm != nil {
				rows = [][][]byte{{{0, 0, 0, 7}}}
				if morePages {
					paging = []byte("more")
				}
			}
			body = memcluster.RowsBody([]memcluster.Col{{Name: name, Type: memcluster.TInt}}, rows, paging, req.QFlags&0x02 != 0)
		}
		unTok := func(id []byte) string { return "un/" + vh.Hex(id) + "/" + vh.Hex(w.issued[string(id)]) }
		switch {
		case unknown != nil:
			ans = unTok(unknown)
			op, body = memcluster.OpError, memcluster.ErrorBody(memcluster.ErrUnprepared, "unprepared", memcluster.UnpreparedExtra(unknown))
		case f.kind == 1:
			ans = "err"
			op, body = memcluster.OpError, memcluster.ErrorBody(memcluster.ErrInvalid, "xe", nil)
		case f.kind == 2:
			w.nforget++
			n.registered = map[string]int{}
			ans = unTok(ids[0])
			op, body = memcluster.OpError, memcluster.ErrorBody(memcluster.ErrUnprepared, "unprepared", memcluster.UnpreparedExtra(ids[0]))
		case f.kind == 4 && !w.lost:
			// not answered: the server closes the host's connections instead
			ans = "err"
			w.h.evs = append(w.h.evs, hev{text: fmt.Sprintf("X:%d:%s:%s", call, hexToks(ids, sigs), ans)})
			w.h.mu.Unlock()
			after(f.delay, gate, func() { w.loseConnections(n) })
			return
		case f.kind == 3:
			w.nforget++
			other := []byte("other-id")
			ans = unTok(other)
			op, body = memcluster.OpError, memcluster.ErrorBody(memcluster.ErrUnprepared, "unprepared", memcluster.UnpreparedExtra(other))
		}
		w.h.evs = append(w.h.evs, hev{text: fmt.Sprintf("X:%d:%s:%s", call, hexToks(ids, sigs), ans)})
		if lc := w.live[call]; lc != nil && lc.spec.ctx == ctxAtExec {
			w.cancelLocked(call)
		}
		w.h.mu.Unlock()
		atomic.AddInt32(&w.pending, 1)
		after(f.delay, gate, func() { sc.Reply(req.Stream, op, body); atomic.AddInt32(&w.pending, -1) })
	default:
		sc.Reply(req.Stream, memcluster.OpResult, memcluster.VoidBody())
	}
}

// ---------- host pinning ----------

type ctxKey struct{}

type pinPolicy struct {
	mu    sync.Mutex
	hosts map[string]*gocql.HostInfo
}

func (p *pinPolicy) AddHost(h *gocql.HostInfo) {
	p.mu.Lock()
	p.hosts[h.ConnectAddress().String()] = h
	p.mu.Unlock()
}
func (p *pinPolicy) RemoveHost(*gocql.HostInfo)                {}
func (p *pinPolicy) HostUp(h *gocql.HostInfo)                  { p.AddHost(h) }
func (p *pinPolicy) HostDown(*gocql.HostInfo)                  {}
func (p *pinPolicy) SetPartitioner(string)                     {}
func (p *pinPolicy) KeyspaceChanged(gocql.KeyspaceUpdateEvent) {}
func (p *pinPolicy) Init(*gocql.Session)                       {}
func (p *pinPolicy) IsLocal(*gocql.HostInfo) bool              { return true }

type pinned struct{ h *gocql.HostInfo }

func (s pinned) Info() *gocql.HostInfo { return s.h }
func (s pinned) Mark(error)            {}

func (p *pinPolicy) Pick(q gocql.ExecutableQuery) gocql.NextHost {
	var ctx context.Context
	switch x := q.(type) {
	case *gocql.Query:
		ctx = x.Context()
	case *gocql.Batch:
		ctx = x.Context()
	}
	if rm, ok := ctx.Value(roamKey{}).(*roam); ok {
		return rm.nextHost
	}
	ip, _ := ctx.Value(ctxKey{}).(string)
	done := false
	return func() gocql.SelectedHost {
		if done {
			return nil
		}
		done = true
		p.mu.Lock()
		defer p.mu.Unlock()
		if h := p.hosts[ip]; h != nil {
			return pinned{h}
		}
		return nil
	}
}

// ---------- one Query value executed on several hosts ----------
//
// A roaming Query is ONE gocql.Query whose executions go to different hosts: the pages of a paged iteration (every page
// is a new execution of a copy of the Query, handed to the host selection policy again) or the attempts of a retry
// policy that answers every error with RetryNextHost. What such executions share is the Query value - whatever the
// driver remembers THERE about the prepared statement was learnt on another host. For the specification every
// execution is a call of its own on its own host: S is logged by the host selection policy when it hands out the host
// for the execution (before the driver looks anything up), T by the Query's observer when the execution has ended,
// and a frame belongs to the Query's latest execution on the host that received it (the default timestamp names the
// Query). So `Obs` demands of every EXECUTE what it demands of any other: an id (and value widths) that a PREPARE of
// that statement ON THAT HOST returned and that had not left the cache - C14_id_belongs_host.
const roamBase = int64(1) << 20

type roamKey struct{}

type roam struct {
	w      *world
	id     int
	stmt   int
	nvals  int
	hosts  []int       // the host of the i-th execution
	next   int         // executions handed out so far (history lock)
	onHost map[int]int // host -> call number of the Query's latest execution there (history lock)
	specs  map[int]*callSpec
	errs   int // executions answered with an error before one is answered ok (retries on the next host)
	pages  int // pages of the successful execution chain
	served int // frames with known ids answered so far (history lock)
}

func (rm *roam) nextHost() gocql.SelectedHost {
	w := rm.w
	w.h.mu.Lock()
	if rm.next >= len(rm.hosts) || w.h.stopped {
		w.h.mu.Unlock()
		return nil
	}
	hi := rm.hosts[rm.next]
	rm.next++
	num := w.h.ncalls
	w.h.ncalls++
	spec := &callSpec{host: hi, entries: []entrySpec{{stmt: rm.stmt, nvals: rm.nvals}}}
	w.calls.Store(num, spec)
	rm.onHost[hi] = num
	rm.specs[num] = spec
	w.h.evs = append(w.h.evs, hev{text: fmt.Sprintf("S:%d:q:%s/%d", num, keyLabel(hi, rm.stmt), rm.nvals)})
	w.running[num] = true
	if w.lossy {
		w.permitAbortLocked(num)
	}
	w.h.mu.Unlock()
	w.pol.mu.Lock()
	defer w.pol.mu.Unlock()
	if h := w.pol.hosts[w.nodes[hi].ip]; h != nil {
		return pinned{h}
	}
	return nil
}

// ObserveQuery: an execution of the roaming Query has ended
func (rm *roam) ObserveQuery(_ context.Context, oq gocql.ObservedQuery) {
	w := rm.w
	n := w.byIP[oq.Host.ConnectAddress().String()]
	if n == nil {
		w.h.add("Z:roaming-query-observed-on-an-unknown-host")
		return
	}
	w.h.mu.Lock()
	num, ok := rm.onHost[n.idx]
	if ok && w.running[num] {
		delete(w.running, num)
		if !w.h.stopped {
			w.h.evs = append(w.h.evs, hev{text: fmt.Sprintf("T:%d:%s", num, w.classify(rm.specs[num], oq.Err))})
		}
	} else if !w.h.stopped {
		w.h.evs = append(w.h.evs, hev{text: fmt.Sprintf("Z:roaming-query-execution-on-host-%d-that-the-policy-did-not-hand-out", n.idx)})
	}
	w.h.mu.Unlock()
}

type nextHostRetry struct{ n int }

func (r *nextHostRetry) Attempt(q gocql.RetryableQuery) bool { return q.Attempts() <= r.n }
func (r *nextHostRetry) GetRetryType(error) gocql.RetryType  { return gocql.RetryNextHost }

// newRoam registers a roaming Query: errs executions that fail (each retried on the next host of `hosts`), then pages
// pages, each fetched from the next host of `hosts`.
func (w *world) newRoam(stmt, nvals int, hosts []int, errs, pages int) *roam {
	w.h.mu.Lock()
	rm := &roam{w: w, id: len(w.roams), stmt: stmt, nvals: nvals, hosts: hosts, onHost: map[int]int{}, specs: map[int]*callSpec{},
		errs: errs, pages: pages}
	w.roams = append(w.roams, rm)
	w.h.mu.Unlock()
	return rm
}

// doRoam runs the roaming Query to its end (all pages). Returns when the iteration is closed.
func (w *world) doRoam(rm *roam) {
	defer func() {
		if r := recover(); r != nil {
			w.h.add("C")
		}
	}()
	v := make([]interface{}, rm.nvals)
	for i := range v {
		v[i] = i
	}
	ctx := context.WithValue(context.Background(), roamKey{}, rm)
	q := w.sess.Query(w.stmts[rm.stmt].text, v...).WithContext(ctx).WithTimestamp(roamBase + int64(rm.id)).Observer(rm).Idempotent(true)
	if rm.errs > 0 {
		q = q.RetryPolicy(&nextHostRetry{n: rm.errs})
	}
	it := q.Iter()
	var x int
	for it.Scan(&x) {
	}
	it.Close()
	w.sampleLen()
}

// ---------- world ----------

type worldCfg struct {
	nhosts, nconns, capacity int
	stmts                    []stmtDef
	stableID                 bool
	ks                       string
	timeout                  time.Duration // 0: the usual 10 minutes (no request ever times out)
	proto                    int           // native protocol version (0: 4)
}

func newWorld(r *vh.Rng, c worldCfg) (*world, error) {
	w := &world{r: r, h: &hist{}, stmts: c.stmts, stmtIdx: map[string]int{}, byIP: map[string]*nodeState{},
		stableID: c.stableID, ks: c.ks, keyLabel: map[string]string{}, capacity: c.capacity, frames: map[int]int{}, cut: map[int]bool{},
		live: map[int]*liveCall{}, issued: map[string][]byte{}, serialOf: map[string]int{}, prepKey: map[int]string{},
		lastX: map[int][][]byte{}, silent: map[string]int{}, timeout: c.timeout, running: map[int]bool{}, permitted: map[int]bool{},
		closedAt: map[string]int{}}
	for i, s := range c.stmts {
		w.stmtIdx[s.text] = i
	}
	var ips []string
	for i := 0; i < c.nhosts; i++ {
		ips = append(ips, fmt.Sprintf("10.14.0.%d", i+1))
	}
	if c.proto == 0 {
		c.proto = 4
	}
	w.proto = c.proto
	cl := memcluster.NewCluster(c.proto, ips...)
	for i, ip := range ips {
		n := &nodeState{idx: i, ip: ip, registered: map[string]int{}, pf: map[int][]pfate{}}
		w.nodes = append(w.nodes, n)
		w.byIP[ip] = n
		node := cl.Nodes[ip]
		n.node = node
		node.Handle = func(req *memcluster.Request) { w.handle(n, req) }
	}
	cfg := sess.Config(cl, c.proto, ips...)
	cfg.NumConns = c.nconns
	cfg.Timeout = 10 * time.Minute
	if c.timeout > 0 {
		cfg.Timeout = c.timeout
	}
	cfg.ConnectTimeout = 20 * time.Second
	cfg.MaxPreparedStmts = c.capacity
	cfg.Keyspace = c.ks
	pol := &pinPolicy{hosts: map[string]*gocql.HostInfo{}}
	w.pol = pol
	cfg.PoolConfig.HostSelectionPolicy = pol
	s, err := cfg.CreateSession()
	if err != nil {
		return nil, err
	}
	w.sess = s
	sess.WaitConns(s, c.nhosts*c.nconns, 5*time.Second)
	w.connsAtStart = map[*gocql.Conn]bool{}
	for _, cn := range gocql.VerifSessionConns(s) {
		w.connsAtStart[cn] = true
	}
	pol.mu.Lock()
	for ip, h := range pol.hosts {
		if n := w.byIP[ip]; n != nil {
			n.hostID = h.HostID()
		}
	}
	pol.mu.Unlock()
	for _, n := range w.nodes {
		for j, st := range w.stmts {
			w.keyLabel[gocql.VerifC14bKeyFor(s, n.hostID, c.ks, st.text)] = keyLabel(n.idx, j)
		}
	}
	gocql.VerifC14bOnEvicted(s, func(key string, flight interface{}) {
		lab, ok := w.keyLabel[key]
		if !ok {
			lab = "unknown-key"
		}
		if l := int32(gocql.VerifC14bCacheLenLocked(s)); l > atomic.LoadInt32(&w.maxLen) {
			atomic.StoreInt32(&w.maxLen, l)
		}
		w.h.mu.Lock()
		if !w.h.stopped {
			w.h.evs = append(w.h.evs, hev{text: "R:" + lab + ":", flight: flight})
		}
		w.h.mu.Unlock()
	})
	return w, nil
}

func (w *world) sampleLen() {
	if l := int32(gocql.VerifC14bCacheLen(w.sess)); l > atomic.LoadInt32(&w.maxLen) {
		atomic.StoreInt32(&w.maxLen, l)
	}
}

var pfRe = regexp.MustCompile(`pf-(\d+)`)

// checkResultCol (history lock held): "" or a Z event
func (w *world) checkResultCol(num int, c *callSpec, name string) string {
	ids := w.lastX[num]
	if len(ids) != 1 || !strings.HasPrefix(name, "r") {
		return fmt.Sprintf("Z:call-%d-result-column-%s-without-a-frame", num, sanitize(name))
	}
	sn, err := strconv.Atoi(name[1:])
	key, known := w.prepKey[sn]
	if err != nil || !known || key != keyLabel(c.host, c.entries[0].stmt) ||
		(!w.stableID && string(w.idFor(c.host, c.entries[0].stmt, sn)) != string(ids[0])) {
		return fmt.Sprintf("Z:call-%d-result-metadata-%s-is-not-that-of-the-PREPARE-whose-id-it-executed", num, sanitize(name))
	}
	return ""
}

// classify (history lock held): the outcome word of the T event
func (w *world) classify(c *callSpec, err error) string {
	if err == nil {
		return "ok"
	}
	if errors.Is(err, context.Canceled) || errors.Is(err, context.DeadlineExceeded) {
		return "ctx"
	}
	var keys []string
	for _, e := range c.prepared() {
		keys = append(keys, keyLabel(c.host, e.stmt))
	}
	if strings.HasPrefix(err.Error(), "can not marshal ") {
		// the value error, if the call did bind a value that cannot be marshalled (otherwise: outside the specification)
		for _, e := range c.prepared() {
			if e.nvals >= badValue {
				return "ce"
			}
		}
	}
	if _, isReq := err.(gocql.RequestError); !isReq {
		if n, ok := w.failedPrepareSerial(err.Error(), keys); ok {
			return fmt.Sprintf("pe/%d", n)
		}
		if silentRe.MatchString(err.Error()) && w.timeout > 0 {
			w.spurious = true
		}
		if w.lost && connLostRe.MatchString(err.Error()) {
			// a connection error: an abort error, judged like a context error (licensed by K or not)
			return "ctx"
		}
	}
	return classify(err)
}

func classify(err error) string {
	if err == nil {
		return "ok"
	}
	msg := err.Error()
	if errors.Is(err, context.Canceled) || errors.Is(err, context.DeadlineExceeded) {
		return "ctx"
	}
	if re, ok := err.(gocql.RequestError); ok {
		if m := pfRe.FindStringSubmatch(re.Message()); m != nil && re.Code() == memcluster.ErrOverloaded {
			return "pe/" + m[1]
		}
		if re.Message() == "xe" && re.Code() == memcluster.ErrInvalid {
			return "xe"
		}
	}
	if strings.HasPrefix(msg, "gocql: expected ") || strings.HasPrefix(msg, "gocql: batch statement ") {
		return "ce"
	}
	if strings.HasPrefix(msg, "can not marshal ") {
		return "ce-marshal"
	}
	return "other/" + sanitize(msg)
}

func sanitize(s string) string {
	b := []byte(s)
	for i, c := range b {
		if !(c >= 'a' && c <= 'z' || c >= 'A' && c <= 'Z' || c >= '0' && c <= '9' || c == '-' || c == '.') {
			b[i] = '_'
		}
	}
	if len(b) > 80 {
		b = b[:80]
	}
	return string(b)
}

// doCall runs one execution and logs S and T around it. Returns when the call returned.
func (w *world) doCall(c *callSpec) {
	w.h.mu.Lock()
	num := w.h.ncalls
	w.h.ncalls++
	w.calls.Store(num, c)
	var es []string
	for _, e := range c.prepared() {
		es = append(es, fmt.Sprintf("%s/%d", keyLabel(c.host, e.stmt), e.nvals))
	}
	kind := "q"
	if c.batch {
		kind = "b"
	}
	w.h.evs = append(w.h.evs, hev{text: fmt.Sprintf("S:%d:%s:%s", num, kind, strings.Join(es, ","))})
	w.running[num] = true
	if w.lossy {
		w.permitAbortLocked(num)
	}
	ctx := context.WithValue(context.Background(), ctxKey{}, w.nodes[c.host].ip)
	if c.ctx != ctxBg {
		var cancel context.CancelFunc
		switch c.ctx {
		case ctxDlPast:
			ctx, cancel = context.WithDeadline(ctx, time.Now().Add(-time.Hour))
		case ctxDlDuring:
			ctx, cancel = context.WithTimeout(ctx, c.ctxD)
		default:
			ctx, cancel = context.WithCancel(ctx)
		}
		defer cancel()
		lc := &liveCall{spec: c, cancel: cancel}
		w.live[num] = lc
		switch c.ctx {
		case ctxPre, ctxDlPast, ctxDlDuring:
			// done (or armed) before the call begins
			w.cancelLocked(num)
		case ctxTimer:
			go func() {
				time.Sleep(c.ctxD)
				w.cancelCall(num)
			}()
		}
	}
	w.h.mu.Unlock()
	vals := func(n int) []interface{} {
		bad := -1
		if n >= badValue {
			// n - badValue values, one of which no column type accepts (Marshal fails: reported, not sent)
			n -= badValue
			if n > 0 {
				bad = num % n
			}
		}
		v := make([]interface{}, n)
		for i := range v {
			v[i] = i
			if i == bad {
				v[i] = struct{}{}
			}
		}
		return v
	}
	binder := func(i, n int) func(*gocql.QueryInfo) ([]interface{}, error) {
		return func(*gocql.QueryInfo) ([]interface{}, error) {
			if i == c.ctxAt {
				w.cancelCall(num)
			}
			return vals(n), nil
		}
	}
	var err error
	resultCol := ""
	func() {
		defer func() {
			if r := recover(); r != nil {
				w.h.add("C")
				err = fmt.Errorf("panic: %v", r)
			}
		}()
		if c.batch {
			b := w.sess.NewBatch(gocql.UnloggedBatch).WithContext(ctx).WithTimestamp(int64(num + 1))
			for i, e := range c.entries {
				if e.plain {
					b.Query(w.stmts[e.stmt].text)
				} else if c.ctx == ctxAtBind {
					b.Bind(w.stmts[e.stmt].text, binder(i, e.nvals))
				} else {
					b.Query(w.stmts[e.stmt].text, vals(e.nvals)...)
				}
			}
			err = w.sess.ExecuteBatch(b)
		} else {
			e := c.entries[0]
			var q *gocql.Query
			if c.ctx == ctxAtBind {
				q = w.sess.Bind(w.stmts[e.stmt].text, binder(0, e.nvals))
			} else {
				q = w.sess.Query(w.stmts[e.stmt].text, vals(e.nvals)...)
			}
			it := q.WithContext(ctx).WithTimestamp(int64(num + 1)).Iter()
			if cols := it.Columns(); len(cols) > 0 {
				resultCol = cols[0].Name
			}
			err = it.Close()
		}
	}()
	w.h.mu.Lock()
	if lc := w.live[num]; lc != nil {
		lc.returned = true
	}
	delete(w.running, num)
	if !w.h.stopped {
		if err == nil && !c.batch {
			// result metadata of that statement: the Iter's column is the one the PREPARE whose id the call's last
			// frame carried declared (with ids stable per statement: a PREPARE of that statement on that host)
			if bad := w.checkResultCol(num, c, resultCol); bad != "" {
				w.h.evs = append(w.h.evs, hev{text: bad})
			}
		}
		w.h.evs = append(w.h.evs, hev{text: fmt.Sprintf("T:%d:%s", num, w.classify(c, err))})
	}
	w.h.mu.Unlock()
	w.sampleLen()
}

var gocqlFrame = regexp.MustCompile(`github\.com/gocql/gocql\.\(?\*?([A-Za-z]+)\)?\.([A-Za-z]+)`)

// goroutines that are blocked in gocql whenever a session is idle
var idleGocql = map[string]bool{"Conn.recv": true, "Conn.serve": true, "Conn.heartBeat": true, "writeCoalescer.writeFlusher": true,
	"eventDebouncer.flusher": true, "refreshDebouncer.flusher": true, "Conn.processFrame": false}

// blockedInGocql lists the gocql functions at the top of blocked goroutines' gocql frames.
func blockedInGocql() (string, string) {
	buf := make([]byte, 4<<20)
	buf = buf[:runtime.Stack(buf, true)]
	seen := map[string]bool{}
	for _, g := range strings.Split(string(buf), "\n\n") {
		head := strings.SplitN(g, "\n", 2)[0]
		if !(strings.Contains(head, "chan receive") || strings.Contains(head, "select") || strings.Contains(head, "sync.Mutex.Lock") ||
			strings.Contains(head, "semacquire") || strings.Contains(head, "chan send")) {
			continue
		}
		if m := gocqlFrame.FindStringSubmatch(g); m != nil && !idleGocql[m[1]+"."+m[2]] {
			seen[m[1]+"."+m[2]] = true
		}
	}
	var l []string
	for k := range seen {
		l = append(l, k)
	}
	sort.Strings(l)
	return strings.Join(l, ","), string(buf)
}

// finish waits for the callers, stops the log and renders the trace op. hung != "" if the watchdog expired.
func (w *world) finish(wg *sync.WaitGroup, outdir string, tag string) (op string, hung string) {
	done := make(chan struct{})
	go func() { wg.Wait(); close(done) }()
	select {
	case <-done:
	case <-time.After(watchdog):
		blocked, dump := blockedInGocql()
		// second look. A stall of the Go runtime itself (a timer that does not fire, a runnable goroutine that is not
		// scheduled — seen once in ~10^4 runs with spinning goroutines around) ends when the world is stopped for the
		// dump; an execution that waits for something nobody will ever do stays where it is. Only the latter counts.
		recovered := func() (string, string) {
			w.stalled = true
			os.WriteFile(fmt.Sprintf("%s/stall-%s.txt", outdir, tag), []byte("recovered after the dump; blocked in gocql at the dump: "+blocked+"\n\n"+dump), 0o644)
			return w.render(""), ""
		}
		select {
		case <-done:
			return recovered()
		case <-time.After(grace):
		}
		blocked2, dump2 := blockedInGocql()
		select {
		case <-done:
			return recovered()
		default:
		}
		blocked, dump = blocked2, dump2
		w.h.mu.Lock()
		returned := map[int]bool{}
		for _, e := range w.h.evs {
			if strings.HasPrefix(e.text, "T:") {
				n, _ := strconv.Atoi(strings.Split(e.text, ":")[1])
				returned[n] = true
			}
		}
		for c := 0; c < w.h.ncalls; c++ {
			if !returned[c] {
				if blocked != "" && atomic.LoadInt32(&w.pending) == 0 {
					w.h.evs = append(w.h.evs, hev{text: fmt.Sprintf("H:%d", c)})
				} else {
					w.h.evs = append(w.h.evs, hev{text: fmt.Sprintf("Z:harness-stalled-call-%d", c)})
				}
			}
		}
		w.h.mu.Unlock()
		hung = blocked
		if hung == "" {
			hung = "no-gocql-frame"
		}
		os.WriteFile(fmt.Sprintf("%s/hang-%s.txt", outdir, tag), []byte("blocked in gocql: "+blocked+"\n\n"+dump), 0o644)
	}
	return w.render(hung), hung
}

// render stops the log and renders the trace op.
func (w *world) render(hung string) string {
	w.h.mu.Lock()
	w.h.stopped = true
	evs := w.h.evs
	w.h.mu.Unlock()
	// resolve the flights of R events to PREPARE numbers
	unresolved := 900000
	closedUsed := map[string]bool{}
	labels := map[interface{}]int{}
	var words []string
	for _, e := range evs {
		if e.flight == nil {
			words = append(words, e.text)
			continue
		}
		lab, ok := labels[e.flight]
		if !ok {
			lab = -1
			tag := gocql.VerifC14bFlightTag(e.flight)
			switch {
			case strings.HasPrefix(tag, "ok:"):
				p := strings.Split(tag, ":")
				if len(p) == 3 && strings.HasPrefix(p[2], "r") {
					if n, err := strconv.Atoi(p[2][1:]); err == nil {
						lab = n
					}
				}
			case strings.HasPrefix(tag, "err:"):
				key := strings.TrimSuffix(strings.TrimPrefix(e.text, "R:"), ":")
				w.h.mu.Lock()
				if n, ok := w.failedPrepareSerial(tag, []string{key}); ok {
					lab = n
				} else if n, ok := w.closedAt[key]; ok && !closedUsed[key] && w.lost {
					// the first flight of that key that failed without a numbered error is the one whose PREPARE
					// was answered by closing the connections (a later one never reached the server)
					closedUsed[key] = true
					lab = n
				}
				w.h.mu.Unlock()
			}
			if lab < 0 {
				lab = unresolved
				unresolved++
			}
			labels[e.flight] = lab
		}
		words = append(words, e.text+strconv.Itoa(lab))
	}
	if hung == "" {
		w.sess.Close()
	}
	// a cache that cannot purge for capacity (unbounded, or far larger than the number of keys of a run): the
	// specification then also demands a reason for every removal
	opw := "trace "
	if (w.capacity == 0 || w.capacity >= 1000) && !w.lost {
		// (after a connection loss a flight can fail before its PREPARE reaches the server: such a removal has no
		// observable reason, so these histories are judged without the every-removal-justified clause)
		opw = "traceU "
	}
	return opw + strings.Join(words, " ")
}

// ---------- scenarios ----------

type runner struct {
	r      *vh.Rng
	out    *vh.Out
	outdir string
	nhang  int
	seq    int
}

func mkStmts(n int, r *vh.Rng) []stmtDef {
	var s []stmtDef
	for j := 0; j < n; j++ {
		nc := r.Intn(4)
		where := "c = 0"
		for i := 0; i < nc; i++ {
			where += fmt.Sprintf(" AND b%d = ?", i)
		}
		s = append(s, stmtDef{text: fmt.Sprintf("SELECT v FROM t%d WHERE %s", j, where), ncols: nc})
	}
	return s
}

// mkStmtsNear: n distinct texts, variants (near.go) of one or two statements; the members of a group have the
// same bind markers, so nothing but the text tells them apart.
func mkStmtsNear(n int, r *vh.Rng) []stmtDef {
	ngroups := 1 + r.Intn(2)
	var s []stmtDef
	for g := 0; g < ngroups; g++ {
		m := n / ngroups
		if g == 0 {
			m = n - m*(ngroups-1)
		}
		nc := r.Intn(3)
		for _, v := range nearPick(r, m) {
			s = append(s, stmtDef{text: nearText(g, nc, v), ncols: nc})
		}
	}
	return s
}

// probes: once the callers of the run have returned, every (host, statement) they executed is executed once
// more with a background context. A correct driver answers each of them (the scripted server answers every
// frame); an in-flight cache entry that nobody completes blocks exactly these executions for ever.
func (w *world) probes(wg *sync.WaitGroup) *sync.WaitGroup {
	all := &sync.WaitGroup{}
	all.Add(1)
	go func() {
		defer all.Done()
		wg.Wait()
		type hk struct{ host, stmt int }
		seen := map[hk]bool{}
		var keys []hk
		w.calls.Range(func(_, v interface{}) bool {
			cs := v.(*callSpec)
			for _, e := range cs.prepared() {
				k := hk{cs.host, e.stmt}
				if !seen[k] {
					seen[k] = true
					keys = append(keys, k)
				}
			}
			return true
		})
		sort.Slice(keys, func(i, j int) bool {
			return keys[i].host < keys[j].host || keys[i].host == keys[j].host && keys[i].stmt < keys[j].stmt
		})
		if len(keys) > 12 {
			keys = keys[:12]
		}
		var pw sync.WaitGroup
		for _, k := range keys {
			k := k
			pw.Add(1)
			go func() {
				defer pw.Done()
				w.doCall(&callSpec{host: k.host, entries: []entrySpec{{stmt: k.stmt, nvals: w.stmts[k.stmt].ncols}}})
			}()
		}
		pw.Wait()
	}()
	return all
}

func (rn *runner) emit(w *world, wg *sync.WaitGroup, class string) bool {
	rn.seq++
	wg = w.probes(wg)
	op, hung := w.finish(wg, rn.outdir, fmt.Sprintf("%d", rn.seq))
	if w.spurious && hung == "" {
		rn.out.Dist["conc/not-judged(harness-stalled-beyond-the-short-request-timeout)"]++
		return true
	}
	cls := "conc/" + class
	if hung != "" {
		rn.nhang++
		cls += "/HANG:" + hung
	}
	rn.out.Case(op, "accept", cls, true)
	for _, t := range []string{"T:", "X:", "P:", "R:"} {
		rn.out.Dist["conc-events/"+t[:1]] += strings.Count(op, " "+t)
	}
	rn.out.Dist["conc-events/unprepared"] += strings.Count(op, ":un/")
	rn.out.Dist["conc-events/prepare-failed"] += strings.Count(op, ":err ")
	rn.out.Dist["conc-events/count-error"] += strings.Count(op, ":ce")
	rn.out.Dist["conc-events/prepare-error-returned"] += strings.Count(op, ":pe/")
	if w.stalled {
		rn.out.Dist["conc/runtime-stall-recovered-after-dump(not-a-hang)"]++
	}
	rn.out.Dist["conc-events/K(context-done)"] += strings.Count(op, " K:")
	rn.out.Dist["conc-events/context-error-returned"] += strings.Count(op, ":ctx")
	rn.out.Case(fmt.Sprintf("cachelen cap=%d max=%d", w.capacity, atomic.LoadInt32(&w.maxLen)), "accept", "cachelen", true)
	return hung == ""
}

// random: N callers, overlapping statements, random fates.
func (rn *runner) random() { rn.randomWith(false) }

// randomNear: the same over NEAR-COLLIDING statement texts (variants of one or two statements that differ only
// in whitespace, letter case, a trailing semicolon, unicode normalisation form, a NUL / separator-like byte, or
// after a long common prefix): each text is its own statement for the server, which issues ids per text.
func (rn *runner) randomNear() { rn.randomWith(true) }

func (rn *runner) randomWith(near bool) {
	r := rn.r
	nst := 1 + r.Intn(5)
	caps := []int{1, 1, 2, 2, 3, 1000, 1000, 0}
	c := worldCfg{nhosts: 1 + r.Intn(2), nconns: 1 + r.Intn(2), capacity: caps[r.Intn(len(caps))],
		stableID: r.Intn(3) == 0, proto: []int{4, 4, 4, 3}[r.Intn(4)]}
	if near {
		c.stmts = mkStmtsNear(2+r.Intn(6), r)
		nst = len(c.stmts)
		c.capacity = []int{1000, 1000, 0, 0, 3, 2}[r.Intn(6)]
	} else {
		c.stmts = mkStmts(nst, r)
	}
	if r.Intn(4) == 0 {
		c.ks = []string{"ks7", "ks7", "Ks_7", "s", "SELECT"}[r.Intn(5)]
	}
	w, err := newWorld(r, c)
	if err != nil {
		rn.out.Case("trace Z:no-session", "accept", "conc/no-session", true)
		return
	}
	pfail := []int{0, 0, 10, 30, 60}[r.Intn(5)]
	if near {
		pfail = []int{0, 0, 0, 10}[r.Intn(4)]
	}
	slow := r.Intn(3) == 0
	for _, n := range w.nodes {
		for j := range w.stmts {
			for i := 0; i < 40; i++ {
				f := pfate{fail: r.Intn(100) < pfail, kind: r.Intn(3)}
				if slow || r.Intn(4) == 0 {
					f.delay = time.Duration(r.Intn(1500)) * time.Microsecond
				}
				n.pf[j] = append(n.pf[j], f)
			}
		}
		for i := 0; i < 400; i++ {
			f := xfate{}
			switch x := r.Intn(100); {
			case x < 8:
				f.kind = 1
			case x < 20:
				f.kind = 2
			case x < 23:
				f.kind = 3
			}
			if r.Intn(4) == 0 {
				f.delay = time.Duration(r.Intn(800)) * time.Microsecond
			}
			n.xf = append(n.xf, f)
		}
	}
	ng := 2 + r.Intn(10)
	var wg sync.WaitGroup
	cancelPct := []int{0, 0, 15, 40}[r.Intn(4)]
	hot := r.Intn(nst) // many goroutines execute the same statement
	for g := 0; g < ng; g++ {
		var calls []*callSpec
		for i, n := 0, 1+r.Intn(4); i < n; i++ {
			cs := &callSpec{host: r.Intn(c.nhosts)}
			pick := func() entrySpec {
				s := r.Intn(nst)
				if r.Intn(2) == 0 {
					s = hot
				}
				e := entrySpec{stmt: s, nvals: w.stmts[s].ncols}
				if r.Intn(12) == 0 {
					e.nvals = r.Intn(4)
				} else if r.Intn(16) == 0 && e.nvals > 0 {
					e.nvals += badValue
				}
				return e
			}
			if r.Intn(4) == 0 {
				cs.batch = true
				for k, m := 0, 1+r.Intn(3); k < m; k++ {
					e := pick()
					if e.nvals == 0 {
						e.nvals = 1 // entries without values are not prepared
					}
					cs.entries = append(cs.entries, e)
				}
				// ... and travel as plain statements among the prepared ones (never alone: a call prepares something)
				if r.Intn(3) == 0 {
					at := r.Intn(len(cs.entries) + 1)
					pe := entrySpec{stmt: r.Intn(nst), plain: true}
					cs.entries = append(cs.entries[:at], append([]entrySpec{pe}, cs.entries[at:]...)...)
				}
			} else {
				cs.entries = []entrySpec{pick()}
			}
			if r.Intn(100) < cancelPct {
				rn.randCtx(cs)
			}
			calls = append(calls, cs)
		}
		wg.Add(1)
		go func() {
			defer wg.Done()
			for _, cs := range calls {
				w.doCall(cs)
			}
		}()
	}
	if c.nhosts == 2 && r.Intn(2) == 0 {
		// one Query value executed on both hosts (pages / retries on the next host), among the others
		for i, n := 0, 1+r.Intn(2); i < n; i++ {
			st := r.Intn(nst)
			errs, pages := r.Intn(2), 1+r.Intn(2)
			var hosts []int
			for j, f := 0, r.Intn(2); j < errs+pages; j++ {
				hosts = append(hosts, (f+j)%2)
			}
			rm := w.newRoam(st, w.stmts[st].ncols, hosts, errs, pages)
			wg.Add(1)
			go func() { defer wg.Done(); w.doRoam(rm) }()
		}
	}
	cls := "random"
	if near {
		cls = "random-near"
	}
	rn.emit(w, &wg, fmt.Sprintf("%s/hosts%d/cap%d/cancel%d/v%d", cls, c.nhosts, c.capacity, cancelPct, c.proto))
}

// randCtx gives the call a context that becomes done at some point.
func (rn *runner) randCtx(cs *callSpec) {
	r := rn.r
	cs.ctx = 1 + r.Intn(nCtxModes-1)
	cs.ctxAt = r.Intn(len(cs.entries))
	cs.ctxD = time.Duration(r.Intn(1200)) * time.Microsecond
	rn.out.Dist["ctx-mode/"+ctxNames[cs.ctx]]++
}

// waitHist polls the history until pred holds (schedule shaping only: gives up after 500 ms).
func (w *world) waitHist(pred func(evs []hev) bool) bool {
	dl := time.Now().Add(500 * time.Millisecond)
	for {
		w.h.mu.Lock()
		ok := pred(w.h.evs)
		w.h.mu.Unlock()
		if ok {
			return true
		}
		if time.Now().After(dl) {
			return false
		}
		time.Sleep(100 * time.Microsecond)
	}
}

func hasEv(evs []hev, prefixes ...string) bool {
	for _, e := range evs {
		for _, p := range prefixes {
			if strings.HasPrefix(e.text, p) {
				return true
			}
		}
	}
	return false
}

// cancelled: one caller A whose context becomes done at the scripted point `mode`, as the WINNER of the flight
// of an uncached statement (A alone looks it up first; the others start once A's PREPARE is at the server or A
// has returned) or as a WAITER (a background caller wins; its PREPARE is held back until A has joined), or
// after a LOSS (the statement is cached, the server forgets it; A's frame is answered UNPREPARED, so A's retry
// looks the statement up with whatever its context is by then). Then 1..3 background callers and a caller with
// a random context mode execute the same statement; the PREPARE is answered late (held until they have started,
// bounded). Queries or batches (2 entries: another statement first or last). Probes at the end.
func (rn *runner) cancelled(mode int, role int, batch bool) {
	r := rn.r
	c := worldCfg{nhosts: 1, nconns: 1 + r.Intn(2), capacity: []int{1000, 1000, 2, 1}[r.Intn(4)], stmts: mkStmts(2, r), stableID: r.Bool()}
	for i := range c.stmts {
		if c.stmts[i].ncols == 0 {
			c.stmts[i] = stmtWithCols(i, 1) // batches prepare only entries with values
		}
	}
	w, err := newWorld(r, c)
	if err != nil {
		rn.out.Case("trace Z:no-session", "accept", "conc/no-session", true)
		return
	}
	other := r.Intn(2) // position of the other statement in A's batch
	spec := func(m int) *callSpec {
		cs := &callSpec{host: 0, ctx: m, ctxD: time.Duration(r.Intn(400)) * time.Microsecond}
		e0 := entrySpec{stmt: 0, nvals: w.stmts[0].ncols}
		if batch {
			e1 := entrySpec{stmt: 1, nvals: w.stmts[1].ncols}
			cs.batch = true
			if other == 0 {
				cs.entries = []entrySpec{e1, e0}
			} else {
				cs.entries = []entrySpec{e0, e1}
			}
			cs.ctxAt = r.Intn(2)
		} else {
			cs.entries = []entrySpec{e0}
		}
		return cs
	}
	nfollow := 1 + r.Intn(3)
	started := make(chan struct{})
	var startedOnce sync.Once
	failFirst := r.Intn(4) == 0
	first := true
	// all random choices are drawn here, by the one goroutine that owns the PRNG
	var pdelay [16]time.Duration
	for i := range pdelay {
		pdelay[i] = time.Duration(r.Intn(300)) * time.Microsecond
	}
	xdelay := time.Duration(r.Intn(300)) * time.Microsecond
	lastSleep := time.Duration(r.Intn(600)) * time.Microsecond
	w.onPrepare = func(n *nodeState, stmt, serial int) (pfate, chan struct{}) {
		if stmt != 0 {
			return pfate{}, nil
		}
		f := pfate{delay: pdelay[serial%len(pdelay)]}
		if first {
			first = false
			f.fail = failFirst
		}
		// held until the other callers have started (bounded by the gate timeout)
		return f, started
	}
	var wg sync.WaitGroup
	run := func(cs *callSpec) {
		wg.Add(1)
		go func() { defer wg.Done(); w.doCall(cs) }()
	}
	a := spec(mode)
	switch role {
	case 0: // winner
		run(a)
		w.waitHist(func(evs []hev) bool { return hasEv(evs, "P:", "T:0:") })
	case 1: // waiter
		run(spec(ctxBg))
		w.waitHist(func(evs []hev) bool { return hasEv(evs, "P:") })
		run(a)
		w.waitHist(func(evs []hev) bool { return hasEv(evs, "S:1:") })
	case 2: // after a loss
		w.onPrepare = nil
		var wg0 sync.WaitGroup
		wg0.Add(1)
		go func() { defer wg0.Done(); w.doCall(spec(ctxBg)) }()
		wg0.Wait()
		lost := false
		w.onExec = func(n *nodeState, call int, known bool) (xfate, chan struct{}, bool) {
			if !lost && call == 1 {
				lost = true
				return xfate{kind: 2, delay: xdelay}, nil, true
			}
			return xfate{}, nil, false
		}
		run(a)
		w.waitHist(func(evs []hev) bool { return hasEv(evs, "X:1:", "T:1:") })
	}
	for i := 0; i < nfollow; i++ {
		run(spec(ctxBg))
	}
	x := spec(ctxBg)
	rn.randCtx(x)
	run(x)
	go func() {
		// schedule only: the held PREPARE is answered once everybody is on the way
		w.waitHist(func(evs []hev) bool {
			n := 0
			for _, e := range evs {
				if strings.HasPrefix(e.text, "S:") {
					n++
				}
			}
			return n >= nfollow+2
		})
		time.Sleep(lastSleep)
		startedOnce.Do(func() { close(started) })
	}()
	kind := "query"
	if batch {
		kind = "batch"
	}
	rn.out.Dist["ctx-mode/"+ctxNames[mode]]++
	rn.emit(w, &wg, fmt.Sprintf("cancelled/%s/%s/%s", ctxNames[mode], []string{"winner", "waiter", "after-loss"}[role], kind))
}

// retryUnderContention: one statement whose PREPARE always fails, executed again and again by one caller
// (as a retry policy would) while other goroutines keep executing cached statements and touching the
// cache lock. A failure must never be served from the cache.
func (rn *runner) retryUnderContention(attempts int) {
	r := rn.r
	c := worldCfg{nhosts: 1, nconns: 1 + r.Intn(2), capacity: []int{1000, 1000, 3}[r.Intn(3)], stmts: mkStmts(3, r), stableID: r.Bool()}
	w, err := newWorld(r, c)
	if err != nil {
		rn.out.Case("trace Z:no-session", "accept", "conc/no-session", true)
		return
	}
	bad := 0
	w.onPrepare = func(n *nodeState, stmt, serial int) (pfate, chan struct{}) {
		return pfate{fail: stmt == bad, kind: serial % 3}, nil
	}
	var stop int32
	var hammers sync.WaitGroup
	for g := 0; g < 6; g++ {
		hammers.Add(1)
		go func() {
			defer hammers.Done()
			for atomic.LoadInt32(&stop) == 0 {
				for i := 0; i < 64; i++ {
					gocql.VerifC14bLockTouch(w.sess)
				}
				runtime.Gosched()
			}
		}()
	}
	var wg sync.WaitGroup
	for g := 0; g < 3; g++ {
		s := 1 + g%2
		wg.Add(1)
		go func() {
			defer wg.Done()
			for i := 0; i < attempts/2 && atomic.LoadInt32(&stop) == 0; i++ {
				w.doCall(&callSpec{host: 0, entries: []entrySpec{{stmt: s, nvals: w.stmts[s].ncols}}})
			}
		}()
	}
	wg.Add(1)
	go func() {
		defer wg.Done()
		for i := 0; i < attempts; i++ {
			w.doCall(&callSpec{host: 0, entries: []entrySpec{{stmt: bad, nvals: w.stmts[bad].ncols}}})
		}
	}()
	go func() { wg.Wait(); atomic.StoreInt32(&stop, 1) }()
	ok := rn.emit(w, &wg, "retry-under-contention")
	atomic.StoreInt32(&stop, 1)
	if ok {
		hammers.Wait()
	}
}

// lostStatement: a cached statement is lost by the server while k executions are in flight; the first
// UNPREPARED answer causes a re-PREPARE whose answer is held back until every other execution has been
// answered UNPREPARED too (and had time to act on it); then the re-PREPARE fails or succeeds. Everybody
// must return (the failure, or ok with the new id), and a later execution prepares again.
func (rn *runner) lostStatement(k int, reprepareFails bool, batch bool) {
	r := rn.r
	c := worldCfg{nhosts: 1, nconns: 1, capacity: 1000, stmts: mkStmts(2, r), stableID: r.Bool()}
	w, err := newWorld(r, c)
	if err != nil {
		rn.out.Case("trace Z:no-session", "accept", "conc/no-session", true)
		return
	}
	spec := func() *callSpec {
		if batch {
			return &callSpec{batch: true, host: 0, entries: []entrySpec{{stmt: 0, nvals: imax(1, w.stmts[0].ncols)}}}
		}
		return &callSpec{host: 0, entries: []entrySpec{{stmt: 0, nvals: w.stmts[0].ncols}}}
	}
	if batch && w.stmts[0].ncols == 0 {
		w.stmts[0].ncols = 1 // batches prepare only entries with values; the server's metadata is what counts
	}
	// phase 1: prepare and execute once
	var wg0 sync.WaitGroup
	wg0.Add(1)
	go func() { defer wg0.Done(); w.doCall(spec()) }()
	wg0.Wait()
	// phase 2
	phase2 := w.h.ncalls
	var arrived int32
	allArrived := make(chan struct{})
	release := make(chan struct{})
	gate := make(chan struct{})
	nprepBefore := w.h.nprep
	unprepSent := 0
	w.onExec = func(n *nodeState, call int, known bool) (xfate, chan struct{}, bool) {
		if call < phase2 || call >= phase2+k {
			return xfate{}, nil, false
		}
		if atomic.AddInt32(&arrived, 1) == int32(k) {
			close(allArrived)
		}
		if unprepSent < k {
			// every execution of the group is answered UNPREPARED once, after all of them have arrived
			unprepSent++
			if unprepSent == 1 {
				n.registered = map[string]int{}
				return xfate{kind: 2}, allArrived, true
			}
			return xfate{kind: 2}, release, true
		}
		return xfate{}, nil, false
	}
	var once sync.Once
	w.onPrepare = func(n *nodeState, stmt, serial int) (pfate, chan struct{}) {
		if serial == nprepBefore {
			// the re-PREPARE caused by the first UNPREPARED answer: now let the other answers go, hold this one
			once.Do(func() { close(release) })
			return pfate{fail: reprepareFails, kind: serial % 3, delay: 60 * time.Millisecond}, gate
		}
		return pfate{}, nil
	}
	go func() {
		<-release
		time.Sleep(40 * time.Millisecond) // schedule only: let the other executions act on their UNPREPARED answers
		close(gate)
	}()
	var wg sync.WaitGroup
	for i := 0; i < k; i++ {
		wg.Add(1)
		go func() { defer wg.Done(); w.doCall(spec()) }()
	}
	// phase 3: after the group returned, one more execution
	wg.Add(1)
	go func() {
		defer wg.Done()
		dl := time.Now().Add(watchdog + 5*time.Second)
		for time.Now().Before(dl) {
			w.h.mu.Lock()
			n := 0
			for _, e := range w.h.evs {
				if strings.HasPrefix(e.text, "T:") {
					n++
				}
			}
			w.h.mu.Unlock()
			if n >= 1+k {
				w.doCall(spec())
				return
			}
			time.Sleep(time.Millisecond)
		}
	}()
	kind := "query"
	if batch {
		kind = "batch"
	}
	rn.emit(w, &wg, fmt.Sprintf("lost-statement/%s/k%d/fails=%v", kind, k, reprepareFails))
}

// silentTimeout: the request timeout of the Sessions in which one PREPARE per key is never answered. Every other
// frame of such a world is answered at once, so nothing else comes near it; should a call nevertheless return the
// timeout error without an unanswered PREPARE of its statements (the harness itself stalled), the run is not judged.
const silentTimeout = 2500 * time.Millisecond

type startedRun struct {
	w     *world
	wg    *sync.WaitGroup
	class string
}

// prepareFails: the PREPARE of a cold statement (role 0), or the re-PREPARE after the server lost a cached
// statement (role 1: the executions are answered UNPREPARED first), fails in one of the four ways prepareStatement
// can fail (meta.go) while 2..4 executions - queries, or batches with another statement first - are waiting for
// it (the answer is held until they have started; a silent PREPARE is never answered: the driver's timeout ends
// the flight's Conn.exec). All of them get that failure, none of them before the entry has left the cache; the
// probes afterwards find the statement uncached, prepare it again and execute.
// The run is started here and judged by emit (for the silent kind: at the end of the tier, after the timeout).
func (rn *runner) startPrepareFails(kind, role int, batch bool) *startedRun {
	r := rn.r
	c := worldCfg{nhosts: 1, nconns: 1 + r.Intn(2), capacity: []int{1000, 0, 2}[r.Intn(3)], stmts: mkStmts(2, r), stableID: r.Bool()}
	if kind == pfSilent {
		c.timeout = silentTimeout
	}
	w, err := newWorld(r, c)
	if err != nil {
		rn.out.Case("trace Z:no-session", "accept", "conc/no-session", true)
		return nil
	}
	for j := range w.stmts {
		if batch && w.stmts[j].ncols == 0 {
			w.stmts[j].ncols = 1 // batches prepare only entries with values; the server's metadata is what counts
		}
	}
	spec := func() *callSpec {
		if batch {
			return &callSpec{batch: true, host: 0, entries: []entrySpec{{stmt: 1, nvals: w.stmts[1].ncols}, {stmt: 0, nvals: w.stmts[0].ncols}}}
		}
		return &callSpec{host: 0, entries: []entrySpec{{stmt: 0, nvals: w.stmts[0].ncols}}}
	}
	k := 2 + r.Intn(3)
	armed := role == 0
	failed := false
	gate := make(chan struct{})
	w.onPrepare = func(n *nodeState, stmt, serial int) (pfate, chan struct{}) {
		if stmt == 0 && armed && !failed {
			failed = true
			return pfate{fail: true, kind: kind}, gate
		}
		return pfate{}, nil
	}
	if role == 1 {
		// the statement is prepared and executed once, then the server loses everything
		w.doCall(spec())
		w.h.mu.Lock()
		w.nodes[0].registered = map[string]int{}
		w.nforget++
		armed = true
		w.h.mu.Unlock()
	}
	first := w.h.ncalls
	wg := &sync.WaitGroup{}
	for i := 0; i < k; i++ {
		wg.Add(1)
		go func() { defer wg.Done(); w.doCall(spec()) }()
	}
	go func() {
		w.waitHist(func(evs []hev) bool {
			n := 0
			for _, e := range evs {
				if strings.HasPrefix(e.text, "S:") {
					n++
				}
			}
			return n >= first+k
		})
		time.Sleep(15 * time.Millisecond) // schedule only: let them reach the flight
		close(gate)
	}()
	kindw := "query"
	if batch {
		kindw = "batch"
	}
	return &startedRun{w: w, wg: wg, class: fmt.Sprintf("prepare-fails/%s/%s/%s", pfWords[kind], []string{"cold", "after-loss"}[role], kindw)}
}

// stepped: a run driven letter by letter from the server's side of the wire. EVERY PREPARE and every EXECUTE / BATCH is
// held when it arrives - its answer is fixed at arrival from the run's fate strings (the P / X event carries it) but goes
// out only when the schedule says so - and executions start and are cancelled when the schedule says so:
//
//	a  start a query of statement 0        b  start a query of statement 1 (cache of 1: evicts statement 0's entry)
//	c  start a batch [statement 1, statement 0]
//	k  cancel the oldest running execution whose context has not been cancelled yet (as a rule the one that published
//	   the flight the others wait for)   l  cancel the youngest such execution (as a rule a waiter)
//	p  let the oldest held PREPARE answer go    x  let the oldest held EXECUTE / BATCH answer go
//
// pf: per PREPARE in arrival order o(k) | e(rror frame) | g(arbled) | k(other kind); xf: per EXECUTE / BATCH with known ids
// o(k) | e(rror) | f(orget everything, UNPREPARED) | u(UNPREPARED with a foreign id). After each letter the driver gets a
// moment to come to rest (history unchanged for 300 µs, at most 5 ms - schedule shaping only). After the word everything
// held goes out in arrival order and nothing is held any more; then the probes. This walks the placements of PREPARE
// completions / failures, UNPREPARED answers, evictions and cancellations RELATIVE to the lookups of the other executions
// that the timing of free-running goroutines only samples.
func (rn *runner) stepped(capacity int, word, pf, xf string) {
	r := rn.r
	c := worldCfg{nhosts: 1, nconns: 1, capacity: capacity, stmts: []stmtDef{stmtWithCols(0, 1+r.Intn(2)), stmtWithCols(1, 1+r.Intn(2))}, stableID: r.Bool()}
	w, err := newWorld(r, c)
	if err != nil {
		rn.out.Case("trace Z:no-session", "accept", "conc/no-session", true)
		return
	}
	var pq, xq []chan struct{} // held answers, in arrival order (history lock)
	free := false
	np, nx := 0, 0
	w.onPrepare = func(n *nodeState, stmt, serial int) (pfate, chan struct{}) {
		f := pfate{}
		if np < len(pf) {
			switch pf[np] {
			case 'e':
				f = pfate{fail: true, kind: pfFrame}
			case 'g':
				f = pfate{fail: true, kind: pfUndecodable}
			case 'k':
				f = pfate{fail: true, kind: pfOtherKind}
			}
		}
		np++
		if free {
			return f, nil
		}
		g := make(chan struct{})
		pq = append(pq, g)
		return f, g
	}
	w.onExec = func(n *nodeState, call int, known bool) (xfate, chan struct{}, bool) {
		f := xfate{}
		if known {
			if nx < len(xf) {
				f.kind = map[byte]int{'o': 0, 'e': 1, 'f': 2, 'u': 3}[xf[nx]]
			}
			nx++
		}
		if free {
			return f, nil, true
		}
		g := make(chan struct{})
		xq = append(xq, g)
		return f, g, true
	}
	rest := func() {
		last, same := -1, time.Now()
		dl := time.Now().Add(5 * time.Millisecond)
		for time.Now().Before(dl) {
			w.h.mu.Lock()
			n := len(w.h.evs)
			w.h.mu.Unlock()
			if n != last {
				last, same = n, time.Now()
			} else if time.Since(same) > 300*time.Microsecond {
				return
			}
			time.Sleep(50 * time.Microsecond)
		}
	}
	var wg sync.WaitGroup
	start := func(cs *callSpec) {
		cs.ctx = ctxManual
		wg.Add(1)
		go func() { defer wg.Done(); w.doCall(cs) }()
	}
	e0 := entrySpec{stmt: 0, nvals: w.stmts[0].ncols}
	e1 := entrySpec{stmt: 1, nvals: w.stmts[1].ncols}
	pop := func(q *[]chan struct{}) {
		w.h.mu.Lock()
		var g chan struct{}
		if len(*q) > 0 {
			g = (*q)[0]
			*q = (*q)[1:]
		}
		w.h.mu.Unlock()
		if g != nil {
			close(g)
		}
	}
	for i := 0; i < len(word); i++ {
		switch word[i] {
		case 'a':
			start(&callSpec{host: 0, entries: []entrySpec{e0}})
		case 'b':
			start(&callSpec{host: 0, entries: []entrySpec{e1}})
		case 'c':
			start(&callSpec{host: 0, batch: true, entries: []entrySpec{e1, e0}})
		case 'k', 'l':
			w.h.mu.Lock()
			var nums []int
			for num, lc := range w.live {
				if !lc.returned && !lc.kLogged {
					nums = append(nums, num)
				}
			}
			sort.Ints(nums)
			if len(nums) > 0 {
				if word[i] == 'k' {
					w.cancelLocked(nums[0])
				} else {
					w.cancelLocked(nums[len(nums)-1])
				}
			}
			w.h.mu.Unlock()
		case 'p':
			pop(&pq)
		case 'x':
			pop(&xq)
		}
		rest()
	}
	w.h.mu.Lock()
	free = true
	held := append(append([]chan struct{}{}, pq...), xq...)
	pq, xq = nil, nil
	w.h.mu.Unlock()
	for _, g := range held {
		close(g)
	}
	rn.emit(w, &wg, fmt.Sprintf("stepped/cap%d/len%d", capacity, len(word)))
}

// steppedRandom: a random schedule word (starts with an execution; more releases than anything else) and random fates
func (rn *runner) steppedRandom() {
	r := rn.r
	n := 4 + r.Intn(8)
	word := []byte{"abc"[r.Intn(3)]}
	for len(word) < n {
		word = append(word, "aabccklppppxxx"[r.Intn(14)])
	}
	pf := make([]byte, 8)
	for i := range pf {
		pf[i] = "ooooegk"[r.Intn(7)]
	}
	xf := make([]byte, 10)
	for i := range xf {
		xf[i] = "ooooeffu"[r.Intn(8)]
	}
	rn.stepped([]int{1, 1, 2, 1000}[r.Intn(4)], string(word), string(pf), string(xf))
}

// roaming: ONE Query value executed on both hosts - the pages of a paged iteration fetched from alternating hosts, or the
// attempts of a RetryNextHost policy after scripted execute errors, or both - while ordinary executions of the same
// statement run on the two hosts (so that each host's entry is in flight, cached or absent when the roaming Query
// arrives there). Hosts never issue the same id, so an EXECUTE that carries what the Query learnt on the other host is
// an EXECUTE with an id this host never issued.
func (rn *runner) roaming() {
	r := rn.r
	c := worldCfg{nhosts: 2, nconns: 1 + r.Intn(2), capacity: []int{1000, 0, 2, 1}[r.Intn(4)], stmts: mkStmts(2, r), stableID: r.Bool(),
		proto: []int{4, 4, 3}[r.Intn(3)]}
	w, err := newWorld(r, c)
	if err != nil {
		rn.out.Case("trace Z:no-session", "accept", "conc/no-session", true)
		return
	}
	var wg sync.WaitGroup
	warm := r.Intn(3) // 0: both hosts cold, 1: the statement is cached for the second host, 2: ordinary callers run alongside
	errs := []int{0, 0, 1, 2}[r.Intn(4)]
	pages := 1 + r.Intn(3)
	if errs == 0 && pages == 1 {
		pages = 2
	}
	first := r.Intn(2)
	var hosts []int
	for i := 0; i < errs+pages; i++ {
		hosts = append(hosts, (first+i)%2)
	}
	nv := w.stmts[0].ncols
	if warm == 1 {
		w.doCall(&callSpec{host: 1 - first, entries: []entrySpec{{stmt: 0, nvals: nv}}})
	}
	nroam := 1 + r.Intn(2)
	for i := 0; i < nroam; i++ {
		rm := w.newRoam(0, nv, hosts, errs, pages)
		wg.Add(1)
		go func() { defer wg.Done(); w.doRoam(rm) }()
	}
	if warm == 2 {
		for g, n := 0, 1+r.Intn(3); g < n; g++ {
			cs := &callSpec{host: r.Intn(2), entries: []entrySpec{{stmt: r.Intn(2), nvals: 0}}}
			cs.entries[0].nvals = w.stmts[cs.entries[0].stmt].ncols
			wg.Add(1)
			go func() { defer wg.Done(); w.doCall(cs) }()
		}
	}
	rn.emit(w, &wg, fmt.Sprintf("roaming/errs%d/pages%d/warm%d/cap%d", errs, pages, warm, c.capacity))
}

// connectionLost: the server closes every connection of the host (a node that goes away and comes back with its
// prepared statements) instead of answering - role 0: the PREPARE of a cold statement, with 2..4 executions waiting
// for it (the flight's Conn.exec fails: the c.exec error arm of prepareStatement, no timeout involved); role 1: the
// EXECUTE / BATCH frames of 2..4 executions of a cached statement. From the loss on, until the pool is seen whole
// again, every call that is running or starts has a K (it may return an abort error: the connection error, or
// context.Canceled from the CONNECTION's context, which is what a flight started on a closed connection fails with);
// the probes afterwards start without that licence: they must find no remembered failure, prepare again where the
// entry is gone and succeed. Judged without the every-removal-justified clause (a flight published on a connection
// that is already closed fails before its PREPARE reaches the server).
func (rn *runner) connectionLost(role int, batch bool) {
	r := rn.r
	c := worldCfg{nhosts: 1, nconns: 1 + r.Intn(2), capacity: []int{1000, 0, 2}[r.Intn(3)], stmts: mkStmts(2, r), stableID: r.Bool()}
	w, err := newWorld(r, c)
	if err != nil {
		rn.out.Case("trace Z:no-session", "accept", "conc/no-session", true)
		return
	}
	for j := range w.stmts {
		if batch && w.stmts[j].ncols == 0 {
			w.stmts[j].ncols = 1
		}
	}
	spec := func() *callSpec {
		if batch {
			return &callSpec{batch: true, host: 0, entries: []entrySpec{{stmt: 1, nvals: w.stmts[1].ncols}, {stmt: 0, nvals: w.stmts[0].ncols}}}
		}
		return &callSpec{host: 0, entries: []entrySpec{{stmt: 0, nvals: w.stmts[0].ncols}}}
	}
	k := 2 + r.Intn(3)
	gate := make(chan struct{})
	if role == 1 {
		w.doCall(spec())
	}
	first := w.h.ncalls
	fired := false
	if role == 0 {
		w.onPrepare = func(n *nodeState, stmt, serial int) (pfate, chan struct{}) {
			if stmt == 0 && !fired {
				fired = true
				return pfate{fail: true, kind: pfClosed}, gate
			}
			return pfate{}, nil
		}
	} else {
		w.onExec = func(n *nodeState, call int, known bool) (xfate, chan struct{}, bool) {
			if call >= first && !fired && known {
				fired = true
				return xfate{kind: 4}, gate, true
			}
			return xfate{}, nil, false
		}
	}
	var callers sync.WaitGroup
	for i := 0; i < k; i++ {
		callers.Add(1)
		go func() { defer callers.Done(); w.doCall(spec()) }()
	}
	go func() {
		w.waitHist(func(evs []hev) bool {
			n := 0
			for _, e := range evs {
				if strings.HasPrefix(e.text, "S:") {
					n++
				}
			}
			return n >= first+k
		})
		time.Sleep(15 * time.Millisecond) // schedule only
		close(gate)
	}()
	// the window closes when the callers are back and the pool is whole again (if that is not seen in time it stays
	// open: the probes then have the licence too)
	wg := &sync.WaitGroup{}
	wg.Add(1)
	go func() {
		defer wg.Done()
		callers.Wait()
		dl := time.Now().Add(3 * time.Second)
		for time.Now().Before(dl) {
			if w.poolRenewed() {
				w.h.mu.Lock()
				w.lossy = false
				w.h.mu.Unlock()
				return
			}
			time.Sleep(time.Millisecond)
		}
	}()
	kindw := "query"
	if batch {
		kindw = "batch"
	}
	rn.emit(w, wg, fmt.Sprintf("connection-lost/%s/%s", []string{"at-prepare", "at-execute"}[role], kindw))
}

func (rn *runner) prepareFails(kind, role int, batch bool) {
	if sr := rn.startPrepareFails(kind, role, batch); sr != nil {
		rn.emit(sr.w, sr.wg, sr.class)
	}
}

func imax(a, b int) int {
	if a > b {
		return a
	}
	return b
}

// evictionInFlight: cache of size 1 (or 2), more statements than that, slow PREPAREs, many callers.
func (rn *runner) evictionInFlight() {
	r := rn.r
	capn := 1 + r.Intn(2)
	c := worldCfg{nhosts: 1, nconns: 1 + r.Intn(2), capacity: capn, stmts: mkStmts(capn+1+r.Intn(2), r), stableID: r.Bool()}
	w, err := newWorld(r, c)
	if err != nil {
		rn.out.Case("trace Z:no-session", "accept", "conc/no-session", true)
		return
	}
	pfail := []int{0, 25}[r.Intn(2)]
	w.onPrepare = nil
	for j := range w.stmts {
		for i := 0; i < 200; i++ {
			w.nodes[0].pf[j] = append(w.nodes[0].pf[j], pfate{fail: r.Intn(100) < pfail, kind: r.Intn(3), delay: time.Duration(200+r.Intn(2500)) * time.Microsecond})
		}
	}
	var wg sync.WaitGroup
	for g, ng := 0, 4+r.Intn(8); g < ng; g++ {
		var calls []*callSpec
		for i, n := 0, 2+r.Intn(4); i < n; i++ {
			s := r.Intn(len(w.stmts))
			calls = append(calls, &callSpec{host: 0, entries: []entrySpec{{stmt: s, nvals: w.stmts[s].ncols}}})
		}
		wg.Add(1)
		go func() {
			defer wg.Done()
			for _, cs := range calls {
				w.doCall(cs)
			}
		}()
	}
	rn.emit(w, &wg, fmt.Sprintf("eviction-in-flight/cap%d", capn))
}

// sameStatementBurst: n goroutines execute one uncached statement at the same moment — for each of the world's
// statements in turn (every burst meets a cold key) — while two goroutines take the cache mutex a few thousand
// times (bounded work, no spinning on a flag), so that the callers of a burst meet a contended lock and pass
// through the lookup-or-insert critical section close to each other.
func (rn *runner) sameStatementBurst() {
	r := rn.r
	c := worldCfg{nhosts: 1 + r.Intn(2), nconns: 1 + r.Intn(2), capacity: 1000, stmts: mkStmts(12, r), stableID: r.Bool()}
	w, err := newWorld(r, c)
	if err != nil {
		rn.out.Case("trace Z:no-session", "accept", "conc/no-session", true)
		return
	}
	fails := r.Intn(3) == 0
	for j := range w.stmts {
		w.nodes[0].pf[j] = []pfate{{fail: fails && j == 0, kind: r.Intn(3), delay: time.Duration(r.Intn(3000)) * time.Microsecond}}
	}
	var sizes []int
	for range w.stmts {
		sizes = append(sizes, 4+r.Intn(12))
	}
	var wg sync.WaitGroup
	wg.Add(1)
	go func() {
		defer wg.Done()
		for j := range w.stmts {
			var bw sync.WaitGroup
			start := make(chan struct{})
			for g := 0; g < sizes[j]; g++ {
				host := 0
				if g%5 == 4 {
					host = c.nhosts - 1
				}
				bw.Add(1)
				go func() {
					defer bw.Done()
					<-start
					w.doCall(&callSpec{host: host, entries: []entrySpec{{stmt: j, nvals: w.stmts[j].ncols}}})
				}()
			}
			for g := 0; g < 2; g++ {
				bw.Add(1)
				go func() {
					defer bw.Done()
					<-start
					for i := 0; i < 4000; i++ {
						gocql.VerifC14bLockTouch(w.sess)
					}
				}()
			}
			close(start)
			bw.Wait()
		}
	}()
	rn.emit(w, &wg, fmt.Sprintf("burst/fails=%v", fails))
}

// nearCollide: a group of near-colliding statement texts (near.go) through one Session.
// Phase 1: every text is executed once, one after the other, in a random order (each must be PREPAREd before its
// first EXECUTE, and the EXECUTE must carry the id the server issued for exactly that text); phase 2: concurrent
// callers over the group, queries and batches that mix members; phase 3: the server forgets every statement,
// then every text is executed again (UNPREPARED must evict the entry of THAT text and re-PREPARE THAT text).
// The scripted server issues ids as an injective function of the text (and PREPARE number); Obs checks every
// EXECUTE / BATCH id against the PREPAREs of the entry's own text.
func (rn *runner) nearCollide() {
	r := rn.r
	c := worldCfg{nhosts: 1 + r.Intn(2), nconns: 1 + r.Intn(2), capacity: []int{1000, 0, 1000, 2}[r.Intn(4)],
		stmts: mkStmtsNear(3+r.Intn(5), r), stableID: r.Intn(3) == 0}
	if r.Intn(3) == 0 {
		c.ks = []string{"ks7", "Ks_7", "s", "SELECT"}[r.Intn(4)]
	}
	w, err := newWorld(r, c)
	if err != nil {
		rn.out.Case("trace Z:no-session", "accept", "conc/no-session", true)
		return
	}
	n := len(w.stmts)
	q := func(host, j int) *callSpec {
		return &callSpec{host: host, entries: []entrySpec{{stmt: j, nvals: w.stmts[j].ncols}}}
	}
	perm := func() []int {
		p := make([]int, n)
		for i := range p {
			p[i] = i
		}
		for i := n - 1; i > 0; i-- {
			j := r.Intn(i + 1)
			p[i], p[j] = p[j], p[i]
		}
		return p
	}
	var withCols []int
	for j, st := range w.stmts {
		if st.ncols > 0 {
			withCols = append(withCols, j)
		}
	}
	var phase1, phase3 []*callSpec
	for _, j := range perm() {
		phase1 = append(phase1, q(r.Intn(c.nhosts), j))
	}
	for _, j := range perm() {
		phase3 = append(phase3, q(r.Intn(c.nhosts), j))
	}
	var phase2 [][]*callSpec
	for g, ng := 0, 2+r.Intn(5); g < ng; g++ {
		var calls []*callSpec
		for i, m := 0, 1+r.Intn(4); i < m; i++ {
			if len(withCols) > 0 && r.Intn(3) == 0 {
				cs := &callSpec{batch: true, host: r.Intn(c.nhosts)}
				for k, e := 0, 1+r.Intn(3); k < e; k++ {
					j := withCols[r.Intn(len(withCols))]
					cs.entries = append(cs.entries, entrySpec{stmt: j, nvals: w.stmts[j].ncols})
				}
				calls = append(calls, cs)
			} else {
				calls = append(calls, q(r.Intn(c.nhosts), r.Intn(n)))
			}
		}
		phase2 = append(phase2, calls)
	}
	forget := r.Intn(4) != 0
	var wg sync.WaitGroup
	wg.Add(1)
	go func() {
		defer wg.Done()
		for _, cs := range phase1 {
			w.doCall(cs)
		}
		var wg2 sync.WaitGroup
		for _, calls := range phase2 {
			calls := calls
			wg2.Add(1)
			go func() {
				defer wg2.Done()
				for _, cs := range calls {
					w.doCall(cs)
				}
			}()
		}
		wg2.Wait()
		if forget {
			w.h.mu.Lock()
			for _, nd := range w.nodes {
				nd.registered = map[string]int{}
				w.nforget++
			}
			w.h.mu.Unlock()
		}
		for _, cs := range phase3 {
			w.doCall(cs)
		}
	}()
	rn.emit(w, &wg, fmt.Sprintf("near-collide/hosts%d/cap%d/texts%d/forget=%v", c.nhosts, c.capacity, n, forget))
}

// sequential: one caller at a time. The connection-level Lean machine (PConn + LRU + the replayed server
// script) predicts the history exactly; op `seq`, answer = the observed history.
type seqSpec struct {
	capacity int
	stable   bool
	cols     []int
	pf, xf   string
	calls    []*callSpec
	txt      []string // optional: "<group>.<variant>" per statement (near-colliding texts, near.go)
}

func (sp *seqSpec) stmts() []stmtDef {
	var stmts []stmtDef
	for j, nc := range sp.cols {
		var g, v int
		if j < len(sp.txt) {
			if _, err := fmt.Sscanf(sp.txt[j], "%d.%d", &g, &v); err == nil {
				stmts = append(stmts, stmtDef{text: nearText(g, nc, v), ncols: nc})
				continue
			}
		}
		stmts = append(stmts, stmtWithCols(j, nc))
	}
	return stmts
}

func stmtWithCols(j, nc int) stmtDef {
	where := "c = 0"
	for i := 0; i < nc; i++ {
		where += fmt.Sprintf(" AND b%d = ?", i)
	}
	return stmtDef{text: fmt.Sprintf("SELECT v FROM t%d WHERE %s", j, where), ncols: nc}
}

func (sp *seqSpec) line() string {
	var cols, words []string
	for _, c := range sp.cols {
		cols = append(cols, strconv.Itoa(c))
	}
	for _, cs := range sp.calls {
		var es []string
		for _, e := range cs.entries {
			es = append(es, fmt.Sprintf("%s/%d", keyLabel(cs.host, e.stmt), e.nvals))
		}
		kind := "q"
		if cs.batch {
			kind = "b"
		}
		words = append(words, kind+":"+strings.Join(es, ","))
	}
	ids := "fresh"
	if sp.stable {
		ids = "stable"
	}
	txt := ""
	if len(sp.txt) > 0 {
		txt = " txt=" + strings.Join(sp.txt, ",")
	}
	return fmt.Sprintf("seq cap=%d ids=%s cols=%s pf=%s xf=%s%s %s", sp.capacity, ids, strings.Join(cols, ","), sp.pf, sp.xf, txt, strings.Join(words, " "))
}

func parseSeq(op string) (*seqSpec, error) {
	sp := &seqSpec{}
	for _, w := range strings.Fields(op)[1:] {
		if i := strings.IndexByte(w, '='); i >= 0 {
			k, v := w[:i], w[i+1:]
			switch k {
			case "cap":
				sp.capacity, _ = strconv.Atoi(v)
			case "ids":
				sp.stable = v == "stable"
			case "cols":
				for _, x := range strings.Split(v, ",") {
					n, _ := strconv.Atoi(x)
					sp.cols = append(sp.cols, n)
				}
			case "pf":
				sp.pf = v
			case "xf":
				sp.xf = v
			case "txt":
				sp.txt = strings.Split(v, ",")
			}
			continue
		}
		p := strings.SplitN(w, ":", 2)
		if len(p) != 2 {
			return nil, fmt.Errorf("bad call %q", w)
		}
		cs := &callSpec{batch: p[0] == "b"}
		for _, e := range strings.Split(p[1], ",") {
			var h, st, nv int
			if _, err := fmt.Sscanf(e, "h%d.s%d/%d", &h, &st, &nv); err != nil || st >= len(sp.cols) {
				return nil, fmt.Errorf("bad entry %q", e)
			}
			cs.host = h
			cs.entries = append(cs.entries, entrySpec{stmt: st, nvals: nv})
		}
		sp.calls = append(sp.calls, cs)
	}
	return sp, nil
}

func runSeqSpec(sp *seqSpec, outdir, tag string) (op string, hung string, err error) {
	nh := 1
	for _, cs := range sp.calls {
		if cs.host+1 > nh {
			nh = cs.host + 1
		}
	}
	w, err := newWorld(nil, worldCfg{nhosts: nh, nconns: 1, capacity: sp.capacity, stmts: sp.stmts(), stableID: sp.stable})
	if err != nil {
		return "", "", err
	}
	nx := 0
	w.onPrepare = func(n *nodeState, stmt, serial int) (pfate, chan struct{}) {
		if serial < len(sp.pf) {
			switch sp.pf[serial] {
			case 'e':
				return pfate{fail: true, kind: pfFrame}, nil
			case 'g':
				return pfate{fail: true, kind: pfUndecodable}, nil
			case 'k':
				return pfate{fail: true, kind: pfOtherKind}, nil
			}
		}
		return pfate{}, nil
	}
	w.onExec = func(n *nodeState, call int, known bool) (xfate, chan struct{}, bool) {
		if !known || nx >= len(sp.xf) {
			return xfate{}, nil, true
		}
		k := map[byte]int{'o': 0, 'e': 1, 'f': 2, 'u': 3}[sp.xf[nx]]
		nx++
		return xfate{kind: k}, nil, true
	}
	var wg sync.WaitGroup
	wg.Add(1)
	go func() {
		defer wg.Done()
		for _, cs := range sp.calls {
			w.doCall(cs)
		}
	}()
	op, hung = w.finish(&wg, outdir, tag)
	return op, hung, nil
}

func replaySeq(op string) string {
	sp, err := parseSeq(op)
	if err != nil {
		return "bad-op"
	}
	tr, _, err := runSeqSpec(sp, os.TempDir(), "replay")
	if err != nil {
		return "no-session"
	}
	return trimTrace(tr)
}

func (rn *runner) sequential() {
	r := rn.r
	nst := 1 + r.Intn(4)
	sp := &seqSpec{capacity: []int{1, 1, 2, 2, 3, 1000, 0}[r.Intn(7)], stable: r.Intn(3) == 0}
	for j := 0; j < nst; j++ {
		sp.cols = append(sp.cols, r.Intn(4))
	}
	near := r.Intn(3) == 0
	if near {
		// near-colliding texts: variants of one statement (same bind markers)
		nst = 2 + r.Intn(4)
		sp.cols = nil
		nc := r.Intn(3)
		for _, v := range nearPick(r, nst) {
			sp.cols = append(sp.cols, nc)
			sp.txt = append(sp.txt, fmt.Sprintf("0.%d", v))
		}
		sp.capacity = []int{1000, 0, 1000, 2, 3}[r.Intn(5)]
	}
	nhosts := 1 + r.Intn(2)
	pf := make([]byte, 60)
	for i := range pf {
		pf[i] = 'o'
		if r.Intn(5) == 0 {
			pf[i] = "egk"[r.Intn(3)]
		}
	}
	xf := make([]byte, 80)
	for i := range xf {
		switch x := r.Intn(100); {
		case x < 8:
			xf[i] = 'e'
		case x < 24:
			xf[i] = 'f'
		case x < 30:
			xf[i] = 'u'
		default:
			xf[i] = 'o'
		}
	}
	sp.pf, sp.xf = string(pf), string(xf)
	for i, n := 0, 3+r.Intn(9); i < n; i++ {
		cs := &callSpec{host: r.Intn(nhosts)}
		pick := func() entrySpec {
			s := r.Intn(nst)
			e := entrySpec{stmt: s, nvals: sp.cols[s]}
			if r.Intn(10) == 0 {
				e.nvals = r.Intn(4)
			} else if r.Intn(14) == 0 && e.nvals > 0 {
				e.nvals += badValue
			}
			return e
		}
		if r.Intn(3) == 0 {
			cs.batch = true
			for k, m := 0, 1+r.Intn(3); k < m; k++ {
				e := pick()
				if e.nvals == 0 {
					e.nvals = 1
				}
				cs.entries = append(cs.entries, e)
			}
		} else {
			cs.entries = []entrySpec{pick()}
		}
		sp.calls = append(sp.calls, cs)
	}
	rn.seq++
	op, hung, err := runSeqSpec(sp, rn.outdir, fmt.Sprintf("%d", rn.seq))
	if err != nil {
		rn.out.Case("trace Z:no-session", "accept", "conc/no-session", true)
		return
	}
	if hung != "" {
		rn.nhang++
	}
	cls := "seq"
	if near {
		cls = "seq-near"
	}
	rn.out.Case(sp.line(), trimTrace(op), fmt.Sprintf("%s/hosts%d/cap%d", cls, nhosts, sp.capacity), true)
	// the same history is also judged by the specification
	rn.out.Case(op, "accept", "seq-trace", true)
	rn.out.Dist["seq-events/unprepared"] += strings.Count(op, ":un/")
	rn.out.Dist["seq-events/evictions+removals"] += strings.Count(op, " R:")
	rn.out.Dist["seq-events/count-error"] += strings.Count(op, ":ce")
	rn.out.Dist["seq-events/prepare-error-returned"] += strings.Count(op, ":pe/")
}

func sessionTier(r *vh.Rng, out *vh.Out, outdir string, mult int) {
	rn := &runner{r: r, out: out, outdir: outdir}
	maxHangs := 1
	if mult > 1 {
		maxHangs = 2
	}
	steps := []func(){}
	// the runs with a PREPARE that is never answered: started now, judged at the end (the driver's timeout has to pass)
	var silentRuns []*startedRun
	for i := 0; i < mult; i++ {
		for role := 0; role < 2; role++ {
			for _, batch := range []bool{false, true} {
				if sr := rn.startPrepareFails(pfSilent, role, batch); sr != nil {
					silentRuns = append(silentRuns, sr)
				}
			}
		}
	}
	for i := 0; i < mult; i++ {
		for kind := pfFrame; kind < pfSilent; kind++ {
			for role := 0; role < 2; role++ {
				kind, role := kind, role
				steps = append(steps, func() { rn.prepareFails(kind, role, false) })
				steps = append(steps, func() { rn.prepareFails(kind, role, true) })
			}
		}
	}
	for i := 0; i < 24*mult; i++ {
		steps = append(steps, rn.roaming)
	}
	for i := 0; i < 80*mult; i++ {
		steps = append(steps, rn.steppedRandom)
	}
	if mult > 1 {
		// thorough: every word a·w, |w| = 4 over {a, b, k, l, p, x}, cache of 1 and unbounded, first PREPARE ok / failing,
		// first EXECUTE answered UNPREPARED(forget) - 2 x 2 x 1296 runs
		letters := "abklpx"
		for _, capacity := range []int{1, 1000} {
			for _, pf := range []string{"oooooooo", "eooooooo"} {
				for i := 0; i < 1296; i++ {
					wd := []byte{'a'}
					for j, x := 0, i; j < 4; j, x = j+1, x/6 {
						wd = append(wd, letters[x%6])
					}
					capacity, pf, word := capacity, pf, string(wd)
					steps = append(steps, func() { rn.stepped(capacity, word, pf, "foooooooo") })
				}
			}
		}
	}
	for i := 0; i < 2*mult; i++ {
		for role := 0; role < 2; role++ {
			role := role
			steps = append(steps, func() { rn.connectionLost(role, false) })
			steps = append(steps, func() { rn.connectionLost(role, true) })
		}
	}
	for i := 0; i < 12*mult; i++ {
		steps = append(steps, rn.nearCollide)
	}
	for i := 0; i < 6*mult; i++ {
		steps = append(steps, func() { rn.lostStatement(2+rn.r.Intn(3), true, false) })
		steps = append(steps, func() { rn.lostStatement(2+rn.r.Intn(3), false, rn.r.Bool()) })
		steps = append(steps, func() { rn.lostStatement(2, true, true) })
	}
	for rep := 0; rep < mult; rep++ {
		for mode := 1; mode < nCtxModes; mode++ {
			for role := 0; role < 3; role++ {
				mode, role := mode, role
				steps = append(steps, func() { rn.cancelled(mode, role, false) })
				steps = append(steps, func() { rn.cancelled(mode, role, true) })
			}
		}
	}
	for i := 0; i < 6*mult; i++ {
		steps = append(steps, func() { rn.retryUnderContention(60) })
	}
	for i := 0; i < 120*mult; i++ {
		steps = append(steps, rn.sequential)
	}
	for i := 0; i < 150*mult; i++ {
		steps = append(steps, rn.random)
	}
	for i := 0; i < 40*mult; i++ {
		steps = append(steps, rn.randomNear)
	}
	for i := 0; i < 30*mult; i++ {
		steps = append(steps, rn.evictionInFlight)
		steps = append(steps, rn.sameStatementBurst)
	}
	for _, f := range steps {
		if rn.nhang >= maxHangs {
			out.Dist["conc/skipped-after-hang"]++
			continue
		}
		f()
	}
	for _, sr := range silentRuns {
		if rn.nhang >= maxHangs {
			out.Dist["conc/skipped-after-hang"]++
			continue
		}
		rn.emit(sr.w, sr.wg, sr.class)
	}
}
