// Harness for C14 (prepared statements; sequential + logical core): random operation sequences on the
// REAL internal/lru.Cache and on the REAL preparedLRU holding real *inflightPrepare values (lookup-or-
// insert critical section, flight completion incl. the failure path's remove-by-key, evictPreparedID,
// clear), plus AST-level expectations on conn.go prepareStatement / executeQuery, plus the cache key itself
// (near.go: the real keyFor on near-colliding byte-string triples; ops keyfor / keypair and the
// single-flight protocol over near-colliding groups, ops lookupx / completex / unprepx). Answers are compared
// with the Lean models (lean/Model/LRU.lean, lean/Model/Prepare.lean); keypair with the specification.
package main

import (
	"fmt"
	"go/ast"
	"go/parser"
	"go/token"
	"go/types"
	"path/filepath"
	"strings"
	"time"

	"github.com/gocql/gocql"
	"verifharness/vh"
)

type state struct {
	l *gocql.VerifC14LRU
	p *gocql.VerifC14Prep
}

func ev(e []string) string {
	if len(e) == 0 {
		return "-"
	}
	return strings.Join(e, ",")
}

func unq(s string) string {
	if s == "-" {
		return ""
	}
	return s
}

func atoi(s string) int {
	var n int
	if _, err := fmt.Sscanf(s, "%d", &n); err != nil {
		panic("bad int " + s)
	}
	return n
}

func (st *state) exec(op string) (res string) {
	defer func() {
		if r := recover(); r != nil {
			res = fmt.Sprintf("crash:%v", r)
		}
	}()
	w := strings.Fields(op)
	if len(w) == 0 {
		return "bad-op"
	}
	switch w[0] {
	case "reset":
		if w[1] == "lru" {
			st.l = gocql.VerifC14NewLRU(atoi(w[2]))
		} else {
			st.p = gocql.VerifC14NewPrep(atoi(w[2]))
		}
		return "ok"
	case "add":
		e := st.l.Add(w[1], w[2])
		return fmt.Sprintf("ev=%s len=%d", ev(e), st.l.Len())
	case "get":
		v, ok := st.l.Get(w[1])
		if !ok {
			return "miss"
		}
		return "hit:" + v
	case "remove":
		ok, e := st.l.Remove(w[1])
		return fmt.Sprintf("%v ev=%s len=%d", ok, ev(e), st.l.Len())
	case "oldest":
		e := st.l.RemoveOldest()
		return fmt.Sprintf("ev=%s len=%d", ev(e), st.l.Len())
	case "drain":
		var all []string
		for st.l.Len() > 0 {
			all = append(all, st.l.RemoveOldest()...)
		}
		return "ev=" + ev(all)
	case "lookup":
		key := st.p.KeyFor(unq(w[1]), unq(w[2]), unq(w[3]))
		f, hit, e := st.p.Lookup(key)
		h := "miss"
		if hit {
			h = "hit"
		}
		return fmt.Sprintf("%s f=%d ev=%s len=%d", h, f, ev(e), st.p.Len())
	case "complete":
		id, err := vh.UnHex(w[3])
		if err != nil {
			return "bad-op"
		}
		ok, e := st.p.Complete(atoi(w[1]), id, w[2] != "ok")
		if !ok {
			return "rejected"
		}
		return fmt.Sprintf("done ev=%s len=%d", ev(e), st.p.Len())
	case "outcome":
		s, id := st.p.Outcome(atoi(w[1]))
		if s == "ok" {
			return "ok:" + vh.Hex(id)
		}
		return s
	case "unprep":
		id, err := vh.UnHex(w[4])
		if err != nil {
			return "bad-op"
		}
		e := st.p.Unprepared(st.p.KeyFor(unq(w[1]), unq(w[2]), unq(w[3])), id)
		return fmt.Sprintf("ev=%s len=%d", ev(e), st.p.Len())
	case "pdrain":
		return "ev=" + ev(st.p.Clear())
	case "keyfor", "keypair", "lookupx", "unprepx", "completex":
		return st.execNear(w)
	case "ast":
		return astFacts()
	case "seq":
		return replaySeq(op)
	case "trace", "traceU", "cachelen":
		// an observed history of the real code (session tier): the line IS the implementation's behaviour,
		// the specification judges it
		return "accept"
	}
	return "bad-op"
}

// ---------- AST expectations on conn.go ----------

func astFacts() string {
	fset := token.NewFileSet()
	f, err := parser.ParseFile(fset, filepath.Join(gocql.VerifC14SourceDir(), "conn.go"), nil, 0)
	if err != nil {
		return "parse-error:" + err.Error()
	}
	str := func(e ast.Expr) string { return types.ExprString(e) }
	var prep, execq *ast.FuncDecl
	for _, d := range f.Decls {
		if fd, ok := d.(*ast.FuncDecl); ok {
			switch fd.Name.Name {
			case "prepareStatement":
				prep = fd
			case "executeQuery":
				execq = fd
			}
		}
	}
	if prep == nil || execq == nil {
		return "missing-function"
	}
	closureAdds, errAssign, removes := 0, 0, 0
	removeByKey, deferFirst, waitsDone, waitsCtx := true, false, false, false
	ast.Inspect(prep, func(n ast.Node) bool {
		switch x := n.(type) {
		case *ast.CallExpr:
			s := str(x.Fun)
			if strings.HasSuffix(s, "execIfMissing") && len(x.Args) == 2 {
				if fl, ok := x.Args[1].(*ast.FuncLit); ok {
					ast.Inspect(fl, func(m ast.Node) bool {
						if c, ok := m.(*ast.CallExpr); ok && str(c.Fun) == "lru.Add" && len(c.Args) == 2 &&
							str(c.Args[0]) == "stmtCacheKey" && str(c.Args[1]) == "flight" {
							closureAdds++
						}
						return true
					})
				}
			}
			if s == "c.session.stmtsLRU.remove" {
				removes++
				if len(x.Args) != 1 || str(x.Args[0]) != "stmtCacheKey" {
					removeByKey = false
				}
			}
		case *ast.AssignStmt:
			if len(x.Lhs) == 1 && str(x.Lhs[0]) == "flight.err" {
				errAssign++
			}
		case *ast.GoStmt:
			if fl, ok := x.Call.Fun.(*ast.FuncLit); ok && len(fl.Body.List) > 0 {
				if d, ok := fl.Body.List[0].(*ast.DeferStmt); ok && str(d.Call.Fun) == "close" &&
					len(d.Call.Args) == 1 && str(d.Call.Args[0]) == "flight.done" {
					deferFirst = true
				}
			}
		case *ast.CommClause:
			if es, ok := x.Comm.(*ast.ExprStmt); ok {
				switch str(es.X) {
				case "<-flight.done":
					waitsDone = true
				case "<-ctx.Done()":
					waitsCtx = true
				}
			}
		}
		return true
	})
	// the statement after `flight, ok := ...execIfMissing(...)` is `if !ok { go func() {...}() }`: the caller that
	// published a flight starts its goroutine before anything else can make it return (model: pc `won` has no
	// other action than `spawn`)
	spawnFollows := false
	for i, st := range prep.Body.List {
		as, ok := st.(*ast.AssignStmt)
		if !ok || len(as.Rhs) != 1 {
			continue
		}
		call, ok := as.Rhs[0].(*ast.CallExpr)
		if !ok || !strings.HasSuffix(str(call.Fun), "execIfMissing") {
			continue
		}
		if i+1 < len(prep.Body.List) {
			if is, ok := prep.Body.List[i+1].(*ast.IfStmt); ok && str(is.Cond) == "!ok" && is.Else == nil && len(is.Body.List) == 1 {
				if _, ok := is.Body.List[0].(*ast.GoStmt); ok {
					spawnFollows = true
				}
			}
		}
	}
	unprep := false
	ast.Inspect(execq, func(n ast.Node) bool {
		cc, ok := n.(*ast.CaseClause)
		if !ok || len(cc.List) != 1 || str(cc.List[0]) != "*RequestErrUnprepared" {
			return true
		}
		evictAt, retryAt := -1, -1
		for i, s := range cc.Body {
			if es, ok := s.(*ast.ExprStmt); ok {
				if c, ok := es.X.(*ast.CallExpr); ok && str(c.Fun) == "c.session.stmtsLRU.evictPreparedID" &&
					len(c.Args) == 2 && str(c.Args[0]) == "stmtCacheKey" && str(c.Args[1]) == "x.StatementId" {
					evictAt = i
				}
			}
			if rs, ok := s.(*ast.ReturnStmt); ok && len(rs.Results) == 1 && str(rs.Results[0]) == "c.executeQuery(ctx, qry)" {
				retryAt = i
			}
		}
		unprep = evictAt >= 0 && retryAt > evictAt
		return true
	})
	return fmt.Sprintf("closure-adds=%d defer-close-first=%v err-assign=%d removes=%d remove-by-key=%v waits-done=%v waits-ctx=%v unprepared-evicts-then-retries=%v spawn-follows-publish=%v",
		closureAdds, deferFirst, errAssign, removes, removeByKey, waitsDone, waitsCtx, unprep, spawnFollows)
}

// ---------- generators ----------

func main() {
	mode, tier, path := vh.Args()
	st := &state{l: gocql.VerifC14NewLRU(0), p: gocql.VerifC14NewPrep(0)}
	if mode == "replay" {
		for _, l := range vh.ReadLines(path) {
			fmt.Println(st.exec(l))
		}
		return
	}
	r := vh.NewRng(vh.EnvSeed())
	out := vh.NewOut(path)
	mult := 1
	if tier == "thorough" {
		mult = 30
	}
	// the session tier runs first: if the code under test blocks or crashes, the concrete history is on record
	// before the single-goroutine tiers (which cannot survive a blocking cache operation) are driven
	sessionTier(r, out, path, mult)
	poisoned := false
	emit := func(op, class string) string {
		if poisoned {
			return "blocked"
		}
		ch := make(chan string, 1)
		go func() { ch <- st.exec(op) }()
		var a string
		select {
		case a = <-ch:
		case <-time.After(15 * time.Second):
			// a cache operation that never returns when driven from one goroutine (e.g. waits for a flight);
			// the goroutine stays blocked, so the sequential tiers stop here
			a, poisoned = "blocked", true
		}
		out.Case(op, a, class, true)
		return a
	}
	emit("ast prepareStatement", "ast")

	caps := []int{0, 1, 1, 2, 2, 3, 4, 5, 8, 1000, -1}
	// 1. lru.Cache: random op sequences
	for seq := 0; seq < 150*mult; seq++ {
		cp := caps[r.Intn(len(caps))]
		emit(fmt.Sprintf("reset lru %d", cp), "lru/reset")
		nkeys := 1 + r.Intn(7)
		n := 10 + r.Intn(60)
		for i := 0; i < n; i++ {
			k := fmt.Sprintf("k%d", r.Intn(nkeys))
			switch x := r.Intn(20); {
			case x < 9:
				a := emit(fmt.Sprintf("add %s v%d", k, r.Intn(1000)), "lru/add")
				if !strings.HasPrefix(a, "ev=- ") {
					out.Dist["lru/add/evicting"]++
				}
			case x < 14:
				a := emit("get "+k, "lru/get")
				out.Dist["lru/get/"+strings.SplitN(a, ":", 2)[0]]++
			case x < 17:
				a := emit("remove "+k, "lru/remove")
				out.Dist["lru/remove/"+strings.Fields(a)[0]]++
			case x < 19:
				emit("oldest", "lru/oldest")
			default:
				emit("drain", "lru/drain")
			}
		}
		emit("drain", "lru/drain")
	}

	// 2. preparedLRU + inflightPrepare: the single-flight protocol, sequentialised schedules
	hosts := []string{"h1", "h2", "-"}
	kss := []string{"ks", "-", "k"}
	stmts := []string{"SELECT_a", "SELECT_b", "sSELECT_a", "INSERT", "-"}
	for seq := 0; seq < 150*mult; seq++ {
		cp := caps[r.Intn(len(caps))]
		emit(fmt.Sprintf("reset plru %d", cp), "plru/reset")
		nh, ns := 1+r.Intn(3), 1+r.Intn(5)
		type fl struct {
			done bool
			ok   bool
			id   string
			trip [3]string
		}
		var flights []fl
		n := 10 + r.Intn(60)
		for i := 0; i < n; i++ {
			trip := [3]string{hosts[r.Intn(nh)], kss[r.Intn(len(kss))], stmts[r.Intn(ns)]}
			if r.Intn(3) != 0 {
				trip[1] = "ks"
			}
			switch x := r.Intn(20); {
			case x < 9:
				a := emit(fmt.Sprintf("lookup %s %s %s", trip[0], trip[1], trip[2]), "plru/lookup")
				w := strings.Fields(a)
				out.Dist["plru/lookup/"+w[0]]++
				if w[0] == "miss" {
					flights = append(flights, fl{trip: trip})
					if w[2] != "ev=-" {
						out.Dist["plru/lookup/evicting"]++
					}
				}
			case x < 15:
				// complete some in-flight flight (ok or fail); now and then a finished one (rejected)
				if len(flights) == 0 {
					continue
				}
				f := r.Intn(len(flights))
				for t := 0; t < 4 && flights[f].done; t++ {
					f = r.Intn(len(flights))
				}
				if r.Intn(3) == 0 {
					a := emit(fmt.Sprintf("complete %d fail -", f), "plru/complete-fail")
					if a != "rejected" {
						flights[f].done = true
						if !strings.Contains(a, "ev=- ") {
							out.Dist["plru/complete-fail/removed-entry"]++
						}
					}
				} else {
					id := vh.Hex([]byte{byte(1 + r.Intn(3))})
					a := emit(fmt.Sprintf("complete %d ok %s", f, id), "plru/complete-ok")
					if a != "rejected" {
						flights[f].done, flights[f].ok, flights[f].id = true, true, id
					}
				}
			case x < 19:
				// UNPREPARED for a known triple: mostly with the id of one of its flights
				id := vh.Hex([]byte{byte(1 + r.Intn(3))})
				if len(flights) > 0 {
					g := flights[r.Intn(len(flights))]
					trip = g.trip
					if g.ok && r.Intn(4) != 0 {
						id = g.id
					}
				}
				a := emit(fmt.Sprintf("unprep %s %s %s %s", trip[0], trip[1], trip[2], id), "plru/unprep")
				if !strings.HasPrefix(a, "ev=- ") {
					out.Dist["plru/unprep/evicted"]++
				}
			default:
				if len(flights) > 0 {
					a := emit(fmt.Sprintf("outcome %d", r.Intn(len(flights))), "plru/outcome")
					out.Dist["plru/outcome/"+strings.SplitN(a, ":", 2)[0]]++
				}
			}
		}
		emit("pdrain", "plru/drain")
	}
	// 3. the cache key on near-colliding triples (real keyFor), single flight over near-colliding groups
	nearTier(r, out, emit, mult)
	if tier == "thorough" {
		// exhaustive small scope: every sequence of length <= 5 over {lookup a, lookup b, complete-ok/fail of
		// flights 0,1, unprep a} with cache sizes 1 and 2
		alpha := []string{"lookup h ks a", "lookup h ks b", "complete 0 ok 01", "complete 0 fail -", "complete 1 ok 01",
			"complete 1 fail -", "unprep h ks a 01", "unprep h ks b 02"}
		var rec func(prefix []string, depth int, cp int)
		rec = func(prefix []string, depth int, cp int) {
			if depth == 0 {
				emit(fmt.Sprintf("reset plru %d", cp), "plru-exh/reset")
				for _, o := range prefix {
					emit(o, "plru-exh/op")
				}
				emit("pdrain", "plru-exh/drain")
				return
			}
			for _, a := range alpha {
				rec(append(prefix, a), depth-1, cp)
			}
		}
		for _, cp := range []int{1, 2} {
			rec(nil, 4, cp)
		}
	}
	out.Close(nil)
}
