// Bind / result metadata and PREPARE failure kinds of the scripted server (session tier of the C14 harness).
//
// Bind metadata: the server declares, per PREPARE, column types of DIFFERENT value widths (int 4, bigint 8,
// smallint 2, tinyint 1 bytes, rotating with the statement number, the column position and - unless ids are
// stable per statement - the PREPARE number). The callers bind small Go ints, so the width of every value in an
// EXECUTE / BATCH frame shows which column type the driver encoded it with: the server logs, per prepared
// entry, the id AND these widths; the Lean driver makes one token of the two (PConn.token) and the
// specification demands that the token was returned by a current PREPARE of exactly that statement
// (C14_id_belongs / C14_metadata_belongs). Result metadata: the PREPARE answer names its one result column
// r<PREPARE number>; an EXECUTE is answered with RESULT/Rows WITHOUT metadata when the frame asks for that
// (skip_metadata), so that the Iter's columns are the prepared statement's: the caller checks the name.
//
// PREPARE failure kinds: the four ways prepareStatement's flight can fail - an ERROR frame; a frame that
// cannot be decoded (framer.parseFrame fails); a well-formed answer of another kind (the `default:` arm);
// no answer at all, so that the driver's request timeout ends Conn.exec with an error (the c.exec error path).
package main

import (
	"fmt"
	"regexp"
	"strconv"
	"strings"

	"verifharness/memcluster"
)

const (
	pfFrame       = iota // ERROR frame (overloaded, message pf-<serial>)
	pfUndecodable        // ERROR frame with an error code the driver does not know: parseFrame returns an error
	pfOtherKind          // RESULT/SetKeyspace("pf-<serial>"): a frame, but neither PREPARED nor an error
	pfSilent             // no answer: Conn.exec ends with ErrTimeoutNoResponse (only in worlds with a short timeout)
	pfClosed             // no answer: the server closes every connection of the host instead (connection loss)
)

var pfWords = []string{"frame", "undecodable", "other-kind", "silent", "closed"}

const (
	tSmallint = 0x0013
	tTinyint  = 0x0014
)

var widthTypes = []struct{ width, typ int }{{4, memcluster.TInt}, {8, memcluster.TBigint}, {2, tSmallint}, {1, tTinyint}}

// bindSig: the value widths of statement st's bind columns as declared by PREPARE number serial
// (the same function as Driver/C14.lean bindSig).
func (w *world) bindSig(st, serial, nc int) []byte {
	if w.stableID {
		serial = 0
	}
	sig := make([]byte, nc)
	for i := range sig {
		sig[i] = byte(widthTypes[(st+serial+i)%4].width)
	}
	return sig
}

func sigCols(sig []byte, prefix string) []memcluster.Col {
	var c []memcluster.Col
	for i, wd := range sig {
		t := memcluster.TInt
		for _, wt := range widthTypes {
			if wt.width == int(wd) {
				t = wt.typ
			}
		}
		c = append(c, memcluster.Col{Name: fmt.Sprintf("%s%d", prefix, i), Type: t})
	}
	return c
}

func widthsOf(vals [][]byte) []byte {
	s := make([]byte, len(vals))
	for i, v := range vals {
		if len(v) > 255 {
			s[i] = 255
		} else {
			s[i] = byte(len(v))
		}
	}
	return s
}

// failedPrepareReply: the answer to PREPARE number serial that makes the flight fail in the given way
// (pfSilent: no answer, handled by the caller).
func failedPrepareReply(kind, serial int) (byte, []byte) {
	switch kind {
	case pfUndecodable:
		return memcluster.OpError, memcluster.ErrorBody(int32(0x7e000000+serial), "pf", nil)
	case pfOtherKind:
		b := &memcluster.W{}
		b.Int(3)
		b.String(fmt.Sprintf("pf-%d", serial))
		return memcluster.OpResult, b.B
	}
	return memcluster.OpError, memcluster.ErrorBody(memcluster.ErrOverloaded, fmt.Sprintf("pf-%d", serial), nil)
}

// connection-loss errors as callers see them (the flight's error, Conn.exec's, the pool's)
var connLostRe = regexp.MustCompile(`EOF|closed pipe|connection closed|closed network connection|no hosts available|no connections|broken pipe`)

var (
	undecRe  = regexp.MustCompile(`unknown error code: 0x7e([0-9a-f]{6})`)
	otherRe  = regexp.MustCompile(`Unknown type in response to prepare frame.*pf-(\d+)`)
	silentRe = regexp.MustCompile(`no response received from cassandra within timeout period`)
)

// failedPrepareSerial: which PREPARE's failure an error text is. keys: the statement keys (h<i>.s<j>) the error may
// be about - used for the one failure that carries no number, the driver's timeout (at most one silent PREPARE
// per key and world).
func (w *world) failedPrepareSerial(msg string, keys []string) (int, bool) {
	if m := undecRe.FindStringSubmatch(msg); m != nil {
		n, err := strconv.ParseInt(m[1], 16, 32)
		return int(n), err == nil
	}
	if m := otherRe.FindStringSubmatch(msg); m != nil {
		n, err := strconv.Atoi(m[1])
		return n, err == nil
	}
	if silentRe.MatchString(msg) {
		for _, k := range keys {
			if n, ok := w.silent[k]; ok {
				return n, true
			}
		}
		return 0, false
	}
	if strings.Contains(msg, "pf-") {
		if m := pfRe.FindStringSubmatch(msg); m != nil {
			n, err := strconv.Atoi(m[1])
			return n, err == nil
		}
	}
	return 0, false
}
