// Harness for C11 (host selection policies): drives the REAL gocql policies through their public
// API (AddHost / RemoveHost / HostUp / HostDown / Pick + the returned NextHost iterator) on generated
// cluster states and writes op lines + the implementation's answers for comparison with the Lean model.
package main

import (
	"fmt"
	"math/rand"
	"net"
	"os"
	"sort"
	"strconv"
	"strings"
	"sync"
	"sync/atomic"

	"github.com/gocql/gocql"
	"verifharness/vh"
)

type world struct {
	pol   gocql.HostSelectionPolicy
	isTA  bool
	shuf  bool
	hosts map[int]*gocql.HostInfo
	ids   map[*gocql.HostInfo]int
	// what the harness itself knows about the scenario (for the specification of the replica phases;
	// nothing here is read back from the policy under test except its host list)
	kind       string
	ldc, lrack string
	nonlocal   bool
	partSet    bool
	attrs      map[*gocql.HostInfo]hostAttr
	tables     map[string][]tabEntry
}

type hostAttr struct {
	dc, rack string
	toks     []int
}

type tabEntry struct {
	tok   int
	hosts []*gocql.HostInfo
}

// tier of a host as the property defines it: local rack / local DC / remote DC for the rack-aware
// policy, local / remote DC for the dc-aware one, one tier for round-robin.
func (w *world) tier(h *gocql.HostInfo) int {
	a := w.attrs[h]
	switch w.kind {
	case "rr":
		return 0
	case "dc":
		if a.dc == w.ldc {
			return 0
		}
		return 1
	}
	if a.dc != w.ldc {
		return 2
	}
	if a.rack == w.lrack {
		return 0
	}
	return 1
}

func (w *world) maxTier() int {
	if w.kind == "rack" {
		return 2
	}
	return 1
}

// specReplicas: the replica list of the query (keyspace table entry of the first token >= tok, wrapping;
// without a table the owner of the token in the ring of the policy's hosts), shuffled with the
// permutation of the op line. known=false: the query has no replica list (no key, no ring, empty ring).
func (w *world) specReplicas(ks string, tokS string, perms string) (reps []*gocql.HostInfo, known bool, emptyRing bool) {
	if !w.isTA || !w.partSet || ks == "-" || tokS == "-" {
		return nil, false, false
	}
	t := atoi(tokS)
	if tab := w.tables["ks"+ks]; len(tab) > 0 {
		e := tab[0]
		for _, x := range tab {
			if x.tok >= t {
				e = x
				break
			}
		}
		reps = e.hosts
		if w.shuf && perms != "-" {
			for _, ps := range strings.Split(perms, ";") {
				p := intList(ps)
				if len(p) == len(reps) {
					out := make([]*gocql.HostInfo, len(reps))
					for i, j := range p {
						out[i] = reps[j]
					}
					reps = out
					break
				}
			}
		}
		return reps, true, false
	}
	_, taHosts, _ := gocql.VerifPolicyLists(w.pol)
	var owner, first *gocql.HostInfo
	best, lo := -1, -1
	for _, h := range taHosts {
		for _, ht := range w.attrs[h].toks {
			if lo < 0 || ht < lo {
				lo, first = ht, h
			}
			if ht >= t && (best < 0 || ht < best) {
				best, owner = ht, h
			}
		}
	}
	if owner == nil {
		owner = first
	}
	if owner == nil {
		return nil, false, true
	}
	return []*gocql.HostInfo{owner}, true, false
}

// specHead: SPECIFICATION of the replica phases (Lean: Policies.specHead; the model's head is proved
// equal to it for every replica list, C11_tokenaware_remote_order): tier after tier, the up replicas of
// that tier in replica-list order; farther tiers only with NonLocalReplicasFallback.
func (w *world) specHead(reps []*gocql.HostInfo) []*gocql.HostInfo {
	last := 0
	if w.nonlocal {
		last = w.maxTier()
	}
	var head []*gocql.HostInfo
	for t := 0; t <= last; t++ {
		for _, h := range reps {
			if w.tier(h) == t && h.IsUp() {
				head = append(head, h)
			}
		}
	}
	return head
}

func hasDup(l []*gocql.HostInfo) bool {
	seen := map[*gocql.HostInfo]bool{}
	for _, h := range l {
		if seen[h] {
			return true
		}
		seen[h] = true
	}
	return false
}

// hasGap: a farther tier has a replica while a nearer remote tier has none (the state of KF-C11-1)
func (w *world) hasGap(reps []*gocql.HostInfo) bool {
	if !w.nonlocal {
		return false
	}
	cnt := make([]int, w.maxTier()+1)
	for _, h := range reps {
		cnt[w.tier(h)]++
	}
	for t := 1; t < len(cnt); t++ {
		if cnt[t] == 0 {
			for u := t + 1; u < len(cnt); u++ {
				if cnt[u] > 0 {
					return true
				}
			}
		}
	}
	return false
}

func tok(n int) string { return fmt.Sprintf("%04d", n) }

func atoi(s string) int {
	n, err := strconv.Atoi(s)
	if err != nil {
		panic("bad number " + s)
	}
	return n
}

func intList(s string) []int {
	if s == "-" {
		return nil
	}
	var out []int
	for _, p := range strings.Split(s, ",") {
		out = append(out, atoi(p))
	}
	return out
}

func (w *world) showIDs(l []*gocql.HostInfo) string {
	if len(l) == 0 {
		return "-"
	}
	parts := make([]string, len(l))
	for i, h := range l {
		if h == nil {
			parts[i] = "nil"
		} else if id, ok := w.ids[h]; ok {
			parts[i] = strconv.Itoa(id)
		} else {
			parts[i] = "?"
		}
	}
	return strings.Join(parts, ",")
}

func (w *world) snapshot() string {
	layers, taHosts, isTA := gocql.VerifPolicyLists(w.pol)
	for len(layers) < 3 {
		layers = append(layers, nil)
	}
	s := "L0=" + w.showIDs(layers[0]) + " L1=" + w.showIDs(layers[1]) + " L2=" + w.showIDs(layers[2])
	if isTA {
		s += " T=" + w.showIDs(taHosts)
	}
	return s
}

// permsFor computes, for every length 0..8, the permutation shuffleHosts applies when its
// generator was just seeded with `seed`.
func permsFor(seed int64) string {
	var parts []string
	for n := 0; n <= 8; n++ {
		r := rand.New(rand.NewSource(seed))
		idx := make([]int, n)
		for i := range idx {
			idx[i] = i
		}
		r.Shuffle(n, func(i, j int) { idx[i], idx[j] = idx[j], idx[i] })
		ss := make([]string, n)
		for i, v := range idx {
			ss[i] = strconv.Itoa(v)
		}
		if n == 0 {
			parts = append(parts, "-")
		} else {
			parts = append(parts, strings.Join(ss, ","))
		}
	}
	return strings.Join(parts, ";")
}

func (w *world) exec(op string) (res string) {
	defer func() {
		if r := recover(); r != nil {
			res = "crash:" + strings.ReplaceAll(fmt.Sprint(r), "\n", " ")
			if strings.Contains(res, "nil pointer dereference") {
				res = "crash:nil-host-dereference"
			}
			if os.Getenv("VERIF_DEBUG") != "" {
				fmt.Fprintf(os.Stderr, "crash on %q: %v\n", op, r)
			}
		}
	}()
	f := strings.Fields(op)
	if len(f) == 0 {
		return "bad-op"
	}
	switch f[0] {
	case "reset":
		if len(f) != 8 {
			return "bad-op"
		}
		ldc, lrack := "dc"+f[3], "r"+f[4]
		var fb gocql.HostSelectionPolicy
		switch f[1] {
		case "rr":
			fb = gocql.RoundRobinHostPolicy()
		case "dc":
			fb = gocql.DCAwareRoundRobinPolicy(ldc)
		default:
			fb = gocql.RackAwareRoundRobinPolicy(ldc, lrack)
		}
		w.hosts = map[int]*gocql.HostInfo{}
		w.ids = map[*gocql.HostInfo]int{}
		w.isTA = f[2] == "1"
		w.shuf = f[5] == "1"
		w.kind, w.ldc, w.lrack = f[1], ldc, lrack
		if w.kind != "rr" && w.kind != "dc" {
			w.kind = "rack"
		}
		w.nonlocal = w.isTA && f[6] == "1"
		w.partSet = w.isTA && f[7] == "1"
		w.attrs = map[*gocql.HostInfo]hostAttr{}
		w.tables = map[string][]tabEntry{}
		if w.isTA {
			w.pol = newTA(fb, f[5] == "1", f[6] == "1")
			gocql.VerifTAInit(w.pol, "verif_session_ks")
			if f[7] == "1" {
				w.pol.SetPartitioner("OrderedPartitioner")
			}
		} else {
			w.pol = fb
		}
		return "ok"
	case "host":
		if len(f) != 6 {
			return "bad-op"
		}
		id, a := atoi(f[1]), atoi(f[2])
		var toks []string
		for _, t := range intList(f[5]) {
			toks = append(toks, tok(t))
		}
		h := gocql.VerifNewHost(fmt.Sprintf("id-%d", id), net.IPv4(10, 0, byte(a>>8), byte(a)), "dc"+f[3], "r"+f[4], toks)
		if old, ok := w.hosts[id]; ok {
			delete(w.ids, old)
		}
		w.hosts[id] = h
		w.ids[h] = id
		w.attrs[h] = hostAttr{dc: "dc" + f[3], rack: "r" + f[4], toks: intList(f[5])}
		return "ok"
	case "add", "remove", "hup", "hdown":
		if len(f) != 2 {
			return "bad-op"
		}
		h, ok := w.hosts[atoi(f[1])]
		if !ok {
			return "bad-op"
		}
		switch f[0] {
		case "add":
			w.pol.AddHost(h)
		case "remove":
			w.pol.RemoveHost(h)
		case "hup":
			w.pol.HostUp(h)
		case "hdown":
			w.pol.HostDown(h)
		}
		return w.snapshot()
	case "state":
		h, ok := w.hosts[atoi(f[1])]
		if !ok {
			return "bad-op"
		}
		gocql.VerifSetHostUp(h, f[2] == "1")
		return "ok"
	case "repl":
		var toks []string
		var hs [][]*gocql.HostInfo
		for _, e := range f[2:] {
			p := strings.SplitN(e, ":", 2)
			toks = append(toks, tok(atoi(p[0])))
			var l []*gocql.HostInfo
			for _, id := range intList(p[1]) {
				if h, ok := w.hosts[id]; ok {
					l = append(l, h)
				}
			}
			hs = append(hs, l)
		}
		if w.isTA {
			if gocql.VerifTASetReplicas(w.pol, "ks"+f[1], toks, hs) {
				tab := make([]tabEntry, len(hs))
				for i := range hs {
					tab[i] = tabEntry{tok: atoi(strings.SplitN(f[2+i], ":", 2)[0]), hosts: hs[i]}
				}
				sort.Slice(tab, func(i, j int) bool { return tab[i].tok < tab[j].tok })
				w.tables["ks"+f[1]] = tab
			}
		}
		return "ok"
	case "pick":
		if len(f) != 5 {
			return "bad-op"
		}
		var rk []byte
		if f[1] != "-" && f[2] != "-" {
			rk = []byte(tok(atoi(f[2])))
		}
		if f[4] != "-" {
			// the op line carries, for every replica-list length, the permutation the shuffle must
			// apply; seeds come from a small space so that the seed is recovered from the line.
			sd, ok := findSeed(f[4])
			if !ok {
				return "bad-op"
			}
			gocql.VerifSeedShuffle(sd)
		}
		ksName := "ks" + f[1]
		limit := atoi(f[3])
		// the specified head is computed BEFORE the pick (state of the hosts as the iterator will see it)
		var head []*gocql.HostInfo
		dupReps := false
		// (a replica list with duplicates - the C10 defect's business, excluded from the uniqueness theorems -
		// is left to the model-vs-code comparison)
		if reps, known, _ := w.specReplicas(f[1], f[2], f[4]); known && !hasDup(reps) {
			head = w.specHead(reps)
		} else if known {
			dupReps = true
		}
		it := w.pol.Pick(gocql.VerifQuery(ksName, rk))
		var got []*gocql.HostInfo
		for n := 0; n < limit; n++ {
			sh := it()
			if sh == nil {
				break
			}
			if sh.Info() == nil {
				return "crash:property violated on the real code: nil host offered"
			}
			got = append(got, sh.Info())
			if n > 500 {
				return "crash:property violated on the real code: the iterator does not end"
			}
		}
		// the property itself, evaluated on the real sequence: the replica phases (every pick) ...
		for i, h := range head {
			if i >= limit {
				break
			}
			if i >= len(got) || got[i] != h {
				return "crash:property violated on the real code: replicas not offered first, tier by tier: expected head=" +
					w.showIDs(head) + " offered=" + w.showIDs(got)
			}
		}
		// ... and on a full drain: only up hosts, every up host, no host twice
		if limit >= 1000 {
			if v := w.oracle(got, len(head), dupReps); v != "" {
				return "crash:property violated on the real code: " + v + " offered=" + w.showIDs(got)
			}
		}
		return w.showIDs(got)
	case "race":
		return "ok"
	}
	return "bad-op"
}

// oracle checks the property itself on a fully drained sequence of the real iterator: only up hosts,
// every up host of the policy's lists, no host twice (token-aware: unless the replica list itself has a
// duplicate), and after the replica phases (the first nHead hosts) nearer tiers before farther ones
// (theorems C11_policy_all_states, C11_tokenaware_all_states).
func (w *world) oracle(got []*gocql.HostInfo, nHead int, dupReps bool) string {
	seen := map[*gocql.HostInfo]int{}
	for _, h := range got {
		if !h.IsUp() {
			return "down host offered"
		}
		seen[h]++
	}
	layers, _, _ := gocql.VerifPolicyLists(w.pol)
	for _, l := range layers {
		for _, h := range l {
			if h != nil && h.IsUp() && seen[h] == 0 {
				return "up host not offered"
			}
		}
	}
	if !dupReps {
		for _, n := range seen {
			if n > 1 {
				return "host offered twice"
			}
		}
		for i := nHead + 1; i < len(got); i++ {
			if w.tier(got[i-1]) > w.tier(got[i]) {
				return "farther tier offered before a nearer one after the replica phases"
			}
		}
	}
	return ""
}

func newTA(fb gocql.HostSelectionPolicy, shuffle, nonlocal bool) gocql.HostSelectionPolicy {
	switch {
	case shuffle && nonlocal:
		return gocql.TokenAwareHostPolicy(fb, gocql.ShuffleReplicas(), gocql.NonLocalReplicasFallback())
	case shuffle:
		return gocql.TokenAwareHostPolicy(fb, gocql.ShuffleReplicas())
	case nonlocal:
		return gocql.TokenAwareHostPolicy(fb, gocql.NonLocalReplicasFallback())
	}
	return gocql.TokenAwareHostPolicy(fb)
}

// the permutation string of an op line determines the seed: seeds are small numbers so that a
// replay (which only sees the op line) can find the seed again.
var seedOf map[string]int64

const seedSpace = 2048

func findSeed(perms string) (int64, bool) {
	if seedOf == nil {
		seedOf = map[string]int64{}
		for s := int64(0); s < seedSpace; s++ {
			seedOf[permsFor(s)] = s
		}
	}
	s, ok := seedOf[perms]
	return s, ok
}

// ---------------------------------------------------------------- generation

type gen struct {
	r   *vh.Rng
	out *vh.Out
	w   *world
	// generator-side knowledge for the distribution
	kind            string
	ta, nonlocal    bool
	n               int
	dist            map[string]int
	ldc, lrack      int
	hostDC, hostRck map[int]int
}

func (g *gen) emit(op, class string, nontrivial bool) string {
	a := g.w.exec(op)
	g.out.Case(op, a, class, nontrivial)
	return a
}

func (g *gen) scenario(maxHosts, nOps int) {
	r := g.r
	g.kind = []string{"rr", "dc", "rack"}[r.Intn(3)]
	g.ta = r.Intn(3) != 0
	shuffle := g.ta && r.Intn(3) == 0
	g.nonlocal = g.ta && r.Bool()
	partSet := r.Intn(8) != 0
	g.ldc, g.lrack = r.Intn(2), r.Intn(2)
	b := func(x bool) string {
		if x {
			return "1"
		}
		return "0"
	}
	g.emit(fmt.Sprintf("reset %s %s %d %d %s %s %s", g.kind, b(g.ta), g.ldc, g.lrack, b(shuffle), b(g.nonlocal), b(partSet)), "reset/"+g.kind+"/ta"+b(g.ta), false)
	g.n = 1 + r.Intn(maxHosts)
	usedTok := map[int]bool{}
	ndc := 1 + r.Intn(3)
	nrack := 1 + r.Intn(3)
	for id := 1; id <= g.n; id++ {
		addr := id
		if id > 1 && r.Intn(10) == 0 {
			addr = 1 + r.Intn(id-1) // a second object with the address of an earlier one
		}
		var toks []string
		for k := r.Intn(3); k > 0; k-- {
			t := r.Intn(600)*16 + id
			if !usedTok[t] {
				usedTok[t] = true
				toks = append(toks, strconv.Itoa(t))
			}
		}
		ts := "-"
		if len(toks) > 0 {
			ts = strings.Join(toks, ",")
		}
		g.emit(fmt.Sprintf("host %d %d %d %d %s", id, addr, r.Intn(ndc), r.Intn(nrack), ts), "host", false)
	}
	// most scenarios start with most hosts added
	if r.Intn(5) != 0 {
		for id := 1; id <= g.n; id++ {
			if r.Intn(6) != 0 {
				g.emit(fmt.Sprintf("add %d", id), "add", true)
			}
		}
	}
	if g.ta && r.Intn(4) != 0 {
		g.repl()
	}
	for i := 0; i < nOps; i++ {
		id := 1 + r.Intn(g.n)
		switch x := r.Intn(100); {
		case x < 8:
			g.emit(fmt.Sprintf("add %d", id), "add", true)
		case x < 14:
			g.emit(fmt.Sprintf("remove %d", id), "remove", true)
		case x < 19:
			g.emit(fmt.Sprintf("hup %d", id), "hup", true)
		case x < 24:
			g.emit(fmt.Sprintf("hdown %d", id), "hdown", true)
		case x < 36:
			g.emit(fmt.Sprintf("state %d %d", id, r.Intn(2)), "state", false)
		case x < 42:
			if g.ta {
				g.repl()
			}
		default:
			g.pick()
		}
	}
}

func (g *gen) repl() {
	r := g.r
	nt := 1 + r.Intn(4)
	seen := map[int]bool{}
	var parts []string
	for i := 0; i < nt; i++ {
		t := r.Intn(9999)
		if seen[t] {
			continue
		}
		seen[t] = true
		k := r.Intn(5)
		var ids []string
		for j := 0; j < k; j++ {
			ids = append(ids, strconv.Itoa(1+r.Intn(g.n)))
		}
		if r.Intn(6) != 0 { // mostly without duplicates
			ids = dedup(ids)
		}
		l := "-"
		if len(ids) > 0 {
			l = strings.Join(ids, ",")
		}
		parts = append(parts, fmt.Sprintf("%d:%s", t, l))
	}
	g.emit(fmt.Sprintf("repl %d %s", r.Intn(2), strings.Join(parts, " ")), "repl", false)
}

func dedup(l []string) []string {
	seen := map[string]bool{}
	var out []string
	for _, x := range l {
		if !seen[x] {
			seen[x] = true
			out = append(out, x)
		}
	}
	return out
}

func (g *gen) pick() {
	r := g.r
	ks, tk := "-", "-"
	if r.Intn(5) != 0 {
		ks = strconv.Itoa(r.Intn(3))
		tk = strconv.Itoa(r.Intn(10000))
	}
	limit := 1000
	if r.Intn(4) == 0 {
		limit = r.Intn(6)
	}
	perms := "-"
	if g.w.shuf {
		perms = permsFor(int64(r.Intn(seedSpace)))
	}
	cls := "pick/" + g.kind
	if g.ta {
		cls += "/ta"
	} else {
		cls += "/plain"
	}
	if ks == "-" {
		cls += "/nokey"
	} else {
		cls += "/key"
	}
	if limit < 1000 {
		cls += "/limited"
	}
	// the states of the two fixed findings, counted in the distribution
	if reps, known, empty := g.w.specReplicas(ks, tk, perms); empty {
		cls += "/emptyring"
	} else if known && g.w.hasGap(reps) {
		cls += "/tiergap"
		if hasDup(reps) {
			cls += "-dup"
		}
	}
	g.emit(fmt.Sprintf("pick %s %s %d %s", ks, tk, limit, perms), cls, true)
}

// exhaustive small scope (thorough): token-aware over every fallback kind, with and without non-local
// fallback, 4 hosts with every assignment of (dc, rack) in {(0,0),(0,1),(1,0)}, every up/down pattern,
// every replica list of at most 2 distinct hosts; full drain of one pick each; plus, per up/down pattern,
// a pick on a keyspace without replica table (empty token ring: the state of the fixed finding KF-C11-2).
func exhaustive(g *gen) {
	places := [][2]int{{0, 0}, {0, 1}, {1, 0}}
	var repls []string
	repls = append(repls, "-")
	for a := 1; a <= 4; a++ {
		repls = append(repls, strconv.Itoa(a))
		for b := 1; b <= 4; b++ {
			if a != b {
				repls = append(repls, fmt.Sprintf("%d,%d", a, b))
			}
		}
	}
	for _, kind := range []string{"rr", "dc", "rack"} {
		for nl := 0; nl < 2; nl++ {
			for asg := 0; asg < 81; asg++ {
				g.emit(fmt.Sprintf("reset %s 1 0 0 0 %d 1", kind, nl), "exh/reset", false)
				x := asg
				for id := 1; id <= 4; id++ {
					pl := places[x%3]
					x /= 3
					g.emit(fmt.Sprintf("host %d %d %d %d -", id, id, pl[0], pl[1]), "exh/host", false)
					g.emit(fmt.Sprintf("add %d", id), "exh/add", false)
				}
				for pat := 0; pat < 16; pat++ {
					for id := 1; id <= 4; id++ {
						g.emit(fmt.Sprintf("state %d %d", id, (pat>>(id-1))&1), "exh/state", false)
					}
					for _, rp := range repls {
						g.emit("repl 0 500:"+rp, "exh/repl", false)
						g.emit("pick 0 100 1000 -", "exh/pick/"+kind, true)
					}
					// keyspace without replica table, no host has tokens: the empty-ring state of KF-C11-2
					g.emit("pick 1 100 1000 -", "exh/pick/"+kind+"/emptyring", true)
					g.emit("pick 1 100 1 -", "exh/pick/"+kind+"/emptyring", true)
				}
			}
		}
	}
}

var raceNil, racePanics int64

// raceRun: picks run concurrently with add/remove/up/down/state changes on the real policy
// (meaningful under -race): no panic, no nil host, every drain terminates.
func raceRun(r *vh.Rng, rounds int) string {
	for round := 0; round < rounds; round++ {
		kind := []string{"rr", "dc", "rack"}[r.Intn(3)]
		w := &world{}
		w.exec(fmt.Sprintf("reset %s 1 0 0 %d %d 1", kind, r.Intn(2), r.Intn(2)))
		n := 8
		for id := 1; id <= n; id++ {
			w.exec(fmt.Sprintf("host %d %d %d %d %d,%d", id, id, id%2, id%3, id*16, 5000+id*16))
			w.exec(fmt.Sprintf("add %d", id))
		}
		w.exec("repl 0 100:1,2,3 2000:4,5,6 6000:7,8,1")
		var wg, wgM sync.WaitGroup
		stop := int32(0)
		for p := 0; p < 4; p++ {
			wg.Add(1)
			seed := r.U64()
			go func() {
				defer wg.Done()
				defer func() {
					if rec := recover(); rec != nil {
						atomic.AddInt64(&racePanics, 1)
					}
				}()
				lr := vh.NewRng(seed)
				for atomic.LoadInt32(&stop) == 0 {
					var rk []byte
					if lr.Intn(4) != 0 {
						rk = []byte(tok(lr.Intn(10000)))
					}
					it := w.pol.Pick(gocql.VerifQuery("ks0", rk))
					for k := 0; k < 100; k++ {
						sh := it()
						if sh == nil {
							break
						}
						if sh.Info() == nil {
							atomic.AddInt64(&raceNil, 1)
						}
						if k == 99 {
							atomic.AddInt64(&raceNil, 1)
						}
					}
				}
			}()
		}
		for m := 0; m < 2; m++ {
			wgM.Add(1)
			seed := r.U64()
			go func() {
				defer wgM.Done()
				defer func() {
					if rec := recover(); rec != nil {
						atomic.AddInt64(&racePanics, 1)
					}
				}()
				lr := vh.NewRng(seed)
				for i := 0; i < 300; i++ {
					h := w.hosts[1+lr.Intn(n)]
					switch lr.Intn(5) {
					case 0:
						w.pol.AddHost(h)
					case 1:
						w.pol.RemoveHost(h)
					case 2:
						w.pol.HostUp(h)
					case 3:
						w.pol.HostDown(h)
					default:
						gocql.VerifSetHostUp(h, lr.Bool())
					}
				}
			}()
		}
		wgM.Wait()
		atomic.StoreInt32(&stop, 1)
		wg.Wait()
	}
	if racePanics != 0 || raceNil != 0 {
		return fmt.Sprintf("crash:race panics=%d nil-or-endless=%d", racePanics, raceNil)
	}
	return "ok"
}

func main() {
	mode, tier, path := vh.Args()
	if mode == "replay" {
		w := &world{}
		for _, l := range vh.ReadLines(path) {
			fmt.Println(w.exec(l))
		}
		return
	}
	r := vh.NewRng(vh.EnvSeed())
	out := vh.NewOut(path)
	g := &gen{r: r, out: out, w: &world{}}
	scen := 400
	if tier == "thorough" {
		scen = 400 * 30
	}
	for i := 0; i < scen; i++ {
		switch {
		case i%10 == 0:
			g.scenario(3, 15+r.Intn(20)) // tiny clusters
		case i%10 == 1:
			g.scenario(14, 40+r.Intn(60))
		default:
			g.scenario(8, 20+r.Intn(40))
		}
	}
	extra := map[string]interface{}{}
	if tier == "thorough" {
		exhaustive(g)
		res := raceRun(r, 40)
		out.Case("race 40", res, "race", false)
		extra["race_rounds"] = 40
	}
	out.Close(extra)
}
