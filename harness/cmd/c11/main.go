// Harness for C11 (host selection policies): drives the REAL gocql policies through their public
// API (AddHost / RemoveHost / HostUp / HostDown / Pick + the returned NextHost iterator) on generated
// cluster states and writes op lines + the implementation's answers for comparison with the Lean model.
package main

import (
	"fmt"
	"math/rand"
	"net"
	"os"
	"runtime"
	"sort"
	"strconv"
	"strings"
	"sync"
	"sync/atomic"
	"time"

	"github.com/gocql/gocql"
	"verifharness/vh"
)

type world struct {
	pol   gocql.HostSelectionPolicy
	isTA  bool
	shuf  bool
	hosts map[int]*gocql.HostInfo
	ids   map[*gocql.HostInfo]int
	// what the harness itself knows about the scenario (for the specification of the replica phases;
	// nothing here is read back from the policy under test except its host list)
	kind       string
	ldc, lrack string
	nonlocal   bool
	partSet    bool
	attrs      map[*gocql.HostInfo]hostAttr
	tables     map[string][]tabEntry
	// the HISTORY of notifier calls per host id (from the op lines alone): the property's own definition of
	// "a host the policy knows and that is up" (Lean: Policies.statusOf / Status.expected)
	hist     map[int]*hstat
	tableDup map[string]bool
	// hot: the rotation counter was preset into the region of the known finding KF-C11-3 (>= 2^63-4096)
	hot bool
	// the previous pick, if it was a full drain handed to the round-robin policy as it is and nothing
	// happened since (rotation of the starting host between successive picks)
	lastPlain []*gocql.HostInfo
	// third round: session keyspace + keyspace metadata (tables recomputed by the code itself), live iterators,
	// concurrent bursts
	sessKs string            // "" = a keyspace no query names
	ksMeta map[string]string // keyspace -> "local" | replication factor of SimpleStrategy (absent: unknown keyspace)
	// held: the keyspaces the policy holds a replica table for (possibly an empty one) - by the op lines: installed by a
	// `repl` line or computed by updateReplicas with a usable strategy; these are the keyspaces the repaired code
	// (KF-C10-4: updateAllReplicas) recomputes on every change of the policy's host list, besides the session keyspace
	held map[string]bool
	// inj: the keyspaces whose CURRENT table was installed by a `repl` line (hook, not the code's path) and has not been
	// recomputed by the policy since
	inj     map[string]bool
	own     map[string]bool // (w-s11f) keyspaces whose table is observed on the policy (NetworkTopologyStrategy): computed by the code itself
	slots   map[int]*slot
	epoch   int          // number of mutating ops so far
	taint   map[int]bool // hosts with non-commuting concurrent calls not yet settled by a sequential add/remove
	pending []burstCall  // the burst waiting for its `settle` line
	mutLog  []mutRec     // which host every notifier call was about (by epoch)
	// a call of a burst panicked or never returned (it may hold the policy's locks): the policy is not used any more
	poisoned bool
	// (seventh round) HOST IDENTITY: the history per LIST KEY. The lists of the policies identify a host by its connect
	// address (cowHostList.add: HostInfo.Equal = same object or same address; cowHostList.remove: the address), the
	// round-robin based policies keep one list per tier: the key of a host object is (tier, address) there and the
	// address in the token-aware policy's own list. From the op lines alone: kst = known / last call per key (calls
	// about ANY object with that key), kown = the object that stands for the key (the first one AddHost / HostUp put
	// there since the key was last freed by RemoveHost / HostDown), town = the token-aware policy's own list
	// (AddHost of an object whose address no listed object has appends, RemoveHost frees the address). Lean:
	// Policies.keyStatus / ownerOf (C11_identity_history_exact_partial).
	kst  map[string]*hstat
	kown map[string]int
	town []int
}

type mutRec struct{ epoch, id int }

// slot: one live iterator (op `open`)
type slot struct {
	it      gocql.NextHost
	given   []*gocql.HostInfo
	head    []*gocql.HostInfo // specified replica head (nil: replica list with duplicates)
	headAny []*gocql.HostInfo
	reps    []*gocql.HostInfo
	known   bool // the query has a replica list
	fresh   bool
	dupReps bool
	epoch   int
	ended   bool
	broken  bool
	expOpen map[int]bool // the hosts the history expected when the iterator was created
	// (w-s11f) the state of a host object changed during the life of the iterator (the iterator reads it at every call)
	stch      bool
	stTouched map[int]bool
}

type burstCall struct {
	call string
	id   int
}

type hstat struct {
	known bool
	last  string // "", add, remove, hup, hdown
}

func (w *world) stat(id int) hstat {
	if st, ok := w.hist[id]; ok {
		return *st
	}
	return hstat{}
}

// expected: the property's words - added and not removed since; up unless the last notifier call was
// HostDown; HostInfo state up.
func (st hstat) expected(isUp bool) bool { return st.known && st.last != "hdown" && isUp }

// ghost: HostUp for a host that is not known (excluded condition of KF-C11-4)
func (st hstat) ghost() bool { return !st.known && st.last == "hup" }

func (w *world) record(ev string, id int) {
	st, ok := w.hist[id]
	if !ok {
		st = &hstat{}
		w.hist[id] = st
	}
	switch ev {
	case "add":
		st.known = true
	case "remove":
		st.known = false
	}
	st.last = ev
	h, ok := w.hosts[id]
	if !ok {
		return
	}
	// the same per list key
	k := w.key(h)
	ks, ok := w.kst[k]
	if !ok {
		ks = &hstat{}
		w.kst[k] = ks
	}
	switch ev {
	case "add":
		ks.known = true
	case "remove":
		ks.known = false
	}
	ks.last = ev
	switch ev {
	case "add", "hup":
		if _, taken := w.kown[k]; !taken {
			w.kown[k] = id
		}
	default:
		delete(w.kown, k)
	}
	// the token-aware policy's own list: keyed by address alone, changed by AddHost / RemoveHost only
	a := h.ConnectAddress().String()
	switch ev {
	case "add":
		taken := false
		for _, x := range w.town {
			if w.hosts[x].ConnectAddress().String() == a {
				taken = true
			}
		}
		if !taken {
			w.town = append(w.town, id)
		}
	case "remove":
		var keep []int
		for _, x := range w.town {
			if w.hosts[x].ConnectAddress().String() != a {
				keep = append(keep, x)
			}
		}
		w.town = keep
	}
}

// key: the identity the lists of the round-robin based policies give a host object: its tier (one list per tier)
// and its connect address
func (w *world) key(h *gocql.HostInfo) string {
	return strconv.Itoa(w.tier(h)) + "/" + h.ConnectAddress().String()
}

// owner: the host object is the one that stands for its key in the policy's lists, by the history
func (w *world) owner(h *gocql.HostInfo) bool {
	id, ok := w.kown[w.key(h)]
	return ok && w.hosts[id] == h
}

func (w *world) kstat(h *gocql.HostInfo) hstat {
	if st, ok := w.kst[w.key(h)]; ok {
		return *st
	}
	return hstat{}
}

// alias: two defined host objects share a connect address (the lists identify hosts by address; the
// history oracle assumes one object per address)
func (w *world) alias() bool {
	seen := map[string]bool{}
	for _, h := range w.hosts {
		a := h.ConnectAddress().String()
		if seen[a] {
			return true
		}
		seen[a] = true
	}
	return false
}

func (w *world) sortedIDs() []int {
	ids := make([]int, 0, len(w.hosts))
	for id := range w.hosts {
		ids = append(ids, id)
	}
	sort.Ints(ids)
	return ids
}

// tablesHaveDup: some replica table installed by a `repl` line (whether or not the policy took it) has a
// replica list with a duplicate
func (w *world) tablesHaveDup() bool {
	for _, d := range w.tableDup {
		if d {
			return true
		}
	}
	return false
}

type hostAttr struct {
	dc, rack string
	toks     []int
}

type tabEntry struct {
	tok   int
	hosts []*gocql.HostInfo
}

// tier of a host as the property defines it: local rack / local DC / remote DC for the rack-aware
// policy, local / remote DC for the dc-aware one, one tier for round-robin.
func (w *world) tier(h *gocql.HostInfo) int {
	a := w.attrs[h]
	switch w.kind {
	case "rr":
		return 0
	case "dc":
		if a.dc == w.ldc {
			return 0
		}
		return 1
	}
	if a.dc != w.ldc {
		return 2
	}
	if a.rack == w.lrack {
		return 0
	}
	return 1
}

func (w *world) maxTier() int {
	if w.kind == "rack" {
		return 2
	}
	return 1
}

// specReplicas: the replica list of the query (keyspace table entry of the first token >= tok, wrapping;
// without a table the owner of the token in the ring of the policy's hosts), shuffled with the
// permutation of the op line. known=false: the query has no replica list (no key, no ring, empty ring).
func (w *world) specReplicas(ks string, tokS string, perms string) (reps []*gocql.HostInfo, known bool, emptyRing bool) {
	if !w.isTA || !w.partSet || ks == "-" || tokS == "-" {
		return nil, false, false
	}
	t := atoi(tokS)
	if tab := w.tables["ks"+ks]; len(tab) > 0 {
		e := tab[0]
		for _, x := range tab {
			if x.tok >= t {
				e = x
				break
			}
		}
		reps = e.hosts
		if w.shuf && perms != "-" {
			for _, ps := range strings.Split(perms, ";") {
				p := intList(ps)
				if len(p) == len(reps) {
					out := make([]*gocql.HostInfo, len(reps))
					for i, j := range p {
						out[i] = reps[j]
					}
					reps = out
					break
				}
			}
		}
		return reps, true, false
	}
	taHosts := w.taHostsSpec()
	var owner, first *gocql.HostInfo
	best, lo := -1, -1
	for _, h := range taHosts {
		for _, ht := range w.attrs[h].toks {
			if lo < 0 || ht < lo {
				lo, first = ht, h
			}
			if ht >= t && (best < 0 || ht < best) {
				best, owner = ht, h
			}
		}
	}
	if owner == nil {
		owner = first
	}
	if owner == nil {
		return nil, false, true
	}
	return []*gocql.HostInfo{owner}, true, false
}

// taHostsSpec: the token-aware policy's own list = the hosts added and not removed since (history); with two
// host objects on one address: the history per ADDRESS (w.town: the first object added on an address since the
// address was last removed)
func (w *world) taHostsSpec() []*gocql.HostInfo {
	var taHosts []*gocql.HostInfo
	if w.alias() {
		// (seventh round) by the history per address, not read back from the policy
		for _, id := range w.town {
			taHosts = append(taHosts, w.hosts[id])
		}
		return taHosts
	}
	for _, id := range w.sortedIDs() {
		if w.stat(id).known {
			taHosts = append(taHosts, w.hosts[id])
		}
	}
	return taHosts
}

// specFresh: the replica list of a query on keyspace ks is guaranteed fresh - it comes from the token ring
// (no table) or from a table the policy computed itself: after the repair of KF-C10-4 AddHost / RemoveHost
// recompute the table of EVERY held keyspace. Not fresh: a table a `repl` line installed (hook) that the policy
// has not recomputed since.
func (w *world) specFresh(ks string) bool {
	if ks == "-" {
		return true
	}
	return len(w.tables["ks"+ks]) == 0 || !w.inj["ks"+ks]
}

// specRefreshAll: what updateAllReplicas must produce - the session keyspace and every other held keyspace
// recomputed from the hosts the history knows (a keyspace that is unknown / has no usable strategy loses its table
// and is no longer held)
func (w *world) specRefreshAll() {
	if !w.isTA || !w.partSet {
		return
	}
	var keys []string
	for ks := range w.held {
		if ks != w.sessKs {
			keys = append(keys, ks)
		}
	}
	sort.Strings(keys)
	if w.sessKs != "" {
		keys = append([]string{w.sessKs}, keys...)
	}
	for _, ks := range keys {
		w.specRefresh(ks)
	}
}

// specRefresh: the harness' own SimpleStrategy placement (Cassandra: walk the ring clockwise from the token,
// the first rf distinct nodes) over the hosts the history knows - what updateReplicas(ks) must produce;
// no usable strategy / unknown keyspace: the keyspace has no table
func (w *world) specRefresh(ksName string) {
	if !w.isTA || !w.partSet {
		return
	}
	if m, ok := w.ksMeta[ksName]; ok && strings.HasPrefix(m, "nts:") {
		w.observeTable(ksName)
		return
	}
	delete(w.tables, ksName)
	delete(w.tableDup, ksName)
	delete(w.inj, ksName)
	delete(w.held, ksName)
	delete(w.own, ksName)
	m, ok := w.ksMeta[ksName]
	if !ok || m == "local" {
		return
	}
	w.held[ksName] = true
	rf := atoi(m)
	type rt struct {
		tok int
		h   *gocql.HostInfo
	}
	var ring []rt
	for _, h := range w.taHostsSpec() {
		for _, t := range w.attrs[h].toks {
			ring = append(ring, rt{t, h})
		}
	}
	sort.Slice(ring, func(i, j int) bool { return ring[i].tok < ring[j].tok })
	tab := make([]tabEntry, 0, len(ring))
	for i := range ring {
		var reps []*gocql.HostInfo
		for j := 0; j < len(ring) && len(reps) < rf; j++ {
			h := ring[(i+j)%len(ring)].h
			dup := false
			for _, x := range reps {
				if x == h {
					dup = true
				}
			}
			if !dup {
				reps = append(reps, h)
			}
		}
		tab = append(tab, tabEntry{tok: ring[i].tok, hosts: reps})
	}
	w.tables[ksName] = tab
	if len(tab) == 0 {
		// an empty table is held (w.held) but never consulted (replicasFor of an empty table is nil)
		delete(w.tables, ksName)
	}
}

// specHead: SPECIFICATION of the replica phases (Lean: Policies.specHead; the model's head is proved
// equal to it for every replica list, C11_tokenaware_remote_order): tier after tier, the up replicas of
// that tier in replica-list order; farther tiers only with NonLocalReplicasFallback.
func (w *world) specHead(reps []*gocql.HostInfo) []*gocql.HostInfo {
	last := 0
	if w.nonlocal {
		last = w.maxTier()
	}
	var head []*gocql.HostInfo
	for t := 0; t <= last; t++ {
		for _, h := range reps {
			if w.tier(h) == t && h.IsUp() {
				head = append(head, h)
			}
		}
	}
	return head
}

func hasDup(l []*gocql.HostInfo) bool {
	seen := map[*gocql.HostInfo]bool{}
	for _, h := range l {
		if seen[h] {
			return true
		}
		seen[h] = true
	}
	return false
}

// hasGap: a farther tier has a replica while a nearer remote tier has none (the state of KF-C11-1)
func (w *world) hasGap(reps []*gocql.HostInfo) bool {
	if !w.nonlocal {
		return false
	}
	cnt := make([]int, w.maxTier()+1)
	for _, h := range reps {
		cnt[w.tier(h)]++
	}
	for t := 1; t < len(cnt); t++ {
		if cnt[t] == 0 {
			for u := t + 1; u < len(cnt); u++ {
				if cnt[u] > 0 {
					return true
				}
			}
		}
	}
	return false
}

func tok(n int) string { return fmt.Sprintf("%04d", n) }

func atoi(s string) int {
	n, err := strconv.Atoi(s)
	if err != nil {
		panic("bad number " + s)
	}
	return n
}

func intList(s string) []int {
	if s == "-" {
		return nil
	}
	var out []int
	for _, p := range strings.Split(s, ",") {
		out = append(out, atoi(p))
	}
	return out
}

func (w *world) showIDs(l []*gocql.HostInfo) string {
	if len(l) == 0 {
		return "-"
	}
	parts := make([]string, len(l))
	for i, h := range l {
		if h == nil {
			parts[i] = "nil"
		} else if id, ok := w.ids[h]; ok {
			parts[i] = strconv.Itoa(id)
		} else {
			parts[i] = "?"
		}
	}
	return strings.Join(parts, ",")
}

func (w *world) snapshot() string {
	layers, taHosts, isTA := gocql.VerifPolicyLists(w.pol)
	for len(layers) < 3 {
		layers = append(layers, nil)
	}
	s := "L0=" + w.showIDs(layers[0]) + " L1=" + w.showIDs(layers[1]) + " L2=" + w.showIDs(layers[2])
	if isTA {
		s += " T=" + w.showIDs(taHosts)
	}
	return s
}

// permsFor computes, for every length 0..8, the permutation shuffleHosts applies when its
// generator was just seeded with `seed`.
func permsFor(seed int64) string {
	var parts []string
	for n := 0; n <= 8; n++ {
		r := rand.New(rand.NewSource(seed))
		idx := make([]int, n)
		for i := range idx {
			idx[i] = i
		}
		r.Shuffle(n, func(i, j int) { idx[i], idx[j] = idx[j], idx[i] })
		ss := make([]string, n)
		for i, v := range idx {
			ss[i] = strconv.Itoa(v)
		}
		if n == 0 {
			parts = append(parts, "-")
		} else {
			parts = append(parts, strings.Join(ss, ","))
		}
	}
	return strings.Join(parts, ";")
}

// VERIF_NO_ORACLE=1 (self-test of the spec-backed op only): the harness does not evaluate the history /
// rotation oracle itself, so that a breach shows up as a disagreement of `offer` with the specification's answer
var noOracle = os.Getenv("VERIF_NO_ORACLE") != ""

func (w *world) exec(op string) (res string) {
	defer func() {
		if r := recover(); r != nil {
			res = "crash:" + strings.ReplaceAll(fmt.Sprint(r), "\n", " ")
			if strings.Contains(res, "nil pointer dereference") {
				res = "crash:nil-host-dereference"
			}
			if strings.Contains(res, "index out of range") {
				res = "crash:index-out-of-range"
			}
			if os.Getenv("VERIF_DEBUG") != "" {
				fmt.Fprintf(os.Stderr, "crash on %q: %v\n", op, r)
			}
			// a notifier call that panicked may have left the list's mutex locked (cowHostList.add / remove unlock
			// without defer): the policy is not used any more (every later op of the scenario answers `poisoned`)
			if f := strings.Fields(op); len(f) > 0 && (f[0] == "add" || f[0] == "remove" || f[0] == "hup" || f[0] == "hdown") {
				w.poisoned = true
			}
		}
	}()
	f := strings.Fields(op)
	if len(f) == 0 {
		return "bad-op"
	}
	if w.poisoned && f[0] != "reset" && f[0] != "host" && f[0] != "hostp" {
		return "poisoned"
	}
	switch f[0] {
	case "reset":
		if len(f) != 8 {
			return "bad-op"
		}
		ldc, lrack := "dc"+f[3], "r"+f[4]
		var fb gocql.HostSelectionPolicy
		switch f[1] {
		case "rr":
			fb = gocql.RoundRobinHostPolicy()
		case "dc":
			fb = gocql.DCAwareRoundRobinPolicy(ldc)
		default:
			fb = gocql.RackAwareRoundRobinPolicy(ldc, lrack)
		}
		w.hosts = map[int]*gocql.HostInfo{}
		w.ids = map[*gocql.HostInfo]int{}
		w.isTA = f[2] == "1"
		w.shuf = f[5] == "1"
		w.kind, w.ldc, w.lrack = f[1], ldc, lrack
		if w.kind != "rr" && w.kind != "dc" {
			w.kind = "rack"
		}
		w.nonlocal = w.isTA && f[6] == "1"
		w.partSet = w.isTA && f[7] == "1"
		w.attrs = map[*gocql.HostInfo]hostAttr{}
		w.tables = map[string][]tabEntry{}
		w.hist = map[int]*hstat{}
		w.kst, w.kown, w.town = map[string]*hstat{}, map[string]int{}, nil
		w.tableDup = map[string]bool{}
		w.hot = false
		w.lastPlain = nil
		w.sessKs, w.ksMeta, w.held, w.inj = "", map[string]string{}, map[string]bool{}, map[string]bool{}
		w.own = map[string]bool{}
		w.slots, w.epoch, w.taint, w.pending, w.mutLog = map[int]*slot{}, 0, map[int]bool{}, nil, nil
		w.poisoned = false
		if w.isTA {
			w.pol = newTA(fb, f[5] == "1", f[6] == "1")
			gocql.VerifTAInit(w.pol, "verif_session_ks")
			gocql.VerifTAKeyspacesOpts(w.pol, "verif_session_ks", w.lookupKsOpts)
			if f[7] == "1" {
				w.pol.SetPartitioner("OrderedPartitioner")
			}
		} else {
			w.pol = fb
		}
		return "ok"
	case "host":
		if len(f) != 6 {
			return "bad-op"
		}
		id, a := atoi(f[1]), atoi(f[2])
		var toks []string
		for _, t := range intList(f[5]) {
			toks = append(toks, tok(t))
		}
		h := gocql.VerifNewHost(fmt.Sprintf("id-%d", id), net.IPv4(10, 0, byte(a>>8), byte(a)), "dc"+f[3], "r"+f[4], toks)
		if old, ok := w.hosts[id]; ok {
			delete(w.ids, old)
		}
		w.hosts[id] = h
		w.ids[h] = id
		w.attrs[h] = hostAttr{dc: "dc" + f[3], rack: "r" + f[4], toks: intList(f[5])}
		return "ok"
	case "hostp":
		// hostp <id> <hostid> <addr> <port> <dc> <rack> <tokens|->: a HostInfo object with an explicit host id and native port
		// (several nodes behind one connect address on different ports; a node that changes its address keeps its host id)
		if len(f) != 8 {
			return "bad-op"
		}
		id, a := atoi(f[1]), atoi(f[3])
		var toks []string
		for _, t := range intList(f[7]) {
			toks = append(toks, tok(t))
		}
		h := gocql.VerifNewHostPort(fmt.Sprintf("id-%d", atoi(f[2])), net.IPv4(10, 0, byte(a>>8), byte(a)), atoi(f[4]), "dc"+f[5], "r"+f[6], toks)
		if old, ok := w.hosts[id]; ok {
			delete(w.ids, old)
		}
		w.hosts[id] = h
		w.ids[h] = id
		w.attrs[h] = hostAttr{dc: "dc" + f[5], rack: "r" + f[6], toks: intList(f[7])}
		return "ok"
	case "add", "remove", "hup", "hdown":
		if len(f) != 2 {
			return "bad-op"
		}
		h, ok := w.hosts[atoi(f[1])]
		if !ok {
			return "bad-op"
		}
		w.lastPlain = nil
		w.epoch++
		w.mutLog = append(w.mutLog, mutRec{w.epoch, atoi(f[1])})
		w.call(f[0], atoi(f[1]), h)
		if f[0] == "add" || f[0] == "remove" {
			delete(w.taint, atoi(f[1]))
		}
		return w.snapshot()
	case "flap":
		// flap <id> <trials> <pickers> <updown|remadd>   (round 2) PICKS CONCURRENT WITH A HOST CHANGE, then a QUIESCENT re-check.
		// Every trial: a preparing notifier call about host <id> made in a quiet state (HostDown with the state set down /
		// RemoveHost), then the opposite call (HostUp / AddHost) released together with <pickers> goroutines that each make
		// ONE Pick (+ one iterator call) after a swept busy delay, so that Picks start before, inside and after the call;
		// when all have returned: a fresh iterator, drained, must offer exactly what the history expects (w.oracle).
		// remadd, odd trials: the racing call is RemoveHost (after a quiet RemoveHost + AddHost), re-added afterwards.
		if len(f) != 5 || w.alias() {
			return "bad-op"
		}
		h, ok := w.hosts[atoi(f[1])]
		T, K := atoi(f[2]), atoi(f[3])
		if !ok || T < 1 || T > 100000 || K < 1 || K > 32 || (f[4] != "updown" && f[4] != "remadd") {
			return "bad-op"
		}
		id := atoi(f[1])
		w.lastPlain = nil
		w.epoch++
		w.mutLog = append(w.mutLog, mutRec{w.epoch, id})
		return w.flap(id, h, T, K, f[4] == "updown")
	case "kstab":
		// kstab <ks> none|empty|<tok>:<ids> ...   (w-s11f) the table the policy holds NOW for a NetworkTopologyStrategy keyspace
		// (the line is generated from the observation; the model adopts it - placement is C10's subject)
		if len(f) < 3 || !w.isTA {
			return "bad-op"
		}
		w.epoch++
		w.lastPlain = nil
		w.observeTable("ks" + f[1])
		if got := w.showObserved("ks" + f[1]); got != strings.Join(f[2:], " ") {
			return "differs:" + got
		}
		return "ok"
	case "setpart":
		// setpart: SetPartitioner("OrderedPartitioner") - the partitioner becomes known AFTER hosts / keyspaces (a second
		// call with the same name changes nothing); the round-robin based policies ignore it
		if len(f) != 1 {
			return "bad-op"
		}
		w.epoch++
		w.lastPlain = nil
		w.pol.SetPartitioner("OrderedPartitioner")
		if w.isTA && !w.partSet {
			w.partSet = true
			w.specRefreshAll()
		}
		return "ok"
	case "islocal":
		// islocal <id>: IsLocal(host) [HostTier(host)/MaxHostTier() for a HostTierer] - the tier function the token-aware
		// policy sorts the replicas by
		if len(f) != 2 {
			return "bad-op"
		}
		h, ok := w.hosts[atoi(f[1])]
		if !ok {
			return "bad-op"
		}
		res := b01(w.pol.IsLocal(h))
		var inner interface{} = w.pol
		if w.isTA {
			inner = gocql.VerifTAFallback(w.pol)
		}
		if ht, ok := inner.(gocql.HostTierer); ok {
			res += fmt.Sprintf(" %d/%d", ht.HostTier(h), ht.MaxHostTier())
		}
		// the harness' own tier function (from the op lines): nearest tier <=> local
		if (w.tier(h) == 0) != w.pol.IsLocal(h) {
			return "crash:property violated on the real code: IsLocal disagrees with the tier of the host: " + res
		}
		return res
	case "addhosts":
		// addhosts <id,id,...>: what Session.init does with the hosts of the first ring refresh - ONE call of AddHosts
		// if the policy has it (tokenAwareHostPolicy: every host into its own list, then ring + every held table
		// recomputed ONCE, unconditionally, then AddHost of the fallback policy per host), AddHost per host otherwise
		if len(f) != 2 || w.alias() {
			return "bad-op"
		}
		var hs []*gocql.HostInfo
		for _, id := range intList(f[1]) {
			h, ok := w.hosts[id]
			if !ok {
				return "bad-op"
			}
			hs = append(hs, h)
		}
		if len(hs) == 0 {
			return "bad-op"
		}
		w.lastPlain = nil
		w.epoch++
		for _, id := range intList(f[1]) {
			w.mutLog = append(w.mutLog, mutRec{w.epoch, id})
			w.record("add", id)
			delete(w.taint, id)
		}
		if v, ok := w.pol.(interface{ AddHosts([]*gocql.HostInfo) }); ok {
			v.AddHosts(hs)
		} else {
			for _, h := range hs {
				w.pol.AddHost(h)
			}
		}
		w.specRefreshAll()
		return w.snapshot()
	case "sessks":
		if len(f) != 2 {
			return "bad-op"
		}
		w.epoch++
		w.sessKs = "ks" + f[1]
		if w.isTA {
			gocql.VerifTAKeyspacesOpts(w.pol, w.sessKs, w.lookupKsOpts)
		}
		return "ok"
	case "ksmeta":
		if len(f) != 3 {
			return "bad-op"
		}
		w.epoch++
		if f[2] == "none" {
			delete(w.ksMeta, "ks"+f[1])
		} else {
			w.ksMeta["ks"+f[1]] = f[2]
		}
		return "ok"
	case "kschg":
		if len(f) != 2 {
			return "bad-op"
		}
		w.epoch++
		w.lastPlain = nil
		w.pol.KeyspaceChanged(gocql.KeyspaceUpdateEvent{Keyspace: "ks" + f[1], Change: "UPDATED"})
		w.specRefresh("ks" + f[1])
		return "ok"
	case "table":
		if len(f) != 2 {
			return "bad-op"
		}
		if !w.isTA {
			return "none"
		}
		toks, hs, ok := gocql.VerifTAReplicaTable(w.pol, "ks"+f[1])
		if !ok {
			return "none"
		}
		if len(toks) == 0 {
			return "empty"
		}
		parts := make([]string, len(toks))
		for i := range toks {
			parts[i] = strconv.Itoa(atoi(toks[i])) + ":" + w.showIDs(hs[i])
		}
		return strings.Join(parts, " ")
	case "state":
		h, ok := w.hosts[atoi(f[1])]
		if !ok {
			return "bad-op"
		}
		w.lastPlain = nil
		// (w-s11f) live iterators stay alive: they read the state of a host at the call that reaches it
		for _, sl := range w.slots {
			sl.stch = true
			if sl.stTouched == nil {
				sl.stTouched = map[int]bool{}
			}
			sl.stTouched[atoi(f[1])] = true
		}
		gocql.VerifSetHostUp(h, f[2] == "1")
		return "ok"
	case "ctr":
		if len(f) != 2 {
			return "bad-op"
		}
		n, err := strconv.ParseUint(f[1], 10, 64)
		if err != nil {
			return "bad-op"
		}
		w.lastPlain = nil
		w.epoch++
		if !gocql.VerifSetPickCount(w.pol, n) {
			return "crash:verif hook: the policy has no rotation counter named lastUsedHostIdx"
		}
		w.hot = n >= (1<<63)-4096
		return "ok"
	case "repl":
		w.lastPlain = nil
		w.epoch++
		var toks []string
		var hs [][]*gocql.HostInfo
		for _, e := range f[2:] {
			p := strings.SplitN(e, ":", 2)
			toks = append(toks, tok(atoi(p[0])))
			var l []*gocql.HostInfo
			for _, id := range intList(p[1]) {
				if h, ok := w.hosts[id]; ok {
					l = append(l, h)
				}
			}
			hs = append(hs, l)
		}
		w.tableDup["ks"+f[1]] = false
		for _, l := range hs {
			if hasDup(l) {
				w.tableDup["ks"+f[1]] = true
			}
		}
		if w.isTA {
			if gocql.VerifTASetReplicas(w.pol, "ks"+f[1], toks, hs) {
				w.held["ks"+f[1]] = true
				w.inj["ks"+f[1]] = true
				tab := make([]tabEntry, len(hs))
				for i := range hs {
					// the harness keeps its OWN copy of every replica list (the policy must not be able to change the specification)
					tab[i] = tabEntry{tok: atoi(strings.SplitN(f[2+i], ":", 2)[0]), hosts: append([]*gocql.HostInfo(nil), hs[i]...)}
				}
				sort.Slice(tab, func(i, j int) bool { return tab[i].tok < tab[j].tok })
				w.tables["ks"+f[1]] = tab
			}
		}
		return "ok"
	case "pick", "offer":
		// pick <ks|-> <tok|-> <limit> <perms|->      offer <ks|-> <tok|-> <perms|->  (= full drain, answer: sorted ids)
		isOffer := f[0] == "offer"
		if (isOffer && len(f) != 4) || (!isOffer && len(f) != 5) {
			return "bad-op"
		}
		limitS, perms := "1000", f[3]
		if !isOffer {
			limitS, perms = f[3], f[4]
		}
		// <ks> = nil: Pick(nil); <ks> = err: a query whose GetRoutingKey fails (on a keyspace WITH a table) - both are
		// handed to the fallback policy as they are, like a query without routing key
		qkind := ""
		if f[1] == "nil" || f[1] == "err" {
			qkind = f[1]
			f = append([]string(nil), f...)
			f[1], f[2] = "-", "-"
		}
		if isOffer && w.offerExcluded(f[1], f[2], perms) != "" {
			return "excluded"
		}
		fresh := w.specFresh(f[1])
		if w.own["ks"+f[1]] {
			fresh = true // a table the policy computed itself: a host it does not know is not excused in the head
		}
		var rk []byte
		if f[1] != "-" && f[2] != "-" {
			rk = []byte(tok(atoi(f[2])))
		}
		if perms != "-" {
			// the op line carries, for every replica-list length, the permutation the shuffle must
			// apply; seeds come from a small space so that the seed is recovered from the line.
			sd, ok := findSeed(perms)
			if !ok {
				return "bad-op"
			}
			gocql.VerifSeedShuffle(sd)
		}
		ksName := "ks" + f[1]
		limit := atoi(limitS)
		// the specified head is computed BEFORE the pick (state of the hosts as the iterator will see it)
		var head, headAny []*gocql.HostInfo
		dupReps := false
		// (a replica list with duplicates - the C10 defect's business, excluded from the uniqueness theorems -
		// is left to the model-vs-code comparison)
		reps, known, _ := w.specReplicas(f[1], f[2], perms)
		if known {
			headAny = w.specHead(reps)
			if !hasDup(reps) || w.own[ksName] {
				// (a duplicate in a table the policy computed ITSELF is not excused: the sequence is held to 'no host twice')
				head = headAny
			} else {
				dupReps = true
			}
		}
		prevPlain := w.lastPlain
		w.lastPlain = nil
		var qry gocql.ExecutableQuery = gocql.VerifQuery(ksName, rk)
		switch qkind {
		case "nil":
			qry = nil
		case "err":
			qry = gocql.VerifQueryErr("ks0", []byte(tok(0)))
		}
		it := w.pol.Pick(qry)
		var got []*gocql.HostInfo
		for n := 0; n < limit; n++ {
			sh := it()
			if sh == nil {
				break
			}
			if sh.Info() == nil {
				return "crash:property violated on the real code: nil host offered"
			}
			got = append(got, sh.Info())
			if n > 500 {
				return "crash:property violated on the real code: the iterator does not end"
			}
		}
		// the property itself, evaluated on the real sequence: the replica phases (every pick) ...
		if v := w.headViolation(head, got, limit, limit < 1000 && len(got) == limit); v != "" {
			return "crash:property violated on the real code: " + v
		}
		// ... and on a full drain: only up hosts, every up host, no host twice
		if limit >= 1000 && !noOracle {
			if v := w.oracle(got, len(head), dupReps, headAny, fresh); v != "" {
				return "crash:property violated on the real code: " + v + " offered=" + w.showIDs(got)
			}
			// ... and between two successive full drains handed to the round-robin policy as they are
			// (nothing else in between): the starting host of every tier has moved on by one
			if !known && !w.hot {
				if prevPlain != nil {
					if v := w.rotation(prevPlain, got); v != "" {
						return "crash:property violated on the real code: " + v + " previous=" + w.showIDs(prevPlain) + " offered=" + w.showIDs(got)
					}
				}
				w.lastPlain = got
			}
		}
		if isOffer {
			return w.sortedShow(got)
		}
		return w.showIDs(got)
	case "rotate":
		// rotate <ks|-> <tok|-> <m>: m successive Picks, each drained, nothing in between. SPEC-BACKED: per tier the
		// histogram "how often is this host the FIRST one offered from its tier (after the replica phases)" must be
		// balanced (Lean: Policies.tierBalanced; C11_rotation_balanced_partial proves it for the model): with n hosts
		// listed in the tier BY THE HISTORY (last call AddHost / HostUp) of which d cannot be offered (state down, or
		// offered by the replica phases), every other host of the tier is first at least floor(m/n) and at most
		// ceil(m/n)*(1+d) times - with d = 0 the same number of times +-1. Every drain is also checked like `offer`.
		if len(f) != 4 {
			return "bad-op"
		}
		m := atoi(f[3])
		if m < 0 || m > 100000 {
			return "bad-op"
		}
		reps, known, _ := w.specReplicas(f[1], f[2], "-")
		fresh := w.specFresh(f[1])
		if w.exclusion(reps, known, fresh) != "" {
			return "excluded"
		}
		var rk []byte
		if f[1] != "-" && f[2] != "-" {
			rk = []byte(tok(atoi(f[2])))
		}
		if w.shuf {
			gocql.VerifSeedShuffle(int64(m)) // the order inside the replica phases does not matter here; determinism does
		}
		var head []*gocql.HostInfo
		if known {
			head = w.specHead(reps)
		}
		inHead := map[*gocql.HostInfo]bool{}
		for _, h := range head {
			inHead[h] = true
		}
		var listed [3][]*gocql.HostInfo
		for _, id := range w.sortedIDs() {
			if st := w.stat(id); st.last == "add" || st.last == "hup" {
				h := w.hosts[id]
				listed[w.tier(h)] = append(listed[w.tier(h)], h)
			}
		}
		hits := map[*gocql.HostInfo]int{}
		var prev []*gocql.HostInfo
		w.lastPlain = nil
		for p := 0; p < m; p++ {
			it := w.pol.Pick(gocql.VerifQuery("ks"+f[1], rk))
			var got []*gocql.HostInfo
			for {
				sh := it()
				if sh == nil {
					break
				}
				if sh.Info() == nil {
					return "crash:property violated on the real code: nil host offered"
				}
				got = append(got, sh.Info())
				if len(got) > 500 {
					return "crash:property violated on the real code: the iterator does not end"
				}
			}
			if !noOracle {
				if v := w.headViolation(head, got, 1000, false); v != "" {
					return "crash:property violated on the real code: " + v
				}
				if v := w.oracle(got, len(head), false, head, fresh); v != "" {
					return "crash:property violated on the real code: " + v + " offered=" + w.showIDs(got)
				}
				if !known && prev != nil {
					if v := w.rotation(prev, got); v != "" {
						return "crash:property violated on the real code: " + v + " previous=" + w.showIDs(prev) + " offered=" + w.showIDs(got)
					}
				}
			}
			prev = got
			rest := got
			if len(head) <= len(got) {
				rest = got[len(head):]
			}
			var seenTier [3]bool
			for _, h := range rest {
				if t := w.tier(h); !seenTier[t] {
					seenTier[t] = true
					hits[h]++
				}
			}
		}
		for t := 0; t < 3; t++ {
			n := len(listed[t])
			if n == 0 {
				continue
			}
			d := 0
			for _, h := range listed[t] {
				if !h.IsUp() || inHead[h] {
					d++
				}
			}
			lo, hi := m/n, (m+n-1)/n*(1+d)
			for _, h := range listed[t] {
				if h.IsUp() && !inHead[h] && (hits[h] < lo || hits[h] > hi) {
					if os.Getenv("VERIF_DEBUG") != "" {
						fmt.Fprintf(os.Stderr, "rotate: tier %d host %d first %d times in %d picks, expected %d..%d (n=%d d=%d)\n", t, w.ids[h], hits[h], m, lo, hi, n, d)
					}
					return fmt.Sprintf("skewed:%d", t)
				}
			}
		}
		return "balanced"
	case "open":
		// open <slot> <ks|-> <tok|-> <perms|->
		if len(f) != 5 {
			return "bad-op"
		}
		perms := f[4]
		var rk []byte
		if f[2] != "-" && f[3] != "-" {
			rk = []byte(tok(atoi(f[3])))
		}
		if perms != "-" {
			sd, ok := findSeed(perms)
			if !ok {
				return "bad-op"
			}
			gocql.VerifSeedShuffle(sd)
		}
		sl := &slot{epoch: w.epoch, fresh: w.specFresh(f[2]) || w.own["ks"+f[2]]}
		sl.reps, sl.known, _ = w.specReplicas(f[2], f[3], perms)
		if sl.known {
			sl.headAny = w.specHead(sl.reps)
			if !hasDup(sl.reps) || w.own["ks"+f[2]] {
				sl.head = sl.headAny
			} else {
				sl.dupReps = true
			}
		}
		sl.expOpen = map[int]bool{}
		for id, h := range w.hosts {
			if w.stat(id).expected(h.IsUp()) {
				sl.expOpen[id] = true
			}
		}
		w.lastPlain = nil
		sl.it = w.pol.Pick(gocql.VerifQuery("ks"+f[2], rk))
		w.slots[atoi(f[1])] = sl
		return "ok"
	case "next", "offerit":
		// next <slot> <n>        offerit <slot>
		isOffer := f[0] == "offerit"
		if (isOffer && len(f) != 2) || (!isOffer && len(f) != 3) {
			return "bad-op"
		}
		sl, ok := w.slots[atoi(f[1])]
		if !ok || sl.broken {
			return "bad-op"
		}
		n := 1000
		if !isOffer {
			n = atoi(f[2])
		} else if w.slotExcluded(sl) != "" {
			return "excluded"
		}
		w.lastPlain = nil
		sl.broken = true // stays so if a call panics
		var got []*gocql.HostInfo
		ended := false
		for k := 0; k < n; k++ {
			sh := sl.it()
			if sh == nil {
				ended = true
				break
			}
			if sh.Info() == nil {
				return "crash:property violated on the real code: nil host offered"
			}
			got = append(got, sh.Info())
			sl.given = append(sl.given, sh.Info())
			if len(sl.given) > 500 {
				return "crash:property violated on the real code: the iterator does not end"
			}
		}
		sl.broken = false
		sl.ended = sl.ended || ended
		// the property, evaluated on what THIS iterator has offered since its Pick - whatever other iterators did meanwhile
		if !noOracle {
			if !sl.dupReps {
				seen := map[*gocql.HostInfo]bool{}
				for _, h := range sl.given {
					if seen[h] {
						return fmt.Sprintf("crash:property violated on the real code: host %d offered twice by one iterator: offered=%s", w.ids[h], w.showIDs(sl.given))
					}
					seen[h] = true
				}
			}
			for _, h := range got {
				if !h.IsUp() {
					return "crash:property violated on the real code: down host offered"
				}
			}
			// (the specified head and the history oracle are stated for the host states at the Pick: not after a state change)
			if !sl.stch {
				if v := w.headViolation(sl.head, sl.given, 1000, !sl.ended); v != "" {
					return "crash:property violated on the real code: " + v
				}
			}
			if sl.ended && sl.epoch == w.epoch && !sl.stch {
				if v := w.oracle(sl.given, len(sl.head), sl.dupReps, sl.headAny, sl.fresh); v != "" {
					return "crash:property violated on the real code: " + v + " offered=" + w.showIDs(sl.given)
				}
			}
			if sl.ended && (sl.epoch != w.epoch || sl.stch) && !w.alias() && !w.hot {
				// topology calls happened during the life of the iterator: a host that the history expected when the iterator
				// was created, still expects, and that no call was about in between, must have been offered
				touched := map[int]bool{}
				for _, m := range w.mutLog {
					if m.epoch > sl.epoch {
						touched[m.id] = true
					}
				}
				seen := map[*gocql.HostInfo]bool{}
				for _, h := range sl.given {
					seen[h] = true
				}
				for _, id := range w.sortedIDs() {
					h := w.hosts[id]
					if sl.expOpen[id] && !touched[id] && !sl.stTouched[id] && !w.taint[id] && w.stat(id).expected(h.IsUp()) && !seen[h] {
						return fmt.Sprintf("crash:property violated on the real code: host %d was known and up during the whole life of the iterator (no call about it) but is not offered: offered=%s", id, w.showIDs(sl.given))
					}
				}
			}
		}
		if isOffer {
			return w.sortedShow(sl.given)
		}
		if ended {
			return w.showIDs(got) + " end"
		}
		return w.showIDs(got)
	case "burst", "gburst":
		// burst <call>:<id> ...   the calls run concurrently, one goroutine each, released together
		// gburst <gate id> <call>:<id> ...   the same, but every call is PARKED at its first read of host <gate id>'s
		// address (hook VerifHostGate: the harness holds that HostInfo's write lock) - inside whatever critical section
		// it is in - until every call of the burst is parked (on the gate or on a lock another parked call holds) or has
		// returned; then the gate is opened. The schedule class "all calls in progress at once", produced on purpose.
		var gate *gocql.HostInfo
		if f[0] == "gburst" {
			if len(f) < 3 {
				return "bad-op"
			}
			g, ok := w.hosts[atoi(f[1])]
			if !ok {
				return "bad-op"
			}
			gate = g
			f = f[1:]
		}
		if len(f) < 2 || w.alias() {
			return "bad-op"
		}
		// threads: what each goroutine does - ONE notifier call, or (w-s11f) ONE AddHosts call `addhosts:<id>+<id>+...`
		// (AddHost per host, in order, for a policy without the method: what Session.init does); calls: the same flattened
		// to one record per host (an AddHosts call counts as AddHost of each of its hosts)
		type thread struct {
			call string
			ids  []int
		}
		var threads []thread
		var calls []burstCall
		for _, c := range f[1:] {
			p := strings.SplitN(c, ":", 2)
			if len(p) != 2 {
				return "bad-op"
			}
			switch p[0] {
			case "add", "remove", "hup", "hdown":
				if _, ok := w.hosts[atoi(p[1])]; !ok {
					return "bad-op"
				}
				threads = append(threads, thread{p[0], []int{atoi(p[1])}})
				calls = append(calls, burstCall{p[0], atoi(p[1])})
			case "addhosts":
				th := thread{call: "addhosts"}
				for _, x := range strings.Split(p[1], "+") {
					if _, ok := w.hosts[atoi(x)]; !ok {
						return "bad-op"
					}
					th.ids = append(th.ids, atoi(x))
					calls = append(calls, burstCall{"add", atoi(x)})
				}
				threads = append(threads, th)
			default:
				return "bad-op"
			}
		}
		w.lastPlain = nil
		w.epoch++
		var arrived, finished int32
		var wg sync.WaitGroup
		panics := make([]string, len(threads))
		var openGate func()
		if gate != nil {
			for _, c := range calls {
				if w.hosts[c.id] == gate {
					return "bad-op" // the gate is a host no call of the burst is about
				}
			}
			openGate = gocql.VerifHostGate(gate)
		}
		for i, c := range threads {
			wg.Add(1)
			go func(i int, c thread) {
				defer wg.Done()
				defer atomic.AddInt32(&finished, 1)
				defer func() {
					if r := recover(); r != nil {
						panics[i] = fmt.Sprint(r)
					}
				}()
				h := w.hosts[c.ids[0]]
				var hs []*gocql.HostInfo
				for _, id := range c.ids {
					hs = append(hs, w.hosts[id])
				}
				// barrier: every goroutine spins until all have arrived (event order only, no clock)
				atomic.AddInt32(&arrived, 1)
				for atomic.LoadInt32(&arrived) < int32(len(threads)) {
					runtime.Gosched()
				}
				switch c.call {
				case "add":
					w.pol.AddHost(h)
				case "remove":
					w.pol.RemoveHost(h)
				case "hup":
					w.pol.HostUp(h)
				case "hdown":
					w.pol.HostDown(h)
				case "addhosts":
					if v, ok := w.pol.(interface{ AddHosts([]*gocql.HostInfo) }); ok {
						v.AddHosts(hs)
					} else {
						for _, x := range hs {
							w.pol.AddHost(x)
						}
					}
				}
			}(i, c)
		}
		if gate != nil {
			// open the gate once every call is parked or has returned (event order: goroutine states read from the
			// runtime; the bound of 200 polls only limits the wait, no verdict depends on it)
			for poll := 0; poll < 200; poll++ {
				fin := int(atomic.LoadInt32(&finished)) // read BEFORE the goroutine states: no call is counted twice
				if atomic.LoadInt32(&arrived) == int32(len(threads)) && fin+parkedInGocql() >= len(threads) {
					break
				}
				time.Sleep(100 * time.Microsecond)
			}
			openGate()
		}
		done := make(chan struct{})
		go func() { wg.Wait(); close(done) }()
		select {
		case <-done:
		case <-time.After(30 * time.Second):
			// watchdog (never decides on the unchanged code: a burst takes microseconds): counted only with a goroutine
			// blocked inside gocql code
			buf := make([]byte, 1<<20)
			buf = buf[:runtime.Stack(buf, true)]
			w.poisoned = true
			if strings.Contains(string(buf), "gocql.(*") {
				where := ""
				for _, l := range strings.Split(string(buf), "\n") {
					if strings.HasPrefix(l, "github.com/gocql/gocql.") {
						where = l
						break
					}
				}
				return "crash:a call of the burst did not return within 30 s, goroutine blocked in " + where
			}
			return "crash:harness: burst did not finish"
		}
		for _, p := range panics {
			if p != "" {
				w.poisoned = true
				return "crash:" + strings.ReplaceAll(p, "\n", " ")
			}
		}
		// quiescent: the history (in line order - for commuting calls every order gives the same status) ...
		changedT := false
		for _, c := range calls {
			w.mutLog = append(w.mutLog, mutRec{w.epoch, c.id})
			before := w.stat(c.id).known
			w.record(c.call, c.id)
			if w.stat(c.id).known != before {
				changedT = true
			}
		}
		// ... hosts with non-commuting calls are tainted until a sequential add/remove settles them
		for _, c := range calls {
			for _, d := range calls {
				if c.id == d.id && (c.call == "add" || c.call == "hup") && (d.call == "remove" || d.call == "hdown") {
					w.taint[c.id] = true
				}
			}
		}
		w.pending = calls
		if changedT {
			w.specRefreshAll()
		}
		return "ok"
	case "settle":
		// settle L0=.. L1=.. L2=.. [T=..]: the lists as observed after the burst (generated from the observation;
		// the model decides whether some order of the burst's calls explains them)
		if w.pending == nil {
			return "bad-op"
		}
		calls := w.pending
		w.pending = nil
		w.epoch++
		layers, taHosts, isTA := gocql.VerifPolicyLists(w.pol)
		for len(layers) < 3 {
			layers = append(layers, nil)
		}
		actual := map[string][]*gocql.HostInfo{"L0": layers[0], "L1": layers[1], "L2": layers[2]}
		if isTA {
			actual["T"] = taHosts
		}
		same := true
		for _, kv := range f[1:] {
			p := strings.SplitN(kv, "=", 2)
			if len(p) != 2 {
				return "bad-op"
			}
			want := map[int]int{}
			for _, id := range intList(p[1]) {
				if _, ok := w.hosts[id]; !ok {
					return "bad-op"
				}
				want[id]++
			}
			for _, h := range actual[p[0]] {
				want[w.ids[h]]--
			}
			for _, n := range want {
				if n != 0 {
					same = false
				}
			}
		}
		// a host with add || remove in the burst: the history's "known" follows the policy's own list
		if isTA {
			inT := map[int]bool{}
			for _, h := range taHosts {
				inT[w.ids[h]] = true
			}
			resolved := false
			for _, c := range calls {
				for _, d := range calls {
					if c.id == d.id && c.call == "add" && d.call == "remove" {
						if st, ok := w.hist[c.id]; ok && st.known != inT[c.id] {
							st.known = inT[c.id]
							resolved = true
						}
					}
				}
			}
			if resolved {
				w.specRefreshAll()
			}
		}
		if !same {
			return "differs:" + w.snapshot()
		}
		return "ok"
	case "race":
		return "ok"
	}
	return "bad-op"
}

// flap: see op `flap`. The workers are persistent goroutines stepping through the trials by a shared phase counter
// (spin barriers: event order only); nothing is decided from timing - the verdict is the quiescent drain of every trial.
func (w *world) flap(id int, h *gocql.HostInfo, T, K int, updown bool) (res string) {
	var phase, done int32
	var stop int32
	nilSeen := int32(0)
	panicMsg := make([]string, K+1)
	var wg sync.WaitGroup
	delays := make([]int32, K)
	sink := int64(0)
	for k := 0; k < K; k++ {
		wg.Add(1)
		go func(k int) {
			defer wg.Done()
			defer func() {
				if r := recover(); r != nil {
					panicMsg[k] = fmt.Sprint(r)
					atomic.StoreInt32(&stop, 1)
					atomic.AddInt32(&done, 1)
				}
			}()
			next := int32(1)
			for {
				for spins := 0; atomic.LoadInt32(&phase) < next; spins++ {
					if atomic.LoadInt32(&stop) != 0 {
						return
					}
					if spins > 200 {
						runtime.Gosched()
					}
				}
				x := int64(0)
				for d := atomic.LoadInt32(&delays[k]); d > 0; d-- {
					x += int64(d)
				}
				atomic.AddInt64(&sink, x)
				it := w.pol.Pick(nil)
				if sh := it(); sh != nil && sh.Info() == nil {
					atomic.StoreInt32(&nilSeen, 1)
				}
				atomic.AddInt32(&done, 1)
				next++
			}
		}(k)
	}
	finish := func() {
		atomic.StoreInt32(&stop, 1)
		wg.Wait()
	}
	call := func(ev string) {
		w.record(ev, id)
		switch ev {
		case "add":
			w.pol.AddHost(h)
		case "remove":
			w.pol.RemoveHost(h)
		case "hup":
			w.pol.HostUp(h)
		case "hdown":
			w.pol.HostDown(h)
		}
	}
	defer func() {
		if r := recover(); r != nil {
			finish()
			w.poisoned = true
			res = "crash:" + strings.ReplaceAll(fmt.Sprint(r), "\n", " ")
		}
	}()
	for t := 0; t < T; t++ {
		racing := "hup"
		if updown {
			gocql.VerifSetHostUp(h, false)
			call("hdown")
			gocql.VerifSetHostUp(h, true)
		} else if t%2 == 0 {
			call("remove")
			racing = "add"
		} else {
			call("remove")
			call("add")
			racing = "remove"
		}
		// the racing call and the Picks, released together; the delays sweep 0 .. ~4 us in steps that differ per picker
		for k := 0; k < K; k++ {
			atomic.StoreInt32(&delays[k], int32(((t*K+k)*37)%4000))
		}
		atomic.StoreInt32(&done, 0)
		atomic.AddInt32(&phase, 1)
		call(racing)
		for spins := 0; atomic.LoadInt32(&done) < int32(K); spins++ {
			if atomic.LoadInt32(&stop) != 0 {
				break
			}
			if spins > 200 {
				runtime.Gosched()
			}
		}
		for k := 0; k < K; k++ {
			if panicMsg[k] != "" {
				finish()
				w.poisoned = true
				return "crash:" + strings.ReplaceAll(panicMsg[k], "\n", " ")
			}
		}
		if atomic.LoadInt32(&nilSeen) != 0 {
			finish()
			return "crash:property violated on the real code: nil host offered by a Pick concurrent with " + racing
		}
		// QUIESCENT: every notifier call has returned, every Pick has finished
		it := w.pol.Pick(nil)
		var got []*gocql.HostInfo
		for n := 0; n < 1000; n++ {
			sh := it()
			if sh == nil {
				break
			}
			if sh.Info() == nil {
				finish()
				return "crash:property violated on the real code: nil host offered"
			}
			got = append(got, sh.Info())
		}
		if !noOracle {
			if v := w.oracle(got, 0, false, nil, true); v != "" {
				finish()
				return fmt.Sprintf("crash:property violated on the real code: quiescent state after trial %d (%d Picks concurrent with %s of host %d; all calls returned, all Picks finished): %s offered=%s",
					t, K, racing, id, v, w.showIDs(got))
			}
		}
		if racing == "remove" {
			call("add")
		}
	}
	finish()
	if w.isTA {
		w.specRefreshAll()
	}
	return "ok"
}

// parkedInGocql: the number of goroutines that are blocked on a lock (sync.Mutex / sync.RWMutex) with a gocql frame
// on their stack - the calls of a gated burst that wait at the gate or behind a call that waits there
func parkedInGocql() int {
	buf := make([]byte, 1<<19)
	buf = buf[:runtime.Stack(buf, true)]
	n := 0
	for _, g := range strings.Split(string(buf), "\n\n") {
		nl := strings.Index(g, "\n")
		if nl < 0 {
			continue
		}
		hdr := g[:nl]
		if (strings.Contains(hdr, "Mutex.Lock") || strings.Contains(hdr, "RWMutex.RLock") || strings.Contains(hdr, "semacquire")) &&
			strings.Contains(g, "github.com/gocql/gocql.(*") {
			n++
		}
	}
	return n
}

func (w *world) sortedShow(got []*gocql.HostInfo) string {
	ids := make([]int, len(got))
	for i, h := range got {
		ids[i] = w.ids[h]
	}
	sort.Ints(ids)
	if len(ids) == 0 {
		return "-"
	}
	ss := make([]string, len(ids))
	for i, v := range ids {
		ss[i] = strconv.Itoa(v)
	}
	return strings.Join(ss, ",")
}

// lookupKs: the keyspace metadata the token-aware policy is given (getKeyspaceMetadata)
// lookupKsOpts: the keyspace metadata the policy reads: SimpleStrategy rf / LocalStrategy / (w-s11f)
// NetworkTopologyStrategy "nts:<dc>=<rf>;..." (datacenters named as the hosts' are: dc<n>)
func (w *world) lookupKsOpts(ks string) (string, map[string]interface{}, bool) {
	m, ok := w.ksMeta[ks]
	if !ok {
		return "", nil, false
	}
	if strings.HasPrefix(m, "nts:") {
		opts := map[string]interface{}{}
		for i, kv := range strings.Split(m[4:], ";") {
			p := strings.SplitN(kv, "=", 2)
			if len(p) != 2 {
				continue
			}
			if i%2 == 0 {
				opts["dc"+p[0]] = p[1] // as the schema tables give it: a string
			} else {
				opts["dc"+p[0]] = atoi(p[1])
			}
		}
		return "org.apache.cassandra.locator.NetworkTopologyStrategy", opts, true
	}
	class, rf, ok := w.lookupKs(ks)
	return class, map[string]interface{}{"replication_factor": rf}, ok
}

// observeTable: (w-s11f) the replica table of a NetworkTopologyStrategy keyspace is TAKEN FROM THE POLICY (placement is
// C10's subject: theorems and campaign there); what C11 checks is what the policy does with it - a table the policy
// computed itself is held to the property in full (no host twice is excused: w.own)
func (w *world) observeTable(ksName string) {
	delete(w.tables, ksName)
	delete(w.tableDup, ksName)
	delete(w.inj, ksName)
	delete(w.held, ksName)
	if w.own == nil {
		w.own = map[string]bool{}
	}
	w.own[ksName] = true
	toks, hs, ok := gocql.VerifTAReplicaTable(w.pol, ksName)
	if !ok {
		return
	}
	w.held[ksName] = true
	w.inj[ksName] = true // not a table the MODEL computes: `offer` needs a head of known hosts
	tab := make([]tabEntry, len(toks))
	for i := range toks {
		tab[i] = tabEntry{tok: atoi(toks[i]), hosts: append([]*gocql.HostInfo(nil), hs[i]...)}
		if hasDup(hs[i]) {
			w.tableDup[ksName] = true
		}
	}
	if len(tab) > 0 {
		w.tables[ksName] = tab
	}
}

// showObserved: the table the policy holds for a keyspace, as a `kstab` line carries it
func (w *world) showObserved(ksName string) string {
	toks, hs, ok := gocql.VerifTAReplicaTable(w.pol, ksName)
	if !ok {
		return "none"
	}
	if len(toks) == 0 {
		return "empty"
	}
	parts := make([]string, len(toks))
	for i := range toks {
		parts[i] = strconv.Itoa(atoi(toks[i])) + ":" + w.showIDs(hs[i])
	}
	return strings.Join(parts, " ")
}

func (w *world) lookupKs(ks string) (string, interface{}, bool) {
	m, ok := w.ksMeta[ks]
	if !ok {
		return "", nil, false
	}
	if m == "local" {
		return "org.apache.cassandra.locator.LocalStrategy", nil, true
	}
	return "org.apache.cassandra.locator.SimpleStrategy", m, true
}

// call: one notifier call on the real policy + the history; the harness' own copy of every held table (the
// session keyspace's and every other held keyspace's: updateAllReplicas, repair of KF-C10-4) is recomputed when
// the call changes the set of hosts the policy knows
func (w *world) call(ev string, id int, h *gocql.HostInfo) {
	al := w.isTA && w.alias()
	tBefore := append([]int(nil), w.town...)
	before := w.stat(id).known
	w.record(ev, id)
	switch ev {
	case "add":
		w.pol.AddHost(h)
	case "remove":
		w.pol.RemoveHost(h)
	case "hup":
		w.pol.HostUp(h)
	case "hdown":
		w.pol.HostDown(h)
	}
	if !w.isTA || (ev != "add" && ev != "remove") {
		return
	}
	changed := w.stat(id).known != before
	if al {
		// by the history per address (w.town), not read back from the policy
		changed = len(w.town) != len(tBefore)
		for i := range w.town {
			if i < len(tBefore) && w.town[i] != tBefore[i] {
				changed = true
			}
		}
	}
	if changed {
		w.specRefreshAll()
	}
}

// headViolation: the replica phases on the real sequence `got` (the first hosts an iterator offered): the
// specified head, tier by tier - in replica-list order; with ShuffleReplicas in any order inside a tier
// (the exact permutation is the model-vs-code comparison's business). partial: the iterator was not drained.
func (w *world) headViolation(head, got []*gocql.HostInfo, limit int, partial bool) string {
	inHead := map[*gocql.HostInfo]bool{}
	for _, h := range head {
		inHead[h] = true
	}
	for i, h := range head {
		if i >= limit {
			break
		}
		if i >= len(got) {
			if partial {
				break
			}
			return "replicas not offered first, tier by tier: expected head=" + w.showIDs(head) + " offered=" + w.showIDs(got)
		}
		ok := got[i] == h
		if w.shuf {
			ok = inHead[got[i]] && w.tier(got[i]) == w.tier(h)
		}
		if !ok {
			return "replicas not offered first, tier by tier: expected head=" + w.showIDs(head) + " offered=" + w.showIDs(got)
		}
	}
	return ""
}

// slotExcluded: `offerit` is spec-backed unless a mutation happened since the iterator's Pick or an excluded
// condition of C11_history_exact_partial holds
func (w *world) slotExcluded(sl *slot) string {
	if sl.epoch != w.epoch {
		return "mutated"
	}
	if sl.stch {
		return "state-changed"
	}
	return w.exclusion(sl.reps, sl.known, sl.fresh)
}

// offerExcluded: the excluded conditions of the theorem C11_history_exact_partial, decided from the op
// lines alone: "" = none (the op `offer` is spec-backed there), otherwise the class of the exclusion.
func (w *world) offerExcluded(ks, tokS, perms string) string {
	reps, known, _ := w.specReplicas(ks, tokS, perms)
	if w.alias() {
		return w.aliasExclusion(reps, known)
	}
	return w.exclusion(reps, known, w.specFresh(ks))
}

// aliasExclusion: (seventh round) the excluded conditions of C11_identity_history_exact_partial - `offer` with two
// host objects on one connect address: counter region of KF-C11-3, a ghost KEY (HostUp of an object whose key is
// not known: KF-C11-4), a replica table with a duplicate, a host of the specified replica head that is not the
// listed object of its key (then the sequence is left to the model-vs-code comparison of `pick`)
func (w *world) aliasExclusion(reps []*gocql.HostInfo, known bool) string {
	if w.hot {
		return "ctr63"
	}
	for _, id := range w.sortedIDs() {
		if w.kstat(w.hosts[id]).ghost() {
			return "ghost"
		}
	}
	if len(w.taint) > 0 {
		return "conflict"
	}
	if w.tablesHaveDup() {
		return "duptable"
	}
	if known {
		for _, h := range w.specHead(reps) {
			if !w.owner(h) {
				return "alias-head"
			}
		}
	}
	return ""
}

func (w *world) exclusion(reps []*gocql.HostInfo, known, fresh bool) string {
	if w.alias() {
		return "alias"
	}
	if w.hot {
		return "ctr63" // KF-C11-3
	}
	for _, id := range w.sortedIDs() {
		if w.stat(id).ghost() {
			return "ghost" // KF-C11-4
		}
	}
	if len(w.taint) > 0 {
		return "conflict" // non-commuting concurrent calls, not yet settled
	}
	if w.tablesHaveDup() {
		return "duptable"
	}
	if known {
		for _, h := range w.specHead(reps) {
			st := w.stat(w.ids[h])
			// KF-C11-5 (case (b), all that is left of it after the repair of KF-C10-4): reported down while its state is up
			if st.last == "hdown" {
				return "stale-down"
			}
			// not a finding but an assumption on the hook: a table installed by a `repl` line (and not recomputed by the
			// policy since) lists a host the policy does not know (removed / never added)
			if !st.known && !fresh {
				return "inj-unknown"
			}
		}
	}
	return ""
}

// oracle checks the property itself on a fully drained sequence of the real iterator: only up hosts,
// every host the HISTORY expects (added, not removed since, last notifier call not HostDown, state up -
// theorem C11_history_complete), no host the history does not expect except under the excluded conditions
// of C11_history_exact_partial (a ghost: KF-C11-4; a stale replica in the specified head: KF-C11-5), no host
// twice (token-aware: unless the replica list itself has a duplicate), and after the replica phases (the
// first nHead hosts) nearer tiers before farther ones. With two host objects on one address (alias) the
// history definition is not applicable and the policy's own lists are used for "the hosts it knows".
func (w *world) oracle(got []*gocql.HostInfo, nHead int, dupReps bool, headAny []*gocql.HostInfo, fresh bool) string {
	seen := map[*gocql.HostInfo]int{}
	for _, h := range got {
		if !h.IsUp() {
			return "down host offered"
		}
		seen[h]++
	}
	if w.alias() {
		// (seventh round) the history per list key: the object that stands for a key (tier, address) that is known, not
		// reported down and whose state is up must be offered; no other object may be - except a replica of the
		// specified head (left to the model-vs-code comparison in alias states) and the object of a ghost key (KF-C11-4)
		inHead := map[*gocql.HostInfo]bool{}
		for _, h := range headAny {
			inHead[h] = true
		}
		for _, id := range w.sortedIDs() {
			h := w.hosts[id]
			ks := w.kstat(h)
			if w.owner(h) && ks.expected(h.IsUp()) {
				if seen[h] == 0 {
					return fmt.Sprintf("host %d is the listed object of its address in its tier, known and up by the history (last call %s, state up) but is not offered", id, ks.last)
				}
			} else if seen[h] > 0 && !inHead[h] && !(w.owner(h) && ks.ghost()) {
				return fmt.Sprintf("host %d is offered but the history does not expect it (listed object of its key=%v known=%v last call=%q)", id, w.owner(h), ks.known, ks.last)
			}
		}
	} else {
		inHead := map[*gocql.HostInfo]bool{}
		for _, h := range headAny {
			inHead[h] = true
		}
		for _, id := range w.sortedIDs() {
			h := w.hosts[id]
			st := w.stat(id)
			if w.taint[id] {
				continue // non-commuting concurrent calls: either outcome is accepted
			}
			// KF-C11-5 (b), exactly: a stale replica is excused if it was reported down (state up); besides, an unknown
			// host in a table that a `repl` line installed and the policy has not recomputed since (hook, not the code)
			excused := inHead[h] && (st.last == "hdown" || (!st.known && !fresh))
			if st.expected(h.IsUp()) {
				if seen[h] == 0 {
					return fmt.Sprintf("host %d is known and up by the history (added, not removed, last call %s, state up) but is not offered", id, st.last)
				}
			} else if seen[h] > 0 && !st.ghost() && !excused {
				return fmt.Sprintf("host %d is offered but the history does not expect it (known=%v last call=%q)", id, st.known, st.last)
			}
		}
	}
	if !dupReps {
		for _, n := range seen {
			if n > 1 {
				return "host offered twice"
			}
		}
		for i := nHead + 1; i < len(got); i++ {
			if w.tier(got[i-1]) > w.tier(got[i]) {
				return "farther tier offered before a nearer one after the replica phases"
			}
		}
	}
	return ""
}

// rotation: prev and next are the full sequences of two successive picks of the round-robin policy with
// nothing in between. Per tier the next sequence is the previous one rotated by one (theorem
// C11_rr_rotates_partial) - or the previous one itself if the host the previous pick started its scan at is
// down; if every listed host of the tier is up (history; not decidable with aliases) it must be the rotation.
func (w *world) rotation(prev, next []*gocql.HostInfo) string {
	allUp := !w.alias()
	if allUp {
		for _, id := range w.sortedIDs() {
			st := w.stat(id)
			if (st.last == "add" || st.last == "hup") && !w.hosts[id].IsUp() {
				allUp = false
			}
		}
	}
	for t := 0; t <= 2; t++ {
		var a, b []*gocql.HostInfo
		for _, h := range prev {
			if w.tier(h) == t {
				a = append(a, h)
			}
		}
		for _, h := range next {
			if w.tier(h) == t {
				b = append(b, h)
			}
		}
		if len(a) != len(b) {
			return fmt.Sprintf("tier %d: successive picks offer different numbers of hosts", t)
		}
		same, rot := true, true
		for i := range a {
			if b[i] != a[i] {
				same = false
			}
			if b[i] != a[(i+1)%len(a)] {
				rot = false
			}
		}
		if !rot && !(same && !allUp) {
			return fmt.Sprintf("tier %d: the starting host did not move on by one between successive picks", t)
		}
	}
	return ""
}

func newTA(fb gocql.HostSelectionPolicy, shuffle, nonlocal bool) gocql.HostSelectionPolicy {
	switch {
	case shuffle && nonlocal:
		return gocql.TokenAwareHostPolicy(fb, gocql.ShuffleReplicas(), gocql.NonLocalReplicasFallback())
	case shuffle:
		return gocql.TokenAwareHostPolicy(fb, gocql.ShuffleReplicas())
	case nonlocal:
		return gocql.TokenAwareHostPolicy(fb, gocql.NonLocalReplicasFallback())
	}
	return gocql.TokenAwareHostPolicy(fb)
}

// the permutation string of an op line determines the seed: seeds are small numbers so that a
// replay (which only sees the op line) can find the seed again.
var seedOf map[string]int64

const seedSpace = 2048

func findSeed(perms string) (int64, bool) {
	if seedOf == nil {
		seedOf = map[string]int64{}
		for s := int64(0); s < seedSpace; s++ {
			seedOf[permsFor(s)] = s
		}
	}
	s, ok := seedOf[perms]
	return s, ok
}

// ---------------------------------------------------------------- generation

type gen struct {
	r   *vh.Rng
	out *vh.Out
	w   *world
	// generator-side knowledge for the distribution
	kind            string
	ta, nonlocal    bool
	n               int
	dist            map[string]int
	ldc, lrack      int
	hostDC, hostRck map[int]int
	sess            int // the session keyspace of the scenario (-1: none)
}

func (g *gen) emit(op, class string, nontrivial bool) string {
	a := g.w.exec(op)
	g.out.Case(op, a, class, nontrivial)
	return a
}

func (g *gen) scenario(maxHosts, nOps int) {
	r := g.r
	g.kind = []string{"rr", "dc", "rack"}[r.Intn(3)]
	g.ta = r.Intn(3) != 0
	shuffle := g.ta && r.Intn(3) == 0
	g.nonlocal = g.ta && r.Bool()
	partSet := r.Intn(8) != 0
	g.ldc, g.lrack = r.Intn(2), r.Intn(2)
	b := b01
	g.emit(fmt.Sprintf("reset %s %s %d %d %s %s %s", g.kind, b(g.ta), g.ldc, g.lrack, b(shuffle), b(g.nonlocal), b(partSet)), "reset/"+g.kind+"/ta"+b(g.ta), false)
	g.n = 1 + r.Intn(maxHosts)
	usedTok := map[int]bool{}
	ndc := 1 + r.Intn(3)
	nrack := 1 + r.Intn(3)
	for id := 1; id <= g.n; id++ {
		addr := id
		if id > 1 && r.Intn(10) == 0 {
			addr = 1 + r.Intn(id-1) // a second object with the address of an earlier one
		}
		var toks []string
		for k := r.Intn(3); k > 0; k-- {
			t := r.Intn(600)*16 + id
			if !usedTok[t] {
				usedTok[t] = true
				toks = append(toks, strconv.Itoa(t))
			}
		}
		ts := "-"
		if len(toks) > 0 {
			ts = strings.Join(toks, ",")
		}
		g.emit(fmt.Sprintf("host %d %d %d %d %s", id, addr, r.Intn(ndc), r.Intn(nrack), ts), "host", false)
	}
	// a third of the token-aware scenarios have keyspace 0 or 1 as SESSION keyspace with known replication
	g.sess = -1
	if g.ta && r.Intn(3) == 0 {
		g.sess = r.Intn(2)
		g.emit(fmt.Sprintf("sessks %d", g.sess), "sessks", false)
		if r.Intn(4) != 0 {
			g.emit(fmt.Sprintf("ksmeta %d %d", g.sess, r.Intn(4)), "ksmeta", false)
		}
		if r.Intn(3) == 0 {
			g.emit(fmt.Sprintf("ksmeta %d %d", 1-g.sess, 1+r.Intn(3)), "ksmeta", false)
		}
	}
	// another third: no session keyspace, but the replication of keyspace 0 and / or 1 is known to the metadata, so that
	// KeyspaceChanged makes the policy compute their tables itself (and the repaired code recompute them on ring changes)
	otherKs := g.ta && g.sess < 0 && r.Intn(2) == 0
	if otherKs {
		for k := 0; k < 2; k++ {
			if r.Intn(3) != 0 {
				g.emit(fmt.Sprintf("ksmeta %d %d", k, 1+r.Intn(3)), "ksmeta", false)
			}
		}
	}
	// most scenarios start with most hosts added
	if r.Intn(5) != 0 {
		for id := 1; id <= g.n; id++ {
			if r.Intn(6) != 0 {
				g.emit(fmt.Sprintf("add %d", id), "add", true)
			}
		}
	}
	if otherKs {
		for k := 0; k < 2; k++ {
			if r.Bool() {
				g.emit(fmt.Sprintf("kschg %d", k), "kschg", true)
			}
		}
	}
	if g.ta && r.Intn(4) != 0 {
		g.repl()
	}
	for i := 0; i < nOps; i++ {
		id := 1 + r.Intn(g.n)
		switch x := r.Intn(100); {
		case x < 8:
			g.emit(fmt.Sprintf("add %d", id), "add", true)
		case x < 14:
			g.emit(fmt.Sprintf("remove %d", id), "remove", true)
		case x < 19:
			g.emit(fmt.Sprintf("hup %d", id), "hup", true)
		case x < 24:
			g.emit(fmt.Sprintf("hdown %d", id), "hdown", true)
		case x < 36:
			g.emit(fmt.Sprintf("state %d %d", id, r.Intn(2)), "state", false)
		case x < 42:
			if g.ta {
				g.repl()
			}
		case x < 47 && (g.sess >= 0 || otherKs):
			switch r.Intn(4) {
			case 0:
				g.emit(fmt.Sprintf("kschg %d", r.Intn(3)), "kschg", true)
			case 1:
				g.emit(fmt.Sprintf("ksmeta %d %s", r.Intn(2), []string{"0", "1", "2", "3", "local", "none"}[r.Intn(6)]), "ksmeta", false)
			default:
				g.emit(fmt.Sprintf("table %d", r.Intn(2)), "table", false)
			}
		default:
			g.pick()
		}
	}
}

// sessionScenario (family "which replica tables does a topology change refresh"): token-aware policy whose SESSION
// keyspace 0 has known replication (SimpleStrategy rf 0..3, sometimes LocalStrategy), keyspace 1 known to the
// metadata too (its table appears with KeyspaceChanged and - repair of KF-C10-4 - is recomputed on every change of the
// policy's host list from then on), keyspace 2 unknown; 3..7 hosts with 1..2 tokens, no two
// host objects on one address; AddHost / RemoveHost / HostUp / HostDown (states following the session's habit most of
// the time), metadata changes, KeyspaceChanged, table snapshots, and after every call routed full drains on the three
// keyspaces: `offer` unless an excluded condition holds - a removed host in the replica head of ANY keyspace is NOT
// excluded (the code recomputes every held table; former case (a) of KF-C11-5)
func (g *gen) sessionScenario() {
	r := g.r
	g.kind = []string{"rr", "dc", "rack"}[r.Intn(3)]
	g.ta = true
	shuffle := r.Intn(4) == 0
	g.nonlocal = r.Bool()
	g.ldc, g.lrack = r.Intn(2), r.Intn(2)
	g.emit(fmt.Sprintf("reset %s 1 %d %d %s %s %s", g.kind, g.ldc, g.lrack, b01(shuffle), b01(g.nonlocal), b01(r.Intn(10) != 0)), "reset/"+g.kind+"/ta1", false)
	g.n = 3 + r.Intn(5)
	g.sess = 0
	for id := 1; id <= g.n; id++ {
		ts := strconv.Itoa(id * 100)
		if r.Intn(3) == 0 {
			ts += "," + strconv.Itoa(id*100+1000+r.Intn(50))
		}
		g.emit(fmt.Sprintf("host %d %d %d %d %s", id, id, r.Intn(2), r.Intn(2), ts), "host", false)
	}
	g.emit("sessks 0", "sessks", false)
	if r.Intn(8) == 0 {
		g.emit("ksmeta 0 local", "ksmeta", false)
	} else {
		g.emit(fmt.Sprintf("ksmeta 0 %d", r.Intn(4)), "ksmeta", false)
	}
	g.emit(fmt.Sprintf("ksmeta 1 %d", 1+r.Intn(3)), "ksmeta", false)
	for id := 1; id <= g.n; id++ {
		if r.Intn(8) != 0 {
			g.emit(fmt.Sprintf("add %d", id), "add", true)
		}
	}
	if r.Bool() {
		g.emit("kschg 1", "kschg", true)
	}
	observe := func() {
		g.pickWith("0", strconv.Itoa(r.Intn((g.n+1)*100)), 1000, true)
		if r.Bool() {
			g.pickWith(strconv.Itoa(1+r.Intn(2)), strconv.Itoa(r.Intn((g.n+1)*100)), 1000, true)
		}
		if r.Intn(3) == 0 {
			g.pickWith("-", "-", 1000, true)
		}
	}
	observe()
	for i := 12 + r.Intn(20); i > 0; i-- {
		id := 1 + r.Intn(g.n)
		switch x := r.Intn(100); {
		case x < 18:
			g.emit(fmt.Sprintf("add %d", id), "add", true)
		case x < 40:
			g.emit(fmt.Sprintf("remove %d", id), "remove", true)
		case x < 50:
			if g.w.stat(id).known { // (HostUp of an unknown host is KF-C11-4: excluded wholesale)
				if r.Intn(4) != 0 {
					g.emit(fmt.Sprintf("state %d 1", id), "state", false)
				}
				g.emit(fmt.Sprintf("hup %d", id), "hup", true)
			}
		case x < 60:
			if r.Intn(4) != 0 {
				g.emit(fmt.Sprintf("state %d 0", id), "state", false)
			}
			g.emit(fmt.Sprintf("hdown %d", id), "hdown", true)
		case x < 68:
			g.emit(fmt.Sprintf("state %d %d", id, r.Intn(4)/3^1), "state", false)
		case x < 74:
			g.emit(fmt.Sprintf("kschg %d", r.Intn(3)), "kschg", true)
		case x < 78:
			g.emit(fmt.Sprintf("ksmeta %d %s", r.Intn(2), []string{"1", "2", "3", "3", "local", "none"}[r.Intn(6)]), "ksmeta", false)
		case x < 84:
			g.emit(fmt.Sprintf("table %d", r.Intn(2)), "table", false)
		default:
		}
		observe()
	}
}

// interleaveScenario (family "several Pick iterators alive at once"): a policy (token-aware 4 of 5, with
// ShuffleReplicas every other time) over 4..7 hosts, replica table of keyspace 0 installed through the hook
// (2..3 token ranges, 2..3 replicas) or computed by the code (session keyspace / another keyspace with a readable
// schema after KeyspaceChanged); rounds of iterators over the SAME
// routing key whose NextHost calls are interleaved: A1 B* A* - A1 B1 A2 B2 ... - A partially, a new Pick drained
// (the executor's retry pattern), A continued - three iterators in a random schedule - A1 B1 then both drained as
// spec-backed `offerit`. Every iterator alone must satisfy the property (checked by the harness on what the
// iterator offered since its Pick; `offerit`: exactly the hosts the history expects, each once).
func (g *gen) interleaveScenario(idx int) {
	r := g.r
	g.kind = []string{"rr", "dc", "rack"}[r.Intn(3)]
	g.ta = idx%5 != 4
	shuffle := g.ta && idx%2 == 0
	g.nonlocal = g.ta && r.Bool()
	g.ldc, g.lrack = 0, 0
	g.emit(fmt.Sprintf("reset %s %s 0 0 %s %s 1", g.kind, b01(g.ta), b01(shuffle), b01(g.nonlocal)), "reset/"+g.kind+"/ta"+b01(g.ta), false)
	g.n = 4 + r.Intn(4)
	g.sess = -1
	for id := 1; id <= g.n; id++ {
		dc, rack := 0, 0
		if r.Intn(4) == 0 {
			dc = 1
		}
		if r.Intn(3) == 0 {
			rack = 1
		}
		g.emit(fmt.Sprintf("host %d %d %d %d %d", id, id, dc, rack, id*100), "host", false)
	}
	// the replica table of keyspace 0: computed by the code for the SESSION keyspace / computed by the code for a keyspace
	// that is not the session's (readable schema + KeyspaceChanged; recomputed on ring changes by the repaired code) /
	// installed through the hook (lives until the next change of the policy's host list)
	tabMode := r.Intn(3)
	useSess := g.ta && tabMode == 0
	useOther := g.ta && tabMode == 1
	if useSess {
		g.sess = 0
		g.emit("sessks 0", "sessks", false)
		g.emit(fmt.Sprintf("ksmeta 0 %d", 2+r.Intn(2)), "ksmeta", false)
	}
	if useOther {
		if r.Bool() {
			g.emit("sessks 1", "sessks", false)
		}
		g.emit(fmt.Sprintf("ksmeta 0 %d", 2+r.Intn(2)), "ksmeta", false)
	}
	for id := 1; id <= g.n; id++ {
		g.emit(fmt.Sprintf("add %d", id), "add", true)
	}
	if useOther {
		g.emit("kschg 0", "kschg", true)
	}
	if g.ta && !useSess && !useOther {
		// 2..3 token ranges with 2..3 distinct replicas each
		var parts []string
		for t := 0; t < 2+r.Intn(2); t++ {
			k := 2 + r.Intn(2)
			var ids []string
			for _, j := range rngPerm(r, g.n)[:k] {
				ids = append(ids, strconv.Itoa(j+1))
			}
			parts = append(parts, fmt.Sprintf("%d:%s", 300*(t+1), strings.Join(ids, ",")))
		}
		g.emit("repl 0 "+strings.Join(parts, " "), "repl", false)
	}
	if r.Intn(3) == 0 {
		g.emit(fmt.Sprintf("state %d 0", 1+r.Intn(g.n)), "state", false)
	}
	ks, cls := "0", "/"+g.kind+"/ta"
	if !g.ta {
		ks, cls = "-", "/"+g.kind+"/plain"
	}
	if shuffle {
		cls += "/shuffle"
	}
	perms := func() string {
		if g.w.shuf {
			return permsFor(int64(r.Intn(seedSpace)))
		}
		return "-"
	}
	ended := func(a string) bool { return strings.HasSuffix(a, " end") || strings.HasPrefix(a, "crash:") || a == "bad-op" }
	open := func(slot int, tk string) {
		g.emit(fmt.Sprintf("open %d %s %s %s", slot, ks, tk, perms()), "open"+cls, true)
	}
	next := func(slot, n int, pat string) bool {
		return ended(g.emit(fmt.Sprintf("next %d %d", slot, n), "next"+cls+"/"+pat, true))
	}
	// finish: drain the rest - as the spec-backed op where no excluded condition holds
	finish := func(slot int, pat string) {
		if sl, ok := g.w.slots[slot]; ok && g.w.slotExcluded(sl) == "" && r.Intn(3) != 0 {
			g.emit(fmt.Sprintf("offerit %d", slot), "offerit"+cls+"/"+pat, true)
		} else {
			next(slot, 1000, pat)
		}
	}
	for round := 0; round < 4; round++ {
		tk := "-"
		if g.ta {
			tk = strconv.Itoa(r.Intn((g.n + 1) * 100))
		}
		switch (idx + round) % 6 {
		case 5: // the cluster changes while an iterator is alive (no state change: that would end its life)
			open(0, tk)
			open(1, tk)
			next(0, 1+r.Intn(2), "mutate-alive")
			for k := 1 + r.Intn(2); k > 0; k-- {
				id := 1 + r.Intn(g.n)
				switch r.Intn(4) {
				case 0:
					g.emit(fmt.Sprintf("hdown %d", id), "hdown", true)
				case 1:
					g.emit(fmt.Sprintf("remove %d", id), "remove", true)
				case 2:
					g.emit(fmt.Sprintf("add %d", id), "add", true)
				default:
					if g.w.stat(id).known {
						g.emit(fmt.Sprintf("hup %d", id), "hup", true)
					}
				}
				next(r.Intn(2), 1, "mutate-alive")
			}
			next(0, 1000, "mutate-alive")
			next(1, 1000, "mutate-alive")
		case 0: // A1 B* A*
			open(0, tk)
			next(0, 1, "a1-b-a")
			open(1, tk)
			finish(1, "a1-b-a")
			finish(0, "a1-b-a")
		case 1: // A1 B1 A2 B2 ...
			open(0, tk)
			open(1, tk)
			ea, eb := false, false
			for k := 0; k < g.n+3 && !(ea && eb); k++ {
				if !ea {
					ea = next(0, 1, "alternate")
				}
				if !eb {
					eb = next(1, 1, "alternate")
				}
			}
		case 2: // the executor's retry pattern: A partially consumed, a new Pick (drained), A continued
			open(0, tk)
			next(0, 1+r.Intn(2), "retry")
			g.pickWith(ks, tk, 1000, r.Bool())
			if r.Bool() {
				next(0, 1, "retry")
				g.pickWith(ks, tk, 1+r.Intn(3), false)
			}
			finish(0, "retry")
		case 3: // three iterators, random schedule
			for sl := 0; sl < 3; sl++ {
				open(sl, tk)
			}
			done := [3]bool{}
			for k := 0; k < 4*(g.n+3) && !(done[0] && done[1] && done[2]); k++ {
				sl := r.Intn(3)
				if !done[sl] {
					done[sl] = next(sl, 1+r.Intn(2), "random3")
				}
			}
		case 4: // A1 B1, then both drained
			open(0, tk)
			next(0, 1, "a1-b1-drain")
			open(1, tk)
			next(1, 1, "a1-b1-drain")
			finish(0, "a1-b1-drain")
			finish(1, "a1-b1-drain")
		}
		// now and then the cluster changes between rounds
		if r.Intn(3) == 0 {
			id := 1 + r.Intn(g.n)
			switch r.Intn(3) {
			case 0:
				g.emit(fmt.Sprintf("state %d 0", id), "state", false)
				g.emit(fmt.Sprintf("hdown %d", id), "hdown", true)
			case 1:
				g.emit(fmt.Sprintf("remove %d", id), "remove", true)
			default:
				g.emit(fmt.Sprintf("state %d 1", id), "state", false)
				g.emit(fmt.Sprintf("add %d", id), "add", true)
			}
		}
	}
}

// burstScenario (family "bursts of CONCURRENT topology calls"): a policy (bare or token-aware with a session
// keyspace) that knows 24..48 hosts; rounds in which 2..8 goroutines, released together, each make ONE call -
// AddHost of distinct new hosts (nodes joining at once), HostDown / HostUp of distinct hosts (nodes flapping),
// RemoveHost of distinct hosts, a mix of all four on distinct hosts, the same call for the same host from several
// goroutines, and non-commuting calls on the same host (either order accepted; settled by a sequential RemoveHost
// afterwards) - each followed, at quiescence, by `settle` (the lists observed; the model checks that no call
// on a host without non-commuting calls was lost, no host twice, nobody else moved) and by the sequential history
// oracle `offer`.
func (g *gen) burstScenario(idx, rounds int) {
	r := g.r
	g.kind = []string{"rr", "dc", "rack"}[idx%3]
	g.ta = idx%2 == 1
	g.nonlocal = g.ta && r.Bool()
	g.ldc, g.lrack = 0, 0
	g.sess = -1
	g.emit(fmt.Sprintf("reset %s %s 0 0 0 %s 1", g.kind, b01(g.ta), b01(g.nonlocal)), "reset/"+g.kind+"/ta"+b01(g.ta), false)
	base := 24 + r.Intn(25)
	const pool = 8
	g.n = base + pool
	for id := 1; id <= g.n; id++ {
		// most hosts in the local tier: long lists
		dc, rack := 0, 0
		if r.Intn(6) == 0 {
			dc = 1
		}
		if r.Intn(6) == 0 {
			rack = 1
		}
		g.emit(fmt.Sprintf("host %d %d %d %d %d", id, id, dc, rack, id*10), "host", false)
	}
	if g.ta {
		g.sess = 0
		g.emit("sessks 0", "sessks", false)
		g.emit(fmt.Sprintf("ksmeta 0 %d", 2+r.Intn(2)), "ksmeta", false)
	}
	for id := 1; id <= base; id++ {
		g.emit(fmt.Sprintf("add %d", id), "add", true)
	}
	if g.ta {
		// keyspace 1: not the session's, readable schema, table computed on KeyspaceChanged - the repaired code recomputes
		// it with every call of a burst that changes the host list
		g.emit(fmt.Sprintf("ksmeta 1 %d", 2+r.Intn(2)), "ksmeta", false)
		g.emit("kschg 1", "kschg", true)
	}
	cls := "/" + g.kind + "/ta" + b01(g.ta)
	burstNo := idx
	burst := func(kind string, calls []string) {
		if len(calls) < 2 {
			return // a burst needs two calls
		}
		for i := len(calls) - 1; i > 0; i-- {
			j := r.Intn(i + 1)
			calls[i], calls[j] = calls[j], calls[i]
		}
		// every other burst is GATED: the calls are parked at their first read of the address of one listed host of
		// the nearest tier that no call is about, and released together once all of them are in progress (gburst).
		// The gate is chosen from the op lines alone, without drawing from the generator.
		burstNo++
		line, bk := "burst "+strings.Join(calls, " "), "burst"
		if burstNo%2 == 1 {
			inBurst := map[int]bool{}
			for _, c := range calls {
				for _, x := range strings.Split(c[strings.Index(c, ":")+1:], "+") {
					inBurst[atoi(x)] = true
				}
			}
			var cand []int
			for id := 1; id <= g.n; id++ {
				st := g.w.stat(id)
				if h, ok := g.w.hosts[id]; ok && !inBurst[id] && !g.w.taint[id] && st.known && (st.last == "add" || st.last == "hup") && g.w.tier(h) == 0 {
					cand = append(cand, id)
				}
			}
			if len(cand) > 0 {
				line = fmt.Sprintf("gburst %d %s", cand[(burstNo*7)%len(cand)], strings.Join(calls, " "))
				bk = "gburst"
			}
		}
		a := g.emit(line, bk+cls+"/"+kind, true)
		if a != "ok" {
			return
		}
		g.emit("settle "+g.w.snapshot(), "settle"+cls+"/"+kind, true)
		g.pickWith("-", "-", 1000, true)
		if g.ta {
			// routed queries whose replica lists start at hosts of the burst (token of host id = id*10), and a random one
			for i, c := range calls {
				if i < 3 {
					g.pickWith("0", strings.Split(c[strings.Index(c, ":")+1:], "+")[0]+"0", 1000, true)
				}
			}
			g.pickWith("0", strconv.Itoa(r.Intn(g.n*10)), 1000, true)
			g.pickWith("1", strconv.Itoa(r.Intn(g.n*10)), 1000, true)
			if len(calls) > 0 {
				c := calls[0]
				g.pickWith("1", strings.Split(c[strings.Index(c, ":")+1:], "+")[0]+"0", 1000, true)
			}
		}
	}
	// k distinct hosts satisfying a condition on their history
	choose := func(k int, from, to int, cond func(st hstat) bool) []int {
		var out []int
		for _, j := range rngPerm(r, to-from+1) {
			id := from + j
			if len(out) < k && cond(g.w.stat(id)) {
				out = append(out, id)
			}
		}
		return out
	}
	calls := func(call string, ids []int) []string {
		var out []string
		for _, id := range ids {
			out = append(out, fmt.Sprintf("%s:%d", call, id))
		}
		return out
	}
	known := func(st hstat) bool { return st.known }
	unknown := func(st hstat) bool { return !st.known }
	knownUp := func(st hstat) bool { return st.known && st.last != "hdown" }
	knownDown := func(st hstat) bool { return st.known && st.last == "hdown" }
	for round := 0; round < rounds; round++ {
		k := 2 + r.Intn(7)
		switch (idx + round) % 8 {
		case 0, 4: // nodes joining at once
			if c := calls("add", choose(k, base+1, g.n, unknown)); len(c) >= 2 {
				// (w-s11f) every other time some of them arrive in ONE AddHosts call that overlaps the single calls
				if len(c) >= 3 && (idx+round)%8 == 4 {
					var ids []string
					for _, x := range c[:len(c)/2+1] {
						ids = append(ids, x[strings.Index(x, ":")+1:])
					}
					c = append([]string{"addhosts:" + strings.Join(ids, "+")}, c[len(c)/2+1:]...)
				}
				burst("join", c)
			} else {
				burst("leave", calls("remove", choose(k, base+1, g.n, known)))
			}
		case 1: // nodes reported down at once, then up again at once
			ids := choose(k, 1, g.n, knownUp)
			burst("down", calls("hdown", ids))
			burst("up", calls("hup", choose(8, 1, g.n, knownDown)))
		case 2: // nodes leaving at once
			burst("leave", calls("remove", choose(k, 1, g.n, known)))
			burst("join", calls("add", choose(8, 1, g.n, unknown)))
		case 3: // everything at once, on distinct hosts
			c := calls("add", choose(1+r.Intn(3), 1, g.n, unknown))
			c = append(c, calls("remove", choose(1+r.Intn(2), 1, base, knownUp))...)
			c = append(c, calls("hdown", choose(1+r.Intn(2), base/2, g.n, knownUp))...)
			c = append(c, calls("hup", choose(2, 1, g.n, knownDown))...)
			c = dedupCalls(c)
			burst("mixed", c)
			burst("up", calls("hup", choose(8, 1, g.n, knownDown)))
		case 5: // the same call for the same host from several goroutines
			var c []string
			for _, id := range choose(1+r.Intn(3), 1, g.n, unknown) {
				for j := 2 + r.Intn(2); j > 0; j-- {
					c = append(c, fmt.Sprintf("add:%d", id))
				}
			}
			for _, id := range choose(1+r.Intn(2), 1, g.n, knownUp) {
				c = append(c, fmt.Sprintf("hup:%d", id), fmt.Sprintf("add:%d", id))
			}
			burst("same", c)
		case 6: // flapping: down and up of distinct hosts overlap
			c := calls("hdown", choose(k/2+1, 1, g.n, knownUp))
			c = append(c, calls("hup", choose(4, 1, g.n, knownDown))...)
			burst("flap", c)
			burst("up", calls("hup", choose(8, 1, g.n, knownDown)))
		default: // non-commuting calls on the same host: either order is accepted
			ids := choose(1+r.Intn(2), 1, g.n, known)
			var c []string
			for _, id := range ids {
				c = append(c, fmt.Sprintf("remove:%d", id), fmt.Sprintf("add:%d", id))
			}
			c = append(c, calls("add", choose(2, base+1, g.n, unknown))...)
			burst("conflict", c)
			for _, id := range ids {
				g.emit(fmt.Sprintf("remove %d", id), "remove", true)
			}
			g.pickWith("-", "-", 1000, true)
			for _, id := range ids {
				if r.Bool() {
					g.emit(fmt.Sprintf("add %d", id), "add", true)
				}
			}
			g.pickWith("-", "-", 1000, true)
		}
	}
}

// bulkScenario (family 5, "the hosts arrive in bulk"): what Session.init does - ONE AddHosts call with the hosts of
// the first ring refresh when the policy has the method (tokenAwareHostPolicy), AddHost per host otherwise. Every
// policy kind, bare and token-aware (2 of 3; session keyspace with SimpleStrategy rf 1..3, another keyspace with a
// readable schema, tables installed through the hook), 3..9 hosts with 1..2 tokens; the first call hands over a random
// subset (now and then one host twice, now and then before the partitioner / the keyspace table is known); then 6..15
// steps of AddHost / RemoveHost / HostUp / HostDown / state / KeyspaceChanged / installed table / AddHosts AGAIN with
// known and unknown hosts mixed or with known hosts only (the code then recomputes every held table although its host
// list did not change: an installed table is dropped - what a fold of AddHost would not do); a third of the scenarios
// learn the partitioner late (`setpart` at a random step, now and then repeated); after every step full drains
// without routing key (a quarter each: Pick(nil) / a query whose GetRoutingKey fails) and - token-aware - routed on
// keyspaces 0 and 1: `offer` (spec-backed) unless excluded; now and then `islocal`.
func (g *gen) bulkScenario(idx int) {
	r := g.r
	g.kind = []string{"rr", "dc", "rack"}[idx%3]
	g.ta = idx%9 < 6
	shuffle := g.ta && r.Intn(4) == 0
	g.nonlocal = g.ta && r.Bool()
	g.ldc, g.lrack = r.Intn(2), r.Intn(2)
	// a third of the scenarios learn the partitioner LATE (SetPartitioner after hosts / keyspaces are known): `setpart`
	latePart := r.Intn(3) == 0
	g.emit(fmt.Sprintf("reset %s %s %d %d %s %s %s", g.kind, b01(g.ta), g.ldc, g.lrack, b01(shuffle), b01(g.nonlocal), b01(!latePart)),
		"reset/"+g.kind+"/ta"+b01(g.ta), false)
	g.n = 3 + r.Intn(7)
	g.sess = -1
	for id := 1; id <= g.n; id++ {
		ts := strconv.Itoa(id * 100)
		if r.Intn(3) == 0 {
			ts += "," + strconv.Itoa(id*100+1000+r.Intn(50))
		}
		g.emit(fmt.Sprintf("host %d %d %d %d %s", id, id, r.Intn(2), r.Intn(2), ts), "host", false)
	}
	if g.ta {
		if r.Intn(4) != 0 {
			g.sess = 0
			g.emit("sessks 0", "sessks", false)
			g.emit(fmt.Sprintf("ksmeta 0 %d", 1+r.Intn(3)), "ksmeta", false)
		}
		if r.Bool() {
			g.emit(fmt.Sprintf("ksmeta 1 %d", 1+r.Intn(3)), "ksmeta", false)
		}
	}
	subset := func(onlyKnown bool) string {
		var ids []string
		for id := 1; id <= g.n; id++ {
			if onlyKnown && !g.w.stat(id).known {
				continue
			}
			if r.Intn(4) != 0 {
				ids = append(ids, strconv.Itoa(id))
				if r.Intn(12) == 0 {
					ids = append(ids, strconv.Itoa(id)) // the same host twice in one call
				}
			}
		}
		if len(ids) == 0 {
			ids = []string{strconv.Itoa(1 + r.Intn(g.n))}
		}
		for i := len(ids) - 1; i > 0; i-- {
			j := r.Intn(i + 1)
			ids[i], ids[j] = ids[j], ids[i]
		}
		return strings.Join(ids, ",")
	}
	cls := "/" + g.kind + "/ta" + b01(g.ta)
	observe := func() {
		switch r.Intn(4) {
		case 0:
			g.pickWith("nil", "-", 1000, true) // Pick(nil)
		case 1:
			g.pickWith("err", "-", 1000, true) // GetRoutingKey fails
		default:
			g.pickWith("-", "-", 1000, true)
		}
		if g.ta {
			g.pickWith("0", strconv.Itoa(r.Intn((g.n+1)*100)), 1000, true)
			if r.Bool() {
				g.pickWith("1", strconv.Itoa(r.Intn((g.n+1)*100)), 1000, true)
			}
		}
		if r.Intn(3) == 0 {
			g.emit(fmt.Sprintf("islocal %d", 1+r.Intn(g.n)), "islocal"+cls, false)
		}
	}
	if g.ta && r.Intn(3) == 0 {
		g.emit("kschg 1", "kschg", true) // before any host is known
	}
	g.emit("addhosts "+subset(false), "addhosts"+cls+"/first", true)
	observe()
	if g.ta && r.Bool() {
		g.emit("kschg 1", "kschg", true)
		observe()
	}
	setAt := -1
	steps := 6 + r.Intn(10)
	if latePart {
		setAt = r.Intn(steps)
	}
	for i := steps; i > 0; i-- {
		if steps-i == setAt || (setAt >= 0 && steps-i > setAt && r.Intn(8) == 0) {
			g.emit("setpart", "setpart"+cls, true) // the first one builds the ring and every table; later ones change nothing
			observe()
		}
		id := 1 + r.Intn(g.n)
		switch x := r.Intn(100); {
		case x < 12:
			g.emit(fmt.Sprintf("add %d", id), "add", true)
		case x < 26:
			g.emit(fmt.Sprintf("remove %d", id), "remove", true)
		case x < 34:
			if g.w.stat(id).known { // (HostUp of an unknown host is KF-C11-4: excluded wholesale)
				if r.Intn(4) != 0 {
					g.emit(fmt.Sprintf("state %d 1", id), "state", false)
				}
				g.emit(fmt.Sprintf("hup %d", id), "hup", true)
			}
		case x < 42:
			if r.Intn(4) != 0 {
				g.emit(fmt.Sprintf("state %d 0", id), "state", false)
			}
			g.emit(fmt.Sprintf("hdown %d", id), "hdown", true)
		case x < 48:
			g.emit(fmt.Sprintf("state %d %d", id, r.Intn(2)), "state", false)
		case x < 56:
			if g.ta {
				g.emit(fmt.Sprintf("kschg %d", r.Intn(2)), "kschg", true)
			}
		case x < 68:
			if g.ta {
				g.repl()
				observe()
				if r.Bool() {
					g.emit("addhosts "+subset(true), "addhosts"+cls+"/known-only", true)
				}
			}
		case x < 84:
			g.emit("addhosts "+subset(false), "addhosts"+cls+"/mixed", true)
		default:
			g.emit("addhosts "+subset(true), "addhosts"+cls+"/known-only", true)
		}
		observe()
	}
}

// lazyScenario (family 6, "a node goes down / comes back while a query is being retried"): the iterators read the
// state of a host object at the call that reaches it (replica phase, remote buckets, fallback iterator). Every policy
// kind, token-aware 3 of 4 (replica table of keyspace 0 computed for the session keyspace or installed through the
// hook; ShuffleReplicas / NonLocalReplicasFallback random), 4..8 hosts; 4 rounds: two iterators opened on one token,
// 0..2 calls of the first, then 1..4 times: setState(up|down) of a random host - half of the time followed by the
// notifier call the session makes (HostDown / HostUp) - and one call of a random iterator; then both drained.
// Compared call by call with the model's lazy iterator (Policies.LIter); the harness checks on the real iterators:
// no nil host, no host that is down at the call that offers it, no host twice per iterator
// (C11_lazy_iterator_only_up / C11_lazy_iterator_no_host_twice), every host expected throughout and untouched offered.
func (g *gen) lazyScenario(idx int) {
	r := g.r
	g.kind = []string{"rr", "dc", "rack"}[idx%3]
	g.ta = idx%4 != 3
	shuffle := g.ta && r.Intn(3) == 0
	g.nonlocal = g.ta && r.Bool()
	g.ldc, g.lrack = 0, 0
	g.emit(fmt.Sprintf("reset %s %s 0 0 %s %s 1", g.kind, b01(g.ta), b01(shuffle), b01(g.nonlocal)), "reset/"+g.kind+"/ta"+b01(g.ta), false)
	g.n = 4 + r.Intn(5)
	g.sess = -1
	for id := 1; id <= g.n; id++ {
		dc, rack := 0, 0
		if r.Intn(4) == 0 {
			dc = 1
		}
		if r.Intn(3) == 0 {
			rack = 1
		}
		g.emit(fmt.Sprintf("host %d %d %d %d %d", id, id, dc, rack, id*100), "host", false)
	}
	useSess := g.ta && r.Bool()
	if useSess {
		g.sess = 0
		g.emit("sessks 0", "sessks", false)
		g.emit(fmt.Sprintf("ksmeta 0 %d", 2+r.Intn(2)), "ksmeta", false)
	}
	for id := 1; id <= g.n; id++ {
		g.emit(fmt.Sprintf("add %d", id), "add", true)
	}
	if g.ta && !useSess {
		var parts []string
		for t := 0; t < 2+r.Intn(2); t++ {
			k := 2 + r.Intn(3)
			if k > g.n {
				k = g.n
			}
			var ids []string
			for _, j := range rngPerm(r, g.n)[:k] {
				ids = append(ids, strconv.Itoa(j+1))
			}
			parts = append(parts, fmt.Sprintf("%d:%s", 300*(t+1), strings.Join(ids, ",")))
		}
		g.emit("repl 0 "+strings.Join(parts, " "), "repl", false)
	}
	ks, cls := "0", "/"+g.kind+"/ta"
	if !g.ta {
		ks, cls = "-", "/"+g.kind+"/plain"
	}
	perms := func() string {
		if g.w.shuf {
			return permsFor(int64(r.Intn(seedSpace)))
		}
		return "-"
	}
	for round := 0; round < 4; round++ {
		tk := "-"
		if g.ta {
			tk = strconv.Itoa(r.Intn((g.n + 1) * 100))
		}
		g.emit(fmt.Sprintf("open 0 %s %s %s", ks, tk, perms()), "open"+cls, true)
		g.emit(fmt.Sprintf("open 1 %s %s %s", ks, tk, perms()), "open"+cls, true)
		if k := r.Intn(3); k > 0 {
			g.emit(fmt.Sprintf("next 0 %d", k), "next"+cls+"/lazy-state", true)
		}
		for k := 1 + r.Intn(4); k > 0; k-- {
			id := 1 + r.Intn(g.n)
			v := r.Intn(2)
			g.emit(fmt.Sprintf("state %d %d", id, v), "state/alive", true)
			if r.Bool() && g.w.stat(id).known {
				if v == 0 {
					g.emit(fmt.Sprintf("hdown %d", id), "hdown", true)
				} else {
					g.emit(fmt.Sprintf("hup %d", id), "hup", true)
				}
			}
			g.emit(fmt.Sprintf("next %d 1", r.Intn(2)), "next"+cls+"/lazy-state", true)
		}
		g.emit("next 0 1000", "next"+cls+"/lazy-state", true)
		g.emit("next 1 1000", "next"+cls+"/lazy-state", true)
		// everything up and listed again for the next round
		for id := 1; id <= g.n; id++ {
			if h := g.w.hosts[id]; !h.IsUp() {
				g.emit(fmt.Sprintf("state %d 1", id), "state", false)
			}
			if st := g.w.stat(id); st.known && st.last == "hdown" {
				g.emit(fmt.Sprintf("hup %d", id), "hup", true)
			}
		}
	}
}

// ntsScenario (family 7, "the production shape"): a token-aware policy over rr | dc | rack whose keyspace 1 uses
// NetworkTopologyStrategy (rf 1..4 in dc0, 0..3 in dc1, now and then a datacenter that is not in the ring) - as the
// SESSION keyspace (recomputed on every change of the host list) or as another keyspace (KeyspaceChanged, then
// recomputed too); 4..9 hosts in 2..3 datacenters x 1..3 racks with 1..3 tokens each (vnodes). The table is computed
// by the REAL updateReplicas -> getStrategy -> networkTopology.replicaMap; the model does not compute it (placement is
// C10's subject): after every call that can change it a `kstab` line hands the model the table the policy holds.
// What is checked here is what the policy DOES with such tables: after every step routed full drains on every token
// of the table (up to 6) and two random ones, `offer` (spec-backed) unless excluded; the harness holds every real
// sequence to the property in full - no host twice is excused for a table the policy computed itself.
func (g *gen) ntsScenario(idx int) {
	r := g.r
	g.kind = []string{"dc", "rack", "rr"}[idx%3]
	g.ta = true
	shuffle := r.Intn(4) == 0
	g.nonlocal = r.Bool()
	g.ldc, g.lrack = r.Intn(2), r.Intn(2)
	g.emit(fmt.Sprintf("reset %s 1 %d %d %s %s 1", g.kind, g.ldc, g.lrack, b01(shuffle), b01(g.nonlocal)), "reset/"+g.kind+"/ta1", false)
	g.n = 4 + r.Intn(6)
	g.sess = -1
	ndc := 2
	if r.Intn(4) == 0 {
		ndc = 3
	}
	nrack := 1 + r.Intn(3)
	// every other scenario is DENSE: most hosts in dc0 on two racks, 2..3 tokens per host, rf(dc0) above the number of
	// racks - the ring walk then parks hosts whose rack was used already and drains them later
	dense := idx%2 == 0
	if dense {
		g.n = 5 + r.Intn(5)
		nrack = 2
	}
	for id := 1; id <= g.n; id++ {
		var toks []string
		nt := 1 + r.Intn(3)
		dc := r.Intn(ndc)
		if dense {
			nt = 2 + r.Intn(2)
			dc = 0
			if r.Intn(5) == 0 {
				dc = 1
			}
		}
		for j := 0; j < nt; j++ {
			toks = append(toks, strconv.Itoa(j*1000+id*10+r.Intn(10)))
		}
		g.emit(fmt.Sprintf("host %d %d %d %d %s", id, id, dc, r.Intn(nrack), strings.Join(toks, ",")), "host", false)
	}
	rf0 := 1 + r.Intn(4)
	if dense {
		rf0 = 3 + r.Intn(3)
	}
	meta := fmt.Sprintf("nts:0=%d;1=%d", rf0, r.Intn(4))
	if r.Intn(6) == 0 {
		meta += ";3=1" // a datacenter no host is in
	}
	if ndc == 3 && r.Bool() {
		meta += fmt.Sprintf(";2=%d", 1+r.Intn(2))
	}
	sessNts := r.Bool()
	if sessNts {
		g.sess = 1
		g.emit("sessks 1", "sessks", false)
	}
	g.emit("ksmeta 1 "+meta, "ksmeta/nts", false)
	sync := func() {
		g.emit("kstab 1 "+g.w.showObserved("ks1"), "kstab", true)
	}
	observe := func() {
		var toks []int
		for _, e := range g.w.tables["ks1"] {
			toks = append(toks, e.tok)
		}
		for i := len(toks) - 1; i > 0; i-- {
			j := r.Intn(i + 1)
			toks[i], toks[j] = toks[j], toks[i]
		}
		if len(toks) > 6 {
			toks = toks[:6]
		}
		for _, t := range toks {
			g.pickWith("1", strconv.Itoa(t), 1000, true)
		}
		g.pickWith("1", strconv.Itoa(r.Intn(3200)), 1000, true)
		g.pickWith("1", strconv.Itoa(r.Intn(3200)), 1000, true)
		if r.Intn(3) == 0 {
			g.pickWith("-", "-", 1000, true)
		}
	}
	var first []string
	for id := 1; id <= g.n; id++ {
		if r.Intn(5) != 0 {
			first = append(first, strconv.Itoa(id))
		}
	}
	if len(first) == 0 {
		first = []string{"1"}
	}
	if r.Bool() {
		g.emit("addhosts "+strings.Join(first, ","), "addhosts/nts", true)
	} else {
		for _, id := range first {
			g.emit("add "+id, "add", true)
		}
	}
	if !sessNts || r.Intn(3) == 0 {
		g.emit("kschg 1", "kschg", true)
	}
	sync()
	observe()
	for i := 5 + r.Intn(6); i > 0; i-- {
		id := 1 + r.Intn(g.n)
		switch x := r.Intn(100); {
		case x < 25:
			g.emit(fmt.Sprintf("add %d", id), "add", true)
		case x < 50:
			g.emit(fmt.Sprintf("remove %d", id), "remove", true)
		case x < 60:
			if g.w.stat(id).known {
				g.emit(fmt.Sprintf("state %d 1", id), "state", false)
				g.emit(fmt.Sprintf("hup %d", id), "hup", true)
			}
		case x < 72:
			g.emit(fmt.Sprintf("state %d 0", id), "state", false)
			g.emit(fmt.Sprintf("hdown %d", id), "hdown", true)
		case x < 80:
			g.emit(fmt.Sprintf("state %d %d", id, r.Intn(2)), "state", false)
		case x < 90:
			g.emit("kschg 1", "kschg", true)
		default:
			var ids []string
			for j := 1; j <= g.n; j++ {
				if r.Intn(3) == 0 {
					ids = append(ids, strconv.Itoa(j))
				}
			}
			if len(ids) > 0 {
				g.emit("addhosts "+strings.Join(ids, ","), "addhosts/nts", true)
			}
		}
		sync()
		observe()
	}
}

// flapScenario (family 8, round 2; thorough: 60 policies x 3 ops x 2000 trials, "a node flaps while queries are being routed"): every policy kind rr | dc | rack, bare
// and (every other one) as fallback of a token-aware policy, 6..24 hosts over the tiers, all added; 3 `flap` ops on hosts
// of different tiers, modes updown (HostDown with the state set down, then HostUp - what the session does) and remadd
// (RemoveHost / AddHost, odd trials race the RemoveHost): per op <trials> trials of a quiet preparing call, then the
// opposite call released TOGETHER with 3..8 goroutines that each make one Pick after a swept busy delay (Picks start
// before, inside and after the call), then - all calls returned, all Picks finished - a fresh iterator drained against the
// history (no up host missing, no removed host offered, no nil host, no panic). The interleaving is the scheduler's; the
// verdict is only ever taken in the quiescent state. Followed by the sequential `offer`.
func (g *gen) flapScenario(idx, trials int) {
	r := g.r
	g.kind = []string{"rack", "dc", "rr"}[idx%3]
	g.ta = idx%2 == 1
	g.nonlocal = false
	g.ldc, g.lrack = 0, 0
	g.sess = -1
	g.emit(fmt.Sprintf("reset %s %s 0 0 0 0 1", g.kind, b01(g.ta)), "reset/"+g.kind+"/ta"+b01(g.ta), false)
	g.n = 6 + r.Intn(19)
	for id := 1; id <= g.n; id++ {
		dc, rack := 0, 0
		if id%3 == 0 {
			dc = 1
		} else if id%3 == 1 {
			rack = 1
		}
		g.emit(fmt.Sprintf("host %d %d %d %d %d", id, id, dc, rack, id*10), "host", false)
	}
	for id := 1; id <= g.n; id++ {
		g.emit(fmt.Sprintf("add %d", id), "add", true)
	}
	cls := "/" + g.kind + "/ta" + b01(g.ta)
	for k := 0; k < 3; k++ {
		id := 1 + (r.Intn(g.n/3)*3+k)%g.n // a host of another tier each time
		mode := []string{"updown", "remadd"}[(idx+k)%2]
		g.emit(fmt.Sprintf("flap %d %d %d %s", id, trials, 3+r.Intn(6), mode), "flap"+cls+"/"+mode, true)
		g.pickWith("-", "-", 1000, true)
	}
}

// rngPerm: a permutation of 0..n-1 from the harness' own generator
func rngPerm(r *vh.Rng, n int) []int {
	p := make([]int, n)
	for i := range p {
		p[i] = i
	}
	for i := n - 1; i > 0; i-- {
		j := r.Intn(i + 1)
		p[i], p[j] = p[j], p[i]
	}
	return p
}

func dedupCalls(c []string) []string {
	seen := map[string]bool{}
	var out []string
	for _, x := range c {
		id := x[strings.Index(x, ":")+1:]
		if !seen[id] {
			seen[id] = true
			out = append(out, x)
		}
	}
	return out
}

func (g *gen) repl() {
	r := g.r
	nt := 1 + r.Intn(4)
	seen := map[int]bool{}
	var parts []string
	for i := 0; i < nt; i++ {
		t := r.Intn(9999)
		if seen[t] {
			continue
		}
		seen[t] = true
		k := r.Intn(5)
		var ids []string
		for j := 0; j < k; j++ {
			ids = append(ids, strconv.Itoa(1+r.Intn(g.n)))
		}
		if r.Intn(6) != 0 { // mostly without duplicates
			ids = dedup(ids)
		}
		l := "-"
		if len(ids) > 0 {
			l = strings.Join(ids, ",")
		}
		parts = append(parts, fmt.Sprintf("%d:%s", t, l))
	}
	g.emit(fmt.Sprintf("repl %d %s", r.Intn(2), strings.Join(parts, " ")), "repl", false)
}

func dedup(l []string) []string {
	seen := map[string]bool{}
	var out []string
	for _, x := range l {
		if !seen[x] {
			seen[x] = true
			out = append(out, x)
		}
	}
	return out
}

func (g *gen) pick() {
	r := g.r
	ks, tk := "-", "-"
	if r.Intn(5) != 0 {
		ks = strconv.Itoa(r.Intn(3))
		tk = strconv.Itoa(r.Intn(10000))
	}
	limit := 1000
	if r.Intn(4) == 0 {
		limit = r.Intn(6)
	}
	g.pickWith(ks, tk, limit, r.Intn(2) == 0)
}

// pickWith emits one pick. A full drain under none of the excluded conditions of C11_history_exact_partial
// is emitted as the SPEC-BACKED op `offer` (if wantOffer); every other pick as `pick` (sequence compared with
// the model; the harness evaluates the property on the real sequence), its class naming the exclusion.
func (g *gen) pickWith(ks, tk string, limit int, wantOffer bool) string {
	r := g.r
	perms := "-"
	if g.w.shuf {
		perms = permsFor(int64(r.Intn(seedSpace)))
	}
	cls := "/" + g.kind
	if g.ta {
		cls += "/ta"
	} else {
		cls += "/plain"
	}
	if ks == "-" || tk == "-" {
		cls += "/nokey"
	} else {
		cls += "/key"
	}
	if limit < 1000 {
		cls += "/limited"
	}
	// the states of the two fixed findings, counted in the distribution
	if reps, known, empty := g.w.specReplicas(ks, tk, perms); empty {
		cls += "/emptyring"
	} else if known && g.w.hasGap(reps) {
		cls += "/tiergap"
		if hasDup(reps) {
			cls += "-dup"
		}
	}
	excl := g.w.offerExcluded(ks, tk, perms)
	if limit >= 1000 && excl == "" && wantOffer {
		return g.emit(fmt.Sprintf("offer %s %s %s", ks, tk, perms), "offer"+cls, true)
	}
	if excl != "" {
		cls += "/x-" + excl
	}
	return g.emit(fmt.Sprintf("pick %s %s %d %s", ks, tk, limit, perms), "pick"+cls, true)
}

// rotShapes: sizes of the three tiers (local rack / local DC / remote DC): nearer tiers of size 0, 1, 2, sizes
// that are not multiples of each other, equal sizes
var rotShapes = [][3]int{{1, 4, 3}, {2, 6, 5}, {3, 3, 3}, {0, 4, 3}, {1, 1, 5}, {2, 3, 0}, {0, 0, 4}, {1, 5, 2}, {2, 5, 3},
	{4, 2, 3}, {1, 3, 0}, {0, 2, 5}, {3, 4, 5}, {1, 2, 3}, {2, 4, 4}, {1, 6, 4}, {5, 1, 2}, {1, 0, 3}}

func gcd(a, b int) int {
	for b != 0 {
		a, b = b, a%b
	}
	return a
}

// rotationScenario (fourth round; family "successive queries rotate the starting host WITHIN EVERY TIER so load is
// spread"): every round-robin based policy (rr / dc / rack), alone, as token-aware fallback without routing key and
// as token-aware fallback with routing key (replica table installed / computed for the session keyspace / ring owner),
// over the tier shapes of rotShapes and random ones, hosts added in random order, the rotation counter preset to
// random places (small, around 2^31 and 2^32, 40 bit). Rounds: some hosts set DOWN BUT STILL LISTED (state only, no
// HostDown) - now and then every host of the nearest non-empty tier -, hosts added / removed / reported down, then
// the spec-backed op `rotate`: m = k * lcm(tier sizes) successive picks (every start position of every tier exactly
// k times) or an arbitrary m (the +-1 form), each drained, and per tier - also the tiers that are not the first
// non-empty one - the histogram of the first host offered.
func (g *gen) rotationScenario(idx int) {
	r := g.r
	g.kind = []string{"rack", "dc", "rack", "rr", "rack", "dc"}[idx%6]
	variant := (idx / 6) % 3 // 0 bare, 1 token-aware without routing key, 2 token-aware with routing key
	g.ta = variant != 0
	shuffle := g.ta && r.Intn(3) == 0
	g.nonlocal = g.ta && r.Bool()
	g.ldc, g.lrack = r.Intn(2), r.Intn(2)
	g.sess = -1
	g.emit(fmt.Sprintf("reset %s %s %d %d %s %s 1", g.kind, b01(g.ta), g.ldc, g.lrack, b01(shuffle), b01(g.nonlocal)), "reset/"+g.kind+"/ta"+b01(g.ta), false)
	var shape [3]int
	if idx < 3*len(rotShapes) {
		shape = rotShapes[(idx+idx/len(rotShapes))%len(rotShapes)]
	} else {
		for shape[0]+shape[1]+shape[2] == 0 {
			shape = [3]int{r.Intn(4), r.Intn(7), r.Intn(6)}
		}
	}
	switch g.kind {
	case "dc":
		if shape[1] == 0 {
			shape[1] = shape[2]
		}
		shape[2] = 0
	case "rr":
		if shape[1] == 0 {
			shape[1] = shape[2]
		}
		if shape[1] == 0 {
			shape[1] = shape[0]
		}
		shape[0], shape[1], shape[2] = shape[1], 0, 0
	}
	if shape[0]+shape[1]+shape[2] == 0 {
		shape[0] = 1 + r.Intn(5)
	}
	// routed variant, the replica table of keyspace 0: computed by the code for the session keyspace / computed by the code
	// for a keyspace that is NOT the session's (readable schema, KeyspaceChanged once the hosts are there; the repaired code
	// recomputes it on every ring change) / installed through the hook (dropped by the next ring change; now and then
	// installed again) / none (ring owner)
	tabMode := r.Intn(3)
	sessTable := variant == 2 && tabMode == 0
	otherTable := variant == 2 && tabMode == 1
	if sessTable {
		g.sess = 0
		g.emit("sessks 0", "sessks", false)
		g.emit(fmt.Sprintf("ksmeta 0 %d", 1+r.Intn(3)), "ksmeta", false)
	}
	if otherTable {
		if r.Bool() {
			g.emit("sessks 1", "sessks", false)
		}
		g.emit(fmt.Sprintf("ksmeta 0 %d", 1+r.Intn(3)), "ksmeta", false)
	}
	place := func(t int) (int, int) { // dc, rack of a host of tier t
		switch g.kind {
		case "rack":
			switch t {
			case 0:
				return g.ldc, g.lrack
			case 1:
				return g.ldc, (g.lrack + 1 + r.Intn(2)) % 3
			}
			return 1 - g.ldc, r.Intn(3)
		case "dc":
			if t == 0 {
				return g.ldc, r.Intn(3)
			}
			return 1 - g.ldc, r.Intn(3)
		}
		return r.Intn(2), r.Intn(3)
	}
	g.n = 0
	newHost := func(t int) int {
		g.n++
		dc, rack := place(t)
		g.emit(fmt.Sprintf("host %d %d %d %d %d", g.n, g.n, dc, rack, g.n*100), "host", false)
		return g.n
	}
	var ids []int
	for t := 0; t < 3; t++ {
		for k := 0; k < shape[t]; k++ {
			ids = append(ids, newHost(t))
		}
	}
	for _, j := range rngPerm(r, len(ids)) {
		g.emit(fmt.Sprintf("add %d", ids[j]), "add", true)
	}
	if otherTable {
		g.emit("kschg 0", "kschg", true)
	}
	install := func() {
		var parts []string
		for t := 0; t < 2+r.Intn(2); t++ {
			k := 1 + r.Intn(3)
			if k > g.n {
				k = g.n
			}
			var l []string
			for _, j := range rngPerm(r, g.n)[:k] {
				l = append(l, strconv.Itoa(j+1))
			}
			parts = append(parts, fmt.Sprintf("%d:%s", (g.n*100/3+1)*(t+1), strings.Join(l, ",")))
		}
		g.emit("repl 0 "+strings.Join(parts, " "), "repl", false)
	}
	hookTable := variant == 2 && !sessTable && !otherTable && r.Intn(4) != 0
	if hookTable {
		install()
	}
	if r.Bool() {
		n := uint64(r.Intn(1000))
		switch r.Intn(4) {
		case 0:
			n = 1<<31 - 1 - uint64(r.Intn(40))
		case 1:
			n = 1<<32 - 1 - uint64(r.Intn(40))
		case 2:
			n = r.U64() >> 24
		}
		g.emit(fmt.Sprintf("ctr %d", n), "ctr/rot", true)
	}
	variantName := []string{"plain", "ta-nokey", "ta-key"}[variant]
	for round := 0; round < 3; round++ {
		// the cluster between the rounds
		muts := 0
		if round > 0 {
			muts = 1 + r.Intn(2)
		} else if r.Intn(4) == 0 {
			muts = 1
		}
		for ; muts > 0; muts-- {
			id := 1 + r.Intn(g.n)
			switch x := r.Intn(20); {
			case x < 7: // down but still listed
				g.emit(fmt.Sprintf("state %d 0", id), "state", false)
			case x < 10: // every host of the nearest non-empty tier down but listed: all queries go on to the next tier
				for t := 0; t < 3; t++ {
					var in []int
					for _, i := range g.w.sortedIDs() {
						if st := g.w.stat(i); (st.last == "add" || st.last == "hup") && g.w.tier(g.w.hosts[i]) == t {
							in = append(in, i)
						}
					}
					if len(in) > 0 {
						for _, i := range in {
							g.emit(fmt.Sprintf("state %d 0", i), "state", false)
						}
						break
					}
				}
			case x < 13: // every host up again
				for _, i := range g.w.sortedIDs() {
					if !g.w.hosts[i].IsUp() {
						g.emit(fmt.Sprintf("state %d 1", i), "state", false)
					}
				}
			case x < 16: // a node joins
				g.emit(fmt.Sprintf("add %d", newHost(r.Intn(3))), "add", true)
			case x < 18:
				g.emit(fmt.Sprintf("remove %d", id), "remove", true)
			default: // reported down the way the session does it
				g.emit(fmt.Sprintf("state %d 0", id), "state", false)
				g.emit(fmt.Sprintf("hdown %d", id), "hdown", true)
			}
		}
		if hookTable && len(g.w.tables["ks0"]) == 0 && r.Bool() {
			install() // a ring change dropped the installed table
		}
		ks, tk := "-", "-"
		if variant == 2 {
			ks, tk = "0", strconv.Itoa(r.Intn((g.n+1)*100))
		}
		// sizes of the tiers as the history has them
		var size [3]int
		downListed := false
		for _, i := range g.w.sortedIDs() {
			if st := g.w.stat(i); st.last == "add" || st.last == "hup" {
				size[g.w.tier(g.w.hosts[i])]++
				if !g.w.hosts[i].IsUp() {
					downListed = true
				}
			}
		}
		lcm := 1
		for _, n := range size {
			if n > 0 {
				lcm = lcm / gcd(lcm, n) * n
			}
		}
		m, mcls := lcm*(1+r.Intn(3)), "whole-periods"
		if m > 180 {
			m = lcm
		}
		if m > 180 || r.Intn(3) == 0 {
			m, mcls = 1+r.Intn(2*(size[0]+size[1]+size[2])+4), "any-m"
		}
		cls := fmt.Sprintf("/%s/%s/%d-%d-%d/%s", g.kind, variantName, size[0], size[1], size[2], mcls)
		if downListed {
			cls += "/down-listed"
		}
		reps, known, _ := g.w.specReplicas(ks, tk, "-")
		if x := g.w.exclusion(reps, known, g.w.specFresh(ks)); x != "" {
			g.pickWith(ks, tk, 1000, false)
			g.pickWith(ks, tk, 1000, false)
			continue
		}
		g.emit(fmt.Sprintf("rotate %s %s %d", ks, tk, m), "rotate"+cls, true)
		if r.Intn(4) == 0 {
			g.pickWith(ks, tk, 1000, true)
		}
	}
}

func b01(x bool) string {
	if x {
		return "1"
	}
	return "0"
}

// boundaryScenario (family "any number of successive picks"): a policy with 2..7 hosts - most of them in
// the local tier, so that tiers of 3, 5, 6, 7 hosts occur, sizes that do not divide a power of two - whose
// rotation counter is PRESET to B-k, k = 1..8, for boundaries B of integer representations (2^15, 2^16, 2^31,
// 2^32, 2^53, 2^62: cold; 2^63 and 2^64: the region of the known finding KF-C11-3, `hot`), followed by 16
// picks across the boundary (full drains mostly: no panic, complete, unique, and the starting host of each
// tier moves on by one from pick to pick).
func (g *gen) boundaryScenario(hot bool) {
	r := g.r
	g.kind = []string{"rr", "dc", "rack"}[r.Intn(3)]
	g.ta = r.Intn(2) == 0
	shuffle := g.ta && r.Intn(3) == 0
	g.nonlocal = g.ta && r.Bool()
	g.ldc, g.lrack = r.Intn(2), r.Intn(2)
	g.emit(fmt.Sprintf("reset %s %s %d %d %s %s 1", g.kind, b01(g.ta), g.ldc, g.lrack, b01(shuffle), b01(g.nonlocal)), "reset/"+g.kind+"/ta"+b01(g.ta), false)
	g.n = 2 + r.Intn(6)
	for id := 1; id <= g.n; id++ {
		dc, rack := g.ldc, g.lrack
		if r.Intn(4) == 0 {
			dc = 1 - dc
		}
		if r.Intn(4) == 0 {
			rack = 1 - rack
		}
		g.emit(fmt.Sprintf("host %d %d %d %d %d", id, id, dc, rack, id*16+r.Intn(9)*1000), "host", false)
		g.emit(fmt.Sprintf("add %d", id), "add", true)
	}
	if r.Intn(4) == 0 {
		for k := 1 + r.Intn(2); k > 0; k-- {
			g.emit(fmt.Sprintf("state %d 0", 1+r.Intn(g.n)), "state", false)
		}
	}
	if g.ta && r.Intn(3) != 0 {
		g.repl()
	}
	cold := []uint64{1 << 15, 1 << 16, 1 << 31, 1 << 32, 1 << 53, 1 << 62}
	for round := 0; round < 2; round++ {
		var base uint64
		name := ""
		if hot {
			if r.Bool() {
				base, name = 1<<63, "2^63"
			} else {
				base, name = 0, "2^64" // 0 - k wraps to 2^64 - k
			}
		} else {
			i := r.Intn(len(cold))
			if r.Intn(3) != 0 {
				i = 2 + r.Intn(2) // 2^31 and 2^32 most often
			}
			base = cold[i]
			name = fmt.Sprintf("2^%d", []int{15, 16, 31, 32, 53, 62}[i])
		}
		k := uint64(1 + r.Intn(8))
		g.emit(fmt.Sprintf("ctr %d", base-k), "ctr/"+name, true)
		if !hot && round == 1 && r.Bool() {
			// the spec-backed rotation histogram across the boundary
			if reps, known, _ := g.w.specReplicas("-", "-", "-"); g.w.exclusion(reps, known, true) == "" {
				g.emit(fmt.Sprintf("rotate - - %d", 12+r.Intn(30)), "rotate/"+g.kind+"/boundary/"+name, true)
			}
		}
		for i := 0; i < 16; i++ {
			switch x := r.Intn(10); {
			case x < 7 || !g.ta:
				if x == 9 {
					g.pickWith("-", "-", r.Intn(4), false)
				} else {
					g.pickWith("-", "-", 1000, r.Intn(3) == 0)
				}
			default:
				g.pickWith(strconv.Itoa(r.Intn(2)), strconv.Itoa(r.Intn(10000)), 1000, r.Intn(3) == 0)
			}
		}
	}
}

var evNames = []string{"add", "remove", "hup", "hdown"}

// historyScenario (family "AddHost / RemoveHost / HostUp / HostDown for the SAME host in every order"): three
// hosts in different tiers; the notifier calls of `seq` are applied to the focus host 1 (the others get a call
// now and then); HostInfo states follow the session's habit (down before HostDown, up before HostUp) most of
// the time; after every call the policy is observed with a full drain without routing key and - token-aware -
// with a routing key (keyspace with a replica table, keyspace without): `offer` (spec-backed: exactly the hosts
// the history expects) unless an excluded condition holds, then `pick`.
func (g *gen) historyScenario(kind string, ta bool, seq []int) {
	r := g.r
	g.kind, g.ta = kind, ta
	shuffle := ta && r.Intn(4) == 0
	g.nonlocal = ta && r.Bool()
	g.ldc, g.lrack = 0, 0
	g.emit(fmt.Sprintf("reset %s %s 0 0 %s %s 1", kind, b01(ta), b01(shuffle), b01(g.nonlocal)), "reset/"+kind+"/ta"+b01(ta), false)
	places := [][2]int{{0, 0}, {0, 1}, {1, 0}}
	g.n = 3
	rot := r.Intn(3)
	for id := 1; id <= 3; id++ {
		pl := places[(id-1+rot)%3]
		if r.Intn(4) == 0 {
			pl = places[r.Intn(3)]
		}
		g.emit(fmt.Sprintf("host %d %d %d %d %d", id, id, pl[0], pl[1], id*100), "host", false)
	}
	addOthers := func() {
		for id := 2; id <= 3; id++ {
			if r.Intn(6) != 0 {
				g.emit(fmt.Sprintf("add %d", id), "add", true)
			}
		}
	}
	// the replica table of keyspace 0: none / installed through the hook (lives until the next change of the policy's
	// host list: keyspace 0 is unknown to the metadata, the table is dropped) / keyspace 0 IS the session keyspace with
	// SimpleStrategy / keyspace 0 is ANOTHER keyspace with SimpleStrategy whose table the policy computed on
	// KeyspaceChanged: both recomputed by the code itself on every AddHost / RemoveHost that changes its host list
	mode := 0
	if ta {
		mode = []int{0, 0, 1, 1, 2, 2, 3, 4, 4, 4}[r.Intn(10)]
	}
	switch mode {
	case 0:
		addOthers()
	case 1:
		addOthers()
		g.emit("repl 0 150:1,2 250:2,3 350:3,1", "repl", false)
	case 4:
		// keyspace 0 is NOT the session keyspace (none, or keyspace 1), its replication is known and KeyspaceChanged(0)
		// arrives before or after the other hosts: the policy computes the table itself and - repair of KF-C10-4 -
		// recomputes it on every AddHost / RemoveHost that changes its host list
		if r.Bool() {
			g.emit("sessks 1", "sessks", false)
		}
		g.emit(fmt.Sprintf("ksmeta 0 %d", 1+r.Intn(3)), "ksmeta", false)
		if r.Intn(3) == 0 {
			g.emit("kschg 0", "kschg", true)
			addOthers()
		} else {
			addOthers()
			g.emit("kschg 0", "kschg", true)
		}
		g.emit("table 0", "table", false)
	case 2:
		// the session keyspace and its replication are known before the first AddHost
		g.emit("sessks 0", "sessks", false)
		g.emit(fmt.Sprintf("ksmeta 0 %d", 1+r.Intn(3)), "ksmeta", false)
		addOthers()
		g.emit("table 0", "table", false)
	default:
		// the replication of the session keyspace becomes known after the hosts were added (KeyspaceChanged)
		g.emit("sessks 0", "sessks", false)
		addOthers()
		g.emit(fmt.Sprintf("ksmeta 0 %d", 1+r.Intn(3)), "ksmeta", false)
		if r.Intn(3) != 0 {
			g.emit("kschg 0", "kschg", true)
		}
		g.emit("table 0", "table", false)
	}
	observe := func() {
		g.pickWith("-", "-", 1000, true)
		if ta {
			// token 120 -> table entry 150 (replicas 1,2) in keyspace 0; keyspace 1 has no table: ring owner
			g.pickWith(strconv.Itoa(r.Intn(2)), strconv.Itoa(100+r.Intn(300)), 1000, true)
		}
	}
	for _, e := range seq {
		ev := evNames[e]
		switch ev {
		case "hdown":
			if r.Intn(4) != 0 {
				g.emit("state 1 0", "state", false)
			}
		case "hup":
			if r.Intn(4) != 0 {
				g.emit("state 1 1", "state", false)
			}
		default:
			if r.Intn(6) == 0 {
				g.emit(fmt.Sprintf("state 1 %d", r.Intn(2)), "state", false)
			}
		}
		g.emit(ev+" 1", ev, true)
		if r.Intn(3) == 0 {
			g.emit("state 1 1", "state", false)
		}
		if r.Intn(5) == 0 {
			g.emit(fmt.Sprintf("%s %d", evNames[r.Intn(4)], 2+r.Intn(2)), "other", true)
		}
		observe()
	}
	// the node is reported up again in the end: everything the history expects must be back
	g.emit("state 1 1", "state", false)
	observe()
}

// identityScenario (seventh round, family HOST IDENTITY in the policy host lists): a cluster in which host objects
// share what the lists compare. Groups of 2..3 objects on ONE connect address - on different native ports (nodes
// behind a port-mapping address), on the same port (distinct HostInfo objects that are Equal), with the same or
// with different host ids, in the same tier or in different tiers - next to ordinary hosts, one of which shares its
// HOST ID with another object on a different address (a node that changed its address); every policy kind, bare
// and token-aware (session keyspace with SimpleStrategy every other time, so that AddHost / RemoveHost rebuild the
// token ring and the replica tables over such a host list). Calls: AddHost / RemoveHost / HostUp / HostDown of the
// members of a group in every order (the same object twice, an object and its sibling alternately), states
// following the session's habit most of the time; after EVERY call a full drain without routing key - `offer`,
// spec-backed also here: exactly the listed object of every key (tier, address) the history knows and that is up,
// each once - and, token-aware, a routed drain. Every answer of a notifier call is the snapshot of the lists (a nil
// entry shows as `nil`).
func (g *gen) identityScenario(idx int) {
	r := g.r
	g.kind = []string{"rr", "dc", "rack"}[idx%3]
	g.ta = (idx/3)%2 == 1
	shuffle := g.ta && r.Intn(4) == 0
	g.nonlocal = g.ta && r.Bool()
	g.ldc, g.lrack = 0, 0
	g.emit(fmt.Sprintf("reset %s %s 0 0 %s %s 1", g.kind, b01(g.ta), b01(shuffle), b01(g.nonlocal)), "ident/reset/"+g.kind+"/ta"+b01(g.ta), false)
	places := [][2]int{{0, 0}, {0, 1}, {1, 0}}
	id := 0
	var groups [][]int
	var all []int
	ngroups := 1 + r.Intn(2)
	for gi := 0; gi < ngroups; gi++ {
		addr := 10 + gi
		pl := places[r.Intn(3)]
		var grp []int
		members := 2 + r.Intn(2)
		samePort := r.Intn(4) == 0
		for m := 0; m < members; m++ {
			id++
			port := 9042 + m
			if samePort {
				port = 9042
			}
			mp := pl
			if r.Intn(5) == 0 {
				mp = places[r.Intn(3)] // a sibling in another tier
			}
			hid := id
			if m > 0 && r.Intn(4) == 0 {
				hid = grp[0] // the same host id as well
			}
			g.emit(fmt.Sprintf("hostp %d %d %d %d %d %d %d", id, hid, addr, port, mp[0], mp[1], id*100+gi), "ident/host", false)
			grp = append(grp, id)
			all = append(all, id)
		}
		groups = append(groups, grp)
	}
	// ordinary hosts, each with its own address; the last one shares its host id with the first (address change)
	nplain := 1 + r.Intn(3)
	firstPlain := id + 1
	for k := 0; k < nplain; k++ {
		id++
		pl := places[r.Intn(3)]
		hid := id
		if k == nplain-1 && k > 0 {
			hid = firstPlain
		}
		g.emit(fmt.Sprintf("hostp %d %d %d 9042 %d %d %d", id, hid, 100+id, pl[0], pl[1], id*100+50), "ident/host", false)
		all = append(all, id)
	}
	g.n = id
	if g.ta && r.Bool() {
		g.emit("sessks 0", "sessks", false)
		g.emit(fmt.Sprintf("ksmeta 0 %d", 1+r.Intn(3)), "ksmeta", false)
	}
	observe := func() {
		g.pickWith("-", "-", 1000, true)
		if g.ta {
			g.pickWith("0", strconv.Itoa(r.Intn(1500)), 1000, true)
		}
	}
	call := func(ev string, x int) {
		switch ev {
		case "hdown":
			if r.Intn(4) != 0 {
				g.emit(fmt.Sprintf("state %d 0", x), "state", false)
			}
		case "hup", "add":
			if r.Intn(4) != 0 {
				g.emit(fmt.Sprintf("state %d 1", x), "state", false)
			}
		}
		g.emit(fmt.Sprintf("%s %d", ev, x), "ident/"+ev, true)
		observe()
	}
	// the cluster is discovered: every object is added (now and then one is left out, one is added twice)
	for _, x := range all {
		if r.Intn(8) != 0 {
			call("add", x)
		}
		if r.Intn(8) == 0 {
			call("add", x)
		}
	}
	steps := 6 + r.Intn(8)
	for s := 0; s < steps; s++ {
		grp := groups[r.Intn(len(groups))]
		x := grp[r.Intn(len(grp))]
		if r.Intn(5) == 0 {
			x = all[r.Intn(len(all))]
		}
		switch r.Intn(8) {
		case 0, 1:
			// a node of the group goes down and comes back
			call("hdown", x)
			if r.Intn(3) != 0 {
				call("hup", x)
			}
		case 2:
			call("remove", x)
			if r.Bool() {
				call("add", x)
			}
		case 3:
			call("add", x)
		case 4:
			call("hup", x)
		case 5:
			// one sibling after the other
			for _, y := range grp {
				call([]string{"hdown", "remove"}[r.Intn(2)], y)
			}
			for _, y := range grp {
				if r.Intn(3) != 0 {
					call([]string{"hup", "add", "add"}[r.Intn(3)], y)
				}
			}
		case 6:
			g.emit(fmt.Sprintf("state %d %d", x, r.Intn(2)), "state", false)
			observe()
		default:
			call(evNames[r.Intn(4)], x)
		}
	}
	// in the end every node is reported up and added again: every key must be served
	for _, x := range all {
		g.emit(fmt.Sprintf("state %d 1", x), "state", false)
	}
	for _, x := range all {
		call("add", x)
	}
}

// histories: every sequence of notifier calls of length 1..maxLen on the focus host + `extra` random longer ones,
// for every policy kind, bare and token-aware
func (g *gen) histories(maxLen, extra int) {
	var seqs [][]int
	var rec func(cur []int)
	rec = func(cur []int) {
		if len(cur) > 0 {
			seqs = append(seqs, append([]int(nil), cur...))
		}
		if len(cur) == maxLen {
			return
		}
		for e := 0; e < 4; e++ {
			rec(append(cur, e))
		}
	}
	rec(nil)
	for i := 0; i < extra; i++ {
		n := maxLen + 1 + g.r.Intn(4)
		sq := make([]int, n)
		for j := range sq {
			sq[j] = g.r.Intn(4)
		}
		seqs = append(seqs, sq)
	}
	for _, kind := range []string{"rr", "dc", "rack"} {
		for _, ta := range []bool{false, true} {
			for _, sq := range seqs {
				g.historyScenario(kind, ta, sq)
			}
		}
	}
}

// exhaustive small scope (thorough): token-aware over every fallback kind, with and without non-local
// fallback, 4 hosts with every assignment of (dc, rack) in {(0,0),(0,1),(1,0)}, every up/down pattern,
// every replica list of at most 2 distinct hosts; full drain of one pick each; plus, per up/down pattern,
// a pick on a keyspace without replica table (empty token ring: the state of the fixed finding KF-C11-2).
func exhaustive(g *gen) {
	places := [][2]int{{0, 0}, {0, 1}, {1, 0}}
	var repls []string
	repls = append(repls, "-")
	for a := 1; a <= 4; a++ {
		repls = append(repls, strconv.Itoa(a))
		for b := 1; b <= 4; b++ {
			if a != b {
				repls = append(repls, fmt.Sprintf("%d,%d", a, b))
			}
		}
	}
	for _, kind := range []string{"rr", "dc", "rack"} {
		for nl := 0; nl < 2; nl++ {
			for asg := 0; asg < 81; asg++ {
				g.emit(fmt.Sprintf("reset %s 1 0 0 0 %d 1", kind, nl), "exh/reset", false)
				x := asg
				for id := 1; id <= 4; id++ {
					pl := places[x%3]
					x /= 3
					g.emit(fmt.Sprintf("host %d %d %d %d -", id, id, pl[0], pl[1]), "exh/host", false)
					g.emit(fmt.Sprintf("add %d", id), "exh/add", false)
				}
				for pat := 0; pat < 16; pat++ {
					for id := 1; id <= 4; id++ {
						g.emit(fmt.Sprintf("state %d %d", id, (pat>>(id-1))&1), "exh/state", false)
					}
					for _, rp := range repls {
						g.emit("repl 0 500:"+rp, "exh/repl", false)
						g.emit("pick 0 100 1000 -", "exh/pick/"+kind, true)
					}
					// keyspace without replica table, no host has tokens: the empty-ring state of KF-C11-2
					g.emit("pick 1 100 1000 -", "exh/pick/"+kind+"/emptyring", true)
					g.emit("pick 1 100 1 -", "exh/pick/"+kind+"/emptyring", true)
				}
			}
		}
	}
}

var raceNil, racePanics int64

// raceRun: picks run concurrently with add/remove/up/down/state changes on the real policy
// (meaningful under -race): no panic, no nil host, every drain terminates.
func raceRun(r *vh.Rng, rounds int) string {
	for round := 0; round < rounds; round++ {
		kind := []string{"rr", "dc", "rack"}[r.Intn(3)]
		w := &world{}
		w.exec(fmt.Sprintf("reset %s 1 0 0 %d %d 1", kind, r.Intn(2), r.Intn(2)))
		n := 8
		for id := 1; id <= n; id++ {
			w.exec(fmt.Sprintf("host %d %d %d %d %d,%d", id, id, id%2, id%3, id*16, 5000+id*16))
			w.exec(fmt.Sprintf("add %d", id))
		}
		// keyspace 0: a readable schema, so that every AddHost / RemoveHost of the run recomputes its table (updateAllReplicas)
		// under the picks; the installed table is what the first picks see
		w.exec("ksmeta 0 3")
		w.exec("ksmeta 1 2")
		w.exec("kschg 1")
		w.exec("repl 0 100:1,2,3 2000:4,5,6 6000:7,8,1")
		var wg, wgM sync.WaitGroup
		stop := int32(0)
		for p := 0; p < 4; p++ {
			wg.Add(1)
			seed := r.U64()
			go func() {
				defer wg.Done()
				defer func() {
					if rec := recover(); rec != nil {
						atomic.AddInt64(&racePanics, 1)
					}
				}()
				lr := vh.NewRng(seed)
				for atomic.LoadInt32(&stop) == 0 {
					var rk []byte
					if lr.Intn(4) != 0 {
						rk = []byte(tok(lr.Intn(10000)))
					}
					it := w.pol.Pick(gocql.VerifQuery("ks0", rk))
					for k := 0; k < 100; k++ {
						sh := it()
						if sh == nil {
							break
						}
						if sh.Info() == nil {
							atomic.AddInt64(&raceNil, 1)
						}
						if k == 99 {
							atomic.AddInt64(&raceNil, 1)
						}
					}
				}
			}()
		}
		for m := 0; m < 2; m++ {
			wgM.Add(1)
			seed := r.U64()
			go func() {
				defer wgM.Done()
				defer func() {
					if rec := recover(); rec != nil {
						atomic.AddInt64(&racePanics, 1)
					}
				}()
				lr := vh.NewRng(seed)
				for i := 0; i < 300; i++ {
					h := w.hosts[1+lr.Intn(n)]
					switch lr.Intn(5) {
					case 0:
						w.pol.AddHost(h)
					case 1:
						w.pol.RemoveHost(h)
					case 2:
						w.pol.HostUp(h)
					case 3:
						w.pol.HostDown(h)
					default:
						gocql.VerifSetHostUp(h, lr.Bool())
					}
				}
			}()
		}
		wgM.Wait()
		atomic.StoreInt32(&stop, 1)
		wg.Wait()
	}
	if racePanics != 0 || raceNil != 0 {
		return fmt.Sprintf("crash:race panics=%d nil-or-endless=%d", racePanics, raceNil)
	}
	return "ok"
}

func main() {
	mode, tier, path := vh.Args()
	if mode == "replay" {
		w := &world{}
		for _, l := range vh.ReadLines(path) {
			fmt.Println(w.exec(l))
		}
		return
	}
	r := vh.NewRng(vh.EnvSeed())
	out := vh.NewOut(path)
	g := &gen{r: r, out: out, w: &world{}}
	// the two families with an observation right after every mutation come first, so that the first
	// disagreements of a run are on observed sequences (spec-backed) and not on list snapshots
	// (third round) the iterator-interleaving family comes first: a breach there is a breach of the property by one
	// iterator (a failing history), and it must not be buried under follow-up disagreements of sequences
	ni, nbu, nbr, nse := 60, 24, 12, 120
	if tier == "thorough" {
		ni, nbu, nbr, nse = 1800, 240, 40, 3600
	}
	// (fourth round) the rotation family comes first of all: its observations are spec-backed (`rotate`), a skewed
	// tier there is a failing input of the rotation sub-claim and must not be buried under sequence disagreements
	nro := 108
	if tier == "thorough" {
		nro = 3240
	}
	for i := 0; i < nro; i++ {
		g.rotationScenario(i)
	}
	for i := 0; i < ni; i++ {
		g.interleaveScenario(i)
	}
	for i := 0; i < nbu; i++ {
		g.burstScenario(i, nbr)
	}
	if tier == "thorough" {
		g.histories(5, 400)
	} else {
		g.histories(3, 40)
	}
	for i := 0; i < nse; i++ {
		g.sessionScenario()
	}
	nb := 150
	if tier == "thorough" {
		nb = 1500
	}
	for i := 0; i < nb; i++ {
		g.boundaryScenario(i%4 == 3)
	}
	scen := 400
	if tier == "thorough" {
		scen = 400 * 30
	}
	for i := 0; i < scen; i++ {
		switch {
		case i%10 == 0:
			g.scenario(3, 15+r.Intn(20)) // tiny clusters
		case i%10 == 1:
			g.scenario(14, 40+r.Intn(60))
		default:
			g.scenario(8, 20+r.Intn(40))
		}
	}
	// (seventh round) HOST IDENTITY family, last so that the op lines of the earlier families stay what they were
	nid := 90
	if tier == "thorough" {
		nid = 2700
	}
	for i := 0; i < nid; i++ {
		g.identityScenario(i)
	}
	// (w-s11f) BULK family: the hosts reach the policy the way Session.init hands them over (AddHosts), last again
	nbk := 90
	if tier == "thorough" {
		nbk = 2700
	}
	for i := 0; i < nbk; i++ {
		g.bulkScenario(i)
	}
	// (w-s11f) LAZY-STATE family: the up/down state of host objects changes while iterators are alive
	nlz := 60
	if tier == "thorough" {
		nlz = 1800
	}
	for i := 0; i < nlz; i++ {
		g.lazyScenario(i)
	}
	// (w-s11f) NTS family: keyspaces with NetworkTopologyStrategy, tables computed by the policy itself
	nnt := 80
	if tier == "thorough" {
		nnt = 2400
	}
	for i := 0; i < nnt; i++ {
		g.ntsScenario(i)
	}
	// (round 2) FLAP family: Picks concurrent with host changes, quiescent re-check after every trial
	nfl, ntr := 24, 1000
	if tier == "thorough" {
		nfl, ntr = 60, 2000
	}
	for i := 0; i < nfl; i++ {
		g.flapScenario(i, ntr)
	}
	extra := map[string]interface{}{}
	if tier == "thorough" {
		exhaustive(g)
		res := raceRun(r, 40)
		out.Case("race 40", res, "race", false)
		extra["race_rounds"] = 40
	}
	out.Close(extra)
}
