// Harness for C11 (host selection policies): drives the REAL gocql policies through their public
// API (AddHost / RemoveHost / HostUp / HostDown / Pick + the returned NextHost iterator) on generated
// cluster states and writes op lines + the implementation's answers for comparison with the Lean model.
package main

import (
	"fmt"
	"math/rand"
	"net"
	"os"
	"sort"
	"strconv"
	"strings"
	"sync"
	"sync/atomic"

	"github.com/gocql/gocql"
	"verifharness/vh"
)

type world struct {
	pol   gocql.HostSelectionPolicy
	isTA  bool
	shuf  bool
	hosts map[int]*gocql.HostInfo
	ids   map[*gocql.HostInfo]int
	// what the harness itself knows about the scenario (for the specification of the replica phases;
	// nothing here is read back from the policy under test except its host list)
	kind       string
	ldc, lrack string
	nonlocal   bool
	partSet    bool
	attrs      map[*gocql.HostInfo]hostAttr
	tables     map[string][]tabEntry
	// the HISTORY of notifier calls per host id (from the op lines alone): the property's own definition of
	// "a host the policy knows and that is up" (Lean: Policies.statusOf / Status.expected)
	hist     map[int]*hstat
	tableDup map[string]bool
	// hot: the rotation counter was preset into the region of the known finding KF-C11-3 (>= 2^63-4096)
	hot bool
	// the previous pick, if it was a full drain handed to the round-robin policy as it is and nothing
	// happened since (rotation of the starting host between successive picks)
	lastPlain []*gocql.HostInfo
}

type hstat struct {
	known bool
	last  string // "", add, remove, hup, hdown
}

func (w *world) stat(id int) hstat {
	if st, ok := w.hist[id]; ok {
		return *st
	}
	return hstat{}
}

// expected: the property's words - added and not removed since; up unless the last notifier call was
// HostDown; HostInfo state up.
func (st hstat) expected(isUp bool) bool { return st.known && st.last != "hdown" && isUp }

// ghost: HostUp for a host that is not known (excluded condition of KF-C11-4)
func (st hstat) ghost() bool { return !st.known && st.last == "hup" }

func (w *world) record(ev string, id int) {
	st, ok := w.hist[id]
	if !ok {
		st = &hstat{}
		w.hist[id] = st
	}
	switch ev {
	case "add":
		st.known = true
	case "remove":
		st.known = false
	}
	st.last = ev
}

// alias: two defined host objects share a connect address (the lists identify hosts by address; the
// history oracle assumes one object per address)
func (w *world) alias() bool {
	seen := map[string]bool{}
	for _, h := range w.hosts {
		a := h.ConnectAddress().String()
		if seen[a] {
			return true
		}
		seen[a] = true
	}
	return false
}

func (w *world) sortedIDs() []int {
	ids := make([]int, 0, len(w.hosts))
	for id := range w.hosts {
		ids = append(ids, id)
	}
	sort.Ints(ids)
	return ids
}

// tablesHaveDup: some replica table installed by a `repl` line (whether or not the policy took it) has a
// replica list with a duplicate
func (w *world) tablesHaveDup() bool {
	for _, d := range w.tableDup {
		if d {
			return true
		}
	}
	return false
}

type hostAttr struct {
	dc, rack string
	toks     []int
}

type tabEntry struct {
	tok   int
	hosts []*gocql.HostInfo
}

// tier of a host as the property defines it: local rack / local DC / remote DC for the rack-aware
// policy, local / remote DC for the dc-aware one, one tier for round-robin.
func (w *world) tier(h *gocql.HostInfo) int {
	a := w.attrs[h]
	switch w.kind {
	case "rr":
		return 0
	case "dc":
		if a.dc == w.ldc {
			return 0
		}
		return 1
	}
	if a.dc != w.ldc {
		return 2
	}
	if a.rack == w.lrack {
		return 0
	}
	return 1
}

func (w *world) maxTier() int {
	if w.kind == "rack" {
		return 2
	}
	return 1
}

// specReplicas: the replica list of the query (keyspace table entry of the first token >= tok, wrapping;
// without a table the owner of the token in the ring of the policy's hosts), shuffled with the
// permutation of the op line. known=false: the query has no replica list (no key, no ring, empty ring).
func (w *world) specReplicas(ks string, tokS string, perms string) (reps []*gocql.HostInfo, known bool, emptyRing bool) {
	if !w.isTA || !w.partSet || ks == "-" || tokS == "-" {
		return nil, false, false
	}
	t := atoi(tokS)
	if tab := w.tables["ks"+ks]; len(tab) > 0 {
		e := tab[0]
		for _, x := range tab {
			if x.tok >= t {
				e = x
				break
			}
		}
		reps = e.hosts
		if w.shuf && perms != "-" {
			for _, ps := range strings.Split(perms, ";") {
				p := intList(ps)
				if len(p) == len(reps) {
					out := make([]*gocql.HostInfo, len(reps))
					for i, j := range p {
						out[i] = reps[j]
					}
					reps = out
					break
				}
			}
		}
		return reps, true, false
	}
	var taHosts []*gocql.HostInfo
	if w.alias() {
		_, taHosts, _ = gocql.VerifPolicyLists(w.pol)
	} else {
		// the token-aware policy's own list = the hosts added and not removed since (history)
		for _, id := range w.sortedIDs() {
			if w.stat(id).known {
				taHosts = append(taHosts, w.hosts[id])
			}
		}
	}
	var owner, first *gocql.HostInfo
	best, lo := -1, -1
	for _, h := range taHosts {
		for _, ht := range w.attrs[h].toks {
			if lo < 0 || ht < lo {
				lo, first = ht, h
			}
			if ht >= t && (best < 0 || ht < best) {
				best, owner = ht, h
			}
		}
	}
	if owner == nil {
		owner = first
	}
	if owner == nil {
		return nil, false, true
	}
	return []*gocql.HostInfo{owner}, true, false
}

// specHead: SPECIFICATION of the replica phases (Lean: Policies.specHead; the model's head is proved
// equal to it for every replica list, C11_tokenaware_remote_order): tier after tier, the up replicas of
// that tier in replica-list order; farther tiers only with NonLocalReplicasFallback.
func (w *world) specHead(reps []*gocql.HostInfo) []*gocql.HostInfo {
	last := 0
	if w.nonlocal {
		last = w.maxTier()
	}
	var head []*gocql.HostInfo
	for t := 0; t <= last; t++ {
		for _, h := range reps {
			if w.tier(h) == t && h.IsUp() {
				head = append(head, h)
			}
		}
	}
	return head
}

func hasDup(l []*gocql.HostInfo) bool {
	seen := map[*gocql.HostInfo]bool{}
	for _, h := range l {
		if seen[h] {
			return true
		}
		seen[h] = true
	}
	return false
}

// hasGap: a farther tier has a replica while a nearer remote tier has none (the state of KF-C11-1)
func (w *world) hasGap(reps []*gocql.HostInfo) bool {
	if !w.nonlocal {
		return false
	}
	cnt := make([]int, w.maxTier()+1)
	for _, h := range reps {
		cnt[w.tier(h)]++
	}
	for t := 1; t < len(cnt); t++ {
		if cnt[t] == 0 {
			for u := t + 1; u < len(cnt); u++ {
				if cnt[u] > 0 {
					return true
				}
			}
		}
	}
	return false
}

func tok(n int) string { return fmt.Sprintf("%04d", n) }

func atoi(s string) int {
	n, err := strconv.Atoi(s)
	if err != nil {
		panic("bad number " + s)
	}
	return n
}

func intList(s string) []int {
	if s == "-" {
		return nil
	}
	var out []int
	for _, p := range strings.Split(s, ",") {
		out = append(out, atoi(p))
	}
	return out
}

func (w *world) showIDs(l []*gocql.HostInfo) string {
	if len(l) == 0 {
		return "-"
	}
	parts := make([]string, len(l))
	for i, h := range l {
		if h == nil {
			parts[i] = "nil"
		} else if id, ok := w.ids[h]; ok {
			parts[i] = strconv.Itoa(id)
		} else {
			parts[i] = "?"
		}
	}
	return strings.Join(parts, ",")
}

func (w *world) snapshot() string {
	layers, taHosts, isTA := gocql.VerifPolicyLists(w.pol)
	for len(layers) < 3 {
		layers = append(layers, nil)
	}
	s := "L0=" + w.showIDs(layers[0]) + " L1=" + w.showIDs(layers[1]) + " L2=" + w.showIDs(layers[2])
	if isTA {
		s += " T=" + w.showIDs(taHosts)
	}
	return s
}

// permsFor computes, for every length 0..8, the permutation shuffleHosts applies when its
// generator was just seeded with `seed`.
func permsFor(seed int64) string {
	var parts []string
	for n := 0; n <= 8; n++ {
		r := rand.New(rand.NewSource(seed))
		idx := make([]int, n)
		for i := range idx {
			idx[i] = i
		}
		r.Shuffle(n, func(i, j int) { idx[i], idx[j] = idx[j], idx[i] })
		ss := make([]string, n)
		for i, v := range idx {
			ss[i] = strconv.Itoa(v)
		}
		if n == 0 {
			parts = append(parts, "-")
		} else {
			parts = append(parts, strings.Join(ss, ","))
		}
	}
	return strings.Join(parts, ";")
}

// VERIF_NO_ORACLE=1 (self-test of the spec-backed op only): the harness does not evaluate the history /
// rotation oracle itself, so that a breach shows up as a disagreement of `offer` with the specification's answer
var noOracle = os.Getenv("VERIF_NO_ORACLE") != ""

func (w *world) exec(op string) (res string) {
	defer func() {
		if r := recover(); r != nil {
			res = "crash:" + strings.ReplaceAll(fmt.Sprint(r), "\n", " ")
			if strings.Contains(res, "nil pointer dereference") {
				res = "crash:nil-host-dereference"
			}
			if strings.Contains(res, "index out of range") {
				res = "crash:index-out-of-range"
			}
			if os.Getenv("VERIF_DEBUG") != "" {
				fmt.Fprintf(os.Stderr, "crash on %q: %v\n", op, r)
			}
		}
	}()
	f := strings.Fields(op)
	if len(f) == 0 {
		return "bad-op"
	}
	switch f[0] {
	case "reset":
		if len(f) != 8 {
			return "bad-op"
		}
		ldc, lrack := "dc"+f[3], "r"+f[4]
		var fb gocql.HostSelectionPolicy
		switch f[1] {
		case "rr":
			fb = gocql.RoundRobinHostPolicy()
		case "dc":
			fb = gocql.DCAwareRoundRobinPolicy(ldc)
		default:
			fb = gocql.RackAwareRoundRobinPolicy(ldc, lrack)
		}
		w.hosts = map[int]*gocql.HostInfo{}
		w.ids = map[*gocql.HostInfo]int{}
		w.isTA = f[2] == "1"
		w.shuf = f[5] == "1"
		w.kind, w.ldc, w.lrack = f[1], ldc, lrack
		if w.kind != "rr" && w.kind != "dc" {
			w.kind = "rack"
		}
		w.nonlocal = w.isTA && f[6] == "1"
		w.partSet = w.isTA && f[7] == "1"
		w.attrs = map[*gocql.HostInfo]hostAttr{}
		w.tables = map[string][]tabEntry{}
		w.hist = map[int]*hstat{}
		w.tableDup = map[string]bool{}
		w.hot = false
		w.lastPlain = nil
		if w.isTA {
			w.pol = newTA(fb, f[5] == "1", f[6] == "1")
			gocql.VerifTAInit(w.pol, "verif_session_ks")
			if f[7] == "1" {
				w.pol.SetPartitioner("OrderedPartitioner")
			}
		} else {
			w.pol = fb
		}
		return "ok"
	case "host":
		if len(f) != 6 {
			return "bad-op"
		}
		id, a := atoi(f[1]), atoi(f[2])
		var toks []string
		for _, t := range intList(f[5]) {
			toks = append(toks, tok(t))
		}
		h := gocql.VerifNewHost(fmt.Sprintf("id-%d", id), net.IPv4(10, 0, byte(a>>8), byte(a)), "dc"+f[3], "r"+f[4], toks)
		if old, ok := w.hosts[id]; ok {
			delete(w.ids, old)
		}
		w.hosts[id] = h
		w.ids[h] = id
		w.attrs[h] = hostAttr{dc: "dc" + f[3], rack: "r" + f[4], toks: intList(f[5])}
		return "ok"
	case "add", "remove", "hup", "hdown":
		if len(f) != 2 {
			return "bad-op"
		}
		h, ok := w.hosts[atoi(f[1])]
		if !ok {
			return "bad-op"
		}
		w.lastPlain = nil
		w.record(f[0], atoi(f[1]))
		switch f[0] {
		case "add":
			w.pol.AddHost(h)
		case "remove":
			w.pol.RemoveHost(h)
		case "hup":
			w.pol.HostUp(h)
		case "hdown":
			w.pol.HostDown(h)
		}
		return w.snapshot()
	case "state":
		h, ok := w.hosts[atoi(f[1])]
		if !ok {
			return "bad-op"
		}
		w.lastPlain = nil
		gocql.VerifSetHostUp(h, f[2] == "1")
		return "ok"
	case "ctr":
		if len(f) != 2 {
			return "bad-op"
		}
		n, err := strconv.ParseUint(f[1], 10, 64)
		if err != nil {
			return "bad-op"
		}
		w.lastPlain = nil
		if !gocql.VerifSetPickCount(w.pol, n) {
			return "crash:verif hook: the policy has no rotation counter named lastUsedHostIdx"
		}
		w.hot = n >= (1<<63)-4096
		return "ok"
	case "repl":
		w.lastPlain = nil
		var toks []string
		var hs [][]*gocql.HostInfo
		for _, e := range f[2:] {
			p := strings.SplitN(e, ":", 2)
			toks = append(toks, tok(atoi(p[0])))
			var l []*gocql.HostInfo
			for _, id := range intList(p[1]) {
				if h, ok := w.hosts[id]; ok {
					l = append(l, h)
				}
			}
			hs = append(hs, l)
		}
		w.tableDup["ks"+f[1]] = false
		for _, l := range hs {
			if hasDup(l) {
				w.tableDup["ks"+f[1]] = true
			}
		}
		if w.isTA {
			if gocql.VerifTASetReplicas(w.pol, "ks"+f[1], toks, hs) {
				tab := make([]tabEntry, len(hs))
				for i := range hs {
					tab[i] = tabEntry{tok: atoi(strings.SplitN(f[2+i], ":", 2)[0]), hosts: hs[i]}
				}
				sort.Slice(tab, func(i, j int) bool { return tab[i].tok < tab[j].tok })
				w.tables["ks"+f[1]] = tab
			}
		}
		return "ok"
	case "pick", "offer":
		// pick <ks|-> <tok|-> <limit> <perms|->      offer <ks|-> <tok|-> <perms|->  (= full drain, answer: sorted ids)
		isOffer := f[0] == "offer"
		if (isOffer && len(f) != 4) || (!isOffer && len(f) != 5) {
			return "bad-op"
		}
		limitS, perms := "1000", f[3]
		if !isOffer {
			limitS, perms = f[3], f[4]
		}
		if isOffer && w.offerExcluded(f[1], f[2], perms) != "" {
			return "excluded"
		}
		var rk []byte
		if f[1] != "-" && f[2] != "-" {
			rk = []byte(tok(atoi(f[2])))
		}
		if perms != "-" {
			// the op line carries, for every replica-list length, the permutation the shuffle must
			// apply; seeds come from a small space so that the seed is recovered from the line.
			sd, ok := findSeed(perms)
			if !ok {
				return "bad-op"
			}
			gocql.VerifSeedShuffle(sd)
		}
		ksName := "ks" + f[1]
		limit := atoi(limitS)
		// the specified head is computed BEFORE the pick (state of the hosts as the iterator will see it)
		var head, headAny []*gocql.HostInfo
		dupReps := false
		// (a replica list with duplicates - the C10 defect's business, excluded from the uniqueness theorems -
		// is left to the model-vs-code comparison)
		reps, known, _ := w.specReplicas(f[1], f[2], perms)
		if known {
			headAny = w.specHead(reps)
			if !hasDup(reps) {
				head = headAny
			} else {
				dupReps = true
			}
		}
		prevPlain := w.lastPlain
		w.lastPlain = nil
		it := w.pol.Pick(gocql.VerifQuery(ksName, rk))
		var got []*gocql.HostInfo
		for n := 0; n < limit; n++ {
			sh := it()
			if sh == nil {
				break
			}
			if sh.Info() == nil {
				return "crash:property violated on the real code: nil host offered"
			}
			got = append(got, sh.Info())
			if n > 500 {
				return "crash:property violated on the real code: the iterator does not end"
			}
		}
		// the property itself, evaluated on the real sequence: the replica phases (every pick) ...
		for i, h := range head {
			if i >= limit {
				break
			}
			if i >= len(got) || got[i] != h {
				return "crash:property violated on the real code: replicas not offered first, tier by tier: expected head=" +
					w.showIDs(head) + " offered=" + w.showIDs(got)
			}
		}
		// ... and on a full drain: only up hosts, every up host, no host twice
		if limit >= 1000 && !noOracle {
			if v := w.oracle(got, len(head), dupReps, headAny); v != "" {
				return "crash:property violated on the real code: " + v + " offered=" + w.showIDs(got)
			}
			// ... and between two successive full drains handed to the round-robin policy as they are
			// (nothing else in between): the starting host of every tier has moved on by one
			if !known && !w.hot {
				if prevPlain != nil {
					if v := w.rotation(prevPlain, got); v != "" {
						return "crash:property violated on the real code: " + v + " previous=" + w.showIDs(prevPlain) + " offered=" + w.showIDs(got)
					}
				}
				w.lastPlain = got
			}
		}
		if isOffer {
			ids := make([]int, len(got))
			for i, h := range got {
				ids[i] = w.ids[h]
			}
			sort.Ints(ids)
			if len(ids) == 0 {
				return "-"
			}
			ss := make([]string, len(ids))
			for i, v := range ids {
				ss[i] = strconv.Itoa(v)
			}
			return strings.Join(ss, ",")
		}
		return w.showIDs(got)
	case "race":
		return "ok"
	}
	return "bad-op"
}

// offerExcluded: the excluded conditions of the theorem C11_history_exact_partial, decided from the op
// lines alone: "" = none (the op `offer` is spec-backed there), otherwise the class of the exclusion.
func (w *world) offerExcluded(ks, tokS, perms string) string {
	if w.alias() {
		return "alias"
	}
	if w.hot {
		return "ctr63" // KF-C11-3
	}
	for _, id := range w.sortedIDs() {
		if w.stat(id).ghost() {
			return "ghost" // KF-C11-4
		}
	}
	if w.tablesHaveDup() {
		return "duptable"
	}
	if reps, known, _ := w.specReplicas(ks, tokS, perms); known {
		for _, h := range w.specHead(reps) {
			if !w.stat(w.ids[h]).expected(true) {
				return "stale" // KF-C11-5
			}
		}
	}
	return ""
}

// oracle checks the property itself on a fully drained sequence of the real iterator: only up hosts,
// every host the HISTORY expects (added, not removed since, last notifier call not HostDown, state up -
// theorem C11_history_complete), no host the history does not expect except under the excluded conditions
// of C11_history_exact_partial (a ghost: KF-C11-4; a stale replica in the specified head: KF-C11-5), no host
// twice (token-aware: unless the replica list itself has a duplicate), and after the replica phases (the
// first nHead hosts) nearer tiers before farther ones. With two host objects on one address (alias) the
// history definition is not applicable and the policy's own lists are used for "the hosts it knows".
func (w *world) oracle(got []*gocql.HostInfo, nHead int, dupReps bool, headAny []*gocql.HostInfo) string {
	seen := map[*gocql.HostInfo]int{}
	for _, h := range got {
		if !h.IsUp() {
			return "down host offered"
		}
		seen[h]++
	}
	if w.alias() {
		layers, _, _ := gocql.VerifPolicyLists(w.pol)
		for _, l := range layers {
			for _, h := range l {
				if h != nil && h.IsUp() && seen[h] == 0 {
					return "up host not offered"
				}
			}
		}
	} else {
		inHead := map[*gocql.HostInfo]bool{}
		for _, h := range headAny {
			inHead[h] = true
		}
		for _, id := range w.sortedIDs() {
			h := w.hosts[id]
			st := w.stat(id)
			if st.expected(h.IsUp()) {
				if seen[h] == 0 {
					return fmt.Sprintf("host %d is known and up by the history (added, not removed, last call %s, state up) but is not offered", id, st.last)
				}
			} else if seen[h] > 0 && !st.ghost() && !inHead[h] {
				return fmt.Sprintf("host %d is offered but the history does not expect it (known=%v last call=%q)", id, st.known, st.last)
			}
		}
	}
	if !dupReps {
		for _, n := range seen {
			if n > 1 {
				return "host offered twice"
			}
		}
		for i := nHead + 1; i < len(got); i++ {
			if w.tier(got[i-1]) > w.tier(got[i]) {
				return "farther tier offered before a nearer one after the replica phases"
			}
		}
	}
	return ""
}

// rotation: prev and next are the full sequences of two successive picks of the round-robin policy with
// nothing in between. Per tier the next sequence is the previous one rotated by one (theorem
// C11_rr_rotates_partial) - or the previous one itself if the host the previous pick started its scan at is
// down; if every listed host of the tier is up (history; not decidable with aliases) it must be the rotation.
func (w *world) rotation(prev, next []*gocql.HostInfo) string {
	allUp := !w.alias()
	if allUp {
		for _, id := range w.sortedIDs() {
			st := w.stat(id)
			if (st.last == "add" || st.last == "hup") && !w.hosts[id].IsUp() {
				allUp = false
			}
		}
	}
	for t := 0; t <= 2; t++ {
		var a, b []*gocql.HostInfo
		for _, h := range prev {
			if w.tier(h) == t {
				a = append(a, h)
			}
		}
		for _, h := range next {
			if w.tier(h) == t {
				b = append(b, h)
			}
		}
		if len(a) != len(b) {
			return fmt.Sprintf("tier %d: successive picks offer different numbers of hosts", t)
		}
		same, rot := true, true
		for i := range a {
			if b[i] != a[i] {
				same = false
			}
			if b[i] != a[(i+1)%len(a)] {
				rot = false
			}
		}
		if !rot && !(same && !allUp) {
			return fmt.Sprintf("tier %d: the starting host did not move on by one between successive picks", t)
		}
	}
	return ""
}

func newTA(fb gocql.HostSelectionPolicy, shuffle, nonlocal bool) gocql.HostSelectionPolicy {
	switch {
	case shuffle && nonlocal:
		return gocql.TokenAwareHostPolicy(fb, gocql.ShuffleReplicas(), gocql.NonLocalReplicasFallback())
	case shuffle:
		return gocql.TokenAwareHostPolicy(fb, gocql.ShuffleReplicas())
	case nonlocal:
		return gocql.TokenAwareHostPolicy(fb, gocql.NonLocalReplicasFallback())
	}
	return gocql.TokenAwareHostPolicy(fb)
}

// the permutation string of an op line determines the seed: seeds are small numbers so that a
// replay (which only sees the op line) can find the seed again.
var seedOf map[string]int64

const seedSpace = 2048

func findSeed(perms string) (int64, bool) {
	if seedOf == nil {
		seedOf = map[string]int64{}
		for s := int64(0); s < seedSpace; s++ {
			seedOf[permsFor(s)] = s
		}
	}
	s, ok := seedOf[perms]
	return s, ok
}

// ---------------------------------------------------------------- generation

type gen struct {
	r   *vh.Rng
	out *vh.Out
	w   *world
	// generator-side knowledge for the distribution
	kind            string
	ta, nonlocal    bool
	n               int
	dist            map[string]int
	ldc, lrack      int
	hostDC, hostRck map[int]int
}

func (g *gen) emit(op, class string, nontrivial bool) string {
	a := g.w.exec(op)
	g.out.Case(op, a, class, nontrivial)
	return a
}

func (g *gen) scenario(maxHosts, nOps int) {
	r := g.r
	g.kind = []string{"rr", "dc", "rack"}[r.Intn(3)]
	g.ta = r.Intn(3) != 0
	shuffle := g.ta && r.Intn(3) == 0
	g.nonlocal = g.ta && r.Bool()
	partSet := r.Intn(8) != 0
	g.ldc, g.lrack = r.Intn(2), r.Intn(2)
	b := b01
	g.emit(fmt.Sprintf("reset %s %s %d %d %s %s %s", g.kind, b(g.ta), g.ldc, g.lrack, b(shuffle), b(g.nonlocal), b(partSet)), "reset/"+g.kind+"/ta"+b(g.ta), false)
	g.n = 1 + r.Intn(maxHosts)
	usedTok := map[int]bool{}
	ndc := 1 + r.Intn(3)
	nrack := 1 + r.Intn(3)
	for id := 1; id <= g.n; id++ {
		addr := id
		if id > 1 && r.Intn(10) == 0 {
			addr = 1 + r.Intn(id-1) // a second object with the address of an earlier one
		}
		var toks []string
		for k := r.Intn(3); k > 0; k-- {
			t := r.Intn(600)*16 + id
			if !usedTok[t] {
				usedTok[t] = true
				toks = append(toks, strconv.Itoa(t))
			}
		}
		ts := "-"
		if len(toks) > 0 {
			ts = strings.Join(toks, ",")
		}
		g.emit(fmt.Sprintf("host %d %d %d %d %s", id, addr, r.Intn(ndc), r.Intn(nrack), ts), "host", false)
	}
	// most scenarios start with most hosts added
	if r.Intn(5) != 0 {
		for id := 1; id <= g.n; id++ {
			if r.Intn(6) != 0 {
				g.emit(fmt.Sprintf("add %d", id), "add", true)
			}
		}
	}
	if g.ta && r.Intn(4) != 0 {
		g.repl()
	}
	for i := 0; i < nOps; i++ {
		id := 1 + r.Intn(g.n)
		switch x := r.Intn(100); {
		case x < 8:
			g.emit(fmt.Sprintf("add %d", id), "add", true)
		case x < 14:
			g.emit(fmt.Sprintf("remove %d", id), "remove", true)
		case x < 19:
			g.emit(fmt.Sprintf("hup %d", id), "hup", true)
		case x < 24:
			g.emit(fmt.Sprintf("hdown %d", id), "hdown", true)
		case x < 36:
			g.emit(fmt.Sprintf("state %d %d", id, r.Intn(2)), "state", false)
		case x < 42:
			if g.ta {
				g.repl()
			}
		default:
			g.pick()
		}
	}
}

func (g *gen) repl() {
	r := g.r
	nt := 1 + r.Intn(4)
	seen := map[int]bool{}
	var parts []string
	for i := 0; i < nt; i++ {
		t := r.Intn(9999)
		if seen[t] {
			continue
		}
		seen[t] = true
		k := r.Intn(5)
		var ids []string
		for j := 0; j < k; j++ {
			ids = append(ids, strconv.Itoa(1+r.Intn(g.n)))
		}
		if r.Intn(6) != 0 { // mostly without duplicates
			ids = dedup(ids)
		}
		l := "-"
		if len(ids) > 0 {
			l = strings.Join(ids, ",")
		}
		parts = append(parts, fmt.Sprintf("%d:%s", t, l))
	}
	g.emit(fmt.Sprintf("repl %d %s", r.Intn(2), strings.Join(parts, " ")), "repl", false)
}

func dedup(l []string) []string {
	seen := map[string]bool{}
	var out []string
	for _, x := range l {
		if !seen[x] {
			seen[x] = true
			out = append(out, x)
		}
	}
	return out
}

func (g *gen) pick() {
	r := g.r
	ks, tk := "-", "-"
	if r.Intn(5) != 0 {
		ks = strconv.Itoa(r.Intn(3))
		tk = strconv.Itoa(r.Intn(10000))
	}
	limit := 1000
	if r.Intn(4) == 0 {
		limit = r.Intn(6)
	}
	g.pickWith(ks, tk, limit, r.Intn(2) == 0)
}

// pickWith emits one pick. A full drain under none of the excluded conditions of C11_history_exact_partial
// is emitted as the SPEC-BACKED op `offer` (if wantOffer); every other pick as `pick` (sequence compared with
// the model; the harness evaluates the property on the real sequence), its class naming the exclusion.
func (g *gen) pickWith(ks, tk string, limit int, wantOffer bool) string {
	r := g.r
	perms := "-"
	if g.w.shuf {
		perms = permsFor(int64(r.Intn(seedSpace)))
	}
	cls := "/" + g.kind
	if g.ta {
		cls += "/ta"
	} else {
		cls += "/plain"
	}
	if ks == "-" || tk == "-" {
		cls += "/nokey"
	} else {
		cls += "/key"
	}
	if limit < 1000 {
		cls += "/limited"
	}
	// the states of the two fixed findings, counted in the distribution
	if reps, known, empty := g.w.specReplicas(ks, tk, perms); empty {
		cls += "/emptyring"
	} else if known && g.w.hasGap(reps) {
		cls += "/tiergap"
		if hasDup(reps) {
			cls += "-dup"
		}
	}
	excl := g.w.offerExcluded(ks, tk, perms)
	if limit >= 1000 && excl == "" && wantOffer {
		return g.emit(fmt.Sprintf("offer %s %s %s", ks, tk, perms), "offer"+cls, true)
	}
	if excl != "" {
		cls += "/x-" + excl
	}
	return g.emit(fmt.Sprintf("pick %s %s %d %s", ks, tk, limit, perms), "pick"+cls, true)
}

func b01(x bool) string {
	if x {
		return "1"
	}
	return "0"
}

// boundaryScenario (family "any number of successive picks"): a policy with 2..7 hosts - most of them in
// the local tier, so that tiers of 3, 5, 6, 7 hosts occur, sizes that do not divide a power of two - whose
// rotation counter is PRESET to B-k, k = 1..8, for boundaries B of integer representations (2^15, 2^16, 2^31,
// 2^32, 2^53, 2^62: cold; 2^63 and 2^64: the region of the known finding KF-C11-3, `hot`), followed by 16
// picks across the boundary (full drains mostly: no panic, complete, unique, and the starting host of each
// tier moves on by one from pick to pick).
func (g *gen) boundaryScenario(hot bool) {
	r := g.r
	g.kind = []string{"rr", "dc", "rack"}[r.Intn(3)]
	g.ta = r.Intn(2) == 0
	shuffle := g.ta && r.Intn(3) == 0
	g.nonlocal = g.ta && r.Bool()
	g.ldc, g.lrack = r.Intn(2), r.Intn(2)
	g.emit(fmt.Sprintf("reset %s %s %d %d %s %s 1", g.kind, b01(g.ta), g.ldc, g.lrack, b01(shuffle), b01(g.nonlocal)), "reset/"+g.kind+"/ta"+b01(g.ta), false)
	g.n = 2 + r.Intn(6)
	for id := 1; id <= g.n; id++ {
		dc, rack := g.ldc, g.lrack
		if r.Intn(4) == 0 {
			dc = 1 - dc
		}
		if r.Intn(4) == 0 {
			rack = 1 - rack
		}
		g.emit(fmt.Sprintf("host %d %d %d %d %d", id, id, dc, rack, id*16+r.Intn(9)*1000), "host", false)
		g.emit(fmt.Sprintf("add %d", id), "add", true)
	}
	if r.Intn(4) == 0 {
		for k := 1 + r.Intn(2); k > 0; k-- {
			g.emit(fmt.Sprintf("state %d 0", 1+r.Intn(g.n)), "state", false)
		}
	}
	if g.ta && r.Intn(3) != 0 {
		g.repl()
	}
	cold := []uint64{1 << 15, 1 << 16, 1 << 31, 1 << 32, 1 << 53, 1 << 62}
	for round := 0; round < 2; round++ {
		var base uint64
		name := ""
		if hot {
			if r.Bool() {
				base, name = 1<<63, "2^63"
			} else {
				base, name = 0, "2^64" // 0 - k wraps to 2^64 - k
			}
		} else {
			i := r.Intn(len(cold))
			if r.Intn(3) != 0 {
				i = 2 + r.Intn(2) // 2^31 and 2^32 most often
			}
			base = cold[i]
			name = fmt.Sprintf("2^%d", []int{15, 16, 31, 32, 53, 62}[i])
		}
		k := uint64(1 + r.Intn(8))
		g.emit(fmt.Sprintf("ctr %d", base-k), "ctr/"+name, true)
		for i := 0; i < 16; i++ {
			switch x := r.Intn(10); {
			case x < 7 || !g.ta:
				if x == 9 {
					g.pickWith("-", "-", r.Intn(4), false)
				} else {
					g.pickWith("-", "-", 1000, r.Intn(3) == 0)
				}
			default:
				g.pickWith(strconv.Itoa(r.Intn(2)), strconv.Itoa(r.Intn(10000)), 1000, r.Intn(3) == 0)
			}
		}
	}
}

var evNames = []string{"add", "remove", "hup", "hdown"}

// historyScenario (family "AddHost / RemoveHost / HostUp / HostDown for the SAME host in every order"): three
// hosts in different tiers; the notifier calls of `seq` are applied to the focus host 1 (the others get a call
// now and then); HostInfo states follow the session's habit (down before HostDown, up before HostUp) most of
// the time; after every call the policy is observed with a full drain without routing key and - token-aware -
// with a routing key (keyspace with a replica table, keyspace without): `offer` (spec-backed: exactly the hosts
// the history expects) unless an excluded condition holds, then `pick`.
func (g *gen) historyScenario(kind string, ta bool, seq []int) {
	r := g.r
	g.kind, g.ta = kind, ta
	shuffle := ta && r.Intn(4) == 0
	g.nonlocal = ta && r.Bool()
	g.ldc, g.lrack = 0, 0
	g.emit(fmt.Sprintf("reset %s %s 0 0 %s %s 1", kind, b01(ta), b01(shuffle), b01(g.nonlocal)), "reset/"+kind+"/ta"+b01(ta), false)
	places := [][2]int{{0, 0}, {0, 1}, {1, 0}}
	g.n = 3
	rot := r.Intn(3)
	for id := 1; id <= 3; id++ {
		pl := places[(id-1+rot)%3]
		if r.Intn(4) == 0 {
			pl = places[r.Intn(3)]
		}
		g.emit(fmt.Sprintf("host %d %d %d %d %d", id, id, pl[0], pl[1], id*100), "host", false)
	}
	for id := 2; id <= 3; id++ {
		if r.Intn(6) != 0 {
			g.emit(fmt.Sprintf("add %d", id), "add", true)
		}
	}
	if ta && r.Intn(4) != 0 {
		g.emit("repl 0 150:1,2 250:2,3 350:3,1", "repl", false)
	}
	observe := func() {
		g.pickWith("-", "-", 1000, true)
		if ta {
			// token 120 -> table entry 150 (replicas 1,2) in keyspace 0; keyspace 1 has no table: ring owner
			g.pickWith(strconv.Itoa(r.Intn(2)), strconv.Itoa(100+r.Intn(300)), 1000, true)
		}
	}
	for _, e := range seq {
		ev := evNames[e]
		switch ev {
		case "hdown":
			if r.Intn(4) != 0 {
				g.emit("state 1 0", "state", false)
			}
		case "hup":
			if r.Intn(4) != 0 {
				g.emit("state 1 1", "state", false)
			}
		default:
			if r.Intn(6) == 0 {
				g.emit(fmt.Sprintf("state 1 %d", r.Intn(2)), "state", false)
			}
		}
		g.emit(ev+" 1", ev, true)
		if r.Intn(3) == 0 {
			g.emit("state 1 1", "state", false)
		}
		if r.Intn(5) == 0 {
			g.emit(fmt.Sprintf("%s %d", evNames[r.Intn(4)], 2+r.Intn(2)), "other", true)
		}
		observe()
	}
	// the node is reported up again in the end: everything the history expects must be back
	g.emit("state 1 1", "state", false)
	observe()
}

// histories: every sequence of notifier calls of length 1..maxLen on the focus host + `extra` random longer ones,
// for every policy kind, bare and token-aware
func (g *gen) histories(maxLen, extra int) {
	var seqs [][]int
	var rec func(cur []int)
	rec = func(cur []int) {
		if len(cur) > 0 {
			seqs = append(seqs, append([]int(nil), cur...))
		}
		if len(cur) == maxLen {
			return
		}
		for e := 0; e < 4; e++ {
			rec(append(cur, e))
		}
	}
	rec(nil)
	for i := 0; i < extra; i++ {
		n := maxLen + 1 + g.r.Intn(4)
		sq := make([]int, n)
		for j := range sq {
			sq[j] = g.r.Intn(4)
		}
		seqs = append(seqs, sq)
	}
	for _, kind := range []string{"rr", "dc", "rack"} {
		for _, ta := range []bool{false, true} {
			for _, sq := range seqs {
				g.historyScenario(kind, ta, sq)
			}
		}
	}
}

// exhaustive small scope (thorough): token-aware over every fallback kind, with and without non-local
// fallback, 4 hosts with every assignment of (dc, rack) in {(0,0),(0,1),(1,0)}, every up/down pattern,
// every replica list of at most 2 distinct hosts; full drain of one pick each; plus, per up/down pattern,
// a pick on a keyspace without replica table (empty token ring: the state of the fixed finding KF-C11-2).
func exhaustive(g *gen) {
	places := [][2]int{{0, 0}, {0, 1}, {1, 0}}
	var repls []string
	repls = append(repls, "-")
	for a := 1; a <= 4; a++ {
		repls = append(repls, strconv.Itoa(a))
		for b := 1; b <= 4; b++ {
			if a != b {
				repls = append(repls, fmt.Sprintf("%d,%d", a, b))
			}
		}
	}
	for _, kind := range []string{"rr", "dc", "rack"} {
		for nl := 0; nl < 2; nl++ {
			for asg := 0; asg < 81; asg++ {
				g.emit(fmt.Sprintf("reset %s 1 0 0 0 %d 1", kind, nl), "exh/reset", false)
				x := asg
				for id := 1; id <= 4; id++ {
					pl := places[x%3]
					x /= 3
					g.emit(fmt.Sprintf("host %d %d %d %d -", id, id, pl[0], pl[1]), "exh/host", false)
					g.emit(fmt.Sprintf("add %d", id), "exh/add", false)
				}
				for pat := 0; pat < 16; pat++ {
					for id := 1; id <= 4; id++ {
						g.emit(fmt.Sprintf("state %d %d", id, (pat>>(id-1))&1), "exh/state", false)
					}
					for _, rp := range repls {
						g.emit("repl 0 500:"+rp, "exh/repl", false)
						g.emit("pick 0 100 1000 -", "exh/pick/"+kind, true)
					}
					// keyspace without replica table, no host has tokens: the empty-ring state of KF-C11-2
					g.emit("pick 1 100 1000 -", "exh/pick/"+kind+"/emptyring", true)
					g.emit("pick 1 100 1 -", "exh/pick/"+kind+"/emptyring", true)
				}
			}
		}
	}
}

var raceNil, racePanics int64

// raceRun: picks run concurrently with add/remove/up/down/state changes on the real policy
// (meaningful under -race): no panic, no nil host, every drain terminates.
func raceRun(r *vh.Rng, rounds int) string {
	for round := 0; round < rounds; round++ {
		kind := []string{"rr", "dc", "rack"}[r.Intn(3)]
		w := &world{}
		w.exec(fmt.Sprintf("reset %s 1 0 0 %d %d 1", kind, r.Intn(2), r.Intn(2)))
		n := 8
		for id := 1; id <= n; id++ {
			w.exec(fmt.Sprintf("host %d %d %d %d %d,%d", id, id, id%2, id%3, id*16, 5000+id*16))
			w.exec(fmt.Sprintf("add %d", id))
		}
		w.exec("repl 0 100:1,2,3 2000:4,5,6 6000:7,8,1")
		var wg, wgM sync.WaitGroup
		stop := int32(0)
		for p := 0; p < 4; p++ {
			wg.Add(1)
			seed := r.U64()
			go func() {
				defer wg.Done()
				defer func() {
					if rec := recover(); rec != nil {
						atomic.AddInt64(&racePanics, 1)
					}
				}()
				lr := vh.NewRng(seed)
				for atomic.LoadInt32(&stop) == 0 {
					var rk []byte
					if lr.Intn(4) != 0 {
						rk = []byte(tok(lr.Intn(10000)))
					}
					it := w.pol.Pick(gocql.VerifQuery("ks0", rk))
					for k := 0; k < 100; k++ {
						sh := it()
						if sh == nil {
							break
						}
						if sh.Info() == nil {
							atomic.AddInt64(&raceNil, 1)
						}
						if k == 99 {
							atomic.AddInt64(&raceNil, 1)
						}
					}
				}
			}()
		}
		for m := 0; m < 2; m++ {
			wgM.Add(1)
			seed := r.U64()
			go func() {
				defer wgM.Done()
				defer func() {
					if rec := recover(); rec != nil {
						atomic.AddInt64(&racePanics, 1)
					}
				}()
				lr := vh.NewRng(seed)
				for i := 0; i < 300; i++ {
					h := w.hosts[1+lr.Intn(n)]
					switch lr.Intn(5) {
					case 0:
						w.pol.AddHost(h)
					case 1:
						w.pol.RemoveHost(h)
					case 2:
						w.pol.HostUp(h)
					case 3:
						w.pol.HostDown(h)
					default:
						gocql.VerifSetHostUp(h, lr.Bool())
					}
				}
			}()
		}
		wgM.Wait()
		atomic.StoreInt32(&stop, 1)
		wg.Wait()
	}
	if racePanics != 0 || raceNil != 0 {
		return fmt.Sprintf("crash:race panics=%d nil-or-endless=%d", racePanics, raceNil)
	}
	return "ok"
}

func main() {
	mode, tier, path := vh.Args()
	if mode == "replay" {
		w := &world{}
		for _, l := range vh.ReadLines(path) {
			fmt.Println(w.exec(l))
		}
		return
	}
	r := vh.NewRng(vh.EnvSeed())
	out := vh.NewOut(path)
	g := &gen{r: r, out: out, w: &world{}}
	// the two families with an observation right after every mutation come first, so that the first
	// disagreements of a run are on observed sequences (spec-backed) and not on list snapshots
	if tier == "thorough" {
		g.histories(5, 400)
	} else {
		g.histories(3, 40)
	}
	nb := 150
	if tier == "thorough" {
		nb = 1500
	}
	for i := 0; i < nb; i++ {
		g.boundaryScenario(i%4 == 3)
	}
	scen := 400
	if tier == "thorough" {
		scen = 400 * 30
	}
	for i := 0; i < scen; i++ {
		switch {
		case i%10 == 0:
			g.scenario(3, 15+r.Intn(20)) // tiny clusters
		case i%10 == 1:
			g.scenario(14, 40+r.Intn(60))
		default:
			g.scenario(8, 20+r.Intn(40))
		}
	}
	extra := map[string]interface{}{}
	if tier == "thorough" {
		exhaustive(g)
		res := raceRun(r, 40)
		out.Case("race 40", res, "race", false)
		extra["race_rounds"] = 40
	}
	out.Close(extra)
}
