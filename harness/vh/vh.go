// Package vh: shared helpers of the verification harness (PRNG, hex, line writer, stats).
package vh

import (
	"bufio"
	"encoding/hex"
	"encoding/json"
	"fmt"
	"os"
	"sort"
	"strconv"
)

// Rng is a splitmix64 PRNG: every random choice of a run derives from VERIF_SEED.
type Rng struct{ s uint64 }

// NewRng scrambles the seed first: with a linear seed the streams of seeds n and n+1 are the same stream
// shifted by one draw, so a sweep over consecutive VERIF_SEED values would explore almost nothing new.
func NewRng(seed uint64) *Rng {
	z := seed + 0x1234567
	z = (z ^ (z >> 30)) * 0xBF58476D1CE4E5B9
	z = (z ^ (z >> 27)) * 0x94D049BB133111EB
	z ^= z >> 31
	return &Rng{s: z}
}
func (r *Rng) U64() uint64 {
	r.s += 0x9E3779B97F4A7C15
	z := r.s
	z = (z ^ (z >> 30)) * 0xBF58476D1CE4E5B9
	z = (z ^ (z >> 27)) * 0x94D049BB133111EB
	return z ^ (z >> 31)
}
func (r *Rng) Intn(n int) int {
	if n <= 0 {
		return 0
	}
	return int(r.U64() % uint64(n))
}
func (r *Rng) Bool() bool { return r.U64()&1 == 1 }
func (r *Rng) Bytes(n int) []byte {
	b := make([]byte, n)
	for i := range b {
		b[i] = byte(r.U64())
	}
	return b
}

// Pick returns one of the arguments.
func (r *Rng) PickByte(bs []byte) byte { return bs[r.Intn(len(bs))] }

func Hex(b []byte) string {
	if len(b) == 0 {
		return "-"
	}
	return hex.EncodeToString(b)
}
func UnHex(s string) ([]byte, error) {
	if s == "-" {
		return []byte{}, nil
	}
	return hex.DecodeString(s)
}

// Out collects op lines + implementation answers and run statistics.
type Out struct {
	ops, impl *bufio.Writer
	fo, fi    *os.File
	N         int
	Dist      map[string]int
	Samples   []string
	distinct  map[string]struct{}
	dir       string
}

func NewOut(dir string) *Out {
	os.MkdirAll(dir, 0o755)
	fo, err := os.Create(dir + "/ops.txt")
	if err != nil {
		panic(err)
	}
	fi, err := os.Create(dir + "/impl.txt")
	if err != nil {
		panic(err)
	}
	return &Out{ops: bufio.NewWriterSize(fo, 1<<20), impl: bufio.NewWriterSize(fi, 1<<20), fo: fo, fi: fi,
		Dist: map[string]int{}, distinct: map[string]struct{}{}, dir: dir}
}

// Case records one op line and the implementation's canonical answer. `class` is a
// distribution bucket (op kind, size class, branch...), nontrivial tells whether the
// case counts towards distinct_nontrivial.
func (o *Out) Case(op string, impl string, class string, nontrivial bool) {
	fmt.Fprintln(o.ops, op)
	fmt.Fprintln(o.impl, impl)
	o.N++
	o.Dist[class]++
	if nontrivial {
		o.distinct[op] = struct{}{}
	}
	if len(o.Samples) < 12 && (o.N%97 == 1 || o.N < 4) {
		o.Samples = append(o.Samples, op+" => "+impl)
	}
}

func (o *Out) Close(extra map[string]interface{}) {
	o.ops.Flush()
	o.impl.Flush()
	o.fo.Close()
	o.fi.Close()
	keys := make([]string, 0, len(o.Dist))
	for k := range o.Dist {
		keys = append(keys, k)
	}
	sort.Strings(keys)
	st := map[string]interface{}{
		"evaluations":         o.N,
		"distinct_nontrivial": len(o.distinct),
		"distribution":        o.Dist,
		"samples":             o.Samples,
	}
	for k, v := range extra {
		st[k] = v
	}
	b, _ := json.MarshalIndent(st, "", " ")
	os.WriteFile(o.dir+"/stats.json", b, 0o644)
}

func EnvSeed() uint64 {
	s := os.Getenv("VERIF_SEED")
	if s == "" {
		return 1
	}
	v, err := strconv.ParseInt(s, 10, 64)
	if err != nil {
		return 1
	}
	return uint64(v)
}

// Args parses `<mode> <tier> <outdir|file>`.
func Args() (mode, tier, path string) {
	if len(os.Args) < 4 {
		fmt.Fprintln(os.Stderr, "usage: <harness> run <quick|thorough> <outdir> | replay - <opsfile>")
		os.Exit(2)
	}
	return os.Args[1], os.Args[2], os.Args[3]
}

// ReadLines reads a file into lines.
func ReadLines(path string) []string {
	f, err := os.Open(path)
	if err != nil {
		panic(err)
	}
	defer f.Close()
	var out []string
	sc := bufio.NewScanner(f)
	sc.Buffer(make([]byte, 1<<20), 1<<28)
	for sc.Scan() {
		out = append(out, sc.Text())
	}
	return out
}
