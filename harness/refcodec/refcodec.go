// Package refcodec: an independent reference serializer of CQL scalar values, written from the native protocol
// specification (section 6) with math/big arithmetic only — it shares no code with gocql or with the Lean model.
// It is used to produce specification-conformant bytes for the decode direction (op `specdec`) and as a search
// oracle; it never decides a verdict by itself (the Lean specification codec does).
package refcodec

import "math/big"

// Twos: n as k-byte big-endian two's complement (n must fit).
func Twos(n *big.Int, k int) []byte {
	m := new(big.Int).Lsh(big.NewInt(1), uint(8*k))
	x := new(big.Int).Mod(n, m) // Euclidean: 0 <= x < 2^(8k)
	b := x.Bytes()
	out := make([]byte, k)
	copy(out[k-len(b):], b)
	return out
}

func fits(n *big.Int, k int) bool {
	lim := new(big.Int).Lsh(big.NewInt(1), uint(8*k-1))
	return n.Cmp(new(big.Int).Neg(lim)) >= 0 && n.Cmp(lim) < 0
}

// Varint: the shortest two's complement representation.
func Varint(n *big.Int) []byte {
	k := 1
	for !fits(n, k) {
		k++
	}
	return Twos(n, k)
}

// UVint: unsigned vint of u < 2^64.
func UVint(u *big.Int) []byte {
	size := 9
	for s := 1; s <= 8; s++ {
		if u.Cmp(new(big.Int).Lsh(big.NewInt(1), uint(7*s))) < 0 {
			size = s
			break
		}
	}
	b := u.Bytes()
	out := make([]byte, size)
	copy(out[size-len(b):], b)
	// size-1 leading one bits
	mask := 0
	for i := 0; i < size-1; i++ {
		mask |= 0x80 >> uint(i)
	}
	out[0] |= byte(mask)
	return out
}

// Vint: zig-zag then unsigned vint.
func Vint(n *big.Int) []byte {
	z := new(big.Int).Lsh(n, 1)
	if n.Sign() < 0 {
		z.Neg(z)
		z.Sub(z, big.NewInt(1))
	}
	return UVint(z)
}

// Scalar value of the reference codec.
type AV struct {
	Int    *big.Int // integers, timestamp ms, time ns, date days since epoch
	Bytes  []byte   // text/blob/uuid/inet
	Bool   bool
	Bits   uint64   // float / double
	Scale  *big.Int // decimal
	M, D   *big.Int // duration months, days (nanoseconds in Int)
}

// Encode returns the specification's encoding, or nil,false if the value is not a value of the type.
func Encode(t string, v AV) ([]byte, bool) {
	fixed := func(k int) ([]byte, bool) {
		if !fits(v.Int, k) {
			return nil, false
		}
		return Twos(v.Int, k), true
	}
	switch t {
	case "tinyint":
		return fixed(1)
	case "smallint":
		return fixed(2)
	case "int":
		return fixed(4)
	case "bigint", "counter", "timestamp", "time":
		return fixed(8)
	case "varint":
		return Varint(v.Int), true
	case "date":
		d := new(big.Int).Add(v.Int, new(big.Int).Lsh(big.NewInt(1), 31))
		if d.Sign() < 0 || d.BitLen() > 32 {
			return nil, false
		}
		return Twos(d, 4), true
	case "ascii", "text", "varchar", "blob":
		return append([]byte{}, v.Bytes...), true
	case "uuid", "timeuuid":
		return append([]byte{}, v.Bytes...), len(v.Bytes) == 16
	case "inet":
		return append([]byte{}, v.Bytes...), len(v.Bytes) == 4 || len(v.Bytes) == 16
	case "boolean":
		if v.Bool {
			return []byte{1}, true
		}
		return []byte{0}, true
	case "float":
		return Twos(new(big.Int).SetUint64(v.Bits&0xffffffff), 4), true
	case "double":
		return Twos(new(big.Int).SetUint64(v.Bits), 8), true
	case "decimal":
		if !fits(v.Scale, 4) {
			return nil, false
		}
		return append(Twos(v.Scale, 4), Varint(v.Int)...), true
	case "duration":
		if !fits(v.M, 4) || !fits(v.D, 4) || !fits(v.Int, 8) {
			return nil, false
		}
		return append(append(Vint(v.M), Vint(v.D)...), Vint(v.Int)...), true
	}
	return nil, false
}

// ---------- composite values (collection framing of both protocol generations, tuple / UDT fields) ----------

// Node is a CQL type tree: a scalar name, or list / set (1 child), map (2), tuple / udt (fields).
type Node struct {
	Name  string
	Elems []*Node
}

// CV is an abstract column value: null, a scalar, or the children of a composite (list / set: the elements; map: key,
// value alternating; tuple / udt: the fields PRESENT — fewer than the type has = trailing fields absent).
type CV struct {
	Null  bool
	AV    AV
	Elems []*CV
}

func be(n, width int) []byte {
	out := make([]byte, width)
	for i := width - 1; i >= 0; i-- {
		out[i] = byte(n)
		n >>= 8
	}
	return out
}

// count / element length of the collection framing: [int] from protocol 3, [short] (unsigned) before
func collLen(proto, n int) ([]byte, bool) {
	if proto >= 3 {
		return be(n, 4), n < 1<<31
	}
	return be(n, 2), n < 1<<16
}

func collElem(proto int, t *Node, v *CV) ([]byte, bool) {
	if v.Null {
		if proto >= 3 {
			return []byte{0xff, 0xff, 0xff, 0xff}, true
		}
		return nil, false // no null in the 2-byte framing
	}
	b, ok := EncodeCV(proto, t, v)
	if !ok {
		return nil, false
	}
	l, ok := collLen(proto, len(b))
	return append(l, b...), ok
}

// EncodeCV returns the specification's encoding of a non-null value.
func EncodeCV(proto int, t *Node, v *CV) ([]byte, bool) {
	switch t.Name {
	case "list", "set":
		out, ok := collLen(proto, len(v.Elems))
		if !ok {
			return nil, false
		}
		for _, e := range v.Elems {
			b, ok := collElem(proto, t.Elems[0], e)
			if !ok {
				return nil, false
			}
			out = append(out, b...)
		}
		return out, true
	case "map":
		out, ok := collLen(proto, len(v.Elems)/2)
		if !ok {
			return nil, false
		}
		for i, e := range v.Elems {
			b, ok := collElem(proto, t.Elems[i%2], e)
			if !ok {
				return nil, false
			}
			out = append(out, b...)
		}
		return out, true
	case "tuple", "udt":
		out := []byte{}
		if len(v.Elems) > len(t.Elems) {
			return nil, false
		}
		for i, e := range v.Elems {
			if e.Null {
				out = append(out, 0xff, 0xff, 0xff, 0xff)
				continue
			}
			b, ok := EncodeCV(proto, t.Elems[i], e)
			if !ok || len(b) >= 1<<31 {
				return nil, false
			}
			out = append(append(out, be(len(b), 4)...), b...)
		}
		return out, true
	}
	return Encode(t.Name, v.AV)
}
