#!/bin/bash
# usage: seedverify.sh <Cxx> <n> [props...]
# Confirms a seeded change from /tmp/seed/<id>/out/<n> in the scratch worktree /tmp/seed/<id>/wt (demo passes at HEAD, patch applies,
# build + baseline pass with the patch, demo fails with it) and runs the checks against that worktree (VERIF_REPO); /repo is not touched.
set -u
ID=$1; N=$2; shift 2
PROPS=${@:-$ID}
export GOFLAGS=-mod=mod GOPROXY=off GOSUMDB=off GOTOOLCHAIN=local
S=/tmp/seed/$ID; O=$S/out/$N; WT=$S/wt
[ -d /verif/seeded/$ID-$N ] && O=/verif/seeded/$ID-$N
[ -d $WT ] || git -C /repo worktree add -q --detach $WT HEAD
PLACE=$(python3 -c "import json;print(json.load(open('$O/meta.json'))['demo_placement'].split()[0])")
case "$PLACE" in */|.) PLACE="${PLACE%/}/zz_seed_demo_test.go";; esac
CMD=$(python3 -c "import json;print(json.load(open('$O/meta.json'))['demo_cmd'])")
cd $WT && git checkout -q -- . && git clean -fdq
echo "== demo WITHOUT patch"; cp $O/demo_test.go $WT/$PLACE; (cd $WT && timeout 900 bash -c "$CMD" >/tmp/seed_demo0_$ID.txt 2>&1; echo "rc=$?"); tail -n 2 /tmp/seed_demo0_$ID.txt | cut -c1-200
rm -f $WT/$PLACE
git apply $O/patch.diff || { echo "PATCH DOES NOT APPLY"; exit 1; }
echo "== build + baseline WITH patch"; (go build ./... && go test -vet=off -count=1 ./... 2>&1 | grep -v '^ok\|no test files' | tail -n 5; echo "root rc=${PIPESTATUS[0]}"; cd lz4 && go test -vet=off -count=1 ./... 2>&1 | tail -n 1)
cp $O/demo_test.go $WT/$PLACE
echo "== demo WITH patch"; (timeout 900 bash -c "$CMD" >/tmp/seed_demo1_$ID.txt 2>&1; echo "rc=$?"); grep -m3 -- '--- FAIL\|panic:' /tmp/seed_demo1_$ID.txt | cut -c1-200
rm -f $WT/$PLACE
echo "== /verif checks against the patched worktree"
cd /verif && for p in $PROPS; do VERIF_REPO=$WT ./check $p quick 2>&1 | grep -v KNOWN-FINDING | tail -n 3 | cut -c1-250; done
cd $WT && git checkout -q -- . && git clean -fdq
