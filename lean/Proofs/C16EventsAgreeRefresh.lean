import Proofs.C16EventsAgree
/-! helper lemmas: `Agree` is kept by `View.refresh`, whatever is reported -/
namespace C16
open Ring ClusterView

theorem removeAllV_agree (env : Env) (prev : List (Nat × RHost)) : ∀ (v : View), Agree env v →
    (∀ e ∈ prev, lookup v.ring.byId e.1 = some e.2) → (keys prev).Nodup → Agree env (removeAllV env v prev) := by
  induction prev with
  | nil => intro v ha _ _; exact ha
  | cons p t ih =>
    intro v ha hp hn
    obtain ⟨k, x⟩ := p
    simp only [removeAllV]
    have hk : lookup v.ring.byId k = some x := hp (k, x) List.mem_cons_self
    have hxid : x.id = k := ha.sinv.wf _ (lookup_some_mem _ _ _ hk)
    simp only [keys, List.map_cons, List.nodup_cons] at hn
    apply ih
    · exact agree_removeHost env v x ha (by rw [hxid]; exact hk)
    · intro e he
      have hne : e.1 ≠ k := fun e1 => hn.1 (List.mem_map.mpr ⟨e, he, e1⟩)
      rw [removeHost_ring, lookup_remove, hxid]
      simp only [hne, ↓reduceIte]
      exact hp e (List.mem_cons_of_mem _ he)
    · exact hn.2

theorem gone_sub (env : Env) (v : View) (reported : List RHost) : ∀ e ∈ goneV env v reported, e ∈ v.ring.byId :=
  fun e he => (List.mem_filter.mp he).1

theorem gone_nodup (env : Env) (v : View) (hn : (keys v.ring.byId).Nodup) (reported : List RHost) :
    (keys (goneV env v reported)).Nodup := by
  unfold goneV goneOf keys at *
  exact List.Sublist.nodup (List.Sublist.map _ List.filter_sublist) hn

/-- `Agree` holds after pass 1 -/
theorem agree_pass1 (env : Env) (v : View) (ha : Agree env v) (reported : List RHost) :
    Agree env (removeAllV env v (goneV env v reported)) :=
  removeAllV_agree env _ v ha (fun e he => lookup_of_mem_nodup _ ha.sinv.knodup e (gone_sub env v reported e he))
    (gone_nodup env v ha.sinv.knodup reported)

/-- `Agree` is kept by a refresh, whatever is reported -/
theorem agree_refresh (env : Env) (v : View) (ha : Agree env v) (reported : List RHost) :
    Agree env (v.refresh env reported) := by
  rw [refreshV_eq]
  exact addAllV_preserves env (Agree env) (fun w h hw hl => agree_addNew env w h hw hl) _ _ (agree_pass1 env v ha reported)

/-! the handlers -/

theorem byIP_current (r : Ring.Ring) (hs : SInv r) (a : Nat) (h : RHost) (hg : r.getHostByIP a = (some h, true)) :
    lookup r.byId h.id = some h := by
  obtain ⟨x, e, m, _⟩ := NoStale_lookup r hs.knodup hs.ns a _ hg
  cases e
  simp only [Ring.allHosts, List.mem_map] at m
  obtain ⟨p, hp, rfl⟩ := m
  exact getHost_of_mem r hs.wf hs.knodup p hp

theorem agree_nodeUp (env : Env) (v : View) (a : Nat) (ha : Agree env v) : Agree env (v.nodeUp env a) := by
  unfold View.nodeUp
  rcases hg : v.ring.getHostByIP a with ⟨x, ok⟩
  cases ok with
  | false => exact ⟨ha.sinv, ha.pools, ha.pol, ha.placed⟩
  | true =>
    cases x with
    | none => exact ⟨ha.sinv, ha.pools, ha.pol, ha.placed⟩
    | some h =>
      dsimp only
      split
      · exact ha
      · exact agree_startPoolFill env v h ha (byIP_current _ ha.sinv a h hg)

theorem agree_nodeDown (env : Env) (v : View) (a : Nat) (ha : Agree env v) : Agree env (v.nodeDown env a) := by
  unfold View.nodeDown
  rcases hg : v.ring.getHostByIP a with ⟨x, ok⟩
  cases ok with
  | false => exact ha
  | true =>
    cases x with
    | none => exact ⟨ha.sinv, ha.pools, ha.pol, ha.placed⟩
    | some h =>
      dsimp only
      split
      · exact ⟨ha.sinv, ha.pools, ha.pol, ha.placed⟩
      · refine ⟨ha.sinv, ?_, ?_, placed_fbRemove env _ h ha.placed⟩
        · intro e he; exact ha.pools e ((mem_erase _ _ _).mp he).1
        · intro x hx; exact ha.pol x (mem_fbRemove_all env _ h x hx)

theorem agree_connected (env : Env) (v : View) (id : Nat) (ha : Agree env v) : Agree env (v.connected env id) := by
  unfold View.connected
  cases hl : lookup v.pools id with
  | none => exact ha
  | some h =>
    dsimp only
    have hcur : lookup v.ring.byId id = some h := ha.pools _ (lookup_some_mem _ _ _ hl)
    have hid : h.id = id := ha.sinv.wf _ (lookup_some_mem _ _ _ hcur)
    split
    · exact ⟨ha.sinv, ha.pools, ha.pol, ha.placed⟩
    · refine ⟨ha.sinv, ha.pools, ?_, placed_fbAdd env _ h ha.placed⟩
      intro x hx
      rcases mem_fbAdd_all env _ h x hx with h1 | h1
      · exact ha.pol x h1
      · rw [h1, hid]; exact hcur

end C16
