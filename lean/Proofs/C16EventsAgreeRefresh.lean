import Proofs.C16EventsAgree
/-! helper lemmas: `Agree` is kept by `View.refresh`, whatever is reported -/
namespace C16
open Ring ClusterView

structure AInv (env : Env) (st : RState) : Prop where
  agree : Agree env st.v
  prevIn : ∀ e ∈ st.prev, lookup st.v.ring.byId e.1 = some e.2
  prevNodup : (keys st.prev).Nodup

theorem prevIn_erase_add (r : Ring.Ring) (prev : List (Nat × RHost)) (h : RHost) (hn : lookup r.byId h.id = none)
    (hp : ∀ e ∈ prev, e.1 ≠ h.id → lookup r.byId e.1 = some e.2) :
    ∀ e ∈ erase prev h.id, lookup (r.addIfMissing h).1.byId e.1 = some e.2 := by
  intro e he
  have h1 := (mem_erase _ _ _).mp he
  rw [lookup_add_new _ _ hn]
  simp only [h1.2, ↓reduceIte]
  exact hp e h1.1 h1.2

theorem stepV_agree (env : Env) (st : RState) (h : RHost) (hi : AInv env st) :
    Agree env (refreshStepV env st h).1.v ∧ ((refreshStepV env st h).2 = .ok → AInv env (refreshStepV env st h).1) := by
  unfold refreshStepV
  cases hf : env.filter h with
  | true => simp only [↓reduceIte]; exact ⟨hi.agree, fun _ => hi⟩
  | false =>
    simp only [Bool.false_eq_true, ↓reduceIte]
    cases hl : lookup st.v.ring.byId h.id with
    | none =>
      have ha := agree_addNew env st.v h hi.agree hl
      unfold View.addNew at ha
      rw [addIfMissing_of_none _ h hl] at ha ⊢
      dsimp only at ha ⊢
      refine ⟨ha, fun _ => ⟨ha, ?_, keys_erase_nodup _ _ hi.prevNodup⟩⟩
      have := prevIn_erase_add st.v.ring st.prev h hl (fun e he _ => hi.prevIn e he)
      rw [addIfMissing_of_none _ h hl] at this
      exact this
    | some e0 =>
      rw [addIfMissing_of_some _ h e0 hl]
      dsimp only
      cases hlp : lookup st.prev h.id with
      | none => exact ⟨hi.agree, fun e => by cases e⟩
      | some ex =>
        dsimp only
        have hmem : (h.id, ex) ∈ st.prev := lookup_some_mem _ _ _ hlp
        have hcur : lookup st.v.ring.byId h.id = some ex := hi.prevIn _ hmem
        have hexid : ex.id = h.id := hi.agree.sinv.wf _ (lookup_some_mem _ _ _ hcur)
        by_cases hcond : (h.caddr == ex.caddr && h.addr == ex.addr) = true
        · rw [if_pos hcond]
          refine ⟨hi.agree, fun _ => ⟨hi.agree, ?_, keys_erase_nodup _ _ hi.prevNodup⟩⟩
          intro e he
          exact hi.prevIn e ((mem_erase _ _ _).mp he).1
        · rw [if_neg hcond]
          have hcur' : lookup st.v.ring.byId ex.id = some ex := by rw [hexid]; exact hcur
          have ha2 := agree_removeHost env st.v ex hi.agree hcur'
          have hl2 : lookup (st.v.removeHost env ex).ring.byId h.id = none := by
            rw [removeHost_ring, lookup_remove, hexid]; simp
          have ha3 := agree_addNew env _ h ha2 hl2
          unfold View.addNew at ha3
          rw [addIfMissing_of_none _ h hl2] at ha3 ⊢
          dsimp only at ha3 ⊢
          refine ⟨ha3, fun _ => ⟨ha3, ?_, keys_erase_nodup _ _ hi.prevNodup⟩⟩
          have := prevIn_erase_add (st.v.removeHost env ex).ring st.prev h hl2 (by
            intro e he hne
            rw [removeHost_ring, lookup_remove, hexid]
            simp only [hne, ↓reduceIte]
            exact hi.prevIn e he)
          rw [addIfMissing_of_none _ h hl2] at this
          exact this

theorem loopV_agree (env : Env) (reported : List RHost) : ∀ (st : RState), AInv env st →
    Agree env (refreshLoopV env reported st).1.v ∧ ((refreshLoopV env reported st).2 = .ok → AInv env (refreshLoopV env reported st).1) := by
  induction reported with
  | nil => intro st hi; exact ⟨hi.agree, fun _ => hi⟩
  | cons h t ih =>
    intro st hi
    unfold refreshLoopV
    have := stepV_agree env st h hi
    generalize refreshStepV env st h = res at this
    obtain ⟨st', res'⟩ := res
    dsimp only at this ⊢
    by_cases hr : res' = .ok
    · rw [if_pos hr]; exact ih st' (this.2 hr)
    · rw [if_neg hr]; exact ⟨this.1, fun e => absurd e hr⟩

theorem removeAllV_agree (env : Env) (prev : List (Nat × RHost)) : ∀ (v : View), Agree env v →
    (∀ e ∈ prev, lookup v.ring.byId e.1 = some e.2) → (keys prev).Nodup → Agree env (removeAllV env v prev) := by
  induction prev with
  | nil => intro v ha _ _; exact ha
  | cons p t ih =>
    intro v ha hp hn
    obtain ⟨k, x⟩ := p
    simp only [removeAllV]
    have hk : lookup v.ring.byId k = some x := hp (k, x) List.mem_cons_self
    have hxid : x.id = k := ha.sinv.wf _ (lookup_some_mem _ _ _ hk)
    simp only [keys, List.map_cons, List.nodup_cons] at hn
    apply ih
    · exact agree_removeHost env v x ha (by rw [hxid]; exact hk)
    · intro e he
      have hne : e.1 ≠ k := fun e1 => hn.1 (List.mem_map.mpr ⟨e, he, e1⟩)
      rw [removeHost_ring, lookup_remove, hxid]
      simp only [hne, ↓reduceIte]
      exact hp e (List.mem_cons_of_mem _ he)
    · exact hn.2

/-- `Agree` is kept by a refresh, whatever is reported and whether it succeeds or not -/
theorem agree_refresh (env : Env) (v : View) (ha : Agree env v) (reported : List RHost) :
    Agree env (v.refresh env reported).1 := by
  have h0 : AInv env ⟨v, v.ring.byId⟩ :=
    ⟨ha, fun e he => lookup_of_mem_nodup _ ha.sinv.knodup e he, ha.sinv.knodup⟩
  have := loopV_agree env reported ⟨v, v.ring.byId⟩ h0
  unfold View.refresh
  generalize refreshLoopV env reported ⟨v, v.ring.byId⟩ = res at this
  obtain ⟨st', res'⟩ := res
  dsimp only at this
  cases res' with
  | ok =>
    have hi := this.2 rfl
    exact removeAllV_agree env st'.prev st'.v hi.agree hi.prevIn hi.prevNodup
  | errCannotFind => exact this.1
  | errAlreadyExists => exact this.1

/-! the handlers -/

theorem byIP_current (r : Ring.Ring) (hs : SInv r) (a : Nat) (h : RHost) (hg : r.getHostByIP a = (some h, true)) :
    lookup r.byId h.id = some h := by
  obtain ⟨x, e, m, _⟩ := NoStale_lookup r hs.knodup hs.ns a _ hg
  cases e
  simp only [Ring.allHosts, List.mem_map] at m
  obtain ⟨p, hp, rfl⟩ := m
  exact getHost_of_mem r hs.wf hs.knodup p hp

theorem agree_nodeUp (env : Env) (v : View) (a : Nat) (ha : Agree env v) : Agree env (v.nodeUp env a) := by
  unfold View.nodeUp
  rcases hg : v.ring.getHostByIP a with ⟨x, ok⟩
  cases ok with
  | false => exact ⟨ha.sinv, ha.pools, ha.pol, ha.placed⟩
  | true =>
    cases x with
    | none => exact ⟨ha.sinv, ha.pools, ha.pol, ha.placed⟩
    | some h =>
      dsimp only
      split
      · exact ha
      · exact agree_startPoolFill env v h ha (byIP_current _ ha.sinv a h hg)

theorem agree_nodeDown (env : Env) (v : View) (a : Nat) (ha : Agree env v) : Agree env (v.nodeDown env a) := by
  unfold View.nodeDown
  rcases hg : v.ring.getHostByIP a with ⟨x, ok⟩
  cases ok with
  | false => exact ha
  | true =>
    cases x with
    | none => exact ⟨ha.sinv, ha.pools, ha.pol, ha.placed⟩
    | some h =>
      dsimp only
      split
      · exact ⟨ha.sinv, ha.pools, ha.pol, ha.placed⟩
      · refine ⟨ha.sinv, ?_, ?_, placed_fbRemove env _ h ha.placed⟩
        · intro e he; exact ha.pools e ((mem_erase _ _ _).mp he).1
        · intro x hx; exact ha.pol x (mem_fbRemove_all env _ h x hx)

theorem agree_connected (env : Env) (v : View) (id : Nat) (ha : Agree env v) : Agree env (v.connected env id) := by
  unfold View.connected
  cases hl : lookup v.pools id with
  | none => exact ha
  | some h =>
    dsimp only
    have hcur : lookup v.ring.byId id = some h := ha.pools _ (lookup_some_mem _ _ _ hl)
    have hid : h.id = id := ha.sinv.wf _ (lookup_some_mem _ _ _ hcur)
    split
    · exact ⟨ha.sinv, ha.pools, ha.pol, ha.placed⟩
    · refine ⟨ha.sinv, ha.pools, ?_, placed_fbAdd env _ h ha.placed⟩
      intro x hx
      rcases mem_fbAdd_all env _ h x hx with h1 | h1
      · exact ha.pol x h1
      · rw [h1, hid]; exact hcur

end C16
