import Model.Policies
import Proofs.C11Cow
/-! helper lemmas about `layerSeq` / `rrSeq` (the roundRobbin iterator) -/
namespace C11
open Policies

/-- rotation to the left by `r` (mod length) -/
def rot (r : Nat) (l : List Host) : List Host := l.drop (r % l.length) ++ l.take (r % l.length)

theorem length_layerSeq (s : Nat) (l : List Host) : (layerSeq s l).length = l.length := by
  simp [layerSeq]

theorem length_rot (r : Nat) (l : List Host) : (rot r l).length = l.length := by
  unfold rot
  cases l with
  | nil => simp
  | cons a t =>
    have : r % (a :: t).length < (a :: t).length := Nat.mod_lt _ (by simp)
    simp only [List.length_append, List.length_drop, List.length_take]
    omega

theorem getElem_layerSeq (s : Nat) (l : List Host) (i : Nat) (hi : i < (layerSeq s l).length) :
    (layerSeq s l)[i] = l[(s + (i + 1)) % l.length]'(Nat.mod_lt _ (by rw [length_layerSeq] at hi; omega)) := by
  have hn : (s + (i + 1)) % l.length < l.length := Nat.mod_lt _ (by rw [length_layerSeq] at hi; omega)
  simp [layerSeq, List.getD_eq_getElem?_getD, List.getElem?_eq_getElem hn]

theorem getElem_rotAux (l : List Host) (k i : Nat) (hk : k < l.length) (hi : i < l.length)
    (h : i < (l.drop k ++ l.take k).length) :
    (l.drop k ++ l.take k)[i] = l[(k + i) % l.length]'(Nat.mod_lt _ (by omega)) := by
  rw [List.getElem_append]
  split
  · rename_i h1
    have h2 : i < l.length - k := by simpa using h1
    rw [List.getElem_drop]
    congr 1
    exact (Nat.mod_eq_of_lt (by omega)).symm
  · rename_i h1
    have h2 : ¬ i < l.length - k := by simpa using h1
    rw [List.getElem_take]
    congr 1
    simp only [List.length_drop]
    have e : k + i = l.length + (i - (l.length - k)) := by omega
    rw [e, Nat.add_mod_left, Nat.mod_eq_of_lt (by omega)]

theorem getElem_rot (r : Nat) (l : List Host) (i : Nat) (hi : i < (rot r l).length) :
    (rot r l)[i] = l[(r + i) % l.length]'(Nat.mod_lt _ (by rw [length_rot] at hi; omega)) := by
  have hl : i < l.length := by rw [length_rot] at hi; exact hi
  have hpos : 0 < l.length := by omega
  have hr : r % l.length < l.length := Nat.mod_lt _ hpos
  have key : (r + i) % l.length = (r % l.length + i) % l.length := by
    rw [Nat.add_mod, Nat.mod_eq_of_lt hl]
  show (l.drop (r % l.length) ++ l.take (r % l.length))[i]'(by simpa [rot] using hi) = _
  rw [getElem_rotAux l _ i hr hl]
  congr 1
  exact key.symm

/-- the layer is visited as its rotation by `shift + 1` -/
theorem layerSeq_eq_rot (s : Nat) (l : List Host) : layerSeq s l = rot (s + 1) l := by
  apply List.ext_getElem
  · rw [length_layerSeq, length_rot]
  · intro i h1 h2
    rw [getElem_layerSeq, getElem_rot]
    congr 1
    congr 1
    omega

theorem rot_perm (r : Nat) (l : List Host) : (rot r l).Perm l := by
  unfold rot
  have h := List.take_append_drop (r % l.length) l
  exact (List.perm_append_comm).trans (by rw [h])

theorem layerSeq_perm (s : Nat) (l : List Host) : (layerSeq s l).Perm l := by
  rw [layerSeq_eq_rot]; exact rot_perm _ _

/-- the next pick visits the layer in the previous order rotated by one -/
theorem layerSeq_succ (s : Nat) (l : List Host) : layerSeq (s + 1) l = rot 1 (layerSeq s l) := by
  apply List.ext_getElem
  · rw [length_layerSeq, length_rot, length_layerSeq]
  · intro i h1 h2
    rw [getElem_layerSeq, getElem_rot, getElem_layerSeq]
    have hl : i < l.length := by rw [length_layerSeq] at h1; exact h1
    congr 1
    simp only [length_layerSeq]
    have e1 : s + 1 + (i + 1) = (1 + i) + (s + 1) := by omega
    have e2 : ∀ x, s + (x + 1) = x + (s + 1) := by intro x; omega
    rw [e1, e2 ((1 + i) % l.length), Nat.add_mod ((1 + i) % l.length), Nat.mod_mod, ← Nat.add_mod]

end C11
