import Model.Compress
/-! helper lemmas for C18: shape of a finished frame, big-endian length round trip, decode of a built frame -/
namespace Compress

theorem toNat_ofNat8 (n : Nat) : (UInt8.ofNat n).toNat = n % 256 := by
  simp [UInt8.toNat_ofNat']

theorem readBE32_be32 (n : Nat) (h : n < 4294967296) :
    readBE32 (UInt8.ofNat (n / 16777216)) (UInt8.ofNat (n / 65536)) (UInt8.ofNat (n / 256)) (UInt8.ofNat n) = n := by
  simp only [readBE32, toNat_ofNat8]; omega

theorem be32_length (n : Nat) : (be32 n).length = 4 := rfl

/-- header without the four length bytes -/
def Framer.hdr5 (f : Framer) (flags op : UInt8) (stream : Int) : Bytes :=
  [f.proto, flags] ++
  (if f.proto > 2 then [byteOfInt (stream / 256), byteOfInt stream] else [byteOfInt stream]) ++ [op]

theorem Framer.hdr5_length (f : Framer) (fl op : UInt8) (s : Int) : (f.hdr5 fl op s).length = f.headSize - 4 := by
  unfold Framer.hdr5 Framer.headSize; split <;> simp

theorem Framer.headSize_ge (f : Framer) : 8 ≤ f.headSize := by
  unfold Framer.headSize; split <;> omega

theorem Framer.writeHeader_eq (f : Framer) (fl op : UInt8) (s : Int) :
    f.writeHeader fl op s = f.hdr5 fl op s ++ [0, 0, 0, 0] := by
  unfold Framer.writeHeader Framer.hdr5; split <;> simp

/-- the finished frame: header prefix, big-endian payload length, payload -/
def Framer.frame (f : Framer) (fl op : UInt8) (s : Int) (payload : Bytes) : Bytes :=
  f.hdr5 fl op s ++ be32 payload.length ++ payload

theorem Framer.setLength_hdr (f : Framer) (fl op : UInt8) (s : Int) (z : Bytes) (n : Nat) :
    f.setLength (f.hdr5 fl op s ++ [0, 0, 0, 0] ++ z) n = f.hdr5 fl op s ++ be32 n ++ z := by
  have hl := f.hdr5_length fl op s
  unfold Framer.setLength
  simp only [List.append_assoc]
  rw [List.take_left' hl]
  have : f.headSize - 4 + 4 = (f.hdr5 fl op s ++ [0, 0, 0, 0]).length := by simp [hl]
  rw [← List.append_assoc (f.hdr5 fl op s) [0,0,0,0] z, this, List.drop_left]

theorem Framer.flag_of_buf (f : Framer) (fl op : UInt8) (s : Int) (body : Bytes) :
    (f.writeHeader fl op s ++ body).getD 1 0 = fl := by
  unfold Framer.writeHeader; simp

theorem Framer.split_buf (f : Framer) (fl op : UInt8) (s : Int) (body : Bytes) :
    (f.writeHeader fl op s ++ body).take f.headSize = f.writeHeader fl op s ∧
    (f.writeHeader fl op s ++ body).drop f.headSize = body := by
  have hl : (f.writeHeader fl op s).length = f.headSize := by
    rw [f.writeHeader_eq]; simp [f.hdr5_length]; have := f.headSize_ge; omega
  exact ⟨List.take_left' hl, List.drop_left' hl⟩

/-- what `build` produces when it succeeds -/
theorem Framer.build_ok (f : Framer) (fl op : UInt8) (s : Int) (body wire : Bytes)
    (h : f.build fl op s body = .ok wire) :
    (fl &&& flagCompress = flagCompress ∧ ∃ c z, f.comp = some c ∧ c.enc body = .ok z ∧ wire = f.frame fl op s z) ∨
    (fl &&& flagCompress ≠ flagCompress ∧ wire = f.frame fl op s body) := by
  unfold Framer.build Framer.finish at h
  rw [f.flag_of_buf] at h
  obtain ⟨ht, hd⟩ := f.split_buf fl op s body
  have hl : (f.writeHeader fl op s).length = f.headSize := by
    rw [f.writeHeader_eq]; simp [f.hdr5_length]; have := f.headSize_ge; omega
  split at h
  · cases h
  · by_cases hc : fl &&& flagCompress = flagCompress
    · left
      refine ⟨hc, ?_⟩
      simp only [hc, beq_self_eq_true, if_true] at h
      rw [ht, hd] at h
      cases hcomp : f.comp with
      | none => simp [hcomp] at h
      | some c =>
        simp only [hcomp] at h
        cases he : c.enc body with
        | error e => simp [he] at h
        | ok z =>
          simp only [he] at h
          refine ⟨c, z, rfl, he, ?_⟩
          split at h
          · cases h
          injection h with h
          have hlen : (f.writeHeader fl op s ++ z).length - f.headSize = z.length := by
            simp [hl]
          rw [← h, hlen, f.writeHeader_eq, f.setLength_hdr]
          simp [Framer.frame]
    · right
      refine ⟨hc, ?_⟩
      have : (fl &&& flagCompress == flagCompress) = false := by simpa using hc
      simp only [this] at h
      injection h with h
      have hlen : (f.writeHeader fl op s ++ body).length - f.headSize = body.length := by
        simp [hl]
      rw [← h, hlen, f.writeHeader_eq, f.setLength_hdr]
      simp [Framer.frame]

/-- after the repair of KF-C18-2: a compressed frame that was built fits the limit -/
theorem Framer.build_ok_fits (f : Framer) (fl op : UInt8) (s : Int) (body wire : Bytes) (c : Codec) (z : Bytes)
    (h : f.build fl op s body = .ok wire) (hfl : fl &&& flagCompress = flagCompress)
    (hcomp : f.comp = some c) (henc : c.enc body = .ok z) : f.headSize + z.length ≤ maxFrameSize := by
  unfold Framer.build Framer.finish at h
  rw [f.flag_of_buf] at h
  obtain ⟨_, hd⟩ := f.split_buf fl op s body
  split at h
  · cases h
  · simp only [hfl, beq_self_eq_true, if_true] at h
    rw [hd] at h
    simp only [hcomp, henc] at h
    split at h
    · cases h
    · omega

end Compress

namespace Compress

/-- the header a reader sees for a finished frame -/
def Framer.headOf (f : Framer) (fl op : UInt8) (s : Int) (n : Nat) : Head :=
  { version := f.proto, flags := fl,
    stream := if f.proto > 2 then int16Of (byteOfInt (s / 256)) (byteOfInt s) else int8Of (byteOfInt s),
    op := op, length := (n : Int) }

theorem toInt32_small (n : Nat) (h : n ≤ maxFrameSize) : toInt32 n = (n : Int) := by
  unfold toInt32 maxFrameSize at *; split <;> omega

theorem readHeader_frame (f : Framer) (fl op : UInt8) (s : Int) (payload : Bytes)
    (hv : f.proto = 1 ∨ f.proto = 2 ∨ f.proto = 3 ∨ f.proto = 4 ∨ f.proto = 5)
    (hn : payload.length ≤ maxFrameSize) :
    readHeader (f.frame fl op s payload) = .ok (f.headOf fl op s payload.length, payload) := by
  have h32 : payload.length < 4294967296 := by unfold maxFrameSize at hn; omega
  have hr := readBE32_be32 payload.length h32
  have ht := toInt32_small payload.length hn
  obtain ⟨proto, flags, comp⟩ := f
  simp only at hv
  have e1 : (1:UInt8) &&& 127 = 1 := by decide
  have e2 : (2:UInt8) &&& 127 = 2 := by decide
  have e3 : (3:UInt8) &&& 127 = 3 := by decide
  have e4 : (4:UInt8) &&& 127 = 4 := by decide
  have e5 : (5:UInt8) &&& 127 = 5 := by decide
  rcases hv with h | h | h | h | h <;> subst h <;>
    simp [Framer.frame, Framer.hdr5, Framer.headOf, readHeader, be32, hr, ht, e1, e2, e3, e4, e5]

end Compress
