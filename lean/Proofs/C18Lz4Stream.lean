import Proofs.C18Lz4Block
/-! C18 helper: the LZ4 block decoder computes the LZ77 meaning of EVERY well-formed sequence list —
    whatever encoder chose the sequences (pierrec's CompressBlock among them). -/
namespace Compress

/-- a sequence as an encoder means it: literals, then a match of `mlen` bytes from `offset` back -/
structure Lz4Sq where
  lits   : Bytes
  offset : Nat
  mlen   : Nat

def Lz4Sq.apply (out : Array UInt8) (q : Lz4Sq) : Array UInt8 :=
  lz4CopyFwd q.offset q.mlen (out ++ q.lits.toArray)

/-- the meaning of a block: the sequences in order, then the literals of the last sequence -/
def lz4Interp (qs : List Lz4Sq) (last : Bytes) (out : Array UInt8) : Array UInt8 :=
  (qs.foldl Lz4Sq.apply out) ++ last.toArray

/-- well-formed at output position `d`: a match of at least 4 bytes from 1..65535 back, not from
    before the start of the output -/
def Lz4Sq.wf (d : Nat) (q : Lz4Sq) : Prop :=
  1 ≤ q.offset ∧ q.offset ≤ d + q.lits.length ∧ q.offset < 65536 ∧ 4 ≤ q.mlen

def Lz4Sq.size (q : Lz4Sq) : Nat := q.lits.length + q.mlen

def lz4WF : Nat → List Lz4Sq → Prop
  | _, [] => True
  | d, q :: qs => q.wf d ∧ lz4WF (d + q.size) qs

/-- a length as token nibble + extension bytes -/
def lz4Nib (m : Nat) : Nat := min m 15
def lz4Ext (m : Nat) : Bytes := if 15 ≤ m then lz4PutLenExt (m - 15) else []

def Lz4Sq.ser (q : Lz4Sq) : Bytes :=
  UInt8.ofNat (lz4Nib q.lits.length * 16 + lz4Nib (q.mlen - 4)) ::
    (lz4Ext q.lits.length ++ q.lits ++
      UInt8.ofNat (q.offset % 256) :: UInt8.ofNat (q.offset / 256) :: lz4Ext (q.mlen - 4))

def lz4SerLast (last : Bytes) : Bytes :=
  UInt8.ofNat (lz4Nib last.length * 16) :: (lz4Ext last.length ++ last)

def lz4Ser (qs : List Lz4Sq) (last : Bytes) : Bytes := qs.flatMap Lz4Sq.ser ++ lz4SerLast last

theorem lz4CopyFwd_size (off : Nat) : ∀ (k : Nat) (out : Array UInt8), (lz4CopyFwd off k out).size = out.size + k := by
  intro k
  induction k with
  | zero => intro out; rfl
  | succ k ih => intro out; simp [lz4CopyFwd, ih]; omega

theorem Lz4Sq.apply_size (out : Array UInt8) (q : Lz4Sq) : (q.apply out).size = out.size + q.size := by
  simp [Lz4Sq.apply, Lz4Sq.size, lz4CopyFwd_size]; omega

theorem lz4Fold_size_ge (qs : List Lz4Sq) : ∀ out : Array UInt8, out.size ≤ (qs.foldl Lz4Sq.apply out).size := by
  induction qs with
  | nil => intro out; exact Nat.le_refl _
  | cons q qs ih =>
    intro out
    have := ih (q.apply out)
    rw [Lz4Sq.apply_size] at this
    simp only [List.foldl]; omega

theorem tok_nibbles : ∀ (a b : Fin 16),
    ((UInt8.ofNat (a.val * 16 + b.val)) >>> 4).toNat = a.val ∧ ((UInt8.ofNat (a.val * 16 + b.val)) &&& 15).toNat = b.val := by
  decide

/-- nibble + extension bytes read back as the length -/
theorem lz4Hdr_dec (m : Nat) (X : Bytes) :
    (if lz4Nib m = 15 then lz4LenExt 15 (lz4Ext m ++ X) else some (lz4Nib m, lz4Ext m ++ X)) = some (m, X) := by
  unfold lz4Nib lz4Ext
  by_cases h : 15 ≤ m
  · have : min m 15 = 15 := by omega
    simp only [this, if_true, h, lz4PutLenExt_dec]
    congr 2; omega
  · have h1 : min m 15 = m := by omega
    have h2 : ¬ m = 15 := by omega
    simp [h1, h2, h]

theorem lz4Seq_more (tok : UInt8) (r : Bytes) (lits : Bytes) (o0 o1 : UInt8) (r3 r4 : Bytes) (ml off n : Nat)
    (out : Array UInt8)
    (hL : (if (tok >>> 4).toNat = 15 then lz4LenExt 15 r else some ((tok >>> 4).toNat, r))
            = some (lits.length, lits ++ o0 :: o1 :: r3))
    (hM : (if (tok &&& 15).toNat = 15 then lz4LenExt 15 r3 else some ((tok &&& 15).toNat, r3)) = some (ml, r4))
    (ho : o0.toNat + 256 * o1.toNat = off) (h1 : 1 ≤ off) (h2 : off ≤ out.size + lits.length)
    (hfit : out.size + lits.length + (ml + 4) ≤ n) :
    lz4Seq tok r n out = .more r4 (lz4CopyFwd off (ml + 4) (out ++ lits.toArray)) := by
  unfold lz4Seq
  simp only [hL]
  have hA : ¬ ((lits ++ o0 :: o1 :: r3).length < lits.length ∨ out.size + lits.length > n) := by
    simp; omega
  rw [if_neg hA, List.take_left' rfl, List.drop_left' rfl]
  have hne : ¬ (o0 :: o1 :: r3 = []) := by simp
  have hl2 : ¬ (o0 :: o1 :: r3).length < 2 := by simp
  rw [if_neg hne, if_neg hl2]
  have hd : (o0 :: o1 :: r3).drop 2 = r3 := rfl
  have hg0 : (o0 :: o1 :: r3).getD 0 0 = o0 := rfl
  have hg1 : (o0 :: o1 :: r3).getD 1 0 = o1 := rfl
  rw [hd, hg0, hg1, ho]
  simp only [hM]
  have hB : ¬ (off = 0 ∨ (out ++ lits.toArray).size < off ∨ (out ++ lits.toArray).size + (ml + 4) > n) := by
    simp; omega
  rw [if_neg hB]

theorem lz4Seq_done (tok : UInt8) (r : Bytes) (last : Bytes) (n : Nat) (out : Array UInt8)
    (hL : (if (tok >>> 4).toNat = 15 then lz4LenExt 15 r else some ((tok >>> 4).toNat, r)) = some (last.length, last))
    (hfit : out.size + last.length ≤ n) :
    lz4Seq tok r n out = .done (out ++ last.toArray) := by
  unfold lz4Seq
  simp only [hL]
  have hA : ¬ (last.length < last.length ∨ out.size + last.length > n) := by omega
  rw [if_neg hA]
  simp

theorem Lz4Sq.ser_decodes (q : Lz4Sq) (rest : Bytes) (n : Nat) (out : Array UInt8)
    (hwf : q.wf out.size) (hfit : out.size + q.size ≤ n) :
    ∃ tok tl, q.ser ++ rest = tok :: tl ∧ lz4Seq tok tl n out = .more rest (q.apply out) := by
  obtain ⟨h1, h2, h3, h4⟩ := hwf
  have ha : lz4Nib q.lits.length < 16 := by unfold lz4Nib; omega
  have hb : lz4Nib (q.mlen - 4) < 16 := by unfold lz4Nib; omega
  obtain ⟨hhi, hlo⟩ := tok_nibbles ⟨_, ha⟩ ⟨_, hb⟩
  simp only at hhi hlo
  refine ⟨UInt8.ofNat (lz4Nib q.lits.length * 16 + lz4Nib (q.mlen - 4)),
    lz4Ext q.lits.length ++ q.lits ++
      UInt8.ofNat (q.offset % 256) :: UInt8.ofNat (q.offset / 256) :: (lz4Ext (q.mlen - 4) ++ rest), ?_, ?_⟩
  · simp [Lz4Sq.ser]
  · have hb0 : (UInt8.ofNat (q.offset % 256)).toNat = q.offset % 256 := by simp [UInt8.toNat_ofNat']
    have hb1 : (UInt8.ofNat (q.offset / 256)).toNat = q.offset / 256 := by simp [UInt8.toNat_ofNat']; omega
    have hL := lz4Hdr_dec q.lits.length
      (q.lits ++ UInt8.ofNat (q.offset % 256) :: UInt8.ofNat (q.offset / 256) :: (lz4Ext (q.mlen - 4) ++ rest))
    have hM := lz4Hdr_dec (q.mlen - 4) rest
    have := lz4Seq_more _ (lz4Ext q.lits.length ++ q.lits ++
        UInt8.ofNat (q.offset % 256) :: UInt8.ofNat (q.offset / 256) :: (lz4Ext (q.mlen - 4) ++ rest))
      q.lits _ _ (lz4Ext (q.mlen - 4) ++ rest) rest (q.mlen - 4) q.offset n out
      (by rw [hhi, List.append_assoc]; exact hL) (by rw [hlo]; exact hM)
      (by rw [hb0, hb1]; omega) h1 h2 (by simp only [Lz4Sq.size] at hfit; omega)
    rw [this]
    simp only [Lz4Sq.apply]
    congr 2; omega

theorem lz4Loop_stream (qs : List Lz4Sq) (last : Bytes) : ∀ (out : Array UInt8) (n g : Nat), lz4WF out.size qs →
    (lz4Interp qs last out).size ≤ n → (lz4Ser qs last).length < g →
    lz4Loop g (lz4Ser qs last) n out = .ok (lz4Interp qs last out) := by
  induction qs with
  | nil =>
    intro out n g _ hn hg
    cases g with
    | zero => omega
    | succ g =>
      have ha : lz4Nib last.length < 16 := by unfold lz4Nib; omega
      obtain ⟨hhi, _⟩ := tok_nibbles ⟨_, ha⟩ ⟨0, by omega⟩
      simp only [Nat.add_zero] at hhi
      have hL := lz4Hdr_dec last.length last
      have hfit : out.size + last.length ≤ n := by simpa [lz4Interp] using hn
      have hd := lz4Seq_done (UInt8.ofNat (lz4Nib last.length * 16)) (lz4Ext last.length ++ last) last n out
        (by rw [hhi]; exact hL) hfit
      simp only [lz4Ser, List.flatMap_nil, List.nil_append, lz4SerLast, lz4Loop, hd, lz4Interp, List.foldl]
  | cons q qs ih =>
    intro out n g hwf hn hg
    obtain ⟨hwq, hwr⟩ := hwf
    have hsz := Lz4Sq.apply_size out q
    have hge := lz4Fold_size_ge qs (q.apply out)
    have hfit : out.size + q.size ≤ n := by
      simp only [lz4Interp, List.foldl, Array.size_append] at hn; omega
    have hcons : lz4Ser (q :: qs) last = q.ser ++ lz4Ser qs last := by simp [lz4Ser]
    obtain ⟨tok, tl, hser, hel⟩ := q.ser_decodes (lz4Ser qs last) n out hwq hfit
    rw [hcons] at hg ⊢
    rw [hser] at hg ⊢
    cases g with
    | zero => omega
    | succ g =>
      simp only [lz4Loop, hel]
      have hlen : (lz4Ser qs last).length < g := by
        have h2 : (tok :: tl).length = q.ser.length + (lz4Ser qs last).length := by rw [← hser]; simp
        have h1 : 1 ≤ q.ser.length := by simp [Lz4Sq.ser]
        simp at hg h2; omega
      have := ih (q.apply out) n g (by rw [hsz]; exact hwr) (by simpa [lz4Interp] using hn) hlen
      simpa [lz4Interp] using this

/-- **the block decoder computes the meaning of every well-formed sequence list**, into any
    destination that is large enough -/
theorem lz4BlockDecode_stream (qs : List Lz4Sq) (last : Bytes) (n : Nat) (hwf : lz4WF 0 qs)
    (hn : (lz4Interp qs last #[]).size ≤ n) :
    lz4BlockDecode (lz4Ser qs last) n = .ok (lz4Interp qs last #[]).toList := by
  have hne : lz4Ser qs last ≠ [] := by
    cases qs with
    | nil => simp [lz4Ser, lz4SerLast]
    | cons q qs => simp [lz4Ser, Lz4Sq.ser]
  have hl := lz4Loop_stream qs last #[] n ((lz4Ser qs last).length + 1) (by simpa using hwf) hn (by omega)
  unfold lz4BlockDecode
  rw [if_neg hne, hl]

end Compress
