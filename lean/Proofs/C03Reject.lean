/- C03 helper lemmas: which requests the builders reject (panic / error) -/
import Model.FrameSpec
import Model.FrameWrite
namespace C03
open FrameSpec FrameWrite

theorem isEmpty_iff_len {α : Type} (l : List α) : (!l.isEmpty) = decide (l.length > 0) := by
  cases l <;> simp

theorem askStmt_named (s : GStmt) :
    (bstmtVals (askStmt s)).any (fun x => x.name.isSome) = s.values.any (fun x => decide (x.name ≠ [])) := by
  have hx : ∀ x : GVal, (askVal x).name.isSome = decide (x.name ≠ []) := by
    intro x; unfold askVal; by_cases h : x.name = [] <;> simp [h]
  unfold askStmt
  split <;> simp [bstmtVals, List.any_map, Function.comp_def, hx]

theorem askParams_ks (now : Int) (p : GParams) : (askParams now p).keyspace.isSome = decide (p.keyspace ≠ []) := by
  unfold askParams; by_cases h : p.keyspace = [] <;> simp [h]

/-- the body writer fails exactly on the keyspace / named-batch conditions -/
theorem wBody_error_iff (v : Nat) (now : Int) (g : GReq) :
    (∃ e, wBody v now g = .error e) ↔
    (match ask now g with
     | Req.query _ p _ => (decide (v ≠ 1) && p.keyspace.isSome && decide (v < 5)) = true
     | Req.execute _ p _ => (decide (v > 1) && p.keyspace.isSome && decide (v < 5)) = true
     | Req.prepare _ ks _ => (ks.isSome && decide (v < 5)) = true
     | Req.batch _ stmts _ _ _ _ _ =>
        (decide (v > 2) && stmts.any (fun s => (bstmtVals s).any (fun x => x.name.isSome))) = true
     | _ => False) := by
  cases g with
  | startup _ => simp [wBody, ask]
  | options => simp [wBody, ask]
  | authResponse _ => simp [wBody, ask]
  | register _ => simp [wBody, ask]
  | query s p pl =>
    simp only [wBody, ask, askParams_ks]
    by_cases h : v ≠ 1 ∧ p.keyspace ≠ [] ∧ ¬ v > 4
    · rw [if_pos h]
      obtain ⟨h1, h2, h3⟩ := h
      have : v < 5 := by omega
      simp [h1, h2, this]
    · rw [if_neg h]
      simp only [reduceCtorEq, exists_false, false_iff, Bool.and_eq_true, decide_eq_true_eq]
      intro ⟨⟨h1, h2⟩, h3⟩
      exact h ⟨h1, h2, by omega⟩
  | prepare s ks pl =>
    simp only [wBody, ask]
    by_cases h : ks ≠ [] ∧ ¬ v > 4
    · rw [if_pos h]
      have : v < 5 := by omega
      simp [h.1, this]
    · rw [if_neg h]
      simp only [reduceCtorEq, exists_false, false_iff, Bool.and_eq_true, decide_eq_true_eq]
      intro ⟨h1, h2⟩
      apply h
      refine ⟨?_, by omega⟩
      intro hk; simp [hk] at h1
  | execute id p pl =>
    simp only [wBody, ask, askParams_ks]
    by_cases hv : v > 1
    · rw [if_pos hv]
      by_cases h : p.keyspace ≠ [] ∧ ¬ v > 4
      · rw [if_pos h]
        have : v < 5 := by omega
        simp [hv, h.1, this]
      · rw [if_neg h]
        simp only [reduceCtorEq, exists_false, false_iff, Bool.and_eq_true, decide_eq_true_eq]
        intro ⟨⟨h1, h2⟩, h3⟩
        exact h ⟨h2, by omega⟩
    · rw [if_neg hv]
      simp [hv]
  | batch typ stmts cons ser dts tsv pl =>
    have hany : (stmts.map askStmt).any (fun s => (bstmtVals s).any (fun x => x.name.isSome)) =
        stmts.any (fun s => s.values.any (fun x => decide (x.name ≠ []))) := by
      simp only [List.any_map, Function.comp_def, askStmt_named]
    simp only [wBody, ask, hany]
    by_cases h : v > 2 ∧ stmts.any (fun s => s.values.any (fun x => decide (x.name ≠ []))) = true
    · rw [if_pos h]
      simp only [reduceCtorEq, exists_false, Bool.and_eq_true, decide_eq_true_eq, h.1, h.2, and_self, iff_true]
      exact ⟨_, rfl⟩
    · rw [if_neg h]
      simp only [reduceCtorEq, exists_false, false_iff, Bool.and_eq_true, decide_eq_true_eq]
      exact h

theorem payloadOf_ask (now : Int) (g : GReq) :
    payloadOf g = (match ask now g with
      | Req.query _ _ pl => pl
      | Req.prepare _ _ pl => pl
      | Req.execute _ _ pl => pl
      | Req.batch _ _ _ _ _ _ pl => pl
      | _ => []) := by
  cases g <;> rfl

theorem rejectable_ask (v : Nat) (now : Int) (g : GReq) :
    Rejectable0 v (ask now g) = true ↔
      (((payloadOf g).length > 0 ∧ v < 4) ∨ ∃ e, wBody v now g = .error e) := by
  have hb := wBody_error_iff v now g
  cases g with
  | startup _ => simp [Rejectable0, ask, payloadOf, wBody]
  | options => simp [Rejectable0, ask, payloadOf, wBody]
  | authResponse _ => simp [Rejectable0, ask, payloadOf, wBody]
  | register _ => simp [Rejectable0, ask, payloadOf, wBody]
  | query s p pl =>
    simp only [ask] at hb
    rw [hb]
    simp only [Rejectable0, ask, payloadOf, isEmpty_iff_len, Bool.or_eq_true, Bool.and_eq_true, decide_eq_true_eq]
  | prepare s ks pl =>
    simp only [ask] at hb
    rw [hb]
    simp only [Rejectable0, ask, payloadOf, isEmpty_iff_len, Bool.or_eq_true, Bool.and_eq_true, decide_eq_true_eq]
  | execute id p pl =>
    simp only [ask] at hb
    rw [hb]
    simp only [Rejectable0, ask, payloadOf, isEmpty_iff_len, Bool.or_eq_true, Bool.and_eq_true, decide_eq_true_eq]
  | batch typ stmts cons ser dts tsv pl =>
    simp only [ask] at hb
    rw [hb]
    simp only [Rejectable0, ask, payloadOf, isEmpty_iff_len, Bool.or_eq_true, Bool.and_eq_true, decide_eq_true_eq]

/-- encodeReq0 fails with a panic / the named-values error exactly on the rejectable requests -/
theorem encodeReq0_rejects_iff (v : Nat) (tracing : Bool) (stream now : Int) (g : GReq) :
    (∃ e, encodeReq0 v tracing stream now g = .error e ∧ e ≠ .frameTooBig) ↔ Rejectable0 v (ask now g) = true := by
  rw [rejectable_ask]
  unfold encodeReq0
  by_cases hp : (payloadOf g).length > 0 ∧ v < 4
  · simp only [hp, and_self, if_true, true_or, iff_true]
    exact ⟨_, rfl, by simp⟩
  · simp only [hp, if_false, false_or]
    cases hb : wBody v now g with
    | error e =>
      simp only [Except.error.injEq, exists_eq', iff_true]
      refine ⟨e, rfl, ?_⟩
      intro he
      subst he
      cases g <;> simp only [wBody] at hb
      all_goals (repeat' (split at hb))
      all_goals (first | (cases hb; done) | (injection hb with hb; cases hb))
    | ok body =>
      simp only [reduceCtorEq, exists_false, iff_false]
      intro ⟨e, he, hne⟩
      by_cases hsz : (if v > 2 then 9 else 8) + (wPayload (payloadOf g) ++ body).length > maxFrameSize
      · rw [if_pos hsz] at he
        injection he with he
        exact hne he.symm
      · rw [if_neg hsz] at he; cases he

theorem payload_contra (v : Nat) (pl : Payload) (hok : payloadOk v pl = true) (hne : (!pl.isEmpty) = true)
    (hv : v < 4) : False := by
  simp only [payloadOk, Bool.or_eq_true, Bool.and_eq_true, decide_eq_true_eq] at hok
  rcases hok with he | ⟨⟨h4, _⟩, _⟩
  · simp [he] at hne
  · omega

/-! ## the count checks (repair of KF-C03-5 / KF-C03-6) -/

theorem tooManyR_ask (now : Int) (g : GReq) : tooManyR (ask now g) = tooManyG g := by
  cases g with
  | query s p pl => simp [tooManyR, tooManyG, ask, askParams]
  | execute id p pl => simp [tooManyR, tooManyG, ask, askParams]
  | batch typ stmts cons ser dts tsv pl =>
    have hx : ∀ s : GStmt, (bstmtVals (askStmt s)).length = s.values.length := by
      intro s; unfold askStmt; split <;> simp [bstmtVals]
    simp [tooManyR, tooManyG, ask, List.any_map, Function.comp_def, hx]
  | _ => rfl

theorem valuesOk_len (v : Nat) (b : Bool) (l : List NVal) (h : valuesOk v b l = true) : l.length ≤ 65535 := by
  simp only [valuesOk, Bool.and_eq_true, decide_eq_true_eq] at h
  exact h.1.1

theorem paramsOk_len (v : Nat) (p : QParams) (h : paramsOk v p = true) : p.values.length ≤ 65535 := by
  simp only [paramsOk, Bool.and_eq_true] at h
  exact valuesOk_len v true _ h.1.1.1.1.1.2

/-- an expressible request passes the count checks -/
theorem expressible_not_tooManyR (v : Nat) (r : Req) (h : Expressible v r = true) : tooManyR r = false := by
  cases r with
  | query s p pl =>
    simp only [Expressible, Bool.and_eq_true] at h
    have hl : p.values.length ≤ 65535 := by
      by_cases h1 : v = 1
      · have := h.2; simp only [h1, if_true, paramsOkV1, Bool.and_eq_true, Bool.false_eq_true, if_false] at this
        have he := this.2; simp at he; simp [he]
      · have := h.2; simp only [h1, if_false] at this; exact paramsOk_len v p this
    simp [tooManyR]; omega
  | execute id p pl =>
    simp only [Expressible, Bool.and_eq_true] at h
    have hl : p.values.length ≤ 65535 := by
      by_cases h1 : v = 1
      · have := h.2; simp only [h1, if_true, paramsOkV1, Bool.and_eq_true] at this
        exact valuesOk_len _ _ _ this.2
      · have := h.2; simp only [h1, if_false] at this; exact paramsOk_len v p this
    simp [tooManyR]; omega
  | batch typ stmts cons ser ts ks pl =>
    simp only [Expressible, Bool.and_eq_true, decide_eq_true_eq, List.all_eq_true] at h
    have hn := h.1.1.1.1.1.1.2
    have hst := h.1.1.1.1.1.2
    simp only [tooManyR, Bool.or_eq_false_iff, decide_eq_false_iff_not, List.any_eq_false, decide_eq_true_eq]
    refine ⟨by omega, ?_⟩
    intro s hs
    have hok := hst s hs
    have : (bstmtVals s).length ≤ 65535 := by
      cases s <;> simp only [BStmt.ok, Bool.and_eq_true] at hok <;> exact valuesOk_len _ _ _ hok.2
    omega
  | _ => rfl

/-- **the repaired builders** fail with a panic / an error other than ErrFrameTooBig exactly on the
    rejectable requests, which now include the two count conditions -/
theorem encodeReq_rejects_iff (v : Nat) (tracing : Bool) (stream now : Int) (g : GReq) :
    (∃ e, encodeReq v tracing stream now g = .error e ∧ e ≠ .frameTooBig) ↔ Rejectable v (ask now g) = true := by
  unfold Rejectable encodeReq
  rw [tooManyR_ask]
  cases h : tooManyG g
  · simp only [Bool.false_eq_true, if_false, Bool.or_false]
    exact encodeReq0_rejects_iff v tracing stream now g
  · simp only [if_true, Bool.or_true, iff_true]
    exact ⟨_, rfl, by simp⟩

end C03
