/- C03 helper lemmas: which requests the builders reject (panic / error) -/
import Model.FrameSpec
import Model.FrameWrite
namespace C03
open FrameSpec FrameWrite

theorem isEmpty_iff_len {α : Type} (l : List α) : (!l.isEmpty) = decide (l.length > 0) := by
  cases l <;> simp

theorem askStmt_named (s : GStmt) :
    (bstmtVals (askStmt s)).any (fun x => x.name.isSome) = s.values.any (fun x => decide (x.name ≠ [])) := by
  have hx : ∀ x : GVal, (askVal x).name.isSome = decide (x.name ≠ []) := by
    intro x; unfold askVal; by_cases h : x.name = [] <;> simp [h]
  unfold askStmt
  split <;> simp [bstmtVals, List.any_map, Function.comp_def, hx]

theorem askParams_ks (now : Int) (p : GParams) : (askParams now p).keyspace.isSome = decide (p.keyspace ≠ []) := by
  unfold askParams; by_cases h : p.keyspace = [] <;> simp [h]

/-- the body writer fails exactly on the keyspace / named-batch conditions -/
theorem wBody_error_iff (v : Nat) (now : Int) (g : GReq) :
    (∃ e, wBody v now g = .error e) ↔
    (match ask now g with
     | Req.query _ p _ => (decide (v ≠ 1) && p.keyspace.isSome && decide (v < 5)) = true
     | Req.execute _ p _ => (decide (v > 1) && p.keyspace.isSome && decide (v < 5)) = true
     | Req.prepare _ ks _ => (ks.isSome && decide (v < 5)) = true
     | Req.batch _ stmts _ _ _ _ _ =>
        (decide (v > 2) && stmts.any (fun s => (bstmtVals s).any (fun x => x.name.isSome))) = true
     | _ => False) := by
  cases g with
  | startup _ => simp [wBody, ask]
  | options => simp [wBody, ask]
  | authResponse _ => simp [wBody, ask]
  | register _ => simp [wBody, ask]
  | query s p pl =>
    simp only [wBody, ask, askParams_ks]
    by_cases h : v ≠ 1 ∧ p.keyspace ≠ [] ∧ ¬ v > 4
    · rw [if_pos h]
      obtain ⟨h1, h2, h3⟩ := h
      have : v < 5 := by omega
      simp [h1, h2, this]
    · rw [if_neg h]
      simp only [reduceCtorEq, exists_false, false_iff, Bool.and_eq_true, decide_eq_true_eq]
      intro ⟨⟨h1, h2⟩, h3⟩
      exact h ⟨h1, h2, by omega⟩
  | prepare s ks pl =>
    simp only [wBody, ask]
    by_cases h : ks ≠ [] ∧ ¬ v > 4
    · rw [if_pos h]
      have : v < 5 := by omega
      simp [h.1, this]
    · rw [if_neg h]
      simp only [reduceCtorEq, exists_false, false_iff, Bool.and_eq_true, decide_eq_true_eq]
      intro ⟨h1, h2⟩
      apply h
      refine ⟨?_, by omega⟩
      intro hk; simp [hk] at h1
  | execute id p pl =>
    simp only [wBody, ask, askParams_ks]
    by_cases hv : v > 1
    · rw [if_pos hv]
      by_cases h : p.keyspace ≠ [] ∧ ¬ v > 4
      · rw [if_pos h]
        have : v < 5 := by omega
        simp [hv, h.1, this]
      · rw [if_neg h]
        simp only [reduceCtorEq, exists_false, false_iff, Bool.and_eq_true, decide_eq_true_eq]
        intro ⟨⟨h1, h2⟩, h3⟩
        exact h ⟨h2, by omega⟩
    · rw [if_neg hv]
      simp [hv]
  | batch typ stmts cons ser dts tsv pl =>
    have hany : (stmts.map askStmt).any (fun s => (bstmtVals s).any (fun x => x.name.isSome)) =
        stmts.any (fun s => s.values.any (fun x => decide (x.name ≠ []))) := by
      simp only [List.any_map, Function.comp_def, askStmt_named]
    simp only [wBody, ask, hany]
    by_cases h : v > 2 ∧ stmts.any (fun s => s.values.any (fun x => decide (x.name ≠ []))) = true
    · rw [if_pos h]
      simp only [reduceCtorEq, exists_false, Bool.and_eq_true, decide_eq_true_eq, h.1, h.2, and_self, iff_true]
      exact ⟨_, rfl⟩
    · rw [if_neg h]
      simp only [reduceCtorEq, exists_false, false_iff, Bool.and_eq_true, decide_eq_true_eq]
      exact h

theorem payloadOf_ask (now : Int) (g : GReq) :
    payloadOf g = (match ask now g with
      | Req.query _ _ pl => pl
      | Req.prepare _ _ pl => pl
      | Req.execute _ _ pl => pl
      | Req.batch _ _ _ _ _ _ pl => pl
      | _ => []) := by
  cases g <;> rfl

theorem rejectable_ask (v : Nat) (now : Int) (g : GReq) :
    Rejectable v (ask now g) = true ↔
      (((payloadOf g).length > 0 ∧ v < 4) ∨ ∃ e, wBody v now g = .error e) := by
  have hb := wBody_error_iff v now g
  cases g with
  | startup _ => simp [Rejectable, ask, payloadOf, wBody]
  | options => simp [Rejectable, ask, payloadOf, wBody]
  | authResponse _ => simp [Rejectable, ask, payloadOf, wBody]
  | register _ => simp [Rejectable, ask, payloadOf, wBody]
  | query s p pl =>
    simp only [ask] at hb
    rw [hb]
    simp only [Rejectable, ask, payloadOf, isEmpty_iff_len, Bool.or_eq_true, Bool.and_eq_true, decide_eq_true_eq]
  | prepare s ks pl =>
    simp only [ask] at hb
    rw [hb]
    simp only [Rejectable, ask, payloadOf, isEmpty_iff_len, Bool.or_eq_true, Bool.and_eq_true, decide_eq_true_eq]
  | execute id p pl =>
    simp only [ask] at hb
    rw [hb]
    simp only [Rejectable, ask, payloadOf, isEmpty_iff_len, Bool.or_eq_true, Bool.and_eq_true, decide_eq_true_eq]
  | batch typ stmts cons ser dts tsv pl =>
    simp only [ask] at hb
    rw [hb]
    simp only [Rejectable, ask, payloadOf, isEmpty_iff_len, Bool.or_eq_true, Bool.and_eq_true, decide_eq_true_eq]

/-- encodeReq fails with a panic / the named-values error exactly on the rejectable requests -/
theorem encodeReq_rejects_iff (v : Nat) (tracing : Bool) (stream now : Int) (g : GReq) :
    (∃ e, encodeReq v tracing stream now g = .error e ∧ e ≠ .frameTooBig) ↔ Rejectable v (ask now g) = true := by
  rw [rejectable_ask]
  unfold encodeReq
  by_cases hp : (payloadOf g).length > 0 ∧ v < 4
  · simp only [hp, and_self, if_true, true_or, iff_true]
    exact ⟨_, rfl, by simp⟩
  · simp only [hp, if_false, false_or]
    cases hb : wBody v now g with
    | error e =>
      simp only [Except.error.injEq, exists_eq', iff_true]
      refine ⟨e, rfl, ?_⟩
      intro he
      subst he
      cases g <;> simp only [wBody] at hb
      all_goals (repeat' (split at hb))
      all_goals (first | (cases hb; done) | (injection hb with hb; cases hb))
    | ok body =>
      simp only [reduceCtorEq, exists_false, iff_false]
      intro ⟨e, he, hne⟩
      by_cases hsz : (if v > 2 then 9 else 8) + (wPayload (payloadOf g) ++ body).length > maxFrameSize
      · rw [if_pos hsz] at he
        injection he with he
        exact hne he.symm
      · rw [if_neg hsz] at he; cases he

theorem payload_contra (v : Nat) (pl : Payload) (hok : payloadOk v pl = true) (hne : (!pl.isEmpty) = true)
    (hv : v < 4) : False := by
  simp only [payloadOk, Bool.or_eq_true, Bool.and_eq_true, decide_eq_true_eq] at hok
  rcases hok with he | ⟨⟨h4, _⟩, _⟩
  · simp [he] at hne
  · omega

end C03
