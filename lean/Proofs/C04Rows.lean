/- C04 helper lemmas: the cells of well-formed rows through Iter.Scan / Scanner (tuple expansion) -/
import Proofs.C04Resp
import Model.Rows
namespace C04
open FrameRead RespSpec Rows

/-! ## what the server means by a row: the destinations it fills -/

/-- a cell fits its column: a tuple column carries null or one `[bytes]` field per element (at least
    one element), any other column null or opaque bytes; sizes fit `[bytes]` -/
def wfCell : TypeDesc → Cell → Bool
  | .tuple es, .null => es.length ≥ 1
  | .tuple es, .tuple fs => es.length ≥ 1 && fs.length == es.length && fs.all optFitsInt && fitsInt (eTupleBody fs)
  | .tuple _, .bytes _ => false
  | _, .null => true
  | _, .bytes b => fitsInt b
  | _, .tuple _ => false

/-- the bytes of the cell as the row carries them -/
def cellData : Cell → Option FrameRead.Bytes
  | .null => none
  | .bytes b => some b
  | .tuple fs => some (eTupleBody fs)

/-- destination `i + j` receives field `j` of a tuple -/
def tupleCalls : Nat → List TypeInfo → List (Option FrameRead.Bytes) → List Call
  | _, [], _ => []
  | i, e :: es, [] => { dest := i, typ := e, data := none } :: tupleCalls (i + 1) es []
  | i, e :: es, f :: fs => { dest := i, typ := e, data := f } :: tupleCalls (i + 1) es fs

/-- the recorder calls the server's cell stands for, first destination `i` -/
def cellCalls (i : Nat) : TypeDesc → Cell → List Call
  | .tuple es, .tuple fs => tupleCalls i (viewTypes es) fs
  | .tuple es, _ => tupleCalls i (viewTypes es) []
  | t, c => [{ dest := i, typ := viewType t, data := cellData c }]

def rowCalls : Nat → List (TypeDesc × Cell) → List Call
  | _, [] => []
  | i, (t, c) :: r => cellCalls i t c ++ rowCalls (i + destWidth t) r

def totalWidth (ts : List TypeDesc) : Nat := (ts.map destWidth).sum

def colOf (ks tb name : FrameRead.Bytes) (t : TypeDesc) : ColumnInfo :=
  { keyspace := ks, table := tb, name := name, typ := viewType t }

/-! ## reading one cell -/

theorem beNat_eInt_take (z : Int) (r : FrameRead.Bytes) (h : isInt32 z = true) :
    int32Of (beNat ((eInt z ++ r).take 4)) = z ∧ (eInt z ++ r).drop 4 = r := by
  simp only [isInt32, Bool.and_eq_true, decide_eq_true_eq] at h
  constructor
  · simp [eInt, eUInt, beNat, int32Of]; omega
  · simp [eInt, eUInt]

theorem eInt_length (z : Int) : (eInt z).length = 4 := rfl

theorem readColumn_int (z : Int) (r : FrameRead.Bytes) (h : isInt32 z = true) :
    readColumn (eInt z ++ r) =
      if z < 0 then .ok (none, r)
      else if r.length < z.toNat then .err
      else .ok (some (r.take z.toNat), r.drop z.toNat) := by
  obtain ⟨h1, h2⟩ := beNat_eInt_take z r h
  have hl : ¬ (eInt z ++ r).length < 4 := by simp [eInt_length]
  unfold readColumn
  simp only [hl, if_false, h1, h2]

theorem readField_int (z : Int) (r : FrameRead.Bytes) (h : isInt32 z = true) :
    readField (eInt z ++ r) =
      if z < 0 then .ok (none, r)
      else if r.length < z.toNat then .err
      else .ok (some (r.take z.toNat), r.drop z.toNat) := by
  obtain ⟨h1, h2⟩ := beNat_eInt_take z r h
  unfold readField
  simp only [h1, h2]

theorem readColumn_eBytes (f : Option FrameRead.Bytes) (r : FrameRead.Bytes) (h : optFitsInt f = true) :
    readColumn (eBytes f ++ r) = .ok (f, r) := by
  cases f with
  | none =>
    rw [eBytes, readColumn_int (-1) r (by decide)]
    simp
  | some b =>
    have hb' : b.length < 2147483648 := by simpa [optFitsInt, fitsInt] using h
    have hi : isInt32 (b.length : Int) = true := by simp [isInt32]; omega
    rw [eBytes, List.append_assoc, readColumn_int _ _ hi]
    have : ¬ ((b.length : Int) < 0) := by omega
    simp [this]

theorem readField_eBytes (f : Option FrameRead.Bytes) (r : FrameRead.Bytes) (h : optFitsInt f = true) :
    readField (eBytes f ++ r) = .ok (f, r) := by
  cases f with
  | none =>
    rw [eBytes, readField_int (-1) r (by decide)]
    simp
  | some b =>
    have hb' : b.length < 2147483648 := by simpa [optFitsInt, fitsInt] using h
    have hi : isInt32 (b.length : Int) = true := by simp [isInt32]; omega
    rw [eBytes, List.append_assoc, readField_int _ _ hi]
    have : ¬ ((b.length : Int) < 0) := by omega
    simp [this]

theorem readColumn_eCell (t : TypeDesc) (c : Cell) (r : FrameRead.Bytes) (hw : wfCell t c = true) :
    readColumn (eCell c ++ r) = .ok (cellData c, r) := by
  cases c with
  | null => simpa [eCell, cellData] using readColumn_eBytes none r rfl
  | bytes b =>
    have hb : fitsInt b = true := by cases t <;> simp_all [wfCell]
    simpa [eCell, cellData] using readColumn_eBytes (some b) r (by simpa [optFitsInt] using hb)
  | tuple fs =>
    have hb : fitsInt (eTupleBody fs) = true := by cases t <;> simp_all [wfCell]
    simpa [eCell, cellData] using readColumn_eBytes (some (eTupleBody fs)) r (by simpa [optFitsInt] using hb)

theorem eBytes_length_ge (f : Option FrameRead.Bytes) : 4 ≤ (eBytes f).length := by
  cases f <;> simp [eBytes, eInt_length]

/-- a tuple cell's fields go to consecutive destinations -/
theorem unmarshalTuple_fields (es : List TypeInfo) (fs : List (Option FrameRead.Bytes)) (i : Nat) (acc : List Call)
    (hl : fs.length = es.length) (hf : fs.all optFitsInt = true) :
    unmarshalTuple es (eTupleBody fs) (List.replicate es.length true) i acc
      = .ok (i + es.length) (acc ++ tupleCalls i es fs) := by
  induction es generalizing fs i acc with
  | nil =>
    cases fs with
    | nil => simp [unmarshalTuple, tupleCalls]
    | cons f fs => simp at hl
  | cons e es ih =>
    cases fs with
    | nil => simp at hl
    | cons f fs =>
      have hf' : optFitsInt f = true ∧ fs.all optFitsInt = true := by simpa using hf
      have hlen : (eTupleBody (f :: fs)).length ≥ 4 := by
        have := eBytes_length_ge f
        simp [eTupleBody]; omega
      have hrd : readField (eTupleBody (f :: fs)) = .ok (f, eTupleBody fs) := by
        have := readField_eBytes f (eTupleBody fs) hf'.1
        simpa [eTupleBody] using this
      simp only [List.length_cons, List.replicate_succ, unmarshalTuple, hlen, if_true, hrd]
      rw [ih fs (i + 1) _ (by simpa using hl) hf'.2]
      simp [tupleCalls, Nat.add_assoc, Nat.add_comm 1]

/-- a null (or empty) tuple cell: every element's destination receives null -/
theorem unmarshalTuple_null (es : List TypeInfo) (i : Nat) (acc : List Call) :
    unmarshalTuple es [] (List.replicate es.length true) i acc
      = .ok (i + es.length) (acc ++ tupleCalls i es []) := by
  induction es generalizing i acc with
  | nil => simp [unmarshalTuple, tupleCalls]
  | cons e es ih =>
    simp only [List.length_cons, List.replicate_succ, unmarshalTuple]
    have : ¬ (([] : FrameRead.Bytes).length ≥ 4) := by simp
    simp only [this, if_false, if_true]
    rw [ih (i + 1)]
    simp [tupleCalls, Nat.add_assoc, Nat.add_comm 1]

theorem destWidth_view (t : TypeDesc) :
    (match viewType t with | .tuple _ es => es.length | _ => 1) = destWidth t := by
  cases t <;> simp [viewType, destWidth, viewTypes_length]

/-- scanColumn with a recorder on every destination the column occupies -/
theorem scanColumn_ok (col : ColumnInfo) (t : TypeDesc) (c : Cell) (k i : Nat) (hcol : col.typ = viewType t)
    (hw : wfCell t c = true) (hwt : wfType t = true) (hk : destWidth t ≤ k) :
    scanColumn (cellData c) col (List.replicate k true) i
      = .ok (destWidth t) (cellCalls i t c) := by
  cases t with
  | tuple es =>
    have hes : es.length ≥ 1 := by cases c <;> simp_all [wfCell]
    have hk' : es.length ≤ k := by simpa [destWidth] using hk
    obtain ⟨k', rfl⟩ : ∃ k', k = k' + 1 := ⟨k - 1, by omega⟩
    simp only [scanColumn, List.replicate_succ, hcol, viewType, Bool.not_true, Bool.false_eq_true, if_false]
    have hlen : ¬ ((viewTypes es).length > (true :: List.replicate k' true).length) := by
      simp [viewTypes_length]; omega
    rw [if_neg hlen]
    have htake : (true :: List.replicate k' true).take (viewTypes es).length = List.replicate (viewTypes es).length true := by
      rw [← List.replicate_succ, List.take_replicate]
      congr 1
      simp [viewTypes_length]; omega
    rw [htake]
    cases c with
    | null =>
      simp only [cellData, Option.getD_none]
      rw [unmarshalTuple_null]
      simp [cellCalls, destWidth, viewTypes_length]
    | bytes b => simp [wfCell] at hw
    | tuple fs =>
      have h : ((es.length ≥ 1 ∧ fs.length = es.length) ∧ fs.all optFitsInt = true) ∧ True := by
        simp only [wfCell, Bool.and_eq_true, decide_eq_true_eq, beq_iff_eq] at hw
        exact ⟨hw.1, trivial⟩
      simp only [cellData, Option.getD_some]
      rw [unmarshalTuple_fields (viewTypes es) fs i [] (by simp [viewTypes_length, h.1.1.2]) h.1.2]
      simp [cellCalls, destWidth, viewTypes_length]
  | native id =>
    obtain ⟨k', rfl⟩ : ∃ k', k = k' + 1 := ⟨k - 1, by simp [destWidth] at hk; omega⟩
    have hid : id ≠ 0x31 := (ids_of_native id (by simpa [wfType] using hwt)).2.2.2.2.2.2
    cases c <;> simp_all [scanColumn, List.replicate_succ, viewType, cellCalls, destWidth, wfCell, typeTuple]
  | custom cls =>
    obtain ⟨k', rfl⟩ : ∃ k', k = k' + 1 := ⟨k - 1, by simp [destWidth] at hk; omega⟩
    have hid : customType cls ≠ 0x31 := (customType_ne cls).2.2.2.1
    cases c <;> simp_all [scanColumn, List.replicate_succ, viewType, cellCalls, destWidth, wfCell, typeTuple]
  | list e =>
    obtain ⟨k', rfl⟩ : ∃ k', k = k' + 1 := ⟨k - 1, by simp [destWidth] at hk; omega⟩
    cases c <;> simp_all [scanColumn, List.replicate_succ, viewType, cellCalls, destWidth, wfCell]
  | map a b =>
    obtain ⟨k', rfl⟩ : ∃ k', k = k' + 1 := ⟨k - 1, by simp [destWidth] at hk; omega⟩
    cases c <;> simp_all [scanColumn, List.replicate_succ, viewType, cellCalls, destWidth, wfCell]
  | set e =>
    obtain ⟨k', rfl⟩ : ∃ k', k = k' + 1 := ⟨k - 1, by simp [destWidth] at hk; omega⟩
    cases c <;> simp_all [scanColumn, List.replicate_succ, viewType, cellCalls, destWidth, wfCell]
  | udt ks' n fs =>
    obtain ⟨k', rfl⟩ : ∃ k', k = k' + 1 := ⟨k - 1, by simp [destWidth] at hk; omega⟩
    cases c <;> simp_all [scanColumn, List.replicate_succ, viewType, cellCalls, destWidth, wfCell]

/-! ## a whole row through Iter.Scan -/

def eRow (cs : List Cell) : FrameRead.Bytes := cs.flatMap eCell

/-- columns `cols` carry the types `ts` -/
def colsMatch (cols : List ColumnInfo) (ts : List TypeDesc) : Prop := cols.map (·.typ) = ts.map viewType

def wfRow (tcs : List (TypeDesc × Cell)) : Bool :=
  tcs.all (fun tc => wfCell tc.1 tc.2 && wfType tc.1)

theorem scanCols_ok (cols : List ColumnInfo) (tcs : List (TypeDesc × Cell)) (i W : Nat) (rest : FrameRead.Bytes)
    (acc : List Call) (hm : colsMatch cols (tcs.map (·.1))) (hw : wfRow tcs = true)
    (hW : i + totalWidth (tcs.map (·.1)) = W) :
    scanCols cols i (List.replicate W true) (eRow (tcs.map (·.2)) ++ rest) acc
      = .done rest (acc ++ rowCalls i tcs) := by
  induction tcs generalizing cols i acc with
  | nil =>
    have : cols = [] := by simpa [colsMatch] using hm
    subst this
    simp [scanCols, eRow, rowCalls]
  | cons tc tcs ih =>
    obtain ⟨t, c⟩ := tc
    cases cols with
    | nil => simp [colsMatch] at hm
    | cons col cols =>
      have hm' : col.typ = viewType t ∧ colsMatch cols (tcs.map (·.1)) := by
        simpa [colsMatch] using hm
      have hw' : (wfCell t c = true ∧ wfType t = true) ∧ wfRow tcs = true := by
        simpa [wfRow] using hw
      have hW' : i + destWidth t + totalWidth (tcs.map (·.1)) = W := by
        simp [totalWidth] at hW ⊢; omega
      have hk : destWidth t ≤ W - i := by omega
      simp only [scanCols, List.map_cons, eRow, List.flatMap_cons, List.append_assoc]
      rw [readColumn_eCell t c _ hw'.1.1]
      have hdrop : (List.replicate W true).drop i = List.replicate (W - i) true := by simp
      simp only [hdrop]
      rw [scanColumn_ok col t c (W - i) i hm'.1 hw'.1.1 hw'.1.2 hk]
      have := ih cols (i + destWidth t) (acc ++ cellCalls i t c) hm'.2 hw'.2 hW'
      simp only [eRow] at this
      simp only [this]
      simp [rowCalls]

/-- `n` successive calls of Iter.Scan, all returning true -/
def scanRows (dests : List Bool) : Nat → Iter → Option (List (List Call) × Iter)
  | 0, it => some ([], it)
  | n + 1, it =>
    match scan it dests with
    | .row it' calls =>
      match scanRows dests n it' with
      | some (cs, it'') => some (calls :: cs, it'')
      | none => none
    | _ => none

theorem scan_row (it : Iter) (tcs : List (TypeDesc × Cell)) (rest : FrameRead.Bytes) (W : Nat)
    (hf : it.failed = false) (hp : it.pos < it.numRows)
    (hm : colsMatch it.md.columns (tcs.map (·.1))) (hw : wfRow tcs = true)
    (hW : totalWidth (tcs.map (·.1)) = W) (ha : it.md.actualColCount = (W : Int))
    (hb : it.buf = eRow (tcs.map (·.2)) ++ rest) :
    scan it (List.replicate W true) = .row { it with pos := it.pos + 1, buf := rest } (rowCalls 0 tcs) := by
  unfold scan
  have h2 : ¬ it.pos ≥ it.numRows := by omega
  have h3 : ¬ ((List.replicate W true).length : Int) ≠ it.md.actualColCount := by simp [ha]
  simp only [hf, Bool.false_eq_true, if_false, h2, h3, hb]
  rw [scanCols_ok it.md.columns tcs 0 W rest [] hm hw (by omega)]
  simp

/-- all rows of a page: every Scan returns true with exactly the calls the row stands for, the
    buffer is consumed exactly, `pos` ends at `numRows` -/
theorem scanRows_ok (rows : List (List (TypeDesc × Cell))) (ts : List TypeDesc) (it : Iter) (W : Nat) (rest : FrameRead.Bytes)
    (hf : it.failed = false) (hn : it.pos + rows.length = it.numRows)
    (hm : colsMatch it.md.columns ts) (hts : ∀ row ∈ rows, row.map (·.1) = ts)
    (hw : ∀ row ∈ rows, wfRow row = true)
    (hW : totalWidth ts = W) (ha : it.md.actualColCount = (W : Int))
    (hb : it.buf = eRows (rows.map (fun row => row.map (·.2))) ++ rest) :
    scanRows (List.replicate W true) rows.length it
      = some (rows.map (rowCalls 0), { it with pos := it.numRows, buf := rest }) := by
  induction rows generalizing it with
  | nil =>
    have : it.pos = it.numRows := by simpa using hn
    have hb' : it.buf = rest := by simpa [eRows] using hb
    cases it
    simp_all [scanRows]
  | cons row rows ih =>
    have hrow := hts row (by simp)
    have hb' : it.buf = eRow (row.map (·.2)) ++ (eRows (rows.map (fun row => row.map (·.2))) ++ rest) := by
      simpa [eRows, eRow] using hb
    have hp : it.pos < it.numRows := by simp at hn; omega
    simp only [List.length_cons, scanRows]
    rw [scan_row it row _ W hf hp (by rw [hrow]; exact hm) (hw row (by simp)) (by rw [hrow]; exact hW) ha hb']
    have := ih { it with pos := it.pos + 1, buf := eRows (rows.map (fun row => row.map (·.2))) ++ rest }
      hf (by simp at hn ⊢; omega) hm (fun r hr => hts r (by simp [hr])) (fun r hr => hw r (by simp [hr])) ha rfl
    simp only at this
    simp only [this]
    simp

/-- after the last row Scan returns false and no error is recorded -/
theorem scan_end (it : Iter) (dests : List Bool) (hf : it.failed = false) (hp : it.pos = it.numRows) :
    scan it dests = .stop it [] := by
  unfold scan
  simp [hf, hp]

/-! ## the Scanner -/

theorem readCells_ok (tcs : List (TypeDesc × Cell)) (rest : FrameRead.Bytes) (hw : wfRow tcs = true) :
    readCells tcs.length (eRow (tcs.map (·.2)) ++ rest) = .ok (tcs.map (fun tc => cellData tc.2), rest) := by
  induction tcs with
  | nil => simp [readCells, eRow]
  | cons tc tcs ih =>
    obtain ⟨t, c⟩ := tc
    have hw' : (wfCell t c = true ∧ wfType t = true) ∧ wfRow tcs = true := by
      simpa [wfRow] using hw
    simp only [List.length_cons, readCells, List.map_cons, eRow, List.flatMap_cons, List.append_assoc]
    rw [readColumn_eCell t c _ hw'.1.1]
    have := ih hw'.2
    simp only [eRow] at this
    simp only [this]

/-- the column loop of iterScanner.Scan: column `c` reads cell `c` of the row whatever the number of
    destinations the earlier columns occupied (`pre`: the cells of the columns already scanned,
    `i`: the destination position reached) -/
theorem scannerCols_ok (cols : List ColumnInfo) (tcs : List (TypeDesc × Cell)) (pre : List (Option FrameRead.Bytes))
    (i W : Nat) (acc : List Call) (hm : colsMatch cols (tcs.map (·.1))) (hw : wfRow tcs = true)
    (hW : i + totalWidth (tcs.map (·.1)) = W) :
    scannerCols cols pre.length i (List.replicate W true) (pre ++ tcs.map (fun tc => cellData tc.2)) acc
      = .done [] (acc ++ rowCalls i tcs) := by
  induction tcs generalizing cols pre i acc with
  | nil =>
    have : cols = [] := by simpa [colsMatch] using hm
    subst this
    simp [scannerCols, rowCalls]
  | cons tc tcs ih =>
    obtain ⟨t, c⟩ := tc
    cases cols with
    | nil => simp [colsMatch] at hm
    | cons col cols =>
      have hm' : col.typ = viewType t ∧ colsMatch cols (tcs.map (·.1)) := by
        simpa [colsMatch] using hm
      have hw' : (wfCell t c = true ∧ wfType t = true) ∧ wfRow tcs = true := by
        simpa [wfRow] using hw
      have hW' : i + destWidth t + totalWidth (tcs.map (·.1)) = W := by
        simp [totalWidth] at hW ⊢; omega
      have hk : destWidth t ≤ W - i := by omega
      have hlen : ¬ pre.length ≥ (pre ++ List.map (fun tc => cellData tc.2) ((t, c) :: tcs)).length := by
        simp
      have hget : (pre ++ List.map (fun tc => cellData tc.2) ((t, c) :: tcs)).getD pre.length none = cellData c := by
        simp [List.getD_eq_getElem?_getD]
      have hdrop : (List.replicate W true).drop i = List.replicate (W - i) true := by simp
      simp only [scannerCols]
      rw [if_neg hlen, hget, hdrop,
        scanColumn_ok col t c (W - i) i hm'.1 hw'.1.1 hw'.1.2 hk]
      have := ih cols (pre ++ [cellData c]) (i + destWidth t) (acc ++ cellCalls i t c) hm'.2 hw'.2 hW'
      simp only [List.length_append, List.length_singleton, List.append_assoc, List.singleton_append] at this
      simp only [List.map_cons] at this ⊢
      rw [this]
      simp [rowCalls]

/-- `n` rounds of `Next() == true; Scan(dests) == nil` -/
def scannerRows (dests : List Bool) : Nat → Scanner → Option (List (List Call) × Scanner)
  | 0, s => some ([], s)
  | n + 1, s =>
    match s.next with
    | .ok (s1, true) =>
      match s1.scan dests with
      | .ok s2 calls =>
        match scannerRows dests n s2 with
        | some (cs, s3) => some (calls :: cs, s3)
        | none => none
      | _ => none
    | _ => none

theorem scanner_row (s : Scanner) (tcs : List (TypeDesc × Cell)) (rest : FrameRead.Bytes) (W : Nat)
    (hf : s.it.failed = false) (hp : s.it.pos < s.it.numRows) (hc : s.cols.length = tcs.length)
    (hm : colsMatch s.it.md.columns (tcs.map (·.1))) (hw : wfRow tcs = true)
    (hW : totalWidth (tcs.map (·.1)) = W) (ha : s.it.md.actualColCount = (W : Int))
    (hb : s.it.buf = eRow (tcs.map (·.2)) ++ rest) :
    ∃ s1, s.next = .ok (s1, true) ∧
      s1.scan (List.replicate W true) =
        .ok { it := { s.it with pos := s.it.pos + 1, buf := rest }, cols := tcs.map (fun tc => cellData tc.2), valid := false }
          (rowCalls 0 tcs) := by
  refine ⟨{ it := { s.it with pos := s.it.pos + 1, buf := rest }, cols := tcs.map (fun tc => cellData tc.2), valid := true }, ?_, ?_⟩
  · unfold Scanner.next
    have h2 : ¬ s.it.pos ≥ s.it.numRows := by omega
    simp only [hf, Bool.false_eq_true, if_false, h2, hc, hb]
    rw [readCells_ok tcs rest hw]
  · unfold Scanner.scan
    have h3 : ¬ ((List.replicate W true).length : Int) ≠ s.it.md.actualColCount := by simp [ha]
    simp only [Bool.not_true, Bool.false_eq_true, if_false, h3]
    have := scannerCols_ok s.it.md.columns tcs [] 0 W [] hm hw (by simpa using hW)
    simp only [List.length_nil, List.nil_append] at this
    rw [this]

theorem scannerRows_ok (rows : List (List (TypeDesc × Cell))) (ts : List TypeDesc) (s : Scanner) (W : Nat) (rest : FrameRead.Bytes)
    (hf : s.it.failed = false) (hn : s.it.pos + rows.length = s.it.numRows) (hc : s.cols.length = ts.length)
    (hm : colsMatch s.it.md.columns ts) (hts : ∀ row ∈ rows, row.map (·.1) = ts)
    (hw : ∀ row ∈ rows, wfRow row = true)
    (hW : totalWidth ts = W) (ha : s.it.md.actualColCount = (W : Int))
    (hb : s.it.buf = eRows (rows.map (fun row => row.map (·.2))) ++ rest) :
    ∃ s1, scannerRows (List.replicate W true) rows.length s = some (rows.map (rowCalls 0), s1) ∧
      s1.it = { s.it with pos := s.it.numRows, buf := rest } := by
  induction rows generalizing s with
  | nil =>
    refine ⟨s, by simp [scannerRows], ?_⟩
    have : s.it.pos = s.it.numRows := by simpa using hn
    have hb' : s.it.buf = rest := by simpa [eRows] using hb
    obtain ⟨it, cols, valid⟩ := s
    cases it
    simp_all
  | cons row rows ih =>
    have hrow := hts row (by simp)
    have hlen : row.length = ts.length := by rw [← hrow]; simp
    have hb' : s.it.buf = eRow (row.map (·.2)) ++ (eRows (rows.map (fun row => row.map (·.2))) ++ rest) := by
      simpa [eRows, eRow] using hb
    have hp : s.it.pos < s.it.numRows := by simp at hn; omega
    obtain ⟨s1, h1, h2⟩ := scanner_row s row _ W hf hp (by rw [hc, hlen]) (by rw [hrow]; exact hm) (hw row (by simp))
      (by rw [hrow]; exact hW) ha hb'
    obtain ⟨s2, h3, h4⟩ := ih
      { it := { s.it with pos := s.it.pos + 1, buf := eRows (rows.map (fun row => row.map (·.2))) ++ rest },
        cols := row.map (fun tc => cellData tc.2), valid := false }
      hf (by simp at hn ⊢; omega) (by simp [hlen]) hm (fun r hr => hts r (by simp [hr])) (fun r hr => hw r (by simp [hr])) ha rfl
    refine ⟨s2, ?_, by simpa using h4⟩
    simp only [List.length_cons, scannerRows, h1, h2, h3, List.map_cons]

/-- after the last row Next returns false and no error is recorded -/
theorem scanner_end (s : Scanner) (hf : s.it.failed = false) (hp : s.it.pos = s.it.numRows) :
    s.next = .ok (s, false) := by
  unfold Scanner.next
  simp [hf, hp]

/-! ## from a logical RESULT/Rows response to the iterator -/

theorem colsMatch_view (c : Cols) : colsMatch (viewCols c) (colTypes c) := by
  cases c <;> simp [colsMatch, viewCols, colTypes, List.map_map, Function.comp_def]

theorem sum_width (ts : List TypeDesc) :
    ((ts.length : Int) + (ts.map (fun t => (destWidth t : Int) - 1)).sum) = (totalWidth ts : Int) := by
  induction ts with
  | nil => simp [totalWidth]
  | cons t ts ih =>
    simp only [totalWidth, List.map_cons, List.sum_cons, List.length_cons] at ih ⊢
    push_cast
    omega

theorem actualCount_eq (c : Cols) (h : ∀ n g, c ≠ .omitted n g) : actualCount c = (totalWidth (colTypes c) : Int) := by
  cases c with
  | omitted n g => exact absurd rfl (h n g)
  | global ks tb cs =>
    have := sum_width (colTypes (.global ks tb cs))
    simpa [actualCount, Cols.count, colTypes] using this
  | perCol cs =>
    have := sum_width (colTypes (.perCol cs))
    simpa [actualCount, Cols.count, colTypes] using this

end C04
