import Proofs.C12
import Proofs.C02Hist
import Proofs.C02Cross
import Proofs.C02Nested
import Proofs.C02Vint
import Model.StringSpec
/-!
# C02 — Marshal then Unmarshal gives back the value (property theorems)

Same model as C12 (`Model/Marshal*.lean`).  The harness op `rtsame` (spec-backed) states the property on the
real code: whenever gocql.Marshal succeeds on a documented (column, Go type, value) triple, gocql.Unmarshal of the
bytes into the same Go type gives an equal value.
-/
namespace C02
open ValueSpec Marshal C12Bytes C12Int C12Varint C12Scalar C12 C02Hist C02Cross C02Big C02Scalar C02Nested

/-! ## integer columns, same Go kind — INCLUDING the unsigned wrap window -/

theorem decTiny_tcEnc' (v : Int) : decTiny (tcEnc 1 v) = toS 8 v := by
  simp [decTiny, tcEnc, beBytes, byteOfNat, toS]; omega
theorem decShort_tcEnc' (v : Int) : decShort (tcEnc 2 v) = toS 16 v := by
  simp [decShort, tcEnc, beBytes, byteOfNat, toS]; omega
theorem decInt_tcEnc' (v : Int) : decInt (tcEnc 4 v) = toS 32 v := by
  simp [decInt, tcEnc, beBytes, byteOfNat, toS]; omega
theorem decBigInt_tcEnc' (v : Int) : decBigInt (tcEnc 8 v) = toS 64 v := by
  simp [decBigInt, tcEnc, beBytes, byteOfNat, toS]; omega

theorem decodeFixed_tcEnc' (col : IntCol) (v : Int) :
    decodeFixed (srcOf col) (tcEnc col.bytes v) = toS (8 * col.bytes) v := by
  cases col <;> simp only [srcOf, decodeFixed, IntCol.bytes]
  · exact decTiny_tcEnc' v
  · exact decShort_tcEnc' v
  · exact decInt_tcEnc' v
  · exact decBigInt_tcEnc' v

/-- an integer of ANY Go kind (named or not) that Marshal accepts for a tinyint/smallint/int/bigint column comes
    back unchanged when the bytes are decoded into the same Go kind — also for the unsigned values that are written
    as a negative bit pattern (uint16 65535 ↔ smallint ff ff) -/
theorem C02_int_roundtrip (col : IntCol) (k : IntKind) (named : Bool) (v : Int) (hv : k.holds v = true) (b : Bytes)
    (h : marshalIntKind col k named v = some b) :
    unmarshalIntKind (srcOf col) (decodeFixed (srcOf col) b) k = some v := by
  rw [marshalIntKind_char col k named v hv] at h
  split at h
  · rename_i hacc
    injection h with h
    rw [← h, decodeFixed_tcEnc']
    cases col <;> cases named <;> cases k <;> (
      simp [unmarshalIntKind, srcOf, IntKind.holds, IntKind.signed, IntKind.bits, wrapsAccepted, fitsS, IntCol.bytes,
        toS, toU, leB_iff, ltB_iff, leB_false, ltB_false] at hv hacc ⊢
      first
        | omega
        | (split <;> (first | omega | rfl | (congr 1; omega) | (exfalso; omega)))
        | (congr 1; omega))
  · simp at h

/-- FULL STATEMENT (does not hold): "… or into any other documented target type able to represent the value".
    uint16 65535 bound to smallint decodes into *int16 as −1 and into *int64 as −1, although both can hold 65535
    (D9).  Counterexample = replay input of `rt 4 smallint i uint16 65535 k int64`. -/
theorem C02_cex_cross_target :
    marshalIntKind .small .uint16 false 65535 = some [255, 255] ∧
    unmarshalIntKind .small (decodeFixed .small [255, 255]) .int64 = some (-1) ∧
    IntKind.int64.holds 65535 = true := by
  refine ⟨by decide, by decide, by decide⟩

/-- cross-target for the values that are NOT in the wrap window: decoding into any Go kind gives the value when the
    kind can hold it and an error otherwise -/
theorem C02_int_cross_target_partial (col : IntCol) (k k' : IntKind) (named : Bool) (v : Int) (hv : k.holds v = true)
    (hfit : fitsS col.bytes v = true) (hs : k'.signed = true ∨ 0 ≤ v) (b : Bytes)
    (h : marshalIntKind col k named v = some b) :
    unmarshalIntKind (srcOf col) (decodeFixed (srcOf col) b) k' = if k'.holds v = true then some v else none := by
  rw [marshalIntKind_char col k named v hv] at h
  simp [hfit] at h
  rw [← h]
  exact C12_int_accepts_conformant_partial col v k' hfit hs

/-! ## null / zero: a nil pointer is null, null decodes to a nil pointer through `**T` and to the zero value otherwise -/

theorem C02_null (p : Nat) (t : CqlTy) :
    marshal p t .nilptr = .ok none ∧
    (∀ ty, unmarshal p t (.ptr ty) none = .ok .nilptr) := by
  refine ⟨by simp [marshal], ?_⟩
  intro ty
  simp [unmarshal, withPtr, stripPtr]

/-- varchar/text/ascii/blob: strings and named strings come back unchanged; a non-empty []byte comes back unchanged -/
theorem C02_text_roundtrip (named : Bool) (s : Bytes) :
    marshalVarcharColumn (.str named s) = .ok (some s) ∧
    unmarshalScalar .text false s (.str named) = .ok (.str named s) := by
  refine ⟨by simp [marshalVarcharColumn], rfl⟩

theorem C02_bytes_roundtrip (b : Bytes) (hb : b ≠ []) :
    marshalVarcharColumn (.bytes false false b) = .ok (some b) ∧
    unmarshalScalar .blob false b (.bytes false) = .ok (.bytes false false b) := by
  refine ⟨by simp [marshalVarcharColumn], ?_⟩
  show URes.ok (if b = [] then GoVal.bytes false true [] else GoVal.bytes false false b) = _
  rw [if_neg hb]

/-- FULL STATEMENT (does not hold): "empty stays empty".  An empty non-nil []byte is written as the empty value but
    decodes into *[]byte as a nil slice, which Marshal would write as null. -/
theorem C02_cex_empty_bytes :
    marshalVarcharColumn (.bytes false false []) = .ok (some []) ∧
    unmarshalScalar .blob false [] (.bytes false) = .ok (.bytes false true []) ∧
    marshalVarcharColumn (.bytes false true []) = .ok none := by
  refine ⟨by simp [marshalVarcharColumn], rfl, by simp [marshalVarcharColumn]⟩


/-! ## collections (both framings) and tuple / UDT fields: framing round trips of the model -/

/-- an element of a list / set / map (key or value) written by Marshal is read back by Unmarshal unchanged — the
    same bytes, EMPTY stays empty — under the 4-byte framing and under the 2-byte framing of protocol ≤ 2 for EVERY
    length Marshal accepts (≤ 65535: the [short] is read back unsigned); so is the element count -/
theorem C02_coll_elem_roundtrip (p : Nat) (rest : Bytes) :
    (∀ (b e : Bytes), collItem p (some b) = some e → readCollItem p (e ++ rest) = some (some b, rest)) ∧
    (∀ (n : Nat) (c : Bytes), collSize p (n:Int) = some c → readCollSize p (c ++ rest) = some ((n:Int), rest)) :=
  ⟨fun b e h => C12Frame.readCollItem_collItem p b e rest h, fun n c h => C12Frame.readCollSize_collSize p n c rest h⟩

/-- the boundary, kernel-checked: a 40000-byte element under protocol 2 is framed with 9c 40 and read back with its
    40000 bytes (an `int16` reading would see −25536: a "null" element whose bytes are then parsed as the next elements) -/
example : collSize 2 40000 = some [156, 64] ∧ readCollSize 2 ([156, 64] ++ [7]) = some (40000, [7]) := by decide

/-- FULL STATEMENT (does not hold under protocol ≤ 2): "null elements survive".  A null element is written with
    length 0 (the 2-byte framing has no null) and read back as a present, EMPTY element — KF-C02-3 / KF-C12-8.
    From protocol 3 it does survive (`C12_coll_length_readback`). -/
theorem C02_cex_null_elem_v2 (rest : Bytes) :
    collItem 2 none = some [0, 0] ∧ readCollItem 2 ([0, 0] ++ rest) = some (some [], rest) := by
  refine ⟨by decide, ?_⟩
  simp [readCollItem, readCollSize, shorter, beNat]

/-- a tuple / UDT field: what appendBytes wrote, readBytes reads back — null (−1) as null, a present EMPTY value
    (length 0) as the empty value, bytes as the same bytes -/
theorem C02_field_roundtrip (item : Option Bytes) (rest : Bytes) (h : ∀ b, item = some b → b.length < 2^31) :
    readBytesM (appendBytes item ++ rest) = some (item, rest) := C12Frame.readBytesM_appendBytes item rest h

theorem TextFields_length {ts : List CqlTy} {gs : List GoTy} {vs : List GoVal} (h : C12Frame.TextFields ts gs vs) :
    vs.length = ts.length ∧ gs.length = ts.length := by
  induction h with
  | nil => exact ⟨rfl, rfl⟩
  | null _ ih => simp [ih.1, ih.2]
  | ptr _ _ _ ih => simp [ih.1, ih.2]
  | str _ _ _ ih => simp [ih.1, ih.2]

/-- null, empty and non-empty keep their distinct meanings inside a tuple: a struct bound to tuple<text, …, text>
    whose fields are `*string` (nil / pointer to "" / pointer to s) or `string` is given back unchanged by Marshal
    followed by Unmarshal into the same struct type — every number of fields, every string, every protocol version -/
theorem C02_tuple_text_roundtrip (p : Nat) (ts : List CqlTy) (gs : List GoTy) (vs : List GoVal)
    (h : C12Frame.TextFields ts gs vs) (hne : ts ≠ []) :
    ∃ b, marshal p (.tuple ts) (.struct vs) = .ok (some b) ∧
      unmarshal p (.tuple ts) (.struct gs) (some b) = .ok (.struct vs) := by
  obtain ⟨body, hm, hu⟩ := C12Frame.tuple_text_roundtrip p ts gs vs h
  obtain ⟨hl1, hl2⟩ := TextFields_length h
  refine ⟨body, ?_, ?_⟩
  · simp [marshal, hl1, wrapTuple, hne, hm]
  · simp [unmarshal, withPtr, stripPtr, unmarshalBase, hl2, dataBytes, hu]

/-- non-vacuity, kernel-checked = replay input `rtsame 4 tuple 3 text text text st 3 nilptr ptr s - ptr s 41 struct 3
    ptr string ptr string ptr string`: (null, EMPTY, "A") is written as ff ff ff ff | 00 00 00 00 | 00 00 00 01 41 -/
example : marshalTupleFields 4 [.text, .text, .text] [.nilptr, .ptr (.str false []), .ptr (.str false [65])] =
    .ok (some [255, 255, 255, 255, 0, 0, 0, 0, 0, 0, 0, 1, 65]) := by
  have h0 : encInt (toS 32 0) = [0, 0, 0, 0] := by decide
  have h1 : encInt (toS 32 1) = [0, 0, 0, 1] := by decide
  have hm : encInt (-1) = [255, 255, 255, 255] := by decide
  simp [marshalTupleFields, GoVal.isNilPtr, marshal, marshalScalar, marshalVarcharColumn, appendBytes, h0, h1, hm]

example : C12Frame.TextFields [.text, .text, .text] [.ptr (.str false), .ptr (.str false), .ptr (.str false)]
    [.nilptr, .ptr (.str false []), .ptr (.str false [65])] :=
  .null (.ptr [] (by decide) (.ptr [65] (by decide) .nil))

/-- FULL STATEMENT (does not hold): "a struct that Marshal accepts for a tuple column is given back by Unmarshal into
    the same struct type".  unmarshalTuple decodes every field into goType(elem) and then `Set`s the struct field:
    when the field's type is another documented type of the element (int32 for an int column, *big.Int for varint,
    *inf.Dec for decimal) the value cannot be assigned: an ERROR since the repair of KF-C05-18 (it was a
    reflect.Value.Set panic before), still not the value Marshal was given.  `C02_tuple_text_roundtrip` is the part that holds (fields of type
    goType(elem) or a pointer to it).  = replay input `rt 4 tuple 1 int st 1 i int32 5 struct 1 k int32` -/
theorem C02_cex_tuple_field_type :
    marshal 4 (.tuple [.int]) (.struct [.int .int32 false 5]) = .ok (some [0, 0, 0, 4, 0, 0, 0, 5]) ∧
    unmarshal 4 (.tuple [.int]) (.struct [.int .int32 false]) (some [0, 0, 0, 4, 0, 0, 0, 5]) = .err := by
  have hk : marshalIntKind .int .int32 false 5 = some [0, 0, 0, 5] := by decide
  have h4 : encInt (toS 32 4) = [0, 0, 0, 4] := by decide
  have hd : decInt [0, 0, 0, 4] = 4 := by decide
  have hd5 : decInt [0, 0, 0, 5] = 5 := by decide
  have hu : unmarshalIntKind .int 5 .int = some 5 := by decide
  have hb : (GoTy.int .int32 false == GoTy.int .int false) = false := by decide
  constructor
  · simp [marshal, wrapTuple, marshalTupleFields, GoVal.isNilPtr, marshalScalar, marshalIntColumn, optM, hk, appendBytes, h4]
  · have hus : unmarshalScalar .int false [0, 0, 0, 5] (.int .int false) = .ok (.int .int false 5) := by
      show unmarshalIntlike .int (decInt [0, 0, 0, 5]) [0, 0, 0, 5] (.int .int false) = _
      simp [unmarshalIntlike, hd5, hu, optU]
    simp [unmarshal, withPtr, stripPtr, unmarshalBase, dataBytes, unmarshalTupleSet, shorter, readBytesM, hd, goTypeOf,
      hus, hb]
/-- null ≠ empty inside a UDT, kernel-checked on the model = replay input `rtsame 4 udt 2 a text b text us 2 a ptr s - b
    nilptr ustruct 2 a ptr string b ptr string`: (a = EMPTY, b = null) is written 00 00 00 00 | ff ff ff ff and read
    back as (pointer to "", nil) -/
theorem C02_udt_null_vs_empty_witness :
    marshal 4 (.udt ["a", "b"] [.text, .text]) (.udtstruct ["a", "b"] [.ptr (.str false []), .nilptr]) =
      .ok (some [0, 0, 0, 0, 255, 255, 255, 255]) ∧
    unmarshal 4 (.udt ["a", "b"] [.text, .text]) (.udtstruct ["a", "b"] [.ptr (.str false), .ptr (.str false)])
      (some [0, 0, 0, 0, 255, 255, 255, 255]) = .ok (.udtstruct ["a", "b"] [.ptr (.str false []), .nilptr]) := by
  have h0 : encInt (toS 32 0) = [0, 0, 0, 0] := by decide
  have hm : encInt (-1) = [255, 255, 255, 255] := by decide
  have d0 : decInt [0, 0, 0, 0] = 0 := by decide
  have dm : decInt [255, 255, 255, 255] = -1 := by decide
  have l1 : lookupIdx "a" ["a", "b"] 0 = some 0 := by decide
  have l2 : lookupIdx "b" ["a", "b"] 0 = some 1 := by decide
  constructor
  · simp [marshal, udtAssemble, marshalNamed, seqItems, l1, l2, marshalScalar, marshalVarcharColumn, appendBytes, h0, hm]
  · simp [unmarshal, withPtr, stripPtr, unmarshalBase, dataBytes, unmarshalUdtStruct, zeroOf, zeroOfs, shorter, readBytesM,
      d0, dm, l1, l2, C12Frame.unmarshalScalar_text_str, wrapPtr]

/-! ## HISTORY: the answers of a process do not depend on what it marshalled / unmarshalled before (op `hseq`) -/

/-- a process that makes any sequence of Marshal / Unmarshal round trips (`Model/MarshalHistory.lean`: the state is the
    whole history of calls): (1) the answer to a call is the same in every state, (2) the answers of a sequence are the
    per-call answers, (3) so a call gets the same answer whatever precedes and follows it.  The op `hseq` compares every
    call of a sequence made by the REAL code in one process with its per-call answer. -/
theorem C02_marshal_history_independent :
    (∀ (h h' : Hist) (c : Call), (procStep h c).2 = (procStep h' c).2) ∧
    (∀ (h : Hist) (cs : List Call), procRun h cs = cs.map callModel) ∧
    (∀ (h : Hist) (pre suf : List Call) (c : Call), (procRun h (pre ++ c :: suf))[pre.length]? = some (callModel c)) := by
  refine ⟨fun _ _ _ => rfl, procRun_eq_map, ?_⟩
  intro h pre suf c
  rw [procRun_eq_map]
  simp

/-- the encoding of a struct bound to a UDT column depends on the cql-tag → value association ONLY: two structs whose
    (tag, value) lists are permutations of each other (distinct tags) — the same fields declared in another order — are
    encoded to the same bytes, for every UDT type, every protocol version, every field value (nested ones included).
    In particular nothing of the Go type but its tags enters (`GoVal.udtstruct names vs`): not its name, not the field
    indexes of another type. -/
theorem C02_udt_layout_independent (p : Nat) (names : List String) (ts : List CqlTy) (fs gs : List (String × GoVal))
    (hp : fs.Perm gs) (hnd : (fs.map (·.1)).Nodup) :
    marshal p (.udt names ts) (.udtstruct (fs.map (·.1)) (fs.map (·.2))) =
    marshal p (.udt names ts) (.udtstruct (gs.map (·.1)) (gs.map (·.2))) := by
  have key : ∀ xs : List (String × GoVal), marshal p (.udt names ts) (.udtstruct (xs.map (·.1)) (xs.map (·.2))) =
      if names = [] then .ok none else
        seqItems (fun item => some (appendBytes item)) (names.map (fun n => pick (enc1 p names ts) n xs)) := by
    intro xs
    simp only [marshal]
    rw [marshalNamed_eq, udtAssemble_pick]
  rw [key fs, key gs]
  split
  · rfl
  · congr 1
    apply List.map_congr_left
    intro n _
    exact pick_perm _ n fs gs hp hnd

/-- non-vacuity: (street, city) declared in both orders -/
example : marshal 4 (.udt ["a", "b"] [.text, .text]) (.udtstruct ["a", "b"] [.str false [65], .str false [66]]) =
    marshal 4 (.udt ["a", "b"] [.text, .text]) (.udtstruct ["b", "a"] [.str false [66], .str false [65]]) :=
  C02_udt_layout_independent 4 ["a", "b"] [.text, .text] [("a", .str false [65]), ("b", .str false [66])]
    [("b", .str false [66]), ("a", .str false [65])] (List.Perm.swap _ _ _) (by decide)

/-! ## CROSS-KIND round trip of a varint column against the specification `crossSpec` (op `rtx`) -/

theorem holds_bounds (k : IntKind) (v : Int) (hv : k.holds v = true) :
    -9223372036854775808 ≤ v ∧ v < 18446744073709551616 ∧ (k.signed = true → v < 9223372036854775808) ∧
    (k.signed = false → 0 ≤ v) := by
  cases k <;> simp [IntKind.holds, IntKind.signed, IntKind.bits, leB_iff, ltB_iff] at hv ⊢ <;> omega

theorem unmarshalIntKind_varint_holds (k : IntKind) (v : Int) (hv : k.holds v = true) :
    unmarshalIntKind .varint v k = some v := by
  cases k <;> simp [IntKind.holds, IntKind.signed, IntKind.bits, leB_iff, ltB_iff] at hv <;>
    simp [unmarshalIntKind, toU] <;> omega

/-- a Go integer of ANY kind (named or not, the unsigned upper half 2^63 … 2^64−1 included) bound to a varint column:
    (1) Marshal refuses exactly the documented refusals (`uint` / named unsigned kinds above MaxInt64: marshalBigInt's
    range check) — the bare `uint64` is accepted on its whole range; (2) when it accepts, Unmarshal into EVERY destination
    for which the specification `crossTarget` claims a value — every integer kind able to hold the number, `*big.Int`,
    `*string`, time.Duration — gives exactly that value.  Not claimed (`crossTarget` = excluded, with the finding's id):
    a number ≥ 2^63 into `*uint` / named unsigned kinds (KF-C12-12) and a number outside int64 into `*string`
    (KF-C02-5): `C02_cex_varint_upper_half`. -/
theorem C02_varint_cross_target (k : IntKind) (named : Bool) (v : Int) (hv : k.holds v = true) :
    (marshalVarintKind k named v = none ↔
      (k.signed = false ∧ v ≥ 9223372036854775808 ∧ ¬ (k = .uint64 ∧ named = false))) ∧
    (∀ b, marshalVarintKind k named v = some b →
      ∀ base w, crossTarget true v base = .ok w → unmarshalVarint b base = .ok w) := by
  have hb := holds_bounds k v hv
  constructor
  · cases k <;> cases named <;>
      simp [marshalVarintKind, marshalIntKind, IntKind.signed, IntKind.holds, IntKind.bits, leB_iff, ltB_iff] at hv ⊢ <;>
      first | omega | (split <;> simp)
  · intro b hm base w hc
    have hbs : b = specVarint v := marshalVarintKind_spec k named v hv b hm
    subst hbs
    have hne := specVarint_ne_nil v
    cases base with
    | big =>
      simp only [crossTarget] at hc
      injection hc with hc
      subst hc
      simp [unmarshalVarint, decBigInt2C_specVarint]
    | int k' n' =>
      simp only [crossTarget] at hc
      split at hc
      · cases hc
      · rename_i hh
        split at hc
        · cases hc
        · rename_i hex
          injection hc with hc
          subst hc
          have hh' : k'.holds v = true := by simpa using hh
          have hb' := holds_bounds k' v hh'
          by_cases hlo : v < 9223372036854775808
          · have hfit : fitsS 8 v = true := by simp [fitsS, leB_iff, ltB_iff]; omega
            have hlen := specVarint_length_le 8 v (by omega) hfit
            simp [unmarshalVarint, front_val _ hne hlen, tcDec_specVarint, unmarshalIntlike,
              unmarshalIntKind_varint_holds k' v hh', optU]
          · have hk : k' = .uint64 ∧ n' = false := by
              simp at hex
              have := hex (by omega)
              exact this
            obtain ⟨rfl, rfl⟩ := hk
            have hm2 : ((v.toNat : Nat) : Int) = v := by omega
            have hup := specVarint_upper v.toNat (by omega) (by omega)
            rw [hm2] at hup
            rw [hup]
            have h9 : (0 :: beBytes 8 v.toNat).length = 9 := by simp [beBytes_length]
            simp [unmarshalVarint, unmarshalVarintFront, h9, bytesToUint64_beBytes8 v.toNat (by omega), hm2]
    | str nm =>
      cases nm with
      | true => simp [crossTarget] at hc
      | false =>
        simp only [crossTarget] at hc
        split at hc
        · cases hc
        · rename_i hex
          injection hc with hc
          subst hc
          have hfit : fitsS 8 v = true := by simpa using hex
          have hlen := specVarint_length_le 8 v (by omega) hfit
          simp [unmarshalVarint, front_val _ hne hlen, tcDec_specVarint, unmarshalIntlike]
    | dur =>
      simp only [crossTarget] at hc
      split at hc
      · rename_i hfit
        injection hc with hc
        subst hc
        have hlen := specVarint_length_le 8 v (by omega) hfit
        simp [unmarshalVarint, front_val _ hne hlen, tcDec_specVarint, unmarshalIntlike]
      · cases hc
    | _ => simp [crossTarget] at hc

/-! ## SCALARS: every documented kind, all values, same Go type -/

theorem ms_intcol (t : CqlTy) (col : IntCol) (h : intColOf t = some col) (g : GoVal) :
    marshalScalar t g = marshalIntColumn col g := by
  cases t <;> simp [intColOf] at h <;> subst h <;> rfl

theorem us_intcol (t : CqlTy) (col : IntCol) (h : intColOf t = some col) (isNil : Bool) (d : Bytes) (ty : GoTy) :
    unmarshalScalar t isNil d ty = unmarshalIntlike (srcOf col) (decodeFixed (srcOf col) d) d ty := by
  cases t <;> simp [intColOf] at h <;> subst h <;> rfl

theorem srt_int (t : CqlTy) (col : IntCol) (h : intColOf t = some col) (k : IntKind) (named : Bool) (v : Int)
    (hv : k.holds v = true) : SRT t (.int k named) (.int k named v) := by
  intro ob hm
  rw [ms_intcol t col h] at hm
  rw [us_intcol t col h]
  simp only [marshalIntColumn] at hm
  cases hk : marshalIntKind col k named v with
  | none => rw [hk] at hm; simp [optM] at hm
  | some b =>
    rw [hk] at hm
    simp only [optM] at hm
    have := ok_inj hm; subst this
    have hr := C02_int_roundtrip col k named v hv b hk
    simp [unmarshalIntlike, dataBytes, hr, optU]

theorem srt_varint_kind (k : IntKind) (named : Bool) (v : Int) (hv : k.holds v = true) :
    SRT .varint (.int k named) (.int k named v) := by
  intro ob hm
  have hm' : marshalVarintColumn (.int k named v) = .ok ob := hm
  simp only [marshalVarintColumn] at hm'
  cases hk : marshalVarintKind k named v with
  | none => rw [hk] at hm'; simp [optM] at hm'
  | some b =>
    rw [hk] at hm'
    simp only [optM] at hm'
    have := ok_inj hm'; subst this
    obtain ⟨hnone, hall⟩ := C02_varint_cross_target k named v hv
    have hb := holds_bounds k v hv
    have hacc : ¬ (k.signed = false ∧ v ≥ 9223372036854775808 ∧ ¬ (k = .uint64 ∧ named = false)) := by
      intro hc
      have := hnone.mpr hc
      rw [hk] at this
      cases this
    have hct : crossTarget true v (.int k named) = .ok (.int k named v) := by
      simp only [crossTarget, hv, Bool.not_true, Bool.false_eq_true, if_false, Bool.true_and]
      by_cases hbig : v ≥ 9223372036854775808
      · have hks : k.signed = false := by
          cases hs : k.signed
          · rfl
          · have := hb.2.2.1 hs; omega
        have hu : k = .uint64 ∧ named = false := by
          by_cases hu : k = .uint64 ∧ named = false
          · exact hu
          · exact absurd ⟨hks, hbig, hu⟩ hacc
        obtain ⟨rfl, rfl⟩ := hu
        simp
      · simp [hbig]
    exact hall b hk (.int k named) _ hct

theorem ms_cqldur (m d n : Int) : marshalScalar .duration (.cqldur m d n) = .ok (some (encVints m d n)) := rfl
theorem us_cqldur (isNil : Bool) (d : Bytes) : unmarshalScalar .duration isNil d .cqldur =
    if d = [] then .ok (.cqldur 0 0 0) else
      (match decVints d with | some (m, dd, n) => .ok (.cqldur m dd n) | none => .err) := rfl

/-- gocql.Duration ↔ duration: months and days of int32, nanoseconds of int64 — every value (three zig-zag vints) -/
theorem srt_duration (m d n : Int) (hm : fitsS 4 m = true) (hd : fitsS 4 d = true) (hn : fitsS 8 n = true) :
    SRT .duration .cqldur (.cqldur m d n) := by
  intro ob h
  rw [ms_cqldur] at h
  have := ok_inj h; subst this
  rw [us_cqldur]
  simp only [dataBytes, Option.getD, if_neg (C02Vint.encVints_ne_nil m d n hm hd hn),
    C02Vint.decVints_encVints m d n hm hd hn]

/-- the documented (column, Go type, value) triples of the scalar columns for which the same-type round trip is claimed:
    each line a Go kind with ALL its values, restricted only where the line says so -/
inductive Leaf : CqlTy → GoTy → GoVal → Prop
  /-- every Go integer kind, named or not, into tinyint / smallint / int / bigint / counter — every value of the kind
      (Marshal refuses the ones the column cannot hold; the unsigned wrap window comes back through the same kind) -/
  | int {t col} (h : intColOf t = some col) (k : IntKind) (named : Bool) (v : Int) (hv : k.holds v = true) :
      Leaf t (.int k named) (.int k named v)
  /-- every Go integer kind into varint, the unsigned upper half 2^63 … 2^64−1 included -/
  | varint (k : IntKind) (named : Bool) (v : Int) (hv : k.holds v = true) : Leaf .varint (.int k named) (.int k named v)
  /-- big.Int ↔ varint: arbitrary precision -/
  | big (v : Int) : Leaf .varint .big (.big v)
  | bigcol {t} (ht : t = .bigint ∨ t = .counter) (v : Int) : Leaf t .big (.big v)
  | str {t} (ht : isTextual t) (named : Bool) (s : Bytes) : Leaf t (.str named) (.str named s)
  /-- []byte: non-empty (EMPTY is KF-C02-2) -/
  | bytes {t} (ht : isTextual t) (b : Bytes) (hb : b ≠ []) : Leaf t (.bytes false) (.bytes false false b)
  | namedBytes {t} (ht : isTextual t) (b : Bytes) : Leaf t (.bytes true) (.bytes true false b)
  | nilBytes {t} (ht : isTextual t) (named : Bool) : Leaf t (.bytes named) (.bytes named true [])
  | bool (named b : Bool) : Leaf .boolean (.bool named) (.bool named b)
  /-- float32: all 2^32 bit patterns (a NAMED float32 except signalling NaNs, which `float32(rv.Float())` quiets) -/
  | f32 (named : Bool) (x : Nat) (hx : x < 2^32) (hq : named = true → quiet32 x = x) : Leaf .float (.f32 named) (.f32 named x)
  | f64 (named : Bool) (x : Nat) (hx : x < 2^64) : Leaf .double (.f64 named) (.f64 named x)
  /-- inf.Dec: every unscaled big integer, every int32 scale -/
  | decimal (u s : Int) (hs : fitsS 4 s = true) : Leaf .decimal .dec (.dec u s)
  | timeInt64 (named : Bool) (v : Int) (hv : fitsS 8 v = true) : Leaf .time (.int .int64 named) (.int .int64 named v)
  | timeDur (v : Int) (hv : fitsS 8 v = true) : Leaf .time .dur (.dur v)
  | tsInt64 (named : Bool) (v : Int) (hv : fitsS 8 v = true) : Leaf .timestamp (.int .int64 named) (.int .int64 named v)
  | tsDur (v : Int) (hv : fitsS 8 v = true) : Leaf .timestamp .dur (.dur v)
  /-- time.Time with whole milliseconds, pre-epoch and the zero time included, as far as int64 milliseconds reach -/
  | tsTime (sec nsec : Int) (hn : 0 ≤ nsec ∧ nsec < 1000000000) (hms : nsec % 1000000 = 0)
      (h1 : fitsS 8 (sec * 1000) = true) (h2 : fitsS 8 (exactMillis sec nsec) = true) : Leaf .timestamp .time (.time sec nsec)
  /-- a midnight whose day is in the date range (pre-epoch included) -/
  | dateTime (sec : Int) (hmid : sec % 86400 = 0) (h1 : fitsS 8 (sec * 1000) = true)
      (hrange : fitsU 4 (sec / 86400 + 2147483648) = true) : Leaf .date .time (.time sec 0)
  | uuid {t} (ht : isUuid t) (b : Bytes) (hb : b.length = 16) : Leaf t .uuid (.uuid b)
  | arr16 {t} (ht : isUuid t) (b : Bytes) (hb : b.length = 16) : Leaf t .arr16 (.arr16 b)
  /-- gocql.Duration: months / days of int32, nanoseconds of int64 -/
  | duration (m d n : Int) (hm : fitsS 4 m = true) (hd : fitsS 4 d = true) (hn : fitsS 8 n = true) :
      Leaf .duration .cqldur (.cqldur m d n)
  /-- net.IP: 4 bytes, or 16 bytes not IPv4-mapped (the mapped ones: `C02_inet_mapped`) -/
  | inet (b : Bytes) (hb : b.length = 4 ∨ (b.length = 16 ∧ ipTo4 b = none)) : Leaf .inet .ip (.ip b)

theorem intCol_scalar (t : CqlTy) (col : IntCol) (h : intColOf t = some col) : CqlTy.isScalar t = true := by
  cases t <;> simp [intColOf] at h <;> rfl

theorem Leaf.shape {t : CqlTy} {ty : GoTy} {g : GoVal} (h : Leaf t ty g) :
    CqlTy.isScalar t = true ∧ isBase ty = true ∧ isPlain g = true := by
  cases h with
  | int h _ _ _ _ => exact ⟨intCol_scalar _ _ h, rfl, rfl⟩
  | bigcol ht _ => rcases ht with rfl | rfl <;> exact ⟨rfl, rfl, rfl⟩
  | str ht _ _ => rcases ht with rfl | rfl | rfl | rfl <;> exact ⟨rfl, rfl, rfl⟩
  | bytes ht _ _ => rcases ht with rfl | rfl | rfl | rfl <;> exact ⟨rfl, rfl, rfl⟩
  | namedBytes ht _ => rcases ht with rfl | rfl | rfl | rfl <;> exact ⟨rfl, rfl, rfl⟩
  | nilBytes ht _ => rcases ht with rfl | rfl | rfl | rfl <;> exact ⟨rfl, rfl, rfl⟩
  | uuid ht _ _ => rcases ht with rfl | rfl <;> exact ⟨rfl, rfl, rfl⟩
  | arr16 ht _ _ => rcases ht with rfl | rfl <;> exact ⟨rfl, rfl, rfl⟩
  | _ => exact ⟨rfl, rfl, rfl⟩

/-- SCALAR ROUND TRIP: for every documented triple of `Leaf` — every scalar column type, each Go kind with all its
    values — whatever Marshal returns without error, Unmarshal of it into a fresh value of the same Go type is the
    value that was given; every protocol version. -/
theorem C02_scalar_roundtrip (p : Nat) (t : CqlTy) (ty : GoTy) (g : GoVal) (h : Leaf t ty g) :
    ∀ ob, marshal p t g = .ok ob → unmarshal p t ty ob = .ok g := by
  obtain ⟨hs1, hs2, hs3⟩ := h.shape
  apply rt_scalar p t ty g hs1 hs2 hs3
  cases h with
  | int h k named v hv => exact srt_int _ _ h k named v hv
  | varint k named v hv => exact srt_varint_kind k named v hv
  | big v => exact srt_varint_big v
  | bigcol ht v => exact srt_bigint_big _ ht v
  | str ht named s => exact srt_str _ ht named s
  | bytes ht b hb => exact srt_bytes _ ht b hb
  | namedBytes ht b => exact srt_named_bytes _ ht b
  | nilBytes ht named => exact srt_nil_bytes _ ht named
  | bool named b => exact srt_bool named b
  | f32 named x hx hq => exact srt_f32 named x hx hq
  | f64 named x hx => exact srt_f64 named x hx
  | decimal u s hs => exact srt_decimal u s hs
  | timeInt64 named v hv => exact srt_time_int64 named v hv
  | timeDur v hv => exact srt_time_dur v hv
  | tsInt64 named v hv => exact srt_timestamp_int64 named v hv
  | tsDur v hv => exact srt_timestamp_dur v hv
  | tsTime sec nsec hn hms h1 h2 => exact srt_timestamp_time sec nsec hn hms h1 h2
  | dateTime sec hmid h1 hr => exact srt_date_time sec hmid h1 hr
  | uuid ht b hb => exact srt_uuid _ ht b hb
  | arr16 ht b hb => exact srt_arr16 _ ht b hb
  | inet b hb => exact srt_inet b hb
  | duration m d n hm hd hn => exact srt_duration m d n hm hd hn

/-- non-vacuity: boundaries named by the property — a negative big.Int in the upper half of its byte width, −0.0,
    a NaN payload, a pre-epoch instant, the zero time -/
example : Leaf .varint .big (.big (-32768)) := .big _
example : Leaf .double (.f64 false) (.f64 false 0x8000000000000000) := .f64 _ _ (by decide)
example : Leaf .float (.f32 false) (.f32 false 0x7fa00001) := .f32 _ _ (by decide) (by intro h; cases h)
example : Leaf .timestamp .time (.time (-1) 999000000) := .tsTime _ _ (by decide) (by decide) (by decide) (by decide)
example : Leaf .timestamp .time (.time zeroTimeSec 0) := .tsTime _ _ (by decide) (by decide) (by decide) (by decide)
example : Leaf .duration .cqldur (.cqldur (-2147483648) 2147483647 (-9223372036854775808)) :=
  .duration _ _ _ (by decide) (by decide) (by decide)
example : Leaf .date .time (.time (-86400) 0) := .dateTime _ (by decide) (by decide) (by decide)
example : marshalVarintBig (-32768) = [128, 0] := by
  rw [marshalVarintBig_spec, specVarint]; simp [byteOfNat]; rw [specVarint]; simp [byteOfNat]

/-- arbitrary precision: what Marshal writes for a big.Int (varint) and for the unscaled value of an inf.Dec (decimal),
    read back by decBigInt2C, is the number — EVERY integer; and the varint bytes are the specification's (shortest form) -/
theorem C02_bigint_bytes_roundtrip (n : Int) :
    decBigInt2C (encBigInt2C n) = n ∧ decBigInt2C (marshalVarintBig n) = n ∧ marshalVarintBig n = specVarint n :=
  ⟨decBigInt2C_encBigInt2C n, by rw [marshalVarintBig_spec, decBigInt2C_specVarint], marshalVarintBig_spec n⟩

/-- IPv4-mapped IPv6 (::ffff:a.b.c.d as 16 bytes): written as the 4-byte address, read back as the 4-byte net.IP — the
    same ADDRESS (its 16-byte form is the original; `net.IP.Equal`), not the same byte slice: the documented exception
    of the same-type round trip (kept out of rtsame by exactly this predicate) -/
theorem C02_inet_mapped (b : Bytes) (h16 : b.length = 16) (hz : b.take 10 = List.replicate 10 0)
    (hf : (b.drop 10).take 2 = [255, 255]) :
    marshalScalar .inet (.ip b) = .ok (some (b.drop 12)) ∧
    unmarshalScalar .inet false (b.drop 12) .ip = .ok (.ip (b.drop 12)) ∧
    ipTo16 (b.drop 12) = some b := inet_mapped b h16 hz hf

/-! ## NESTED: structural induction over the type tree -/

/-- the values for which the same-type round trip is claimed, built over the scalar triples of `Leaf`: pointers and
    pointers to pointers (nil, or a chain down to a value that is not written as null), lists / sets bound to slices and
    arrays, maps (a Go map holds each key once), nil slices / maps, tuples bound to structs, slices, arrays and
    []interface{}, UDTs bound to map[string]interface{} — nested to ANY depth.  Under protocol ≤ 2 the
    elements must not be null (the 2-byte framing has no null element: KF-C02-3). -/
inductive Clean (p : Nat) : CqlTy → GoTy → GoVal → Prop
  | leaf {t ty g} : Leaf t ty g → Clean p t ty g
  | nilptr (t : CqlTy) (k : Nat) (ty : GoTy) (hb : isBase ty = true) : Clean p t (ptrTy (k+1) ty) .nilptr
  | ptr {t ty g} (k : Nat) (hb : isBase ty = true) : Clean p t ty g → NonNull p t g → Clean p t (ptrTy k ty) (wrapPtr k g)
  | slice {t et gty vs} (ht : isListLike t et) : (∀ v, v ∈ vs → Clean p et gty v) →
      (p ≤ 2 → ∀ v, v ∈ vs → NonNull p et v) → Clean p t (.slice gty) (.slice false vs)
  | nilSlice {t et} (ht : isListLike t et) (gty : GoTy) : Clean p t (.slice gty) (.slice true [])
  | array {t et gty vs} (ht : isListLike t et) : (∀ v, v ∈ vs → Clean p et gty v) →
      (p ≤ 2 → ∀ v, v ∈ vs → NonNull p et v) → Clean p t (.array vs.length gty) (.array vs)
  | map {kt vt gk gv kvs} : (∀ kv, kv ∈ kvs → Clean p kt gk kv.1) → (∀ kv, kv ∈ kvs → Clean p vt gv kv.2) →
      (p ≤ 2 → ∀ kv, kv ∈ kvs → NonNull p kt kv.1 ∧ NonNull p vt kv.2) → KeysDistinct kvs →
      Clean p (.map kt vt) (.map gk gv) (.map false kvs)
  | nilMap (kt vt : CqlTy) (gk gv : GoTy) : Clean p (.map kt vt) (.map gk gv) (.map true [])
  /-- tuple<T1, …, Tn> ↔ struct whose i-th field is of type goType(Ti) (`val`) or *goType(Ti) (`null`: nil, `ptr`:
      pointing to a value not written as null), the held values `Clean` again — tuples inside lists inside tuples … -/
  | tuple (fs : List TField) : (∀ f, f ∈ fs → f.kind ≠ .null → Clean p f.t (goTypeOf f.t) f.v) →
      (∀ f, f ∈ fs → f.side p) →
      Clean p (.tuple (fs.map (·.t))) (.struct (fs.map (·.ty))) (.struct (fs.map (·.val)))
  /-- UDT ↔ map[string]interface{} holding a goType(field) value for every field of the UDT (distinct names) -/
  | udtMap (fl : List UField) : (fl.map (·.name)).Nodup → fl ≠ [] →
      (∀ f, f ∈ fl → Clean p f.t (goTypeOf f.t) f.v) → (∀ f, f ∈ fl → Small p f.t f.v) →
      Clean p (.udt (fl.map (·.name)) (fl.map (·.t))) .udtmap (.udtmap false (fl.map (·.name)) (fl.map (·.v)))
  /-- tuple ↔ []G / [n]G: every field of the one Go type `g` (goType(elem) for every element, or a pointer to it) -/
  | tupleSlice (fs : List TField) (g : GoTy) : (∀ f, f ∈ fs → f.kind ≠ .null → Clean p f.t (goTypeOf f.t) f.v) →
      (∀ f, f ∈ fs → f.side p) → (∀ f, f ∈ fs → f.ty = g) → (g == GoTy.iface) = false →
      Clean p (.tuple (fs.map (·.t))) (.slice g) (.slice false (fs.map (·.val)))
  | tupleArray (fs : List TField) (g : GoTy) : (∀ f, f ∈ fs → f.kind ≠ .null → Clean p f.t (goTypeOf f.t) f.v) →
      (∀ f, f ∈ fs → f.side p) → (∀ f, f ∈ fs → f.ty = g) →
      Clean p (.tuple (fs.map (·.t))) (.array (fs.map (·.t)).length g) (.array (fs.map (·.val)))
  /-- tuple ↔ []interface{} holding a goType(elem) value per element (no nil element) -/
  | tupleIfaces (fs : List TField) : (∀ f, f ∈ fs → f.kind ≠ .null → Clean p f.t (goTypeOf f.t) f.v) →
      (∀ f, f ∈ fs → f.side p) → (∀ f, f ∈ fs → f.kind = .iface) →
      Clean p (.tuple (fs.map (·.t))) (.slice .iface) (.ifaces (fs.map (·.val)))

/-- NESTED ROUND TRIP, by structural induction: for every `Clean` value — scalars inside pointers inside lists inside
    maps inside lists …, any depth — whatever Marshal returns without error, Unmarshal of it into a fresh value of the same
    Go type is the value that was given.  Both collection framings: every protocol version `p` (2-byte lengths for
    p ≤ 2, 4-byte lengths and −1 for null from 3). -/
theorem C02_nested_roundtrip (p : Nat) (t : CqlTy) (ty : GoTy) (g : GoVal) (h : Clean p t ty g) :
    ∀ ob, marshal p t g = .ok ob → unmarshal p t ty ob = .ok g := by
  induction h with
  | leaf hl => exact C02_scalar_roundtrip p _ _ _ hl
  | nilptr t k ty hb => exact rt_nilptr p t k ty hb
  | ptr k hb _ hnn ih => exact rt_ptr p _ k _ hb _ ih hnn
  | slice ht _ hnn ih => exact rt_slice p _ _ ht _ _ ih hnn
  | nilSlice ht gty => exact rt_nil_slice p _ _ ht gty
  | array ht _ hnn ih => exact rt_array p _ _ ht _ _ ih hnn
  | map _ _ hnn hd ihk ihv => exact rt_map p _ _ _ _ _ (fun kv hkv => ⟨ihk kv hkv, ihv kv hkv⟩) hnn hd
  | nilMap kt vt gk gv => exact rt_nil_map p kt vt gk gv
  | tuple fs _ hside ih => exact rt_tuple_struct p _ _ _ (fieldsRT_of p fs ih hside)
  | udtMap fl hnd hne _ hsm ih => exact rt_udtmap p fl hnd hne (fun f hf => ⟨ih f hf, hsm f hf⟩)
  | tupleSlice fs g _ hside hty hg ih =>
    have h := fieldsRT_of p fs ih hside
    rw [map_ty_replicate fs g hty] at h
    exact rt_tuple_slice p _ g _ h hg
  | tupleArray fs g _ hside hty ih =>
    have h := fieldsRT_of p fs ih hside
    rw [map_ty_replicate fs g hty] at h
    exact rt_tuple_array p _ g _ h
  | tupleIfaces fs _ hside hk ih =>
    have h := fieldsRT_of p fs ih hside
    rw [map_ty_replicate fs .iface (fun f hf => by simp [TField.ty, hk f hf])] at h
    refine rt_tuple_ifaces p _ _ h ?_
    intro v hv
    obtain ⟨f, hf, rfl⟩ := List.mem_map.mp hv
    have hs := hside f hf
    simp only [TField.side, hk f hf] at hs
    simp only [TField.val, hk f hf]
    exact ⟨hs.2.1, hs.1⟩

/-- non-vacuity: list<map<text, list<int>>> — a slice holding a nil map and a map from "b" to a slice of *int (one
    pointing to 7, one nil = a null element, protocol 4) -/
example : Clean 4 (.list (.map .text (.list .int))) (.slice (.map (.str false) (.slice (.ptr (.int .int false)))))
    (.slice false [.map true [],
                   .map false [(.str false [98], .slice false [.ptr (.int .int false 7), .nilptr])]]) := by
  refine .slice (Or.inl rfl) ?_ (by intro h; omega)
  intro v hv
  simp at hv
  rcases hv with rfl | rfl
  · exact .nilMap _ _ _ _
  · refine .map ?_ ?_ (by intro h; omega) ⟨(by intro kv h; cases h), trivial⟩
    · intro kv hkv
      simp at hkv; subst hkv
      exact .leaf (.str (Or.inr (Or.inl rfl)) _ _)
    · intro kv hkv
      simp at hkv; subst hkv
      refine .slice (Or.inl rfl) ?_ (by intro h; omega)
      intro v hv
      simp at hv
      rcases hv with rfl | rfl
      · exact .ptr 1 rfl (.leaf (.int (col := .int) rfl _ _ _ (by decide))) (by
          unfold NonNull; simp [marshal, marshalScalar, marshalIntColumn, optM, marshalIntKind])
      · exact .nilptr _ 0 _ rfl

/-- non-vacuity for maps of any size: `KeysDistinct` is discharged by computation (`keysDistinct_of_B`; `==` on Go values
    is the structural `GoVal.beqV` of Model/Marshal.lean) — map<text, int> ↔ map[string]int with three entries -/
example : Clean 2 (.map .text .int) (.map (.str false) (.int .int false))
    (.map false [(.str false [97], .int .int false 1), (.str false [98], .int .int false (-2)), (.str false [], .int .int false 0)]) := by
  refine .map ?_ ?_ ?_ (keysDistinct_of_B _ (by decide))
  · intro kv hkv
    simp at hkv
    rcases hkv with rfl | rfl | rfl <;> exact .leaf (.str (Or.inr (Or.inl rfl)) _ _)
  · intro kv hkv
    simp at hkv
    rcases hkv with rfl | rfl | rfl <;> exact .leaf (.int (col := .int) rfl _ _ _ (by decide))
  · intro _ kv hkv
    simp at hkv
    rcases hkv with rfl | rfl | rfl <;>
      (unfold NonNull; simp [marshal, marshalScalar, marshalVarcharColumn, marshalIntColumn, optM, marshalIntKind])

/-- non-vacuity of the tuple constructor: list<tuple<int, text>> ↔ []struct{ *int; string } = [(null, "A")] -/
example : Clean 4 (.list (.tuple [.int, .text])) (.slice (.struct [.ptr (.int .int false), .str false]))
    (.slice false [.struct [.nilptr, .str false [65]]]) := by
  refine .slice (Or.inl rfl) ?_ (by intro h; omega)
  intro v hv
  simp at hv; subst hv
  refine Clean.tuple [⟨.int, .null, .nil⟩, ⟨.text, .val, .str false [65]⟩] ?_ ?_
  · intro f hf hk
    simp at hf
    rcases hf with rfl | rfl
    · exact absurd rfl hk
    · exact .leaf (.str (Or.inr (Or.inl rfl)) _ _)
  · intro f hf
    simp at hf
    rcases hf with rfl | rfl
    · exact nullOK_scalar 4 .int rfl
    · refine ⟨rfl, rfl, ?_⟩
      intro b hb
      simp [marshal, marshalScalar, marshalVarcharColumn] at hb
      subst hb; simp

/-- non-vacuity: tuple<int, int> ↔ []int, [2]*int and []interface{}{int, int} -/
example : Clean 4 (.tuple [.int, .int]) (.slice .iface) (.ifaces [.int .int false 1, .int .int false (-1)]) := by
  have hs : ∀ n : Int, Small 4 .int (.int .int false n) := by
    intro n b hb
    simp [marshal, marshalScalar, marshalIntColumn, optM, marshalIntKind] at hb
    split at hb
    · rename_i heq
      split at heq
      · cases heq
      · injection heq with heq
        injection hb with hb
        injection hb with hb
        subst hb; subst heq; simp [encInt]
    · cases hb
  refine Clean.tupleIfaces [⟨.int, .iface, .int .int false 1⟩, ⟨.int, .iface, .int .int false (-1)⟩] ?_ ?_ ?_
  · intro f hf _
    simp at hf
    rcases hf with rfl | rfl <;> exact .leaf (.int (col := .int) rfl _ _ _ (by decide))
  · intro f hf
    simp at hf
    rcases hf with rfl | rfl <;> exact ⟨rfl, rfl, hs _⟩
  · intro f hf
    simp at hf
    rcases hf with rfl | rfl <;> rfl

/-- non-vacuity: udt<a text, b text> ↔ map[string]interface{}{"a": "A", "b": ""} -/
example : Clean 4 (.udt ["a", "b"] [.text, .text]) .udtmap (.udtmap false ["a", "b"] [.str false [65], .str false []]) := by
  refine Clean.udtMap [⟨"a", .text, .str false [65]⟩, ⟨"b", .text, .str false []⟩] (by decide) (by simp) ?_ ?_
  · intro f hf
    simp at hf
    rcases hf with rfl | rfl <;> exact .leaf (.str (Or.inr (Or.inl rfl)) _ _)
  · intro f hf b hb
    simp at hf
    rcases hf with rfl | rfl <;>
      (simp [marshal, marshalScalar, marshalVarcharColumn] at hb; subst hb; simp)

/-- TUPLE step (element theorems as hypotheses, `FieldsRT`): a struct bound to tuple<T1, …, Tn> whose i-th field has
    type goType(Ti) — holding a value whose round trip holds — or *goType(Ti) — nil, or pointing to such a value that is
    not written as null — is given back unchanged by Marshal followed by Unmarshal into the same struct type: every arity,
    every protocol version; null (nil pointer), EMPTY and values keep their meanings.  Generalises
    `C02_tuple_text_roundtrip` from text fields to every element type (fields of another documented type: KF-C02-4). -/
theorem C02_tuple_struct_roundtrip (p : Nat) (ts : List CqlTy) (gs : List GoTy) (vs : List GoVal)
    (h : FieldsRT p ts gs vs) :
    ∀ ob, marshal p (.tuple ts) (.struct vs) = .ok ob → unmarshal p (.tuple ts) (.struct gs) ob = .ok (.struct vs) :=
  rt_tuple_struct p ts gs vs h

/-- non-vacuity: tuple<int, list<text>, text> ↔ struct { *int; []string; *string } = (pointer to 7, nil slice, nil) -/
example : FieldsRT 4 [.int, .list .text, .text] [.ptr (.int .int false), .slice (.str false), .ptr (.str false)]
    [.ptr (.int .int false 7), .slice true [], .nilptr] := by
  refine .ptr (t := .int) ?_ ?_ ?_ (.val (t := .list .text) rfl rfl ?_ ?_ (.null (t := .text) (nullOK_scalar 4 .text rfl) .nil))
  · exact C02_scalar_roundtrip 4 _ _ _ (.int (col := .int) rfl _ _ _ (by decide))
  · unfold NonNull; simp [marshal, marshalScalar, marshalIntColumn, optM, marshalIntKind]
  · intro b hb
    simp [marshal, marshalScalar, marshalIntColumn, optM, marshalIntKind] at hb
    subst hb; simp [encInt]
  · exact C02_nested_roundtrip 4 _ _ _ (.nilSlice (Or.inl rfl) _)
  · intro b hb; simp [marshal] at hb

/-- duration, the zig-zag layer: decIntZigZag (marshal.go) inverts encIntZigZag on EVERY int64 (months, days and
    nanoseconds of a duration are written as vints of their zig-zag codes).  The byte layer: `C02Vint.decVint_specVint`
    (decVint reads back the vint encVint wrote, every int64) — used by the `duration` line of `Leaf`. -/
theorem C02_zigzag_roundtrip (n : Int) (h : fitsS 8 n = true) : decIntZigZag (encIntZigZag n) = n := by
  rw [C12Vint.encIntZigZag_spec n h, C02Vint.decIntZigZag_spec _ (C12Vint.zigzag_lt n h), C12Vint.unzigzag_zigzag]

example : fitsS 8 (-9223372036854775808) = true := by decide

/-! ## STRING SOURCES (op `sstr`): refused, or written as the value the string denotes — never silently altered -/

/-- what the specification `StrSpec.strSpec` (Model/StringSpec.lean, compared with the real code on every generated string)
    demands of a Go string bound to an inet column: (1) an answer `ok bytes back` is given ONLY for a string that is an IP
    address literal WITHOUT zone; the bytes are that address (IPv4-mapped ↦ 4 bytes) and the string a `*string` gets back
    denotes the same address again; (2) a literal with a zone — a value the column cannot hold — must be refused, whatever
    the address and the zone (the class seed C02-8 alters: the zone was dropped silently); (3) a string that is no literal
    at all must be refused. -/
theorem C02_inet_string_no_silent_loss (s : Bytes) :
    (∀ b back, StrSpec.strSpec .inet s = .ok b back →
      ∃ a, StrSpec.parseIP s = some (a, []) ∧ b = StrSpec.unmap a ∧
        ∃ a', StrSpec.parseIP back = some (a', []) ∧ StrSpec.unmap a' = b) ∧
    (∀ a z, StrSpec.parseIP s = some (a, z) → z ≠ [] → StrSpec.strSpec .inet s = .merr) ∧
    (StrSpec.parseIP s = none → StrSpec.strSpec .inet s = .merr) := by
  refine ⟨?_, ?_, ?_⟩
  · intro b back h
    simp only [StrSpec.strSpec] at h
    cases hp : StrSpec.parseIP s with
    | none => rw [hp] at h; cases h
    | some az =>
      obtain ⟨a, z⟩ := az
      rw [hp] at h
      simp only at h
      by_cases hz : z = []
      · subst hz
        simp only [ne_eq, not_true_eq_false, if_false] at h
        cases hb : StrSpec.parseIP (Marshal.ipString (StrSpec.unmap a)) with
        | none => rw [hb] at h; cases h
        | some az' =>
          obtain ⟨a', z'⟩ := az'
          rw [hb] at h
          cases z' with
          | nil =>
            simp only at h
            split at h
            · rename_i hu
              injection h with h1 h2
              subst h1; subst h2
              exact ⟨a, rfl, rfl, a', hb, hu⟩
            · cases h
          | cons _ _ => cases h
      · simp [hz] at h
  · intro a z hp hz
    simp [StrSpec.strSpec, hp, hz]
  · intro hp
    simp [StrSpec.strSpec, hp]

/-- non-vacuity, kernel-checked = the failing input of seed C02-8 (`sstr inet 666538303a3a312565746830`): "fe80::1%eth0"
    is the address fe80::1 with zone "eth0" and must be refused; without the zone it is accepted -/
example : StrSpec.parseIP [102, 101, 56, 48, 58, 58, 49, 37, 101, 116, 104, 48] =
    some ([254, 128, 0, 0, 0, 0, 0, 0, 0, 0, 0, 0, 0, 0, 0, 1], [101, 116, 104, 48]) := by decide
example : StrSpec.strSpec .inet [102, 101, 56, 48, 58, 58, 49, 37, 101, 116, 104, 48] = .merr := by decide
example : StrSpec.parseIP [102, 101, 56, 48, 58, 58, 49] = some ([254, 128, 0, 0, 0, 0, 0, 0, 0, 0, 0, 0, 0, 0, 0, 1], []) := by decide

/-- date and integer columns: `ok` only for a string that is a date `YYYY-MM-DD` of the calendar (February 29 in leap
    years only, …) — and then a `*string` gets back the very same string — resp. a decimal literal whose number the
    column holds, written as the specification's bytes of that number; everything else must be refused -/
theorem C02_date_int_string_no_silent_loss (s : Bytes) :
    (∀ b back, StrSpec.strSpec .date s = .ok b back →
      (s = [] ∧ b = [] ∧ back = []) ∨
      (back = s ∧ ∃ d, StrSpec.parseDate s = some d ∧ b = beBytes 4 (d + 2147483648).toNat)) ∧
    (∀ t w b back, StrSpec.intBytes t = some w → StrSpec.strSpec t s = .ok b back →
      ∃ n, Marshal.parseDec s = some n ∧ fitsS w n = true ∧ b = tcEnc w n ∧ back = formatInt n) := by
  refine ⟨?_, ?_⟩
  · intro b back h
    simp only [StrSpec.strSpec] at h
    split at h
    · injection h with h1 h2
      rename_i hs
      exact Or.inl ⟨hs, h1.symm, h2.symm⟩
    · cases hd : StrSpec.parseDate s with
      | none => rw [hd] at h; cases h
      | some d =>
        rw [hd] at h
        injection h with h1 h2
        exact Or.inr ⟨h2.symm, d, rfl, h1.symm⟩
  · intro t w b back ht h
    have key : ∀ (o : StrSpec.Outcome),
        o = (match Marshal.parseDec s with
          | none => StrSpec.Outcome.merr
          | some n => if fitsS w n = true then .ok (tcEnc w n) (formatInt n) else .merr) →
        o = .ok b back → ∃ n, Marshal.parseDec s = some n ∧ fitsS w n = true ∧ b = tcEnc w n ∧ back = formatInt n := by
      intro o ho h
      subst ho
      cases hp : Marshal.parseDec s with
      | none => rw [hp] at h; cases h
      | some n =>
        rw [hp] at h
        simp only at h
        split at h
        · rename_i hf
          injection h with h1 h2
          exact ⟨n, rfl, hf, h1.symm, h2.symm⟩
        · cases h
    cases t <;> simp [StrSpec.intBytes] at ht <;> subst ht <;> exact key _ rfl h

example : StrSpec.strSpec .date [50, 48, 50, 51, 45, 48, 50, 45, 50, 57] = .merr := by decide   -- "2023-02-29"
example : StrSpec.parseDate [49, 57, 54, 57, 45, 49, 50, 45, 51, 49] = some (-1) := by decide    -- "1969-12-31"

/-- uuid / timeuuid from a string: `ok` only for 32 hex digits with hyphens between bytes (upper case, missing or extra
    hyphens are accepted — braces, `urn:uuid:`, whitespace, 31 / 33 digits are not); the bytes are those digits and the
    canonical string a `*string` gets back denotes the same UUID -/
theorem C02_uuid_string_no_silent_loss (t : CqlTy) (ht : isUuid t) (s : Bytes) :
    (∀ b back, StrSpec.strSpec t s = .ok b back →
      StrSpec.parseUUIDLit s = some b ∧ back = uuidString b ∧ StrSpec.parseUUIDLit back = some b) ∧
    (StrSpec.parseUUIDLit s = none → StrSpec.strSpec t s = .merr) := by
  have key : StrSpec.strSpec t s =
      (match StrSpec.parseUUIDLit s with
       | none => .merr
       | some b => (match StrSpec.parseUUIDLit (uuidString b) with
          | some b' => if b' = b then .ok b (uuidString b) else .inconsistent
          | none => .inconsistent)) := by
    rcases ht with rfl | rfl <;> rfl
  rw [key]
  refine ⟨?_, ?_⟩
  · intro b back h
    cases hp : StrSpec.parseUUIDLit s with
    | none => rw [hp] at h; cases h
    | some b0 =>
      rw [hp] at h
      simp only at h
      cases hb : StrSpec.parseUUIDLit (uuidString b0) with
      | none => rw [hb] at h; cases h
      | some b' =>
        rw [hb] at h
        simp only at h
        split at h
        · rename_i he
          injection h with h1 h2
          subst h1; subst h2; subst he
          exact ⟨rfl, rfl, hb⟩
        · cases h
  · intro hp
    rw [hp]

example : StrSpec.parseUUIDLit /- "{6ba7b810-9dad-11d1-80b4-00c04fd430c8}" -/ [123, 54, 98, 97, 55, 98, 56, 49, 48, 45, 57, 100, 97, 100, 45, 49, 49, 100, 49, 45, 56, 48, 98, 52, 45, 48, 48, 99, 48, 52, 102, 100, 52, 51, 48, 99, 56, 125] = none := by decide
example : StrSpec.parseUUIDLit /- "6BA7B8109DAD11D180B400C04FD430C8" -/ [54, 66, 65, 55, 66, 56, 49, 48, 57, 68, 65, 68, 49, 49, 68, 49, 56, 48, 66, 52, 48, 48, 67, 48, 52, 70, 68, 52, 51, 48, 67, 56] =
    some [0x6b, 0xa7, 0xb8, 0x10, 0x9d, 0xad, 0x11, 0xd1, 0x80, 0xb4, 0x00, 0xc0, 0x4f, 0xd4, 0x30, 0xc8] := by decide

/-- FULL STATEMENT (does not hold): "… into any documented target type able to represent the value".  2^63 written by a
    bare uint64 into a varint column (00 80 00 00 00 00 00 00 00) decodes into *uint64 and *big.Int, but `*uint`, which
    can hold it, gets an error (KF-C12-12) and so does `*string` (KF-C02-5).
    = replay inputs `rt 4 varint i uint64 9223372036854775808 k uint` / `… string` -/
theorem C02_cex_varint_upper_half :
    marshalVarintKind .uint64 false 9223372036854775808 = some [0, 128, 0, 0, 0, 0, 0, 0, 0] ∧
    unmarshalVarint [0, 128, 0, 0, 0, 0, 0, 0, 0] (.int .uint64 false) = .ok (.int .uint64 false 9223372036854775808) ∧
    unmarshalVarint [0, 128, 0, 0, 0, 0, 0, 0, 0] (.int .uint false) = .err ∧
    IntKind.uint.holds 9223372036854775808 = true ∧
    unmarshalVarint [0, 128, 0, 0, 0, 0, 0, 0, 0] (.str false) = .err := by
  refine ⟨by decide, by rfl, by rfl, by decide, by rfl⟩
end C02
