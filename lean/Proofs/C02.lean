import Proofs.C12
/-!
# C02 — Marshal then Unmarshal gives back the value (property theorems)

Same model as C12 (`Model/Marshal*.lean`).  The harness op `rtsame` (spec-backed) states the property on the
real code: whenever gocql.Marshal succeeds on a documented (column, Go type, value) triple, gocql.Unmarshal of the
bytes into the same Go type gives an equal value.
-/
namespace C02
open ValueSpec Marshal C12Bytes C12Int C12Varint C12Scalar C12

/-! ## integer columns, same Go kind — INCLUDING the unsigned wrap window -/

theorem decTiny_tcEnc' (v : Int) : decTiny (tcEnc 1 v) = toS 8 v := by
  simp [decTiny, tcEnc, beBytes, byteOfNat, toS]; omega
theorem decShort_tcEnc' (v : Int) : decShort (tcEnc 2 v) = toS 16 v := by
  simp [decShort, tcEnc, beBytes, byteOfNat, toS]; omega
theorem decInt_tcEnc' (v : Int) : decInt (tcEnc 4 v) = toS 32 v := by
  simp [decInt, tcEnc, beBytes, byteOfNat, toS]; omega
theorem decBigInt_tcEnc' (v : Int) : decBigInt (tcEnc 8 v) = toS 64 v := by
  simp [decBigInt, tcEnc, beBytes, byteOfNat, toS]; omega

theorem decodeFixed_tcEnc' (col : IntCol) (v : Int) :
    decodeFixed (srcOf col) (tcEnc col.bytes v) = toS (8 * col.bytes) v := by
  cases col <;> simp only [srcOf, decodeFixed, IntCol.bytes]
  · exact decTiny_tcEnc' v
  · exact decShort_tcEnc' v
  · exact decInt_tcEnc' v
  · exact decBigInt_tcEnc' v

/-- an integer of ANY Go kind (named or not) that Marshal accepts for a tinyint/smallint/int/bigint column comes
    back unchanged when the bytes are decoded into the same Go kind — also for the unsigned values that are written
    as a negative bit pattern (uint16 65535 ↔ smallint ff ff) -/
theorem C02_int_roundtrip (col : IntCol) (k : IntKind) (named : Bool) (v : Int) (hv : k.holds v = true) (b : Bytes)
    (h : marshalIntKind col k named v = some b) :
    unmarshalIntKind (srcOf col) (decodeFixed (srcOf col) b) k = some v := by
  rw [marshalIntKind_char col k named v hv] at h
  split at h
  · rename_i hacc
    injection h with h
    rw [← h, decodeFixed_tcEnc']
    cases col <;> cases named <;> cases k <;> (
      simp [unmarshalIntKind, srcOf, IntKind.holds, IntKind.signed, IntKind.bits, wrapsAccepted, fitsS, IntCol.bytes,
        toS, toU, leB_iff, ltB_iff, leB_false, ltB_false] at hv hacc ⊢
      first
        | omega
        | (split <;> (first | omega | rfl | (congr 1; omega) | (exfalso; omega)))
        | (congr 1; omega))
  · simp at h

/-- FULL STATEMENT (does not hold): "… or into any other documented target type able to represent the value".
    uint16 65535 bound to smallint decodes into *int16 as −1 and into *int64 as −1, although both can hold 65535
    (D9).  Counterexample = replay input of `rt 4 smallint i uint16 65535 k int64`. -/
theorem C02_cex_cross_target :
    marshalIntKind .small .uint16 false 65535 = some [255, 255] ∧
    unmarshalIntKind .small (decodeFixed .small [255, 255]) .int64 = some (-1) ∧
    IntKind.int64.holds 65535 = true := by
  refine ⟨by decide, by decide, by decide⟩

/-- cross-target for the values that are NOT in the wrap window: decoding into any Go kind gives the value when the
    kind can hold it and an error otherwise -/
theorem C02_int_cross_target_partial (col : IntCol) (k k' : IntKind) (named : Bool) (v : Int) (hv : k.holds v = true)
    (hfit : fitsS col.bytes v = true) (hs : k'.signed = true ∨ 0 ≤ v) (b : Bytes)
    (h : marshalIntKind col k named v = some b) :
    unmarshalIntKind (srcOf col) (decodeFixed (srcOf col) b) k' = if k'.holds v = true then some v else none := by
  rw [marshalIntKind_char col k named v hv] at h
  simp [hfit] at h
  rw [← h]
  exact C12_int_accepts_conformant_partial col v k' hfit hs

/-! ## null / zero: a nil pointer is null, null decodes to a nil pointer through `**T` and to the zero value otherwise -/

theorem C02_null (p : Nat) (t : CqlTy) :
    marshal p t .nilptr = .ok none ∧
    (∀ ty, unmarshal p t (.ptr ty) none = .ok .nilptr) := by
  refine ⟨by simp [marshal], ?_⟩
  intro ty
  simp [unmarshal, withPtr, stripPtr]

/-- varchar/text/ascii/blob: strings and named strings come back unchanged; a non-empty []byte comes back unchanged -/
theorem C02_text_roundtrip (named : Bool) (s : Bytes) :
    marshalVarcharColumn (.str named s) = .ok (some s) ∧
    unmarshalScalar .text false s (.str named) = .ok (.str named s) := by
  refine ⟨by simp [marshalVarcharColumn], rfl⟩

theorem C02_bytes_roundtrip (b : Bytes) (hb : b ≠ []) :
    marshalVarcharColumn (.bytes false false b) = .ok (some b) ∧
    unmarshalScalar .blob false b (.bytes false) = .ok (.bytes false false b) := by
  refine ⟨by simp [marshalVarcharColumn], ?_⟩
  show URes.ok (if b = [] then GoVal.bytes false true [] else GoVal.bytes false false b) = _
  rw [if_neg hb]

/-- FULL STATEMENT (does not hold): "empty stays empty".  An empty non-nil []byte is written as the empty value but
    decodes into *[]byte as a nil slice, which Marshal would write as null. -/
theorem C02_cex_empty_bytes :
    marshalVarcharColumn (.bytes false false []) = .ok (some []) ∧
    unmarshalScalar .blob false [] (.bytes false) = .ok (.bytes false true []) ∧
    marshalVarcharColumn (.bytes false true []) = .ok none := by
  refine ⟨by simp [marshalVarcharColumn], rfl, by simp [marshalVarcharColumn]⟩

end C02
