import Proofs.C12Coll
import Model.MarshalRepresent
/-!
# C12 / C02: the two collection framings and the tuple / UDT field framing, both directions

* protocol ≤ 2 (2-byte unsigned lengths): the encoder conforms for every length / count up to 65535 and refuses
  anything longer; the decoder reads the length back UNSIGNED;
* the model's readers (readCollectionSize, readBytes) accept whatever the specification's readers accept, with the
  same result — null (−1) and EMPTY (0) are distinct;
* `specDec ∘ specEnc = id` on tuple / UDT fields (nulls, empty values, absent trailing fields);
* tuple<text…> ↔ struct of `*string` / `string`: Marshal then Unmarshal of the model gives the value back.
-/
set_option linter.unusedSimpArgs false
namespace C12Frame
open ValueSpec Marshal C12Bytes C12Coll


theorem encShort_toS16 (n : Nat) (h : n < 65536) : encShort (toS 16 (n:Int)) = beBytes 2 n := by
  rw [encShort_eq, tcEnc_toS16]
  simp only [tcEnc, beBytes, byteOfNat, List.nil_append, List.cons_append]
  have e : ((n:Int) % (256:Int)^2).toNat = n := by omega
  rw [e]

theorem encInt_nat (n : Nat) (h : n < 2^31) : encInt (toS 32 (n:Int)) = beBytes 4 n := by
  rw [encInt_eq, tcEnc_toS32]
  simp only [tcEnc]
  have e : ((n:Int) % (256:Int)^4).toNat = n := by omega
  rw [e]

/-- element-wise: a NON-NULL element marshalled as the specification says (the 2-byte framing has no null) -/
inductive AllOK2 (p : Nat) (et : CqlTy) : List GoVal → List CqlVal → Prop
  | nil : AllOK2 p et [] []
  | cons {v c vs cs} : (∃ b, marshal p et v = .ok (some b) ∧ c.isNull = false ∧ specEnc p et c = some b) →
      AllOK2 p et vs cs → AllOK2 p et (v :: vs) (c :: cs)

theorem AllOK2_length {p : Nat} {et : CqlTy} {vs : List GoVal} {cs : List CqlVal} (h : AllOK2 p et vs cs) :
    vs.length = cs.length := by
  induction h with
  | nil => rfl
  | cons _ _ ih => simp [ih]

theorem collSize_v2 (p : Nat) (hp : p ≤ 2) (n : Nat) :
    collSize p n = if n ≤ 65535 then some (beBytes 2 n) else none := by
  have h1 : ¬ p > 2 := by omega
  simp only [collSize, h1, if_false]
  by_cases h : n ≤ 65535
  · have : ¬ ((n:Int) > 65535) := by omega
    rw [if_neg this, if_pos h, encShort_toS16 n (by omega)]
  · have : ((n:Int) > 65535) := by omega
    rw [if_pos this, if_neg h]

theorem marshalElems_spec_v2 (p : Nat) (hp : p ≤ 2) (et : CqlTy) :
    ∀ (vs : List GoVal) (cs : List CqlVal) (body : Bytes),
      AllOK2 p et vs cs →
      marshalElems p et vs = .ok (some body) → specEncElems p et cs = some body
  | [], cs, body, hf, h => by
    cases hf
    simp [marshalElems] at h
    simp [specEncElems, h]
  | v :: vs, cs, body, hf, h => by
    cases hf with
    | cons hv hrest =>
      rename_i c cs'
      obtain ⟨b, hm, hnn, hs⟩ := hv
      have hp3 : ¬ p ≥ 3 := by omega
      rw [marshalElems, hm] at h
      simp only [collItem, collSize_v2 p hp] at h
      by_cases hlen : b.length ≤ 65535
      · rw [if_pos hlen] at h
        cases hr : marshalElems p et vs with
        | ok ob =>
          cases ob with
          | none => rw [hr] at h; simp at h
          | some rest =>
            rw [hr] at h
            simp at h
            have ih := marshalElems_spec_v2 p hp et vs cs' rest hrest hr
            have hl : b.length < 2 ^ 16 := by omega
            simp [specEncElems, elemOrNull, hnn, hs, elemFrame, hp3, ih, hl]
            rw [← h]
        | err => rw [hr] at h; simp at h
        | crash => rw [hr] at h; simp at h
        | unmodelled => rw [hr] at h; simp at h
      · rw [if_neg hlen] at h; simp at h

theorem marshalList_spec_v2 (p : Nat) (hp : p ≤ 2) (et : CqlTy) (vs : List GoVal) (cs : List CqlVal) (b : Bytes)
    (hall : AllOK2 p et vs cs)
    (h : wrapSeq p vs.length (marshalElems p et vs) = .ok (some b)) :
    specEnc p (.list et) (.list cs) = some b ∧ vs.length ≤ 65535 := by
  have hlen : vs.length = cs.length := AllOK2_length hall
  have hp3 : ¬ p ≥ 3 := by omega
  unfold wrapSeq at h
  rw [collSize_v2 p hp] at h
  by_cases hn : vs.length ≤ 65535
  · rw [if_pos hn] at h
    cases hr : marshalElems p et vs with
    | ok ob =>
      cases ob with
      | none => rw [hr] at h; simp at h
      | some body =>
        rw [hr] at h
        simp at h
        have hs := marshalElems_spec_v2 p hp et vs cs body hall hr
        have hl : cs.length < 2 ^ 16 := by omega
        refine ⟨?_, hn⟩
        simp [specEnc, countFrame, hp3, hl, hs]
        rw [← h, hlen]
    | err => rw [hr] at h; simp at h
    | crash => rw [hr] at h; simp at h
    | unmodelled => rw [hr] at h; simp at h
  · rw [if_neg hn] at h; simp at h

/-- "must be an error": an element (or a count) beyond 65535 cannot be framed under protocol ≤ 2 — neither by
    marshal.go nor by the specification -/
theorem too_large_v2 (p : Nat) (hp : p ≤ 2) (b : Bytes) (h : b.length > 65535) :
    collItem p (some b) = none ∧ elemFrame p (some b) = none := by
  have hp3 : ¬ p ≥ 3 := by omega
  constructor
  · simp only [collItem, collSize_v2 p hp]
    rw [if_neg (by omega)]; rfl
  · simp only [elemFrame, hp3, if_false]
    rw [if_neg (by omega)]

theorem decInt_encInt (x : Int) : decInt (encInt x) = toS 32 x := by
  rw [encInt_eq]
  simp [decInt, tcEnc, beBytes, byteOfNat, toS]; omega

theorem toS32_nat (n : Nat) (h : n < 2^31) : toS 32 (n:Int) = n := by
  simp only [toS]; omega

/-- a 4-byte big-endian two's complement number: marshal.go's `int32(b0)<<24 | …` is the specification's reading -/
theorem decInt_eq_tcDec (b : Bytes) (h : b.length = 4) : decInt b = tcDec b := by
  match b, h with
  | [a, b, c, d], _ =>
    have ha := a.toNat_lt; have hb := b.toNat_lt; have hc := c.toNat_lt; have hd := d.toNat_lt
    have hN : beNat [a, b, c, d] = a.toNat * 16777216 + b.toNat * 65536 + c.toNat * 256 + d.toNat := by
      simp [beNat]; omega
    have hL : ([a, b, c, d] : Bytes).length = 4 := rfl
    have e : (256:Nat) ^ 4 = 4294967296 := by decide
    have e' : (256:Int) ^ 4 = 4294967296 := by decide
    simp only [decInt, tcDec, toS, hN, hL, e, e']
    split <;> omega

theorem take_length_of_not_shorter {α : Type} (l : List α) (n : Nat) (h : shorter l n = false) : (l.take n).length = n := by
  have : ¬ l.length < n := by
    intro hl; rw [(shorter_iff l n).mpr hl] at h; cases h
  simp; omega




theorem shorter_append_false {α : Type} (c rest : List α) (n : Nat) (h : c.length = n) : shorter (c ++ rest) n = false := by
  cases hs : shorter (c ++ rest) n
  · rfl
  · have := (shorter_iff (c ++ rest) n).mp hs; simp at this; omega

/-- what writeCollectionSize wrote, readCollectionSize reads back — in particular the 2-byte length of protocol ≤ 2
    is read back UNSIGNED (every n ≤ 65535, not only n ≤ 32767) -/
theorem readCollSize_collSize (p : Nat) (n : Nat) (c rest : Bytes) (h : collSize p (n:Int) = some c) :
    readCollSize p (c ++ rest) = some ((n:Int), rest) := by
  by_cases hp : p > 2
  · simp only [collSize, hp, if_true] at h
    by_cases hb : ((n:Int) > 2147483647)
    · rw [if_pos hb] at h; cases h
    · rw [if_neg hb] at h
      injection h with h
      subst h
      have hl : (encInt (toS 32 (n:Int))).length = 4 := rfl
      simp only [readCollSize, hp, if_true, shorter_append_false _ rest 4 hl]
      have ht : (encInt (toS 32 (n:Int)) ++ rest).take 4 = encInt (toS 32 (n:Int)) := by simp [encInt]
      have hd : (encInt (toS 32 (n:Int)) ++ rest).drop 4 = rest := by simp [encInt]
      rw [ht, hd, decInt_encInt]
      have e1 : toS 32 (toS 32 (n:Int)) = (n:Int) := by simp only [toS]; omega
      simp [e1]
  · rw [collSize_v2 p (by omega)] at h
    by_cases hn : n ≤ 65535
    · rw [if_pos hn] at h
      injection h with h
      subst h
      have hl : (beBytes 2 n).length = 2 := beBytes_length 2 n
      simp only [readCollSize, hp, if_false, shorter_append_false _ rest 2 hl]
      have ht : (beBytes 2 n ++ rest).take 2 = beBytes 2 n := by simp [beBytes]
      have hd : (beBytes 2 n ++ rest).drop 2 = rest := by simp [beBytes]
      rw [ht, hd, beNat_beBytes]
      have : n % 256 ^ 2 = n := Nat.mod_eq_of_lt (by omega)
      rw [this]; simp
    · rw [if_neg hn] at h; cases h

theorem shorter_append_self {α : Type} (b rest : List α) : shorter (b ++ rest) b.length = false :=
  by
    cases hs : shorter (b ++ rest) b.length
    · rfl
    · have := (shorter_iff (b ++ rest) b.length).mp hs; simp at this; omega

/-- an element written by marshalList / marshalMap is read back by unmarshalList / unmarshalMap: the bytes themselves
    (EMPTY stays empty), under protocol ≤ 2 for every length up to 65535 -/
theorem readCollItem_collItem (p : Nat) (b e rest : Bytes) (h : collItem p (some b) = some e) :
    readCollItem p (e ++ rest) = some (some b, rest) := by
  simp only [collItem] at h
  cases hc : collSize p (b.length : Int) with
  | none => rw [hc] at h; cases h
  | some c =>
    rw [hc] at h
    simp at h
    subst h
    have := readCollSize_collSize p b.length c (b ++ rest) hc
    simp only [readCollItem, List.append_assoc, this]
    have hge : ((b.length : Int) ≥ 0) := by omega
    simp [hge, shorter_append_self]

/-- a null element (protocol ≥ 3: length −1) is read back as null -/
theorem readCollItem_null (p : Nat) (hp : p ≥ 3) (e rest : Bytes) (h : collItem p none = some e) :
    readCollItem p (e ++ rest) = some (none, rest) := by
  have hp2 : p > 2 := by omega
  simp only [collItem, collSize, hp2, if_true] at h
  have hneg : ¬ ((-1:Int) > 2147483647) := by omega
  rw [if_neg hneg] at h
  injection h with h
  subst h
  have e1 : encInt (toS 32 (-1)) = [255, 255, 255, 255] := by decide
  simp only [readCollItem, readCollSize, hp2, if_true, e1]
  have : decInt [255, 255, 255, 255] = -1 := by decide
  simp [shorter, this]


/-! ## the model's readers accept what the specification's readers accept, with the same result -/

/-- collection count -/
theorem readCollSize_of_readCount (p : Nat) (b r : Bytes) (n : Nat) (h : readCount p b = some (n, r)) :
    readCollSize p b = some ((n:Int), r) := by
  unfold readCount at h
  unfold readCollSize
  by_cases hp : p ≥ 3
  · have hp2 : p > 2 := by omega
    simp only [hp, hp2, if_true] at h ⊢
    cases hs : shorter b 4
    · rw [hs] at h
      simp only [Bool.false_eq_true, if_false] at h ⊢
      rw [decInt_eq_tcDec _ (take_length_of_not_shorter b 4 hs)]
      by_cases hneg : tcDec (b.take 4) < 0
      · rw [if_pos hneg] at h; cases h
      · rw [if_neg hneg] at h
        injection h with h
        injection h with h1 h2
        subst h2
        have : ((tcDec (List.take 4 b)).toNat : Int) = tcDec (List.take 4 b) := by omega
        rw [← h1, this]
    · rw [hs] at h; simp at h
  · have hp2 : ¬ p > 2 := by omega
    simp only [hp, hp2, if_false] at h ⊢
    cases hs : shorter b 2
    · rw [hs] at h
      simp only [Bool.false_eq_true, if_false] at h ⊢
      injection h with h
      injection h with h1 h2
      subst h1; subst h2; rfl
    · rw [hs] at h; simp at h

/-- collection element: null is −1 only in the specification; marshal.go takes every negative length for null -/
theorem readCollItem_of_readElem (p : Nat) (b r : Bytes) (e : Option Bytes) (h : readElem p b = some (e, r)) :
    readCollItem p b = some (e, r) := by
  unfold readElem at h
  unfold readCollItem readCollSize
  by_cases hp : p ≥ 3
  · have hp2 : p > 2 := by omega
    simp only [hp, hp2, if_true] at h ⊢
    cases hs : shorter b 4
    · rw [hs] at h
      simp only [Bool.false_eq_true, if_false] at h ⊢
      rw [decInt_eq_tcDec _ (take_length_of_not_shorter b 4 hs)]
      by_cases hneg : tcDec (b.take 4) < 0
      · rw [if_pos hneg] at h
        have hge : ¬ tcDec (b.take 4) ≥ 0 := by omega
        simp only [hge, if_false]
        by_cases h1 : tcDec (b.take 4) = -1
        · rw [if_pos h1] at h; exact h
        · rw [if_neg h1] at h; cases h
      · rw [if_neg hneg] at h
        have hge : tcDec (b.take 4) ≥ 0 := by omega
        simp only [hge, if_true]
        exact h
    · rw [hs] at h; simp at h
  · have hp2 : ¬ p > 2 := by omega
    simp only [hp, hp2, if_false] at h ⊢
    cases hs : shorter b 2
    · rw [hs] at h
      simp only [Bool.false_eq_true, if_false] at h ⊢
      have hge : ((beNat (b.take 2) : Nat) : Int) ≥ 0 := by omega
      simp only [hge, if_true, Int.toNat_natCast]
      exact h
    · rw [hs] at h; simp at h

/-- under protocol ≤ 2 the two readers are the same function: the [short] is unsigned in both -/
theorem readCollItem_eq_readElem_v2 (p : Nat) (hp : p ≤ 2) (b : Bytes) : readCollItem p b = readElem p b := by
  unfold readElem readCollItem readCollSize
  have hp2 : ¬ p > 2 := by omega
  have hp3 : ¬ p ≥ 3 := by omega
  simp only [hp2, hp3, if_false]
  cases hs : shorter b 2
  · have hge : ((beNat (b.take 2) : Nat) : Int) ≥ 0 := by omega
    simp only [Bool.false_eq_true, if_false, hge, if_true, Int.toNat_natCast]
  · simp

/-- tuple / UDT field -/
theorem readBytesM_of_readBytesFrame (b r : Bytes) (e : Option Bytes) (h : readBytesFrame b = some (e, r)) :
    readBytesM b = some (e, r) := by
  unfold readBytesFrame readElem at h
  unfold readBytesM
  simp only [show (3:Nat) ≥ 3 from Nat.le_refl 3, if_true] at h
  cases hs : shorter b 4
  · rw [hs] at h
    simp only [Bool.false_eq_true, if_false] at h ⊢
    rw [decInt_eq_tcDec _ (take_length_of_not_shorter b 4 hs)]
    by_cases hneg : tcDec (b.take 4) < 0
    · rw [if_pos hneg] at h ⊢
      by_cases h1 : tcDec (b.take 4) = -1
      · rw [if_pos h1] at h; exact h
      · rw [if_neg h1] at h; cases h
    · rw [if_neg hneg] at h ⊢
      exact h
  · rw [hs] at h; simp at h

/-! ## tuple / UDT fields: appendBytes then readBytes — null stays null, EMPTY stays empty -/

theorem readBytesM_appendBytes (item : Option Bytes) (rest : Bytes) (h : ∀ b, item = some b → b.length < 2^31) :
    readBytesM (appendBytes item ++ rest) = some (item, rest) := by
  cases item with
  | none =>
    have e1 : appendBytes none = [255, 255, 255, 255] := by decide
    have e2 : decInt [255, 255, 255, 255] = -1 := by decide
    simp [readBytesM, e1, e2]
  | some b =>
    have hb := h b rfl
    have ht : (encInt (toS 32 (b.length:Int)) ++ (b ++ rest)).take 4 = encInt (toS 32 (b.length:Int)) := by simp [encInt]
    have hd : (encInt (toS 32 (b.length:Int)) ++ (b ++ rest)).drop 4 = b ++ rest := by simp [encInt]
    have e1 : toS 32 (toS 32 (b.length:Int)) = (b.length:Int) := by simp only [toS]; omega
    simp only [readBytesM, appendBytes, List.append_assoc, ht, hd, decInt_encInt, e1]
    have hge : ¬ ((b.length:Int) < 0) := by omega
    simp [hge, shorter_append_self]

/-- in particular: a present-but-EMPTY field is not a null field -/
theorem readBytesM_empty_vs_null (rest : Bytes) :
    readBytesM (appendBytes (some []) ++ rest) = some (some [], rest) ∧
    readBytesM (appendBytes none ++ rest) = some (none, rest) :=
  ⟨readBytesM_appendBytes (some []) rest (by intro b hb; injection hb with hb; subst hb; simp),
   readBytesM_appendBytes none rest (by intro b hb; cases hb)⟩


theorem isNull_eq {v : CqlVal} (h : v.isNull = true) : v = .null := by
  cases v <;> simp [CqlVal.isNull] at h ⊢

theorem fitsS4_len (n : Nat) (h : n < 2^31) : fitsS 4 (n:Int) = true := by
  simp [fitsS, leB_iff, ltB_iff]; omega

/-- the specification's `[bytes]` reader inverts the specification's `[bytes]` writer: −1 ↦ null, 0 ↦ EMPTY -/
theorem readBytesFrame_bytesFrame (item : Option Bytes) (rest : Bytes) (h : ∀ b, item = some b → b.length < 2^31) :
    readBytesFrame (bytesFrame item ++ rest) = some (item, rest) := by
  cases item with
  | none =>
    have e2 : tcDec [255, 255, 255, 255] = -1 := by decide
    simp [readBytesFrame, readElem, bytesFrame, shorter, e2]
  | some b =>
    have hb := h b rfl
    have hl : (tcEnc 4 (b.length:Int)).length = 4 := tcEnc_length 4 _
    have ht : (tcEnc 4 (b.length:Int) ++ (b ++ rest)).take 4 = tcEnc 4 (b.length:Int) := by
      rw [List.take_append_of_le_length (by omega)]; simp [List.take_of_length_le, hl]
    have hd : (tcEnc 4 (b.length:Int) ++ (b ++ rest)).drop 4 = b ++ rest := by
      rw [List.drop_append_of_le_length (by omega)]; simp [List.drop_of_length_le, hl]
    have hs : shorter (tcEnc 4 (b.length:Int) ++ (b ++ rest)) 4 = false := by
      cases hs : shorter (tcEnc 4 (b.length:Int) ++ (b ++ rest)) 4
      · rfl
      · have := (shorter_iff _ 4).mp hs; simp [hl] at this; omega
    have hdec : tcDec (tcEnc 4 (b.length:Int)) = (b.length:Int) := tcDec_tcEnc 4 _ (by omega) (fitsS4_len _ hb)
    simp only [readBytesFrame, readElem, bytesFrame, List.append_assoc, show (3:Nat) ≥ 3 from Nat.le_refl 3, if_true,
      hs, Bool.false_eq_true, if_false, ht, hd, hdec]
    have hge : ¬ ((b.length:Int) < 0) := by omega
    simp [hge, shorter_append_self]

/-- field-wise hypothesis of the round trip: a null field, or a value whose encoding decodes back -/
inductive FieldsRT (p : Nat) : List CqlTy → List CqlVal → Prop
  | nil {ts} : FieldsRT p ts []
  | cons {t ts v vs} :
      (v = .null ∨ (v.isNull = false ∧ ∀ b, specEnc p t v = some b → specDec p t b = some v)) →
      FieldsRT p ts vs → FieldsRT p (t :: ts) (v :: vs)

theorem bytesFrame_ne_nil (item : Option Bytes) (r : Bytes) : bytesFrame item ++ r ≠ [] := by
  cases item with
  | none => simp [bytesFrame]
  | some b =>
    intro h
    have := congrArg List.length h
    simp [bytesFrame, tcEnc_length] at this

/-- specDec ∘ specEnc = id on tuple / UDT fields: nulls, EMPTY values and absent trailing fields included -/
theorem specDecFields_specEncFields (p : Nat) :
    ∀ (ts : List CqlTy) (vs : List CqlVal) (b : Bytes),
      FieldsRT p ts vs → specEncFields p ts vs = some b → specDecFields p ts b = some vs
  | ts, [], b, _, h => by
    have hb : b = [] := by
      cases ts <;> simp [specEncFields] at h <;> exact h
    subst hb
    cases ts <;> simp [specDecFields]
  | [], v :: vs, b, hf, h => by cases hf
  | t :: ts, v :: vs, b, hf, h => by
    cases hf with
    | cons hv hrest =>
      simp only [specEncFields, Option.bind_eq_bind] at h
      cases he : fieldOrNull v.isNull (specEnc p t v) with
      | none => rw [he] at h; simp at h
      | some e =>
        rw [he] at h
        cases hr : specEncFields p ts vs with
        | none => rw [hr] at h; simp at h
        | some r =>
          rw [hr] at h
          simp at h
          subst h
          have ih := specDecFields_specEncFields p ts vs r hrest hr
          rcases hv with hnull | ⟨hnn, hrt⟩
          · subst hnull
            simp [fieldOrNull, CqlVal.isNull] at he
            subst he
            have hne := bytesFrame_ne_nil none r
            have hrd := readBytesFrame_bytesFrame none r (by intro b hb; cases hb)
            simp only [specDecFields, hne, if_false, Option.bind_eq_bind, hrd, Option.bind_some, ih]
          · simp only [fieldOrNull, hnn, Bool.false_eq_true, if_false] at he
            cases hx : specEnc p t v with
            | none => rw [hx] at he; simp at he
            | some x =>
              rw [hx] at he
              simp at he
              obtain ⟨hl, he⟩ := he
              subst he
              have hne := bytesFrame_ne_nil (some x) r
              have hrd := readBytesFrame_bytesFrame (some x) r (by intro b hb; injection hb with hb; subst hb; exact hl)
              simp only [specDecFields, hne, if_false, Option.bind_eq_bind, hrd, Option.bind_some, hrt x hx, ih]


theorem appendBytes_length_ge (item : Option Bytes) (rest : Bytes) : shorter (appendBytes item ++ rest) 4 = false := by
  cases hs : shorter (appendBytes item ++ rest) 4
  · rfl
  · have := (shorter_iff _ 4).mp hs
    cases item <;> simp [appendBytes, encInt] at this <;> omega

theorem unmarshalBase_text (p : Nat) (ty : GoTy) (data : Option Bytes) :
    unmarshalBase p .text ty data = unmarshalScalar .text data.isNone (dataBytes data) ty := by
  simp [unmarshalBase]

theorem beq_str_false : (GoTy.str false == GoTy.str false) = true := by rfl

theorem unmarshalScalar_text_str (isNil : Bool) (d : Bytes) :
    unmarshalScalar .text isNil d (.str false) = .ok (.str false d) := rfl

/-- tuple<text, …> bound to / decoded into a struct whose fields are `*string` (nil ↔ null, pointer to "" ↔ EMPTY,
    pointer to s ↔ s) or `string` -/
inductive TextFields : List CqlTy → List GoTy → List GoVal → Prop
  | nil : TextFields [] [] []
  | null {ts gs vs} : TextFields ts gs vs → TextFields (.text :: ts) (.ptr (.str false) :: gs) (.nilptr :: vs)
  | ptr {ts gs vs} (s : Bytes) (hs : s.length < 2^31) : TextFields ts gs vs →
      TextFields (.text :: ts) (.ptr (.str false) :: gs) (.ptr (.str false s) :: vs)
  | str {ts gs vs} (s : Bytes) (hs : s.length < 2^31) : TextFields ts gs vs →
      TextFields (.text :: ts) (.str false :: gs) (.str false s :: vs)

theorem tuple_text_roundtrip (p : Nat) :
    ∀ (ts : List CqlTy) (gs : List GoTy) (vs : List GoVal), TextFields ts gs vs →
      ∃ body, marshalTupleFields p ts vs = .ok (some body) ∧ unmarshalTupleSet p ts gs body = .ok vs []
  | _, _, _, .nil => ⟨[], by simp [marshalTupleFields], by simp [unmarshalTupleSet]⟩
  | _, _, _, .null (ts := ts) (gs := gs) (vs := vs) h => by
    obtain ⟨body, hm, hu⟩ := tuple_text_roundtrip p ts gs vs h
    refine ⟨appendBytes none ++ body, ?_, ?_⟩
    · simp [marshalTupleFields, GoVal.isNilPtr, hm]
    · rw [unmarshalTupleSet]
      simp only [appendBytes_length_ge, Bool.not_false, if_true,
        readBytesM_appendBytes none body (by intro b hb; cases hb)]
      simp [withPtr, stripPtr, goTypeOf, unmarshalBase_text, unmarshalScalar_text_str, dataBytes, hu, beq_str_false]
  | _, _, _, .ptr (ts := ts) (gs := gs) (vs := vs) s hs h => by
    obtain ⟨body, hm, hu⟩ := tuple_text_roundtrip p ts gs vs h
    refine ⟨appendBytes (some s) ++ body, ?_, ?_⟩
    · simp [marshalTupleFields, GoVal.isNilPtr, marshal, marshalScalar, marshalVarcharColumn, hm]
    · rw [unmarshalTupleSet]
      simp only [appendBytes_length_ge, Bool.not_false, if_true,
        readBytesM_appendBytes (some s) body (by intro b hb; injection hb with hb; subst hb; exact hs)]
      simp [withPtr, stripPtr, goTypeOf, unmarshalBase_text, unmarshalScalar_text_str, dataBytes, hu, beq_str_false]
  | _, _, _, .str (ts := ts) (gs := gs) (vs := vs) s hs h => by
    obtain ⟨body, hm, hu⟩ := tuple_text_roundtrip p ts gs vs h
    refine ⟨appendBytes (some s) ++ body, ?_, ?_⟩
    · simp [marshalTupleFields, GoVal.isNilPtr, marshal, marshalScalar, marshalVarcharColumn, hm]
    · rw [unmarshalTupleSet]
      simp only [appendBytes_length_ge, Bool.not_false, if_true,
        readBytesM_appendBytes (some s) body (by intro b hb; injection hb with hb; subst hb; exact hs)]
      simp [withPtr, stripPtr, goTypeOf, unmarshalBase_text, unmarshalScalar_text_str, dataBytes, hu, beq_str_false]

/-! ## the decode direction as a structural step: model decoder = specification decoder, element theorems as hypotheses -/

/-- "the element decoder `f` of the model yields the Go value `rep c` for whatever the element decoder `g` of the
    specification yields (`c`), and `rep null` for a null element" -/
def ElemDecOK (f : Option Bytes → URes) (g : Bytes → Option CqlVal) (rep : CqlVal → GoVal) : Prop :=
  f none = .ok (rep .null) ∧ ∀ x c, g x = some c → f (some x) = .ok (rep c)

/-- unmarshalList's loop = the specification's element loop, for both framings: every element the specification
    reader delivers (null, EMPTY, or bytes) reaches the element decoder unchanged -/
theorem unmarshalElems_spec (p : Nat) (f : Option Bytes → URes) (g : Bytes → Option CqlVal) (rep : CqlVal → GoVal)
    (hfg : ElemDecOK f g rep) :
    ∀ (n : Nat) (b r : Bytes) (cs : List CqlVal),
      decElems p g n b = some (cs, r) → unmarshalElems p f n b = .ok (cs.map rep) r
  | 0, b, r, cs, h => by
    simp [decElems] at h
    obtain ⟨h1, h2⟩ := h
    subst h1; subst h2
    simp [unmarshalElems]
  | n+1, b, r, cs, h => by
    simp only [decElems, Option.bind_eq_bind] at h
    cases he : readElem p b with
    | none => rw [he] at h; simp at h
    | some er =>
      obtain ⟨e, r1⟩ := er
      rw [he] at h
      simp only [Option.bind_some] at h
      have hm := readCollItem_of_readElem p b r1 e he
      -- the value `v` the specification decoder assigns to the element, with `f e = ok (rep v)`
      have key : ∃ v, f e = .ok (rep v) ∧
          ((decElems p g n r1).bind fun x => some (v :: x.fst, x.snd)) = some (cs, r) := by
        cases e with
        | none => exact ⟨.null, hfg.1, by simpa using h⟩
        | some x =>
          cases hx : g x with
          | none => simp [hx] at h
          | some v => exact ⟨v, hfg.2 x v hx, by simpa [hx] using h⟩
      obtain ⟨v, hf, h⟩ := key
      cases hrest : decElems p g n r1 with
      | none => rw [hrest] at h; simp at h
      | some vr =>
        obtain ⟨vs, r'⟩ := vr
        rw [hrest] at h
        simp at h
        obtain ⟨h1, h2⟩ := h
        subst h1; subst h2
        have ih := unmarshalElems_spec p f g rep hfg n r1 r' vs hrest
        simp [unmarshalElems, hm, hf, ih]

/-- field-wise hypothesis for the scan targets of a tuple: what the model's field decoder makes of each field the
    specification decoder delivers — `cs` may be shorter than the type (trailing fields absent: decoded as null) -/
inductive ScanOK (p : Nat) : List CqlTy → List GoTy → List CqlVal → List GoVal → Prop
  | nil {gs} : ScanOK p [] gs [] []
  | absent {t ts g gs x xs} : withPtr (unmarshalBase p t) g none = .ok x → ScanOK p ts gs [] xs →
      ScanOK p (t :: ts) (g :: gs) [] (x :: xs)
  | cons {t ts g gs c cs x xs} :
      (c = .null → withPtr (unmarshalBase p t) g none = .ok x) →
      (∀ b, specDec p t b = some c → withPtr (unmarshalBase p t) g (some b) = .ok x) →
      ScanOK p ts gs cs xs → ScanOK p (t :: ts) (g :: gs) (c :: cs) (x :: xs)

theorem specDecFields_nil (p : Nat) (ts : List CqlTy) : specDecFields p ts [] = some [] := by
  cases ts <;> simp [specDecFields]

theorem readBytesFrame_not_shorter (b r : Bytes) (e : Option Bytes) (h : readBytesFrame b = some (e, r)) :
    shorter b 4 = false := by
  unfold readBytesFrame readElem at h
  simp only [show (3:Nat) ≥ 3 from Nat.le_refl 3, if_true] at h
  cases hs : shorter b 4
  · rfl
  · rw [hs] at h; simp at h

/-- unmarshalTuple into scan targets = the specification's field loop: every field the specification reader delivers
    — null (−1), EMPTY (0) or bytes — reaches the field decoder unchanged; absent trailing fields are null -/
theorem unmarshalTupleScan_spec (p : Nat) :
    ∀ (ts : List CqlTy) (gs : List GoTy) (b : Bytes) (cs : List CqlVal) (xs : List GoVal),
      specDecFields p ts b = some cs → ScanOK p ts gs cs xs → unmarshalTupleScan p ts gs b = .ok xs []
  | [], gs, b, cs, xs, h, hok => by
    cases hok
    simp only [specDecFields] at h
    by_cases hb : b = []
    · subst hb; simp [unmarshalTupleScan]
    · rw [if_neg hb] at h; cases h
  | t :: ts, gs, b, cs, xs, h, hok => by
    by_cases hb : b = []
    · subst hb
      rw [specDecFields_nil] at h
      injection h with h
      subst h
      cases hok with
      | absent hx hrest =>
        rename_i g gs' x xs'
        have ih := unmarshalTupleScan_spec p ts gs' [] [] xs' (specDecFields_nil p ts) hrest
        simp [unmarshalTupleScan, shorter, hx, ih]
    · simp only [specDecFields, hb, if_false, Option.bind_eq_bind] at h
      cases he : readBytesFrame b with
      | none => rw [he] at h; simp at h
      | some er =>
        obtain ⟨e, r1⟩ := er
        rw [he] at h
        simp only [Option.bind_some] at h
        have hm := readBytesM_of_readBytesFrame b r1 e he
        have hs := readBytesFrame_not_shorter b r1 e he
        have key : ∃ v vs, cs = v :: vs ∧ specDecFields p ts r1 = some vs ∧
            ((e = none ∧ v = .null) ∨ (∃ x, e = some x ∧ specDec p t x = some v)) := by
          cases e with
          | none =>
            cases hr : specDecFields p ts r1 with
            | none => simp [hr] at h
            | some vs => exact ⟨.null, vs, by simpa [hr] using h.symm, rfl, .inl ⟨rfl, rfl⟩⟩
          | some x =>
            cases hx : specDec p t x with
            | none => simp [hx] at h
            | some v =>
              cases hr : specDecFields p ts r1 with
              | none => simp [hx, hr] at h
              | some vs => exact ⟨v, vs, by simpa [hx, hr] using h.symm, rfl, .inr ⟨x, rfl, hx⟩⟩
        obtain ⟨v, vs, hcs, hrest, hv⟩ := key
        subst hcs
        cases hok with
        | cons hnull hsome hrestok =>
          rename_i g gs' x xs'
          have ih := unmarshalTupleScan_spec p ts gs' r1 vs xs' hrest hrestok
          have hf : withPtr (unmarshalBase p t) g e = .ok x := by
            rcases hv with ⟨he0, hv0⟩ | ⟨x, he0, hx⟩
            · subst he0; exact hnull hv0
            · subst he0; exact hsome x hx
          simp [unmarshalTupleScan, hs, hm, hf, ih]

/-- what unmarshalTuple does with one decoded element `v` (a value of goType(elem)) for a struct field / slice or
    array element of type `g`: a pointer field gets the pointer for a present element (EMPTY included) and nil for
    null; interface{} and goType fields get the value; any other field type is an error (setTupleElem) -/
def setSlot (t : CqlTy) (g : GoTy) (item : Option Bytes) (v : GoVal) : URes :=
  match g with
  | .ptr g' => if g' == goTypeOf t then (if item.isSome then .ok (.ptr v) else .ok .nilptr) else .err
  | .iface => .ok v
  | g => if g == goTypeOf t then .ok v else
      (match g, v with
       | .arr16, .uuid b => .ok (.arr16 b)
       | .bytes true, .bytes false isNil b => .ok (.bytes true isNil b)
       | .ip, .bytes false _ b => .ok (.ip b)
       | _, _ => .err)

/-- one field of `unmarshalTupleSet`: decode into goType(elem), then the slot -/
def setField (p : Nat) (t : CqlTy) (g : GoTy) (item : Option Bytes) : URes :=
  match withPtr (unmarshalBase p t) (goTypeOf t) item with
  | .ok v => setSlot t g item v
  | other => other

theorem unmarshalTupleSet_cons (p : Nat) (t : CqlTy) (ts : List CqlTy) (g : GoTy) (gs : List GoTy) (data : Bytes) :
    unmarshalTupleSet p (t :: ts) (g :: gs) data =
      (match (if !(shorter data 4) then readBytesM data else some (none, data)) with
       | none => .err
       | some (item, r) => (match setField p t g item with
          | .ok sv => (match unmarshalTupleSet p ts gs r with
              | .ok vs r' => .ok (sv :: vs) r'
              | other => other)
          | .err => .err | .crash => .crash | .unmodelled => .unmodelled)) := by
  rw [unmarshalTupleSet]
  cases hrd : (if !(shorter data 4) then readBytesM data else some (none, data)) with
  | none => rfl
  | some ir =>
    obtain ⟨item, r⟩ := ir
    simp only [setField, setSlot]
    cases hw : withPtr (unmarshalBase p t) (goTypeOf t) item <;> simp only []
    cases g <;> rfl

/-- field-wise hypothesis for struct / slice / array targets of a tuple -/
inductive SetOK (p : Nat) : List CqlTy → List GoTy → List CqlVal → List GoVal → Prop
  | nil {gs} : SetOK p [] gs [] []
  | absent {t ts g gs x xs} : setField p t g none = .ok x → SetOK p ts gs [] xs →
      SetOK p (t :: ts) (g :: gs) [] (x :: xs)
  | cons {t ts g gs c cs x xs} :
      (c = .null → setField p t g none = .ok x) →
      (∀ b, specDec p t b = some c → setField p t g (some b) = .ok x) →
      SetOK p ts gs cs xs → SetOK p (t :: ts) (g :: gs) (c :: cs) (x :: xs)

/-- unmarshalTuple into a struct / slice / array = the specification's field loop followed by the slot rule: every
    field the specification reader delivers — null (−1), EMPTY (0) or bytes — reaches `setField` as such (so a pointer
    field is nil exactly for null and a pointer to the decoded value otherwise); absent trailing fields are null -/
theorem unmarshalTupleSet_spec (p : Nat) :
    ∀ (ts : List CqlTy) (gs : List GoTy) (b : Bytes) (cs : List CqlVal) (xs : List GoVal),
      specDecFields p ts b = some cs → SetOK p ts gs cs xs → unmarshalTupleSet p ts gs b = .ok xs []
  | [], gs, b, cs, xs, h, hok => by
    cases hok
    simp only [specDecFields] at h
    by_cases hb : b = []
    · subst hb; simp [unmarshalTupleSet]
    · rw [if_neg hb] at h; cases h
  | t :: ts, gs, b, cs, xs, h, hok => by
    by_cases hb : b = []
    · subst hb
      rw [specDecFields_nil] at h
      injection h with h
      subst h
      cases hok with
      | absent hx hrest =>
        rename_i g gs' x xs'
        have ih := unmarshalTupleSet_spec p ts gs' [] [] xs' (specDecFields_nil p ts) hrest
        rw [unmarshalTupleSet_cons]
        simp [shorter, hx, ih]
    · simp only [specDecFields, hb, if_false, Option.bind_eq_bind] at h
      cases he : readBytesFrame b with
      | none => rw [he] at h; simp at h
      | some er =>
        obtain ⟨e, r1⟩ := er
        rw [he] at h
        simp only [Option.bind_some] at h
        have hm := readBytesM_of_readBytesFrame b r1 e he
        have hs := readBytesFrame_not_shorter b r1 e he
        have key : ∃ v vs, cs = v :: vs ∧ specDecFields p ts r1 = some vs ∧
            ((e = none ∧ v = .null) ∨ (∃ x, e = some x ∧ specDec p t x = some v)) := by
          cases e with
          | none =>
            cases hr : specDecFields p ts r1 with
            | none => simp [hr] at h
            | some vs => exact ⟨.null, vs, by simpa [hr] using h.symm, rfl, .inl ⟨rfl, rfl⟩⟩
          | some x =>
            cases hx : specDec p t x with
            | none => simp [hx] at h
            | some v =>
              cases hr : specDecFields p ts r1 with
              | none => simp [hx, hr] at h
              | some vs => exact ⟨v, vs, by simpa [hx, hr] using h.symm, rfl, .inr ⟨x, rfl, hx⟩⟩
        obtain ⟨v, vs, hcs, hrest, hv⟩ := key
        subst hcs
        cases hok with
        | cons hnull hsome hrestok =>
          rename_i g gs' x xs'
          have ih := unmarshalTupleSet_spec p ts gs' r1 vs xs' hrest hrestok
          have hf : setField p t g e = .ok x := by
            rcases hv with ⟨he0, hv0⟩ | ⟨x, he0, hx⟩
            · subst he0; exact hnull hv0
            · subst he0; exact hsome x hx
          rw [unmarshalTupleSet_cons]
          simp [hs, hm, hf, ih]

mutual
theorem beqT_refl : ∀ g : GoTy, GoTy.beqT g g = true
  | .int k n => by simp [GoTy.beqT]
  | .str n => by simp [GoTy.beqT]
  | .bytes n => by simp [GoTy.beqT]
  | .bool n => by simp [GoTy.beqT]
  | .f32 n => by simp [GoTy.beqT]
  | .f64 n => by simp [GoTy.beqT]
  | .big => by simp [GoTy.beqT]
  | .dec => by simp [GoTy.beqT]
  | .time => by simp [GoTy.beqT]
  | .dur => by simp [GoTy.beqT]
  | .cqldur => by simp [GoTy.beqT]
  | .uuid => by simp [GoTy.beqT]
  | .arr16 => by simp [GoTy.beqT]
  | .ip => by simp [GoTy.beqT]
  | .ptr a => by simp [GoTy.beqT, beqT_refl a]
  | .slice a => by simp [GoTy.beqT, beqT_refl a]
  | .array n a => by simp [GoTy.beqT, beqT_refl a]
  | .map k v => by simp [GoTy.beqT, beqT_refl k, beqT_refl v]
  | .iface => by simp [GoTy.beqT]
  | .ifaces as => by simp [GoTy.beqT, beqTs_refl as]
  | .struct as => by simp [GoTy.beqT, beqTs_refl as]
  | .udtmap => by simp [GoTy.beqT]
  | .udtstruct ns as => by simp [GoTy.beqT, beqTs_refl as]
theorem beqTs_refl : ∀ gs : List GoTy, GoTy.beqTs gs gs = true
  | [] => by simp [GoTy.beqTs]
  | a :: as => by simp [GoTy.beqTs, beqT_refl a, beqTs_refl as]
end

/-- the slot rule keeps null and EMPTY apart: for a pointer field of the right type a present element — empty or
    not — gives a non-nil pointer, a null element the nil pointer -/
theorem setSlot_ptr (t : CqlTy) (item : Option Bytes) (v : GoVal) :
    setSlot t (.ptr (goTypeOf t)) item v = if item.isSome then .ok (.ptr v) else .ok .nilptr := by
  have : (goTypeOf t == goTypeOf t) = true := by
    show GoTy.beqT (goTypeOf t) (goTypeOf t) = true
    exact beqT_refl (goTypeOf t)
  simp [setSlot, this]
end C12Frame
