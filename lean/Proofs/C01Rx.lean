import Model.MuxRx
/-!
# The receive loop never loses its place in the byte stream (lemmas)

`Model/MuxRx.lean`: `readFull` (io.ReadFull over the buffered socket), `connRead` (Conn.Read: five attempts,
count accumulated), `discard`, `readHeader`, `recvLoop`. Here: whatever way the server's bytes are cut
into writes and however many read deadlines expire while a HEADER is awaited, and as long as fewer than
five expire while any one BODY is awaited, the loop hands every frame — own header, own body — to the
call registered for its stream id.
-/
namespace Rx

/-! ### bytes / dropBytes / expiriesBefore -/

@[simp] theorem bytes_nil : bytes [] = [] := rfl
@[simp] theorem bytes_some (b : UInt8) (r : Src) : bytes (some b :: r) = b :: bytes r := by simp [bytes]
@[simp] theorem bytes_none (r : Src) : bytes (none :: r) = bytes r := by simp [bytes]

theorem bytes_length_le (src : Src) : (bytes src).length ≤ src.length := by
  induction src with
  | nil => simp
  | cons x r ih => cases x <;> simp <;> omega

theorem bytes_dropBytes : ∀ (src : Src) (n : Nat), bytes (dropBytes n src) = (bytes src).drop n
  | [], 0 => by simp [dropBytes]
  | [], n + 1 => by simp [dropBytes]
  | some b :: r, 0 => by simp [dropBytes]
  | some b :: r, n + 1 => by simp [dropBytes, bytes_dropBytes r n]
  | none :: r, 0 => by simp [dropBytes]
  | none :: r, n + 1 => by simp [dropBytes, bytes_dropBytes r (n + 1)]

theorem dropBytes_add : ∀ (src : Src) (a b : Nat), dropBytes (a + b) src = dropBytes b (dropBytes a src)
  | src, 0, b => by simp [dropBytes]
  | [], a + 1, b => by
    have : a + 1 + b = (a + b) + 1 := by omega
    rw [this]; cases b <;> simp [dropBytes]
  | some x :: r, a + 1, b => by
    have : a + 1 + b = (a + b) + 1 := by omega
    rw [this]; simp only [dropBytes]; exact dropBytes_add r a b
  | none :: r, a + 1, b => by
    have h : a + 1 + b = (a + b) + 1 := by omega
    rw [h]; simp only [dropBytes]; rw [← h]; exact dropBytes_add r (a + 1) b

theorem expiriesBefore_add : ∀ (src : Src) (a b : Nat),
    expiriesBefore (a + b) src = expiriesBefore a src + expiriesBefore b (dropBytes a src)
  | src, 0, b => by simp [dropBytes, expiriesBefore]
  | [], a + 1, b => by
    have : a + 1 + b = (a + b) + 1 := by omega
    rw [this]; cases b <;> simp [dropBytes, expiriesBefore]
  | some x :: r, a + 1, b => by
    have : a + 1 + b = (a + b) + 1 := by omega
    rw [this]; simp only [dropBytes, expiriesBefore]; exact expiriesBefore_add r a b
  | none :: r, a + 1, b => by
    have h : a + 1 + b = (a + b) + 1 := by omega
    rw [h]; simp only [dropBytes, expiriesBefore]; rw [← h, expiriesBefore_add r (a + 1) b]; omega

/-! ### io.ReadFull -/

/-- without a deadline, expiry points are waited through -/
theorem readFull_nodl : ∀ (src : Src) (n : Nat), n ≤ (bytes src).length →
    readFull false src n = ((bytes src).take n, .ok, dropBytes n src)
  | [], n, h => by
    have : n = 0 := by simpa using h
    subst this; simp [readFull, dropBytes]
  | some b :: r, 0, _ => by simp [readFull, dropBytes]
  | some b :: r, n + 1, h => by
    have h' : n ≤ (bytes r).length := by simpa using h
    simp [readFull, dropBytes, readFull_nodl r n h']
  | none :: r, 0, _ => by simp [readFull, dropBytes]
  | none :: r, n + 1, h => by
    have h' : n + 1 ≤ (bytes r).length := by simpa using h
    simp [readFull, dropBytes, readFull_nodl r (n + 1) h']

theorem readFull_nodl_short : ∀ (src : Src) (n : Nat), (bytes src).length < n →
    (readFull false src n).2.1 = .eof
  | [], n, h => by
    have : n ≠ 0 := by simp at h; omega
    simp [readFull, this]
  | some b :: r, 0, h => by simp at h
  | some b :: r, n + 1, h => by
    have h' : (bytes r).length < n := by simpa using h
    simp [readFull, readFull_nodl_short r n h']
  | none :: r, 0, h => by simp at h
  | none :: r, n + 1, h => by
    have h' : (bytes r).length < n + 1 := by simpa using h
    simp [readFull, readFull_nodl_short r (n + 1) h']

/-- whatever happens, ReadFull returns a prefix of the stream, not more than asked for, all of it when it
    reports success, and leaves the socket exactly behind what it returned (or behind the expiry that
    ended it) -/
theorem readFull_prefix (dl : Bool) : ∀ (src : Src) (k : Nat),
    (readFull dl src k).1 ++ bytes (readFull dl src k).2.2 = bytes src ∧ (readFull dl src k).1.length ≤ k ∧
    ((readFull dl src k).2.1 = .ok → (readFull dl src k).1.length = k)
  | [], k => by by_cases h : k = 0 <;> simp [readFull, h]
  | some b :: r, 0 => by simp [readFull]
  | some b :: r, k + 1 => by
    have ih := readFull_prefix dl r k
    simp only [readFull, bytes_some, List.cons_append, List.length_cons]
    refine ⟨by rw [ih.1], by omega, fun h => by have := ih.2.2 h; omega⟩
  | none :: r, 0 => by simp [readFull]
  | none :: r, k + 1 => by
    cases dl with
    | true => simp [readFull]
    | false =>
      have ih := readFull_prefix false r (k + 1)
      simpa [readFull] using ih

/-- with a deadline and no expiry point before the k-th byte, the read completes -/
theorem readFull_dl_clear : ∀ (src : Src) (k : Nat), k ≤ (bytes src).length → expiriesBefore k src = 0 →
    readFull true src k = ((bytes src).take k, .ok, dropBytes k src)
  | [], k, h, _ => by
    have : k = 0 := by simpa using h
    subst this; simp [readFull, dropBytes]
  | some b :: r, 0, _, _ => by simp [readFull, dropBytes]
  | some b :: r, k + 1, h, he => by
    have h' : k ≤ (bytes r).length := by simpa using h
    simp only [expiriesBefore] at he
    simp [readFull, dropBytes, readFull_dl_clear r k h' he]
  | none :: r, 0, _, _ => by simp [readFull, dropBytes]
  | none :: r, k + 1, _, he => by simp [expiriesBefore] at he

/-- with a deadline and an expiry point before the k-th byte: a timeout, with the bytes before that point -/
theorem readFull_dl_expiry : ∀ (src : Src) (k : Nat), k ≤ (bytes src).length → 0 < expiriesBefore k src →
    (readFull true src k).2.1 = .timeout ∧ (readFull true src k).1.length < k ∧
    (bytes src).take k = (readFull true src k).1 ++ (bytes (readFull true src k).2.2).take (k - (readFull true src k).1.length) ∧
    dropBytes k src = dropBytes (k - (readFull true src k).1.length) (readFull true src k).2.2 ∧
    expiriesBefore k src = expiriesBefore (k - (readFull true src k).1.length) (readFull true src k).2.2 + 1 ∧
    k - (readFull true src k).1.length ≤ (bytes (readFull true src k).2.2).length
  | [], k, h, he => by
    have : k = 0 := by simpa using h
    subst this; simp [expiriesBefore] at he
  | some b :: r, 0, _, he => by simp [expiriesBefore] at he
  | some b :: r, k + 1, h, he => by
    have h' : k ≤ (bytes r).length := by simpa using h
    simp only [expiriesBefore] at he
    have ih := readFull_dl_expiry r k h' he
    simp only [readFull, bytes_some, List.take_succ_cons, List.length_cons, dropBytes, expiriesBefore,
      List.cons_append]
    have e : k + 1 - ((readFull true r k).1.length + 1) = k - (readFull true r k).1.length := by omega
    rw [e]
    refine ⟨ih.1, by omega, by rw [← ih.2.2.1], ih.2.2.2.1, ih.2.2.2.2.1, ih.2.2.2.2.2⟩
  | none :: r, 0, _, he => by simp [expiriesBefore] at he
  | none :: r, k + 1, h, _ => by
    have h' : k + 1 ≤ (bytes r).length := by simpa using h
    simp [readFull, dropBytes, expiriesBefore, h']

/-! ### Conn.Read -/

/-- Conn.Read never returns anything but a prefix of the stream, and its count is the number of bytes it
    has put into p — over ALL attempts (this is what a caller relying on io.ReadFull(c, buf) needs) -/
theorem connRead_prefix (dl : Bool) : ∀ (a : Nat) (src : Src) (k : Nat),
    (connRead dl a src k).1 ++ bytes (connRead dl a src k).2.2 = bytes src ∧ (connRead dl a src k).1.length ≤ k ∧
    ((connRead dl a src k).2.1 = .ok → (connRead dl a src k).1.length = k)
  | 0, src, k => by simp [connRead]
  | a + 1, src, k => by
    have hx := readFull_prefix dl src k
    simp only [connRead]
    split
    · rename_i ht
      have ih := connRead_prefix dl a (readFull dl src k).2.2 (k - (readFull dl src k).1.length)
      refine ⟨?_, ?_, ?_⟩
      · simp only [List.append_assoc]; rw [ih.1]; exact hx.1
      · simp only [List.length_append]; have := ih.2.1; have := hx.2.1; omega
      · intro h; simp only [List.length_append]; have := ih.2.2 h; have := hx.2.1; omega
    · exact hx

/-- fewer expiry points before the k-th byte than attempts: the read completes with exactly the next k bytes -/
theorem connRead_ok : ∀ (a : Nat) (src : Src) (k : Nat), k ≤ (bytes src).length → expiriesBefore k src < a →
    connRead true a src k = ((bytes src).take k, .ok, dropBytes k src)
  | 0, _, _, _, he => by omega
  | a + 1, src, k, h, he => by
    by_cases h0 : expiriesBefore k src = 0
    · simp [connRead, readFull_dl_clear src k h h0]
    · have hx := readFull_dl_expiry src k h (by omega)
      have ih := connRead_ok a (readFull true src k).2.2 (k - (readFull true src k).1.length) hx.2.2.2.2.2
        (by have := hx.2.2.2.2.1; omega)
      simp only [connRead, hx.1, ih]
      rw [← hx.2.2.1, ← hx.2.2.2.1]

theorem connRead_nodl (a : Nat) (src : Src) (k : Nat) (h : k ≤ (bytes src).length) :
    connRead false (a + 1) src k = ((bytes src).take k, .ok, dropBytes k src) := by
  simp [connRead, readFull_nodl src k h]

/-- either way -/
theorem connRead_calm (dl : Bool) (src : Src) (k : Nat) (h : k ≤ (bytes src).length)
    (he : dl = true → expiriesBefore k src < maxAttempts) :
    connRead dl maxAttempts src k = ((bytes src).take k, .ok, dropBytes k src) := by
  cases dl with
  | true => exact connRead_ok _ src k h (he rfl)
  | false => exact connRead_nodl 4 src k h

/-! ### discardFrame -/

theorem discard_calm (dl : Bool) : ∀ (f : Nat) (src : Src) (n : Nat), n ≤ f → n ≤ (bytes src).length →
    (dl = true → expiriesBefore n src < maxAttempts) → discard dl f src n = (.ok, dropBytes n src)
  | 0, src, n, hf, _, _ => by
    have : n = 0 := by omega
    subst this; simp [discard, dropBytes]
  | f + 1, src, n, hf, h, he => by
    by_cases h0 : n = 0
    · subst h0; simp [discard, dropBytes]
    · have hk : min n discardChunk ≤ (bytes src).length := by omega
      have hsplit : n = min n discardChunk + (n - min n discardChunk) := by omega
      have hek : dl = true → expiriesBefore (min n discardChunk) src < maxAttempts := by
        intro hd
        have := he hd
        rw [hsplit, expiriesBefore_add] at this
        omega
      have hc := connRead_calm dl src (min n discardChunk) hk hek
      have hpos : 0 < min n discardChunk := by simp [discardChunk]; omega
      have ih := discard_calm dl f (dropBytes (min n discardChunk) src) (n - min n discardChunk) (by omega)
        (by rw [bytes_dropBytes]; simp; omega)
        (by intro hd
            have := he hd
            rw [hsplit, expiriesBefore_add] at this
            omega)
      simp only [discard, h0, if_false, hc, ih]
      rw [← dropBytes_add, ← hsplit]

/-! ### readHeader inverts the header encoding of the protocol specification -/

theorem u8_toNat (n : Nat) : (u8 n).toNat = n % 256 := by simp [u8]

theorem s16_roundtrip (x : Int) (h : -32768 ≤ x ∧ x < 32768) :
    s16 (be16 (u8 ((x % 65536).toNat / 256)) (u8 ((x % 65536).toNat % 256))) = x := by
  simp only [s16, be16, u8_toNat]
  split <;> omega

theorem s8_roundtrip (x : Int) (h : -128 ≤ x ∧ x < 128) : s8 (u8 (x % 256).toNat) = x := by
  simp only [s8, u8_toNat]
  split <;> omega

theorem s32_roundtrip (x : Int) (h : 0 ≤ x ∧ x ≤ 268435456) :
    s32 (be32 (u8 ((x % 4294967296).toNat / 16777216)) (u8 ((x % 4294967296).toNat / 65536 % 256))
      (u8 ((x % 4294967296).toNat / 256 % 256)) (u8 ((x % 4294967296).toNat % 256))) = x := by
  simp only [s32, be32, u8_toNat]
  split <;> omega

theorem encodeHdr_length (proto : Nat) (h : Hdr) : (encodeHdr proto h).length = hdrLen proto := by
  simp only [encodeHdr, hdrLen]; split <;> simp

theorem readHeader_encode (proto : Nat) (hp1 : 1 ≤ proto) (hp5 : proto ≤ 5) (h : Hdr)
    (hv : h.version.toNat % 128 = proto)
    (hs : -1 ≤ h.stream ∧ h.stream < numStreams proto) (hl : 0 ≤ h.length ∧ h.length ≤ maxFrameSize)
    (src : Src) (rest : List UInt8) (hb : bytes src = encodeHdr proto h ++ rest) :
    readHeader src = .hdr h (dropBytes (hdrLen proto) src) := by
  have hver : ¬ (h.version.toNat % 128 < 1 ∨ h.version.toNat % 128 > 5) := by omega
  obtain ⟨version, flags, stream, op, length⟩ := h
  simp only at hv hs hl hver
  by_cases hlt : proto < 3
  · have hns : numStreams proto = 128 := by simp [numStreams]; omega
    rw [hns] at hs
    simp only [encodeHdr, hlt, if_true, List.cons_append, List.nil_append] at hb
    have h1 := readFull_nodl src 1 (by rw [hb]; simp)
    have h2 := readFull_nodl (dropBytes 1 src) 7 (by rw [bytes_dropBytes, hb]; simp)
    have hd : dropBytes 7 (dropBytes 1 src) = dropBytes (hdrLen proto) src := by
      rw [← dropBytes_add]; simp [hdrLen, hlt]
    have hlt' : version.toNat % 128 < 3 := by omega
    simp only [readHeader, h1, hb, List.take_succ_cons, List.take_zero, hver, if_false, hlt', if_true, h2,
      bytes_dropBytes, List.drop_succ_cons, List.drop_zero, hd]
    have := s8_roundtrip stream (by omega)
    have := s32_roundtrip length (by simp [maxFrameSize] at hl; omega)
    simp_all
  · have hns : numStreams proto = 32768 := by simp [numStreams]; omega
    rw [hns] at hs
    simp only [encodeHdr, hlt, if_false, List.cons_append, List.nil_append] at hb
    have h1 := readFull_nodl src 1 (by rw [hb]; simp)
    have h2 := readFull_nodl (dropBytes 1 src) 8 (by rw [bytes_dropBytes, hb]; simp)
    have hd : dropBytes 8 (dropBytes 1 src) = dropBytes (hdrLen proto) src := by
      rw [← dropBytes_add]; simp [hdrLen, hlt]
    have hlt' : ¬ version.toNat % 128 < 3 := by omega
    simp only [readHeader, h1, hb, List.take_succ_cons, List.take_zero, hver, if_false, hlt', h2,
      bytes_dropBytes, List.drop_succ_cons, List.drop_zero, hd]
    have := s16_roundtrip stream (by omega)
    have := s32_roundtrip length (by simp [maxFrameSize] at hl; omega)
    simp_all

theorem readHeader_empty (src : Src) (h : bytes src = []) : readHeader src = .eof := by
  have := readFull_nodl_short src 1 (by rw [h]; simp)
  simp only [readHeader]
  split
  · rename_i v hx he; rw [this] at he; cases he
  · rfl

theorem encode_length (proto : Nat) (f : Frame) : (encode proto f).length = hdrLen proto + f.body.length := by
  simp [encode, encodeHdr_length]

theorem readBody_calm (dl : Bool) (src : Src) (f : Frame) (rest : List UInt8) (proto : Nat) (hwf : f.wf proto)
    (hb : bytes src = f.body ++ rest) (hc : dl = true → expiriesBefore f.body.length src < maxAttempts) :
    readBody dl src f.h = (.ok, f.body, .ok, dropBytes f.body.length src) := by
  obtain ⟨_, hfl, _, hlen, _⟩ := hwf
  have hk : f.body.length ≤ (bytes src).length := by rw [hb]; simp
  have hcr := connRead_calm dl src f.body.length hk hc
  have hn : ¬ f.h.length < 0 := by omega
  have ht : f.h.length.toNat = f.body.length := by omega
  have hfl' : ¬ f.h.flags.toNat % 2 = 1 := by omega
  simp only [readBody, hn, if_false, ht, hcr, hfl', hb, List.take_left']

theorem recvLoop_sync (proto : Nat) (hp1 : 1 ≤ proto) (hp5 : proto ≤ 5) (dl : Bool) :
    ∀ (fs : List Frame) (fuel : Nat) (cs : Calls) (src : Src), fs.length < fuel →
    (∀ f ∈ fs, f.wf proto) → bytes src = encodeAll proto fs → (dl = true → Calm proto fs src) →
    recvLoop proto dl fuel cs src = ⟨dispatch cs fs, .eof⟩
  | [], fuel, cs, src, hf, _, hb, _ => by
    obtain ⟨f, rfl⟩ : ∃ f, fuel = f + 1 := ⟨fuel - 1, by simp at hf; omega⟩
    have : readHeader src = .eof := readHeader_empty src (by simpa [encodeAll] using hb)
    simp [recvLoop, this, dispatch]
  | f :: fs, fuel, cs, src, hf, hwf, hb, hc => by
    obtain ⟨fuel, rfl⟩ : ∃ g, fuel = g + 1 := ⟨fuel - 1, by simp at hf; omega⟩
    have hw := hwf f (by simp)
    obtain ⟨hv, hfl, hst, hlen, hmax⟩ := hw
    have hb' : bytes src = encodeHdr proto f.h ++ (f.body ++ encodeAll proto fs) := by
      simpa [encodeAll, encode, List.append_assoc] using hb
    have hsr : -1 ≤ f.h.stream ∧ f.h.stream < numStreams proto := by
      rcases hst with h | h
      · rw [h]; simp [numStreams]; split <;> omega
      · omega
    have hh := readHeader_encode proto hp1 hp5 f.h hv hsr (by omega) src _ hb'
    have hs1 : bytes (dropBytes (hdrLen proto) src) = f.body ++ encodeAll proto fs := by
      rw [bytes_dropBytes, hb', ← encodeHdr_length proto f.h, List.drop_left]
    have hcalm : dl = true → expiriesBefore f.body.length (dropBytes (hdrLen proto) src) < maxAttempts :=
      fun hd => (hc hd).1
    have hrb := readBody_calm dl _ f _ proto (hwf f (by simp)) hs1 hcalm
    have hs2 : bytes (dropBytes f.body.length (dropBytes (hdrLen proto) src)) = encodeAll proto fs := by
      rw [bytes_dropBytes, hs1, List.drop_left]
    have ih := fun cs' => recvLoop_sync proto hp1 hp5 dl fs fuel cs' _ (by simp at hf; omega)
      (fun g hg => hwf g (by simp [hg])) hs2 (fun hd => (hc hd).2)
    have hnb : ¬ f.h.stream > numStreams proto := by omega
    have hnbig : ¬ f.h.length > maxFrameSize := by omega
    by_cases hev : f.h.stream = -1
    · have hns : (-1 : Int) ≤ numStreams proto := by simp only [numStreams]; split <;> omega
      simp [recvLoop, hh, hnbig, hev, hrb, ih, dispatch, hns]
    · have hpos : 1 ≤ f.h.stream := by rcases hst with h | h <;> omega
      have hne : ¬ (f.h.stream = -1 ∨ f.h.stream ≤ 0) := by omega
      have hle : ¬ f.h.stream ≤ 0 := by omega
      have hlt : 0 < f.h.stream := by omega
      cases hfind : cs.find f.h.stream with
      | none =>
        have hk : f.body.length ≤ (bytes (dropBytes (hdrLen proto) src)).length := by rw [hs1]; simp
        have hdis := discard_calm dl (f.body.length + 1) _ f.body.length (by omega) hk hcalm
        have hn : ¬ f.h.length < 0 := by omega
        have ht : f.h.length.toNat = f.body.length := by omega
        simp [recvLoop, hh, hnb, hnbig, hle, hev, hfind, hn, ht, hdis, ih, dispatch]
      | some w =>
        cases w <;> simp [recvLoop, hh, hnb, hnbig, hle, hev, hfind, hrb, ih, dispatch]

/-! ### without `Calm`: a body read either completes with exactly the body, or gives up on a read deadline —
it never delivers anything else and never loses its place silently -/

theorem connRead_cases (dl : Bool) : ∀ (a : Nat) (src : Src) (k : Nat), k ≤ (bytes src).length →
    connRead dl a src k = ((bytes src).take k, .ok, dropBytes k src) ∨ (connRead dl a src k).2.1 = .timeout
  | 0, _, _, _ => Or.inr (by simp [connRead])
  | a + 1, src, k, h => by
    cases dl with
    | false => exact Or.inl (connRead_nodl a src k h)
    | true =>
      by_cases h0 : expiriesBefore k src = 0
      · left; simp [connRead, readFull_dl_clear src k h h0]
      · have hx := readFull_dl_expiry src k h (by omega)
        rcases connRead_cases true a (readFull true src k).2.2 (k - (readFull true src k).1.length) hx.2.2.2.2.2 with ih | ih
        · left
          simp only [connRead, hx.1, ih]
          rw [← hx.2.2.1, ← hx.2.2.2.1]
        · right
          simp only [connRead, hx.1]
          exact ih

theorem discard_cases (dl : Bool) : ∀ (f : Nat) (src : Src) (n : Nat), n ≤ f → n ≤ (bytes src).length →
    discard dl f src n = (.ok, dropBytes n src) ∨ (discard dl f src n).1 = .timeout
  | 0, src, n, hf, _ => by
    have : n = 0 := by omega
    subst this; left; simp [discard, dropBytes]
  | f + 1, src, n, hf, h => by
    by_cases h0 : n = 0
    · subst h0; left; simp [discard, dropBytes]
    · have hk : min n discardChunk ≤ (bytes src).length := by omega
      have hsplit : n = min n discardChunk + (n - min n discardChunk) := by omega
      have hpos : 0 < min n discardChunk := by simp [discardChunk]; omega
      rcases connRead_cases dl maxAttempts src (min n discardChunk) hk with hc | hc
      · rcases discard_cases dl f (dropBytes (min n discardChunk) src) (n - min n discardChunk) (by omega)
          (by rw [bytes_dropBytes]; simp; omega) with ih | ih
        · left
          simp only [discard, h0, if_false, hc, ih]
          rw [← dropBytes_add, ← hsplit]
        · right
          simp only [discard, h0, if_false, hc]
          exact ih
      · right
        simp only [discard, h0, if_false]
        rw [hc]

theorem readBody_cases (dl : Bool) (src : Src) (f : Frame) (rest : List UInt8) (proto : Nat) (hwf : f.wf proto)
    (hb : bytes src = f.body ++ rest) :
    readBody dl src f.h = (.ok, f.body, .ok, dropBytes f.body.length src) ∨
    ((readBody dl src f.h).1 = .gaveUp ∧ (readBody dl src f.h).2.2.1 = .timeout) := by
  obtain ⟨_, hfl, _, hlen, _⟩ := hwf
  have hk : f.body.length ≤ (bytes src).length := by rw [hb]; simp
  have hn : ¬ f.h.length < 0 := by omega
  have ht : f.h.length.toNat = f.body.length := by omega
  have hfl' : ¬ f.h.flags.toNat % 2 = 1 := by omega
  rcases connRead_cases dl maxAttempts src f.body.length hk with hcr | hcr
  · left; simp only [readBody, hn, if_false, ht, hcr, hfl', hb, List.take_left']
  · right; simp only [readBody, hn, if_false, ht]; rw [hcr]; exact ⟨rfl, rfl⟩

/-- what the loop may return for well-formed frames `fs`: everything dispatched; or — when a body read gave up
on a read deadline — the dispatch of the frames before that one, one record for the frame the loop ended in
(its own header, nothing of it handed to anyone) and the time-out status, with which Conn.serve closes the
connection -/
def SyncOut (cs : Calls) (fs : List Frame) (o : Out) : Prop :=
  o = ⟨dispatch cs fs, .eof⟩ ∨
  ∃ n f d r, fs[n]? = some f ∧ r ≠ .ok ∧ o = ⟨(dispatch cs fs).take n ++ [⟨d, r, f.h, []⟩], .tmo⟩

theorem syncOut_stop (cs : Calls) (f : Frame) (fs : List Frame) (d : Disp) (r : BodyRes) (hr : r ≠ .ok) :
    SyncOut cs (f :: fs) ⟨[⟨d, r, f.h, []⟩], .tmo⟩ :=
  Or.inr ⟨0, f, d, r, rfl, hr, by simp⟩

theorem syncOut_cons (cs cs' : Calls) (f : Frame) (fs : List Frame) (r0 : Rec) (o : Out)
    (hd : dispatch cs (f :: fs) = r0 :: dispatch cs' fs) (ho : SyncOut cs' fs o) :
    SyncOut cs (f :: fs) ⟨r0 :: o.recs, o.status⟩ := by
  rcases ho with ho | ⟨n, g, d, r, hg, hr, ho⟩
  · left; rw [ho, hd]
  · right
    refine ⟨n + 1, g, d, r, by simpa using hg, hr, ?_⟩
    rw [ho, hd]; simp

theorem recvLoop_sync_full (proto : Nat) (hp1 : 1 ≤ proto) (hp5 : proto ≤ 5) (dl : Bool) :
    ∀ (fs : List Frame) (fuel : Nat) (cs : Calls) (src : Src), fs.length < fuel →
    (∀ f ∈ fs, f.wf proto) → bytes src = encodeAll proto fs →
    SyncOut cs fs (recvLoop proto dl fuel cs src)
  | [], fuel, cs, src, hf, _, hb => by
    obtain ⟨f, rfl⟩ : ∃ f, fuel = f + 1 := ⟨fuel - 1, by simp at hf; omega⟩
    have : readHeader src = .eof := readHeader_empty src (by simpa [encodeAll] using hb)
    left; simp [recvLoop, this, dispatch]
  | f :: fs, fuel, cs, src, hf, hwf, hb => by
    obtain ⟨fuel, rfl⟩ : ∃ g, fuel = g + 1 := ⟨fuel - 1, by simp at hf; omega⟩
    have hw := hwf f (by simp)
    obtain ⟨hv, hfl, hst, hlen, hmax⟩ := hw
    have hb' : bytes src = encodeHdr proto f.h ++ (f.body ++ encodeAll proto fs) := by
      simpa [encodeAll, encode, List.append_assoc] using hb
    have hsr : -1 ≤ f.h.stream ∧ f.h.stream < numStreams proto := by
      rcases hst with h | h
      · rw [h]; simp [numStreams]; split <;> omega
      · omega
    have hh := readHeader_encode proto hp1 hp5 f.h hv hsr (by omega) src _ hb'
    have hs1 : bytes (dropBytes (hdrLen proto) src) = f.body ++ encodeAll proto fs := by
      rw [bytes_dropBytes, hb', ← encodeHdr_length proto f.h, List.drop_left]
    have hs2 : bytes (dropBytes f.body.length (dropBytes (hdrLen proto) src)) = encodeAll proto fs := by
      rw [bytes_dropBytes, hs1, List.drop_left]
    have ih := fun cs' => recvLoop_sync_full proto hp1 hp5 dl fs fuel cs' _ (by simp at hf; omega)
      (fun g hg => hwf g (by simp [hg])) hs2
    have hnb : ¬ f.h.stream > numStreams proto := by omega
    have hnbig : ¬ f.h.length > maxFrameSize := by omega
    have hrbc := readBody_cases dl (dropBytes (hdrLen proto) src) f _ proto (hwf f (by simp)) hs1
    by_cases hev : f.h.stream = -1
    · have hns : (-1 : Int) ≤ numStreams proto := by simp only [numStreams]; split <;> omega
      have hns' : ¬ numStreams proto < -1 := by omega
      rcases hrbc with hrb | ⟨hg, ht⟩
      · have := syncOut_cons cs cs f fs ⟨.event, .ok, f.h, []⟩ _ (by simp [dispatch, hev]) (ih cs)
        simpa [recvLoop, hh, hnbig, hev, hrb, hns, hns'] using this
      · have := syncOut_stop cs f fs .event .gaveUp (by decide)
        simpa [recvLoop, hh, hnbig, hev, hns, hns', hg, ht, errStatus] using this
    · have hpos : 1 ≤ f.h.stream := by rcases hst with h | h <;> omega
      have hle : ¬ f.h.stream ≤ 0 := by omega
      cases hfind : cs.find f.h.stream with
      | none =>
        have hk : f.body.length ≤ (bytes (dropBytes (hdrLen proto) src)).length := by rw [hs1]; simp
        have hn : ¬ f.h.length < 0 := by omega
        have ht : f.h.length.toNat = f.body.length := by omega
        rcases discard_cases dl (f.body.length + 1) (dropBytes (hdrLen proto) src) f.body.length (by omega) hk with hdis | hdis
        · have := syncOut_cons cs cs f fs ⟨.discard, .ok, f.h, []⟩ _ (by simp [dispatch, hev, hfind]) (ih cs)
          simpa [recvLoop, hh, hnb, hnbig, hle, hev, hfind, hn, ht, hdis] using this
        · have := syncOut_stop cs f fs .discard .gaveUp (by decide)
          simp only [recvLoop, hh, hnb, hnbig, hle, hev, hfind, hn, ht, if_false, or_self]
          rw [show (discard dl (f.body.length + 1) (dropBytes (hdrLen proto) src) f.body.length) =
            ((discard dl (f.body.length + 1) (dropBytes (hdrLen proto) src) f.body.length).1,
             (discard dl (f.body.length + 1) (dropBytes (hdrLen proto) src) f.body.length).2) from rfl, hdis]
          simpa [errStatus] using this
      | some w =>
        rcases hrbc with hrb | ⟨hg, ht⟩
        · cases w
          · have := syncOut_cons cs (cs.erase f.h.stream) f fs ⟨.gone, .ok, f.h, f.body⟩ _
              (by simp [dispatch, hev, hfind]) (ih _)
            simpa [recvLoop, hh, hnb, hnbig, hle, hev, hfind, hrb] using this
          · have := syncOut_cons cs (cs.erase f.h.stream) f fs ⟨.call, .ok, f.h, f.body⟩ _
              (by simp [dispatch, hev, hfind]) (ih _)
            simpa [recvLoop, hh, hnb, hnbig, hle, hev, hfind, hrb] using this
        · cases w
          · have := syncOut_stop cs f fs .gone .lost (by decide)
            simpa [recvLoop, hh, hnb, hnbig, hle, hev, hfind, hg, ht] using this
          · have := syncOut_stop cs f fs .call .lost (by decide)
            simpa [recvLoop, hh, hnb, hnbig, hle, hev, hfind, hg, ht] using this

end Rx
