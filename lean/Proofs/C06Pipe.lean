import Model.MuxPipe
import Proofs.C01Mux
/-!
# Invariants of the receive pipeline `Model/MuxPipe.lean` (helper lemmas for `Proofs/C06.lean`)
-/
namespace MuxPipe
open Mux (Wire Outcome Pc upd)

/-- inductive invariant of the fine machine: the coarse invariant on the caller side, plus what the receiver
    holds and the discipline of the `timeout` channels -/
structure PInv (st : St) : Prop where
  base : Mux.Inv st.m
  /-- while the receiver reads the body of / hands over the response on id `s`, the response is still "on the
      wire" and the id is still reserved for the call `d` that recv found in `c.calls` -/
  held_wire : ∀ s d c k w, (st.rcv = .body s d c k w ∨ st.rcv = .hand s d c k w) →
    st.m.wire s = .answered c k w ∧ st.m.owner s = some d
  /-- only a call that has produced its outcome has closed its timeout channel … -/
  tc_done : ∀ c, st.tclosed c = true → ∃ o, st.m.pc c = .done o
  /-- … and every registered call that has produced its outcome HAS closed it (conn.go:1071: "we need to either
      read from call.resp or close(call.timeout)") -/
  done_tc : ∀ s c o, st.m.owner s = some c → st.m.pc c = .done o → st.tclosed c = true
  /-- on an open connection a caller waits only for a request / response that is still outstanding -/
  wait_wire : ∀ c s, st.m.pc c = .waiting s → st.m.closed = false → st.m.wire s ≠ .none
  /-- … and an id stays reserved for a call that has gone only while its request / response is outstanding -/
  done_wire : ∀ s c o, st.m.owner s = some c → st.m.pc c = .done o → st.m.closed = false → st.m.wire s ≠ .none

theorem pinv_init (cap : Nat) : PInv (init cap) := by
  constructor
  · exact Mux.inv_init cap
  all_goals simp [init, Mux.init]

set_option maxHeartbeats 1000000 in
theorem pinv_mux (st st' : St) (a : Mux.Act) (h : PInv st) (hs : step st (.mux a) = some st') : PInv st' := by
  obtain ⟨hb, h1, h2, h3, h4, h5⟩ := h
  have hb0 := hb
  obtain ⟨b1, b2, b3, b4, b5, b6, b7, b8, b9, b10, b11⟩ := hb
  cases a with
  | deliver s => simp [step] at hs
  | stray s => simp [step] at hs
  | event => simp [step] at hs
  | acquire c s =>
    simp only [step] at hs
    cases hm : Mux.step st.m (.acquire c s) with
    | none => simp [hm] at hs
    | some m' =>
      have hb' := Mux.inv_step _ _ _ hb0 hm
      simp only [hm, closesTimeout] at hs
      injection hs with hs; subst hs
      simp only [Mux.step] at hm
      split at hm
      · rename_i hc; injection hm with hm; subst hm
        refine ⟨hb', ?_, ?_, ?_, ?_, ?_⟩ <;> simp only [upd] <;> grind
      · simp at hm
  | noStreams c =>
    simp only [step] at hs
    cases hm : Mux.step st.m (.noStreams c) with
    | none => simp [hm] at hs
    | some m' =>
      have hb' := Mux.inv_step _ _ _ hb0 hm
      simp only [hm, closesTimeout] at hs
      injection hs with hs; subst hs
      simp only [Mux.step] at hm
      split at hm
      · rename_i hc; injection hm with hm; subst hm
        refine ⟨hb', ?_, ?_, ?_, ?_, ?_⟩ <;> simp only [upd] <;> grind
      · simp at hm
  | buildFail c =>
    simp only [step] at hs
    cases hm : Mux.step st.m (.buildFail c) with
    | none => simp [hm] at hs
    | some m' =>
      have hb' := Mux.inv_step _ _ _ hb0 hm
      simp only [hm, closesTimeout] at hs
      injection hs with hs; subst hs
      simp only [Mux.step] at hm
      split at hm
      · rename_i s hc; injection hm with hm; subst hm
        refine ⟨hb', ?_, ?_, ?_, ?_, ?_⟩ <;> simp only [upd] <;> grind
      · simp at hm
  | writeCancelled c =>
    simp only [step] at hs
    cases hm : Mux.step st.m (.writeCancelled c) with
    | none => simp [hm] at hs
    | some m' =>
      have hb' := Mux.inv_step _ _ _ hb0 hm
      simp only [hm, closesTimeout] at hs
      injection hs with hs; subst hs
      simp only [Mux.step] at hm
      split at hm
      · rename_i s hc; injection hm with hm; subst hm
        refine ⟨hb', ?_, ?_, ?_, ?_, ?_⟩ <;> simp only [upd] <;> grind
      · simp at hm
  | writeFailed c =>
    simp only [step] at hs
    cases hm : Mux.step st.m (.writeFailed c) with
    | none => simp [hm] at hs
    | some m' =>
      have hb' := Mux.inv_step _ _ _ hb0 hm
      simp only [hm, closesTimeout] at hs
      injection hs with hs; subst hs
      simp only [Mux.step] at hm
      split at hm
      · rename_i s hc; injection hm with hm; subst hm
        refine ⟨hb', ?_, ?_, ?_, ?_, ?_⟩ <;> simp only [upd] <;> grind
      · simp at hm
  | wrote c =>
    simp only [step] at hs
    cases hm : Mux.step st.m (.wrote c) with
    | none => simp [hm] at hs
    | some m' =>
      have hb' := Mux.inv_step _ _ _ hb0 hm
      simp only [hm, closesTimeout] at hs
      injection hs with hs; subst hs
      simp only [Mux.step] at hm
      split at hm
      · rename_i s hc; injection hm with hm; subst hm
        refine ⟨hb', ?_, ?_, ?_, ?_, ?_⟩ <;> simp only [upd] <;> grind
      · simp at hm
  | answer s k w =>
    simp only [step] at hs
    cases hm : Mux.step st.m (.answer s k w) with
    | none => simp [hm] at hs
    | some m' =>
      have hb' := Mux.inv_step _ _ _ hb0 hm
      simp only [hm, closesTimeout] at hs
      injection hs with hs; subst hs
      simp only [Mux.step] at hm
      split at hm
      · rename_i c hc; injection hm with hm; subst hm
        refine ⟨hb', ?_, ?_, ?_, ?_, ?_⟩ <;> simp only [upd] <;> grind
      · simp at hm
  | timeout c =>
    simp only [step] at hs
    cases hm : Mux.step st.m (.timeout c) with
    | none => simp [hm] at hs
    | some m' =>
      have hb' := Mux.inv_step _ _ _ hb0 hm
      simp only [hm, closesTimeout] at hs
      injection hs with hs; subst hs
      simp only [Mux.step] at hm
      split at hm
      · rename_i s hc; injection hm with hm; subst hm
        refine ⟨hb', ?_, ?_, ?_, ?_, ?_⟩ <;> simp only [upd] <;> grind
      · simp at hm
  | cancel c =>
    simp only [step] at hs
    cases hm : Mux.step st.m (.cancel c) with
    | none => simp [hm] at hs
    | some m' =>
      have hb' := Mux.inv_step _ _ _ hb0 hm
      simp only [hm, closesTimeout] at hs
      injection hs with hs; subst hs
      simp only [Mux.step] at hm
      split at hm
      · rename_i s hc; injection hm with hm; subst hm
        refine ⟨hb', ?_, ?_, ?_, ?_, ?_⟩ <;> simp only [upd] <;> grind
      · simp at hm
  | connDone c =>
    simp only [step] at hs
    cases hm : Mux.step st.m (.connDone c) with
    | none => simp [hm] at hs
    | some m' =>
      have hb' := Mux.inv_step _ _ _ hb0 hm
      simp only [hm, closesTimeout] at hs
      injection hs with hs; subst hs
      simp only [Mux.step] at hm
      split at hm
      · rename_i s hc
        split at hm
        · injection hm with hm; subst hm
          refine ⟨hb', ?_, ?_, ?_, ?_, ?_⟩ <;> simp only [upd] <;> grind
        · simp at hm
      · simp at hm
  | close =>
    simp only [step] at hs
    cases hm : Mux.step st.m .close with
    | none => simp [hm] at hs
    | some m' =>
      have hb' := Mux.inv_step _ _ _ hb0 hm
      simp only [hm, closesTimeout] at hs
      injection hs with hs; subst hs
      simp only [Mux.step] at hm
      injection hm with hm; subst hm
      refine ⟨hb', ?_, ?_, ?_, ?_, ?_⟩ <;> grind


macro "close_pinv" : tactic => `(tactic| (
  refine ⟨⟨?_, ?_, ?_, ?_, ?_, ?_, ?_, ?_, ?_, ?_, ?_⟩, ?_, ?_, ?_, ?_, ?_⟩ <;> simp only [upd] <;> grind))

set_option maxHeartbeats 1000000 in
theorem pinv_step (st st' : St) (a : Act) (h : PInv st) (hs : step st a = some st') : PInv st' := by
  cases a with
  | mux a => exact pinv_mux st st' a h hs
  | recvHeader s =>
    obtain ⟨⟨b1, b2, b3, b4, b5, b6, b7, b8, b9, b10, b11⟩, h1, h2, h3, h4, h5⟩ := h
    simp only [step] at hs
    split at hs
    · rename_i c k w hr hw
      split at hs
      · injection hs with hs; subst hs; close_pinv
      · split at hs
        · rename_i d hd; injection hs with hs; subst hs; close_pinv
        · injection hs with hs; subst hs; close_pinv
    · simp at hs
  | recvStray s =>
    obtain ⟨⟨b1, b2, b3, b4, b5, b6, b7, b8, b9, b10, b11⟩, h1, h2, h3, h4, h5⟩ := h
    simp only [step] at hs
    split at hs
    · split at hs
      · split at hs
        · injection hs with hs; subst hs; close_pinv
        · injection hs with hs; subst hs; close_pinv
      · simp at hs
    · simp at hs
  | recvEvent =>
    obtain ⟨⟨b1, b2, b3, b4, b5, b6, b7, b8, b9, b10, b11⟩, h1, h2, h3, h4, h5⟩ := h
    simp only [step] at hs
    split at hs
    · injection hs with hs; subst hs; close_pinv
    · simp at hs
  | recvBody =>
    simp only [step] at hs
    split at hs
    · injection hs with hs; subst hs; exact h
    · injection hs with hs; subst hs; exact h
    · simp at hs
  | recvBodyEnd =>
    obtain ⟨⟨b1, b2, b3, b4, b5, b6, b7, b8, b9, b10, b11⟩, h1, h2, h3, h4, h5⟩ := h
    simp only [step] at hs
    split at hs
    · injection hs with hs; subst hs; close_pinv
    · injection hs with hs; subst hs; close_pinv
    · simp at hs
  | handResp =>
    obtain ⟨⟨b1, b2, b3, b4, b5, b6, b7, b8, b9, b10, b11⟩, h1, h2, h3, h4, h5⟩ := h
    simp only [step] at hs
    split at hs
    · rename_i s d c k w hr
      split at hs
      · rename_i hp; injection hs with hs; subst hs
        have := h1 s d c k w (Or.inr hr)
        close_pinv
      · simp at hs
    · simp at hs
  | handGone =>
    obtain ⟨⟨b1, b2, b3, b4, b5, b6, b7, b8, b9, b10, b11⟩, h1, h2, h3, h4, h5⟩ := h
    simp only [step] at hs
    split at hs
    · rename_i s d c k w hr
      split at hs
      · rename_i hp; injection hs with hs; subst hs
        have := h1 s d c k w (Or.inr hr)
        have := h2 d hp
        close_pinv
      · simp at hs
    · simp at hs
  | handCtx =>
    obtain ⟨⟨b1, b2, b3, b4, b5, b6, b7, b8, b9, b10, b11⟩, h1, h2, h3, h4, h5⟩ := h
    simp only [step] at hs
    split at hs
    · rename_i s d c k w hr
      split at hs
      · rename_i hp; injection hs with hs; subst hs
        have := h1 s d c k w (Or.inr hr)
        close_pinv
      · simp at hs
    · simp at hs
  | recvFail =>
    obtain ⟨⟨b1, b2, b3, b4, b5, b6, b7, b8, b9, b10, b11⟩, h1, h2, h3, h4, h5⟩ := h
    simp only [step] at hs
    split at hs
    · simp at hs
    · simp at hs
    · injection hs with hs; subst hs; close_pinv

theorem pinv_run : ∀ (as : List Act) (s s' : St), PInv s → run s as = some s' → PInv s'
  | [], s, s', h, hr => by simp [run] at hr; subst hr; exact h
  | a :: as, s, s', h, hr => by
    simp only [run] at hr
    split at hr
    · rename_i s1 hs1
      exact pinv_run as s1 s' (pinv_step s s1 a h hs1) hr
    · simp at hr


/-- a finished call never changes its outcome again (fine machine) -/
theorem pdone_step (st st' : St) (a : Act) (c : Nat) (o : Outcome) (hd : st.m.pc c = .done o)
    (hs : step st a = some st') : st'.m.pc c = .done o := by
  cases a with
  | mux a =>
    simp only [step] at hs
    cases a <;> simp only [] at hs <;> first
      | (simp at hs; done)
      | (split at hs
         · rename_i m' hm
           have := Mux.done_step _ _ _ c o hd hm
           split at hs <;> (injection hs with hs; subst hs; exact this)
         · simp at hs)
  | handResp =>
    simp only [step] at hs
    split at hs
    · split at hs
      · injection hs with hs; subst hs; simp only [upd]; grind
      · simp at hs
    · simp at hs
  | handGone =>
    simp only [step] at hs
    split at hs
    · split at hs
      · injection hs with hs; subst hs; exact hd
      · simp at hs
    · simp at hs
  | handCtx =>
    simp only [step] at hs
    split at hs
    · split at hs
      · injection hs with hs; subst hs; exact hd
      · simp at hs
    · simp at hs
  | recvHeader s =>
    simp only [step] at hs
    (repeat' split at hs) <;> first | (simp at hs; done) | (injection hs with hs; subst hs; exact hd)
  | recvStray s =>
    simp only [step] at hs
    (repeat' split at hs) <;> first | (simp at hs; done) | (injection hs with hs; subst hs; exact hd)
  | recvEvent =>
    simp only [step] at hs
    (repeat' split at hs) <;> first | (simp at hs; done) | (injection hs with hs; subst hs; exact hd)
  | recvBody =>
    simp only [step] at hs
    (repeat' split at hs) <;> first | (simp at hs; done) | (injection hs with hs; subst hs; exact hd)
  | recvBodyEnd =>
    simp only [step] at hs
    (repeat' split at hs) <;> first | (simp at hs; done) | (injection hs with hs; subst hs; exact hd)
  | recvFail =>
    simp only [step] at hs
    (repeat' split at hs) <;> first | (simp at hs; done) | (injection hs with hs; subst hs; exact hd)

theorem pdone_run : ∀ (as : List Act) (st st' : St) (c : Nat) (o : Outcome), st.m.pc c = .done o →
    run st as = some st' → st'.m.pc c = .done o
  | [], st, st', c, o, h, hr => by simp [run] at hr; subst hr; exact h
  | a :: as, st, st', c, o, h, hr => by
    simp only [run] at hr
    split at hr
    · rename_i s1 hs1
      exact pdone_run as s1 st' c o (pdone_step st s1 a c o h hs1) hr
    · simp at hr

end MuxPipe
