import Proofs.C19Order
/-! helper lemmas for C19: the long-arithmetic formulation of Cassandra's comparison (`Spec.javaLe`) equals the
    byte formulation (`Spec.cassLe`) on version-1 values. -/
namespace Uuid
open Spec

theorem and_mask (y : Nat) : y &&& 0xFFFF00000000 = (y / 2^32 % 2^16) * 2^32 := by
  apply Nat.eq_of_testBit_eq
  intro i
  have hm : (0xFFFF00000000 : Nat) = (2^16 - 1) <<< 32 := by decide
  rw [Nat.testBit_and, hm, Nat.testBit_shiftLeft, Nat.testBit_two_pow_sub_one]
  rw [← Nat.shiftLeft_eq, Nat.testBit_shiftLeft, Nat.testBit_mod_two_pow, Nat.testBit_div_two_pow]
  by_cases h : 32 ≤ i
  · simp [h]
    by_cases h2 : i - 32 < 16
    · simp [h2]
    · simp [h2]
  · simp [h]

set_option maxRecDepth 100000 in
/-- `reorderTimestampBytes` moves the low 16 bits to the top, the next 16 bits below them, the high 32 bits to the bottom -/
theorem reorder_arith (x : Nat) (hx : x < 2^64) :
    reorderTimestampBytes x = (x % 2^16) * 2^48 + (x / 2^16 % 2^16) * 2^32 + x / 2^32 := by
  unfold reorderTimestampBytes
  rw [and_mask, Nat.shiftLeft_eq, Nat.shiftLeft_eq, Nat.shiftRight_eq_div_pow]
  have e1 : x * 2^48 % 2^64 = (x % 2^16) <<< 48 := by rw [Nat.shiftLeft_eq]; omega
  have e2 : x * 2^16 / 2^32 % 2^16 * 2^32 = (x / 2^16 % 2^16) <<< 32 := by rw [Nat.shiftLeft_eq]; omega
  rw [e1, e2, Nat.or_assoc]
  have l3 : x / 2^32 < 2^32 := by omega
  rw [← Nat.shiftLeft_add_eq_or_of_lt l3]
  have l2 : (x / 2^16 % 2^16) <<< 32 + x / 2^32 < 2^48 := by rw [Nat.shiftLeft_eq]; omega
  have e3 := Nat.shiftLeft_add_eq_or_of_lt l2 (x % 2^16)
  rw [← e3]
  simp only [Nat.shiftLeft_eq, Nat.add_assoc]

set_option maxRecDepth 100000 in
theorem xor80 : ∀ n : Fin 256, n.val ^^^ 128 = (n.val + 128) % 256 := by decide

/-- xor splits at a byte boundary -/
theorem xor_split (x k : Nat) : x ^^^ k = ((x / 256) ^^^ (k / 256)) * 256 + ((x % 256) ^^^ (k % 256)) := by
  have h1 := @Nat.xor_div_two_pow x k 8
  have h2 := @Nat.xor_mod_two_pow x k 8
  have : (x ^^^ k) = (x ^^^ k) / 2^8 * 2^8 + (x ^^^ k) % 2^8 := by omega
  rw [h1, h2] at this
  simpa using this

set_option maxRecDepth 100000 in
theorem xor_step (hi c k : Nat) (hc : c < 256) :
    (hi * 256 + c) ^^^ (k * 256 + 128) = (hi ^^^ k) * 256 + (c + 128) % 256 := by
  rw [xor_split]
  have e1 : (hi * 256 + c) / 256 = hi := by omega
  have e2 : (hi * 256 + c) % 256 = c := by omega
  have e3 : (k * 256 + 128) / 256 = k := by omega
  have e4 : (k * 256 + 128) % 256 = 128 := by omega
  rw [e1, e2, e3, e4]
  have := xor80 ⟨c, hc⟩
  simp only at this
  rw [this]

/-- `x ^ 0x0080808080808080` on a long given by its bytes: the top byte stays, every other byte has its sign bit flipped -/
theorem xor_bytes (c0 c1 c2 c3 c4 c5 c6 c7 : Nat) (h1 : c1 < 256) (h2 : c2 < 256) (h3 : c3 < 256) (h4 : c4 < 256)
    (h5 : c5 < 256) (h6 : c6 < 256) (h7 : c7 < 256) :
    signedBytesToNativeLong (((((((c0 * 256 + c1) * 256 + c2) * 256 + c3) * 256 + c4) * 256 + c5) * 256 + c6) * 256 + c7) =
      ((((((c0 * 256 + (c1 + 128) % 256) * 256 + (c2 + 128) % 256) * 256 + (c3 + 128) % 256) * 256 + (c4 + 128) % 256) * 256
        + (c5 + 128) % 256) * 256 + (c6 + 128) % 256) * 256 + (c7 + 128) % 256 := by
  unfold signedBytesToNativeLong
  have hk : (0x0080808080808080 : Nat) = ((((((0 * 256 + 128) * 256 + 128) * 256 + 128) * 256 + 128) * 256 + 128) * 256 + 128) * 256 + 128 := by
    decide
  rw [hk, xor_step _ c7 _ h7, xor_step _ c6 _ h6, xor_step _ c5 _ h5, xor_step _ c4 _ h4, xor_step _ c3 _ h3,
    xor_step _ c2 _ h2, xor_step _ c1 _ h1]
  simp

/-! ### signed bytes as balanced base-256 digits -/

/-- the value of a list of signed bytes read as base-256 digits -/
def sVal : List UInt8 → Int
  | [] => 0
  | b :: bs => Spec.signed b * 256 ^ bs.length + sVal bs

theorem sVal_bound : ∀ l : List UInt8, -(128 * ((256 : Int) ^ l.length - 1)) ≤ 255 * sVal l ∧
    255 * sVal l ≤ 127 * ((256 : Int) ^ l.length - 1)
  | [] => by simp [sVal]
  | b :: bs => by
    have ih := sVal_bound bs
    have h1 := signed_ge b
    have h2 := signed_le b
    have hp : (0 : Int) < 256 ^ bs.length := Int.pow_pos (by decide)
    simp only [sVal, List.length_cons, Int.pow_succ]
    generalize (256 : Int) ^ bs.length = P at *
    have m1 : -128 * P ≤ Spec.signed b * P := Int.mul_le_mul_of_nonneg_right h1 (Int.le_of_lt hp)
    have m2 : Spec.signed b * P ≤ 127 * P := Int.mul_le_mul_of_nonneg_right h2 (Int.le_of_lt hp)
    generalize Spec.signed b * P = X at *
    omega

/-- lexicographic order on signed bytes = order of the balanced base-256 values -/
theorem sLexLe_iff_sVal : ∀ a b : List UInt8, a.length = b.length → (Spec.sLexLe a b = true ↔ sVal a ≤ sVal b)
  | [], [], _ => by simp [Spec.sLexLe, sVal]
  | [], _ :: _, h => by simp at h
  | _ :: _, [], h => by simp at h
  | a :: as, b :: bs, h => by
    have hl : as.length = bs.length := by simpa using h
    have ih := sLexLe_iff_sVal as bs hl
    have ba := sVal_bound as
    have bb := sVal_bound bs
    have hp : (0 : Int) < 256 ^ bs.length := Int.pow_pos (by decide)
    simp only [Spec.sLexLe, sVal, hl]
    rw [hl] at ba
    generalize (256 : Int) ^ bs.length = P at *
    by_cases h1 : Spec.signed a < Spec.signed b
    · simp only [h1, if_true, true_iff]
      have m : (Spec.signed a + 1) * P ≤ Spec.signed b * P := Int.mul_le_mul_of_nonneg_right (by omega) (Int.le_of_lt hp)
      rw [Int.add_mul] at m
      generalize Spec.signed a * P = X at *
      generalize Spec.signed b * P = Y at *
      omega
    · by_cases h2 : Spec.signed b < Spec.signed a
      · simp only [h1, h2, if_false, if_true, Bool.false_eq_true, false_iff]
        have m : (Spec.signed b + 1) * P ≤ Spec.signed a * P := Int.mul_le_mul_of_nonneg_right (by omega) (Int.le_of_lt hp)
        rw [Int.add_mul] at m
        generalize Spec.signed a * P = X at *
        generalize Spec.signed b * P = Y at *
        omega
      · have e : Spec.signed a = Spec.signed b := by omega
        rw [if_neg h1, if_neg h2, ih, e]
        omega

/-! ### the two halves of `compareCustom` on a 16-byte value -/

theorem toSigned64_small (n : Nat) (h : n < 2 ^ 63) : toSigned64 n = (n : Int) := by
  unfold toSigned64; rw [if_pos h]

/- (omega loops when an equation with 2^48-sized coefficients sits in its context: every fact is proved in a
   context of its own) -/
theorem msb_a1 (A B C : Nat) (lA : A < 4294967296) (lB : B < 65536) (lC : C < 65536) :
    A * 4294967296 + B * 65536 + C < 18446744073709551616 := by omega
theorem msb_a2 (A B C : Nat) (lC : C < 65536) : (A * 4294967296 + B * 65536 + C) % 65536 = C := by omega
theorem msb_a3 (A B C : Nat) (lB : B < 65536) (lC : C < 65536) :
    (A * 4294967296 + B * 65536 + C) / 65536 % 65536 = B := by omega
theorem msb_a4 (A B C : Nat) (lB : B < 65536) (lC : C < 65536) :
    (A * 4294967296 + B * 65536 + C) / 4294967296 = A := by omega
theorem msb_a5 (A B C : Nat) (lA : A < 4294967296) (lB : B < 65536) (hC : C < 8192) :
    C * 281474976710656 + B * 4294967296 + A < 9223372036854775808 := by omega
theorem msb_a6 (A B C : Nat) (h4 : 4096 ≤ C) :
    ((C * 281474976710656 + B * 4294967296 + A : Nat) : Int) =
      ((A + B * 4294967296 + (C - 4096) * 281474976710656 : Nat) : Int) + 1152921504606846976 := by omega

theorem msb_core (A B C : Nat) (lA : A < 4294967296) (lB : B < 65536) (hver : C / 4096 = 1) :
    toSigned64 (reorderTimestampBytes (A * 4294967296 + B * 65536 + C)) =
      ((A + B * 4294967296 + (C % 4096) * 281474976710656 : Nat) : Int) + 2 ^ 60 := by
  have h4 : 4096 ≤ C := by omega
  have hC : C < 8192 := by omega
  have hmod : C % 4096 = C - 4096 := by omega
  have lC : C < 65536 := by omega
  rw [hmod, reorder_arith _ (msb_a1 A B C lA lB lC)]
  simp only [Nat.reducePow]
  rw [msb_a2 A B C lC, msb_a3 A B C lB lC, msb_a4 A B C lB lC, toSigned64_small _ (msb_a5 A B C lA lB hC)]
  exact msb_a6 A B C h4

set_option maxRecDepth 100000 in
/-- the reordered most significant long of a version-1 value is `2^60 + timestamp` -/
theorem msb_eq (u : List UInt8) (hl : u.length = 16) (hv : version u = 1) :
    toSigned64 (reorderTimestampBytes (getLong u 0)) = (rfcTimestamp u : Int) + 2 ^ 60 := by
  have hv' := version_eq_rfc u hl
  rw [hv] at hv'
  obtain ⟨b0, b1, b2, b3, b4, b5, b6, b7, b8, b9, b10, b11, b12, b13, b14, b15, rfl⟩ := list16 u hl
  have := b0.toNat_lt; have := b1.toNat_lt; have := b2.toNat_lt; have := b3.toNat_lt
  have := b4.toNat_lt; have := b5.toNat_lt; have := b6.toNat_lt; have := b7.toNat_lt
  have hX : getLong [b0, b1, b2, b3, b4, b5, b6, b7, b8, b9, b10, b11, b12, b13, b14, b15] 0 =
      (b0.toNat * 16777216 + b1.toNat * 65536 + b2.toNat * 256 + b3.toNat) * 4294967296 +
        (b4.toNat * 256 + b5.toNat) * 65536 + (b6.toNat * 256 + b7.toNat) := by
    simp [getLong, be]; omega
  have hts : rfcTimestamp [b0, b1, b2, b3, b4, b5, b6, b7, b8, b9, b10, b11, b12, b13, b14, b15] =
      (b0.toNat * 16777216 + b1.toNat * 65536 + b2.toNat * 256 + b3.toNat) + (b4.toNat * 256 + b5.toNat) * 4294967296 +
        ((b6.toNat * 256 + b7.toNat) % 4096) * 281474976710656 := by
    simp [rfcTimestamp, timeLow, timeMid, timeHiAndVersion, be]; omega
  have hver : (b6.toNat * 256 + b7.toNat) / 4096 = 1 := by
    simp [rfcVersion, timeHiAndVersion, be] at hv'; omega
  rw [hX, hts]
  exact msb_core _ _ _ (by omega) (by omega) hver

theorem signed_flip (c : UInt8) : (((c.toNat + 128) % 256 : Nat) : Int) = Spec.signed c + 128 := by
  have := c.toNat_lt
  unfold Spec.signed
  split <;> omega

set_option maxRecDepth 100000 in
/-- the sign-adjusted least significant long is the balanced base-256 value of the low 8 bytes, plus a constant -/
theorem lsb_eq (u : List UInt8) (hl : u.length = 16) :
    toSigned64 (signedBytesToNativeLong (getLong u 8)) = sVal (u.drop 8) + 0x0080808080808080 := by
  obtain ⟨b0, b1, b2, b3, b4, b5, b6, b7, b8, b9, b10, b11, b12, b13, b14, b15, rfl⟩ := list16 u hl
  have := b8.toNat_lt; have h9 := b9.toNat_lt; have h10 := b10.toNat_lt; have h11 := b11.toNat_lt
  have h12 := b12.toNat_lt; have h13 := b13.toNat_lt; have h14 := b14.toNat_lt; have h15 := b15.toNat_lt
  have hX : getLong [b0, b1, b2, b3, b4, b5, b6, b7, b8, b9, b10, b11, b12, b13, b14, b15] 8 =
      ((((((b8.toNat * 256 + b9.toNat) * 256 + b10.toNat) * 256 + b11.toNat) * 256 + b12.toNat) * 256 + b13.toNat) * 256
        + b14.toNat) * 256 + b15.toNat := by
    simp [getLong, be]; omega
  rw [hX, xor_bytes _ _ _ _ _ _ _ _ h9 h10 h11 h12 h13 h14 h15]
  have f9 := signed_flip b9; have f10 := signed_flip b10; have f11 := signed_flip b11; have f12 := signed_flip b12
  have f13 := signed_flip b13; have f14 := signed_flip b14; have f15 := signed_flip b15
  have m9 := Nat.mod_lt (b9.toNat + 128) (by decide : 0 < 256)
  have m10 := Nat.mod_lt (b10.toNat + 128) (by decide : 0 < 256)
  have m11 := Nat.mod_lt (b11.toNat + 128) (by decide : 0 < 256)
  have m12 := Nat.mod_lt (b12.toNat + 128) (by decide : 0 < 256)
  have m13 := Nat.mod_lt (b13.toNat + 128) (by decide : 0 < 256)
  have m14 := Nat.mod_lt (b14.toNat + 128) (by decide : 0 < 256)
  have m15 := Nat.mod_lt (b15.toNat + 128) (by decide : 0 < 256)
  generalize (b9.toNat + 128) % 256 = d9 at *
  generalize (b10.toNat + 128) % 256 = d10 at *
  generalize (b11.toNat + 128) % 256 = d11 at *
  generalize (b12.toNat + 128) % 256 = d12 at *
  generalize (b13.toNat + 128) % 256 = d13 at *
  generalize (b14.toNat + 128) % 256 = d14 at *
  generalize (b15.toNat + 128) % 256 = d15 at *
  have hs8 : Spec.signed b8 = if b8.toNat < 128 then (b8.toNat : Int) else (b8.toNat : Int) - 256 := rfl
  simp only [List.drop_succ_cons, List.drop_zero, sVal, List.length_cons, List.length_nil]
  unfold toSigned64
  split <;> (split at hs8 <;> omega)

theorem drop8_length (u : List UInt8) (hl : u.length = 16) : (u.drop 8).length = 8 := by simp [hl]

set_option maxRecDepth 100000 in
/-- the long-arithmetic formulation and the byte formulation of Cassandra's comparison agree on version-1 values -/
theorem java_agree (u v : List UInt8) (hu : u.length = 16) (hv : v.length = 16)
    (vu : version u = 1) (vv : version v = 1) : Spec.javaLe u v = Spec.cassLe u v := by
  unfold Spec.javaLe Spec.cassLe
  simp only [msb_eq u hu vu, msb_eq v hv vv, lsb_eq u hu, lsb_eq v hv]
  have hi := sLexLe_iff_sVal (u.drop 8) (v.drop 8) (by rw [drop8_length u hu, drop8_length v hv])
  by_cases h1 : rfcTimestamp u < rfcTimestamp v
  · rw [if_pos (by omega), if_pos h1]
  · by_cases h2 : rfcTimestamp v < rfcTimestamp u
    · rw [if_neg (by omega), if_pos (by omega), if_neg h1, if_pos h2]
    · rw [if_neg (by omega), if_neg (by omega), if_neg h1, if_neg h2]
      cases hs : Spec.sLexLe (u.drop 8) (v.drop 8)
      · have : ¬ sVal (u.drop 8) ≤ sVal (v.drop 8) := by rw [← hi, hs]; simp
        simp; omega
      · have : sVal (u.drop 8) ≤ sVal (v.drop 8) := hi.mp hs
        simp; omega

end Uuid
