import Model.PagingWalk
import Proofs.C15Hist
import Proofs.C15Cancel
/-! helper lemmas for the walk model of C15 (`Model/PagingWalk.lean`): every step of a walk keeps
    (a) what the iterator has delivered plus what it will still deliver (`Hist.tot`), and (b) the relation
    between the asynchronous prefetch and the consumer's position on the current page. -/
namespace Paging.Walk
open Paging Paging.Hist

/-- delivered + still to come = the query run alone; contexts alive -/
def WInv (ppOf : Int → Nat → Nat) (w : W) : Prop :=
  w.env.cancelled = [] ∧ tot ppOf w.it = target ppOf w.it

theorem winv_of_same (ppOf : Int → Nat → Nat) (w : W) (x : It) (e : Env) (a : Async)
    (hw : WInv ppOf w) (hx : Same ppOf x w.it) (he : e.cancelled = []) : WInv ppOf { it := x, env := e, async := a } := by
  refine ⟨he, ?_⟩
  show tot ppOf x = target ppOf x
  rw [hx.1, target_of_same hx]; exact hw.2

theorem scan1_winv (ppOf : Int → Nat → Nat) (api : Api) (w : W) (hw : WInv ppOf w) :
    WInv ppOf (scan1 ppOf api w).1 := by
  have h := scanF_same ppOf (scanFuel w.it) w.env w.it hw.1
  exact winv_of_same ppOf w _ _ _ hw h.1 h.2

theorem scanK_winv (ppOf : Int → Nat → Nat) (api : Api) : ∀ (k : Nat) (w : W), WInv ppOf w →
    WInv ppOf (scanK ppOf api k w).1 := by
  intro k
  induction k with
  | zero => intro w hw; exact hw
  | succ k ih =>
    intro w hw
    unfold scanK
    have h1 := scan1_winv ppOf api w hw
    simp only []
    split
    · exact ih _ h1
    · exact h1

theorem arrive_winv (ppOf : Int → Nat → Nat) (w : W) (hw : WInv ppOf w) : WInv ppOf (arrive ppOf w) := by
  unfold arrive
  split
  · have h := force_same ppOf w.env hw.1 w.it
    exact winv_of_same ppOf w _ _ _ hw h.1 h.2.1
  · exact hw

theorem await_winv (ppOf : Int → Nat → Nat) (w : W) (hw : WInv ppOf w) : WInv ppOf (await ppOf w).1 := by
  unfold await
  cases w.it.cur.next with
  | none => exact hw
  | some n =>
    simp only []
    cases ha : w.async with
    | idle => exact ⟨hw.1, hw.2⟩
    | launched =>
      have h := force_same ppOf w.env hw.1 w.it
      exact winv_of_same ppOf w _ _ _ hw h.1 h.2.1
    | disarmed => exact hw
    | awaited => exact hw

theorem step_winv (ppOf : Int → Nat → Nat) (w : W) (s : Step) (hw : WInv ppOf w) : WInv ppOf (step ppOf w s) := by
  cases s with
  | scan api k => exact scanK_winv ppOf api k w hw
  | observe => exact hw
  | await => exact await_winv ppOf w hw
  | arrive => exact arrive_winv ppOf w hw

theorem exec_winv (ppOf : Int → Nat → Nat) : ∀ (steps : List Step) (w : W), WInv ppOf w → WInv ppOf (exec ppOf w steps) := by
  intro steps
  induction steps with
  | nil => intro w hw; exact hw
  | cons s rest ih => intro w hw; exact ih _ (step_winv ppOf w s hw)

theorem start_winv (ppOf : Int → Nat → Nat) (script : List Reply) (q : Qry) : WInv ppOf (start ppOf script q) := by
  have h := startIter_inv (fun _ _ => script) ppOf env0 rfl q
  exact ⟨h.2, h.1⟩

theorem start_target (ppOf : Int → Nat → Nat) (script : List Reply) (q : Qry) :
    target ppOf (start ppOf script q).it = obs3 (run (ppOf q.pf) script false q) := rfl

/-- snapshot and script of the iterator never change -/
theorem exec_target (ppOf : Int → Nat → Nat) : ∀ (steps : List Step) (w : W), w.env.cancelled = [] →
    target ppOf (exec ppOf w steps).it = target ppOf w.it ∧ (exec ppOf w steps).env.cancelled = [] := by
  intro steps
  induction steps with
  | nil => intro w h; exact ⟨rfl, h⟩
  | cons s rest ih =>
    intro w h
    have key : target ppOf (step ppOf w s).it = target ppOf w.it ∧ (step ppOf w s).env.cancelled = [] := by
      cases s with
      | scan api k =>
        show target ppOf (scanK ppOf api k w).1.it = target ppOf w.it ∧ (scanK ppOf api k w).1.env.cancelled = []
        revert w
        induction k with
        | zero => intro w h; exact ⟨rfl, h⟩
        | succ k ihk =>
          intro w h
          have hs := scanF_same ppOf (scanFuel w.it) w.env w.it h
          unfold scanK
          simp only []
          split
          · have h2 := ihk (scan1 ppOf api w).1 hs.2
            exact ⟨h2.1.trans (target_of_same hs.1), h2.2⟩
          · exact ⟨target_of_same hs.1, hs.2⟩
      | observe => exact ⟨rfl, h⟩
      | await =>
        show target ppOf (await ppOf w).1.it = target ppOf w.it ∧ (await ppOf w).1.env.cancelled = []
        unfold await
        cases w.it.cur.next with
        | none => exact ⟨rfl, h⟩
        | some n =>
          simp only []
          cases w.async with
          | idle => exact ⟨rfl, h⟩
          | launched =>
            have hf := force_same ppOf w.env h w.it
            exact ⟨target_of_same hf.1, hf.2.1⟩
          | disarmed => exact ⟨rfl, h⟩
          | awaited => exact ⟨rfl, h⟩
      | arrive =>
        show target ppOf (arrive ppOf w).it = target ppOf w.it ∧ (arrive ppOf w).env.cancelled = []
        unfold arrive
        split
        · have hf := force_same ppOf w.env h w.it
          exact ⟨target_of_same hf.1, hf.2.1⟩
        · exact ⟨rfl, h⟩
    have h2 := ih (step ppOf w s) key.2
    exact ⟨h2.1.trans key.1, h2.2⟩

/-! ### the prefetch and the consumer's position -/

/-- the next page has been fetched ahead of the switch only by a prefetch that Iter.Scan launched, and Scan
    launched it only after the consumer had passed the threshold of the current page -/
def TInv (w : W) : Prop :=
  (w.it.pre.isSome → (w.async = .launched ∨ w.async = .awaited)) ∧
  ((w.async = .launched ∨ w.async = .awaited) → ∃ n, w.it.cur.next = some n ∧ n.pos < w.it.cur.pos)

/-- once the iterator has left a page, nothing is fetched ahead until a trigger fires -/
theorem scanF_pre_none (ppOf : Int → Nat → Nat) : ∀ (k : Nat) (e : Env) (it : It), it.pre = none →
    (scanF ppOf k e it).1.pre = none := by
  intro k
  induction k with
  | zero => intro e it h; simpa [scanF] using h
  | succ k ih =>
    intro e it h
    unfold scanF
    cases hs : scanRow it.cur with
    | some rc => obtain ⟨r, c'⟩ := rc; simpa using h
    | none =>
      simp only []
      cases he : it.cur.err with
      | some f => simpa using h
      | none =>
        simp only []
        cases hn : it.cur.next with
        | none => simpa using h
        | some n =>
          simp only []
          cases hp : (force ppOf e it).1.pre with
          | none => simpa using hp
          | some nx => simp only []; exact ih _ _ rfl

theorem scanF_leaves (ppOf : Int → Nat → Nat) (k : Nat) (e : Env) (it : It) (h : leaves it = true) :
    (scanF ppOf (k + 1) e it).1.pre = none := by
  unfold leaves at h
  simp only [Bool.and_eq_true, Option.isNone_iff_eq_none, Option.isSome_iff_exists] at h
  obtain ⟨⟨hs, he⟩, n, hn⟩ := h
  unfold scanF
  simp only [hs, he, hn]
  cases hp : (force ppOf e it).1.pre with
  | none => simpa using hp
  | some nx => simp only []; exact scanF_pre_none ppOf k _ _ rfl

theorem scanF_stays (ppOf : Int → Nat → Nat) (k : Nat) (e : Env) (it : It) (h : leaves it = false) :
    scanF ppOf (k + 1) e it =
      match scanRow it.cur with
      | some (r, c') => ({ it with cur := c', out := it.out ++ [r] }, e, true)
      | none => (it, e, false) := by
  unfold scanF
  cases hs : scanRow it.cur with
  | some rc => rfl
  | none =>
    simp only []
    cases he : it.cur.err with
    | some f => rfl
    | none =>
      simp only []
      cases hn : it.cur.next with
      | none => rfl
      | some n => simp [leaves, hs, he, hn] at h

theorem scanRow_next (c c' : Iter) (r : Int) (h : scanRow c = some (r, c')) : c'.next = c.next ∧ c'.pos = c.pos + 1 := by
  unfold scanRow at h
  cases he : c.err with
  | some e => simp [he] at h
  | none =>
    simp only [he] at h
    cases hr : c.rows[c.pos]? with
    | none => simp [hr] at h
    | some r' =>
      simp only [hr] at h
      injection h with h; injection h with h1 h2
      subst h2
      exact ⟨rfl, rfl⟩

theorem trigger_cases (api : Api) (c : Iter) (a : Async) :
    trigger api c a = a ∨ (a = .idle ∧ trigger api c a = .launched ∧ ∃ n, c.next = some n ∧ n.pos < c.pos) := by
  unfold trigger
  cases api with
  | scanner => left; rfl
  | scan =>
    cases hn : c.next with
    | none => left; rfl
    | some n =>
      simp only []
      split
      · rename_i hc; right; exact ⟨hc.2, rfl, n, rfl, hc.1⟩
      · left; rfl

theorem scan1_tinv (ppOf : Int → Nat → Nat) (api : Api) (w : W) (hw : TInv w) : TInv (scan1 ppOf api w).1 := by
  unfold scan1
  have hfuel : scanFuel w.it = (w.it.rest.length + 2) + 1 := rfl
  cases hl : leaves w.it with
  | true =>
    have hp := scanF_leaves ppOf (w.it.rest.length + 2) w.env w.it hl
    rw [hfuel]
    simp only [if_true]
    refine ⟨?_, ?_⟩
    · intro h; simp [hp] at h
    · intro h
      split at h
      · rcases trigger_cases api (scanF ppOf (w.it.rest.length + 2 + 1) w.env w.it).1.cur Async.idle with ht | ⟨_, _, hn⟩
        · rw [ht] at h; rcases h with h | h <;> cases h
        · exact hn
      · rcases h with h | h <;> cases h
  | false =>
    rw [hfuel, scanF_stays ppOf _ w.env w.it hl]
    simp only [Bool.false_eq_true, if_false]
    cases hs : scanRow w.it.cur with
    | none => exact hw
    | some rc =>
      obtain ⟨r, c'⟩ := rc
      have hc := scanRow_next _ _ _ hs
      simp only [if_true]
      rcases trigger_cases api c' w.async with ht | ⟨hidle, ht, hn⟩
      · rw [ht]
        refine ⟨hw.1, ?_⟩
        intro h
        obtain ⟨n, hn, hlt⟩ := hw.2 h
        exact ⟨n, by rw [hc.1]; exact hn, by rw [hc.2]; omega⟩
      · rw [ht]
        exact ⟨fun _ => Or.inl rfl, fun _ => hn⟩

theorem scanK_tinv (ppOf : Int → Nat → Nat) (api : Api) : ∀ (k : Nat) (w : W), TInv w → TInv (scanK ppOf api k w).1 := by
  intro k
  induction k with
  | zero => intro w hw; exact hw
  | succ k ih =>
    intro w hw
    unfold scanK
    have h1 := scan1_tinv ppOf api w hw
    simp only []
    split
    · exact ih _ h1
    · exact h1

theorem force_cur (ppOf : Int → Nat → Nat) (e : Env) (it : It) : (force ppOf e it).1.cur = it.cur := by
  unfold force
  cases it.cur.err <;> cases it.pre <;> cases it.cur.next <;> rfl

theorem arrive_tinv (ppOf : Int → Nat → Nat) (w : W) (hw : TInv w) : TInv (arrive ppOf w) := by
  unfold arrive
  split
  · rename_i ha
    refine ⟨fun _ => Or.inl ha, ?_⟩
    intro h
    have := hw.2 h
    simpa [force_cur] using this
  · exact hw

theorem await_tinv (ppOf : Int → Nat → Nat) (w : W) (hw : TInv w) : TInv (await ppOf w).1 := by
  unfold await
  cases hn : w.it.cur.next with
  | none => exact hw
  | some n =>
    simp only []
    cases ha : w.async with
    | idle =>
      refine ⟨?_, ?_⟩
      · intro h
        have := hw.1 h
        rw [ha] at this
        rcases this with h | h <;> cases h
      · intro h; rcases h with h | h <;> cases h
    | launched =>
      refine ⟨fun _ => Or.inr rfl, ?_⟩
      intro _
      have := hw.2 (Or.inl ha)
      simpa [force_cur] using this
    | disarmed => exact hw
    | awaited => exact hw

theorem step_tinv (ppOf : Int → Nat → Nat) (w : W) (s : Step) (hw : TInv w) : TInv (step ppOf w s) := by
  cases s with
  | scan api k => exact scanK_tinv ppOf api k w hw
  | observe => exact hw
  | await => exact await_tinv ppOf w hw
  | arrive => exact arrive_tinv ppOf w hw

theorem exec_tinv (ppOf : Int → Nat → Nat) : ∀ (steps : List Step) (w : W), TInv w → TInv (exec ppOf w steps) := by
  intro steps
  induction steps with
  | nil => intro w hw; exact hw
  | cons s rest ih => intro w hw; exact ih _ (step_tinv ppOf w s hw)

theorem start_tinv (ppOf : Int → Nat → Nat) (script : List Reply) (q : Qry) : TInv (start ppOf script q) := by
  refine ⟨?_, ?_⟩
  · intro h; simp [start, startIter] at h
  · intro h; rcases h with h | h <;> simp [start] at h

/-! ### strides against the specification -/

theorem force_out (ppOf : Int → Nat → Nat) (e : Env) (it : It) : (force ppOf e it).1.out = it.out := by
  unfold force
  cases it.cur.err <;> cases it.pre <;> cases it.cur.next <;> rfl

/-- a call that returns true has handed over exactly one more row; one that returns false none -/
theorem scanF_out (ppOf : Int → Nat → Nat) : ∀ (k : Nat) (e : Env) (it : It),
    ((scanF ppOf k e it).2.2 = true → ∃ r, (scanF ppOf k e it).1.out = it.out ++ [r]) ∧
    ((scanF ppOf k e it).2.2 = false → (scanF ppOf k e it).1.out = it.out) := by
  intro k
  induction k with
  | zero => intro e it; simp [scanF]
  | succ k ih =>
    intro e it
    unfold scanF
    cases hs : scanRow it.cur with
    | some rc => obtain ⟨r, c'⟩ := rc; simp
    | none =>
      simp only []
      cases he : it.cur.err with
      | some f => simp
      | none =>
        simp only []
        cases hn : it.cur.next with
        | none => simp
        | some n =>
          simp only []
          cases hp : (force ppOf e it).1.pre with
          | none => simp [force_out]
          | some nx =>
            simp only []
            have h := ih (force ppOf e it).2 { (force ppOf e it).1 with cur := nx, pre := none }
            simpa [force_out] using h

/-- the result of the query: the rows the specification lists for the script -/
def J (ppOf : Int → Nat → Nat) (R : List Int) (w : W) : Prop := WInv ppOf w ∧ (target ppOf w.it).1 = R

theorem J_prefix {ppOf : Int → Nat → Nat} {R : List Int} {w : W} (h : J ppOf R w) : w.it.out <+: R := by
  have h1 := h.1.2
  rw [← h.2, ← h1]
  exact ⟨_, rfl⟩

theorem J_of_same (ppOf : Int → Nat → Nat) (R : List Int) (w : W) (x : It) (e : Env) (a : Async)
    (hw : J ppOf R w) (hx : Same ppOf x w.it) (he : e.cancelled = []) : J ppOf R { it := x, env := e, async := a } :=
  ⟨winv_of_same ppOf w x e a hw.1 hx he, by show (target ppOf x).1 = R; rw [target_of_same hx]; exact hw.2⟩

theorem scan1_spec (ppOf : Int → Nat → Nat) (api : Api) (R : List Int) (w : W) (hw : J ppOf R w) :
    J ppOf R (scan1 ppOf api w).1 ∧
    ((scan1 ppOf api w).2 = true → (scan1 ppOf api w).1.it.out.length = w.it.out.length + 1 ∧ w.it.out.length < R.length) ∧
    ((scan1 ppOf api w).2 = false → (scan1 ppOf api w).1.it.out = w.it.out ∧ w.it.out.length = R.length) := by
  have hsame := scanF_same ppOf (scanFuel w.it) w.env w.it hw.1.1
  have hj : J ppOf R (scan1 ppOf api w).1 := J_of_same ppOf R w _ _ _ hw hsame.1 hsame.2
  have ho := scanF_out ppOf (scanFuel w.it) w.env w.it
  refine ⟨hj, ?_, ?_⟩
  · intro ht
    obtain ⟨r, hr⟩ := ho.1 ht
    have hlen : (scan1 ppOf api w).1.it.out.length = w.it.out.length + 1 := by
      show (scanF ppOf (scanFuel w.it) w.env w.it).1.out.length = _
      rw [hr]; simp
    refine ⟨hlen, ?_⟩
    have := (J_prefix hj).length_le
    omega
  · intro hf
    have hout : (scan1 ppOf api w).1.it.out = w.it.out := ho.2 hf
    refine ⟨hout, ?_⟩
    have hfin : finished (scan1 ppOf api w).1.it := scanF_fuel ppOf w.env w.it hf
    have ht := tot_finished ppOf _ hfin
    have h1 := hj.1.2
    rw [ht] at h1
    have h2 := hj.2
    rw [← h1] at h2
    simp only at h2
    rw [← hout, h2]

theorem scanK_spec (ppOf : Int → Nat → Nat) (api : Api) (R : List Int) : ∀ (k : Nat) (w : W), J ppOf R w →
    J ppOf R (scanK ppOf api k w).1 ∧
    (scanK ppOf api k w).1.it.out.length = min (w.it.out.length + k) R.length ∧
    (scanK ppOf api k w).2 = decide (w.it.out.length + k ≤ R.length) := by
  intro k
  induction k with
  | zero =>
    intro w hw
    have := (J_prefix hw).length_le
    refine ⟨hw, ?_, ?_⟩
    · show w.it.out.length = _; omega
    · show true = _; simp; omega
  | succ k ih =>
    intro w hw
    have h1 := scan1_spec ppOf api R w hw
    unfold scanK
    simp only []
    cases hb : (scan1 ppOf api w).2 with
    | true =>
      simp only [if_true]
      have h2 := ih _ h1.1
      have h3 := h1.2.1 hb
      refine ⟨h2.1, ?_, ?_⟩
      · rw [h2.2.1, h3.1]; congr 1; omega
      · rw [h2.2.2, h3.1]; congr 1; apply propext; constructor <;> intro h <;> omega
    | false =>
      simp only [Bool.false_eq_true, if_false]
      have h3 := h1.2.2 hb
      refine ⟨h1.1, ?_, ?_⟩
      · rw [h3.1]; omega
      · rw [hb]; symm; simp; omega

theorem await_J (ppOf : Int → Nat → Nat) (R : List Int) (w : W) (hw : J ppOf R w) :
    J ppOf R (await ppOf w).1 ∧ (await ppOf w).1.it.out = w.it.out := by
  unfold await
  cases w.it.cur.next with
  | none => exact ⟨hw, rfl⟩
  | some n =>
    simp only []
    cases ha : w.async with
    | idle => exact ⟨⟨⟨hw.1.1, hw.1.2⟩, hw.2⟩, rfl⟩
    | launched =>
      have h := force_same ppOf w.env hw.1.1 w.it
      exact ⟨J_of_same ppOf R w _ _ _ hw h.1 h.2.1, force_out ppOf w.env w.it⟩
    | disarmed => exact ⟨hw, rfl⟩
    | awaited => exact ⟨hw, rfl⟩

theorem arrive_J (ppOf : Int → Nat → Nat) (R : List Int) (w : W) (hw : J ppOf R w) :
    J ppOf R (arrive ppOf w) ∧ (arrive ppOf w).it.out = w.it.out := by
  unfold arrive
  split
  · have h := force_same ppOf w.env hw.1.1 w.it
    exact ⟨J_of_same ppOf R w _ _ _ hw h.1 h.2.1, force_out ppOf w.env w.it⟩
  · exact ⟨hw, rfl⟩

theorem take_drop_stride (R : List Int) (c k : Nat) (out' : List Int) (hp : out' <+: R)
    (hl : out'.length = min (c + k) R.length) : out'.drop c = (R.drop c).take k := by
  have he : out' = R.take (min (c + k) R.length) := by
    rw [← hl]; exact (List.prefix_iff_eq_take.1 hp)
  rw [he, List.drop_take]
  rcases Nat.le_total (c + k) R.length with h | h
  · rw [Nat.min_eq_left h]; congr 1; omega
  · rw [Nat.min_eq_right h]
    rw [List.take_of_length_le (by simp), List.take_of_length_le (by simp; omega)]

theorem strideLog_spec (ppOf : Int → Nat → Nat) (R : List Int) : ∀ (steps : List Step) (w : W), J ppOf R w →
    strideLog ppOf w steps = Spec.strides R w.it.out.length (strideKs steps) := by
  intro steps
  induction steps with
  | nil => intro w _; rfl
  | cons s rest ih =>
    intro w hw
    cases s with
    | scan api k =>
      have h := scanK_spec ppOf api R k w hw
      simp only [strideLog, strideKs, Spec.strides]
      rw [ih _ h.1, h.2.1, h.2.2, take_drop_stride R w.it.out.length k _ (J_prefix h.1) h.2.1]
    | observe => exact ih w hw
    | await =>
      have h := await_J ppOf R w hw
      simp only [strideLog, strideKs, step]
      rw [ih _ h.1, h.2]
    | arrive =>
      have h := arrive_J ppOf R w hw
      simp only [strideLog, strideKs, step]
      rw [ih _ h.1, h.2]

/-! ### walks with cancellation: the invariant `Hist.K` -/

/-- K for the iterator's own result, which never changes -/
def WK (ppOf : Int → Nat → Nat) (T : List Int × List Req × Option Fail) (w : W) : Prop := K ppOf T w.it

theorem scanK_WK (ppOf : Int → Nat → Nat) (api : Api) (T : List Int × List Req × Option Fail) : ∀ (k : Nat) (w : W),
    WK ppOf T w → WK ppOf T (scanK ppOf api k w).1 := by
  intro k
  induction k with
  | zero => intro w hw; exact hw
  | succ k ih =>
    intro w hw
    unfold scanK
    have h1 : WK ppOf T (scan1 ppOf api w).1 := scanF_K ppOf T (scanFuel w.it) w.env w.it hw
    simp only []
    split
    · exact ih _ h1
    · exact h1

theorem step_WK (ppOf : Int → Nat → Nat) (T : List Int × List Req × Option Fail) (w : W) (s : Step)
    (hw : WK ppOf T w) : WK ppOf T (step ppOf w s) := by
  cases s with
  | scan api k => exact scanK_WK ppOf api T k w hw
  | observe => exact hw
  | await =>
    show K ppOf T (await ppOf w).1.it
    unfold await
    cases w.it.cur.next with
    | none => exact hw
    | some n =>
      simp only []
      cases w.async with
      | idle => exact hw
      | launched => exact force_K ppOf T w.env w.it hw
      | disarmed => exact hw
      | awaited => exact hw
  | arrive =>
    show K ppOf T (arrive ppOf w).it
    unfold arrive
    split
    · exact force_K ppOf T w.env w.it hw
    · exact hw

theorem execX_WK (ppOf : Int → Nat → Nat) (T : List Int × List Req × Option Fail) : ∀ (steps : List StepX) (w : W),
    WK ppOf T w → WK ppOf T (execX ppOf w steps) := by
  intro steps
  induction steps with
  | nil => intro w hw; exact hw
  | cons s rest ih =>
    intro w hw
    apply ih
    cases s with
    | base s => exact step_WK ppOf T w s hw
    | cancel c => exact hw

theorem start_WK (ppOf : Int → Nat → Nat) (script : List Reply) (q : Qry) :
    WK ppOf (obs3 (run (ppOf q.pf) script false q)) (start ppOf script q) := by
  have h := startIter_K (fun _ _ => script) ppOf env0 q
  exact h

/-- every page an executeQuery returns starts at position 0 -/
theorem connExec_pos0 (pp : Nat → Nat) : ∀ (script : List Reply) (c : Bool) (q : Qry), (connExec pp script c q).iter.pos = 0 := by
  intro script
  induction script with
  | nil => intro c q; rfl
  | cons r rest ih =>
    intro c q
    cases r with
    | unprepared => simpa [connExec] using ih false q
    | fail f => rfl
    | page rows st => rfl

/-! ### the converse: Iter.Scan launches the prefetch as soon as the threshold is passed -/

/-- walks through Iter.Scan / MapScan only, with observers and the scheduler (no Scanner strides, no probes) -/
def scanOnly : Step → Prop
  | .scan .scan _ => True
  | .observe => True
  | .arrive => True
  | _ => False

def CInv (w : W) : Prop :=
  (w.async = .idle ∨ w.async = .launched) ∧
  (∀ n, w.it.cur.err = none → w.it.cur.next = some n → n.pos < w.it.cur.pos → w.async = .launched)

theorem trigger_scan (c : Iter) (n : NextIter) (a : Async) (hn : c.next = some n) :
    trigger .scan c a = if n.pos < c.pos ∧ a = .idle then .launched else a := by
  simp [trigger, hn]

theorem scanRow_err (c c' : Iter) (r : Int) (h : scanRow c = some (r, c')) : c.err = none ∧ c'.err = none := by
  unfold scanRow at h
  cases he : c.err with
  | some e => simp [he] at h
  | none =>
    simp only [he] at h
    cases hr : c.rows[c.pos]? with
    | none => simp [hr] at h
    | some r' =>
      simp only [hr] at h
      injection h with h; injection h with h1 h2
      subst h2
      exact ⟨rfl, rfl⟩

theorem scan1_cinv (ppOf : Int → Nat → Nat) (w : W) (hw : CInv w) : CInv (scan1 ppOf .scan w).1 := by
  unfold scan1
  have hfuel : scanFuel w.it = (w.it.rest.length + 2) + 1 := rfl
  cases hl : leaves w.it with
  | true =>
    simp only [if_true]
    cases hb : (scanF ppOf (scanFuel w.it) w.env w.it).2.2 with
    | true =>
      simp only [if_true]
      refine ⟨?_, ?_⟩
      · rcases trigger_cases .scan (scanF ppOf (scanFuel w.it) w.env w.it).1.cur Async.idle with ht | ⟨_, ht, _⟩
        · left; exact ht
        · right; exact ht
      · intro n _ hn hlt
        rw [trigger_scan _ n _ hn]
        simp [hlt]
    | false =>
      simp only [Bool.false_eq_true, if_false]
      refine ⟨Or.inl rfl, ?_⟩
      intro n he hn _
      have hfin : finished (scanF ppOf (scanFuel w.it) w.env w.it).1 := scanF_fuel ppOf w.env w.it hb
      unfold finished at hfin
      rcases hfin with h | ⟨_, h⟩
      · rw [he] at h; cases h
      · rw [h] at hn; cases hn
  | false =>
    rw [hfuel, scanF_stays ppOf _ w.env w.it hl]
    simp only [Bool.false_eq_true, if_false]
    cases hs : scanRow w.it.cur with
    | none => exact hw
    | some rc =>
      obtain ⟨r, c'⟩ := rc
      have hc := scanRow_next _ _ _ hs
      have he := scanRow_err _ _ _ hs
      simp only [if_true]
      refine ⟨?_, ?_⟩
      · rcases trigger_cases .scan c' w.async with ht | ⟨_, ht, _⟩
        · rw [ht]; exact hw.1
        · right; exact ht
      · intro n _ hn hlt
        show trigger .scan c' w.async = .launched
        rw [trigger_scan _ n _ hn]
        rcases hw.1 with ha | ha
        · simp [hlt, ha]
        · simp [ha]

theorem scanK_cinv (ppOf : Int → Nat → Nat) : ∀ (k : Nat) (w : W), CInv w → CInv (scanK ppOf .scan k w).1 := by
  intro k
  induction k with
  | zero => intro w hw; exact hw
  | succ k ih =>
    intro w hw
    unfold scanK
    have h1 := scan1_cinv ppOf w hw
    simp only []
    split
    · exact ih _ h1
    · exact h1

theorem exec_cinv (ppOf : Int → Nat → Nat) : ∀ (steps : List Step) (w : W), CInv w → (∀ s ∈ steps, scanOnly s) →
    CInv (exec ppOf w steps) := by
  intro steps
  induction steps with
  | nil => intro w hw _; exact hw
  | cons s rest ih =>
    intro w hw hs
    apply ih _ _ (fun x hx => hs x (by simp [hx]))
    have h1 := hs s (by simp)
    cases s with
    | scan api k =>
      cases api with
      | scan => exact scanK_cinv ppOf k w hw
      | scanner => exact absurd h1 (by simp [scanOnly])
    | observe => exact hw
    | await => exact absurd h1 (by simp [scanOnly])
    | arrive =>
      show CInv (arrive ppOf w)
      unfold arrive
      split
      · refine ⟨hw.1, ?_⟩
        intro n he hn hlt
        simp only [force_cur] at he hn hlt
        exact hw.2 n he hn hlt
      · exact hw

theorem start_cinv (ppOf : Int → Nat → Nat) (script : List Reply) (q : Qry) : CInv (start ppOf script q) := by
  refine ⟨Or.inl rfl, ?_⟩
  intro n _ _ hlt
  have hp : (start ppOf script q).it.cur.pos = 0 := by
    have hc := sessExec_alive ppOf env0 rfl script q
    show (startIter (fun _ _ => script) ppOf env0 q).1.cur.pos = 0
    simp only [startIter, hc.1]
    exact connExec_pos0 (ppOf q.pf) script env0.cached q
  rw [hp] at hlt
  exact absurd hlt (Nat.not_lt_zero _)

end Paging.Walk
