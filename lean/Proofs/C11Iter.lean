import Model.Policies
/-! helper lemmas: several `Pick` iterators alive at once — whatever the interleaving of their calls, each offers
the sequence of a lone `Pick` + drain at some value of the fallback policy's rotation counter -/
namespace C11
open Policies

/-- the policy state with the fallback policy's rotation counter at `c` (everything else as it is) -/
def _root_.Policies.TA.withCtr (t : TA) (c : Nat) : TA := { t with pol := { t.pol with ctr := c } }

/-- a live iterator with what its `Pick` was asked -/
structure GSlot where
  it : Iter
  σ : List Host → List Host
  rk : Option (Nat × Nat)

inductive IOp
  | openI (k : Nat) (σ : List Host → List Host) (rk : Option (Nat × Nat))   -- slot k := Pick(query)
  | nextI (k : Nat)                                                          -- one call of the iterator in slot k
  | pick (σ : List Host → List Host) (rk : Option (Nat × Nat)) (limit : Nat) -- somebody else's Pick + `limit` calls

def istep (up : Nat → Bool) (st : TA × (Nat → Option GSlot)) : IOp → TA × (Nat → Option GSlot)
  | .openI k σ rk =>
    let r := st.1.openIter up σ rk
    (r.1, fun j => if j = k then some ⟨r.2, σ, rk⟩ else st.2 j)
  | .nextI k =>
    match st.2 k with
    | none => st
    | some g =>
      let r := st.1.nextIter up g.it
      (r.1, fun j => if j = k then some { g with it := r.2.1 } else st.2 j)
  | .pick σ rk limit => ((st.1.pick up σ rk limit).1, st.2)

/-- what an iterator has offered and will offer is the sequence of a LONE `Pick` + drain in policy state `t`:
either its fallback iterator exists and `given ++ to come` is that sequence (`t` = the state when it was created),
or it is still in its replica phases, which do not depend on the counter -/
def IterOk (up : Nat → Bool) (t0 : TA) (g : GSlot) : Prop :=
  (∃ c sc, g.it.fb = some sc ∧ g.it.head = [] ∧
      g.it.given ++ sc.offered = ((t0.withCtr c).pickScan up g.σ g.rk).offered ∧
      sc.crashed = ((t0.withCtr c).pickScan up g.σ g.rk).crashed) ∨
  (g.it.fb = none ∧ ∃ ks tok l ft, g.rk = some (ks, tok) ∧ t0.replicasFor ks tok = .hosts l ft ∧
      g.it.used = taHead t0.pol.tier t0.pol.maxTier up t0.nonlocal (if ft && t0.shuffle then g.σ l else l) ∧
      g.it.given ++ g.it.head = g.it.used)

theorem withCtr_bump (t0 : TA) (c : Nat) :
    { (t0.withCtr c) with pol := (t0.withCtr c).pol.bump } = t0.withCtr ((c + 1) % 18446744073709551616) := rfl

theorem withCtr_replicasFor (t0 : TA) (c ks tok : Nat) : (t0.withCtr c).replicasFor ks tok = t0.replicasFor ks tok := rfl

theorem open_ok (up : Nat → Bool) (t0 : TA) (c : Nat) (σ : List Host → List Host) (rk : Option (Nat × Nat)) :
    (∃ c', ((t0.withCtr c).openIter up σ rk).1 = t0.withCtr c') ∧
    IterOk up t0 ⟨((t0.withCtr c).openIter up σ rk).2, σ, rk⟩ := by
  have plain : (t0.withCtr c).pickScan up σ rk = (t0.withCtr c).pol.pickScan up →
      (t0.withCtr c).openIter up σ rk =
        ({ (t0.withCtr c) with pol := (t0.withCtr c).pol.bump }, ⟨[], [], [], some ((t0.withCtr c).pol.pickScan up)⟩) →
      (∃ c', ((t0.withCtr c).openIter up σ rk).1 = t0.withCtr c') ∧
      IterOk up t0 ⟨((t0.withCtr c).openIter up σ rk).2, σ, rk⟩ := by
    intro e1 e2
    rw [e2]
    refine ⟨⟨_, withCtr_bump t0 c⟩, Or.inl ⟨c, _, rfl, rfl, ?_, ?_⟩⟩
    · simp only [List.nil_append]; rw [e1]
    · rw [e1]
  cases rk with
  | none => exact plain rfl rfl
  | some kt =>
    obtain ⟨ks, tok⟩ := kt
    cases hr : t0.replicasFor ks tok with
    | noRing => exact plain (by simp only [TA.pickScan, withCtr_replicasFor, hr]) (by simp only [TA.openIter, withCtr_replicasFor, hr])
    | emptyRing => exact plain (by simp only [TA.pickScan, withCtr_replicasFor, hr]) (by simp only [TA.openIter, withCtr_replicasFor, hr])
    | hosts l ft =>
      have e : (t0.withCtr c).openIter up σ (some (ks, tok)) =
          (t0.withCtr c, ⟨[], taHead t0.pol.tier t0.pol.maxTier up t0.nonlocal (if ft && t0.shuffle then σ l else l),
            taHead t0.pol.tier t0.pol.maxTier up t0.nonlocal (if ft && t0.shuffle then σ l else l), none⟩) := by
        simp only [TA.openIter, withCtr_replicasFor, hr]; rfl
      rw [e]
      exact ⟨⟨c, rfl⟩, Or.inr ⟨rfl, ks, tok, l, ft, rfl, hr, rfl, by simp⟩⟩

theorem pick_withCtr (up : Nat → Bool) (t0 : TA) (c : Nat) (σ : List Host → List Host) (rk : Option (Nat × Nat)) (limit : Nat) :
    ∃ c', ((t0.withCtr c).pick up σ rk limit).1 = t0.withCtr c' := by
  unfold TA.pick
  simp only
  repeat' split
  all_goals first | exact ⟨_, withCtr_bump t0 c⟩ | exact ⟨c, rfl⟩

/-- one call of an iterator that is `IterOk`: the policy state only moves its counter, the iterator stays `IterOk`,
a returned host is appended to `given`, and when it returns nil (`done`) what it has offered since its `Pick` is exactly
the sequence of a lone `Pick` + drain at some counter value `c`, which did not panic -/
theorem next_ok (up : Nat → Bool) (t0 : TA) (c : Nat) (g : GSlot) (hg : IterOk up t0 g) :
    (∃ c', ((t0.withCtr c).nextIter up g.it).1 = t0.withCtr c') ∧
    IterOk up t0 { g with it := ((t0.withCtr c).nextIter up g.it).2.1 } ∧
    (∀ x, ((t0.withCtr c).nextIter up g.it).2.2 = .host x → ((t0.withCtr c).nextIter up g.it).2.1.given = g.it.given ++ [x]) ∧
    (((t0.withCtr c).nextIter up g.it).2.2 = .done →
      ((t0.withCtr c).nextIter up g.it).2.1.given = g.it.given ∧
      ∃ c', (t0.withCtr c').pickScan up g.σ g.rk = ⟨g.it.given, false⟩) := by
  obtain ⟨it, σ, rk⟩ := g
  obtain ⟨given, head, used, fb⟩ := it
  rcases hg with ⟨c0, sc, h1, h2, h3, h4⟩ | ⟨h1, ks, tok, l, ft, h2, h3, h4, h5⟩
  · -- the fallback iterator exists
    simp only at h1 h2 h3 h4
    subst h1 h2
    obtain ⟨off, cr⟩ := sc
    cases off with
    | nil =>
      simp only [TA.nextIter]
      refine ⟨⟨c, rfl⟩, Or.inl ⟨c0, _, rfl, rfl, h3, h4⟩, ?_, ?_⟩
      · intro x hx; split at hx <;> cases hx
      · intro hd
        refine ⟨trivial, c0, ?_⟩
        have hcr : cr = false := by cases cr <;> simp_all
        simp only [List.append_nil] at h3
        simp only at h4
        rw [hcr] at h4
        cases hps : (t0.withCtr c0).pickScan up σ rk with
        | mk o cr' => rw [hps] at h3 h4; simp only at h3 h4; rw [h3, h4]
    | cons x r =>
      simp only [TA.nextIter]
      refine ⟨⟨c, rfl⟩, Or.inl ⟨c0, _, rfl, rfl, ?_, h4⟩, ?_, ?_⟩
      · simp only [List.append_assoc, List.singleton_append]; exact h3
      · intro y hy; injection hy with hy; subst hy; rfl
      · intro hd; cases hd
  · -- still in the replica phases
    simp only at h1 h2 h3 h4 h5
    subst h1 h2
    cases head with
    | cons x r =>
      simp only [TA.nextIter]
      refine ⟨⟨c, rfl⟩, Or.inr ⟨rfl, ks, tok, l, ft, rfl, h3, h4, ?_⟩, ?_, ?_⟩
      · simp only [List.append_assoc, List.singleton_append]; exact h5
      · intro y hy; injection hy with hy; subst hy; rfl
      · intro hd; cases hd
    | nil =>
      -- the fallback policy's Pick happens now, at counter c
      simp only [List.append_nil] at h5
      have hfull : (t0.withCtr c).pickScan up σ (some (ks, tok)) =
          ⟨used ++ minusUsed used ((t0.withCtr c).pol.pickScan up).offered, ((t0.withCtr c).pol.pickScan up).crashed⟩ := by
        simp only [TA.pickScan, withCtr_replicasFor, h3, taScan]
        rw [h4]; rfl
      simp only [TA.nextIter]
      cases hoff : minusUsed used ((t0.withCtr c).pol.pickScan up).offered with
      | nil =>
        simp only
        refine ⟨⟨_, withCtr_bump t0 c⟩, Or.inl ⟨c, _, rfl, rfl, ?_, ?_⟩, ?_, ?_⟩
        · rw [hfull, h5, hoff]
        · rw [hfull]
        · intro y hy; split at hy <;> cases hy
        · intro hd
          refine ⟨trivial, c, ?_⟩
          have hcr : ((t0.withCtr c).pol.pickScan up).crashed = false := by
            cases h : ((t0.withCtr c).pol.pickScan up).crashed <;> simp_all
          rw [hfull, hoff, hcr, h5, List.append_nil]
      | cons x r =>
        simp only
        refine ⟨⟨_, withCtr_bump t0 c⟩, Or.inl ⟨c, _, rfl, rfl, ?_, ?_⟩, ?_, ?_⟩
        · rw [hfull, h5, hoff]; simp
        · rw [hfull]
        · intro y hy; injection hy with hy; subst hy; rfl
        · intro hd; cases hd

theorem iter_run (up : Nat → Bool) (t0 : TA) (ops : List IOp) :
    ∀ (st : TA × (Nat → Option GSlot)), (∃ c, st.1 = t0.withCtr c) → (∀ k g, st.2 k = some g → IterOk up t0 g) →
    (∃ c, (ops.foldl (istep up) st).1 = t0.withCtr c) ∧
    ∀ k g, (ops.foldl (istep up) st).2 k = some g → IterOk up t0 g := by
  induction ops with
  | nil => intro st h1 h2; exact ⟨h1, h2⟩
  | cons o r ih =>
    intro st h1 h2
    obtain ⟨c, hc⟩ := h1
    rw [List.foldl_cons]
    apply ih
    · cases o with
      | openI k σ rk => simp only [istep]; rw [hc]; exact (open_ok up t0 c σ rk).1
      | nextI k =>
        simp only [istep]
        cases hk : st.2 k with
        | none => exact ⟨c, hc⟩
        | some g => simp only; rw [hc]; exact (next_ok up t0 c g (h2 k g hk)).1
      | pick σ rk limit => simp only [istep]; rw [hc]; exact pick_withCtr up t0 c σ rk limit
    · intro j g hj
      cases o with
      | openI k σ rk =>
        simp only [istep] at hj
        by_cases hjk : j = k
        · rw [if_pos hjk] at hj
          injection hj with hj
          rw [← hj, hc]
          exact (open_ok up t0 c σ rk).2
        · rw [if_neg hjk] at hj
          exact h2 j g hj
      | nextI k =>
        simp only [istep] at hj
        cases hk : st.2 k with
        | none => rw [hk] at hj; exact h2 j g hj
        | some g0 =>
          rw [hk] at hj
          simp only at hj
          by_cases hjk : j = k
          · rw [if_pos hjk] at hj
            injection hj with hj
            rw [← hj, hc]
            exact (next_ok up t0 c g0 (h2 k g0 hk)).2.1
          · rw [if_neg hjk] at hj
            exact h2 j g hj
      | pick σ rk limit => exact h2 j g hj

end C11
