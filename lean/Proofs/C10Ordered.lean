import Model.Placement
import Proofs.C10Lookup
/-!
C10 helper: the ordered partitioner.  Go's string order, the hexadecimal rendering is strictly monotone for it,
`sort.Search` depends only on the predicate's values, binary search = first token ≥ key on a ring ascending by bytes.
-/
namespace C10Ordered
open Placement C10Lookup

theorem lexLt_cons (a b : Nat) (as bs : List Nat) :
    lexLt (a :: as) (b :: bs) = true ↔ a < b ∨ (a = b ∧ lexLt as bs = true) := by
  simp [lexLt]

theorem lexLt_nil_right (a : List Nat) : lexLt a [] = false := by cases a <;> rfl

theorem lexLt_irrefl : ∀ a : List Nat, lexLt a a = false
  | [] => rfl
  | a :: as => by
    have := lexLt_irrefl as
    cases h : lexLt (a :: as) (a :: as) with
    | false => rfl
    | true =>
      rw [lexLt_cons] at h
      rcases h with h | ⟨_, h⟩
      · omega
      · rw [this] at h; cases h

theorem lexLt_trans : ∀ a b c : List Nat, lexLt a b = true → lexLt b c = true → lexLt a c = true
  | _, _, [], _, h => by rw [lexLt_nil_right] at h; cases h
  | _, [], _ :: _, h, _ => by rw [lexLt_nil_right] at h; cases h
  | [], _ :: _, _ :: _, _, _ => rfl
  | a :: as, b :: bs, c :: cs, h1, h2 => by
    rw [lexLt_cons] at h1 h2 ⊢
    rcases h1 with h1 | ⟨e1, h1⟩ <;> rcases h2 with h2 | ⟨e2, h2⟩
    · left; omega
    · left; omega
    · left; omega
    · right; exact ⟨by omega, lexLt_trans as bs cs h1 h2⟩

/-! ## the hexadecimal rendering preserves the order -/

theorem hexDigit_lt (x y : Nat) (hx : x < 16) (hy : y < 16) : Spec.hexDigit x < Spec.hexDigit y ↔ x < y := by
  unfold Spec.hexDigit; split <;> split <;> omega

theorem hexDigit_eq (x y : Nat) (hx : x < 16) (hy : y < 16) : Spec.hexDigit x = Spec.hexDigit y ↔ x = y := by
  unfold Spec.hexDigit; split <;> split <;> omega

/-- byte strings -/
def IsBytes (l : List Nat) : Prop := ∀ x ∈ l, x < 256

theorem hex_lexLt : ∀ a b : List Nat, IsBytes a → IsBytes b →
    (lexLt (Spec.hexOf a) (Spec.hexOf b) = true ↔ lexLt a b = true)
  | a, [], _, _ => by simp [Spec.hexOf, lexLt_nil_right]
  | [], b :: bs, _, _ => by simp [Spec.hexOf, lexLt]
  | a :: as, b :: bs, ha, hb => by
    have ha' : a < 256 := ha a (by simp)
    have hb' : b < 256 := hb b (by simp)
    have ih := hex_lexLt as bs (fun x hx => ha x (by simp [hx])) (fun x hx => hb x (by simp [hx]))
    simp only [Spec.hexOf]
    rw [lexLt_cons, lexLt_cons, lexLt_cons, ih]
    rw [hexDigit_lt _ _ (by omega) (by omega), hexDigit_eq _ _ (by omega) (by omega),
      hexDigit_lt _ _ (by omega) (by omega), hexDigit_eq _ _ (by omega) (by omega)]
    constructor
    · rintro (h | ⟨h1, h | ⟨h2, h3⟩⟩)
      · left; omega
      · left; omega
      · right; exact ⟨by omega, h3⟩
    · rintro (h | ⟨h1, h3⟩)
      · by_cases hq : a / 16 < b / 16
        · left; exact hq
        · right; exact ⟨by omega, Or.inl (by omega)⟩
      · right; exact ⟨by omega, Or.inr ⟨by omega, h3⟩⟩

/-! ## `sort.Search` -/

theorem searchLoop_congr (f g : Nat → Bool) (n : Nat) (h : ∀ i, i < n → f i = g i) :
    ∀ fuel i j, j ≤ n → searchLoop f fuel i j = searchLoop g fuel i j := by
  intro fuel
  induction fuel with
  | zero => intro i j _; rfl
  | succ fuel ih =>
    intro i j hj
    unfold searchLoop
    by_cases hlt : i < j
    · simp only [hlt, if_true]
      rw [h ((i + j) / 2) (by omega), ih _ _ hj, ih _ _ (by omega)]
    · simp [hlt]

theorem sortSearch_congr (f g : Nat → Bool) (n : Nat) (h : ∀ i, i < n → f i = g i) :
    sortSearch n f = sortSearch n g :=
  searchLoop_congr f g n h n 0 n (Nat.le_refl _)

/-- binary search over a list on which `q` is monotone = linear search for the first element satisfying `q` -/
theorem sortSearch_findIdx {α : Type} (l : List α) (q : α → Bool) (f : Nat → Bool)
    (hf : ∀ i (h : i < l.length), f i = q l[i])
    (mono : ∀ a b (_ : a < b) (hb : b < l.length), q (l[a]'(by omega)) = true → q l[b] = true) :
    sortSearch l.length f = l.findIdx q := by
  have fm : ∀ a b, a ≤ b → b < l.length → f a = true → f b = true := by
    intro a b hab hb ha
    by_cases e : a = b
    · subst e; exact ha
    · rw [hf b hb]
      rw [hf a (by omega)] at ha
      exact mono a b (by omega) hb ha
  have S := searchLoop_spec f l.length fm l.length 0 l.length
    (Nat.zero_le _) (Nat.le_refl _) (by omega) (by intro k hk; omega) (by intro k h1 h2; omega)
  unfold sortSearch
  generalize searchLoop f l.length 0 l.length = r at S
  obtain ⟨_, hr, lo, hi⟩ := S
  have hb := @List.findIdx_le_length _ q l
  rcases Nat.lt_trichotomy r (l.findIdx q) with h | h | h
  · have h1 := hi r (Nat.le_refl _) (by omega)
    have h2 := List.not_of_lt_findIdx h
    rw [hf r (by omega)] at h1
    rw [h1] at h2
    cases h2
  · exact h
  · have hlt : l.findIdx q < l.length := by omega
    have h1 := lo _ h
    have h2 := @List.findIdx_getElem _ q l hlt
    rw [hf _ hlt, h2] at h1
    cases h1

/-- ascending by Go's string order -/
def SortedO {β : Type} (l : List (List Nat × β)) : Prop := l.Pairwise (fun a b => lexLt a.1 b.1 = true)

theorem oTokAt_eq {β : Type} (l : List (List Nat × β)) (i : Nat) (h : i < l.length) : oTokAt l i = l[i].1 := by
  simp [oTokAt, List.getElem?_eq_getElem h]

/-- on a ring ascending by token, `GetHostForToken`'s index = first token ≥ t, else 0 -/
theorem lookupIdxO_eq {β : Type} (l : List (List Nat × β)) (t : List Nat) (hs : SortedO l) :
    lookupIdxO l t = Spec.ownerIdxO l t := by
  unfold lookupIdxO Spec.ownerIdxO
  have := sortSearch_findIdx l (fun e => !lexLt e.1 t) (fun i => !(lexLt (oTokAt l i) t))
    (by intro i h; simp only [oTokAt_eq l i h])
    (by
      intro a b hab hb ha
      have hlt := (List.pairwise_iff_getElem.mp hs) a b (by omega) hb hab
      cases hbt : lexLt l[b].1 t with
      | false => rfl
      | true =>
        have := lexLt_trans _ _ _ hlt hbt
        simp only [this] at ha
        cases ha)
  simp only [this]
  by_cases h : l.findIdx (fun e => !lexLt e.1 t) < l.length
  · simp [h, Nat.not_le.mpr h]
  · simp [h, Nat.not_lt.mp h]

/-- the ring with every token replaced by its rendering -/
def rendered (ring : List OEntry) : List OEntry := ring.map (fun e => (Spec.hexOf e.1, e.2))

/-- where the comparisons with the rendered tokens agree with the comparisons with the tokens, the index agrees -/
theorem lookupIdxO_rendered (ring : List OEntry) (key : List Nat)
    (hag : ∀ e ∈ ring, lexLt (Spec.hexOf e.1) key = lexLt e.1 key) :
    lookupIdxO (rendered ring) key = lookupIdxO ring key := by
  unfold lookupIdxO rendered
  rw [List.length_map]
  rw [sortSearch_congr _ (fun i => !(lexLt (oTokAt ring i) key)) ring.length]
  intro i hi
  have h1 : oTokAt (ring.map (fun e => (Spec.hexOf e.1, e.2))) i = Spec.hexOf ring[i].1 := by
    simp [oTokAt, List.getElem?_eq_getElem hi]
  rw [h1, oTokAt_eq ring i hi, hag _ (List.getElem_mem hi)]

/-! ## ring construction from the reported tokens -/

theorem lexLt_asymm (a b : List Nat) (h : lexLt a b = true) : lexLt b a = false := by
  cases hba : lexLt b a with
  | false => rfl
  | true =>
    have := lexLt_trans a b a h hba
    rw [lexLt_irrefl] at this
    cases this

theorem sortO_sorted : ∀ l : List OEntry, SortedO l → l.foldr insertEntryO [] = l
  | [], _ => rfl
  | x :: xs, hs => by
    unfold SortedO at hs
    rw [List.pairwise_cons] at hs
    rw [List.foldr_cons, sortO_sorted xs hs.2]
    cases xs with
    | nil => rfl
    | cons y ys =>
      unfold insertEntryO
      rw [lexLt_asymm _ _ (hs.1 y (by simp))]
      rfl

theorem sortedO_rendered (ring : List OEntry) (hs : SortedO ring) (hb : ∀ e ∈ ring, IsBytes e.1) :
    SortedO (rendered ring) := by
  unfold SortedO rendered at *
  rw [List.pairwise_map]
  exact hs.imp_of_mem (fun ha hb' h => (hex_lexLt _ _ (hb _ ha) (hb _ hb')).mpr h)

theorem buildRingO_reported (ring : List OEntry) (hs : SortedO ring) (hb : ∀ e ∈ ring, IsBytes e.1) :
    buildRingO (Spec.reported ring) = rendered ring := by
  unfold buildRingO
  have : (Spec.reported ring).flatMap (fun ht => ht.2.map (fun t => (orderedParse t, ht.1))) = rendered ring := by
    unfold Spec.reported rendered orderedParse
    induction ring with
    | nil => rfl
    | cons e r ih =>
      simp only [List.map_cons, List.flatMap_cons, List.map_nil, List.singleton_append]
      rw [ih (by unfold SortedO at hs ⊢; exact (List.pairwise_cons.mp hs).2) (fun x hx => hb x (by simp [hx]))]
  rw [this]
  exact sortO_sorted _ (sortedO_rendered ring hs hb)

end C10Ordered
