import Model.Policies
import Proofs.C11Cow
import Proofs.C11Pol
import Proofs.C11Hist
import Proofs.C11Ops
/-! helper lemmas (seventh round): HOST IDENTITY in the policy host lists

* `cowHostList` as the Go code has it (nil entries, panics) for any pair of identities `sameAdd` / `keyOf`:
  if `add` refuses whatever `remove` would conflate (`keyOf a = keyOf b → sameAdd a b`), "no two entries with one
  key" is an invariant, no nil entry ever appears, no call panics, `remove` drops exactly the entries with the key;
* the lists of the policies against the history PER KEY (tier, address): the list holds exactly the object that
  stands for each key (`ownerOf`), for every history - hosts sharing an address included. -/
namespace C11
open Policies

/-! ### the raw list -/

section Raw
variable {α κ : Type} [BEq κ] [LawfulBEq κ]

/-- list invariant for an arbitrary key: no two entries with one key -/
def KeyNodup (keyOf : α → κ) (l : List α) : Prop := l.Pairwise (fun a b => keyOf a ≠ keyOf b)

theorem rawAddScan_some (sameAdd : α → α → Bool) (h : α) (l : List α) :
    rawAddScan sameAdd h (l.map some) = some (l.any (fun x => sameAdd h x)) := by
  induction l with
  | nil => rfl
  | cons x r ih =>
    simp only [List.map_cons, rawAddScan, List.any_cons]
    split
    · rename_i e; simp [e]
    · rename_i e; rw [ih]; simp [e]

omit [BEq κ] [LawfulBEq κ] in
/-- `add` on a list without nil entries: no panic; the list is unchanged if an entry is `sameAdd`, the host is appended
otherwise; with `remove`'s identity refining `add`'s the invariant is kept -/
theorem rawAdd_ok (sameAdd : α → α → Bool) (keyOf : α → κ) (href : ∀ a b, keyOf a = keyOf b → sameAdd a b = true)
    (l : List α) (hl : KeyNodup keyOf l) (h : α) :
    ∃ l' c, rawAdd sameAdd (l.map some) h = some (l'.map some, c) ∧ KeyNodup keyOf l' ∧
      l' = (if l.any (fun x => sameAdd h x) then l else l ++ [h]) := by
  unfold rawAdd
  rw [rawAddScan_some]
  cases hany : l.any (fun x => sameAdd h x)
  · refine ⟨l ++ [h], true, ?_, ?_, by simp⟩
    · simp
    · unfold KeyNodup
      rw [List.pairwise_append]
      refine ⟨hl, List.pairwise_singleton _ _, ?_⟩
      intro a ha b hb
      simp only [List.mem_singleton] at hb
      subst hb
      intro e
      have := href b a e.symm
      rw [List.any_eq_false] at hany
      exact hany a ha this
  · exact ⟨l, false, rfl, hl, by simp⟩

theorem filter_key_length (keyOf : α → κ) (l : List α) (hl : KeyNodup keyOf l) (ip : κ) :
    l.length ≤ (l.filter (fun x => !(keyOf x == ip))).length + 1 := by
  induction l with
  | nil => simp
  | cons x r ih =>
    unfold KeyNodup at hl
    rw [List.pairwise_cons] at hl
    by_cases hx : (keyOf x == ip) = true
    · have hall : r.filter (fun y => !(keyOf y == ip)) = r := by
        rw [List.filter_eq_self]
        intro y hy
        have := hl.1 y hy
        have hx' : keyOf x = ip := eq_of_beq hx
        simp only [Bool.not_eq_eq_eq_not, Bool.not_true, beq_eq_false_iff_ne, ne_eq]
        intro e
        exact this (by rw [hx', e])
      simp [hx, hall]
    · have := ih hl.2
      simp only [Bool.not_eq_true] at hx
      simp only [List.filter_cons, hx, Bool.not_false, if_true, List.length_cons]
      omega

/-- `remove` on a list without nil entries that has the invariant: no panic, NO NIL ENTRY in the result, exactly the
entries with the key are dropped (at most one), the invariant is kept -/
theorem rawRemove_ok (keyOf : α → κ) (l : List α) (hl : KeyNodup keyOf l) (ip : κ) :
    ∃ c, rawRemove keyOf (l.map some) ip = some ((l.filter (fun x => !(keyOf x == ip))).map some, c) ∧
      KeyNodup keyOf (l.filter (fun x => !(keyOf x == ip))) := by
  have hk : KeyNodup keyOf (l.filter (fun x => !(keyOf x == ip))) := List.Pairwise.sublist List.filter_sublist hl
  have hnone : (l.map some).any (·.isNone) = false := by
    rw [List.any_eq_false]
    intro x hx
    rw [List.mem_map] at hx
    obtain ⟨y, _, rfl⟩ := hx
    simp
  have hfil : (l.map some).filter (keepEntry keyOf ip) =
      (l.filter (fun x => !(keyOf x == ip))).map some := by
    rw [List.filter_map]
    rfl
  unfold rawRemove
  simp only [hnone, Bool.false_eq_true, if_false, hfil, List.length_map]
  split
  · rename_i e
    have e' : (l.filter (fun x => !(keyOf x == ip))).length = l.length := by simpa using e
    have : l.filter (fun x => !(keyOf x == ip)) = l := by
      have hs : (l.filter (fun x => !(keyOf x == ip))).Sublist l := List.filter_sublist
      exact hs.eq_of_length e'
    exact ⟨false, by rw [this], hk⟩
  · rename_i e
    have e' : (l.filter (fun x => !(keyOf x == ip))).length ≠ l.length := by simpa using e
    have h1 := filter_key_length keyOf l hl ip
    have h2 : (l.filter (fun x => !(keyOf x == ip))).length ≤ l.length := List.length_filter_le _ _
    have : l.length - 1 - (l.filter (fun x => !(keyOf x == ip))).length = 0 := by omega
    refine ⟨true, ?_, hk⟩
    rw [this]
    simp

/-- a history of the raw list -/
inductive RawOp (α κ : Type)
  | add (h : α)
  | remove (ip : κ)

/-- `none` = a call panicked -/
def rawStep (sameAdd : α → α → Bool) (keyOf : α → κ) (s : Option (List (Option α))) (o : RawOp α κ) : Option (List (Option α)) :=
  match s with
  | none => none
  | some l => match o with
    | .add h => (rawAdd sameAdd l h).map (·.1)
    | .remove ip => (rawRemove keyOf l ip).map (·.1)

def rawRun (sameAdd : α → α → Bool) (keyOf : α → κ) (s : Option (List (Option α))) (ops : List (RawOp α κ)) : Option (List (Option α)) :=
  ops.foldl (rawStep sameAdd keyOf) s

theorem rawRun_ok (sameAdd : α → α → Bool) (keyOf : α → κ) (href : ∀ a b, keyOf a = keyOf b → sameAdd a b = true)
    (ops : List (RawOp α κ)) : ∀ (l : List α), KeyNodup keyOf l →
    ∃ l', rawRun sameAdd keyOf (some (l.map some)) ops = some (l'.map some) ∧ KeyNodup keyOf l' := by
  induction ops with
  | nil => intro l hl; exact ⟨l, rfl, hl⟩
  | cons o r ih =>
    intro l hl
    unfold rawRun
    rw [List.foldl_cons]
    cases o with
    | add h =>
      obtain ⟨l', c, e, hk, _⟩ := rawAdd_ok sameAdd keyOf href l hl h
      have : rawStep sameAdd keyOf (some (l.map some)) (.add h) = some (l'.map some) := by
        simp only [rawStep, e, Option.map_some]
      rw [this]
      exact ih l' hk
    | remove ip =>
      obtain ⟨c, e, hk⟩ := rawRemove_ok keyOf l hl ip
      have : rawStep sameAdd keyOf (some (l.map some)) (.remove ip) = some ((l.filter (fun x => !(keyOf x == ip))).map some) := by
        simp only [rawStep, e, Option.map_some]
      rw [this]
      exact ih _ hk

end Raw

/-! #### the code's identities: `HostInfo.Equal` (same object or same address) / the address -/

theorem equal_refines (a b : Host) (e : a.addr = b.addr) : a.equal b = true := (equal_iff a b).mpr e

theorem keyNodup_addr (l : List Host) : KeyNodup (fun h : Host => h.addr) l ↔ AddrNodup l := Iff.rfl

/-- the abstract `cowAdd` (the model every other theorem uses) is what the raw `add` does -/
theorem rawAdd_cow (l : List Host) (h : Host) :
    rawAdd Host.equal (l.map some) h = some ((cowAdd l h).1.map some, (cowAdd l h).2) := by
  unfold rawAdd cowAdd
  rw [rawAddScan_some]
  cases l.any (fun x => h.equal x) <;> simp

/-- the abstract `cowRemove` is what the raw `remove` does on a list with the invariant -/
theorem rawRemove_cow (l : List Host) (hl : AddrNodup l) (ip : Nat) :
    (rawRemove (fun h : Host => h.addr) (l.map some) ip).map (·.1) = some ((cowRemove l ip).1.map some) := by
  obtain ⟨c, e, _⟩ := rawRemove_ok (fun h : Host => h.addr) l hl ip
  rw [e]
  simp only [Option.map_some]
  unfold cowRemove
  split
  · rfl
  · rename_i hn
    have : l.filter (fun x => !(x.addr == ip)) = l := by
      rw [List.filter_eq_self]
      intro y hy
      simp only [List.any_eq_true, not_exists, not_and] at hn
      have := hn y hy
      simpa using this
    rw [this]

/-- the abstract list after a history -/
def absStep (l : List Host) : RawOp Host Nat → List Host
  | .add h => (cowAdd l h).1
  | .remove ip => (cowRemove l ip).1

theorem absRun_inv (ops : List (RawOp Host Nat)) : ∀ l, AddrNodup l → AddrNodup (ops.foldl absStep l) := by
  induction ops with
  | nil => intro l hl; exact hl
  | cons o r ih =>
    intro l hl
    rw [List.foldl_cons]
    apply ih
    cases o with
    | add h => exact cowAdd_inv l h hl
    | remove ip => exact cowRemove_inv l ip hl

theorem rawRun_abs (ops : List (RawOp Host Nat)) : ∀ l, AddrNodup l →
    rawRun Host.equal (fun h : Host => h.addr) (some (l.map some)) ops = some ((ops.foldl absStep l).map some) := by
  induction ops with
  | nil => intro l _; rfl
  | cons o r ih =>
    intro l hl
    unfold rawRun
    rw [List.foldl_cons, List.foldl_cons]
    cases o with
    | add h =>
      have : rawStep Host.equal (fun h : Host => h.addr) (some (l.map some)) (.add h) = some ((cowAdd l h).1.map some) := by
        simp only [rawStep, rawAdd_cow, Option.map_some]
      rw [this]
      exact ih _ (cowAdd_inv l h hl)
    | remove ip =>
      have : rawStep Host.equal (fun h : Host => h.addr) (some (l.map some)) (.remove ip) = some ((cowRemove l ip).1.map some) := by
        simp only [rawStep]
        exact rawRemove_cow l hl ip
      rw [this]
      exact ih _ (cowRemove_inv l ip hl)

/-! ### the configuration (kind, local DC, local rack) - hence tier and key - never changes -/

def sameCfg (p q : Pol) : Prop := q.kind = p.kind ∧ q.ldc = p.ldc ∧ q.lrack = p.lrack

theorem tier_of_sameCfg (p q : Pol) (h : sameCfg p q) (x : Host) : q.tier x = p.tier x := by
  obtain ⟨a, b, c⟩ := h
  unfold Pol.tier
  rw [a, b, c]

theorem key_of_sameCfg (p q : Pol) (h : sameCfg p q) (x : Host) : q.key x = p.key x := by
  unfold Pol.key
  rw [tier_of_sameCfg p q h]

theorem sameCfg_setLayer (p : Pol) (i : Nat) (l : List Host) : sameCfg p (p.setLayer i l) := by
  rcases i with _ | _ | i <;> exact ⟨rfl, rfl, rfl⟩

theorem sameCfg_apply (t : TA) (o : TAOp) : sameCfg t.pol (t.apply o).pol := by
  rw [apply_pol]
  cases o with
  | add h => exact sameCfg_setLayer _ _ _
  | remove h => exact sameCfg_setLayer _ _ _
  | hostUp h => exact sameCfg_setLayer _ _ _
  | hostDown h => exact sameCfg_setLayer _ _ _
  | setCtr n => exact ⟨rfl, rfl, rfl⟩
  | pick up σ rk limit =>
    show sameCfg t.pol (t.pick up σ rk limit).1.pol
    rcases pick_pol t up σ rk limit with e | e <;> rw [e] <;> exact ⟨rfl, rfl, rfl⟩
  | setReplicas ks tab => exact ⟨rfl, rfl, rfl⟩
  | keyspaceChanged ks => exact ⟨rfl, rfl, rfl⟩
  | setMeta ks v => exact ⟨rfl, rfl, rfl⟩

/-! ### the lists per key -/

theorem key_eq_iff (p : Pol) (a b : Host) : p.key a = p.key b ↔ p.tier a = p.tier b ∧ a.addr = b.addr := by
  unfold Pol.key
  exact Prod.mk.injEq _ _ _ _ ▸ Iff.rfl

/-- `AddHost` / `HostUp`, any hosts: the host is listed afterwards iff it was, or it is the new one and no listed
host has its key -/
theorem known_add_key (p : Pol) (hp : Inv p) (h x : Host) :
    known (p.add h) x ↔ known p x ∨ (x = h ∧ ∀ y, known p y → p.key y ≠ p.key h) := by
  have hp' := Inv_add p hp h
  have hall : (∀ y ∈ p.getLayer (p.tier h), y.addr ≠ h.addr) ↔ ∀ y, known p y → p.key y ≠ p.key h := by
    constructor
    · intro h2 y hy hk
      obtain ⟨k1, k2⟩ := (key_eq_iff p y h).mp hk
      rw [known_iff_layer p hp, k1] at hy
      exact h2 y hy k2
    · intro h2 y hy ha
      have hty := (getLayer_tier p hp (p.tier h) (tier_le_two p h)).2 y hy
      exact h2 y ((known_iff_layer p hp y).mpr (by rw [hty]; exact hy)) ((key_eq_iff p y h).mpr ⟨hty, ha⟩)
  rw [known_iff_layer _ hp', known_iff_layer p hp, ← hall]
  unfold Pol.add
  rw [tier_setLayer, getLayer_setLayer p _ _ _ (tier_le_two p h) (tier_le_two p x)]
  split
  · rename_i e
    rw [mem_cowAdd, e]
  · rename_i e
    constructor
    · exact Or.inl
    · rintro (h1 | ⟨h1, _⟩)
      · exact h1
      · subst h1; exact absurd rfl e

/-- `RemoveHost` / `HostDown`, any hosts: exactly the listed hosts with the key of `h` go -/
theorem known_remove_key (p : Pol) (hp : Inv p) (h x : Host) :
    known (p.remove h) x ↔ known p x ∧ p.key x ≠ p.key h := by
  have hp' := Inv_remove p hp h
  rw [known_iff_layer _ hp', known_iff_layer p hp]
  unfold Pol.remove
  rw [tier_setLayer, getLayer_setLayer p _ _ _ (tier_le_two p h) (tier_le_two p x)]
  split
  · rename_i e
    rw [mem_cowRemove, e]
    constructor
    · rintro ⟨h1, h2⟩
      exact ⟨h1, fun hk => h2 ((key_eq_iff p x h).mp hk).2⟩
    · rintro ⟨h1, h2⟩
      exact ⟨h1, fun ha => h2 ((key_eq_iff p x h).mpr ⟨e, ha⟩)⟩
  · rename_i e
    constructor
    · intro h1; exact ⟨h1, fun hk => e ((key_eq_iff p x h).mp hk).1⟩
    · exact fun h1 => h1.1

/-- owner of a key when starting from `o0` -/
def ownerFrom (key : Host → Nat × Nat) (o0 : Option Host) (evs : List (Ev × Host)) (k : Nat × Nat) : Option Host :=
  evs.foldl (fun o e => if key e.2 = k then ownerStep o e.1 e.2 else o) o0

theorem ownerOf_eq (key : Host → Nat × Nat) (evs : List (Ev × Host)) (k : Nat × Nat) :
    ownerOf key evs k = ownerFrom key none evs k := rfl

/-- status of a key when starting from `s0` -/
def keyStatusFrom (key : Host → Nat × Nat) (s0 : Status) (evs : List (Ev × Host)) (k : Nat × Nat) : Status :=
  evs.foldl (fun s e => if key e.2 = k then s.step e.1 else s) s0

theorem keyStatus_eq (key : Host → Nat × Nat) (evs : List (Ev × Host)) (k : Nat × Nat) :
    keyStatus key evs k = keyStatusFrom key Status.init evs k := rfl

theorem wf_keyStatusFrom (key : Host → Nat × Nat) (s0 : Status) (hs : s0.wf) (evs : List (Ev × Host)) (k : Nat × Nat) :
    (keyStatusFrom key s0 evs k).wf := by
  induction evs generalizing s0 with
  | nil => exact hs
  | cons e r ih =>
    unfold keyStatusFrom
    rw [List.foldl_cons]
    apply ih
    split
    · exact wf_step s0 hs e.1
    · exact hs

/-- a key has an owner iff the last call about the key was `AddHost` / `HostUp` -/
theorem owner_isSome_inList (key : Host → Nat × Nat) (evs : List (Ev × Host)) (k : Nat × Nat) :
    ∀ (o0 : Option Host) (s0 : Status), o0.isSome = s0.inList →
    (ownerFrom key o0 evs k).isSome = (keyStatusFrom key s0 evs k).inList := by
  induction evs with
  | nil => intro o0 s0 h; exact h
  | cons e r ih =>
    intro o0 s0 h
    unfold ownerFrom keyStatusFrom
    rw [List.foldl_cons, List.foldl_cons]
    apply ih
    split
    · obtain ⟨ev, hh⟩ := e
      cases ev <;> cases o0 <;> simp [ownerStep, Status.step, Status.inList]
    · exact h

/-- the owner of a key has that key -/
theorem owner_key (key : Host → Nat × Nat) (evs : List (Ev × Host)) (k : Nat × Nat) :
    ∀ (o0 : Option Host), (∀ z, o0 = some z → key z = k) → ∀ z, ownerFrom key o0 evs k = some z → key z = k := by
  induction evs with
  | nil => intro o0 h z hz; exact h z hz
  | cons e r ih =>
    intro o0 h z hz
    unfold ownerFrom at hz
    rw [List.foldl_cons] at hz
    refine ih _ ?_ z hz
    intro z' hz'
    split at hz'
    · rename_i hk
      obtain ⟨ev, hh⟩ := e
      cases ev <;> cases o0 <;> simp [ownerStep] at hz'
      · subst hz'; exact hk
      · exact h z' (by rw [hz'])
      · subst hz'; exact hk
      · exact h z' (by rw [hz'])
    · exact h z' hz'

/-- one `AddHost` / `HostUp` against the owner function -/
theorem owner_add (p : Pol) (hp : Inv p) (O : Nat × Nat → Option Host) (h : Host) (e : Ev) (he : e = .add ∨ e = .hup)
    (hO : ∀ k z, O k = some z → p.key z = k) (hs : ∀ x, known p x ↔ O (p.key x) = some x) :
    ∀ x, known (p.add h) x ↔ (if p.key h = p.key x then ownerStep (O (p.key x)) e h else O (p.key x)) = some x := by
  intro x
  rw [known_add_key p hp]
  by_cases hk : p.key h = p.key x
  · rw [if_pos hk]
    have hstep : ownerStep (O (p.key x)) e h = (match O (p.key x) with | none => some h | some z => some z) := by
      rcases he with rfl | rfl <;> rfl
    rw [hstep]
    cases hOk : O (p.key x) with
    | none =>
      simp only [Option.some.injEq]
      constructor
      · rintro (h1 | ⟨h1, _⟩)
        · rw [hs x, hOk] at h1; cases h1
        · exact h1.symm
      · intro h1
        refine Or.inr ⟨h1.symm, ?_⟩
        intro y hy hky
        rw [hs y, hky, hk, hOk] at hy
        cases hy
    | some z =>
      simp only [Option.some.injEq]
      constructor
      · rintro (h1 | ⟨h1, h2⟩)
        · rw [hs x, hOk] at h1; exact Option.some.inj h1
        · exfalso
          have hkz : p.key z = p.key x := hO _ z hOk
          have hzk : known p z := by rw [hs z, hkz]; exact hOk
          exact h2 z hzk (by rw [hkz, hk])
      · intro h1
        left
        rw [hs x, hOk, h1]
  · rw [if_neg hk, hs x]
    constructor
    · rintro (h1 | ⟨h1, _⟩)
      · exact h1
      · subst h1; exact absurd rfl hk
    · exact Or.inl

/-- one `RemoveHost` / `HostDown` against the owner function -/
theorem owner_remove (p : Pol) (hp : Inv p) (O : Nat × Nat → Option Host) (h : Host) (e : Ev) (he : e = .remove ∨ e = .hdown)
    (hs : ∀ x, known p x ↔ O (p.key x) = some x) :
    ∀ x, known (p.remove h) x ↔ (if p.key h = p.key x then ownerStep (O (p.key x)) e h else O (p.key x)) = some x := by
  intro x
  rw [known_remove_key p hp]
  have hstep : ownerStep (O (p.key x)) e h = none := by rcases he with rfl | rfl <;> rfl
  by_cases hk : p.key h = p.key x
  · rw [if_pos hk, hstep]
    constructor
    · rintro ⟨_, h2⟩; exact absurd hk.symm h2
    · intro h1; cases h1
  · rw [if_neg hk, hs x]
    exact ⟨fun h1 => h1.1, fun h1 => ⟨h1, fun e' => hk e'.symm⟩⟩

theorem ownerStep_key (key : Host → Nat × Nat) (O : Nat × Nat → Option Host) (h : Host) (e : Ev)
    (hO : ∀ k z, O k = some z → key z = k) :
    ∀ k z, (if key h = k then ownerStep (O k) e h else O k) = some z → key z = k := by
  intro k z hz
  split at hz
  · rename_i hk
    cases e <;> cases hOk : O k <;> simp [ownerStep, hOk] at hz
    · subst hz; exact hk
    · subst hz; exact hO k _ hOk
    · subst hz; exact hk
    · subst hz; exact hO k _ hOk
  · exact hO k z hz

/-- THE INVARIANT, along any operation history over ANY hosts (shared addresses included): the fallback policy's lists
hold exactly the objects that stand for their key by the history -/
theorem owner_run (key : Host → Nat × Nat) (ops : List TAOp) :
    ∀ (t : TA) (O : Nat × Nat → Option Host),
    (∀ x, t.pol.key x = key x) → Inv t.pol → (∀ k z, O k = some z → key z = k) →
    (∀ x, known t.pol x ↔ O (key x) = some x) →
    Inv (ops.foldl TA.apply t).pol ∧ (∀ x, (ops.foldl TA.apply t).pol.key x = key x) ∧
      ∀ x, known (ops.foldl TA.apply t).pol x ↔ ownerFrom key (O (key x)) (evsOf ops) (key x) = some x := by
  induction ops with
  | nil => intro t O hk hp _ hs; exact ⟨hp, hk, hs⟩
  | cons o r ih =>
    intro t O hk hp hO hs
    rw [List.foldl_cons]
    have hk' : ∀ x, (t.apply o).pol.key x = key x := fun x => by
      rw [key_of_sameCfg t.pol _ (sameCfg_apply t o), hk]
    have hp' : Inv (t.apply o).pol := by
      rw [apply_pol]
      cases o with
      | add h => exact Inv_add _ hp h
      | remove h => exact Inv_remove _ hp h
      | hostUp h => exact Inv_add _ hp h
      | hostDown h => exact Inv_remove _ hp h
      | setReplicas ks tab => exact hp
      | pick up σ rk limit =>
        show Inv (t.pick up σ rk limit).1.pol
        rcases pick_pol t up σ rk limit with e | e <;> rw [e]
        · exact hp
        · exact Inv_bump _ hp
      | setCtr n => exact Inv_setCtr _ hp n
      | keyspaceChanged ks => exact hp
      | setMeta ks v => exact hp
    have hO' : ∀ k z, O k = some z → t.pol.key z = k := fun k z hz => by rw [hk]; exact hO k z hz
    have hs' : ∀ x, known t.pol x ↔ O (t.pol.key x) = some x := fun x => by rw [hk]; exact hs x
    have keep : (t.apply o).pol = t.pol ∨ (t.apply o).pol = t.pol.bump ∨ (∃ n, (t.apply o).pol = t.pol.setCtr n) → o.ev = none →
        Inv (r.foldl TA.apply (t.apply o)).pol ∧ (∀ x, (r.foldl TA.apply (t.apply o)).pol.key x = key x) ∧
        ∀ x, known (r.foldl TA.apply (t.apply o)).pol x ↔ ownerFrom key (O (key x)) (evsOf (o :: r)) (key x) = some x := by
      intro e1 e2
      have hev : evsOf (o :: r) = evsOf r := by
        unfold evsOf
        rw [List.filterMap_cons, e2]
      rw [hev]
      refine ih (t.apply o) O hk' hp' hO ?_
      intro x
      rcases e1 with e1 | e1 | ⟨n, e1⟩ <;> rw [e1]
      · exact hs x
      · exact hs x
      · exact hs x
    cases o with
    | add h =>
      have c := owner_add t.pol hp O h .add (Or.inl rfl) hO' hs'
      refine ih (t.add h) (fun k => if key h = k then ownerStep (O k) .add h else O k) hk' hp'
        (ownerStep_key key O h .add hO) ?_
      intro x
      have := c x
      rw [hk, hk] at this
      rw [← this]
      show known (t.apply (.add h)).pol x ↔ _
      rw [apply_pol]
    | hostUp h =>
      have c := owner_add t.pol hp O h .hup (Or.inr rfl) hO' hs'
      refine ih (t.hostUp h) (fun k => if key h = k then ownerStep (O k) .hup h else O k) hk' hp'
        (ownerStep_key key O h .hup hO) ?_
      intro x
      have := c x
      rw [hk, hk] at this
      rw [← this]
      rfl
    | remove h =>
      have c := owner_remove t.pol hp O h .remove (Or.inl rfl) hs'
      refine ih (t.remove h) (fun k => if key h = k then ownerStep (O k) .remove h else O k) hk' hp'
        (ownerStep_key key O h .remove hO) ?_
      intro x
      have := c x
      rw [hk, hk] at this
      rw [← this]
      show known (t.apply (.remove h)).pol x ↔ _
      rw [apply_pol]
    | hostDown h =>
      have c := owner_remove t.pol hp O h .hdown (Or.inr rfl) hs'
      refine ih (t.hostDown h) (fun k => if key h = k then ownerStep (O k) .hdown h else O k) hk' hp'
        (ownerStep_key key O h .hdown hO) ?_
      intro x
      have := c x
      rw [hk, hk] at this
      rw [← this]
      rfl
    | setReplicas ks tab => exact keep (Or.inl rfl) rfl
    | keyspaceChanged ks => exact keep (Or.inl (updateReplicas_fields t ks).1) rfl
    | setMeta ks v => exact keep (Or.inl rfl) rfl
    | setCtr n => exact keep (Or.inr (Or.inr ⟨n, rfl⟩)) rfl
    | pick up σ rk limit =>
      refine keep ?_ rfl
      rcases pick_pol t up σ rk limit with e | e
      · exact Or.inl e
      · exact Or.inr (Or.inl e)

/-- in every reachable state, any hosts: the fallback policy lists exactly the object that stands for each key -/
theorem owner_final (k : Kind) (ldc lrack : Nat) (sh nl ps : Bool) (sess : Option Nat) (ops : List TAOp) :
    let t := ops.foldl TA.apply (TA.new (Pol.new k ldc lrack) sh nl ps sess)
    let key := (Pol.new k ldc lrack).key
    Inv t.pol ∧ (∀ x, t.pol.key x = key x) ∧ ∀ x, known t.pol x ↔ ownerOf key (evsOf ops) (key x) = some x := by
  intro t key
  have := owner_run key ops (TA.new (Pol.new k ldc lrack) sh nl ps sess) (fun _ => none) (fun _ => rfl)
    (Inv_new k ldc lrack) (fun _ _ h => by cases h)
    (fun x => by simp [known, Pol.new, TA.new])
  exact this

/-! ### the token-aware policy's OWN list (`t.hosts`) per address

`t.hosts` is one list, changed by `AddHost` / `RemoveHost` only: the identity of a host object there is its connect
address alone. -/

/-- one call about an object `h` with the address: `AddHost` puts `h` there if the address is free, `RemoveHost` frees
the address, `HostUp` / `HostDown` do not touch the list -/
def taOwnerStep (o : Option Host) (e : Ev) (h : Host) : Option Host :=
  match e with
  | .add => (match o with | none => some h | some x => some x)
  | .remove => none
  | _ => o

/-- the object `t.hosts` holds for address `a`, by the history alone -/
def taOwnerFrom (o0 : Option Host) (evs : List (Ev × Host)) (a : Nat) : Option Host :=
  evs.foldl (fun o e => if e.2.addr = a then taOwnerStep o e.1 e.2 else o) o0

def taOwnerOf (evs : List (Ev × Host)) (a : Nat) : Option Host := taOwnerFrom none evs a

theorem taOwner_run (ops : List TAOp) :
    ∀ (t : TA) (O : Nat → Option Host),
    AddrNodup t.hosts → (∀ a z, O a = some z → z.addr = a) → (∀ x, x ∈ t.hosts ↔ O x.addr = some x) →
    AddrNodup (ops.foldl TA.apply t).hosts ∧
      ∀ x, x ∈ (ops.foldl TA.apply t).hosts ↔ taOwnerFrom (O x.addr) (evsOf ops) x.addr = some x := by
  induction ops with
  | nil => intro t O hn _ hs; exact ⟨hn, hs⟩
  | cons o r ih =>
    intro t O hn hO hs
    rw [List.foldl_cons]
    have keep : (t.apply o).hosts = t.hosts →
        (o.ev = none ∨ (∃ h, o.ev = some (.hup, h)) ∨ (∃ h, o.ev = some (.hdown, h))) →
        AddrNodup (r.foldl TA.apply (t.apply o)).hosts ∧
        ∀ x, x ∈ (r.foldl TA.apply (t.apply o)).hosts ↔ taOwnerFrom (O x.addr) (evsOf (o :: r)) x.addr = some x := by
      intro e1 e2
      have hev : evsOf (o :: r) = (match o.ev with | some e => [e] | none => []) ++ evsOf r := by
        unfold evsOf
        rw [List.filterMap_cons]
        cases o.ev <;> rfl
      have base := ih (t.apply o) O (by rw [e1]; exact hn) hO (by rw [e1]; exact hs)
      refine ⟨base.1, ?_⟩
      intro x
      rw [base.2 x, hev]
      rcases e2 with e2 | ⟨h, e2⟩ | ⟨h, e2⟩ <;> rw [e2]
      · rfl
      · show _ ↔ taOwnerFrom (if h.addr = x.addr then taOwnerStep (O x.addr) .hup h else O x.addr) (evsOf r) x.addr = some x
        have : (if h.addr = x.addr then taOwnerStep (O x.addr) .hup h else O x.addr) = O x.addr := by split <;> rfl
        rw [this]
      · show _ ↔ taOwnerFrom (if h.addr = x.addr then taOwnerStep (O x.addr) .hdown h else O x.addr) (evsOf r) x.addr = some x
        have : (if h.addr = x.addr then taOwnerStep (O x.addr) .hdown h else O x.addr) = O x.addr := by split <;> rfl
        rw [this]
    cases o with
    | add h =>
      have eh : (t.apply (.add h)).hosts = (cowAdd t.hosts h).1 := apply_hosts t (.add h)
      refine ih (t.apply (.add h)) (fun a => if h.addr = a then taOwnerStep (O a) .add h else O a)
        (by rw [eh]; exact cowAdd_inv _ _ hn) ?_ ?_
      · intro a z hz
        split at hz
        · rename_i hk
          cases hOa : O a <;> simp [taOwnerStep, hOa] at hz
          · subst hz; exact hk
          · subst hz; exact hO a _ hOa
        · exact hO a z hz
      · intro x
        rw [eh, mem_cowAdd]
        by_cases hk : h.addr = x.addr
        · rw [if_pos hk]
          cases hOx : O x.addr with
          | none =>
            simp only [taOwnerStep, Option.some.injEq]
            constructor
            · rintro (h1 | ⟨h1, _⟩)
              · rw [hs x, hOx] at h1; cases h1
              · exact h1.symm
            · intro h1
              refine Or.inr ⟨h1.symm, ?_⟩
              intro y hy hya
              rw [hs y, hya, hk, hOx] at hy
              cases hy
          | some z =>
            simp only [taOwnerStep, Option.some.injEq]
            constructor
            · rintro (h1 | ⟨h1, h2⟩)
              · rw [hs x, hOx] at h1; exact Option.some.inj h1
              · exfalso
                have hza : z.addr = x.addr := hO _ z hOx
                have hzm : z ∈ t.hosts := by rw [hs z, hza]; exact hOx
                exact h2 z hzm (by rw [hza, hk])
            · intro h1
              left
              rw [hs x, hOx, h1]
        · rw [if_neg hk, hs x]
          constructor
          · rintro (h1 | ⟨h1, _⟩)
            · exact h1
            · subst h1; exact absurd rfl hk
          · exact Or.inl
    | remove h =>
      have eh : (t.apply (.remove h)).hosts = (cowRemove t.hosts h.addr).1 := apply_hosts t (.remove h)
      refine ih (t.apply (.remove h)) (fun a => if h.addr = a then taOwnerStep (O a) .remove h else O a)
        (by rw [eh]; exact cowRemove_inv _ _ hn) ?_ ?_
      · intro a z hz
        split at hz
        · simp [taOwnerStep] at hz
        · exact hO a z hz
      · intro x
        rw [eh, mem_cowRemove]
        by_cases hk : h.addr = x.addr
        · rw [if_pos hk]
          simp only [taOwnerStep]
          constructor
          · rintro ⟨_, h2⟩; exact absurd hk.symm h2
          · intro h1; cases h1
        · rw [if_neg hk, hs x]
          exact ⟨fun h1 => h1.1, fun h1 => ⟨h1, fun e' => hk e'.symm⟩⟩
    | hostUp h => exact keep (apply_hosts t (.hostUp h)) (Or.inr (Or.inl ⟨h, rfl⟩))
    | hostDown h => exact keep (apply_hosts t (.hostDown h)) (Or.inr (Or.inr ⟨h, rfl⟩))
    | setReplicas ks tab => exact keep (apply_hosts t (.setReplicas ks tab)) (Or.inl rfl)
    | keyspaceChanged ks => exact keep (apply_hosts t (.keyspaceChanged ks)) (Or.inl rfl)
    | setMeta ks v => exact keep (apply_hosts t (.setMeta ks v)) (Or.inl rfl)
    | setCtr n => exact keep (apply_hosts t (.setCtr n)) (Or.inl rfl)
    | pick up σ rk limit => exact keep (apply_hosts t (.pick up σ rk limit)) (Or.inl rfl)

end C11
