import Proofs.C19Parse
import Proofs.C19Bits
import Proofs.C19Time
import Proofs.C19Decode
import Proofs.C19Gen
import Proofs.C19Order
import Proofs.C19Java
import Proofs.C19Conc
import Model.UuidErr
/-!
# C19 — UUIDs parse, print and carry time faithfully; generated time-UUIDs are unique (property theorems)

Model: `Model/Uuid.lean` (hand-written from /repo/uuid.go; tied to the source by the differential run of
`harness/cmd/c19`).  Spec: `Uuid.Spec` (RFC 4122 field layout, Cassandra `TimeUUIDType` order, the hyphenated
hex language).  A UUID is a `List UInt8` of length 16.
-/
namespace C19
open Uuid

/-- Printing then parsing gives the UUID back, for every 128-bit value. -/
theorem C19_parse_print (u : List UInt8) (h : u.length = 16) : parse (print u) = some u :=
  parse_print u h

/-- `String()` is 36 characters with hyphens at 8, 13, 18, 23. -/
theorem C19_print_shape (u : List UInt8) (h : u.length = 16) :
    (print u).length = 36 ∧ (print u)[8]? = some '-' ∧ (print u)[13]? = some '-' ∧
    (print u)[18]? = some '-' ∧ (print u)[23]? = some '-' :=
  ⟨print_length u h, print_hyphens u h⟩

/-- The language `ParseUUID` accepts, exactly: every rune is a hex digit or '-', there are exactly 32 hex
    digits, and every '-' is preceded by an EVEN number of digits (so a hyphen never splits a byte); the value
    is the digits' value.  NOTE this is wider than the canonical 8-4-4-4-12 form: any number of hyphens,
    also leading, trailing and repeated ones, at any byte boundary (see the examples below).  The property text
    only demands rejection of strings that are not "32 hex digits plus optional separating hyphens", which this
    gives (`C19_parse_rejects`). -/
theorem C19_parse_exact (s : List Char) (u : List UInt8) :
    parse s = some u ↔
      ((∀ c ∈ s, c = '-' ∨ Spec.isHex c = true) ∧ (Spec.digitsOf s).length = 32 ∧
       (∀ pre post, s = pre ++ '-' :: post → (Spec.digitsOf pre).length % 2 = 0) ∧
       u = pack (digitVals s)) := by
  unfold parse
  constructor
  · intro h
    cases hp : parseLoop s [] with
    | none => rw [hp] at h; cases h
    | some r =>
      rw [hp] at h
      obtain ⟨h1, h2, h3, h4⟩ := (parseLoop_iff s [] r).mp hp
      refine ⟨h1, by simpa using h2, fun pre post e => by simpa using h3 pre post e, ?_⟩
      simp at h; rw [← h, h4]; simp
  · rintro ⟨h1, h2, h3, rfl⟩
    have := (parseLoop_iff s [] (digitVals s)).mpr ⟨h1, by simpa using h2, fun pre post e => by simpa using h3 pre post e, by simp⟩
    rw [this]; rfl

/-- Everything that is not 32 hex digits plus hyphens is rejected: a rune that is neither (non-ASCII runes,
    U+FFFD from invalid UTF-8, 'g', braces, blanks, …), or a digit count other than 32. -/
theorem C19_parse_rejects (s : List Char)
    (h : (∃ c ∈ s, c ≠ '-' ∧ Spec.isHex c = false) ∨ (Spec.digitsOf s).length ≠ 32) : parse s = none := by
  cases hp : parse s with
  | none => rfl
  | some u =>
    obtain ⟨h1, h2, _, _⟩ := (C19_parse_exact s u).mp hp
    rcases h with ⟨c, hc, hne, hx⟩ | h
    · rcases h1 c hc with e | e
      · exact absurd e hne
      · rw [hx] at e; cases e
    · exact absurd h2 h

/-- a hyphen inside a byte is rejected -/
theorem C19_parse_rejects_split_byte (pre post : List Char) (h : (Spec.digitsOf pre).length % 2 = 1) :
    parse (pre ++ '-' :: post) = none := by
  cases hp : parse (pre ++ '-' :: post) with
  | none => rfl
  | some u =>
    have := ((C19_parse_exact _ u).mp hp).2.2.1 pre post rfl
    omega

/-- non-vacuity / what "optional separating hyphens" means for this parser -/
example : parse "00112233-4455-6677-8899-aabbccddeeff".toList =
    some [0x00,0x11,0x22,0x33,0x44,0x55,0x66,0x77,0x88,0x99,0xaa,0xbb,0xcc,0xdd,0xee,0xff] := by decide
example : (parse "--00-11-22-33445566778899AABBCCDDEEFF----".toList).isSome = true := by decide
example : parse "0-0112233445566778899aabbccddeeff".toList = none := by decide
example : parse "00112233-4455-6677-8899-aabbccddeef".toList = none := by decide
example : parse "00112233-4455-6677-8899-aabbccddeeff0".toList = none := by decide
example : parse "0011223g-4455-6677-8899-aabbccddeeff".toList = none := by decide

/-- A time-based UUID built from a 60-bit timestamp returns it, has version 1 and the RFC 4122 variant,
    keeps the clock sequence modulo 2^14 and the (zero-padded, 6-byte) node; and its fields are the RFC 4122
    fields (time_low / time_mid / time_hi_and_version, big-endian). -/
theorem C19_time_roundtrip (ts clk : Nat) (nd : List UInt8) (h : ts < 2 ^ 60) :
    timestamp (timeUUIDWith ts clk nd) = ts ∧ version (timeUUIDWith ts clk nd) = 1 ∧
    variant (timeUUIDWith ts clk nd) = 2 ∧ clock (timeUUIDWith ts clk nd) = clk % 2 ^ 14 ∧
    node (timeUUIDWith ts clk nd) = some (nodeBytes nd) ∧
    Spec.rfcTimestamp (timeUUIDWith ts clk nd) = ts ∧ Spec.rfcVersion (timeUUIDWith ts clk nd) = 1 ∧
    Spec.rfcVariantIETF (timeUUIDWith ts clk nd) :=
  ⟨timestamp_with ts clk nd h, version_with .., variant_with .., clock_with .., node_with ..,
   rfcTimestamp_with ts clk nd h, by rw [← version_eq_rfc _ (with_length ..)]; exact version_with ..,
   (variant_ietf_iff_rfc _ (with_length ..)).mp (variant_with ..)⟩

example : timestamp (timeUUIDWith 0x0FEDCBA987654321 0x1234 [1, 2, 3, 4, 5, 6]) = 0x0FEDCBA987654321 := by decide

/-- The accessors agree with the RFC 4122 layout on EVERY 16-byte value (not only on generated ones). -/
theorem C19_fields_rfc (u : List UInt8) (h : u.length = 16) :
    version u = Spec.rfcVersion u ∧ (variant u = 2 ↔ Spec.rfcVariantIETF u) ∧
    (version u = 1 → timestamp u = Spec.rfcTimestamp u) :=
  ⟨version_eq_rfc u h, variant_ietf_iff_rfc u h, timestamp_eq_rfc u h⟩

/-- time → UUID → time is exact to 100 ns over the whole representable range (1582-10-15 … 5236-03-31):
    no overflow in `getTimestamp`'s int64 arithmetic, and `Time()` returns the instant truncated to 100 ns. -/
theorem C19_time_exact (sec : Int) (nsec clk : Nat) (nd : List UInt8) (h : Representable sec nsec) :
    getTimestamp sec nsec = (sec - timeBase) * 10000000 + (nsec / 100 : Nat) ∧
    time (timeUUIDWith (bits64 (getTimestamp sec nsec)) clk nd) = some (sec, nsec / 100 * 100) :=
  ⟨getTimestamp_exact sec nsec h, time_roundtrip sec nsec clk nd h⟩

/-- 2023-11-14T22:13:20.123456789Z is representable (non-vacuity), and so are both ends of the range -/
example : Representable 1700000000 123456789 := by decide
example : Representable timeBase 0 ∧ Representable 103072857660 684697599 ∧ ¬ Representable 103072857660 684697600 := by
  decide

/-- Random UUIDs: whatever the 16 random bytes, the result has version 4 and the RFC 4122 variant, and only
    the 6 version/variant bits were touched. -/
theorem C19_random_v4 (u : List UInt8) (h : u.length = 16) :
    version (stampV4 u) = 4 ∧ variant (stampV4 u) = 2 ∧ (stampV4 u).length = 16 ∧
    (∀ i, i ≠ 6 → i ≠ 8 → byteAt (stampV4 u) i = byteAt u i) ∧
    byteAt (stampV4 u) 6 &&& 0x0F = byteAt u 6 &&& 0x0F ∧
    (byteAt (stampV4 u) 8 &&& 0x3F).toNat = (byteAt u 8).toNat % 64 :=
  stampV4_facts u h

/-- `RandomUUID` for every state of the random source: it reports success exactly when 16 bytes were delivered, a
    successful result always has version 4 and the RFC 4122 variant (so no unstamped value is ever returned as a
    UUID), and a failure is reported as an error (`MustRandomUUID`: a panic) with 16 bytes that start with what
    was read. -/
theorem C19_random_total (avail : List UInt8) :
    ((randomUUID avail).1 = true ↔ 16 ≤ avail.length) ∧
    ((randomUUID avail).1 = true → (randomUUID avail).2.length = 16 ∧ version (randomUUID avail).2 = 4 ∧
      variant (randomUUID avail).2 = 2) ∧
    ((randomUUID avail).1 = false → (randomUUID avail).2.length = 16 ∧ (randomUUID avail).2.take avail.length = avail) := by
  unfold randomUUID
  by_cases h : 16 ≤ avail.length
  · simp only [h, if_true, true_iff, forall_const]
    have hl : (avail.take 16).length = 16 := by simp; omega
    have := stampV4_facts (avail.take 16) hl
    refine ⟨trivial, ⟨?_, this.1, this.2.1⟩, by simp⟩
    simp [stampV4, hl]
  · simp only [h, if_false]
    refine ⟨by simp, by simp, fun _ => ⟨by simp; omega, by simp⟩⟩

example : randomUUID (List.replicate 15 0xff) = (false, List.replicate 15 0xff ++ [0]) := by decide

/-- Min/MaxTimeUUID bound every RFC 4122 version-1 UUID of the same instant under Cassandra's order
    (timestamp first, then the low 8 bytes compared as SIGNED bytes). -/
theorem C19_min_max_bound (ts : Nat) (hts : ts < 2 ^ 60) (u : List UInt8) (hl : u.length = 16)
    (hv : version u = 1) (hvar : variant u = 2) (ht : timestamp u = ts) :
    Spec.cassLe (timeUUIDWith ts minClock minNode) u = true ∧
    Spec.cassLe u (timeUUIDWith ts maxClock maxNode) = true :=
  min_max_bound ts hts u hl hv hvar ht

/-- the same for the API taking a time: every v1 UUID whose `Timestamp()` is that of the instant -/
theorem C19_min_max_bound_time (sec : Int) (nsec : Nat) (hr : Representable sec nsec) (u : List UInt8)
    (hl : u.length = 16) (hv : version u = 1) (hvar : variant u = 2)
    (ht : (timestamp u : Int) = getTimestamp sec nsec) :
    Spec.cassLe (minTimeUUID sec nsec) u = true ∧ Spec.cassLe u (maxTimeUUID sec nsec) = true := by
  obtain ⟨hb, hlt⟩ := bits64_getTimestamp sec nsec hr
  have : timestamp u = bits64 (getTimestamp sec nsec) := by
    rw [getTimestamp_exact sec nsec hr] at ht; omega
  exact min_max_bound _ hlt u hl hv hvar this

/-- a signed-byte order is needed: 0x80 sorts below 0x7f here (non-vacuity of the "signed" part) -/
example : Spec.sLexLe [0x80] [0x7f] = true ∧ Spec.sLexLe [0x7f] [0x80] = false := by decide

/-! ### Cassandra's order at full strength: the bounds are EXACT, and they delimit time ranges

`MinTimeUUID` / `MaxTimeUUID` exist "to select a time range of a Cassandra's TimeUUID column" (uuid.go). What such a
query selects is decided by Cassandra's comparison alone; the theorems below say which version-1 RFC 4122 UUIDs
that is, for every pair of representable instants and every UUID. -/

/-- Cassandra's comparison (`Spec.cassLe`: timestamp, then the low 8 bytes as signed bytes) is a total preorder on
    all byte strings, and antisymmetric on what it compares: two 16-byte values each ≤ the other have the same
    timestamp field and the same clock-sequence and node bytes. -/
theorem C19_cass_order (u v w : List UInt8) :
    Spec.cassLe u u = true ∧
    (Spec.cassLe u v = true ∨ Spec.cassLe v u = true) ∧
    (Spec.cassLe u v = true → Spec.cassLe v w = true → Spec.cassLe u w = true) ∧
    (u.length = 16 → v.length = 16 → Spec.cassLe u v = true → Spec.cassLe v u = true →
      Spec.rfcTimestamp u = Spec.rfcTimestamp v ∧ u.drop 8 = v.drop 8) :=
  ⟨cassLe_refl u, cassLe_total u v, cassLe_trans u v w, cassLe_antisymm u v⟩

/-- Two formulations of Cassandra's `TimeUUIDType` comparison agree, for all pairs of version-1 16-byte values:
    the byte formulation `Spec.cassLe` (timestamp, then the low 8 bytes as signed bytes — Cassandra ≤ 2.x and the
    comment in uuid.go) and the long-arithmetic formulation `Spec.javaLe` (Cassandra 3.x / 4.x `compareCustom`:
    `Long.compare` of `reorderTimestampBytes(msb)`, then of `lsb ^ 0x0080808080808080`), both transliterated as
    recalled.  So every theorem here about `cassLe` is a theorem about either. -/
theorem C19_cass_java_agree (u v : List UInt8) (hu : u.length = 16) (hv : v.length = 16)
    (vu : version u = 1) (vv : version v = 1) : Spec.javaLe u v = Spec.cassLe u v :=
  java_agree u v hu hv vu vv

example : Spec.javaLe (timeUUIDWith 5 0x8080 [0x80, 0x80, 0x80, 0x80, 0x80, 0x80]) (timeUUIDWith 5 0x7f7f [0x7f, 0x7f, 0x7f, 0x7f, 0x7f, 0x7f]) = true ∧
    Spec.javaLe (timeUUIDWith 5 0x7f7f [0x7f, 0x7f, 0x7f, 0x7f, 0x7f, 0x7f]) (timeUUIDWith 5 0x8080 [0x80, 0x80, 0x80, 0x80, 0x80, 0x80]) = false := by
  decide

/-- The bounds of an instant are EXACT: a version-1 RFC 4122 UUID lies between `MinTimeUUID(t)` and
    `MaxTimeUUID(t)` under Cassandra's order IF AND ONLY IF its timestamp is `t`'s 100 ns tick
    (`C19_min_max_bound_time` is the direction ⇐). -/
theorem C19_min_max_exact (sec : Int) (nsec : Nat) (hr : Representable sec nsec) (u : List UInt8)
    (hl : u.length = 16) (hv : version u = 1) (hvar : variant u = 2) :
    (Spec.cassLe (minTimeUUID sec nsec) u = true ∧ Spec.cassLe u (maxTimeUUID sec nsec) = true) ↔
    timestamp u = tick (sec, nsec) := by
  rw [min_le_iff (sec, nsec) hr u hl hv hvar, le_max_iff (sec, nsec) hr u hl hv hvar]
  omega

/-- Inclusive range `id >= minTimeuuid(a) AND id <= maxTimeuuid(b)`: selects exactly the version-1 RFC 4122 UUIDs
    whose timestamp lies in `[tick a, tick b]` — none of instant `a` or `b` is lost, none outside is included. -/
theorem C19_range_inclusive (a b : Int × Nat) (ha : Representable a.1 a.2) (hb : Representable b.1 b.2)
    (u : List UInt8) (hl : u.length = 16) (hv : version u = 1) (hvar : variant u = 2) :
    (Spec.cassLe (minTimeUUID a.1 a.2) u = true ∧ Spec.cassLe u (maxTimeUUID b.1 b.2) = true) ↔
    (tick a ≤ timestamp u ∧ timestamp u ≤ tick b) := by
  rw [min_le_iff a ha u hl hv hvar, le_max_iff b hb u hl hv hvar]

/-- Exclusive range `id > maxTimeuuid(a) AND id < minTimeuuid(b)` (strictly above / below = not ≤ / not ≥):
    selects exactly the UUIDs whose timestamp lies strictly between the two ticks — every UUID of instant `a` and
    of instant `b` is excluded, whatever its clock sequence and node. -/
theorem C19_range_exclusive (a b : Int × Nat) (ha : Representable a.1 a.2) (hb : Representable b.1 b.2)
    (u : List UInt8) (hl : u.length = 16) (hv : version u = 1) (hvar : variant u = 2) :
    (Spec.cassLe u (maxTimeUUID a.1 a.2) = false ∧ Spec.cassLe (minTimeUUID b.1 b.2) u = false) ↔
    (tick a < timestamp u ∧ timestamp u < tick b) := by
  rw [max_lt_iff a ha u hl hv hvar, lt_min_iff b hb u hl hv hvar]

/-- The bounds of different ticks never overlap: if `a`'s tick is before `b`'s, everything of instant `a`
    (up to and including `MaxTimeUUID(a)`) is strictly below everything of instant `b` (from `MinTimeUUID(b)` on);
    and instants are mapped to ticks monotonically (`(sec - base)·10^7 + nsec/100`, exactly). -/
theorem C19_bounds_monotone (a b : Int × Nat) (ha : Representable a.1 a.2) (hb : Representable b.1 b.2) :
    (readingLe a b → tick a ≤ tick b) ∧
    (tick a < tick b →
      Spec.cassLe (maxTimeUUID a.1 a.2) (minTimeUUID b.1 b.2) = true ∧
      Spec.cassLe (minTimeUUID b.1 b.2) (maxTimeUUID a.1 a.2) = false) ∧
    Spec.cassLe (minTimeUUID a.1 a.2) (maxTimeUUID a.1 a.2) = true := by
  refine ⟨tick_mono a b ha hb, fun h => ?_, ?_⟩
  · exact cassLe_of_ts_lt _ _ (by rw [rfcTs_max a ha, rfcTs_min b hb]; exact h)
  · apply (min_le_iff a ha _ (with_length ..) (version_with ..) (variant_with ..)).mpr
    rw [timestamp_eq_rfc _ (with_length ..) (version_with ..)]
    exact Nat.le_of_eq (rfcTs_max a ha).symm

/-- GENERATED time-UUIDs under Cassandra's order: whatever the counter values and nodes (also of different
    processes), a UUID generated from an instant of an earlier tick sorts strictly below one generated from an
    instant of a later tick, and every generated UUID lies within the Min/Max bounds of its own instant — so a
    time-range query finds exactly the generated UUIDs of the instants it names. (Within one tick the order is by
    clock sequence and node as signed bytes, i.e. NOT by generation order.) -/
theorem C19_generated_cass_order (c c' : Nat) (hw hw' : List UInt8) (a b : Int × Nat)
    (ha : Representable a.1 a.2) (hb : Representable b.1 b.2) :
    (tick a < tick b →
      Spec.cassLe (timeUUID c hw a).1 (timeUUID c' hw' b).1 = true ∧
      Spec.cassLe (timeUUID c' hw' b).1 (timeUUID c hw a).1 = false) ∧
    Spec.cassLe (minTimeUUID a.1 a.2) (timeUUID c hw a).1 = true ∧
    Spec.cassLe (timeUUID c hw a).1 (maxTimeUUID a.1 a.2) = true := by
  have hts : ∀ (c : Nat) (hw : List UInt8) (x : Int × Nat), Representable x.1 x.2 →
      Spec.rfcTimestamp (timeUUID c hw x).1 = tick x := by
    intro c hw x hx
    simp only [timeUUID, uuidFromTime]
    rw [(tick_eq_bits x hx).1, rfcTimestamp_with _ _ _ (tick_eq_bits x hx).2]
  refine ⟨fun h => cassLe_of_ts_lt _ _ (by rw [hts c hw a ha, hts c' hw' b hb]; exact h), ?_⟩
  have hu : (timeUUID c hw a).1 = timeUUIDWith (bits64 (getTimestamp a.1 a.2)) ((c + 1) % 2 ^ 32) hw := rfl
  have hts' : timestamp (timeUUID c hw a).1 = tick a := by
    rw [hu, timestamp_with_mod]; rfl
  exact (C19_min_max_exact a.1 a.2 ha _ (by rw [hu]; exact with_length ..) (by rw [hu]; exact version_with ..)
    (by rw [hu]; exact variant_with ..)).mpr hts'

/-- within one tick Cassandra's order is not generation order: the counter crossing 0x3fff → 0x4000 (clock field
    wraps to 0) or 0x..7f → 0x..80 in the low clock byte (signed bytes) sorts the LATER UUID first -/
example : Spec.cassLe (timeUUID 0x7f [1, 2, 3, 4, 5, 6] (1700000000, 0)).1 (timeUUID 0x7e [1, 2, 3, 4, 5, 6] (1700000000, 0)).1 = true ∧
    Spec.cassLe (timeUUID 0x7e [1, 2, 3, 4, 5, 6] (1700000000, 0)).1 (timeUUID 0x7f [1, 2, 3, 4, 5, 6] (1700000000, 0)).1 = false := by
  decide

/-- "RFC 4122" in the property text is needed: a version-1 value of the same timestamp whose variant bits are
    not `10` (byte 8 = 0x7f, a legal NCS-variant value) sorts ABOVE `MaxTimeUUID` — the maximum's own byte 8 is
    0xbf (= -65 signed) because `TimeUUIDWith` stamps the variant over the clock constant 0x7f7f. -/
theorem C19_cex_bound_needs_variant :
    version [0, 0, 0, 0, 0, 0, 0x10, 0, 0x7f, 0, 0, 0, 0, 0, 0, 0] = 1 ∧
    timestamp [0, 0, 0, 0, 0, 0, 0x10, 0, 0x7f, 0, 0, 0, 0, 0, 0, 0] = tick (timeBase, 0) ∧
    Spec.cassLe [0, 0, 0, 0, 0, 0, 0x10, 0, 0x7f, 0, 0, 0, 0, 0, 0, 0] (maxTimeUUID timeBase 0) = false := by
  decide

/-- non-vacuity: an instant, a UUID of the next tick, and the ranges that do / do not contain it -/
example : tick (1700000000, 123456789) = 139192928000000000 + 1234567 := by decide
example : Spec.cassLe (timeUUIDWith (139192928000000000 + 1234568) 0x8080 [0x80, 0x80, 0x80, 0x80, 0x80, 0x80])
    (maxTimeUUID 1700000000 123456789) = false := by decide

/-! ## The decoding entry points and the DESTINATION they are called on
Model: `Model/UuidDecode.lean` — `ParseUUID` as written (every digit OR-ed into an array), `UnmarshalText`,
`UnmarshalJSON`, the CQL `unmarshalUUID`, each as a function (destination before, input) ↦ (err == nil, destination
after).  The harness ops `utext`, `ujson`, `jsonu`, `ucql`, `useq`, `rtdirty` run the real functions on destinations
that already hold a value; the model's answers are fixed by the theorems below. -/

/-- `ParseUUID` as the code has it — `var u UUID` (zero) and `u[j/2] |= byte(nib) << uint(4-j&1*4)` per digit —
    computes exactly `parse`, whose language and value `C19_parse_exact` characterises. -/
theorem C19_parseUUID_eq_parse (s : List Char) : parseUUID s = parse s := parseUUID_eq_parse s

/-- The loop's invariant for an ARBITRARY initial content of the array: the digits are merged (bitwise OR) into
    what is already there.  The result is the parsed value only because `ParseUUID` starts from a fresh zero
    array; running the same loop directly on a destination that holds a value yields old|new
    (`C19_cex_parse_into_dirty`). -/
theorem C19_parse_into_or (dst : List UInt8) (h : dst.length = 16) (s : List Char) :
    parseLoopArr s dst 0 = (parse s).map (orBytes dst) := parseLoopArr_or dst h s

theorem C19_cex_parse_into_dirty :
    parseLoopArr "00000000-0000-0000-0000-000000000001".toList (List.replicate 16 0x80) 0 ≠
      parse "00000000-0000-0000-0000-000000000001".toList := by decide

/-- `UnmarshalText`, for every destination content and every byte string: success exactly on the accepted
    language, the destination then IS the parsed value; on an error the destination is the zero UUID
    (`*u, err = ParseUUID(..)` assigns the `UUID{}` that `ParseUUID` returns with an error). -/
theorem C19_unmarshal_text_spec (dst text : List UInt8) :
    unmarshalText dst text = match parse (runes text) with
      | some u => (true, u)
      | none => (false, zero16) := by
  simp only [unmarshalText, parseUUID_eq_parse]
  rfl

/-- `UnmarshalJSON`, for every destination content and every byte string: all leading/trailing `"` trimmed, more
    than 36 remaining bytes → error, then the text parser; the destination is written only on success and then
    IS the parsed value; on an error it is untouched. -/
theorem C19_unmarshal_json_spec (dst data : List UInt8) :
    unmarshalJSON dst data =
      if (trimQuotes data).length > 36 then (false, dst)
      else match parse (runes (trimQuotes data)) with
        | some u => (true, u)
        | none => (false, dst) := by
  simp only [unmarshalJSON, parseUUID_eq_parse]
  rfl

/-- The CQL decoder: a 16-byte column value overwrites the destination (`*UUID`, `*[16]byte`, `*[]byte`: the
    bytes; `*string`: the canonical text), a null/empty value sets the zero value (`*[16]byte`: error), any other
    length is an error that leaves the destination untouched — whatever the destination held. -/
theorem C19_cql_unmarshal_spec (data : List UInt8) :
    (data.length = 16 → ∀ p, unmarshalCQL data (.uuid p) = (true, .uuid data) ∧
        unmarshalCQL data (.arr p) = (true, .arr data) ∧
        (∀ q, unmarshalCQL data (.bytes q) = (true, .bytes (some data))) ∧
        unmarshalCQL data (.str p) = (true, .str (asciiBytes (print data)))) ∧
    (data.length = 0 → ∀ p, unmarshalCQL data (.uuid p) = (true, .uuid zero16) ∧
        unmarshalCQL data (.arr p) = (false, .arr p) ∧
        (∀ q, unmarshalCQL data (.bytes q) = (true, .bytes none)) ∧
        unmarshalCQL data (.str p) = (true, .str [])) ∧
    (data.length ≠ 0 → data.length ≠ 16 → ∀ d, unmarshalCQL data d = (false, d)) := by
  refine ⟨fun h p => ?_, fun h p => ?_, fun h0 h16 d => ?_⟩
  · simp [unmarshalCQL, h]
  · simp [unmarshalCQL, h]
  · simp [unmarshalCQL, h0, h16]

theorem applyStep_cql (dst data : List UInt8) :
    applyStep dst (.cql data) =
      if data.length = 0 then (true, zero16) else if data.length ≠ 16 then (false, dst) else (true, data) := by
  by_cases h0 : data.length = 0
  · simp [applyStep, unmarshalCQL, h0]
  · by_cases h16 : data.length = 16
    · simp [applyStep, unmarshalCQL, h16]
    · simp [applyStep, unmarshalCQL, h0, h16]

/-- `C19_decode_independent_of_destination`: what a decode does never depends on what the destination held:
    the status is the same for any two destination contents, and after a SUCCESSFUL decode the destination is
    the same value (by the `_spec` theorems: the parsed value / the column bytes) — for `UnmarshalText`,
    `UnmarshalJSON` and the CQL decode into `*UUID`. -/
theorem C19_decode_independent_of_destination (d1 d2 : List UInt8) (s : Step) :
    (applyStep d1 s).1 = (applyStep d2 s).1 ∧
    ((applyStep d1 s).1 = true → (applyStep d1 s).2 = (applyStep d2 s).2) := by
  cases s with
  | text t => simp [applyStep, unmarshalText]
  | json d =>
    simp only [applyStep, unmarshalJSON]
    split
    · simp
    · split <;> simp
  | cql d =>
    rw [applyStep_cql, applyStep_cql]
    split
    · simp
    · split <;> simp

/-- what a FAILED decode leaves: `UnmarshalText` the zero UUID, `UnmarshalJSON` and the CQL decode the old value -/
theorem C19_decode_failed_destination (dst : List UInt8) (s : Step) (h : (applyStep dst s).1 = false) :
    (applyStep dst s).2 = match s with
      | .text _ => zero16
      | .json _ => dst
      | .cql _ => dst := by
  cases s with
  | text t =>
    simp only [applyStep, unmarshalText] at h ⊢
    split at h <;> simp_all
  | json d =>
    simp only [applyStep, unmarshalJSON] at h ⊢
    split
    · rfl
    · cases hp : parseUUID (runes (trimQuotes d)) <;> simp_all
  | cql d =>
    rw [applyStep_cql] at h ⊢
    split at h
    · simp at h
    · split at h <;> simp_all

/-- a successful text / JSON decode stores the parsed value of the (trimmed) text -/
theorem C19_decode_success_is_parse (dst : List UInt8) :
    (∀ t, (unmarshalText dst t).1 = true → parse (runes t) = some (unmarshalText dst t).2) ∧
    (∀ d, (unmarshalJSON dst d).1 = true → parse (runes (trimQuotes d)) = some (unmarshalJSON dst d).2) := by
  constructor
  · intro t h
    rw [C19_unmarshal_text_spec] at h ⊢
    split at h <;> simp_all
  · intro d h
    rw [C19_unmarshal_json_spec] at h ⊢
    by_cases hlen : (trimQuotes d).length > 36
    · simp [hlen] at h
    · simp only [hlen, if_false] at h ⊢
      cases hp : parse (runes (trimQuotes d)) <;> simp_all

/-- Sequences on ONE destination (decode a, then b, then an invalid text, then c, …): whenever the last step
    succeeds, the destination afterwards is what that step alone gives on ANY destination — nothing of the
    history (earlier values, failed decodes) survives. -/
theorem C19_decode_seq_last_wins (dst d' : List UInt8) (ss : List Step) (s : Step)
    (h : (applyStep d' s).1 = true) : finalDst dst (ss ++ [s]) = (applyStep d' s).2 := by
  simp only [finalDst, List.foldl_append, List.foldl_cons, List.foldl_nil]
  have := C19_decode_independent_of_destination d' (List.foldl (fun d s => (applyStep d s).2) dst ss) s
  exact (this.2 h).symm

/-- `runSeq` (what the `useq` op prints) ends in the destination `finalDst` -/
theorem C19_runSeq_final (ss : List Step) : ∀ (dst : List UInt8),
    ((runSeq dst ss).getLast?.map (·.2)).getD dst = finalDst dst ss := by
  induction ss with
  | nil => intro dst; rfl
  | cons s ss ih =>
    intro dst
    have := ih (applyStep dst s).2
    simp only [runSeq, finalDst, List.foldl_cons] at this ⊢
    rw [← this]
    cases h : runSeq (applyStep dst s).2 ss with
    | nil => simp
    | cons a b =>
      obtain ⟨x, hx⟩ : ∃ x, (a :: b).getLast? = some x := ⟨_, List.getLast?_eq_some_getLast (by simp)⟩
      simp [List.getLast?_cons_cons, hx]

/-- The print/parse round trip through every pair of printer and decoder holds on a DIRTY destination:
    `String()` = `MarshalText()` → `UnmarshalText` / `UnmarshalJSON` (bare), `MarshalJSON()` (quoted) →
    `UnmarshalJSON`, the CQL `*string` → `ParseUUID`/`marshalUUID(string)`, whatever the destination held. -/
theorem C19_roundtrip_dirty (dst u : List UInt8) (h : u.length = 16) :
    unmarshalText dst (asciiBytes (print u)) = (true, u) ∧
    unmarshalJSON dst (34 :: asciiBytes (print u) ++ [34]) = (true, u) ∧
    unmarshalJSON dst (asciiBytes (print u)) = (true, u) ∧
    (∀ p, unmarshalCQL u (.str p) = (true, .str (asciiBytes (print u)))) ∧
    marshalCQL (.str (asciiBytes (print u))) = some u := by
  obtain ⟨hne, hh, hl, hlen⟩ := print_bytes_facts u h
  obtain ⟨t1, t2⟩ := trimQuotes_quoted _ hne hh hl
  refine ⟨?_, ?_, ?_, ?_, ?_⟩
  · rw [C19_unmarshal_text_spec, runes_print, parse_print u h]
  · rw [C19_unmarshal_json_spec, t1, runes_print, parse_print u h, hlen]; simp
  · rw [C19_unmarshal_json_spec, t2, runes_print, parse_print u h, hlen]; simp
  · intro p; simp [unmarshalCQL, h]
  · simp only [marshalCQL, parseUUID_eq_parse, runes_print, parse_print u h]

/-- The same JSON key twice (`{"id":A,"id":B}`): encoding/json decodes both into the SAME field; if all
    occurrences decode, the field holds the parsed value of the LAST one, whatever it held before and whatever
    the earlier occurrences were. -/
theorem C19_json_dup_keys_last_wins (ls : List (List UInt8)) : ∀ (dst : List UInt8) (l : List UInt8),
    (jsonCalls dst (ls ++ [l])).1 = true →
    parse (runes (trimQuotes l)) = some (jsonCalls dst (ls ++ [l])).2 := by
  induction ls with
  | nil =>
    intro dst l h
    simp only [List.nil_append, jsonCalls] at h ⊢
    split at h
    · rename_i h1
      simp only [jsonCalls] at h ⊢
      rw [if_pos h1]
      exact (C19_decode_success_is_parse dst).2 l h1
    · rename_i h1
      simp [h1] at h
  | cons a ls ih =>
    intro dst l h
    simp only [List.cons_append, jsonCalls] at h ⊢
    split
    · rename_i h1
      rw [if_pos h1] at h
      exact ih _ l h
    · rename_i h1
      rw [if_neg h1] at h
      exact absurd h h1

/-- CQL marshal → unmarshal through every pair of value kind and destination kind, on a dirty destination:
    `marshalUUID` of a UUID / [16]byte / 16-byte []byte / canonical string is the 16 bytes, and `unmarshalUUID`
    of those stores them (as the canonical text for `*string`) whatever the destination held. -/
theorem C19_cql_marshal_unmarshal (u : List UInt8) (h : u.length = 16) :
    marshalCQL (.uuid u) = some u ∧ marshalCQL (.arr u) = some u ∧ marshalCQL (.bytes (some u)) = some u ∧
    marshalCQL (.str (asciiBytes (print u))) = some u ∧
    (∀ b, b.length ≠ 16 → marshalCQL (.bytes (some b)) = none) ∧
    (∀ p, unmarshalCQL u (.uuid p) = (true, .uuid u) ∧ unmarshalCQL u (.arr p) = (true, .arr u) ∧
          unmarshalCQL u (.str p) = (true, .str (asciiBytes (print u)))) ∧
    (∀ q, unmarshalCQL u (.bytes q) = (true, .bytes (some u))) := by
  refine ⟨rfl, rfl, by simp [marshalCQL, h], (C19_roundtrip_dirty [] u h).2.2.2.2, ?_, ?_, ?_⟩
  · intro b hb; simp [marshalCQL, hb]
  · intro p; simp [unmarshalCQL, h]
  · intro q; simp [unmarshalCQL, h]

/-- A timeuuid column read into a `*time.Time`: for every representable instant, the time-UUID built from it
    (any clock, any node) decodes to that instant truncated to 100 ns, whatever the destination held; anything
    that is not a 16-byte version-1 value (also a null) is an error that leaves the destination untouched. -/
theorem C19_cql_time_destination (sec : Int) (nsec clk : Nat) (nd : List UInt8) (h : Representable sec nsec)
    (prev : Int × Nat) :
    unmarshalCQLTime true (timeUUIDWith (bits64 (getTimestamp sec nsec)) clk nd) prev = (true, (sec, nsec / 100 * 100)) ∧
    (∀ data, data.length ≠ 16 → unmarshalCQLTime true data prev = (false, prev)) ∧
    (∀ data, version data ≠ 1 → unmarshalCQLTime true data prev = (false, prev)) ∧
    (∀ data, unmarshalCQLTime false data prev = (false, prev)) := by
  refine ⟨?_, ?_, ?_, ?_⟩
  · simp only [unmarshalCQLTime, with_length, time_roundtrip sec nsec clk nd h]
    simp
  · intro data hd; simp [unmarshalCQLTime, hd]
  · intro data hv
    simp only [unmarshalCQLTime, time, hv]
    split <;> simp
  · intro data; simp [unmarshalCQLTime]

/-- Nullable destinations (`**UUID`, `**[16]byte`, `**[]byte`, `**string`) of `gocql.Unmarshal`, for every column
    value and whatever the pointer pointed to before: a null column gives a nil pointer; a 16-byte value gives a
    pointer to exactly that value (canonical text for `**string`); every other value gives a pointer to a FRESH
    value — the zero value with an error for a wrong length, the empty value for an empty column (`**[16]byte`:
    error) — never a half-written or stale one. -/
theorem C19_cql_nullable_spec (data : List UInt8) (k : Dst) :
    unmarshalNullable none k = (true, none) ∧
    (data.length = 16 → ∀ p, unmarshalNullable (some data) (.uuid p) = (true, some (.uuid data)) ∧
        unmarshalNullable (some data) (.arr p) = (true, some (.arr data)) ∧
        (∀ q, unmarshalNullable (some data) (.bytes q) = (true, some (.bytes (some data)))) ∧
        unmarshalNullable (some data) (.str p) = (true, some (.str (asciiBytes (print data))))) ∧
    (data.length = 0 → ∀ p, unmarshalNullable (some data) (.uuid p) = (true, some (.uuid zero16)) ∧
        unmarshalNullable (some data) (.arr p) = (false, some (.arr zero16)) ∧
        (∀ q, unmarshalNullable (some data) (.bytes q) = (true, some (.bytes none))) ∧
        unmarshalNullable (some data) (.str p) = (true, some (.str []))) ∧
    (data.length ≠ 0 → data.length ≠ 16 → unmarshalNullable (some data) k = (false, some k.zero)) := by
  refine ⟨rfl, fun h p => ?_, fun h p => ?_, fun h0 h16 => ?_⟩
  · simp [unmarshalNullable, Dst.zero, unmarshalCQL, h]
  · simp [unmarshalNullable, Dst.zero, unmarshalCQL, h]
  · simp [unmarshalNullable, unmarshalCQL, h0, h16]

/-- `*UUID` values round-trip through a nullable column: nil pointer ↦ null ↦ nil pointer, a pointer to `u` ↦ the
    16 bytes ↦ a (fresh) pointer to `u`; and a `**time.Time` reading a timeuuid column of a representable instant
    gets a pointer to that instant (to 100 ns), a null gives a nil pointer, anything else an error and a pointer to
    the zero time. -/
theorem C19_cql_nullable_roundtrip (u : Option (List UInt8)) (h : ∀ v, u = some v → v.length = 16) (p : List UInt8) :
    ∃ col, marshalPtr u = some col ∧ unmarshalNullable col (.uuid p) = (true, u.map .uuid) := by
  cases u with
  | none => exact ⟨none, rfl, rfl⟩
  | some v =>
    refine ⟨some v, rfl, ?_⟩
    have := h v rfl
    simp [unmarshalNullable, Dst.zero, unmarshalCQL, this]

theorem C19_cql_nullable_time (sec : Int) (nsec clk : Nat) (nd : List UInt8) (h : Representable sec nsec) :
    unmarshalNullableTime true (some (timeUUIDWith (bits64 (getTimestamp sec nsec)) clk nd)) =
      (true, some (sec, nsec / 100 * 100)) ∧
    (∀ tu, unmarshalNullableTime tu none = (true, none)) ∧
    (∀ d, d.length ≠ 16 → unmarshalNullableTime true (some d) = (false, some zeroTime)) ∧
    (∀ d, unmarshalNullableTime false (some d) = (false, some zeroTime)) := by
  refine ⟨?_, fun _ => rfl, fun d hd => ?_, fun d => ?_⟩
  · have := (C19_cql_time_destination sec nsec clk nd h zeroTime)
    simp only [unmarshalNullableTime]
    rw [this.1]
  · simp [unmarshalNullableTime, unmarshalCQLTime, hd]
  · simp [unmarshalNullableTime, unmarshalCQLTime]

/-- non-vacuity, and two things worth knowing about `UnmarshalJSON`: (1) it is STRICTER than `ParseUUID` on long
    texts (more than 4 extra hyphens → error); (2) it never looks at the JSON token kind: a 32-digit JSON NUMBER
    (also negative, also with an exponent letter, `e` being a hex digit) decodes as a UUID. -/
example : unmarshalText (List.replicate 16 0xff) (asciiBytes "00112233-4455-6677-8899-aabbccddeeff".toList) =
    (true, [0x00,0x11,0x22,0x33,0x44,0x55,0x66,0x77,0x88,0x99,0xaa,0xbb,0xcc,0xdd,0xee,0xff]) := by decide
example : unmarshalText (List.replicate 16 0xff) (asciiBytes "00112233-4455-6677-8899-aabbccddeefg".toList) =
    (false, zero16) := by decide
example : unmarshalJSON (List.replicate 16 0xff) (asciiBytes "\"\"00112233-4455-6677-8899-aabbccddeefg\"".toList) =
    (false, List.replicate 16 0xff) := by decide
example : (unmarshalJSON zero16 (asciiBytes "-12345678901234567890123456789e12".toList)).1 = true := by decide
example : (parse "--00-11-22-33445566778899AABBCCDDEEFF----".toList).isSome = true ∧
    (unmarshalJSON zero16 (asciiBytes "--00-11-22-33445566778899AABBCCDDEEFF----".toList)).1 = false := by decide

/-- FULL STATEMENT (not provable, and false for the unchanged code and for any RFC 4122 v1 generator with a
    14-bit clock sequence): "time-UUIDs generated concurrently from the current time in one process are pairwise
    distinct, for any number of generators".
    Proved part: each call of `UUIDFromTime` is one atomic `AddUint32` followed by pure code, so any schedule of
    any number of concurrent callers is a sequence `tms` of such steps (with whatever clock readings, not even
    monotone); up to 16384 UUIDs handed out this way are pairwise distinct — whatever the times. -/
theorem C19_unique_partial (hw : List UInt8) (clockSeq : Nat) (tms : List (Int × Nat))
    (h : tms.length ≤ 16384) : (gens hw clockSeq tms).Pairwise (· ≠ ·) :=
  gens_pairwise hw tms clockSeq h

/-- two time-UUIDs are equal only if the timestamps agree mod 2^60 and the clock sequences mod 2^14 -/
theorem C19_unique_fields (t1 t2 c1 c2 : Nat) (n1 n2 : List UInt8)
    (h : t1 % 2 ^ 60 ≠ t2 % 2 ^ 60 ∨ c1 % 2 ^ 14 ≠ c2 % 2 ^ 14) :
    timeUUIDWith t1 c1 n1 ≠ timeUUIDWith t2 c2 n2 := by
  intro e
  have := with_inj _ _ _ _ _ _ e
  omega

/-- counterexample to the full statement: the 1st and the 16385th UUID of one 100 ns clock reading coincide -/
theorem C19_cex_unique :
    (uuidFromTime 0 [1, 2, 3, 4, 5, 6] 1700000000 0).1 = (uuidFromTime 16384 [1, 2, 3, 4, 5, 6] 1700000000 0).1 := by
  decide

/-! ### the generator over a stream of clock readings (`Model/UuidGen.lean`): uniqueness under bursts

`TimeUUID()` is `UUIDFromTime(time.Now())`: a reading of the wall clock, then ONE atomic increment of the
process-wide counter, then pure code.  Any schedule of any number of concurrent callers is therefore a run
`genRun hw c readings` — the readings listed in the order of the increments (they need not be monotone in that
order: a caller may be descheduled between its reading and its increment). -/

/-- EXACTLY when two steps of a run return the same UUID: they stored the same 100 ns tick and are a multiple of
    16384 increments apart.  (Everything below is a corollary.) -/
theorem C19_timeuuid_dup_iff (hw : List UInt8) (c : Nat) (readings : List (Int × Nat)) (i j : Nat)
    (hi : i < readings.length) (hj : j < readings.length) :
    (genRun hw c readings)[i]'(by rw [genRun_length]; exact hi) =
      (genRun hw c readings)[j]'(by rw [genRun_length]; exact hj) ↔
    tick readings[i] = tick readings[j] ∧ i % 16384 = j % 16384 :=
  genRun_eq_iff hw readings c i j hi hj

/-- FULL STATEMENT of the property's last sentence for `TimeUUID()`: "pairwise distinct for any number of calls" —
    false for a 14-bit clock sequence (KF-C19-1, `C19_cex_unique`, `C19_timeuuid_dup_same_reading`).
    Proved, for runs of ANY length and any schedule: if no two steps that stored the same tick are 16384 or more
    increments apart — the clock moves on at least every 16384 calls, at the 100 ns granularity the code stores —
    the UUIDs are pairwise distinct.  The hypothesis is about the TICKS THE CODE STORES: a generator that stores
    a coarser value than its reading (a truncated `time.Now()`) fails it at the burst rate where 16384 calls share
    one stored value; that the stored tick IS the reading's 100 ns tick is `C19_timeuuid_sandwich`. -/
theorem C19_timeuuid_unique_if_clock_advances (hw : List UInt8) (c : Nat) (readings : List (Int × Nat))
    (h : ∀ i j (hi : i < readings.length) (hj : j < readings.length), i < j →
      tick readings[i] = tick readings[j] → j - i < 16384) :
    (genRun hw c readings).Pairwise (· ≠ ·) := by
  rw [List.pairwise_iff_getElem]
  intro i j hi hj hij heq
  have hi' : i < readings.length := by rw [genRun_length] at hi; exact hi
  have hj' : j < readings.length := by rw [genRun_length] at hj; exact hj
  obtain ⟨ht, hm⟩ := (genRun_eq_iff hw readings c i j hi' hj').mp heq
  have := h i j hi' hj' hij ht
  omega

/-- the same for a clock read in increment order (no caller overtaken between reading and increment): the ticks
    never decrease and the tick 16384 steps later is always a new one -/
theorem C19_timeuuid_unique_monotone_clock (hw : List UInt8) (c : Nat) (readings : List (Int × Nat))
    (hmono : ∀ i j (hi : i < readings.length) (hj : j < readings.length), i ≤ j → tick readings[i] ≤ tick readings[j])
    (hadv : ∀ i (hi : i + 16384 < readings.length), tick readings[i] < tick readings[i + 16384]) :
    (genRun hw c readings).Pairwise (· ≠ ·) := by
  apply C19_timeuuid_unique_if_clock_advances
  intro i j hi hj hij ht
  apply Classical.byContradiction
  intro hge
  have h1 := hadv i (by omega)
  have h2 := hmono (i + 16384) j (by omega) hj (by omega)
  omega

/-- the converse direction made concrete: whatever the state, two steps 16384 increments apart that got the same
    reading (a clock that stood still, or a time source coarser than the burst) return the SAME UUID -/
theorem C19_timeuuid_dup_same_reading (hw : List UInt8) (c : Nat) (readings : List (Int × Nat)) (i : Nat)
    (hi : i + 16384 < readings.length) (h : readings[i] = readings[i + 16384]) :
    (genRun hw c readings)[i]'(by rw [genRun_length]; omega) =
      (genRun hw c readings)[i + 16384]'(by rw [genRun_length]; exact hi) := by
  apply (genRun_eq_iff hw readings c i (i + 16384) (by omega) hi).mpr
  exact ⟨by rw [h], by omega⟩

/-- what one `TimeUUID()` call returns, for a representable reading `now` taken between two other readings
    `before ≤ now ≤ after` of the same clock: version 1, RFC 4122 variant, the node, the new counter value's low
    14 bits, and a timestamp that is EXACTLY the reading's 100 ns tick — hence between the ticks of `before` and
    `after` (the burst monitor's interval check). -/
theorem C19_timeuuid_sandwich (hw : List UInt8) (c : Nat) (before now after : Int × Nat)
    (hb : Representable before.1 before.2) (hn : Representable now.1 now.2) (ha : Representable after.1 after.2)
    (h0 : readingLe before now) (h1 : readingLe now after) :
    let u := (timeUUID c hw now).1
    version u = 1 ∧ variant u = 2 ∧ node u = some (nodeBytes hw) ∧ clock u = (c + 1) % 2 ^ 14 ∧
    (timestamp u : Int) = (now.1 - timeBase) * 10000000 + (now.2 / 100 : Nat) ∧
    tick before ≤ timestamp u ∧ timestamp u ≤ tick after := by
  have hts : timestamp (timeUUID c hw now).1 = tick now := by
    simp only [timeUUID, uuidFromTime, timestamp_with_mod, tick]
  refine ⟨version_with _ _ _, variant_with _ _ _, node_with _ _ _, ?_, ?_, ?_, ?_⟩
  · simp only [timeUUID, uuidFromTime, clock_with, Nat.reducePow]; omega
  · rw [hts]; exact tick_exact now hn
  · rw [hts]; exact tick_mono _ _ hb hn h0
  · rw [hts]; exact tick_mono _ _ hn ha h1

/-- the counter after a run of `n` steps is `c + n` (uint32), and step `i` carries the clock field of `c + 1 + i` -/
theorem C19_genrun_counter (hw : List UInt8) (c : Nat) (hc : c < 2 ^ 32) (readings : List (Int × Nat)) :
    readings.foldl (fun s now => (timeUUID s hw now).2) c = genCtr c readings.length :=
  genRun_ctr hw readings c hc

theorem C19_genrun_clock_fields (hw : List UInt8) (c : Nat) (readings : List (Int × Nat)) (i : Nat)
    (hi : i < readings.length) :
    clock ((genRun hw c readings)[i]'(by rw [genRun_length]; exact hi)) = (c + 1 + i) % 2 ^ 14 := by
  rw [genRun_get hw readings c i hi, clock_with]
  simp only [Nat.reducePow]; omega

/-- the controlled clock of the `genrun` op: a reading inside the representable range that moves on by at least
    100 ns at least every 16384 calls gives pairwise distinct UUIDs, for every run length, start counter (also
    across the 2^32 wrap) and node -/
theorem C19_genrun_distinct (hw : List UInt8) (c : Nat) (sec : Int) (nsec every stepns n : Nat)
    (he : 0 < every) (he' : every ≤ 16384) (hs : 100 ≤ stepns) (hsec : timeBase ≤ sec)
    (hlt : (sec - timeBase) * 10000000 + ((nsec + n / every * stepns) / 100 : Nat) < 2 ^ 60) :
    (genRun hw c (steppedReadings sec nsec every stepns n)).Pairwise (· ≠ ·) := by
  have hlen : (steppedReadings sec nsec every stepns n).length = n := by simp [steppedReadings]
  have hget : ∀ k (hk : k < (steppedReadings sec nsec every stepns n).length),
      (steppedReadings sec nsec every stepns n)[k] = steppedClock sec nsec every stepns k := by
    intro k hk; simp [steppedReadings]
  -- the tick of step k, for every k < n
  have htick : ∀ k, k < n → (tick (steppedClock sec nsec every stepns k) : Int) =
      (sec - timeBase) * 10000000 + ((nsec + k / every * stepns) / 100 : Nat) := by
    intro k hk
    refine (stepped_repr sec nsec every stepns k hsec ?_).2
    have h1 : k / every * stepns ≤ n / every * stepns :=
      Nat.mul_le_mul_right _ (Nat.div_le_div_right (by omega))
    have h2 : (nsec + k / every * stepns) / 100 ≤ (nsec + n / every * stepns) / 100 :=
      Nat.div_le_div_right (by omega)
    omega
  apply C19_timeuuid_unique_monotone_clock
  · intro i j hi hj hij
    rw [hget i hi, hget j hj]
    have ti := htick i (by omega)
    have tj := htick j (by omega)
    have h1 : i / every * stepns ≤ j / every * stepns := Nat.mul_le_mul_right _ (Nat.div_le_div_right hij)
    have h2 : (nsec + i / every * stepns) / 100 ≤ (nsec + j / every * stepns) / 100 :=
      Nat.div_le_div_right (by omega)
    omega
  · intro i hi
    rw [hget i (by omega), hget (i + 16384) hi]
    have ti := htick i (by omega)
    have tj := htick (i + 16384) (by omega)
    have h0 : i / every + 1 ≤ (i + 16384) / every := by
      rw [← Nat.add_div_right i he]
      exact Nat.div_le_div_right (by omega)
    have h1 : (i / every + 1) * stepns ≤ (i + 16384) / every * stepns := Nat.mul_le_mul_right _ h0
    rw [Nat.add_mul, Nat.one_mul] at h1
    have h2 : (nsec + i / every * stepns) / 100 + 1 ≤ (nsec + (i + 16384) / every * stepns) / 100 := by
      rw [← Nat.add_div_right _ (by decide : 0 < 100)]
      exact Nat.div_le_div_right (by omega)
    omega

/-- the duplicate search the driver runs on a model run is correct: `none` only for pairwise distinct runs, and
    `some (i, j)` names two positions `i < j` holding the same UUID -/
theorem C19_genrun_verdict (us : List (List UInt8)) :
    (firstDup us = none → us.Pairwise (· ≠ ·)) ∧
    (∀ i j, firstDup us = some (i, j) → i < j ∧ ∃ u, us[i]? = some u ∧ us[j]? = some u) :=
  ⟨(firstDup_spec us).2, (firstDup_spec us).1⟩

/-- so the model's answer to a `genrun` op inside the hypothesis of `C19_genrun_distinct` is `distinct` -/
theorem C19_genrun_answer_distinct (hw : List UInt8) (c : Nat) (sec : Int) (nsec every stepns n : Nat)
    (he : 0 < every) (he' : every ≤ 16384) (hs : 100 ≤ stepns) (hsec : timeBase ≤ sec)
    (hlt : (sec - timeBase) * 10000000 + ((nsec + n / every * stepns) / 100 : Nat) < 2 ^ 60) :
    firstDup (genRun hw c (steppedReadings sec nsec every stepns n)) = none := by
  have hp := C19_genrun_distinct hw c sec nsec every stepns n he he' hs hsec hlt
  cases hf : firstDup (genRun hw c (steppedReadings sec nsec every stepns n)) with
  | none => rfl
  | some ij =>
    obtain ⟨i, j⟩ := ij
    obtain ⟨hij, u, hi, hj⟩ := (firstDup_spec _).1 i j hf
    rw [List.pairwise_iff_getElem] at hp
    obtain ⟨hi', hiu⟩ := List.getElem?_eq_some_iff.mp hi
    obtain ⟨hj', hju⟩ := List.getElem?_eq_some_iff.mp hj
    exact absurd (hiu.trans hju.symm) (hp i j hi' hj' hij)

/-- non-vacuity: a run of 3 steps under a clock that stands still is distinct (the hypothesis is about steps
    16384 apart), and the readings of the stepped clock carry across a second -/
example : (genRun [1, 2, 3, 4, 5, 6] 0xffffffff [(1700000000, 5), (1700000000, 5), (1700000000, 5)]).Pairwise (· ≠ ·) :=
  C19_timeuuid_unique_if_clock_advances _ _ _ (by intro i j hi hj hij _; simp at hj; omega)
example : steppedClock 1700000000 999999950 2 100 5 = (1700000001, 150) := by decide

/-! ### error values (`Model/UuidErr.lean`) -/

/-- The error values are consistent with the decoders, for every input and destination: an entry point returns
    an error EXACTLY when the modelled decode fails (so no failure is silent and no success carries an error), and
    a rejected text is named in the error — `invalid UUID "<the input, quoted>"` — for every ASCII input. -/
theorem C19_error_iff_failure (dst bs : List UInt8) (d : Dst) (tu : Bool) (prev : Int × Nat) :
    ((textErr bs).isNone = (unmarshalText dst bs).1) ∧
    ((jsonErr bs).isNone = (unmarshalJSON dst bs).1) ∧
    ((marshalErr tu d).isNone = (marshalCQL d).isSome) ∧
    ((unmarshalErr tu bs d).isNone = (unmarshalCQL bs d).1) ∧
    ((unmarshalTimeErr tu bs).isNone = (unmarshalCQLTime tu bs prev).1) ∧
    (isASCII bs = true → (unmarshalText dst bs).1 = false →
      textErr bs = some ⟨.plain, some (lit "invalid UUID " ++ quoteASCII bs)⟩) := by
  refine ⟨?_, ?_, ?_, ?_, ?_, ?_⟩
  · simp only [textErr, unmarshalText]
    cases h : parseUUID (runes bs) <;> rfl
  · simp only [jsonErr, unmarshalJSON, textErr]
    split
    · rfl
    · cases h : parseUUID (runes (trimQuotes bs)) <;> rfl
  · cases d with
    | uuid u => rfl
    | arr a => rfl
    | bytes b =>
      cases b with
      | none => simp [marshalErr, marshalCQL]
      | some b => by_cases h : b.length = 16 <;> simp [marshalErr, marshalCQL, h]
    | str t =>
      simp only [marshalErr, marshalCQL, textErr]
      cases h : parseUUID (runes t) <;> rfl
  · simp only [unmarshalErr, unmarshalCQL]
    split
    · cases d <;> rfl
    · split
      · rfl
      · cases d <;> rfl
  · simp only [unmarshalTimeErr, unmarshalCQLTime, time]
    cases tu with
    | false => simp; split <;> rfl
    | true =>
      simp only [if_true, Bool.not_true, Bool.false_eq_true, if_false]
      split
      · rfl
      · split <;> rfl
  · intro ha hf
    simp only [textErr, unmarshalText] at hf ⊢
    split at hf
    · simp at hf
    · rename_i h; simp [h, parseErr, ha]

/-- non-vacuity: what `%q` does to a quote, a backslash, a tab, a NUL and DEL inside a rejected text -/
example : textErr [34, 92, 9, 0, 127, 103] =
    some ⟨.plain, some (lit "invalid UUID \"\\\"\\\\\\t\\x00\\x7fg\"")⟩ := by decide

/-! ### concurrent callers as a small-step machine (`Model/UuidConc.lean`): ALL interleavings

The paragraph above ("any schedule of any number of concurrent callers is a run `genRun hw c readings`") is now a
theorem about a machine whose actions are the two steps of `TimeUUID()` per goroutine — `now g` (the reading) and
`inc g` (the atomic increment; everything after it is goroutine-local and pure) — plus the environment setting
the wall clock to anything.  A schedule is an arbitrary `List Act`. -/

/-- LINEARIZATION, every schedule: the UUIDs returned, in the order of the increments, are the generator run
    over the readings the callers held, in that order; the counter has moved by exactly the number of returns.
    Hence every theorem about `genRun` (`C19_timeuuid_dup_iff`, `…_unique_if_clock_advances`, `C19_genrun_*`)
    speaks about every interleaving of any number of goroutines. -/
theorem C19_conc_linearizes (hw : List UInt8) (c : Nat) (t : Int × Nat) (acts : List Act) :
    (concRun hw (concInit c t) acts).out.map (·.uuid) =
      genRun hw c ((concRun hw (concInit c t) acts).out.map (·.reading)) ∧
    (c < 2 ^ 32 → (concRun hw (concInit c t) acts).clockSeq = genCtr c (concRun hw (concInit c t) acts).out.length) := by
  refine ⟨(conc_is_genRun hw (concInit c t) rfl acts).1, fun hc => ?_⟩
  have := (conc_counter hw (concInit c t) hc acts).2
  simpa [concInit] using this

/-- every schedule in which at most 16384 calls return — whatever the number of goroutines, the interleaving of
    readings and increments, and the behaviour of the wall clock — returns pairwise distinct UUIDs -/
theorem C19_conc_unique_upto_16384 (hw : List UInt8) (c : Nat) (t : Int × Nat) (acts : List Act)
    (h : (concRun hw (concInit c t) acts).out.length ≤ 16384) :
    ((concRun hw (concInit c t) acts).out.map (·.uuid)).Pairwise (· ≠ ·) := by
  rw [(C19_conc_linearizes hw c t acts).1, genRun_eq_gens]
  exact C19_unique_partial hw c _ (by simpa using h)

/-- every schedule of ANY length: two returned calls got the same UUID exactly when the readings they HELD have
    the same 100 ns tick and they are a multiple of 16384 increments apart; in particular the results are
    pairwise distinct whenever no two calls holding the same tick are 16384 or more increments apart -/
theorem C19_conc_dup_iff (hw : List UInt8) (c : Nat) (t : Int × Nat) (acts : List Act) (i j : Nat)
    (hi : i < ((concRun hw (concInit c t) acts).out.map (·.reading)).length)
    (hj : j < ((concRun hw (concInit c t) acts).out.map (·.reading)).length) :
    ((concRun hw (concInit c t) acts).out.map (·.uuid))[i]? = ((concRun hw (concInit c t) acts).out.map (·.uuid))[j]? ↔
    tick ((concRun hw (concInit c t) acts).out.map (·.reading))[i] =
      tick ((concRun hw (concInit c t) acts).out.map (·.reading))[j] ∧ i % 16384 = j % 16384 := by
  rw [(C19_conc_linearizes hw c t acts).1]
  generalize (concRun hw (concInit c t) acts).out.map (·.reading) = rs at hi hj
  rw [List.getElem?_eq_getElem (by rw [genRun_length]; exact hi),
    List.getElem?_eq_getElem (by rw [genRun_length]; exact hj), Option.some.injEq]
  exact C19_timeuuid_dup_iff hw c rs i j hi hj

theorem C19_conc_unique_if_clock_advances (hw : List UInt8) (c : Nat) (t : Int × Nat) (acts : List Act)
    (h : ∀ i j (hi : i < ((concRun hw (concInit c t) acts).out.map (·.reading)).length)
      (hj : j < ((concRun hw (concInit c t) acts).out.map (·.reading)).length), i < j →
      tick ((concRun hw (concInit c t) acts).out.map (·.reading))[i] =
        tick ((concRun hw (concInit c t) acts).out.map (·.reading))[j] → j - i < 16384) :
    ((concRun hw (concInit c t) acts).out.map (·.uuid)).Pairwise (· ≠ ·) := by
  rw [(C19_conc_linearizes hw c t acts).1]
  exact C19_timeuuid_unique_if_clock_advances hw c _ h

/-- so the verdict field of the model's answer to a `sched` op (at most 16384 returns) is `distinct` -/
theorem C19_sched_answer_distinct (hw : List UInt8) (c : Nat) (t : Int × Nat) (acts : List Act)
    (h : (concRun hw (concInit c t) acts).out.length ≤ 16384) :
    firstDup ((concRun hw (concInit c t) acts).out.map (·.uuid)) = none := by
  have hp := C19_conc_unique_upto_16384 hw c t acts h
  cases hf : firstDup ((concRun hw (concInit c t) acts).out.map (·.uuid)) with
  | none => rfl
  | some ij =>
    obtain ⟨i, j⟩ := ij
    obtain ⟨hij, u, hi, hj⟩ := (firstDup_spec _).1 i j hf
    rw [List.pairwise_iff_getElem] at hp
    obtain ⟨hi', hiu⟩ := List.getElem?_eq_some_iff.mp hi
    obtain ⟨hj', hju⟩ := List.getElem?_eq_some_iff.mp hj
    exact absurd (hiu.trans hju.symm) (hp i j hi' hj' hij)

/-- KF-C19-1 (b) as a theorem about schedules, from ANY state: goroutines `g` and `g'` are both between their
    reading and their increment and hold readings of the same tick; `g'` increments; then the others do anything
    (`mid`: no step of `g`; the wall clock may advance as it likes; exactly 16383 further calls return); then `g`
    increments — and is handed the very UUID `g'` got. -/
theorem C19_conc_dup_descheduled (hw : List UInt8) (s : Conc) (g g' : Nat) (r r' : Int × Nat) (mid : List Act)
    (hne : g' ≠ g) (hg : heldOf s.held g = some r) (hg' : heldOf s.held g' = some r')
    (ht : tick r = tick r') (hmid : ∀ a ∈ mid, actOf a ≠ some g)
    (hn : (concRun hw (concStep hw s (.inc g')) mid).out.length = s.out.length + 1 + 16383) :
    ∃ u, (concRun hw s (.inc g' :: mid ++ [.inc g])).out[s.out.length]? = some ⟨g', r', u⟩ ∧
         (concRun hw s (.inc g' :: mid ++ [.inc g])).out[s.out.length + 16384]? = some ⟨g, r, u⟩ :=
  conc_dup_descheduled hw s g g' r r' mid hne hg hg' ht hmid hn

/-- counterexample to "pairwise distinct for any number of concurrent generators" in which the wall clock moves
    on by a full tick before EVERY call that starts after the first two readings (no clock standing still, no
    fixed time argument): goroutines 0 and 1 read the clock; 1 increments; 1 makes 16383 further calls, each at a
    later tick; 0 increments — results 0 and 16384 are the same UUID, for every node and counter value. -/
theorem C19_cex_conc_advancing_clock (hw : List UInt8) (c : Nat) :
    ∃ u, (concRun hw (concInit c (1700000000, 0))
            ([.now 0, .now 1, .inc 1] ++ callsOf 1 (fun i => unixNorm 1700000000 ((i + 1) * 100)) 16383 ++ [.inc 0])).out[0]?
          = some ⟨1, (1700000000, 0), u⟩ ∧
         (concRun hw (concInit c (1700000000, 0))
            ([.now 0, .now 1, .inc 1] ++ callsOf 1 (fun i => unixNorm 1700000000 ((i + 1) * 100)) 16383 ++ [.inc 0])).out[16384]?
          = some ⟨0, (1700000000, 0), u⟩ := by
  let s : Conc := ⟨c, (1700000000, 0), [(1, (1700000000, 0)), (0, (1700000000, 0))], []⟩
  have hs : ∀ rest, concRun hw (concInit c (1700000000, 0)) ([.now 0, .now 1, .inc 1] ++ rest) =
      concRun hw s (.inc 1 :: rest) := fun rest => rfl
  rw [List.append_assoc, hs]
  have h1 : heldOf (concStep hw s (.inc 1)).held 1 = none := heldOf_filter_self 1 _
  have := conc_dup_descheduled hw s 0 1 (1700000000, 0) (1700000000, 0)
    (callsOf 1 (fun i => unixNorm 1700000000 ((i + 1) * 100)) 16383) (by decide) rfl rfl rfl
    (callsOf_frame 0 1 (by decide) _ _)
    (by rw [(conc_calls hw 1 _ 16383 _ h1).1]; rfl)
  have hl : s.out.length = 0 := rfl
  rw [hl, Nat.zero_add] at this
  exact this

/-- What each goroutine SEES, every schedule whose wall clock never steps back (`WallOk`: every `wall t` action is
    at or after the previous reading, inside the representable range) — however the readings and increments of
    any number of goroutines interleave: every returned UUID carries EXACTLY the 100 ns tick of the reading its
    caller held, that tick lies between the tick of the start reading and the tick of the wall clock at the end,
    and the timestamps of ONE goroutine's results never decrease in return order.  (These are the burst op's
    interval and per-goroutine monitors, here for all interleavings; across goroutines the timestamps need NOT be
    monotone in increment order — the example below.) -/
theorem C19_conc_goroutine_timestamps_monotone (hw : List UInt8) (c : Nat) (t0 : Int × Nat) (acts : List Act)
    (h0 : Representable t0.1 t0.2) (hok : WallOk t0 acts) :
    (∀ r ∈ (concRun hw (concInit c t0) acts).out,
      timestamp r.uuid = tick r.reading ∧ tick t0 ≤ timestamp r.uuid ∧
      timestamp r.uuid ≤ tick (concRun hw (concInit c t0) acts).wall) ∧
    (concRun hw (concInit c t0) acts).out.Pairwise (fun a b => a.g = b.g → timestamp a.uuid ≤ timestamp b.uuid) := by
  have hinit : MonoInv t0 (concInit c t0) :=
    ⟨h0, readingLe_refl _, fun p hp => (by cases hp), fun r hr => (by cases hr),
      fun p hp => (by cases hp), List.Pairwise.nil⟩
  obtain ⟨⟨wr, _, _, ol, _, pw⟩, _⟩ := monoInv_run hw t0 acts (concInit c t0) hinit hok
  refine ⟨fun r hr => ?_, ?_⟩
  · obtain ⟨h1, h2, h3, h4⟩ := ol r hr
    refine ⟨h4, ?_, ?_⟩
    · rw [h4]; exact tick_mono _ _ h0 h3 h2
    · rw [h4]; exact tick_mono _ _ h3 wr h1
  · rw [List.pairwise_iff_getElem] at pw ⊢
    intro i j hi hj hij hg
    have := pw i j hi hj hij hg
    obtain ⟨_, _, ri, ei⟩ := ol _ (List.getElem_mem hi)
    obtain ⟨_, _, rj, ej⟩ := ol _ (List.getElem_mem hj)
    rw [ei, ej]
    exact tick_mono _ _ ri rj this

/-- so the `mon=` field of the model's answer to a `sched` op whose wall clock never steps back is `ok` -/
theorem C19_sched_monitors_ok (hw : List UInt8) (c : Nat) (t0 : Int × Nat) (acts : List Act)
    (h0 : Representable t0.1 t0.2) (hok : WallOk t0 acts) :
    monitorsOk t0 (concRun hw (concInit c t0) acts).wall (concRun hw (concInit c t0) acts).out = true := by
  obtain ⟨h1, h2⟩ := C19_conc_goroutine_timestamps_monotone hw c t0 acts h0 hok
  exact monFold_true _ _ _ [] (fun r hr => (h1 r hr).2) h2 (fun p hp => by cases hp)

/-- non-vacuity: the schedule of the example below satisfies `WallOk`, and ACROSS goroutines the timestamps do
    decrease in increment order (goroutine 0 was overtaken) -/
example : WallOk (1700000000, 0) [.now 0, .wall (1700000000, 100), .now 1, .inc 1, .inc 0] := by
  refine ⟨Or.inr ⟨rfl, by decide⟩, by decide, trivial⟩
example : ((concRun [1, 2, 3, 4, 5, 6] (concInit 7 (1700000000, 0))
    [.now 0, .wall (1700000000, 100), .now 1, .inc 1, .inc 0]).out.map (fun r => timestamp r.uuid)) =
    [139192928000000001, 139192928000000000] := by decide

/-- the run the native driver executes on long schedules (results accumulated newest-first, reversed at the end)
    is the machine's run -/
theorem C19_conc_fast_eq (hw : List UInt8) (s : Conc) (acts : List Act) : concRunFast hw s acts = concRun hw s acts :=
  concRunFast_eq hw s acts

/-- non-vacuity: a small schedule run through the machine — goroutine 0 is overtaken by goroutine 1 between its
    reading and its increment, so the readings are NOT in increment order -/
example : ((concRun [1, 2, 3, 4, 5, 6] (concInit 7 (1700000000, 0))
    [.now 0, .wall (1700000000, 100), .now 1, .inc 1, .inc 0]).out.map (fun r => (r.g, r.reading))) =
    [(1, (1700000000, 100)), (0, (1700000000, 0))] := by decide

end C19
