import Model.Murmur
import Proofs.C09Tail
namespace Murmur

section generic
variable (mix : W × W → W → W → W × W) (tl : W × W → List UInt8 → W × W)

theorem bodyLoopG_shift (d : List UInt8) (nB : Nat) :
    ∀ (fuel : Nat) (h : W × W), fuel ≤ nB →
      bodyLoopG mix d (nB+1) fuel h = bodyLoopG mix (d.drop 16) nB fuel h := by
  intro fuel
  induction fuel with
  | zero => intro h _; simp only [bodyLoopG]
  | succ f ih =>
    intro h hle
    simp only [bodyLoopG]
    have e : nB + 1 - (f + 1) = (nB - (f+1)) + 1 := by omega
    rw [e, List.drop_drop]
    have e2 : 16 + (nB - (f+1)) * 16 = (nB - (f + 1) + 1) * 16 := by omega
    rw [e2]
    exact ih _ (by omega)

theorem take8_take16 (d : List UInt8) : (d.take 16).take 8 = d.take 8 := by
  rw [List.take_take]; simp

theorem drop8_take16 (d : List UInt8) : ((d.take 16).drop 8).take 8 = (d.drop 8).take 8 := by
  rw [List.drop_take, List.take_take]; simp

/-- the index-based block loop followed by the tail equals the chunk-recursive specification -/
theorem blocksG_eq : ∀ (m : Nat) (d : List UInt8) (h : W × W), d.length / 16 = m →
    Spec.blocksG mix tl h d = tl (bodyLoopG mix d m m h) (d.drop (m*16)) := by
  intro m
  induction m with
  | zero =>
    intro d h hm
    have : ¬ d.length ≥ 16 := by omega
    rw [Spec.blocksG]; simp [this, bodyLoopG]
  | succ m ih =>
    intro d h hm
    have h16 : d.length ≥ 16 := by omega
    rw [Spec.blocksG]; simp only [h16, dite_true]
    rw [ih (d.drop 16) _ (by simp; omega)]
    simp only [bodyLoopG]
    have e0 : m + 1 - (m + 1) = 0 := by omega
    rw [e0]
    simp only [Nat.zero_mul, List.drop_zero, take8_take16, drop8_take16]
    rw [bodyLoopG_shift mix d m m _ (Nat.le_refl _), List.drop_drop]
    have e2 : 16 + m * 16 = (m+1) * 16 := by omega
    rw [e2]
end generic

/-- the tail never indexes outside the key: `len(tail) = length & 15`, and the switch arm `k`
    (which reads `tail[k-1]`) only runs when `length & 15 ≥ k`. -/
theorem tail_len (data : List UInt8) :
    (data.drop (data.length / 16 * 16)).length = data.length % 16 := by
  simp; omega

/-- **C09 (Murmur3)**: for every key, the model of gocql's `Murmur3H1` equals Cassandra's
    `hash3_x64_128` first word. -/
theorem murmur3H1_eq_cassandra (data : List UInt8) :
    murmur3H1 data = Spec.cassandraH1 data := by
  unfold murmur3H1 Spec.cassandraH1 Spec.blocks bodyLoop
  simp only
  rw [blocksG_eq mixBlock Spec.tail (data.length / 16) data _ rfl]
  have hl := tail_len data
  have := tail_eq (bodyLoopG mixBlock data (data.length / 16) (data.length / 16) (0#64, 0#64))
    (data.drop (data.length / 16 * 16)) (by rw [hl]; omega)
  rw [hl] at this
  rw [this]

end Murmur
