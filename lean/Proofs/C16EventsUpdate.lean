import Proofs.C16EventsAgreeRefresh
import Proofs.C16Update
/-! helper lemmas: `View.updateStored` (ring.addOrUpdate with HostInfo.update changing the stored object's
address fields; by-address index re-keyed: repair of KF-C16-5) keeps the invariant of all histories -/
namespace C16
open Ring ClusterView

theorem lookup_map_upd (m : List (Nat × RHost)) (id : Nat) (y : RHost) (k : Nat) :
    lookup (m.map (fun e => if e.1 == id then (e.1, y) else e)) k =
      if k = id then (lookup m id).map (fun _ => y) else lookup m k := by
  induction m with
  | nil => simp [lookup]
  | cons e t ih =>
    rw [List.map_cons, lookup_cons, ih]
    by_cases he : e.1 = id
    · have hb : (e.1 == id) = true := by simpa using he
      simp only [hb, ↓reduceIte]
      by_cases hk : k = id
      · subst hk; simp [lookup_cons, he]
      · have : ¬ e.1 = k := fun x => hk (x.symm.trans he)
        simp [hk, this, lookup_cons]
    · have hb : (e.1 == id) = false := by simpa using he
      simp only [hb, Bool.false_eq_true, ↓reduceIte]
      by_cases hk : k = id
      · subst hk; simp [lookup_cons, he]
      · simp only [hk, ↓reduceIte, lookup_cons]

theorem lookup_updateStored (r : Ring.Ring) (id a c : Nat) (h : RHost) (hs : lookup r.byId id = some h) (k : Nat) :
    lookup (r.updateStored id a c).byId k =
      if k = id then some ({ h with addr := a, caddr := c } : RHost) else lookup r.byId k := by
  rw [updateStored_of_some r id a c h hs]
  dsimp only
  rw [lookup_map_upd, hs]
  rfl

/-- the data centre (hence locality) of an object does not depend on its address fields -/
def LocStable (env : Env) : Prop := ∀ (h : RHost) (a c : Nat), env.isLocal { h with addr := a, caddr := c } = env.isLocal h

theorem updateStoredV_of_none (v : View) (id a c : Nat) (hn : lookup v.ring.byId id = none) : v.updateStored id a c = v := by
  unfold View.updateStored; rw [hn]

theorem updateStoredV_ring (v : View) (id a c : Nat) : (v.updateStored id a c).ring = v.ring.updateStored id a c := by
  unfold View.updateStored
  cases hl : lookup v.ring.byId id with
  | none => rw [updateStored_of_none _ id a c hl]
  | some h => rfl

theorem updateStoredV_down (v : View) (id a c : Nat) : (v.updateStored id a c).down = v.down := by
  unfold View.updateStored
  cases lookup v.ring.byId id <;> rfl

theorem updateStoredV_crashed (v : View) (id a c : Nat) : (v.updateStored id a c).crashed = v.crashed := by
  unfold View.updateStored
  cases lookup v.ring.byId id <;> rfl

theorem agree_updateStored (env : Env) (hloc : LocStable env) (v : View) (ha : Agree env v) (id a c : Nat) :
    Agree env (v.updateStored id a c) := by
  cases hl : lookup v.ring.byId id with
  | none => rw [updateStoredV_of_none v id a c hl]; exact ha
  | some h =>
    have hid : h.id = id := ha.sinv.wf _ (lookup_some_mem _ _ _ hl)
    have hlk := lookup_updateStored v.ring id a c h hl
    -- what the replacement does to an object that is the ring's object of its id
    have key : ∀ y : RHost, lookup v.ring.byId y.id = some y →
        lookup (v.ring.updateStored id a c).byId (if y == h then ({ h with addr := a, caddr := c } : RHost) else y).id =
          some (if y == h then ({ h with addr := a, caddr := c } : RHost) else y) := by
      intro y hy
      by_cases e : y = h
      · subst e
        simp only [beq_self_eq_true, ↓reduceIte]
        rw [hlk]; simp [hid]
      · have hb : (y == h) = false := by simpa using e
        simp only [hb, Bool.false_eq_true, ↓reduceIte]
        have hne : y.id ≠ id := by
          intro e2
          rw [e2, hl] at hy
          exact e (Option.some.inj hy).symm
        rw [hlk]; simp only [hne, ↓reduceIte]; exact hy
    have hv : v.updateStored id a c =
        { v with
          ring := v.ring.updateStored id a c
          pools := v.pools.map (fun e => (e.1, if e.2 == h then ({ h with addr := a, caddr := c } : RHost) else e.2))
          pol := { ta := v.pol.ta.map (fun x => if x == h then ({ h with addr := a, caddr := c } : RHost) else x),
                   loc := v.pol.loc.map (fun x => if x == h then ({ h with addr := a, caddr := c } : RHost) else x),
                   rem := v.pol.rem.map (fun x => if x == h then ({ h with addr := a, caddr := c } : RHost) else x) } } := by
      unfold View.updateStored; rw [hl]
    rw [hv]
    refine ⟨SInv_updateStored v.ring ha.sinv id a c, ?_, ?_, ?_, ?_, ?_⟩
    · intro e he
      obtain ⟨e0, he0, rfl⟩ := List.mem_map.mp he
      have h0 := ha.pools e0 he0
      have hid0 : e0.2.id = e0.1 := ha.sinv.wf _ (lookup_some_mem _ _ _ h0)
      have := key e0.2 (by rw [hid0]; exact h0)
      dsimp only at this ⊢
      have hid1 : (if e0.2 == h then ({ h with addr := a, caddr := c } : RHost) else e0.2).id = e0.1 := by
        split
        · rename_i hb
          have : e0.2 = h := by simpa using hb
          rw [← hid0, this]
        · exact hid0
      rw [hid1] at this
      exact this
    · intro x hx
      have hx' : x ∈ (v.pol.all).map (fun x => if x == h then ({ h with addr := a, caddr := c } : RHost) else x) := by
        simpa [Policy.all, List.map_append] using hx
      obtain ⟨y, hy, rfl⟩ := List.mem_map.mp hx'
      exact key y (ha.pol y hy)
    · intro ht
      show List.map _ v.pol.ta = []
      rw [ha.placed.1 ht]; rfl
    · intro x hx
      obtain ⟨y, hy, rfl⟩ := List.mem_map.mp hx
      have := ha.placed.2.1 y hy
      split
      · rename_i hb
        have e : y = h := by simpa using hb
        rw [hloc h a c, ← e]; exact this
      · exact this
    · intro x hx
      obtain ⟨y, hy, rfl⟩ := List.mem_map.mp hx
      have := ha.placed.2.2 y hy
      split
      · rename_i hb
        have e : y = h := by simpa using hb
        rw [hloc h a c, ← e]; exact this
      · exact this

end C16
