import Proofs.C05Dispatch
/-!
# C05 dispatch — the FULL theorems, for the code after the proposed fixes (`fx = true`)

props/C05.fix-16.diff  Conn.heartBeat        `default:` counts a failed heartbeat instead of `panic`
props/C05.fix-17.diff  controlConn.heartBeat `default:` reconnects instead of `panic`
props/C05.fix-18.diff  authenticateHandshake returns an error when AUTH_CHALLENGE arrives and
                           the authenticator gave no challenger

NOT listed in props/C05.json until the fixes are committed (then `Dispatch.current := true`, the
`knownBad` exclusions and the counterexample theorems go away and these take their place).
-/
namespace C05DispatchFixed
open Dispatch C05Dispatch

/-- FULL: no frame kind crashes any dispatch site. -/
theorem C05_dispatch_total : ∀ s k, (dispatch true s k).isCrash = false := all_cells (by decide)

/-- FULL: no sequence of response frames crashes a heartbeat loop / the event stream / a request site. -/
theorem C05_stream_total (s : Site) (fs : List FrameKind) : siteRun (dispatch true) s fs = none :=
  siteRun_safe _ _ _ fun k _ => C05_dispatch_total s k

/-- FULL: no sequence of response frames crashes the handshake, whatever the authenticator returns. -/
theorem C05_handshake_total (cfg : AuthCfg) (fs : List FrameKind) :
    (hsRun (dispatch true) cfg .awaitSupported fs).isCrashed = false :=
  hsRun_safe _ cfg (fun k => C05_dispatch_total _ k) (fun k => C05_dispatch_total _ k)
    (fun k => C05_dispatch_total _ k) (Or.inr fun k => C05_dispatch_total _ k) fs _ trivial

/-- the fixes change exactly the known-bad cells, and turn each into `error` -/
theorem C05_fix_changes_only_known_bad : ∀ s k,
    (knownBad s k = false → dispatch true s k = dispatch false s k) ∧
    (knownBad s k = true → dispatch true s k = .error) := all_cells (by decide)

/-- the former counterexample histories now end in an error / keep running -/
example : hsRun (dispatch true) passwordAuth .awaitSupported [.supported, .authenticate, .authChallenge]
    = .done false := by decide
example : siteRun (dispatch true) .connHeartBeat [.supported, .ready, .resultVoid] = none := by decide

end C05DispatchFixed
