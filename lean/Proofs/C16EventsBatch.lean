import Model.ClusterView
import Proofs.C16Ring
import Proofs.C16Index
import Proofs.C16EventsCoalesce
/-! helper lemmas: the dispatch of coalesced status events is independent of the dispatch order
(every event touches the pool of one host id, the policy entries of one connect address, the state of one
object) — views are compared as SETS (`Same`): Go's map iteration order decides the order of the lists -/
namespace C16
open Ring ClusterView

def SameSet {α : Type} (l1 l2 : List α) : Prop := ∀ x, x ∈ l1 ↔ x ∈ l2

theorem SameSet.refl {α : Type} (l : List α) : SameSet l l := fun _ => Iff.rfl
theorem SameSet.symm {α : Type} {l1 l2 : List α} (h : SameSet l1 l2) : SameSet l2 l1 := fun x => (h x).symm
theorem SameSet.trans {α : Type} {l1 l2 l3 : List α} (h : SameSet l1 l2) (h' : SameSet l2 l3) : SameSet l1 l3 :=
  fun x => (h x).trans (h' x)

/-- equality of views up to the order (and multiplicity) of the pool / policy / down lists -/
structure Same (v w : View) : Prop where
  ring : v.ring = w.ring
  pools : SameSet v.pools w.pools
  ta : SameSet v.pol.ta w.pol.ta
  loc : SameSet v.pol.loc w.pol.loc
  rem : SameSet v.pol.rem w.pol.rem
  down : SameSet v.down w.down
  req : v.refreshReq = w.refreshReq
  crashed : v.crashed = w.crashed

theorem Same.refl (v : View) : Same v v := ⟨rfl, .refl _, .refl _, .refl _, .refl _, .refl _, rfl, rfl⟩
theorem Same.symm {v w : View} (h : Same v w) : Same w v :=
  ⟨h.ring.symm, h.pools.symm, h.ta.symm, h.loc.symm, h.rem.symm, h.down.symm, h.req.symm, h.crashed.symm⟩
theorem Same.trans {u v w : View} (h : Same u v) (h' : Same v w) : Same u w :=
  ⟨h.ring.trans h'.ring, h.pools.trans h'.pools, h.ta.trans h'.ta, h.loc.trans h'.loc, h.rem.trans h'.rem,
   h.down.trans h'.down, h.req.trans h'.req, h.crashed.trans h'.crashed⟩

/-! ### list operations -/

theorem mem_cowAdd (l : List RHost) (h x : RHost) :
    x ∈ cowAdd l h ↔ x ∈ l ∨ (x = h ∧ ∀ y ∈ l, cAddr y ≠ cAddr h) := by
  unfold cowAdd
  by_cases hc : (l.any (fun e => cAddr e == cAddr h)) = true
  · rw [if_pos hc]
    simp only [List.any_eq_true, beq_iff_eq] at hc
    obtain ⟨y, hy, hyc⟩ := hc
    constructor
    · intro hx; exact Or.inl hx
    · rintro (hx | ⟨_, hall⟩)
      · exact hx
      · exact absurd hyc (hall y hy)
  · rw [if_neg hc]
    simp only [List.any_eq_true, beq_iff_eq, not_exists, not_and] at hc
    simp only [List.mem_append, List.mem_singleton]
    constructor
    · rintro (hx | hx)
      · exact Or.inl hx
      · exact Or.inr ⟨hx, hc⟩
    · rintro (hx | ⟨hx, _⟩)
      · exact Or.inl hx
      · exact Or.inr hx

theorem mem_cowRemove (l : List RHost) (ip : Nat) (x : RHost) :
    x ∈ cowRemove l ip ↔ x ∈ l ∧ cAddr x ≠ ip := by
  simp [cowRemove, List.mem_filter]

theorem mem_poolAdd (m : List (Nat × RHost)) (h : RHost) (x : Nat × RHost) :
    x ∈ poolAdd m h ↔ x ∈ m ∨ (x = (h.id, h) ∧ ∀ y ∈ m, y.1 ≠ h.id) := by
  unfold poolAdd
  by_cases hc : hasKey m h.id = true
  · rw [if_pos hc]
    simp only [hasKey, List.any_eq_true, beq_iff_eq] at hc
    obtain ⟨y, hy, hyc⟩ := hc
    constructor
    · intro hx; exact Or.inl hx
    · rintro (hx | ⟨_, hall⟩)
      · exact hx
      · exact absurd hyc (hall y hy)
  · rw [if_neg hc]
    simp only [hasKey, List.any_eq_true, beq_iff_eq, not_exists, not_and] at hc
    simp only [List.mem_append, List.mem_singleton]
    constructor
    · rintro (hx | hx)
      · exact Or.inl hx
      · exact Or.inr ⟨hx, hc⟩
    · rintro (hx | ⟨hx, _⟩)
      · exact Or.inl hx
      · exact Or.inr hx

inductive LOp | id | add (h : RHost) | rm (ip : Nat)
def LOp.app : LOp → List RHost → List RHost
  | .id, l => l
  | .add h, l => cowAdd l h
  | .rm ip, l => cowRemove l ip
def LOp.key : LOp → Option Nat
  | .id => none
  | .add h => some (cAddr h)
  | .rm ip => some ip

theorem LOp.congr (o : LOp) {l l' : List RHost} (h : SameSet l l') : SameSet (o.app l) (o.app l') := by
  intro x
  cases o with
  | id => exact h x
  | add g =>
    simp only [LOp.app, mem_cowAdd]
    constructor
    · rintro (hx | ⟨hx, hall⟩)
      · exact Or.inl ((h x).mp hx)
      · exact Or.inr ⟨hx, fun y hy => hall y ((h y).mpr hy)⟩
    · rintro (hx | ⟨hx, hall⟩)
      · exact Or.inl ((h x).mpr hx)
      · exact Or.inr ⟨hx, fun y hy => hall y ((h y).mp hy)⟩
  | rm ip =>
    simp only [LOp.app, mem_cowRemove]
    constructor
    · rintro ⟨hx, hne⟩; exact ⟨(h x).mp hx, hne⟩
    · rintro ⟨hx, hne⟩; exact ⟨(h x).mpr hx, hne⟩

theorem LOp.comm (o1 o2 : LOp) (l : List RHost)
    (hk : ∀ k1 k2, o1.key = some k1 → o2.key = some k2 → k1 ≠ k2) :
    SameSet (o2.app (o1.app l)) (o1.app (o2.app l)) := by
  intro x
  cases o1 with
  | id => exact Iff.rfl
  | add h1 =>
    cases o2 with
    | id => exact Iff.rfl
    | add h2 =>
      have hne : cAddr h1 ≠ cAddr h2 := hk _ _ rfl rfl
      simp only [LOp.app, mem_cowAdd]
      constructor
      · rintro ((hx | ⟨hx, h1a⟩) | ⟨hx, h2a⟩)
        · exact Or.inl (Or.inl hx)
        · refine Or.inr ⟨hx, ?_⟩
          rintro y (hy | ⟨hy, _⟩)
          · exact h1a y hy
          · subst hy; exact fun e => hne e.symm
        · exact Or.inl (Or.inr ⟨hx, fun y hy => h2a y (Or.inl hy)⟩)
      · rintro ((hx | ⟨hx, h2a⟩) | ⟨hx, h1a⟩)
        · exact Or.inl (Or.inl hx)
        · refine Or.inr ⟨hx, ?_⟩
          rintro y (hy | ⟨hy, _⟩)
          · exact h2a y hy
          · subst hy; exact hne
        · exact Or.inl (Or.inr ⟨hx, fun y hy => h1a y (Or.inl hy)⟩)
    | rm ip =>
      have hne : cAddr h1 ≠ ip := hk _ _ rfl rfl
      simp only [LOp.app, mem_cowAdd, mem_cowRemove]
      constructor
      · rintro ⟨(hx | ⟨hx, h1a⟩), hxi⟩
        · exact Or.inl ⟨hx, hxi⟩
        · exact Or.inr ⟨hx, fun y hy => h1a y hy.1⟩
      · rintro (⟨hx, hxi⟩ | ⟨hx, h1a⟩)
        · exact ⟨Or.inl hx, hxi⟩
        · refine ⟨Or.inr ⟨hx, ?_⟩, by rw [hx]; exact hne⟩
          intro y hy
          by_cases hyi : cAddr y = ip
          · rw [hyi]; exact fun e => hne e.symm
          · exact h1a y ⟨hy, hyi⟩
  | rm ip1 =>
    cases o2 with
    | id => exact Iff.rfl
    | add h2 =>
      have hne : ip1 ≠ cAddr h2 := hk _ _ rfl rfl
      simp only [LOp.app, mem_cowAdd, mem_cowRemove]
      constructor
      · rintro (⟨hx, hxi⟩ | ⟨hx, h2a⟩)
        · exact ⟨Or.inl hx, hxi⟩
        · refine ⟨Or.inr ⟨hx, ?_⟩, by rw [hx]; exact fun e => hne e.symm⟩
          intro y hy
          by_cases hyi : cAddr y = ip1
          · rw [hyi]; exact hne
          · exact h2a y ⟨hy, hyi⟩
      · rintro ⟨(hx | ⟨hx, h2a⟩), hxi⟩
        · exact Or.inl ⟨hx, hxi⟩
        · exact Or.inr ⟨hx, fun y hy => h2a y hy.1⟩
    | rm ip2 =>
      simp only [LOp.app, mem_cowRemove]
      constructor
      · rintro ⟨⟨hx, h1⟩, h2⟩; exact ⟨⟨hx, h2⟩, h1⟩
      · rintro ⟨⟨hx, h2⟩, h1⟩; exact ⟨⟨hx, h1⟩, h2⟩

inductive POp | id | add (h : RHost) | rm (id : Nat)
def POp.app : POp → List (Nat × RHost) → List (Nat × RHost)
  | .id, m => m
  | .add h, m => poolAdd m h
  | .rm k, m => erase m k
def POp.key : POp → Option Nat
  | .id => none
  | .add h => some h.id
  | .rm k => some k

theorem POp.congr (o : POp) {l l' : List (Nat × RHost)} (h : SameSet l l') : SameSet (o.app l) (o.app l') := by
  intro x
  cases o with
  | id => exact h x
  | add g =>
    simp only [POp.app, mem_poolAdd]
    constructor
    · rintro (hx | ⟨hx, hall⟩)
      · exact Or.inl ((h x).mp hx)
      · exact Or.inr ⟨hx, fun y hy => hall y ((h y).mpr hy)⟩
    · rintro (hx | ⟨hx, hall⟩)
      · exact Or.inl ((h x).mpr hx)
      · exact Or.inr ⟨hx, fun y hy => hall y ((h y).mp hy)⟩
  | rm k =>
    simp only [POp.app, mem_erase]
    constructor
    · rintro ⟨hx, hne⟩; exact ⟨(h x).mp hx, hne⟩
    · rintro ⟨hx, hne⟩; exact ⟨(h x).mpr hx, hne⟩

theorem POp.comm (o1 o2 : POp) (l : List (Nat × RHost))
    (hk : ∀ k1 k2, o1.key = some k1 → o2.key = some k2 → k1 ≠ k2) :
    SameSet (o2.app (o1.app l)) (o1.app (o2.app l)) := by
  intro x
  cases o1 with
  | id => exact Iff.rfl
  | add h1 =>
    cases o2 with
    | id => exact Iff.rfl
    | add h2 =>
      have hne : h1.id ≠ h2.id := hk _ _ rfl rfl
      simp only [POp.app, mem_poolAdd]
      constructor
      · rintro ((hx | ⟨hx, h1a⟩) | ⟨hx, h2a⟩)
        · exact Or.inl (Or.inl hx)
        · refine Or.inr ⟨hx, ?_⟩
          rintro y (hy | ⟨hy, _⟩)
          · exact h1a y hy
          · subst hy; exact fun e => hne e.symm
        · exact Or.inl (Or.inr ⟨hx, fun y hy => h2a y (Or.inl hy)⟩)
      · rintro ((hx | ⟨hx, h2a⟩) | ⟨hx, h1a⟩)
        · exact Or.inl (Or.inl hx)
        · refine Or.inr ⟨hx, ?_⟩
          rintro y (hy | ⟨hy, _⟩)
          · exact h2a y hy
          · subst hy; exact hne
        · exact Or.inl (Or.inr ⟨hx, fun y hy => h1a y (Or.inl hy)⟩)
    | rm k =>
      have hne : h1.id ≠ k := hk _ _ rfl rfl
      simp only [POp.app, mem_poolAdd, mem_erase]
      constructor
      · rintro ⟨(hx | ⟨hx, h1a⟩), hxi⟩
        · exact Or.inl ⟨hx, hxi⟩
        · exact Or.inr ⟨hx, fun y hy => h1a y hy.1⟩
      · rintro (⟨hx, hxi⟩ | ⟨hx, h1a⟩)
        · exact ⟨Or.inl hx, hxi⟩
        · refine ⟨Or.inr ⟨hx, ?_⟩, by rw [hx]; exact hne⟩
          intro y hy
          by_cases hyi : y.1 = k
          · rw [hyi]; exact fun e => hne e.symm
          · exact h1a y ⟨hy, hyi⟩
  | rm k1 =>
    cases o2 with
    | id => exact Iff.rfl
    | add h2 =>
      have hne : k1 ≠ h2.id := hk _ _ rfl rfl
      simp only [POp.app, mem_poolAdd, mem_erase]
      constructor
      · rintro (⟨hx, hxi⟩ | ⟨hx, h2a⟩)
        · exact ⟨Or.inl hx, hxi⟩
        · refine ⟨Or.inr ⟨hx, ?_⟩, by rw [hx]; exact fun e => hne e.symm⟩
          intro y hy
          by_cases hyi : y.1 = k1
          · rw [hyi]; exact hne
          · exact h2a y ⟨hy, hyi⟩
      · rintro ⟨(hx | ⟨hx, h2a⟩), hxi⟩
        · exact Or.inl ⟨hx, hxi⟩
        · exact Or.inr ⟨hx, fun y hy => h2a y hy.1⟩
    | rm k2 =>
      simp only [POp.app, mem_erase]
      constructor
      · rintro ⟨⟨hx, h1⟩, h2⟩; exact ⟨⟨hx, h2⟩, h1⟩
      · rintro ⟨⟨hx, h2⟩, h1⟩; exact ⟨⟨hx, h1⟩, h2⟩

/-- `setState(NodeDown)` of an object -/
def downApp : Option Nat → List Nat → List Nat
  | none, d => d
  | some o, d => o :: d.filter (· != o)

theorem mem_downApp (o : Option Nat) (d : List Nat) (x : Nat) :
    x ∈ downApp o d ↔ o = some x ∨ x ∈ d := by
  cases o with
  | none => simp [downApp]
  | some o =>
    simp only [downApp, List.mem_cons, List.mem_filter, bne_iff_ne, ne_eq, Option.some.injEq]
    constructor
    · rintro (h | ⟨h, _⟩)
      · exact Or.inl h.symm
      · exact Or.inr h
    · rintro (h | h)
      · exact Or.inl h.symm
      · by_cases hx : x = o
        · exact Or.inl hx
        · exact Or.inr ⟨h, hx⟩

end C16
