import Proofs.C14Conn
/-!
# C14, session tier: a flight is completed by its own agents (helper lemmas)

From any state in which flight f exists, at most three steps — the publishing caller starting the goroutine, the
server receiving the PREPARE, the goroutine completing the flight — make it done; none of them is a step of a
caller that merely waits, and none needs any caller's context to be live.
-/
namespace C14Live
open PConn C14Conn

variable {κ : Type} [DecidableEq κ]

/-- the actions of a flight's own agents -/
def Agent (f : Nat) (a : Action κ) : Prop := (∃ g, a = .spawn g) ∨ (∃ r, a = .srvPrepare f r) ∨ a = .complete f

theorem run_cons {s s1 s2 : State κ} {a : Action κ} {as : List (Action κ)} {e1 e2 : List (Ev κ)}
    (h1 : PConn.step s a = some (s1, e1)) (h2 : PConn.run s1 as = some (s2, e2)) :
    PConn.run s (a :: as) = some (s2, e1 ++ e2) := by
  simp only [PConn.run, h1, h2]

theorem getElem?_set_self' {α : Type} (l : List α) (i : Nat) (x a : α) (h : l[i]? = some x) : (l.set i a)[i]? = some a := by
  have hlt : i < l.length := (List.getElem?_eq_some_iff.1 h).1
  simp [hlt]

/-- the goroutine's last step: the flight is done afterwards (on failure the key was removed first) -/
theorem complete_done (s : State κ) (f : Nat) (fl : Flight κ) (hf : s.flights[f]? = some fl)
    (ha : fl.ans ≠ none) (hd : fl.done = false) :
    ∃ s' evs fl', PConn.step s (.complete f) = some (s', evs) ∧ s'.flights[f]? = some fl' ∧ fl'.done = true ∧ fl'.ans ≠ none := by
  cases har : fl.ans with
  | none => exact absurd har ha
  | some r =>
    cases r with
    | some p =>
      refine ⟨setDone s f, [], { fl with done := true }, by simp [PConn.step, hf, har, hd], ?_, rfl, by simp [har]⟩
      unfold setDone
      simp only [hf]
      exact getElem?_set_self' _ _ _ _ hf
    | none =>
      obtain ⟨fl1, h1, _, h3, _⟩ := removeKey_flmono s fl.key f fl hf
      refine ⟨setDone (removeKey s fl.key).1 f, (removeKey s fl.key).2, { fl1 with done := true },
        by simp [PConn.step, hf, har, hd], ?_, rfl, by simp only []; rw [h3 ha]; exact ha⟩
      unfold setDone
      simp only [h1]
      exact getElem?_set_self' _ _ _ _ h1

theorem stage3 (s : State κ) (f : Nat) (fl : Flight κ) (hf : s.flights[f]? = some fl) (ha : fl.ans ≠ none) :
    ∃ (as : List (Action κ)) (s' : State κ) (tr : List (Ev κ)) (fl' : Flight κ), as.length ≤ 1 ∧ (∀ a ∈ as, Agent f a) ∧
      PConn.run s as = some (s', tr) ∧ s'.flights[f]? = some fl' ∧ fl'.done = true ∧ fl'.ans ≠ none := by
  cases hd : fl.done with
  | true => exact ⟨[], s, [], fl, by simp, by simp, rfl, hf, hd, ha⟩
  | false =>
    obtain ⟨s', evs, fl', h1, h2, h3⟩ := complete_done s f fl hf ha hd
    refine ⟨[.complete f], s', evs ++ [], fl', by simp, ?_, run_cons h1 rfl, h2, h3⟩
    intro a ha'; simp at ha'; subst ha'; exact Or.inr (Or.inr rfl)

theorem stage2 (s : State κ) (f : Nat) (fl : Flight κ) (hf : s.flights[f]? = some fl) (hsp : fl.spawned = true) :
    ∃ (as : List (Action κ)) (s' : State κ) (tr : List (Ev κ)) (fl' : Flight κ), as.length ≤ 2 ∧ (∀ a ∈ as, Agent f a) ∧
      PConn.run s as = some (s', tr) ∧ s'.flights[f]? = some fl' ∧ fl'.done = true ∧ fl'.ans ≠ none := by
  by_cases ha : fl.ans = none
  · -- the server receives the PREPARE (sent on the connection's context) and answers it
    have h1 : PConn.step s (.srvPrepare f (some ([], 0))) =
        some ({ s with flights := s.flights.set f { fl with ans := some (some ([], 0)) } }, [.prep f fl.key (some ([], 0))]) := by
      simp [PConn.step, hf, ha, hsp]
    obtain ⟨as, s', tr, fl', g1, g2, g3, g4, g5⟩ :=
      stage3 { s with flights := s.flights.set f { fl with ans := some (some ([], 0)) } } f
        { fl with ans := some (some ([], 0)) } (getElem?_set_self' _ _ _ _ hf) (by simp)
    refine ⟨.srvPrepare f (some ([], 0)) :: as, s', _, fl', by simp; omega, ?_, run_cons h1 g3, g4, g5⟩
    intro a ha'
    rcases List.mem_cons.1 ha' with ha' | ha'
    · subst ha'; exact Or.inr (Or.inl ⟨_, rfl⟩)
    · exact g2 a ha'
  · obtain ⟨as, s', tr, fl', g1, g2, g3, g4, g5⟩ := stage3 s f fl hf ha
    exact ⟨as, s', tr, fl', by omega, g2, g3, g4, g5⟩

theorem stage1 (s : State κ) (hI : Inv s) (f : Nat) (fl : Flight κ) (hf : s.flights[f]? = some fl) :
    ∃ (as : List (Action κ)) (s' : State κ) (tr : List (Ev κ)) (fl' : Flight κ), as.length ≤ 3 ∧ (∀ a ∈ as, Agent f a) ∧
      PConn.run s as = some (s', tr) ∧ s'.flights[f]? = some fl' ∧ fl'.done = true ∧ fl'.ans ≠ none := by
  cases hsp : fl.spawned with
  | true =>
    obtain ⟨as, s', tr, fl', g1, g2, g3, g4, g5⟩ := stage2 s f fl hf hsp
    exact ⟨as, s', tr, fl', by omega, g2, g3, g4, g5⟩
  | false =>
    -- the publishing caller is still inside prepareStatement and starts the goroutine
    obtain ⟨g, gl, hg, hgp⟩ := hI.unspawned f fl hf hsp
    have h1 : PConn.step s (.spawn g) =
        some ({ s with flights := s.flights.set f { fl with spawned := true },
                       callers := s.callers.set g { gl with pc := .waiting f } }, []) := by
      simp [PConn.step, hg, hgp, hf]
    obtain ⟨as, s', tr, fl', g1, g2, g3, g4, g5⟩ :=
      stage2 { s with flights := s.flights.set f { fl with spawned := true },
                      callers := s.callers.set g { gl with pc := .waiting f } } f
        { fl with spawned := true } (getElem?_set_self' _ _ _ _ hf) rfl
    refine ⟨.spawn g :: as, s', _, fl', by simp; omega, ?_, run_cons h1 g3, g4, g5⟩
    intro a ha'
    rcases List.mem_cons.1 ha' with ha' | ha'
    · subst ha'; exact Or.inl ⟨_, rfl⟩
    · exact g2 a ha'

/-! ### these steps leave a waiting caller alone -/

omit [DecidableEq κ] in
theorem setDone_callers (s : State κ) (f : Nat) : (setDone s f).callers = s.callers := by
  unfold setDone
  split <;> rfl

theorem agent_step_keeps_waiter {s s' : State κ} {a : Action κ} {evs : List (Ev κ)} {f c f' : Nat} {cl : Caller κ}
    (hs : PConn.step s a = some (s', evs)) (hag : Agent f a) (hc : s.callers[c]? = some cl) (hpc : cl.pc = .waiting f') :
    s'.callers[c]? = some cl := by
  rcases hag with ⟨g, rfl⟩ | ⟨r, rfl⟩ | rfl
  · simp only [PConn.step] at hs
    cases hg : s.callers[g]? with
    | none => simp [hg] at hs
    | some gl =>
      simp only [hg] at hs
      cases hgp : gl.pc with
      | won f0 =>
        simp only [hgp] at hs
        cases hf : s.flights[f0]? with
        | none => simp [hf] at hs
        | some fl =>
          simp only [hf] at hs
          injection hs with hs; injection hs with h1 _; subst h1
          have hne : g ≠ c := by
            intro e; subst e
            rw [hc] at hg; injection hg with hg; subst hg
            rw [hpc] at hgp; cases hgp
          simp only []
          rw [List.getElem?_set_ne hne]; exact hc
      | start => simp [hgp] at hs
      | waiting _ => simp [hgp] at hs
      | answered _ => simp [hgp] at hs
      | returned => simp [hgp] at hs
      | abandoned => simp [hgp] at hs
      | lagging => simp [hgp] at hs
  · simp only [PConn.step] at hs
    cases hf : s.flights[f]? with
    | none => simp [hf] at hs
    | some fl =>
      simp only [hf] at hs
      by_cases ha : fl.ans = none ∧ fl.spawned = true
      · rw [if_pos ha] at hs
        injection hs with hs; injection hs with h1 _; subst h1
        exact hc
      · rw [if_neg ha] at hs; cases hs
  · simp only [PConn.step] at hs
    cases hf : s.flights[f]? with
    | none => simp [hf] at hs
    | some fl =>
      simp only [hf] at hs
      cases ha : fl.ans with
      | none => simp [ha] at hs
      | some r =>
        simp only [ha] at hs
        by_cases hd : fl.done = true
        · simp [hd] at hs
        · rw [if_neg hd] at hs
          cases r with
          | some p =>
            simp only [] at hs
            injection hs with hs; injection hs with h1 _; subst h1
            rw [setDone_callers]; exact hc
          | none =>
            simp only [] at hs
            injection hs with hs; injection hs with h1 _; subst h1
            rw [setDone_callers, removeKey_callers]; exact hc

theorem agents_keep_waiter {f c f' : Nat} {cl : Caller κ} (hpc : cl.pc = .waiting f') :
    ∀ (as : List (Action κ)) (s s' : State κ) (tr : List (Ev κ)), (∀ a ∈ as, Agent f a) →
      PConn.run s as = some (s', tr) → s.callers[c]? = some cl → s'.callers[c]? = some cl
  | [], s, s', tr, _, h, hc => by
    simp only [PConn.run] at h
    injection h with h; injection h with h1 _; subst h1; exact hc
  | a :: as, s, s', tr, hag, h, hc => by
    simp only [PConn.run] at h
    cases hs : PConn.step s a with
    | none => simp [hs] at h
    | some p =>
      obtain ⟨s1, e1⟩ := p
      simp only [hs] at h
      cases hr : PConn.run s1 as with
      | none => simp [hr] at h
      | some q =>
        obtain ⟨s2, e2⟩ := q
        simp only [hr] at h
        injection h with h; injection h with h1 _; subst h1
        have hc1 := agent_step_keeps_waiter hs (hag a (by simp)) hc hpc
        exact agents_keep_waiter hpc as s1 s2 e2 (fun a' ha' => hag a' (List.mem_cons_of_mem _ ha')) hr hc1

end C14Live
