import Proofs.C08Any
/-! C08 without the client protocol, the two conditional parts:

* as long as `Clear(0)` is not called (`noClear0`): the bit of the reserved id stays set and every id
  handed out is in `1..NumStreams-1`;
* as long as, in addition, no `Clear` CAS succeeds on an id that a `GetStream` call has acquired but not
  yet returned (`calm`): `inuse ≥ 0`, i.e. `Clear` never panics with 'negative streams inuse'.
-/
namespace C08
open Streams

/-- the ids a thread is handing out / clearing are not the reserved id -/
def nz : PC → Prop
  | .g7 id => id ≠ 0
  | .c8 id => id ≠ 0
  | .c9 id _ => id ≠ 0
  | .c10 id => id ≠ 0
  | _ => True

/-- what ONE atomic operation can be (no protocol): neutral, acquire, return, release, decrement -/
theorem tstep_shape (sh : Shared) (pc : PC) (hn : 0 < sh.words.length) (hloc : localA sh.words.length pc) :
    ((tstep sh pc).1.words = sh.words ∧ (tstep sh pc).1.inuse = sh.inuse ∧ quiet pc ∧ quiet (tstep sh pc).2.1 ∧
        (nz pc → nz (tstep sh pc).2.1) ∧ (tstep sh pc).2.2 ≠ some .crashNegative)
    ∨ (∃ id, id < 64 * sh.words.length ∧ bitAt sh.words id = false ∧ quiet pc ∧
        (tstep sh pc).1.words = setBit sh.words id ∧ (tstep sh pc).2.1 = .g7 id ∧ (tstep sh pc).2.2 = none)
    ∨ (∃ id, pc = .g7 id ∧ (tstep sh pc).1.words = sh.words ∧ (tstep sh pc).2.1 = .idle ∧
        (tstep sh pc).2.2 = some (.stream id true))
    ∨ (∃ id b, pc = .c9 id b ∧ sh.words.getD (bucketOffset id) 0 = b ∧ bitAt sh.words id = true ∧
        id / 64 < sh.words.length ∧ (tstep sh pc).1.words = clrBit sh.words id ∧ (tstep sh pc).2.1 = .c11 id ∧
        (tstep sh pc).2.2 = none)
    ∨ (∃ id, pc = .c11 id ∧ (tstep sh pc).1.words = sh.words ∧ (tstep sh pc).1.inuse = sh.inuse - 1 ∧
        (tstep sh pc).2.1 = .idle ∧
        (tstep sh pc).2.2 = some (if sh.inuse - 1 < 0 then .crashNegative else .cleared true)) := by
  have hq0 : ∀ {p : PC}, isG7 p = false → isC11 p = false → quiet p := fun a b => ⟨a, b⟩
  have hscan : ∀ {p : PC}, scanPc p → quiet p ∧ nz p := by
    intro p h
    refine ⟨(scanPc_quiet 0 h).1, ?_⟩
    cases p <;> simp_all [scanPc, owns, nz]
  cases pc with
  | idle => left; exact ⟨rfl, rfl, hq0 rfl rfl, hq0 rfl rfl, fun _ => trivial, by simp [tstep]⟩
  | g1 => left; exact ⟨rfl, rfl, hq0 rfl rfl, hq0 rfl rfl, fun _ => trivial, by simp [tstep]⟩
  | g2 o =>
    left
    by_cases h : sh.offset = o
    · have e : tstep sh (.g2 o) = ({ sh with offset := nextOffset sh.words.length o }, .g4 (nextOffset sh.words.length o) 0, none) := by
        simp only [tstep, h, ↓reduceIte]
      rw [e]; exact ⟨rfl, rfl, hq0 rfl rfl, hq0 rfl rfl, fun _ => trivial, by simp⟩
    · have e : tstep sh (.g2 o) = (sh, .g3, none) := by simp only [tstep, h, ↓reduceIte]
      rw [e]; exact ⟨rfl, rfl, hq0 rfl rfl, hq0 rfl rfl, fun _ => trivial, by simp⟩
  | g3 => left; exact ⟨rfl, rfl, hq0 rfl rfl, hq0 rfl rfl, fun _ => trivial, by simp [tstep]⟩
  | g4 off i =>
    left
    have key : scanPc (tstep sh (.g4 off i)).2.1 ∧
        ((tstep sh (.g4 off i)).2.2 = none ∨ (tstep sh (.g4 off i)).2.2 = some (.stream 0 false)) := by
      simp only [tstep]
      split
      · exact nextWord_spec _ _ _
      · exact afterLoad_spec _ _ _ _ _
    refine ⟨rfl, rfl, hq0 rfl rfl, (hscan key.1).1, fun _ => (hscan key.1).2, ?_⟩
    rcases key.2 with h | h <;> simp [h]
  | g5 off i j b =>
    obtain ⟨hbit, hj⟩ := hloc
    by_cases h : sh.words.getD ((i + off) % sh.words.length) 0 = b
    · right; left
      have e : tstep sh (.g5 off i j b) =
          ({ sh with words := sh.words.set ((i + off) % sh.words.length) (b ||| mask j) },
           .g7 (streamFromBucket ((i + off) % sh.words.length) j), none) := by
        simp only [tstep, h, ↓reduceIte]
      rw [e]
      have hpos : (i + off) % sh.words.length < sh.words.length := Nat.mod_lt _ hn
      generalize (i + off) % sh.words.length = pos at *
      have hid1 : streamFromBucket pos j / 64 = pos := by unfold streamFromBucket; omega
      have hso : streamOffset (streamFromBucket pos j) = streamOffset j := by
        unfold streamOffset streamFromBucket; omega
      have hmask : mask (streamFromBucket pos j) = mask j := by unfold mask; rw [hso]
      refine ⟨streamFromBucket pos j, by unfold streamFromBucket; omega, ?_, hq0 rfl rfl, ?_, rfl, rfl⟩
      · unfold bitAt; rw [hid1, hso, h]; exact hbit
      · show sh.words.set pos (b ||| mask j) = setBit sh.words (streamFromBucket pos j)
        unfold setBit; rw [hid1, hmask, h]
    · left
      have e : tstep sh (.g5 off i j b) = (sh, .g6 off i j, none) := by simp only [tstep, h, ↓reduceIte]
      rw [e]; exact ⟨rfl, rfl, hq0 rfl rfl, hq0 rfl rfl, fun _ => trivial, by simp⟩
  | g6 off i j =>
    left
    have key : scanPc (tstep sh (.g6 off i j)).2.1 ∧
        ((tstep sh (.g6 off i j)).2.2 = none ∨ (tstep sh (.g6 off i j)).2.2 = some (.stream 0 false)) := by
      simp only [tstep]
      exact afterLoad_spec _ _ _ _ _
    refine ⟨rfl, rfl, hq0 rfl rfl, (hscan key.1).1, fun _ => (hscan key.1).2, ?_⟩
    rcases key.2 with h | h <;> simp [h]
  | g7 id => right; right; left; exact ⟨id, rfl, rfl, rfl, rfl⟩
  | c8 id =>
    left
    by_cases hlt : bucketOffset id < sh.words.length
    · generalize hb : sh.words.getD (bucketOffset id) 0 = b
      by_cases hbit : b &&& mask id ≠ mask id
      · have e : tstep sh (.c8 id) = (sh, .idle, some (.cleared false)) := by
          simp only [tstep, hlt, hb, ↓reduceIte, if_pos hbit]
        rw [e]; exact ⟨rfl, rfl, hq0 rfl rfl, hq0 rfl rfl, fun _ => trivial, by simp⟩
      · have e : tstep sh (.c8 id) = (sh, .c9 id b, none) := by
          simp only [tstep, hlt, hb, ↓reduceIte, if_neg hbit]
        rw [e]; exact ⟨rfl, rfl, hq0 rfl rfl, hq0 rfl rfl, fun h => h, by simp⟩
    · have e : tstep sh (.c8 id) = (sh, .idle, some (.cleared false)) := by
        simp only [tstep, hlt, ↓reduceIte]
      rw [e]; exact ⟨rfl, rfl, hq0 rfl rfl, hq0 rfl rfl, fun _ => trivial, by simp⟩
  | c9 id b =>
    obtain ⟨hbit, hlt⟩ := hloc
    by_cases h : sh.words.getD (bucketOffset id) 0 = b
    · right; right; right; left
      have e : tstep sh (.c9 id b) =
          ({ sh with words := sh.words.set (bucketOffset id) (b &&& ~~~ mask id) }, .c11 id, none) := by
        simp only [tstep, h, ↓reduceIte]
      rw [e]
      refine ⟨id, b, rfl, h, ?_, hlt, ?_, rfl, rfl⟩
      · unfold bitAt; rw [show id / 64 = bucketOffset id from rfl, h]; exact hbit
      · show sh.words.set (bucketOffset id) (b &&& ~~~ mask id) = clrBit sh.words id
        unfold clrBit bucketOffset; rw [← h]; rfl
    · left
      have e : tstep sh (.c9 id b) = (sh, .c10 id, none) := by simp only [tstep, h, ↓reduceIte]
      rw [e]; exact ⟨rfl, rfl, hq0 rfl rfl, hq0 rfl rfl, fun h => h, by simp⟩
  | c10 id =>
    left
    generalize hb : sh.words.getD (bucketOffset id) 0 = b
    by_cases hbit : b &&& mask id ≠ mask id
    · have e : tstep sh (.c10 id) = (sh, .idle, some (.cleared false)) := by
        simp only [tstep, hb, if_pos hbit]
      rw [e]; exact ⟨rfl, rfl, hq0 rfl rfl, hq0 rfl rfl, fun _ => trivial, by simp⟩
    · have e : tstep sh (.c10 id) = (sh, .c9 id b, none) := by
        simp only [tstep, hb, if_neg hbit]
      rw [e]; exact ⟨rfl, rfl, hq0 rfl rfl, hq0 rfl rfl, fun h => h, by simp⟩
  | c11 id => right; right; right; right; exact ⟨id, rfl, rfl, rfl, rfl, rfl⟩
  | a12 => left; exact ⟨rfl, rfl, hq0 rfl rfl, hq0 rfl rfl, fun _ => trivial, by simp [tstep]⟩

/-! ### as long as `Clear(0)` is not called -/

structure InvB (n : Nat) (sh : Shared) (ths : List PC) (evs : List Ev) : Prop where
  reserved : bitAt sh.words 0 = true
  nzs : ∀ (t : Nat) (pc : PC), ths[t]? = some pc → nz pc
  gotOk : ∀ id : Nat, Ev.got id ∈ evs → 1 ≤ id ∧ id < 64 * n

theorem invB_set {n : Nat} {sh : Shared} {ths : List PC} {evs : List Ev} (hB : InvB n sh ths evs)
    {t : Nat} {pc : PC} (ht : ths[t]? = some pc) (sh' : Shared) (pc' : PC) (evs' : List Ev)
    (hres : bitAt sh'.words 0 = true) (hnz : nz pc')
    (hgot : ∀ id : Nat, Ev.got id ∈ evs' → 1 ≤ id ∧ id < 64 * n) : InvB n sh' (ths.set t pc') evs' := by
  refine ⟨hres, ?_, hgot⟩
  intro u pcu hu
  simp only [get_set ht] at hu
  split at hu
  · cases hu; exact hnz
  · exact hB.nzs u pcu hu

theorem invB_tstep {b0 : Nat → Bool} {c0 : Int} {sh : Shared} {ths : List PC} {evs : List Ev}
    (hA : InvA b0 c0 sh ths evs) (hB : InvB sh.words.length sh ths evs) {t : Nat} {pc : PC}
    (ht : ths[t]? = some pc) :
    InvB sh.words.length (tstep sh pc).1 (ths.set t (tstep sh pc).2.1) (evOfPC pc ++ evs) := by
  have hnzpc := hB.nzs t pc ht
  rcases tstep_shape sh pc hA.npos (hA.locals t pc ht) with
    ⟨h1, _, h3, _, h5, _⟩ | ⟨id, h1, h2, h3, h4, h5, _⟩ | ⟨id, rfl, h2, h3, _⟩ | ⟨id, b, rfl, _, h3, h4, h5, h6, _⟩ |
    ⟨id, rfl, h2, _, h4, _⟩
  · rw [(quiet_x h3 0).2.2]
    exact invB_set hB ht _ _ _ (by rw [h1]; exact hB.reserved) (h5 hnzpc) hB.gotOk
  · rw [(quiet_x h3 0).2.2, h5]
    have hbits : ∀ x, bitAt (setBit sh.words id) x = (decide (x = id) || bitAt sh.words x) :=
      fun x => bitAt_setBit _ _ _ (by omega)
    refine invB_set hB ht _ _ _ (by rw [h4, hbits]; simp [hB.reserved]) ?_ hB.gotOk
    intro h0
    rw [h0, hB.reserved] at h2; cases h2
  · rw [h3]
    refine invB_set hB ht _ _ _ (by rw [h2]; exact hB.reserved) trivial ?_
    intro x hx
    simp only [evOfPC, List.singleton_append, List.mem_cons, Ev.got.injEq] at hx
    rcases hx with rfl | hx
    · have : x < 64 * sh.words.length := hA.locals t _ ht
      have h0 : x ≠ 0 := hnzpc
      omega
    · exact hB.gotOk x hx
  · rw [h6]
    have hbits : ∀ x, bitAt (clrBit sh.words id) x = (!decide (x = id) && bitAt sh.words x) :=
      fun x => bitAt_clrBit _ _ _ h4
    have h0 : (0 : Nat) ≠ id := fun e => hnzpc e.symm
    exact invB_set hB ht _ _ _ (by rw [h5, hbits]; simp [hB.reserved, h0]) trivial hB.gotOk
  · rw [h4]
    refine invB_set hB ht _ _ _ (by rw [h2]; exact hB.reserved) trivial ?_
    intro x hx
    simp only [evOfPC, List.singleton_append, List.mem_cons] at hx
    rcases hx with hx | hx
    · cases hx
    · exact hB.gotOk x hx

/-! ### as long as, in addition, no `Clear` CAS hits an id that is being handed out -/

structure InvC (sh : Shared) (ths : List PC) : Prop where
  g7le : ∀ x : Nat, ths.countP (g7x x) ≤ b2n (bitAt sh.words x)

theorem invC_set {sh : Shared} {ths : List PC} (hC : InvC sh ths) {t : Nat} {pc : PC}
    (ht : ths[t]? = some pc) (sh' : Shared) (pc' : PC)
    (h : ∀ x : Nat, ths.countP (g7x x) ≤ b2n (bitAt sh.words x) →
      ths.countP (g7x x) + b2n (g7x x pc') ≤ b2n (bitAt sh'.words x) + b2n (g7x x pc)) :
    InvC sh' (ths.set t pc') := by
  refine ⟨fun x => ?_⟩
  have h1 := countP_set (g7x x) ths t pc' pc ht
  have h2 := h x (hC.g7le x)
  simp only [b2n] at h1 h2 ⊢
  omega

theorem invC_tstep {b0 : Nat → Bool} {c0 : Int} {sh : Shared} {ths : List PC} {evs : List Ev}
    (hA : InvA b0 c0 sh ths evs) (hC : InvC sh ths) {t : Nat} {pc : PC} (ht : ths[t]? = some pc)
    (hcalm : ∀ id b, pc = .c9 id b → sh.words.getD (bucketOffset id) 0 = b → ths.countP (g7x id) = 0) :
    InvC (tstep sh pc).1 (ths.set t (tstep sh pc).2.1) := by
  rcases tstep_shape sh pc hA.npos (hA.locals t pc ht) with
    ⟨h1, _, h3, h4, _, _⟩ | ⟨id, h1, h2, h3, h4, h5, _⟩ | ⟨id, rfl, h2, h3, _⟩ | ⟨id, b, rfl, hb, h3, h4, h5, h6, _⟩ |
    ⟨id, rfl, h2, _, h4, _⟩
  · refine invC_set hC ht _ _ ?_
    intro x hx
    rw [h1, (quiet_x h3 x).1, (quiet_x h4 x).1]; simpa [b2n] using hx
  · rw [h5]
    have hbits : ∀ x, bitAt (setBit sh.words id) x = (decide (x = id) || bitAt sh.words x) :=
      fun x => bitAt_setBit _ _ _ (by omega)
    refine invC_set hC ht _ _ ?_
    intro x hx
    rw [h4, hbits, (quiet_x h3 x).1]
    by_cases hxi : x = id
    · subst hxi
      rw [h2] at hx
      simp [b2n, g7x] at hx ⊢
      omega
    · have : ¬ id = x := fun e => hxi e.symm
      simp [b2n, g7x, hxi, this] at hx ⊢
      exact hx
  · rw [h3]
    refine invC_set hC ht _ _ ?_
    intro x hx
    rw [h2]
    simp [b2n, g7x] at hx ⊢
    omega
  · rw [h6]
    have hbits : ∀ x, bitAt (clrBit sh.words id) x = (!decide (x = id) && bitAt sh.words x) :=
      fun x => bitAt_clrBit _ _ _ h4
    have h0 := hcalm id b rfl hb
    refine invC_set hC ht _ _ ?_
    intro x hx
    rw [h5, hbits]
    by_cases hxi : x = id
    · subst hxi
      simp [b2n, g7x, h0]
    · simp [b2n, g7x, hxi] at hx ⊢
      exact hx
  · rw [h4]
    refine invC_set hC ht _ _ ?_
    intro x hx
    rw [h2]
    simp [b2n, g7x] at hx ⊢
    exact hx

/-- counting: threads at `g7` hold pairwise different set bits -/
theorem g7_le_count (K : Nat) (ths : List PC) : ∀ (p : Nat → Bool),
    (∀ id, PC.g7 id ∈ ths → id < K) → (∀ x, ths.countP (g7x x) ≤ b2n (p x)) →
    ths.countP isG7 ≤ countBelow p K := by
  induction ths with
  | nil => intro p _ _; simp
  | cons pc ths ih =>
    intro p hlt hle
    by_cases hg : ∃ a, pc = .g7 a
    · obtain ⟨a, rfl⟩ := hg
      have ha : a < K := hlt a (by simp)
      have h1 := hle a
      have hself : g7x a (.g7 a) = true := by simp [g7x]
      rw [List.countP_cons, hself] at h1
      have hpa : p a = true := by
        cases hp : p a
        · rw [hp] at h1; simp [b2n] at h1
        · rfl
      have h0 : ths.countP (g7x a) = 0 := by
        rw [hpa] at h1; simp only [b2n, ↓reduceIte] at h1; omega
      have hq : ∀ x, ths.countP (g7x x) ≤ b2n ((fun y => !decide (y = a) && p y) x) := by
        intro x
        by_cases hx : x = a
        · subst hx; rw [h0]; exact Nat.zero_le _
        · have h2 := hle x
          have hne : g7x x (.g7 a) = false := by
            have : ¬ a = x := fun e => hx e.symm
            simp [g7x, this]
          rw [List.countP_cons, hne] at h2
          simpa [hx] using h2
      have h3 := ih (fun y => !decide (y = a) && p y) (fun id hid => hlt id (by simp [hid])) hq
      have h4 := countBelow_clr (p := p) (q := fun y => !decide (y = a) && p y) a (fun _ => rfl) hpa K
      simp only [ha, ↓reduceIte] at h4
      rw [List.countP_cons]
      simp only [isG7, ↓reduceIte]
      omega
    · have hnot : isG7 pc = false := by
        cases pc <;> simp_all [isG7]
      have hx : ∀ x, g7x x pc = false := by
        intro x
        cases pc <;> simp_all [g7x]
      have h3 := ih p (fun id hid => hlt id (by simp [hid])) (fun x => by
        have h2 := hle x
        rw [List.countP_cons, hx x] at h2
        simpa using h2)
      rw [List.countP_cons, hnot]
      simpa using h3

/-- the counter is not negative (more precisely: at least the number of threads between the CAS and
    the decrement of `Clear`) -/
theorem inuse_ge {b0 : Nat → Bool} {sh : Shared} {ths : List PC} {evs : List Ev}
    (hA : InvA b0 0 sh ths evs) (hB : InvB sh.words.length sh ths evs) (hC : InvC sh ths) :
    (ths.countP isC11 : Int) ≤ sh.inuse := by
  have hK : 0 < 64 * sh.words.length := by have := hA.npos; omega
  have hz : ths.countP (g7x 0) = 0 := by
    rw [List.countP_eq_zero]
    intro pc hpc
    obtain ⟨t, ht⟩ := List.mem_iff_getElem?.mp hpc
    have := hB.nzs t pc ht
    intro hg
    simp only [g7x, decide_eq_true_eq] at hg
    subst hg
    exact this rfl
  have h1 := g7_le_count (64 * sh.words.length) ths (fun y => !decide (y = 0) && bitAt sh.words y)
    (fun id hid => by
      obtain ⟨t, ht⟩ := List.mem_iff_getElem?.mp hid
      exact hA.locals t _ ht)
    (fun x => by
      by_cases hx : x = 0
      · subst hx; rw [hz]; exact Nat.zero_le _
      · simpa [hx] using hC.g7le x)
  have h2 := countBelow_clr (p := bitAt sh.words) (q := fun y => !decide (y = 0) && bitAt sh.words y) 0
    (fun _ => rfl) hB.reserved (64 * sh.words.length)
  simp only [hK, ↓reduceIte] at h2
  have h3 := hA.count
  omega

/-! ### the machine -/

/-- no thread-step of a calm machine returns the 'negative streams inuse' panic -/
theorem tstep_no_negative {b0 : Nat → Bool} {sh : Shared} {ths : List PC} {evs : List Ev}
    (hA : InvA b0 0 sh ths evs) (hB : InvB sh.words.length sh ths evs) (hC : InvC sh ths)
    {t : Nat} {pc : PC} (ht : ths[t]? = some pc) : (tstep sh pc).2.2 ≠ some .crashNegative := by
  rcases tstep_shape sh pc hA.npos (hA.locals t pc ht) with
    ⟨_, _, _, _, _, h6⟩ | ⟨id, _, _, _, _, _, h7⟩ | ⟨id, _, _, _, h5⟩ | ⟨id, b, _, _, _, _, _, _, h9⟩ |
    ⟨id, rfl, _, _, _, h6⟩
  · exact h6
  · rw [h7]; simp
  · rw [h5]; simp
  · rw [h9]; simp
  · rw [h6]
    have h1 := inuse_ge hA hB hC
    have h2 : 0 < ths.countP isC11 := by
      rw [List.countP_pos_iff]
      exact ⟨_, List.mem_of_getElem? ht, rfl⟩
    have h3 : ¬ (sh.inuse - 1 < 0) := by omega
    simp [h3]

structure InvN (n : Nat) (b0 : Nat → Bool) (s : State) (evs : List Ev) : Prop where
  len : s.sh.words.length = n
  a : InvA b0 0 s.sh s.threads evs
  b : InvB n s.sh s.threads evs

theorem nz_start (s : State) (t : Nat) (op : Op) (h : noClear0 s (.start t op) = true) : nz (startPC op) := by
  cases op with
  | get => trivial
  | avail => trivial
  | clear id => simpa [noClear0, startPC, nz] using h

theorem quiet_start (op : Op) : quiet (startPC op) ∧ evOfPC (startPC op) = [] ∧ ∀ n, localA n (startPC op) := by
  cases op <;> exact ⟨⟨rfl, rfl⟩, rfl, fun _ => trivial⟩

/-- the step `idle → startPC op` (the call) keeps the three invariants -/
theorem inv_call {n : Nat} {b0 : Nat → Bool} {s : State} {evs : List Ev} (hI : InvN n b0 s evs)
    {t : Nat} (hidle : s.threads[t]? = some .idle) (op : Op) (hnz : nz (startPC op)) :
    InvA b0 0 s.sh (s.threads.set t (startPC op)) evs ∧ InvB n s.sh (s.threads.set t (startPC op)) evs ∧
    (InvC s.sh s.threads → InvC s.sh (s.threads.set t (startPC op))) := by
  obtain ⟨hq, _, hl⟩ := quiet_start op
  refine ⟨?_, ?_, ?_⟩
  · have := invA_quiet hI.a hidle ⟨rfl, rfl⟩ s.sh (startPC op) rfl rfl hq (hl _)
    simpa [evOfPC] using this
  · exact invB_set hI.b hidle _ _ _ hI.b.reserved hnz hI.b.gotOk
  · intro hC
    refine invC_set hC hidle _ _ ?_
    intro x hx
    rw [(quiet_x hq x).1]
    simpa [b2n, g7x] using hx

theorem invN_step {n : Nat} {b0 : Nat → Bool} {s s' : State} {a : Action} {r : Option Ret} {evs : List Ev}
    (hI : InvN n b0 s evs) (hok : noClear0 s a = true) (hs : step s a = some (s', r)) :
    InvN n b0 s' (evOf s a ++ evs) := by
  refine ⟨by rw [(step_length hs).1]; exact hI.len, invA_step hI.a hs, ?_⟩
  have hlen := hI.len
  cases a with
  | start t op =>
    simp only [step] at hs
    split at hs
    · rename_i hidle
      simp only [Option.some.injEq] at hs
      obtain ⟨h1, h2, _⟩ := inv_call hI hidle op (nz_start s t op hok)
      have h3 := invB_tstep h1 (by rw [hlen]; exact h2) (t := t) (pc := startPC op) (by simp [get_set hidle])
      rw [List.set_set, (quiet_start op).2.1, hlen] at h3
      have e1 := congrArg Prod.fst hs
      simp only at e1
      rw [← e1]
      simp only [evOf, List.nil_append] at h3 ⊢
      exact h3
    · cases hs
  | step t =>
    simp only [step] at hs
    split at hs
    · rename_i pc hpc
      split at hs
      · cases hs
      · simp only [Option.some.injEq] at hs
        have h3 := invB_tstep hI.a (by rw [hlen]; exact hI.b) hpc
        rw [hlen] at h3
        have e1 := congrArg Prod.fst hs
        simp only at e1
        rw [← e1]
        simp only [evOf, hpc]
        exact h3
    · cases hs

theorem invC_step {n : Nat} {b0 : Nat → Bool} {s s' : State} {a : Action} {r : Option Ret} {evs : List Ev}
    (hI : InvN n b0 s evs) (hC : InvC s.sh s.threads) (hok : calm s a = true) (hs : step s a = some (s', r)) :
    InvC s'.sh s'.threads ∧ r ≠ some .crashNegative := by
  have hlen := hI.len
  have hok1 : noClear0 s a = true := by
    simp only [calm, Bool.and_eq_true] at hok; exact hok.1
  have hok2 : rogueCAS s a = false := by
    simp only [calm, Bool.and_eq_true, Bool.not_eq_true'] at hok; exact hok.2
  cases a with
  | start t op =>
    simp only [step] at hs
    split at hs
    · rename_i hidle
      simp only [Option.some.injEq] at hs
      obtain ⟨h1, h2, h3⟩ := inv_call hI hidle op (nz_start s t op hok1)
      have hget : (s.threads.set t (startPC op))[t]? = some (startPC op) := by simp [get_set hidle]
      have h4 := invC_tstep h1 (h3 hC) hget (by
        intro id b hpc _
        cases op <;> simp [startPC] at hpc)
      have h5 := tstep_no_negative h1 (by rw [hlen]; exact h2) (h3 hC) hget
      rw [List.set_set] at h4
      have e1 := congrArg Prod.fst hs
      have e2 := congrArg Prod.snd hs
      simp only at e1 e2
      rw [← e1, ← e2]
      exact ⟨h4, h5⟩
    · cases hs
  | step t =>
    simp only [step] at hs
    split at hs
    · rename_i pc hpc
      split at hs
      · cases hs
      · simp only [Option.some.injEq] at hs
        have h4 := invC_tstep hI.a hC hpc (by
          intro id b hpceq hb
          subst hpceq
          simp only [rogueCAS, hpc, hb, decide_true, Bool.true_and] at hok2
          rw [List.countP_eq_zero]
          intro pc' hpc'
          have := (List.any_eq_false.mp hok2) pc' hpc'
          simpa [g7x] using this)
        have h5 := tstep_no_negative hI.a (by rw [hlen]; exact hI.b) hC hpc
        have e1 := congrArg Prod.fst hs
        have e2 := congrArg Prod.snd hs
        simp only at e1 e2
        rw [← e1, ← e2]
        exact ⟨h4, h5⟩
    · cases hs

theorem invN_runAny {n : Nat} {b0 : Nat → Bool} (ok : State → Action → Bool)
    (hok : ∀ s a, ok s a = true → noClear0 s a = true) (as : List Action) :
    ∀ (s : State) (evs : List Ev) (s' : State) (evs' : List Ev), InvN n b0 s evs →
      runAny ok s evs as = some (s', evs') → InvN n b0 s' evs' := by
  induction as with
  | nil =>
    intro s evs s' evs' hI h
    simp only [runAny, Option.some.injEq, Prod.mk.injEq] at h
    obtain ⟨rfl, rfl⟩ := h
    exact hI
  | cons a as ih =>
    intro s evs s' evs' hI h
    simp only [runAny] at h
    split at h
    · rename_i hoka
      split at h
      · rename_i s1 r hs
        exact ih s1 _ s' evs' (invN_step hI (hok s a hoka) hs) h
      · cases h
    · cases h

theorem calm_noClear0 (s : State) (a : Action) (h : calm s a = true) : noClear0 s a = true := by
  simp only [calm, Bool.and_eq_true] at h; exact h.1

theorem invC_runAny {n : Nat} {b0 : Nat → Bool} (as : List Action) :
    ∀ (s : State) (evs : List Ev) (s' : State) (evs' : List Ev), InvN n b0 s evs → InvC s.sh s.threads →
      runAny calm s evs as = some (s', evs') → InvN n b0 s' evs' ∧ InvC s'.sh s'.threads := by
  induction as with
  | nil =>
    intro s evs s' evs' hI hC h
    simp only [runAny, Option.some.injEq, Prod.mk.injEq] at h
    obtain ⟨rfl, rfl⟩ := h
    exact ⟨hI, hC⟩
  | cons a as ih =>
    intro s evs s' evs' hI hC h
    simp only [runAny] at h
    split at h
    · rename_i hoka
      split at h
      · rename_i s1 r hs
        exact ih s1 _ s' evs' (invN_step hI (calm_noClear0 s a hoka) hs) (invC_step hI hC hoka hs).1 h
      · cases h
    · cases h

/-- a fresh generator with `k` idle threads -/
theorem invN_init (n k : Nat) (hn : 0 < n) :
    InvN n (bitAt (init n).words) (initState n k) [] ∧ InvC (initState n k).sh (initState n k).threads := by
  have hI := inv_init n k hn
  have hidle : ∀ pc, pc ∈ (initState n k).threads → pc = .idle := by
    intro pc hpc
    simp only [initState, List.mem_replicate] at hpc
    exact hpc.2
  have hA := invA_start (initState n k) hI.npos hidle
  have hc := hI.count
  have h0 : (initState n k).sh.inuse = 0 := rfl
  have hc0 : (initState n k).sh.inuse -
      ((countBelow (bitAt (initState n k).sh.words) (64 * (initState n k).sh.words.length) : Nat) - 1) = (0 : Int) := by
    have h1 : (initState n k).threads.countP isOwner = 0 := countP_idle (f := isOwner) rfl hidle
    have h2 : (initState n k).held.length = 0 := rfl
    rw [hc, h0, h1, h2]
    simp
  rw [hc0] at hA
  refine ⟨⟨by simp [initState, length_init], hA, hI.reserved, ?_, by simp⟩, ⟨fun x => ?_⟩⟩
  · intro t pc ht
    rw [hidle pc (List.mem_of_getElem? ht)]; trivial
  · rw [countP_idle (f := g7x x) (by simp [g7x]) hidle]; exact Nat.zero_le _

end C08
