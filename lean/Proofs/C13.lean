import Proofs.C13Exec
import Proofs.C13Conc
import Proofs.C13Cancel
import Proofs.C13Metrics
import Proofs.C13Refine
/-!
# C13 — retries, idempotence and speculative execution (property theorems)

Model: `Model/Executor.lean` (`queryExecutor.do` as a function of the statement kind handed to it — `*Query`
or `*Batch` (logged / unlogged / counter), observed or not —, the host iterator's output, per-host
availability AS IT CHANGES during the execution (`us k h`: host `h` usable when `k` requests have been sent —
an arbitrary function, so every sequence of hosts going down, losing their pool and coming back between
attempts is covered), the per-request outcomes, the retry policy's decision functions and the statement's attempt
counter and consistency level, which are state of the model; `executeQuery`'s choice of how many executions
to start) and `Model/ExecutorConc.lean` (concurrent executions sharing the attempt counter and the host
iterator). All theorems: every statement kind, every host sequence, every usability function, every outcome
sequence, every starting value of the counter, every policy (arbitrary decision functions unless stated),
every schedule.
-/
namespace C13
open Executor

/-- **attempt accounting**: `Query.attempt` and `Batch.attempt` move the counter by exactly one, whatever the
    statement kind and whether or not an observer is attached -/
theorem C13_attempt_counted (req : Req) (cnt : Nat) : req.record cnt = cnt + 1 := Req.record_eq req cnt

/-- **budget, every statement kind, every environment**: with a retry policy of the form `Attempts() ≤ N` a
    statement whose counter stands at `cnt` reaches servers at most `1 + (N - cnt)` times — for `*Query` and every
    `*Batch` type, observed or not, whatever the outcomes, the hosts offered, their (changing) usability and the
    consistency -/
theorem C13_budget_any_kind (req : Req) (p : Policy) (N : Nat) (hp : ∀ m, p.attempt m = decide (m ≤ N))
    (outcome : Nat → Res) (us : Nat → Nat → Bool) (fuel : Nat) (ids : List Nat) (k cnt cons : Nat) :
    (doQuery req (some p) outcome us fuel ids k cnt cons).attempts.length ≤ 1 + (N - cnt) :=
  doLoop_budget req p N hp outcome us fuel ids k cnt cons none

/-- SimpleRetryPolicy{N} (and ExponentialBackoff{N}, same decisions): a fresh statement reaches servers at most
    N+1 times -/
theorem C13_budget_simple (req : Req) (N : Nat) (outcome : Nat → Res) (us : Nat → Nat → Bool) (fuel : Nat) (ids : List Nat)
    (k cons : Nat) :
    (doQuery req (some (simplePolicy N)) outcome us fuel ids k 0 cons).attempts.length ≤ N + 1 := by
  have := C13_budget_any_kind req (simplePolicy N) N (fun _ => rfl) outcome us fuel ids k 0 cons
  omega

theorem C13_budget_exponential (req : Req) (N : Nat) (outcome : Nat → Res) (us : Nat → Nat → Bool) (fuel : Nat) (ids : List Nat)
    (k cons : Nat) :
    (doQuery req (some (exponentialPolicy N)) outcome us fuel ids k 0 cons).attempts.length ≤ N + 1 := by
  have := C13_budget_any_kind req (exponentialPolicy N) N (fun _ => rfl) outcome us fuel ids k 0 cons
  omega

/-- DowngradingConsistencyRetryPolicy with the levels `ls`: at most `1 + |ls|` requests -/
theorem C13_budget_downgrading (req : Req) (ls : List Nat) (outcome : Nat → Res) (us : Nat → Nat → Bool) (fuel : Nat)
    (ids : List Nat) (k cons : Nat) :
    (doQuery req (some (downgradingPolicyL ls)) outcome us fuel ids k 0 cons).attempts.length ≤ ls.length + 1 := by
  have := C13_budget_any_kind req (downgradingPolicyL ls) ls.length (fun _ => rfl) outcome us fuel ids k 0 cons
  omega

/-- no retry policy: at most one attempt -/
theorem C13_no_policy_once (req : Req) (outcome : Nat → Res) (us : Nat → Nat → Bool) (fuel : Nat) (ids : List Nat)
    (k cnt cons : Nat) :
    (doQuery req none outcome us fuel ids k cnt cons).attempts.length ≤ 1 := by
  unfold doQuery
  cases fuel with
  | zero => simp [doLoop]
  | succ f =>
    simp only [doLoop]
    cases nextUsable (us k) ids with
    | none => simp
    | some p => cases outcome k <;> simp

theorem doQuery_good (req : Req) (pol : Option Policy) (outcome : Nat → Res) (us : Nat → Nat → Bool) (fuel : Nat)
    (ids : List Nat) (k cnt cons : Nat) :
    Good outcome us ids k cnt none (doQuery req pol outcome us fuel ids k cnt cons) :=
  doLoop_good req pol outcome us fuel ids k cnt cons none

/-- **attempts are accounted**: afterwards `Attempts()` = its previous value + the number of requests sent; the
    i-th of them was numbered `cnt + i` for the observer and got the i-th outcome -/
theorem C13_attempts_accounted (req : Req) (pol : Option Policy) (outcome : Nat → Res) (us : Nat → Nat → Bool) (fuel : Nat)
    (ids : List Nat) (k cnt cons : Nat) :
    let out := doQuery req pol outcome us fuel ids k cnt cons
    out.cnt = cnt + out.attempts.length ∧
    (∀ i a, out.attempts[i]? = some a → a.idx = cnt + i ∧ a.res = outcome (k + i)) := by
  have h := doQuery_good req pol outcome us fuel ids k cnt cons
  exact ⟨h.2.1, fun i a ha => ⟨(h.2.2.1 i a ha).1, (h.2.2.1 i a ha).2.1⟩⟩

/-- **host choice in a changing environment**: the attempts walk along the hosts in the order the policy offered
    them: every attempt is on a host that is usable at that moment; after an attempt the executor stays on that
    host (Retry) — unless the host has become unusable meanwhile, then it is passed over like any unusable host —
    or moves on (RetryNextHost); a host is passed over only if it is unusable at that moment (down, no pool, no
    connection: this consumes no budget) or has just been attempted; never backwards. -/
theorem C13_host_choice (req : Req) (pol : Option Policy) (outcome : Nat → Res) (us : Nat → Nat → Bool) (fuel : Nat)
    (ids : List Nat) (k cnt cons : Nat) :
    let out := doQuery req pol outcome us fuel ids k cnt cons
    Walk us k ids (out.attempts.map (·.host)) ∧
    (∀ i a, out.attempts[i]? = some a → us (k + i) a.host = true) := by
  have h := doQuery_good req pol outcome us fuel ids k cnt cons
  exact ⟨h.1, fun i a ha => (h.2.2.1 i a ha).2.2⟩

/-- **one result, the last attempt's — for every way the hosts' usability changes during the execution**: the
    returned iter is the last attempt's (`last`), or carries the error of the LAST attempt (kind and request
    number: `lastErr e j` with `j` the number of the last request sent, whose outcome was `err e`) when no usable
    host was left — also when the policy answered `Retry` and that very host had become unusable —, and
    ErrNoConnections exactly when nothing was attempted (given fuel) -/
theorem C13_one_result_last_error (req : Req) (pol : Option Policy) (outcome : Nat → Res) (us : Nat → Nat → Bool) (fuel : Nat)
    (ids : List Nat) (k cnt cons : Nat) :
    let out := doQuery req pol outcome us fuel ids k cnt cons
    (∀ r, out.final = .last r → ∃ a, out.attempts.getLast? = some a ∧ a.res = r) ∧
    (∀ e j, out.final = .lastErr e j →
        (∃ a, out.attempts.getLast? = some a ∧ a.res = .err e) ∧ j + 1 = k + out.attempts.length ∧ outcome j = .err e) ∧
    (out.final = .noConnections → out.attempts = []) ∧
    (out.attempts = [] → out.final = .noConnections ∨ out.final = .outOfFuel) := by
  intro out
  have h : Good outcome us ids k cnt none out := doQuery_good req pol outcome us fuel ids k cnt cons
  refine ⟨h.2.2.2.1, ?_, fun hf => (h.2.2.2.2.2.1 hf).1, ?_⟩
  · intro e j he
    rcases h.2.2.2.2.1 e j he with ⟨_, g⟩ | ⟨a, ha1, ha2, ha3⟩
    · simp at g
    · refine ⟨⟨a, ha1, ha2⟩, ha3, ?_⟩
      -- the last attempt is attempt number `length - 1`, i.e. request `j`
      have hne : out.attempts ≠ [] := by intro hn; rw [hn] at ha1; simp at ha1
      have hpos : 0 < out.attempts.length := List.length_pos_iff.mpr hne
      have hidx : out.attempts[out.attempts.length - 1]? = some a := by
        rw [List.getLast?_eq_getElem?] at ha1; exact ha1
      have := (h.2.2.1 _ a hidx).2.1
      rw [ha2] at this
      have hj : j = k + (out.attempts.length - 1) := by omega
      rw [hj]; exact this.symm
  · intro he
    rcases h.2.2.2.2.2.2 he with g | ⟨_, g⟩ | ⟨e, j, g, _⟩
    · exact Or.inr g
    · exact Or.inl g
    · simp at g

/-- a logical error (context cancelled / deadline / not found) ends the statement at once, whatever the policy -/
theorem C13_context_stops (req : Req) (pol : Option Policy) (outcome : Nat → Res) (us : Nat → Nat → Bool) (fuel : Nat)
    (h : Nat) (rest : List Nat) (k cnt cons : Nat) (hu : us k h = true) (ho : outcome k = .logical) :
    doLoop req pol outcome us (fuel+1) (h :: rest) k cnt cons none
      = ⟨[⟨h, cnt, cons, .logical⟩], .last .logical, cnt + 1, cons⟩ := by
  simp [doLoop, nextUsable, hu, ho, Req.record_eq]

/-- a context that is already done when the execution starts: nothing reaches a server, the one attempt is still
    counted, no retry -/
theorem C13_context_done_before (req : Req) (pol : Option Policy) (outcome : Nat → Res) (us : Nat → Nat → Bool) (fuel : Nat)
    (ids : List Nat) (k cnt cons : Nat) :
    let r := execute req pol outcome us fuel ids k cnt cons true
    r.sent = [] ∧ r.out.attempts.length ≤ 1 ∧ r.out.cnt = cnt + r.out.attempts.length ∧ r.ctxDone = true := by
  simp only [execute, if_true]
  cases nextUsable (us k) ids with
  | none => simp
  | some p => simp [Req.record_eq]

/-- **cancellation between an attempt and its retry decision** (the context ends in `SelectedHost.Mark`, after the
    attempt of request `x`): no request numbered above `x` reaches a server — whatever the policy answers —, the
    execution makes at most ONE further attempt, which ends with the context's error, and every attempt is still
    counted; for every statement kind, policy, outcome sequence, host list and changing environment -/
theorem C13_cancel_before_decision (req : Req) (pol : Option Policy) (outcome : Nat → Res) (us : Nat → Nat → Bool)
    (fuel : Nat) (ids : List Nat) (k cnt cons x : Nat) :
    let r := executeX req pol outcome us fuel ids k cnt cons false (some x)
    r.sent.length ≤ x + 1 - k ∧ r.out.attempts.length ≤ r.sent.length + 1 ∧
    (∀ i a, r.out.attempts[i]? = some a → x + 1 - k ≤ i → a.res = .logical) ∧
    r.out.cnt = cnt + r.out.attempts.length := by
  intro r
  have hg := doQuery_good req pol (fun n => if n > x then .logical else outcome n) us fuel ids k cnt cons
  have hdead : ∀ i a, r.out.attempts[i]? = some a → x + 1 - k ≤ i → a.res = .logical := by
    intro i a ha hi
    have := (hg.2.2.1 i a ha).2.1
    rw [this]
    have : k + i > x := by omega
    simp [this]
  refine ⟨by simp [r, executeX, List.length_take]; omega, ?_, hdead, hg.2.1⟩
  by_cases hlen : r.out.attempts.length ≤ x + 1 - k
  · have : r.sent = r.out.attempts := by
      show List.take (x + 1 - k) r.out.attempts = r.out.attempts
      exact List.take_of_length_le hlen
    rw [this]; omega
  · have hlt : x + 1 - k < r.out.attempts.length := by omega
    have hs : r.sent.length = x + 1 - k := by
      simp only [r, executeX, Bool.false_eq_true, if_false, List.length_take]
      exact Nat.min_eq_left (by
        have : x + 1 - k < (doQuery req pol (fun n => if n > x then Res.logical else outcome n) us fuel ids k cnt cons).attempts.length := hlt
        omega)
    have ha : r.out.attempts[x + 1 - k]? = some (r.out.attempts[x + 1 - k]) := List.getElem?_eq_getElem hlt
    have hl := hdead _ _ ha (Nat.le_refl _)
    have := doLoop_stop_last req pol (fun n => if n > x then .logical else outcome n) us fuel ids k cnt cons none _ _ ha (Or.inl hl)
    have e2 : r.out.attempts.length = (doLoop req pol (fun n => if n > x then Res.logical else outcome n) us fuel ids k cnt cons none).attempts.length := rfl
    omega

/-- non-vacuity: the first attempt fails (read timeout: the downgrading policy answers Retry), the context ends
    before the decision: one more attempt is counted and observed, the server sees one request, the caller gets
    the context's error -/
example : executeX ⟨.query, true⟩ (some (downgradingPolicyL [2, 1])) (fun _ => .err kReadTO) (fun _ _ => true) 10 [1, 2] 0 0 4 false (some 0) =
    ⟨⟨[⟨1, 0, 4, .err 7⟩, ⟨1, 1, 2, .logical⟩], .last .logical, 2, 2⟩, [⟨1, 0, 4, .err 7⟩], true⟩ := by decide

/-- what reaches servers in one execution (context done or not) stays within the budget -/
theorem C13_budget_execute (req : Req) (p : Policy) (N : Nat) (hp : ∀ m, p.attempt m = decide (m ≤ N))
    (outcome : Nat → Res) (us : Nat → Nat → Bool) (fuel : Nat) (ids : List Nat) (k cnt cons : Nat) (done : Bool) :
    (execute req (some p) outcome us fuel ids k cnt cons done).sent.length ≤ 1 + (N - cnt) := by
  cases done with
  | true =>
    have h : (execute req (some p) outcome us fuel ids k cnt cons true).sent = [] :=
      (C13_context_done_before req (some p) outcome us fuel ids k cnt cons).1
    rw [h]; simp
  | false =>
    simp only [execute, Bool.false_eq_true, if_false]
    exact C13_budget_any_kind req p N hp outcome us fuel ids k cnt cons

/-- Rethrow and Ignore stop retrying; an unknown retry type yields ErrUnknownRetryType -/
theorem C13_rethrow_ignore_stop (req : Req) (p : Policy) (outcome : Nat → Res) (us : Nat → Nat → Bool) (fuel : Nat)
    (h : Nat) (rest : List Nat) (k cnt cons e : Nat) (hu : us k h = true) (ho : outcome k = .err e)
    (hrt : p.rtype e = .rethrow ∨ p.rtype e = .ignore) :
    let o := doLoop req (some p) outcome us (fuel+1) (h :: rest) k cnt cons none
    o.attempts = [⟨h, cnt, cons, .err e⟩] ∧ o.final = .last (.err e) := by
  simp only [doLoop, nextUsable, hu, if_true, ho, Req.record_eq]
  by_cases hat : p.attempt (cnt+1) = true
  · rcases hrt with hrt | hrt <;> simp [hat, hrt]
  · have : p.attempt (cnt+1) = false := by simpa using hat
    simp [this]

theorem C13_unknown_retry_type (req : Req) (p : Policy) (outcome : Nat → Res) (us : Nat → Nat → Bool) (fuel : Nat)
    (h : Nat) (rest : List Nat) (k cnt cons e : Nat) (hu : us k h = true) (ho : outcome k = .err e)
    (hat : p.attempt (cnt+1) = true) (hrt : p.rtype e = .unknown) :
    (doLoop req (some p) outcome us (fuel+1) (h :: rest) k cnt cons none).final = .unknownRetryType := by
  simp [doLoop, nextUsable, hu, ho, hat, hrt, Req.record_eq]

/-- **a same-host Retry whose host is gone**: the policy answers `Retry` for the failure of request `k` on host
    `h`, but when the loop comes round `h` is no longer usable and neither is any host the iterator still offers:
    the caller gets THAT failure (kind `e`, request `k`) — not an earlier one, not ErrNoConnections — whatever
    error had been recorded before -/
theorem C13_retry_host_gone (req : Req) (p : Policy) (outcome : Nat → Res) (us : Nat → Nat → Bool) (fuel : Nat)
    (h : Nat) (rest : List Nat) (k cnt cons e : Nat) (prev : Option (Nat × Nat))
    (hu : us k h = true) (ho : outcome k = .err e) (hat : p.attempt (cnt+1) = true) (hrt : p.rtype e = .retry)
    (hgone : ∀ x ∈ h :: rest, us (k+1) x = false) :
    let o := doLoop req (some p) outcome us (fuel+2) (h :: rest) k cnt cons prev
    o.attempts = [⟨h, cnt, cons, .err e⟩] ∧ o.final = .lastErr e k := by
  have hn : nextUsable (us (k+1)) (h :: rest) = none := by
    rcases nextUsable_spec (us (k+1)) (h :: rest) with ⟨g, _⟩ | ⟨x, r, pre, _, hl, hx, _⟩
    · exact g
    · have : x ∈ h :: rest := by rw [hl]; simp
      rw [hgone x this] at hx; simp at hx
  have h1 : nextUsable (us k) (h :: rest) = some (h, rest) := by simp [nextUsable, hu]
  simp [doLoop, h1, ho, hat, hrt, Req.record_eq, hn, Out.push]

/-- **consistency under the downgrading policy**: the first request of a fresh statement carries the statement's
    own level, the (i+1)-th retry the i-th configured level -/
theorem C13_downgrading_consistency (req : Req) (ls : List Nat) (outcome : Nat → Res) (us : Nat → Nat → Bool) (fuel : Nat)
    (ids : List Nat) (k cons : Nat) :
    let out := doQuery req (some (downgradingPolicyL ls)) outcome us fuel ids k 0 cons
    (∀ a, out.attempts[0]? = some a → a.cons = cons) ∧
    (∀ i b, out.attempts[i+1]? = some b → ls[i]? = some b.cons) := by
  intro out
  have hb : out.attempts.length ≤ ls.length + 1 := C13_budget_downgrading req ls outcome us fuel ids k cons
  have h := doLoop_cons req (downgradingPolicyL ls) outcome us fuel ids k 0 cons none
  have ho : out = doLoop req (some (downgradingPolicyL ls)) outcome us fuel ids k 0 cons none := rfl
  simp only [← ho] at h
  refine ⟨h.1, ?_⟩
  intro i b hbi
  have hlt : i + 1 < out.attempts.length := by
    rcases Nat.lt_or_ge (i + 1) out.attempts.length with g | g
    · exact g
    · rw [List.getElem?_eq_none g] at hbi; simp at hbi
  have hi : i < out.attempts.length := by omega
  have ha : out.attempts[i]? = some (out.attempts[i]) := List.getElem?_eq_getElem hi
  have := h.2 i _ b ha hbi
  have hl : i < ls.length := by omega
  simp only [downgradingPolicyL, Nat.zero_add, Nat.add_sub_cancel, Nat.add_one_ne_zero, if_false,
    List.getElem?_eq_getElem hl, Option.getD_some] at this
  rw [List.getElem?_eq_getElem hl, this]

/-- a statement not marked idempotent is never executed speculatively; a batch is idempotent only if every entry is -/
theorem C13_nonidempotent_not_speculative (spAttempts : Nat) : maxExecutions false spAttempts = 1 := by
  simp [maxExecutions]

theorem C13_batch_idempotent_iff (entries : List Bool) : batchIdempotent entries = true ↔ ∀ e ∈ entries, e = true := by
  simp [batchIdempotent]

/-- **a batch with ANY non-idempotent entry — first, middle or last — runs as one execution** whatever the
    speculative policy says -/
theorem C13_batch_nonidempotent_entry_not_speculative (entries : List Bool) (spAttempts : Nat)
    (h : ∃ e ∈ entries, e = false) : maxExecutions (batchIdempotent entries) spAttempts = 1 := by
  have : batchIdempotent entries = false := by
    cases hb : batchIdempotent entries with
    | false => rfl
    | true =>
      obtain ⟨e, he, hf⟩ := h
      have := (C13_batch_idempotent_iff entries).mp hb e he
      rw [hf] at this; cases this
  rw [this]; exact C13_nonidempotent_not_speculative spAttempts

/-- … and a batch all of whose entries are idempotent (in particular one without entries) may be speculated as the
    policy says -/
theorem C13_batch_all_idempotent_speculated (entries : List Bool) (spAttempts : Nat) (h : ∀ e ∈ entries, e = true) :
    maxExecutions (batchIdempotent entries) spAttempts = 1 + spAttempts := by
  rw [(C13_batch_idempotent_iff entries).mpr h]
  unfold maxExecutions
  cases spAttempts <;> simp

theorem C13_executions_bound (idem : Bool) (spAttempts : Nat) : maxExecutions idem spAttempts ≤ 1 + spAttempts := by
  unfold maxExecutions; split <;> omega

/-- **shared attempt counter**: E executions of one statement run `do` concurrently, sharing the attempt counter
    (incremented after every attempt, read by `rt.Attempt` later, not atomically) and the host iterator. For EVERY
    schedule of their micro-steps and every outcome: with a policy `Attempts() ≤ N` the requests sent in total
    never exceed `N - c0` + the executions launched, hence `budget (N - c0) E`; and no more executions than E run -/
theorem C13_shared_counter_budget (p : Policy) (N : Nat) (hp : ∀ m, p.attempt m = decide (m ≤ N))
    (c0 hosts e : Nat) (sched : List ExecutorConc.Act) :
    let m := ExecutorConc.run (some p) (ExecutorConc.init c0 hosts e) sched
    m.sent ≤ (N - c0) + ExecutorConc.started m.exs ∧ ExecutorConc.started m.exs ≤ e ∧
    m.sent ≤ ExecutorConc.budget (N - c0) e :=
  ExecutorConc.run_budget p N hp c0 hosts e sched

/-- **every attempt of concurrent executions is counted and numbered once**: for EVERY retry policy (or none) and
    every schedule — completions of several executions in any order, also back to back —, the attempts are given the
    numbers c0, c0+1, c0+2, … (what observers see as `Attempt`, what `Attempts()` hands to the retry policies) without
    gap or repetition, and the counter stands at c0 + the number of attempts made -/
theorem C13_shared_attempts_numbered (pol : Option Policy) (c0 hosts e : Nat) (sched : List ExecutorConc.Act) :
    let m := ExecutorConc.run pol (ExecutorConc.init c0 hosts e) sched
    m.log.reverse = List.range' c0 m.log.length ∧ m.cnt = c0 + m.log.length :=
  let h := ExecutorConc.run_accounted pol c0 hosts e sched
  ⟨h.1, h.2.1⟩

/-- **at quiescence `Attempts()` accounts for every request**: for every policy and schedule, when no attempt is in
    flight the counter = its start value + the requests sent + the attempts that found the executions' context
    already cancelled (nothing written; at most one per execution, its last): `c0 + sent ≤ Attempts() ≤ c0 + sent + E` -/
theorem C13_shared_quiescent_accounted (pol : Option Policy) (c0 hosts e : Nat) (sched : List ExecutorConc.Act) :
    let m := ExecutorConc.run pol (ExecutorConc.init c0 hosts e) sched
    ExecutorConc.quiet m.exs = true →
      m.cnt = c0 + m.sent + m.unsent ∧ m.unsent ≤ e ∧ c0 + m.sent ≤ m.cnt ∧ m.cnt ≤ c0 + m.sent + e := by
  intro m hq
  have h := ExecutorConc.run_accounted pol c0 hosts e sched
  have h1 : m.cnt = c0 + m.sent + m.unsent := h.2.2.2.2 hq
  have h2 : m.unsent ≤ e := h.2.2.2.1
  exact ⟨h1, h2, by omega, by omega⟩

/-- the shared host iterator hands every usable host out once: a policy that never answers `Retry` (Simple,
    ExponentialBackoff) sends at most one request per usable host, over all executions and schedules -/
theorem C13_shared_iterator (pol : Option Policy) (hnr : ∀ p, pol = some p → ∀ e, p.rtype e ≠ .retry)
    (c0 hosts e : Nat) (sched : List ExecutorConc.Act) :
    (ExecutorConc.run pol (ExecutorConc.init c0 hosts e) sched).sent ≤ hosts :=
  ExecutorConc.run_hosts pol hnr c0 hosts e sched

/-- without a retry policy every execution sends at most once: total ≤ executions launched -/
theorem C13_shared_no_policy (c0 hosts e : Nat) (sched : List ExecutorConc.Act) :
    let m := ExecutorConc.run none (ExecutorConc.init c0 hosts e) sched
    m.sent ≤ ExecutorConc.started m.exs ∧ ExecutorConc.started m.exs ≤ e :=
  ExecutorConc.run_no_policy c0 hosts e sched

/-- **where a query's idempotence comes from**: the statement-level setting wins, otherwise the session's
    `DefaultIdempotence`; so a query of a session with `DefaultIdempotence = true` is speculated unless the
    statement says `Idempotent(false)`, which makes it run as one execution whatever the policy -/
theorem C13_query_idempotence_source (d v : Bool) (k : Nat) :
    queryIdempotent d (some v) = v ∧ queryIdempotent d none = d ∧
    maxExecutions (queryIdempotent true none) (k+1) = k + 2 ∧ maxExecutions (queryIdempotent d (some false)) k = 1 := by
  refine ⟨rfl, rfl, ?_, ?_⟩
  · simp [maxExecutions, queryIdempotent]; omega
  · simp [maxExecutions, queryIdempotent]

/-! ### the built-in policies' decisions on error VALUES (`ReqErr`: what `GetRetryType(err)` switches on) -/

/-- **the decision table the executor theorems use is the policy's switch**: filing an error value under its
    abstract kind (`kindOf`) and looking the kind up (`downgradingRType`, used by `downgradingPolicyL` in every
    theorem above) gives exactly what `DowngradingConsistencyRetryPolicy.GetRetryType` answers on the value —
    for every write type string, every number of acknowledgements / live replicas, every other error — and the
    answer is never an undefined retry type -/
theorem C13_downgrading_decisions (e : ReqErr) :
    downgradingRType (kindOf e) = downgradingGetRetryType e ∧ downgradingGetRetryType e ≠ .unknown := by
  cases e with
  | unavailable r a =>
    by_cases h : a > 0 <;> simp [kindOf, downgradingGetRetryType, downgradingRType, h, kUnavailableAlive, kUnavailableNone]
  | writeTimeout wt rc bf =>
    by_cases h : rc > 0 <;> cases wt <;>
      simp [kindOf, downgradingGetRetryType, downgradingRType, h, kUnavailableAlive, kUnavailableNone, kWriteTOSimpleRecv,
        kWriteTOSimpleNone, kWriteTOUnlogged, kWriteTOOther]
  | readTimeout rc bf dp =>
    simp [kindOf, downgradingGetRetryType, downgradingRType, kUnavailableAlive, kUnavailableNone, kWriteTOSimpleRecv,
      kWriteTOSimpleNone, kWriteTOUnlogged, kWriteTOOther, kReadTO]
  | other =>
    simp [kindOf, downgradingGetRetryType, downgradingRType, kUnavailableAlive, kUnavailableNone, kWriteTOSimpleRecv,
      kWriteTOSimpleNone, kWriteTOUnlogged, kWriteTOOther, kReadTO]

/-- FULL STATEMENT (fails on the unchanged code, proposed finding KF-C13-3): wherever the documentation of
    DowngradingConsistencyRetryPolicy says what happens, `GetRetryType` does it:
      ∀ e r, Spec.downgradingDoc e = some r → downgradingGetRetryType e = r.
    Proved part: every error value except a write timeout of an UNLOGGED_BATCH that NO replica acknowledged. -/
theorem C13_downgrading_follows_doc_partial (e : ReqErr) (r : RT) (h : Spec.downgradingDoc e = some r)
    (hx : ∀ bf, e ≠ .writeTimeout .unloggedBatch 0 bf) : downgradingGetRetryType e = r := by
  cases e with
  | unavailable rq a => simp [Spec.downgradingDoc] at h; simp [downgradingGetRetryType, h]
  | readTimeout rc bf dp => simp [Spec.downgradingDoc] at h; simp [downgradingGetRetryType, h]
  | other => simp [Spec.downgradingDoc] at h
  | writeTimeout wt rc bf =>
    cases wt <;> simp [Spec.downgradingDoc] at h <;> try (simp [downgradingGetRetryType, h])
    -- UNLOGGED_BATCH
    have hrc : rc ≠ 0 := by
      intro h0; subst h0; exact hx bf rfl
    have : rc > 0 := Nat.pos_of_ne_zero hrc
    simp [this] at h
    exact h

/-- the counterexample: documented "retried [only] if at least one replica acknowledged the write"; the code
    answers Retry for an UNLOGGED_BATCH write timeout with Received = 0 -/
theorem C13_cex_downgrading_unlogged_unacked :
    downgradingGetRetryType (.writeTimeout .unloggedBatch 0 1) = .retry ∧
    Spec.downgradingDoc (.writeTimeout .unloggedBatch 0 1) = some .rethrow := by
  decide

/-- **Attempt of the built-in policies**: `DowngradingConsistencyRetryPolicy.Attempt` (answer and the consistency
    it sets) and `SimpleRetryPolicy.Attempt` / `ExponentialBackoffRetryPolicy.Attempt` are the decision functions
    the executor theorems are stated for (`downgradingPolicyL`, `simplePolicy`, `exponentialPolicy`), for every
    value of `Attempts()` and every list of levels -/
theorem C13_builtin_attempt (ls : List Nat) (n N : Nat) :
    (downgradingAttempt ls n).1 = (downgradingPolicyL ls).attempt n ∧
    ((downgradingAttempt ls n).1 = true → (downgradingAttempt ls n).2 = (downgradingPolicyL ls).newCons n) ∧
    (simpleAttempt N n).1 = (simplePolicy N).attempt n ∧ (simpleAttempt N n).1 = (exponentialPolicy N).attempt n ∧
    (simpleAttempt N n).2 = (simplePolicy N).newCons n := by
  refine ⟨?_, ?_, rfl, rfl, rfl⟩
  · unfold downgradingAttempt downgradingPolicyL
    by_cases h : n > ls.length
    · simp [h]
    · by_cases h0 : n > 0 <;> simp [h, h0] <;> omega
  · unfold downgradingAttempt downgradingPolicyL
    by_cases h : n > ls.length
    · simp [h]
    · by_cases h0 : n > 0
      · simp [h, h0]; intro hz; omega
      · have : n = 0 := by omega
        simp [this]

/-- **what the caller sees under the downgrading policy, per error value**: an Unavailable with no live replica, a
    SIMPLE / BATCH / COUNTER write timeout (acknowledged or not) and a write timeout of any other write type except
    UNLOGGED_BATCH end the execution with THAT attempt — one request for it, its error the caller's — for every
    statement kind, host list, environment, counter value and list of levels -/
theorem C13_downgrading_stops (req : Req) (ls : List Nat) (outcome : Nat → Res) (us : Nat → Nat → Bool) (fuel : Nat)
    (h : Nat) (rest : List Nat) (k cnt cons : Nat) (e : ReqErr) (hu : us k h = true) (ho : outcome k = .err (kindOf e))
    (hd : downgradingGetRetryType e = .rethrow ∨ downgradingGetRetryType e = .ignore) :
    let o := doLoop req (some (downgradingPolicyL ls)) outcome us (fuel+1) (h :: rest) k cnt cons none
    o.attempts = [⟨h, cnt, cons, .err (kindOf e)⟩] ∧ o.final = .last (.err (kindOf e)) := by
  have hk : (downgradingPolicyL ls).rtype (kindOf e) = downgradingGetRetryType e := (C13_downgrading_decisions e).1
  exact C13_rethrow_ignore_stop req (downgradingPolicyL ls) outcome us fuel h rest k cnt cons (kindOf e) hu ho (by rw [hk]; exact hd)

example : downgradingGetRetryType (.writeTimeout .cas 2 3) = .rethrow ∧ downgradingGetRetryType (.writeTimeout .batch 1 2) = .ignore ∧
    downgradingGetRetryType (.unavailable 2 1) = .retry ∧ downgradingAttempt [4, 1] 2 = (true, some 1) ∧
    downgradingAttempt [4, 1] 3 = (false, none) := by decide

/-! ### the statement's metrics (`queryMetrics`: Attempts(), Latency(), the observers' per-host Metrics) -/

/-- **metrics are exact**: for EVERY history of attempts (host and latency of each, any number of hosts, also a
    statement object executed again: `pre` = the attempts of its earlier executions) the code's bookkeeping (a map
    of per-host counters updated under one lock) hands the observer of the j-th new attempt the number
    `|pre| + j`, the number of attempts made on that attempt's host so far and the sum of their latencies, and
    afterwards `Attempts()` is the number of all attempts and `Latency()` the integer average of all latencies -/
theorem C13_metrics_exact (pre rest : List (Nat × Nat)) :
    let q0 := (QM.run {} pre).1
    let r := QM.run q0 rest
    r.2 = (List.range rest.length).map (fun j => Spec.obsAt (pre ++ rest) (pre.length + j)) ∧
    r.1.totalAttempts = (pre ++ rest).length ∧ r.1.latency = Spec.avgLatency (pre ++ rest) := by
  intro q0 r
  have h0 : MInv [] ({} : QM) := ⟨rfl, by intro h; rfl, by intro h; rfl, rfl, rfl⟩
  have h1 := (run_spec pre [] {} h0).1
  simp only [List.nil_append] at h1
  have h2 := run_spec rest pre q0 h1
  exact ⟨h2.2, h2.1.total, latency_spec _ _ h2.1⟩

example : (QM.run {} [(1, 10), (2, 30), (1, 21)]) =
    (⟨3, [⟨1, 2, 31⟩, ⟨2, 1, 30⟩]⟩, [⟨0, 1, 10⟩, ⟨1, 1, 30⟩, ⟨2, 2, 31⟩]) ∧
    (QM.run {} [(1, 10), (2, 30), (1, 21)]).1.latency = 20 := by decide

/-- **the two models agree**: the interleaving machine of the concurrent theorems, run with ONE execution that is
    left alone (its attempt completes with the scripted outcome, it decides, …) over usable hosts, sends exactly as
    many requests as the sequential model of `queryExecutor.do` makes attempts, counts the same `Attempts()` and
    ends — for every statement kind, policy (arbitrary decision functions), outcome sequence, host list, counter
    value; so every bound proved for the machine is a bound on `do`, and the machine adds nothing to a single
    execution -/
theorem C13_machine_refines_loop (req : Req) (pol : Option Policy) (outcome : Nat → Res) (fuel : Nat) (ids : List Nat)
    (k cnt cons : Nat)
    (hf : (doQuery req pol outcome ExecutorConc.allUp fuel ids k cnt cons).final ≠ .outOfFuel) :
    let out := doQuery req pol outcome ExecutorConc.allUp fuel ids k cnt cons
    let m := ExecutorConc.run pol (ExecutorConc.init cnt ids.length 1) (.launch 0 :: ExecutorConc.seqSched outcome fuel k)
    m.sent = out.attempts.length ∧ m.cnt = out.cnt ∧ m.exs = [.done] := by
  intro out m
  cases fuel with
  | zero => exact absurd rfl hf
  | succ f =>
    cases ids with
    | nil =>
      have hl : ExecutorConc.step pol (ExecutorConc.init cnt 0 1) (.launch 0) =
          { ExecutorConc.init cnt 0 1 with exs := [.done] } := by
        simp [ExecutorConc.step, ExecutorConc.init, ExecutorConc.M.sendNext]
      have hm : m = { ExecutorConc.init cnt 0 1 with exs := [.done] } := by
        show ExecutorConc.run pol _ _ = _
        simp only [ExecutorConc.run, List.foldl_cons, List.length_nil]
        rw [hl]
        exact ExecutorConc.run_done pol outcome _ _ _ rfl
      have ho : out = ⟨[], .noConnections, cnt, cons⟩ := by
        show doLoop req pol outcome ExecutorConc.allUp (f+1) [] k cnt cons none = _
        simp [doLoop, nextUsable]
      rw [hm, ho]
      simp [ExecutorConc.init]
    | cons h rest =>
      have hl : ExecutorConc.step pol (ExecutorConc.init cnt (h :: rest).length 1) (.launch 0) =
          (⟨cnt, 1, rest.length, [.inflight], 0, []⟩ : ExecutorConc.M) := by
        simp [ExecutorConc.step, ExecutorConc.init, ExecutorConc.M.sendNext]
      have hm : m = ExecutorConc.run pol
          (⟨cnt, 1, rest.length, [.inflight], 0, []⟩ : ExecutorConc.M)
          (ExecutorConc.seqSched outcome (f+1) k) := by
        show ExecutorConc.run pol _ _ = _
        simp only [ExecutorConc.run, List.foldl_cons]
        rw [hl]
      have := ExecutorConc.refine_flight req pol outcome f h rest k cnt cons none
        (⟨cnt, 1, rest.length, [.inflight], 0, []⟩ : ExecutorConc.M) rfl rfl rfl hf
      have ho : out = doLoop req pol outcome ExecutorConc.allUp (f+1) (h :: rest) k cnt cons none := rfl
      rw [hm, ho]
      have h1 := this.1
      simp only at h1
      exact ⟨by omega, this.2.1, this.2.2⟩

example : (ExecutorConc.run (some (downgradingPolicyL [4, 1])) (ExecutorConc.init 0 3 1)
      (.launch 0 :: ExecutorConc.seqSched (fun n => if n = 0 then .err kReadTO else if n = 1 then .err 9 else .ok) 10 0)).sent = 3 ∧
    (doQuery ⟨.query, false⟩ (some (downgradingPolicyL [4, 1])) (fun n => if n = 0 then .err kReadTO else if n = 1 then .err 9 else .ok)
      ExecutorConc.allUp 10 [1, 2, 3] 0 0 6).attempts.length = 3 := by decide

/-! ### cancellation at every point of concurrent executions (`ExecutorConc.MC`, `stepC`)

Every statement kind runs its attempts under the executor's derived context: `Conn.executeQuery(ctx, qry)` and —
since the repair of KF-C13-2 — `Conn.executeBatch(ctx, b)` pass `ctx` on to `Conn.exec`. -/

/-- **cancellation stops further attempts; the losers stop with the result**: once `executeQuery` has returned the
    caller's one result — and with it cancelled the context of its executions — or the caller's own context is
    done, no request of the statement reaches a server any more: from EVERY state (executions not launched, with a
    request in flight, with an attempt counted and the retry decision pending), every statement kind, every policy,
    every further schedule, whatever answers still come in -/
theorem C13_cancel_stops_requests (pol : Option Policy) (c : ExecutorConc.MC)
    (sched : List ExecutorConc.ActC) (h : c.execDone = true ∨ c.callerDone = true) :
    (ExecutorConc.runC pol c sched).m.sent = c.m.sent ∧
    (ExecutorConc.runC pol c sched).attDone = true :=
  let r := ExecutorConc.runC_frozen pol sched c (by rcases h with h | h <;> simp [ExecutorConc.MC.attDone, h])
  ⟨r.2, r.1⟩

/-- **the caller's cancellation stops further attempts, every statement kind**: whatever has happened before
    (`pre`), after the caller's context is done no further request is sent, for every policy and every further
    schedule; (`C13_shared_quiescent_accounted`: each execution still counts at most one attempt that reaches no
    server) -/
theorem C13_caller_cancel_stops_requests (pol : Option Policy) (c0 hosts e : Nat)
    (pre post : List ExecutorConc.ActC) :
    (ExecutorConc.runC pol (ExecutorConc.initC c0 hosts e) (pre ++ .callerCancel :: post)).m.sent =
    (ExecutorConc.runC pol (ExecutorConc.initC c0 hosts e) pre).m.sent := by
  rw [ExecutorConc.runC_append]
  simp only [ExecutorConc.runC, List.foldl_cons]
  have h := ExecutorConc.runC_frozen pol post
    (ExecutorConc.stepC pol (List.foldl (ExecutorConc.stepC pol) (ExecutorConc.initC c0 hosts e) pre) .callerCancel)
    (by simp [ExecutorConc.stepC, ExecutorConc.MC.attDone])
  exact h.2

/-- **exactly one result, the first**: what the caller holds never changes, whatever the executions do afterwards -/
theorem C13_first_result_wins (pol : Option Policy) (c : ExecutorConc.MC) (r : ExecutorConc.CRes)
    (sched : List ExecutorConc.ActC) (h : c.result = some r) : (ExecutorConc.runC pol c sched).result = some r :=
  ExecutorConc.runC_result pol r sched c h

/-- **the caller waits exactly as long as nothing has completed**: in every reachable state without a result no
    execution has returned and neither context is done — so the first execution to return (or the caller's own
    cancellation) is what produces the result, and the executor cancels nothing before it has one -/
theorem C13_result_iff_completed (pol : Option Policy) (c0 hosts e : Nat) (sched : List ExecutorConc.ActC) :
    let c := ExecutorConc.runC pol (ExecutorConc.initC c0 hosts e) sched
    c.result = none → c.callerDone = false ∧ c.execDone = false ∧ ExecutorConc.wsum ExecutorConc.wD c.m.exs = 0 := by
  intro c hr
  have w := ExecutorConc.runC_waiting pol sched (ExecutorConc.initC c0 hosts e)
    (fun _ => ExecutorConc.waiting_init c0 hosts e) hr
  exact ⟨w.caller, w.exec, w.none_done⟩

/-- **budget and accounting with cancellation**: the bounds of `C13_shared_counter_budget` and the numbering of
    `C13_shared_attempts_numbered` hold for every schedule that contains cancellations at any point -/
theorem C13_cancel_budget (p : Policy) (N : Nat) (hp : ∀ m, p.attempt m = decide (m ≤ N))
    (c0 hosts e : Nat) (sched : List ExecutorConc.ActC) :
    let m := (ExecutorConc.runC (some p) (ExecutorConc.initC c0 hosts e) sched).m
    m.sent ≤ ExecutorConc.budget (N - c0) e ∧ m.log = ExecutorConc.down c0 (m.cnt - c0) ∧
    (ExecutorConc.quiet m.exs = true → m.cnt = c0 + m.sent + m.unsent) := by
  intro m
  have hi : ExecutorConc.Inv N c0 e m :=
    ExecutorConc.runC_inv p N hp c0 e sched _ (ExecutorConc.inv_init N c0 hosts e)
  have hs : ExecutorConc.wsum ExecutorConc.wS m.exs ≤ e := by
    rw [← hi.toAcc.len]
    exact ExecutorConc.wsum_le_length ExecutorConc.wS (by intro x; cases x <;> simp [ExecutorConc.wS]) _
  have hb := hi.bound
  refine ⟨by unfold ExecutorConc.budget; omega, hi.toAcc.log, ?_⟩
  intro hq
  have := ExecutorConc.wsum_wI_quiet m.exs hq
  have := hi.toAcc.acc
  omega

/-- **the consistency level under concurrent executions**: the statement's level is written by `rt.Attempt` from
    whichever execution decides and read by whichever execution sends next; for EVERY schedule (with cancellations
    at any point) every request carries the statement's own level or one of the levels configured in
    DowngradingConsistencyRetryPolicy, and so does the statement afterwards; under a policy that never sets a level
    (Simple, ExponentialBackoff, none) every request carries the statement's own. The machine underneath is the one
    of the theorems above (`runK … .c = runC …`). -/
theorem C13_shared_consistency (c0 hosts e cons0 : Nat) (sched : List ExecutorConc.ActC) :
    (∀ ls : List Nat,
      let k := ExecutorConc.runK (some (downgradingPolicyL ls)) (ExecutorConc.initK c0 hosts e cons0) sched
      (∀ x ∈ k.reqCons, x = cons0 ∨ x ∈ ls) ∧ (k.cons = cons0 ∨ k.cons ∈ ls)) ∧
    (∀ pol : Option Policy, (∀ p n, pol = some p → p.newCons n = none) →
      let k := ExecutorConc.runK pol (ExecutorConc.initK c0 hosts e cons0) sched
      (∀ x ∈ k.reqCons, x = cons0) ∧ k.cons = cons0) ∧
    (∀ pol : Option Policy, (ExecutorConc.runK pol (ExecutorConc.initK c0 hosts e cons0) sched).c =
      ExecutorConc.runC pol (ExecutorConc.initC c0 hosts e) sched) := by
  have start : ∀ pol : Option Policy, ExecutorConc.Level pol cons0 (ExecutorConc.initK c0 hosts e cons0).cons ∧
      ∀ x ∈ (ExecutorConc.initK c0 hosts e cons0).reqCons, ExecutorConc.Level pol cons0 x :=
    fun pol => ⟨Or.inl rfl, by intro x hx; simp [ExecutorConc.initK] at hx⟩
  refine ⟨?_, ?_, fun pol => ExecutorConc.runK_c pol sched _⟩
  · intro ls k
    have h := ExecutorConc.runK_level (some (downgradingPolicyL ls)) cons0 sched _ (start _)
    have conv : ∀ x, ExecutorConc.Level (some (downgradingPolicyL ls)) cons0 x → x = cons0 ∨ x ∈ ls := by
      intro x hx
      rcases hx with hx | ⟨p, n, hp, hn⟩
      · exact Or.inl hx
      · have : p = downgradingPolicyL ls := by injection hp with hp; exact hp.symm
        subst this
        simp only [downgradingPolicyL] at hn
        split at hn
        · simp at hn
        · exact Or.inr (List.mem_of_getElem? hn)
    exact ⟨fun x hx => conv x (h.2 x hx), conv _ h.1⟩
  · intro pol hnone k
    have h := ExecutorConc.runK_level pol cons0 sched _ (start _)
    have conv : ∀ x, ExecutorConc.Level pol cons0 x → x = cons0 := by
      intro x hx
      rcases hx with hx | ⟨p, n, hp, hn⟩
      · exact hx
      · rw [hnone p n hp] at hn; simp at hn
    exact ⟨fun x hx => conv x (h.2 x hx), conv _ h.1⟩

/-- non-vacuity: execution 0 fails and decides (level 6 → 4), THEN execution 1 is launched: its FIRST request
    already carries the downgraded level -/
example :
    let k := ExecutorConc.runK (some (downgradingPolicyL [4, 1])) (ExecutorConc.initK 0 3 2 6)
      [.ex (.launch 0), .ex (.complete 0 (.err kReadTO)), .ex (.decide 0), .ex (.launch 1)]
    (k.reqCons, k.cons) = ([4, 4, 6], 4) := by decide

/-- non-vacuity: a query with three executions — the winner's result cancels one execution in flight (it comes
    back with the context's error), one whose Retry decision is pending (its next attempt reaches no server) and
    one not launched (it takes a host, its attempt reaches no server): 3 requests, 3 + 2 attempts counted -/
example :
    let c := ExecutorConc.runC (some (downgradingPolicyL [1, 1, 1, 1])) (ExecutorConc.initC 0 5 4)
      [.ex (.launch 0), .ex (.launch 1), .ex (.launch 2), .ex (.complete 2 (.err kReadTO)), .ex (.complete 0 .ok),
       .ex (.decide 0), .execCancel, .ex (.complete 1 .logical), .ex (.decide 1), .ex (.decide 2), .ex (.launch 3)]
    (c.result, c.m.sent, c.m.cnt, c.m.unsent, ExecutorConc.quiet c.m.exs) = (some (.res .ok), 3, 5, 2, true) := by decide

/-- … and the caller's cancellation before any answer: the caller holds the context's error, nothing more is sent -/
example :
    let c := ExecutorConc.runC (some (simplePolicy 3)) (ExecutorConc.initC 0 4 2)
      [.ex (.launch 0), .callerCancel, .ex (.launch 1), .ex (.complete 0 (.err 9)), .ex (.decide 0)]
    (c.result, c.m.sent, c.m.cnt, c.m.unsent) = (some (.res .logical), 1, 3, 2) := by decide

/-- FULL STATEMENT (fails on the unchanged code; doc.go: "Non-idempotent queries are not eligible for
    retrying"): a statement not marked idempotent is attempted at most once. `do` never looks at
    `IsIdempotent()`: the attempts depend only on hosts, outcomes and the retry policy.
    Counterexample (known finding KF-C13-1, replayed on the real code): SimpleRetryPolicy{1}, first attempt
    fails → the second host receives the (non-idempotent) write as well. -/
theorem C13_cex_nonidempotent_retried :
    (doQuery ⟨.query, false⟩ (some (simplePolicy 1)) (fun _ => .err 9) (fun _ _ => true) 10 [1, 2] 0 0 1).attempts.map (·.host)
      = [1, 2] := by
  decide

/-- proved part: without a retry policy (the default) a non-idempotent statement — like any statement — is sent once -/
theorem C13_nonidempotent_not_retried_partial (req : Req) (outcome : Nat → Res) (us : Nat → Nat → Bool) (fuel : Nat)
    (ids : List Nat) (k cons : Nat) :
    (doQuery req none outcome us fuel ids k 0 cons).attempts.length ≤ 1 := C13_no_policy_once req outcome us fuel ids k 0 cons

example : (doQuery ⟨.batchUnlogged, false⟩ (some (downgradingPolicyL [4, 1])) (fun n => if n = 0 then .err kReadTO else if n = 1 then .err 9 else .ok)
    (usOf [⟨1, true, true⟩, ⟨2, false, true⟩, ⟨3, true, false⟩, ⟨4, true, true⟩] (fun _ => [])) 10 [1, 2, 3, 4] 0 0 6) =
    ⟨[⟨1, 0, 6, .err 7⟩, ⟨1, 1, 4, .err 9⟩, ⟨4, 2, 1, .ok⟩], .last .ok, 3, 1⟩ := by decide

/-- non-vacuity of the changing environment: overloaded on host 1 (next host), read timeout on host 2 (the
    downgrading policy answers Retry), host 2 is marked down before the loop comes round: the caller gets the
    read timeout of request 1, not the overloaded error of request 0 and not ErrNoConnections -/
example : (doQuery ⟨.query, false⟩ (some (downgradingPolicyL [2, 1])) (fun n => if n = 0 then .err 9 else .err kReadTO)
    (usOf [⟨1, true, true⟩, ⟨2, true, true⟩] (fun k => if k = 1 then [(.markDown, 2)] else [])) 10 [1, 2] 0 0 4) =
    ⟨[⟨1, 0, 4, .err 9⟩, ⟨2, 1, 2, .err 7⟩], .lastErr 7 1, 2, 1⟩ := by decide

/-- … and a host that comes back is used: host 1 loses its pool after request 0 (Retry walks on to host 2), host 1
    is re-added after request 1, but the walk never goes backwards -/
example : (doQuery ⟨.query, false⟩ (some (downgradingPolicyL [2, 1])) (fun _ => .err kReadTO)
    (usOf [⟨1, true, true⟩, ⟨2, true, true⟩, ⟨3, false, true⟩]
      (fun k => if k = 0 then [(.poolGone, 1)] else if k = 1 then [(.poolBack, 1), (.poolGone, 2), (.markUp, 3)] else [])) 10 [1, 2, 3] 0 0 4) =
    ⟨[⟨1, 0, 4, .err 7⟩, ⟨2, 1, 2, .err 7⟩, ⟨3, 2, 1, .err 7⟩], .last (.err 7), 3, 1⟩ := by decide

/-- non-vacuity of the shared-counter bound: two executions, Simple{1}, three hosts — a schedule that reaches
    the bound 1 + 2 -/
example : (ExecutorConc.run (some (simplePolicy 1)) (ExecutorConc.init 0 3 2)
    [.launch 0, .launch 1, .complete 0 (.err 9), .decide 0, .complete 1 (.err 9), .decide 1]).sent = 3 := by decide

/-- non-vacuity of the accounting: three executions complete back to back, one more attempt finds the context
    cancelled — numbers 0,1,2,3, counter 4 = 3 requests + 1 unsent -/
example :
    let m := ExecutorConc.run (some (simplePolicy 5)) (ExecutorConc.init 0 6 3)
      [.launch 0, .launch 1, .launch 2, .complete 2 (.err 9), .complete 0 (.err 9), .complete 1 (.err 9), .decide 1, .abort 0,
       .decide 2]
    (m.log, m.cnt, m.sent, m.unsent) = ([3, 2, 1, 0], 4, 5, 1) := by decide

end C13
