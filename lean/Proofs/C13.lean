import Proofs.C13Exec
import Proofs.C13Conc
/-!
# C13 — retries, idempotence and speculative execution (property theorems)

Model: `Model/Executor.lean` (`queryExecutor.do` as a function of the statement kind handed to it — `*Query`
or `*Batch` (logged / unlogged / counter), observed or not —, the host iterator's output, per-host
availability AS IT CHANGES during the execution (`us k h`: host `h` usable when `k` requests have been sent —
an arbitrary function, so every sequence of hosts going down, losing their pool and coming back between
attempts is covered), the per-request outcomes, the retry policy's decision functions and the statement's attempt
counter and consistency level, which are state of the model; `executeQuery`'s choice of how many executions
to start) and `Model/ExecutorConc.lean` (concurrent executions sharing the attempt counter and the host
iterator). All theorems: every statement kind, every host sequence, every usability function, every outcome
sequence, every starting value of the counter, every policy (arbitrary decision functions unless stated),
every schedule.
-/
namespace C13
open Executor

/-- **attempt accounting**: `Query.attempt` and `Batch.attempt` move the counter by exactly one, whatever the
    statement kind and whether or not an observer is attached -/
theorem C13_attempt_counted (req : Req) (cnt : Nat) : req.record cnt = cnt + 1 := Req.record_eq req cnt

/-- **budget, every statement kind, every environment**: with a retry policy of the form `Attempts() ≤ N` a
    statement whose counter stands at `cnt` reaches servers at most `1 + (N - cnt)` times — for `*Query` and every
    `*Batch` type, observed or not, whatever the outcomes, the hosts offered, their (changing) usability and the
    consistency -/
theorem C13_budget_any_kind (req : Req) (p : Policy) (N : Nat) (hp : ∀ m, p.attempt m = decide (m ≤ N))
    (outcome : Nat → Res) (us : Nat → Nat → Bool) (fuel : Nat) (ids : List Nat) (k cnt cons : Nat) :
    (doQuery req (some p) outcome us fuel ids k cnt cons).attempts.length ≤ 1 + (N - cnt) :=
  doLoop_budget req p N hp outcome us fuel ids k cnt cons none

/-- SimpleRetryPolicy{N} (and ExponentialBackoff{N}, same decisions): a fresh statement reaches servers at most
    N+1 times -/
theorem C13_budget_simple (req : Req) (N : Nat) (outcome : Nat → Res) (us : Nat → Nat → Bool) (fuel : Nat) (ids : List Nat)
    (k cons : Nat) :
    (doQuery req (some (simplePolicy N)) outcome us fuel ids k 0 cons).attempts.length ≤ N + 1 := by
  have := C13_budget_any_kind req (simplePolicy N) N (fun _ => rfl) outcome us fuel ids k 0 cons
  omega

theorem C13_budget_exponential (req : Req) (N : Nat) (outcome : Nat → Res) (us : Nat → Nat → Bool) (fuel : Nat) (ids : List Nat)
    (k cons : Nat) :
    (doQuery req (some (exponentialPolicy N)) outcome us fuel ids k 0 cons).attempts.length ≤ N + 1 := by
  have := C13_budget_any_kind req (exponentialPolicy N) N (fun _ => rfl) outcome us fuel ids k 0 cons
  omega

/-- DowngradingConsistencyRetryPolicy with the levels `ls`: at most `1 + |ls|` requests -/
theorem C13_budget_downgrading (req : Req) (ls : List Nat) (outcome : Nat → Res) (us : Nat → Nat → Bool) (fuel : Nat)
    (ids : List Nat) (k cons : Nat) :
    (doQuery req (some (downgradingPolicyL ls)) outcome us fuel ids k 0 cons).attempts.length ≤ ls.length + 1 := by
  have := C13_budget_any_kind req (downgradingPolicyL ls) ls.length (fun _ => rfl) outcome us fuel ids k 0 cons
  omega

/-- no retry policy: at most one attempt -/
theorem C13_no_policy_once (req : Req) (outcome : Nat → Res) (us : Nat → Nat → Bool) (fuel : Nat) (ids : List Nat)
    (k cnt cons : Nat) :
    (doQuery req none outcome us fuel ids k cnt cons).attempts.length ≤ 1 := by
  unfold doQuery
  cases fuel with
  | zero => simp [doLoop]
  | succ f =>
    simp only [doLoop]
    cases nextUsable (us k) ids with
    | none => simp
    | some p => cases outcome k <;> simp

theorem doQuery_good (req : Req) (pol : Option Policy) (outcome : Nat → Res) (us : Nat → Nat → Bool) (fuel : Nat)
    (ids : List Nat) (k cnt cons : Nat) :
    Good outcome us ids k cnt none (doQuery req pol outcome us fuel ids k cnt cons) :=
  doLoop_good req pol outcome us fuel ids k cnt cons none

/-- **attempts are accounted**: afterwards `Attempts()` = its previous value + the number of requests sent; the
    i-th of them was numbered `cnt + i` for the observer and got the i-th outcome -/
theorem C13_attempts_accounted (req : Req) (pol : Option Policy) (outcome : Nat → Res) (us : Nat → Nat → Bool) (fuel : Nat)
    (ids : List Nat) (k cnt cons : Nat) :
    let out := doQuery req pol outcome us fuel ids k cnt cons
    out.cnt = cnt + out.attempts.length ∧
    (∀ i a, out.attempts[i]? = some a → a.idx = cnt + i ∧ a.res = outcome (k + i)) := by
  have h := doQuery_good req pol outcome us fuel ids k cnt cons
  exact ⟨h.2.1, fun i a ha => ⟨(h.2.2.1 i a ha).1, (h.2.2.1 i a ha).2.1⟩⟩

/-- **host choice in a changing environment**: the attempts walk along the hosts in the order the policy offered
    them: every attempt is on a host that is usable at that moment; after an attempt the executor stays on that
    host (Retry) — unless the host has become unusable meanwhile, then it is passed over like any unusable host —
    or moves on (RetryNextHost); a host is passed over only if it is unusable at that moment (down, no pool, no
    connection: this consumes no budget) or has just been attempted; never backwards. -/
theorem C13_host_choice (req : Req) (pol : Option Policy) (outcome : Nat → Res) (us : Nat → Nat → Bool) (fuel : Nat)
    (ids : List Nat) (k cnt cons : Nat) :
    let out := doQuery req pol outcome us fuel ids k cnt cons
    Walk us k ids (out.attempts.map (·.host)) ∧
    (∀ i a, out.attempts[i]? = some a → us (k + i) a.host = true) := by
  have h := doQuery_good req pol outcome us fuel ids k cnt cons
  exact ⟨h.1, fun i a ha => (h.2.2.1 i a ha).2.2⟩

/-- **one result, the last attempt's — for every way the hosts' usability changes during the execution**: the
    returned iter is the last attempt's (`last`), or carries the error of the LAST attempt (kind and request
    number: `lastErr e j` with `j` the number of the last request sent, whose outcome was `err e`) when no usable
    host was left — also when the policy answered `Retry` and that very host had become unusable —, and
    ErrNoConnections exactly when nothing was attempted (given fuel) -/
theorem C13_one_result_last_error (req : Req) (pol : Option Policy) (outcome : Nat → Res) (us : Nat → Nat → Bool) (fuel : Nat)
    (ids : List Nat) (k cnt cons : Nat) :
    let out := doQuery req pol outcome us fuel ids k cnt cons
    (∀ r, out.final = .last r → ∃ a, out.attempts.getLast? = some a ∧ a.res = r) ∧
    (∀ e j, out.final = .lastErr e j →
        (∃ a, out.attempts.getLast? = some a ∧ a.res = .err e) ∧ j + 1 = k + out.attempts.length ∧ outcome j = .err e) ∧
    (out.final = .noConnections → out.attempts = []) ∧
    (out.attempts = [] → out.final = .noConnections ∨ out.final = .outOfFuel) := by
  intro out
  have h : Good outcome us ids k cnt none out := doQuery_good req pol outcome us fuel ids k cnt cons
  refine ⟨h.2.2.2.1, ?_, fun hf => (h.2.2.2.2.2.1 hf).1, ?_⟩
  · intro e j he
    rcases h.2.2.2.2.1 e j he with ⟨_, g⟩ | ⟨a, ha1, ha2, ha3⟩
    · simp at g
    · refine ⟨⟨a, ha1, ha2⟩, ha3, ?_⟩
      -- the last attempt is attempt number `length - 1`, i.e. request `j`
      have hne : out.attempts ≠ [] := by intro hn; rw [hn] at ha1; simp at ha1
      have hpos : 0 < out.attempts.length := List.length_pos_iff.mpr hne
      have hidx : out.attempts[out.attempts.length - 1]? = some a := by
        rw [List.getLast?_eq_getElem?] at ha1; exact ha1
      have := (h.2.2.1 _ a hidx).2.1
      rw [ha2] at this
      have hj : j = k + (out.attempts.length - 1) := by omega
      rw [hj]; exact this.symm
  · intro he
    rcases h.2.2.2.2.2.2 he with g | ⟨_, g⟩ | ⟨e, j, g, _⟩
    · exact Or.inr g
    · exact Or.inl g
    · simp at g

/-- a logical error (context cancelled / deadline / not found) ends the statement at once, whatever the policy -/
theorem C13_context_stops (req : Req) (pol : Option Policy) (outcome : Nat → Res) (us : Nat → Nat → Bool) (fuel : Nat)
    (h : Nat) (rest : List Nat) (k cnt cons : Nat) (hu : us k h = true) (ho : outcome k = .logical) :
    doLoop req pol outcome us (fuel+1) (h :: rest) k cnt cons none
      = ⟨[⟨h, cnt, cons, .logical⟩], .last .logical, cnt + 1, cons⟩ := by
  simp [doLoop, nextUsable, hu, ho, Req.record_eq]

/-- a context that is already done when the execution starts: nothing reaches a server, the one attempt is still
    counted, no retry -/
theorem C13_context_done_before (req : Req) (pol : Option Policy) (outcome : Nat → Res) (us : Nat → Nat → Bool) (fuel : Nat)
    (ids : List Nat) (k cnt cons : Nat) :
    let r := execute req pol outcome us fuel ids k cnt cons true
    r.sent = [] ∧ r.out.attempts.length ≤ 1 ∧ r.out.cnt = cnt + r.out.attempts.length ∧ r.ctxDone = true := by
  simp only [execute, if_true]
  cases nextUsable (us k) ids with
  | none => simp
  | some p => simp [Req.record_eq]

/-- what reaches servers in one execution (context done or not) stays within the budget -/
theorem C13_budget_execute (req : Req) (p : Policy) (N : Nat) (hp : ∀ m, p.attempt m = decide (m ≤ N))
    (outcome : Nat → Res) (us : Nat → Nat → Bool) (fuel : Nat) (ids : List Nat) (k cnt cons : Nat) (done : Bool) :
    (execute req (some p) outcome us fuel ids k cnt cons done).sent.length ≤ 1 + (N - cnt) := by
  cases done with
  | true =>
    have h : (execute req (some p) outcome us fuel ids k cnt cons true).sent = [] :=
      (C13_context_done_before req (some p) outcome us fuel ids k cnt cons).1
    rw [h]; simp
  | false =>
    simp only [execute, Bool.false_eq_true, if_false]
    exact C13_budget_any_kind req p N hp outcome us fuel ids k cnt cons

/-- Rethrow and Ignore stop retrying; an unknown retry type yields ErrUnknownRetryType -/
theorem C13_rethrow_ignore_stop (req : Req) (p : Policy) (outcome : Nat → Res) (us : Nat → Nat → Bool) (fuel : Nat)
    (h : Nat) (rest : List Nat) (k cnt cons e : Nat) (hu : us k h = true) (ho : outcome k = .err e)
    (hrt : p.rtype e = .rethrow ∨ p.rtype e = .ignore) :
    let o := doLoop req (some p) outcome us (fuel+1) (h :: rest) k cnt cons none
    o.attempts = [⟨h, cnt, cons, .err e⟩] ∧ o.final = .last (.err e) := by
  simp only [doLoop, nextUsable, hu, if_true, ho, Req.record_eq]
  by_cases hat : p.attempt (cnt+1) = true
  · rcases hrt with hrt | hrt <;> simp [hat, hrt]
  · have : p.attempt (cnt+1) = false := by simpa using hat
    simp [this]

theorem C13_unknown_retry_type (req : Req) (p : Policy) (outcome : Nat → Res) (us : Nat → Nat → Bool) (fuel : Nat)
    (h : Nat) (rest : List Nat) (k cnt cons e : Nat) (hu : us k h = true) (ho : outcome k = .err e)
    (hat : p.attempt (cnt+1) = true) (hrt : p.rtype e = .unknown) :
    (doLoop req (some p) outcome us (fuel+1) (h :: rest) k cnt cons none).final = .unknownRetryType := by
  simp [doLoop, nextUsable, hu, ho, hat, hrt, Req.record_eq]

/-- **a same-host Retry whose host is gone**: the policy answers `Retry` for the failure of request `k` on host
    `h`, but when the loop comes round `h` is no longer usable and neither is any host the iterator still offers:
    the caller gets THAT failure (kind `e`, request `k`) — not an earlier one, not ErrNoConnections — whatever
    error had been recorded before -/
theorem C13_retry_host_gone (req : Req) (p : Policy) (outcome : Nat → Res) (us : Nat → Nat → Bool) (fuel : Nat)
    (h : Nat) (rest : List Nat) (k cnt cons e : Nat) (prev : Option (Nat × Nat))
    (hu : us k h = true) (ho : outcome k = .err e) (hat : p.attempt (cnt+1) = true) (hrt : p.rtype e = .retry)
    (hgone : ∀ x ∈ h :: rest, us (k+1) x = false) :
    let o := doLoop req (some p) outcome us (fuel+2) (h :: rest) k cnt cons prev
    o.attempts = [⟨h, cnt, cons, .err e⟩] ∧ o.final = .lastErr e k := by
  have hn : nextUsable (us (k+1)) (h :: rest) = none := by
    rcases nextUsable_spec (us (k+1)) (h :: rest) with ⟨g, _⟩ | ⟨x, r, pre, _, hl, hx, _⟩
    · exact g
    · have : x ∈ h :: rest := by rw [hl]; simp
      rw [hgone x this] at hx; simp at hx
  have h1 : nextUsable (us k) (h :: rest) = some (h, rest) := by simp [nextUsable, hu]
  simp [doLoop, h1, ho, hat, hrt, Req.record_eq, hn, Out.push]

/-- **consistency under the downgrading policy**: the first request of a fresh statement carries the statement's
    own level, the (i+1)-th retry the i-th configured level -/
theorem C13_downgrading_consistency (req : Req) (ls : List Nat) (outcome : Nat → Res) (us : Nat → Nat → Bool) (fuel : Nat)
    (ids : List Nat) (k cons : Nat) :
    let out := doQuery req (some (downgradingPolicyL ls)) outcome us fuel ids k 0 cons
    (∀ a, out.attempts[0]? = some a → a.cons = cons) ∧
    (∀ i b, out.attempts[i+1]? = some b → ls[i]? = some b.cons) := by
  intro out
  have hb : out.attempts.length ≤ ls.length + 1 := C13_budget_downgrading req ls outcome us fuel ids k cons
  have h := doLoop_cons req (downgradingPolicyL ls) outcome us fuel ids k 0 cons none
  have ho : out = doLoop req (some (downgradingPolicyL ls)) outcome us fuel ids k 0 cons none := rfl
  simp only [← ho] at h
  refine ⟨h.1, ?_⟩
  intro i b hbi
  have hlt : i + 1 < out.attempts.length := by
    rcases Nat.lt_or_ge (i + 1) out.attempts.length with g | g
    · exact g
    · rw [List.getElem?_eq_none g] at hbi; simp at hbi
  have hi : i < out.attempts.length := by omega
  have ha : out.attempts[i]? = some (out.attempts[i]) := List.getElem?_eq_getElem hi
  have := h.2 i _ b ha hbi
  have hl : i < ls.length := by omega
  simp only [downgradingPolicyL, Nat.zero_add, Nat.add_sub_cancel, Nat.add_one_ne_zero, if_false,
    List.getElem?_eq_getElem hl, Option.getD_some] at this
  rw [List.getElem?_eq_getElem hl, this]

/-- a statement not marked idempotent is never executed speculatively; a batch is idempotent only if every entry is -/
theorem C13_nonidempotent_not_speculative (spAttempts : Nat) : maxExecutions false spAttempts = 1 := by
  simp [maxExecutions]

theorem C13_batch_idempotent_iff (entries : List Bool) : batchIdempotent entries = true ↔ ∀ e ∈ entries, e = true := by
  simp [batchIdempotent]

theorem C13_executions_bound (idem : Bool) (spAttempts : Nat) : maxExecutions idem spAttempts ≤ 1 + spAttempts := by
  unfold maxExecutions; split <;> omega

/-- **shared attempt counter**: E executions of one statement run `do` concurrently, sharing the attempt counter
    (incremented after every attempt, read by `rt.Attempt` later, not atomically) and the host iterator. For EVERY
    schedule of their micro-steps and every outcome: with a policy `Attempts() ≤ N` the requests sent in total
    never exceed `N - c0` + the executions launched, hence `budget (N - c0) E`; and no more executions than E run -/
theorem C13_shared_counter_budget (p : Policy) (N : Nat) (hp : ∀ m, p.attempt m = decide (m ≤ N))
    (c0 hosts e : Nat) (sched : List ExecutorConc.Act) :
    let m := ExecutorConc.run (some p) (ExecutorConc.init c0 hosts e) sched
    m.sent ≤ (N - c0) + ExecutorConc.started m.exs ∧ ExecutorConc.started m.exs ≤ e ∧
    m.sent ≤ ExecutorConc.budget (N - c0) e :=
  ExecutorConc.run_budget p N hp c0 hosts e sched

/-- the shared host iterator hands every usable host out once: a policy that never answers `Retry` (Simple,
    ExponentialBackoff) sends at most one request per usable host, over all executions and schedules -/
theorem C13_shared_iterator (pol : Option Policy) (hnr : ∀ p, pol = some p → ∀ e, p.rtype e ≠ .retry)
    (c0 hosts e : Nat) (sched : List ExecutorConc.Act) :
    (ExecutorConc.run pol (ExecutorConc.init c0 hosts e) sched).sent ≤ hosts :=
  ExecutorConc.run_hosts pol hnr c0 hosts e sched

/-- without a retry policy every execution sends at most once: total ≤ executions launched -/
theorem C13_shared_no_policy (c0 hosts e : Nat) (sched : List ExecutorConc.Act) :
    let m := ExecutorConc.run none (ExecutorConc.init c0 hosts e) sched
    m.sent ≤ ExecutorConc.started m.exs ∧ ExecutorConc.started m.exs ≤ e :=
  ExecutorConc.run_no_policy c0 hosts e sched

/-- FULL STATEMENT (fails on the unchanged code; doc.go: "Non-idempotent queries are not eligible for
    retrying"): a statement not marked idempotent is attempted at most once. `do` never looks at
    `IsIdempotent()`: the attempts depend only on hosts, outcomes and the retry policy.
    Counterexample (known finding KF-C13-1, replayed on the real code): SimpleRetryPolicy{1}, first attempt
    fails → the second host receives the (non-idempotent) write as well. -/
theorem C13_cex_nonidempotent_retried :
    (doQuery ⟨.query, false⟩ (some (simplePolicy 1)) (fun _ => .err 9) (fun _ _ => true) 10 [1, 2] 0 0 1).attempts.map (·.host)
      = [1, 2] := by
  decide

/-- proved part: without a retry policy (the default) a non-idempotent statement — like any statement — is sent once -/
theorem C13_nonidempotent_not_retried_partial (req : Req) (outcome : Nat → Res) (us : Nat → Nat → Bool) (fuel : Nat)
    (ids : List Nat) (k cons : Nat) :
    (doQuery req none outcome us fuel ids k 0 cons).attempts.length ≤ 1 := C13_no_policy_once req outcome us fuel ids k 0 cons

example : (doQuery ⟨.batchUnlogged, false⟩ (some (downgradingPolicyL [4, 1])) (fun n => if n = 0 then .err kReadTO else if n = 1 then .err 9 else .ok)
    (usOf [⟨1, true, true⟩, ⟨2, false, true⟩, ⟨3, true, false⟩, ⟨4, true, true⟩] (fun _ => [])) 10 [1, 2, 3, 4] 0 0 6) =
    ⟨[⟨1, 0, 6, .err 7⟩, ⟨1, 1, 4, .err 9⟩, ⟨4, 2, 1, .ok⟩], .last .ok, 3, 1⟩ := by decide

/-- non-vacuity of the changing environment: overloaded on host 1 (next host), read timeout on host 2 (the
    downgrading policy answers Retry), host 2 is marked down before the loop comes round: the caller gets the
    read timeout of request 1, not the overloaded error of request 0 and not ErrNoConnections -/
example : (doQuery ⟨.query, false⟩ (some (downgradingPolicyL [2, 1])) (fun n => if n = 0 then .err 9 else .err kReadTO)
    (usOf [⟨1, true, true⟩, ⟨2, true, true⟩] (fun k => if k = 1 then [(.markDown, 2)] else [])) 10 [1, 2] 0 0 4) =
    ⟨[⟨1, 0, 4, .err 9⟩, ⟨2, 1, 2, .err 7⟩], .lastErr 7 1, 2, 1⟩ := by decide

/-- … and a host that comes back is used: host 1 loses its pool after request 0 (Retry walks on to host 2), host 1
    is re-added after request 1, but the walk never goes backwards -/
example : (doQuery ⟨.query, false⟩ (some (downgradingPolicyL [2, 1])) (fun _ => .err kReadTO)
    (usOf [⟨1, true, true⟩, ⟨2, true, true⟩, ⟨3, false, true⟩]
      (fun k => if k = 0 then [(.poolGone, 1)] else if k = 1 then [(.poolBack, 1), (.poolGone, 2), (.markUp, 3)] else [])) 10 [1, 2, 3] 0 0 4) =
    ⟨[⟨1, 0, 4, .err 7⟩, ⟨2, 1, 2, .err 7⟩, ⟨3, 2, 1, .err 7⟩], .last (.err 7), 3, 1⟩ := by decide

/-- non-vacuity of the shared-counter bound: two executions, Simple{1}, three hosts — a schedule that reaches
    the bound 1 + 2 -/
example : (ExecutorConc.run (some (simplePolicy 1)) (ExecutorConc.init 0 3 2)
    [.launch 0, .launch 1, .complete 0 (.err 9), .decide 0, .complete 1 (.err 9), .decide 1]).sent = 3 := by decide

end C13
