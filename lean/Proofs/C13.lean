import Proofs.C13Exec
/-!
# C13 — retries, idempotence and speculative execution (property theorems)

Model: `Model/Executor.lean` (`queryExecutor.do` as a function of the host iterator's output, per-host
availability, the per-attempt outcomes and the retry policy's two decision functions; `executeQuery`'s
choice of how many executions to start). All theorems: every host sequence, every outcome sequence,
every policy (arbitrary decision functions unless stated).
-/
namespace C13
open Executor

/-- **budget**: with SimpleRetryPolicy{N} (and ExponentialBackoff{N}, same decisions) the query reaches
    servers at most N+1 times, whatever the outcomes and hosts -/
theorem C13_budget_simple (N : Nat) (outcome : Nat → Res) (fuel : Nat) (hosts : List Host) :
    (doQuery (some (simplePolicy N)) outcome fuel hosts 0).attempts.length ≤ N + 1 := by
  unfold doQuery
  cases nextUsable hosts with
  | none => have := doLoop_budget (simplePolicy N) N (fun _ => rfl) outcome fuel none [] 0 none [] (by omega); simpa using this
  | some p => have := doLoop_budget (simplePolicy N) N (fun _ => rfl) outcome fuel (some p.1) p.2 0 none [] (by omega); simpa using this

theorem C13_budget_downgrading (L : Nat) (outcome : Nat → Res) (fuel : Nat) (hosts : List Host) :
    (doQuery (some (downgradingPolicy L)) outcome fuel hosts 0).attempts.length ≤ L + 1 := by
  unfold doQuery
  cases nextUsable hosts with
  | none => have := doLoop_budget (downgradingPolicy L) L (fun _ => rfl) outcome fuel none [] 0 none [] (by omega); simpa using this
  | some p => have := doLoop_budget (downgradingPolicy L) L (fun _ => rfl) outcome fuel (some p.1) p.2 0 none [] (by omega); simpa using this

/-- no retry policy: at most one attempt -/
theorem C13_no_policy_once (outcome : Nat → Res) (fuel : Nat) (hosts : List Host) (n0 : Nat) :
    (doQuery none outcome fuel hosts n0).attempts.length ≤ 1 := by
  unfold doQuery
  cases nextUsable hosts with
  | none => cases fuel <;> simp [doLoop]
  | some p =>
    cases fuel with
    | zero => simp [doLoop]
    | succ f => simp only [doLoop]; cases outcome n0 <;> simp

/-- **host choice**: the attempts walk along the usable hosts in the order the policy offered them: each
    attempt is on the same host as the previous one (Retry) or on the next usable host (RetryNextHost);
    down hosts and hosts without a connection are skipped and consume no budget (they do not appear). -/
theorem C13_host_choice (pol : Option Policy) (outcome : Nat → Res) (fuel : Nat) (hosts : List Host) (n0 : Nat) :
    Walk ((usable hosts).map (·.id)) (doQuery pol outcome fuel hosts n0).attempts := by
  unfold doQuery
  rcases nextUsable_spec hosts with ⟨hn, hu⟩ | ⟨h, rest, hn, hu⟩
  · simp only [hn]
    obtain ⟨s, h1, h2, -⟩ := doLoop_spec pol outcome fuel none [] n0 none []
    simp only [List.reverse_nil, List.nil_append] at h1
    rw [h1, hu]
    simpa [usable] using h2
  · simp only [hn]
    obtain ⟨s, h1, h2, -⟩ := doLoop_spec pol outcome fuel (some h) rest n0 none []
    simp only [List.reverse_nil, List.nil_append] at h1
    rw [h1, hu]
    simpa using h2

/-- **one result, the last attempt's**: the returned iter is the last attempt's (`last`), or carries the last
    attempt's error when the hosts ran out (`lastErr`), or ErrNoConnections exactly when nothing was attempted -/
theorem C13_one_result_last_error (pol : Option Policy) (outcome : Nat → Res) (fuel : Nat) (hosts : List Host) (n0 : Nat) :
    let out := doQuery pol outcome fuel hosts n0
    (∀ r, out.final = .last r → out.attempts ≠ [] ∧ r = outcome (n0 + out.attempts.length - 1)) ∧
    (∀ k, out.final = .lastErr k → out.attempts ≠ [] ∧ outcome (n0 + out.attempts.length - 1) = .err k) ∧
    (out.final = .noConnections → out.attempts = []) := by
  intro out
  have key : ∀ cur rest, out = doLoop pol outcome fuel cur rest n0 none [] →
      (∀ r, out.final = .last r → out.attempts ≠ [] ∧ r = outcome (n0 + out.attempts.length - 1)) ∧
      (∀ k, out.final = .lastErr k → out.attempts ≠ [] ∧ outcome (n0 + out.attempts.length - 1) = .err k) ∧
      (out.final = .noConnections → out.attempts = []) := by
    intro cur rest ho
    obtain ⟨s, h1, _, h3, h4, h5⟩ := doLoop_spec pol outcome fuel cur rest n0 none []
    simp only [List.reverse_nil, List.nil_append] at h1
    rw [← ho] at h1 h3 h4 h5
    rw [h1]
    refine ⟨h3, ?_, fun h => (h5 h).1⟩
    intro k hk
    rcases h4 k hk with ⟨_, h⟩ | h
    · simp at h
    · exact h
  show _
  unfold doQuery at *
  cases hn : nextUsable hosts with
  | none => exact key none [] (by simp [out, doQuery, hn])
  | some p => exact key (some p.1) p.2 (by simp [out, doQuery, hn])

/-- a logical error (context cancelled / deadline / not found) ends the query at once, whatever the policy -/
theorem C13_context_stops (pol : Option Policy) (outcome : Nat → Res) (fuel : Nat) (h : Host) (rest : List Host)
    (n : Nat) (ho : outcome n = .logical) :
    doLoop pol outcome (fuel+1) (some h) rest n none [] = ⟨[h.id], .last .logical⟩ := by
  simp [doLoop, ho]

/-- Rethrow and Ignore stop retrying; an unknown retry type yields ErrUnknownRetryType -/
theorem C13_rethrow_ignore_stop (p : Policy) (outcome : Nat → Res) (fuel : Nat) (h : Host) (rest : List Host)
    (n k : Nat) (ho : outcome n = .err k) (hrt : p.rtype k = .rethrow ∨ p.rtype k = .ignore) :
    doLoop (some p) outcome (fuel+1) (some h) rest n none [] = ⟨[h.id], .last (.err k)⟩ := by
  simp only [doLoop, ho]
  by_cases hat : p.attempt (n+1) = true
  · rcases hrt with hrt | hrt <;> simp [hat, hrt]
  · have : p.attempt (n+1) = false := by simpa using hat
    simp [this]

theorem C13_unknown_retry_type (p : Policy) (outcome : Nat → Res) (fuel : Nat) (h : Host) (rest : List Host)
    (n k : Nat) (ho : outcome n = .err k) (hat : p.attempt (n+1) = true) (hrt : p.rtype k = .unknown) :
    (doLoop (some p) outcome (fuel+1) (some h) rest n none []).final = .unknownRetryType := by
  simp [doLoop, ho, hat, hrt]

/-- a query not marked idempotent is never executed speculatively -/
theorem C13_nonidempotent_not_speculative (spAttempts : Nat) : maxExecutions false spAttempts = 1 := by
  simp [maxExecutions]

theorem C13_executions_bound (idem : Bool) (spAttempts : Nat) : maxExecutions idem spAttempts ≤ 1 + spAttempts := by
  unfold maxExecutions; split <;> omega

/-- FULL STATEMENT (fails on the unchanged code; doc.go: "Non-idempotent queries are not eligible for
    retrying"): a query not marked idempotent is attempted at most once. `do` never looks at
    `IsIdempotent()`: the attempts depend only on hosts, outcomes and the retry policy.
    Counterexample (known finding KF-C13-1, replayed on the real code): SimpleRetryPolicy{1}, first attempt
    fails → the second host receives the (non-idempotent) write as well. -/
theorem C13_cex_nonidempotent_retried :
    (doQuery (some (simplePolicy 1)) (fun _ => .err 9) 10 [⟨1, true, true⟩, ⟨2, true, true⟩] 0).attempts = [1, 2] := by
  decide

/-- proved part: without a retry policy (the default) a non-idempotent query — like any query — is sent once -/
theorem C13_nonidempotent_not_retried_partial (outcome : Nat → Res) (fuel : Nat) (hosts : List Host) :
    (doQuery none outcome fuel hosts 0).attempts.length ≤ 1 := C13_no_policy_once outcome fuel hosts 0

example : (doQuery (some (downgradingPolicy 2)) (fun n => if n = 0 then .err kReadTO else if n = 1 then .err 9 else .ok) 10
    [⟨1, true, true⟩, ⟨2, false, true⟩, ⟨3, true, false⟩, ⟨4, true, true⟩] 0) = ⟨[1, 1, 4], .last .ok⟩ := by decide

end C13
