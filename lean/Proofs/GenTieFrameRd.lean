import Gen.Frame
import Model.FrameRead
import Proofs.GenTieC12
/-!
  Tie theorems between the framer's primitive READERS regenerated from /repo/frame.go by tools/go2lean (`Gen.Frame.framer_read*`:
  methods with the pointer receiver `f *framer`, translated as functions from the receiver field `f.buf` to
  `Option (f.buf' × result)`, `none` = the Go code reached `panic(…)`) and the reader combinators of the response model
  the C04 theorems are about (`FrameRead.readByte/readShort/readInt/readString/readShortBytes/readBytes`, `.err` = the
  recovered panic). For every buffer shorter than 2^63 bytes.
-/
namespace GenTie.FrameRd
open GenTie.C12 FrameRead

/-- the outcome of a generated reader (none = the Go code panicked; the recovered panic is the model's `.err`) -/
def res {α β : Type} (f : α → β) : Option (List (BitVec 8) × α) → Outcome (β × Bytes)
  | none => .err
  | some (b, a) => .ok (f a, b.map UInt8.ofBitVec)

theorem slt_ofNat (a b : Nat) (ha : a < 2^63) (hb : b < 2^63) :
    BitVec.slt (BitVec.ofNat 64 a) (BitVec.ofNat 64 b) = decide (a < b) := by
  simp only [BitVec.slt, BitVec.toInt_eq_toNat_cond, BitVec.toNat_ofNat]
  have a' : a % 2^64 = a := Nat.mod_eq_of_lt (by omega)
  have b' : b % 2^64 = b := Nat.mod_eq_of_lt (by omega)
  rw [a', b']
  have : 2 * a < 2^64 := by omega
  have : 2 * b < 2^64 := by omega
  simp [*]

theorem back (s : List UInt8) : (s.map (·.toBitVec)).map UInt8.ofBitVec = s := by
  induction s with
  | nil => rfl
  | cons a s ih => simp [ih]

theorem back2 (s : List UInt8) : List.map (UInt8.ofBitVec ∘ fun x => x.toBitVec) s = s := by
  induction s with
  | nil => rfl
  | cons a s ih => simp [ih]

theorem readByte (buf : List UInt8) (h : buf.length < 2^63) :
    res UInt8.ofBitVec (Gen.Frame.framer_readByte (buf.map (·.toBitVec))) = FrameRead.readByte buf := by
  unfold Gen.Frame.framer_readByte
  rw [List.length_map, show (0x1#64 : BitVec 64) = BitVec.ofNat 64 1 from rfl, slt_ofNat _ _ h (by decide)]
  rcases buf with _ | ⟨a, r⟩
  · rfl
  · simp [res, FrameRead.readByte, slice, back2, bind, P.bind, pure, P.pure]


theorem be16_val (a b : UInt8) :
    ((a.toBitVec.setWidth 16 <<< 8) ||| b.toBitVec.setWidth 16).toNat = a.toNat * 256 + b.toNat := by
  have hb := UInt8.toNat_lt b
  simp only [BitVec.toNat_or, BitVec.toNat_shiftLeft, BitVec.toNat_setWidth, UInt8.toNat_toBitVec]
  rw [(byte_shl a 8 16 (by decide)).1, byte_mod b 16 (by decide), be2 _ _ hb]

theorem be16_nat (a b : UInt8) : a.toNat <<< 8 % 65536 ||| b.toNat = a.toNat * 256 + b.toNat := by
  have ha := UInt8.toNat_lt a
  have hb := UInt8.toNat_lt b
  have e : a.toNat <<< 8 = a.toNat * 256 := by rw [Nat.shiftLeft_eq]
  rw [Nat.mod_eq_of_lt (by omega), or_shl _ _ hb]

theorem readShort (buf : List UInt8) (h : buf.length < 2^63) :
    res (·.toNat) (Gen.Frame.framer_readShort (buf.map (·.toBitVec))) = FrameRead.readShort buf := by
  unfold Gen.Frame.framer_readShort
  rw [List.length_map, show (0x2#64 : BitVec 64) = BitVec.ofNat 64 2 from rfl, slt_ofNat _ _ h (by decide)]
  rcases buf with _ | ⟨a, _ | ⟨b, r⟩⟩
  · rfl
  · rfl
  · have h2 : ¬ (r.length + 1 + 1 < 2) := by omega
    simp [res, FrameRead.readShort, slice, back2, bind, P.bind, pure, P.pure, beNat, h2, be16_nat]


theorem be32_nat (a b c d : UInt8) :
    a.toNat <<< 24 % 4294967296 ||| b.toNat <<< 16 % 4294967296 ||| c.toNat <<< 8 % 4294967296 ||| d.toNat
      = ((a.toNat * 256 + b.toNat) * 256 + c.toNat) * 256 + d.toNat := by
  have hb := UInt8.toNat_lt b; have hc := UInt8.toNat_lt c; have hd := UInt8.toNat_lt d
  have h1 := (byte_shl a 24 32 (by decide)).1
  have h2 := (byte_shl b 16 32 (by decide)).1
  have h3 := (byte_shl c 8 32 (by decide)).1
  rw [byte_mod a 32 (by decide)] at h1
  rw [byte_mod b 32 (by decide)] at h2
  rw [byte_mod c 32 (by decide)] at h3
  rw [show (4294967296:Nat) = 2^32 from rfl, h1, h2, h3, be4 _ _ _ _ hb hc hd]
  omega

theorem toInt_signExtend32 (v : BitVec 32) : (v.signExtend 64).toInt = int32Of v.toNat := by
  rw [BitVec.toInt_signExtend_of_le (by decide), BitVec.toInt_eq_toNat_cond]
  unfold int32Of
  have := v.isLt
  split <;> split <;> omega

theorem int32_val (a b c d : UInt8) :
    (((((a.toBitVec.setWidth 32 <<< 24) ||| (b.toBitVec.setWidth 32 <<< 16)) ||| (c.toBitVec.setWidth 32 <<< 8)) |||
        d.toBitVec.setWidth 32).signExtend 64).toInt = int32Of (((a.toNat * 256 + b.toNat) * 256 + c.toNat) * 256 + d.toNat) := by
  rw [toInt_signExtend32]
  congr 1
  simp only [BitVec.toNat_or, BitVec.toNat_shiftLeft, BitVec.toNat_setWidth, UInt8.toNat_toBitVec]
  have h1 := byte_mod a 32 (by decide)
  have h2 := byte_mod b 32 (by decide)
  have h3 := byte_mod c 32 (by decide)
  have h4 := byte_mod d 32 (by decide)
  rw [h1, h2, h3, h4]
  exact be32_nat a b c d

theorem readInt (buf : List UInt8) (h : buf.length < 2^63) :
    res (·.toInt) (Gen.Frame.framer_readInt (buf.map (·.toBitVec))) = FrameRead.readInt buf := by
  unfold Gen.Frame.framer_readInt
  rw [List.length_map, show (0x4#64 : BitVec 64) = BitVec.ofNat 64 4 from rfl, slt_ofNat _ _ h (by decide)]
  rcases buf with _ | ⟨a, _ | ⟨b, _ | ⟨c, _ | ⟨d, r⟩⟩⟩⟩
  · rfl
  · rfl
  · rfl
  · rfl
  · have h2 : ¬ (r.length + 1 + 1 + 1 + 1 < 4) := by omega
    simp [res, FrameRead.readInt, slice, back2, bind, P.bind, pure, P.pure, beNat, h2, int32_val, -BitVec.signExtend_or]


/-! explicit forms of `readShort` / `readInt` on both sides, for the readers built on them -/

theorem gen_readShort_short (buf : List UInt8) (h : buf.length < 2) :
    Gen.Frame.framer_readShort (buf.map (·.toBitVec)) = none := by
  unfold Gen.Frame.framer_readShort
  rw [List.length_map, show (0x2#64 : BitVec 64) = BitVec.ofNat 64 2 from rfl, slt_ofNat _ _ (by omega) (by decide)]
  simp [h]

theorem gen_readShort_cons (a b : UInt8) (r : List UInt8) (h : r.length + 2 < 2^63) :
    Gen.Frame.framer_readShort ((a :: b :: r).map (·.toBitVec))
      = some (r.map (·.toBitVec), (a.toBitVec.setWidth 16 <<< 8) ||| b.toBitVec.setWidth 16) := by
  unfold Gen.Frame.framer_readShort
  rw [List.length_map, show (0x2#64 : BitVec 64) = BitVec.ofNat 64 2 from rfl, slt_ofNat _ _ (by simpa using h) (by decide)]
  simp

theorem mod_readShort_short (buf : List UInt8) (h : buf.length < 2) : FrameRead.readShort buf = .err := by
  simp [FrameRead.readShort, slice, bind, P.bind, h]

theorem mod_readShort_cons (a b : UInt8) (r : List UInt8) :
    FrameRead.readShort (a :: b :: r) = .ok (a.toNat * 256 + b.toNat, r) := by
  have h2 : ¬ (r.length + 1 + 1 < 2) := by omega
  simp [FrameRead.readShort, slice, bind, P.bind, pure, P.pure, beNat, h2]

theorem size16 (v : BitVec 16) : v.setWidth 64 = BitVec.ofNat 64 v.toNat := by
  apply BitVec.eq_of_toNat_eq
  have := v.isLt
  simp

/-- `len(f.buf) < int(size)` guard, then `f.buf[:size]`, `f.buf[size:]`: the model's `slice size size` -/
theorem sliceTie (r : List UInt8) (n : Nat) (hr : r.length < 2^63) (hn : n < 2^63) :
    res (·.map UInt8.ofBitVec)
      (if BitVec.slt (BitVec.ofNat 64 (r.map (·.toBitVec)).length) (BitVec.ofNat 64 n) then none
       else some ((r.map (·.toBitVec)).drop n, (r.map (·.toBitVec)).take n)) = slice n n r := by
  rw [List.length_map, slt_ofNat _ _ hr hn]
  unfold slice
  by_cases h : r.length < n
  · simp [h, res]
  · simp [h, res, ← List.map_drop, ← List.map_take, back2]

theorem readString (buf : List UInt8) (h : buf.length < 2^63) :
    res (·.map UInt8.ofBitVec) (Gen.Frame.framer_readString (buf.map (·.toBitVec))) = FrameRead.readString buf := by
  unfold Gen.Frame.framer_readString FrameRead.readString
  by_cases hs : buf.length < 2
  · simp only [gen_readShort_short buf hs, bind, P.bind, mod_readShort_short buf hs]; rfl
  · obtain ⟨a, b, r, rfl⟩ : ∃ a b r, buf = a :: b :: r := by
      rcases buf with _ | ⟨a, _ | ⟨b, r⟩⟩
      · simp at hs
      · simp at hs
      · exact ⟨a, b, r, rfl⟩
    have hr : r.length + 2 < 2^63 := by simpa using h
    simp only [gen_readShort_cons a b r hr, bind, P.bind, mod_readShort_cons, size16, be16_val]
    exact sliceTie r _ (by omega) (by have := UInt8.toNat_lt a; have := UInt8.toNat_lt b; omega)


theorem readShortBytes (buf : List UInt8) (h : buf.length < 2^63) :
    res (·.map UInt8.ofBitVec) (Gen.Frame.framer_readShortBytes (buf.map (·.toBitVec))) = FrameRead.readShortBytes buf := by
  unfold Gen.Frame.framer_readShortBytes FrameRead.readShortBytes
  by_cases hs : buf.length < 2
  · simp only [gen_readShort_short buf hs, bind, P.bind, mod_readShort_short buf hs]; rfl
  · obtain ⟨a, b, r, rfl⟩ : ∃ a b r, buf = a :: b :: r := by
      rcases buf with _ | ⟨a, _ | ⟨b, r⟩⟩
      · simp at hs
      · simp at hs
      · exact ⟨a, b, r, rfl⟩
    have hr : r.length + 2 < 2^63 := by simpa using h
    simp only [gen_readShort_cons a b r hr, bind, P.bind, mod_readShort_cons, size16, be16_val]
    exact sliceTie r _ (by omega) (by have := UInt8.toNat_lt a; have := UInt8.toNat_lt b; omega)

theorem gen_readInt_cons (a b c d : UInt8) (r : List UInt8) (h : r.length + 4 < 2^63) :
    Gen.Frame.framer_readInt ((a :: b :: c :: d :: r).map (·.toBitVec))
      = some (r.map (·.toBitVec), ((((a.toBitVec.setWidth 32 <<< 24) ||| (b.toBitVec.setWidth 32 <<< 16)) |||
          (c.toBitVec.setWidth 32 <<< 8)) ||| d.toBitVec.setWidth 32).signExtend 64) := by
  unfold Gen.Frame.framer_readInt
  rw [List.length_map, show (0x4#64 : BitVec 64) = BitVec.ofNat 64 4 from rfl, slt_ofNat _ _ (by simpa using h) (by decide)]
  simp [-BitVec.signExtend_or]

theorem mod_readInt_short (buf : List UInt8) (h : buf.length < 4) : FrameRead.readInt buf = .err := by
  simp [FrameRead.readInt, slice, bind, P.bind, h]

theorem mod_readInt_cons (a b c d : UInt8) (r : List UInt8) :
    FrameRead.readInt (a :: b :: c :: d :: r)
      = .ok (int32Of (((a.toNat * 256 + b.toNat) * 256 + c.toNat) * 256 + d.toNat), r) := by
  have h2 : ¬ (r.length + 1 + 1 + 1 + 1 < 4) := by omega
  simp [FrameRead.readInt, slice, bind, P.bind, pure, P.pure, beNat, h2]

theorem slt_zero (x : BitVec 64) : BitVec.slt x 0x0#64 = decide (x.toInt < 0) := by
  simp [BitVec.slt]

theorem ofNat_toInt (x : BitVec 64) (h : 0 ≤ x.toInt) : x = BitVec.ofNat 64 x.toInt.toNat := by
  apply BitVec.eq_of_toNat_eq
  rw [BitVec.toInt_eq_toNat_cond] at *
  have := x.isLt
  simp
  split at h <;> omega

/-- `readBytes` (= `readBytesInternal` + the panic on its error): a negative size is null (the generated code has the
    empty list there: nil and empty are not distinguished by the translation) -/
theorem readBytes (buf : List UInt8) (h : buf.length < 2^63) :
    res (·.map UInt8.ofBitVec) (Gen.Frame.framer_readBytes (buf.map (·.toBitVec)))
      = (match FrameRead.readBytes buf with
         | .ok (o, r) => .ok (o.getD [], r) | .err => .err | .crash => .crash) := by
  unfold Gen.Frame.framer_readBytes Gen.Frame.framer_readBytesInternal FrameRead.readBytes
  rw [List.length_map, show (0x4#64 : BitVec 64) = BitVec.ofNat 64 4 from rfl, slt_ofNat _ _ h (by decide)]
  by_cases hs : buf.length < 4
  · simp only [hs, decide_true, if_true, bind, P.bind, mod_readInt_short buf hs]; rfl
  · obtain ⟨a, b, c, d, r, rfl⟩ : ∃ a b c d r, buf = a :: b :: c :: d :: r := by
      rcases buf with _ | ⟨a, _ | ⟨b, _ | ⟨c, _ | ⟨d, r⟩⟩⟩⟩
      · simp at hs
      · simp at hs
      · simp at hs
      · simp at hs
      · exact ⟨a, b, c, d, r, rfl⟩
    have hr : r.length + 4 < 2^63 := by simpa using h
    simp only [hs, decide_false, Bool.false_eq_true, if_false, gen_readInt_cons a b c d r hr, bind, P.bind, mod_readInt_cons, slt_zero,
      int32_val]
    have hNlt : ((a.toNat * 256 + b.toNat) * 256 + c.toNat) * 256 + d.toNat < 4294967296 := by
      have := UInt8.toNat_lt a; have := UInt8.toNat_lt b; have := UInt8.toNat_lt c; have := UInt8.toNat_lt d; omega
    generalize hN : ((a.toNat * 256 + b.toNat) * 256 + c.toNat) * 256 + d.toNat = N at hNlt
    have hv := int32_val a b c d
    rw [hN] at hv
    generalize ((((a.toBitVec.setWidth 32 <<< 24) ||| (b.toBitVec.setWidth 32 <<< 16)) |||
          (c.toBitVec.setWidth 32 <<< 8)) ||| d.toBitVec.setWidth 32).signExtend 64 = v at hv
    by_cases hneg : int32Of N < 0
    · simp [hneg, res, pure, P.pure, back2]
    · have hnn : 0 ≤ v.toInt := by omega
      have hb : (int32Of N).toNat < 2^63 := by unfold int32Of at *; split <;> omega
      have := sliceTie r (int32Of N).toNat (by omega) hb
      rw [ofNat_toInt v hnn, hv]
      simp only [hneg, decide_false, Bool.false_eq_true, if_false]
      have hto : (BitVec.ofNat 64 (int32Of N).toNat).toNat = (int32Of N).toNat := by
        simp only [BitVec.toNat_ofNat]; omega
      rw [hto]
      unfold P.bind
      rw [← this]
      generalize (BitVec.ofNat 64 (List.map (fun x => x.toBitVec) r).length).slt (BitVec.ofNat 64 (int32Of N).toNat) = cnd
      cases cnd <;> simp [res, pure, P.pure]

/-! ### `readConsistency` (`return Consistency(f.readShort())`: the effectful call is hoisted into a let) and `readInetAdressOnly` -/

theorem readConsistency (buf : List UInt8) (h : buf.length < 2^63) :
    res (·.toNat) (Gen.Frame.framer_readConsistency (buf.map (·.toBitVec))) = FrameRead.readConsistency buf := by
  have e : Gen.Frame.framer_readConsistency (buf.map (·.toBitVec)) = Gen.Frame.framer_readShort (buf.map (·.toBitVec)) := by
    unfold Gen.Frame.framer_readConsistency
    cases Gen.Frame.framer_readShort (buf.map (·.toBitVec)) with
    | none => rfl
    | some x => rfl
  rw [e]; exact readShort buf h

theorem goCopy_full (n : Nat) (src : List (BitVec 8)) (h : src.length = n) :
    Gen.Frame.goCopyAt (List.replicate n 0#8) 0 src = src := by
  unfold Gen.Frame.goCopyAt
  simp [h]
  exact List.take_of_length_le (by omega)

theorem sliceCopyTie (r : List UInt8) (n : Nat) (hr : r.length < 2^63) (hn : n < 2^63) :
    res (·.map UInt8.ofBitVec)
      (if BitVec.slt (BitVec.ofNat 64 (r.map (·.toBitVec)).length) (BitVec.ofNat 64 n) then none
       else some ((r.map (·.toBitVec)).drop n,
         Gen.Frame.goCopyAt (List.replicate n 0#8) 0 ((r.map (·.toBitVec)).take n))) = slice n n r := by
  by_cases h : r.length < n
  · rw [List.length_map, slt_ofNat _ _ hr hn]
    simp [h, res, slice]
  · rw [goCopy_full n _ (by simp; omega)]
    exact sliceTie r n hr hn

theorem mod_inet_nil : FrameRead.readInetAdressOnly [] = .err := rfl

theorem mod_inet_cons (a : UInt8) (r : List UInt8) :
    FrameRead.readInetAdressOnly (a :: r)
      = if (!(a.toNat == 4 || a.toNat == 16)) = true then .err else slice a.toNat a.toNat r := by
  by_cases hok : (a.toNat == 4 || a.toNat == 16) = true
  · simp [FrameRead.readInetAdressOnly, bind, P.bind, slice, hok]
  · have hok' : (a.toNat == 4 || a.toNat == 16) = false := by simpa using hok
    simp [FrameRead.readInetAdressOnly, bind, P.bind, slice, hok', P.fail]

theorem readInetAdressOnly (buf : List UInt8) (h : buf.length < 2^63) :
    res (·.map UInt8.ofBitVec) (Gen.Frame.framer_readInetAdressOnly (buf.map (·.toBitVec))) = FrameRead.readInetAdressOnly buf := by
  rcases buf with _ | ⟨a, r⟩
  · rfl
  · rw [mod_inet_cons]
    unfold Gen.Frame.framer_readInetAdressOnly
    rw [List.length_map, show (0x1#64 : BitVec 64) = BitVec.ofNat 64 1 from rfl, slt_ofNat _ _ h (by decide)]
    have hr : r.length < 2^63 := by simp at h; omega
    have h0 : ¬ (r.length + 1 < 1) := by omega
    simp only [List.length_cons, h0, decide_false, Bool.false_eq_true, if_false, List.map_cons, List.getD_cons_zero, List.drop_succ_cons,
      List.drop_zero]
    have hsz : a.toBitVec.setWidth 64 = BitVec.ofNat 64 a.toNat := by
      apply BitVec.eq_of_toNat_eq; have := UInt8.toNat_lt a; simp
    have e4 : ∀ b : BitVec 8, (b == 0x4#8) = (b.toNat == 4) := by decide
    have e16 : ∀ b : BitVec 8, (b == 0x10#8) = (b.toNat == 16) := by decide
    rw [e4, e16, hsz]
    simp only [UInt8.toNat_toBitVec]
    have ha := UInt8.toNat_lt a
    by_cases hok : (a.toNat == 4 || a.toNat == 16) = true
    · simp only [hok, Bool.not_true, Bool.false_eq_true, if_false]
      exact sliceCopyTie r a.toNat hr (by omega)
    · have hok' : (a.toNat == 4 || a.toNat == 16) = false := by simpa using hok
      simp only [hok', Bool.not_false, if_true]
      rfl

/-! ### `readInet` -/

/-- explicit form of the generated `readInetAdressOnly` on a non-empty buffer -/
theorem gen_inet_cons (a : UInt8) (r : List UInt8) (h : r.length + 1 < 2^63) :
    Gen.Frame.framer_readInetAdressOnly ((a :: r).map (·.toBitVec))
      = if (!(a.toNat == 4 || a.toNat == 16)) = true then none
        else if r.length < a.toNat then none
        else some ((r.drop a.toNat).map (·.toBitVec), (r.take a.toNat).map (·.toBitVec)) := by
  unfold Gen.Frame.framer_readInetAdressOnly
  rw [List.length_map, show (0x1#64 : BitVec 64) = BitVec.ofNat 64 1 from rfl, slt_ofNat _ _ (by simpa using h) (by decide)]
  have h0 : ¬ (r.length + 1 < 1) := by omega
  simp only [List.length_cons, h0, decide_false, Bool.false_eq_true, if_false, List.map_cons, List.getD_cons_zero, List.drop_succ_cons,
    List.drop_zero]
  have hsz : a.toBitVec.setWidth 64 = BitVec.ofNat 64 a.toNat := by
    apply BitVec.eq_of_toNat_eq; have := UInt8.toNat_lt a; simp
  have e4 : ∀ b : BitVec 8, (b == 0x4#8) = (b.toNat == 4) := by decide
  have e16 : ∀ b : BitVec 8, (b == 0x10#8) = (b.toNat == 16) := by decide
  rw [e4, e16, hsz, List.length_map, slt_ofNat _ _ (by omega) (by have := UInt8.toNat_lt a; omega)]
  simp only [UInt8.toNat_toBitVec]
  by_cases hok : (a.toNat == 4 || a.toNat == 16) = true
  · simp only [hok, Bool.not_true, Bool.false_eq_true, if_false]
    by_cases hs : r.length < a.toNat
    · simp [hs]
    · simp only [hs, decide_false, Bool.false_eq_true, if_false]
      rw [goCopy_full a.toNat _ (by simp; omega), List.map_drop, List.map_take]
  · have hok' : (a.toNat == 4 || a.toNat == 16) = false := by simpa using hok
    simp only [hok', Bool.not_false, if_true]

/-- `readInet` (`return f.readInetAdressOnly(), f.readInt()`: both calls hoisted, in order) -/
theorem readInet (buf : List UInt8) (h : buf.length < 2^63) :
    (match Gen.Frame.framer_readInet (buf.map (·.toBitVec)) with
     | none => Outcome.err
     | some (fb, ip, port) => Outcome.ok ((ip.map UInt8.ofBitVec, port.toInt), fb.map UInt8.ofBitVec))
      = FrameRead.readInet buf := by
  unfold Gen.Frame.framer_readInet FrameRead.readInet
  rcases buf with _ | ⟨a, r⟩
  · rfl
  · have hr : r.length + 1 < 2^63 := by simpa using h
    simp only [bind, P.bind]
    rw [gen_inet_cons a r hr, mod_inet_cons]
    by_cases hok : (!(a.toNat == 4 || a.toNat == 16)) = true
    · simp [hok]
    · simp only [hok, if_false, slice]
      by_cases hs : r.length < a.toNat
      · simp [hs]
      · simp only [hs, if_false]
        have hi := readInt (r.drop a.toNat) (by simp; omega)
        cases hg : Gen.Frame.framer_readInt ((r.drop a.toNat).map (·.toBitVec)) with
        | none => rw [hg] at hi; simp [res] at hi; rw [List.map_drop] at hg; simp [← hi, hg]
        | some x =>
          obtain ⟨fb, port⟩ := x
          rw [hg] at hi; simp [res] at hi; rw [List.map_drop] at hg; simp [← hi, hg, pure, P.pure, ← List.map_take, back2]

end GenTie.FrameRd
