import Model.Streams
import Proofs.C08Bits
import Proofs.C08Inv
import Proofs.C08Step
import Proofs.C08Seq
import Proofs.C08Exhaust
import Proofs.C08SeqSpec
import Proofs.C08Any
import Proofs.C08Calm
import Proofs.C08Hist
import Proofs.C08ExhaustRun
import Proofs.C08Lin
/-!
# C08 — stream ids are unique while in use, never 0 or out of range, and all get used

Model: `Model/Streams.lean` (`tstep` = one atomic operation of one thread of
internal/streams/streams.go; `step`/`run` = the k-thread machine; `getStream`/`clear` = the
sequential big-step semantics derived from `tstep`).

"∀ schedule" = for every list of actions `as` accepted by `run` (every action enabled, and the
client protocol of the property respected: `Clear(id)` is called only by a holder of `id`, who
gives the id up at the call). All theorems are generic in the number of words `n > 0`
(n = 2: protocol ≤ 2, 128 ids; n = 512: protocol > 2, 32768 ids) and in the number of threads `k`.
-/
namespace C08
open Streams

/-- a state reached by some schedule from `New` with `n` words and `k` threads -/
def Reachable (n k : Nat) (s : State) : Prop := ∃ as, run (initState n k) as = some s

theorem reachable_inv {n k : Nat} (hn : 0 < n) {s : State} (h : Reachable n k s) :
    Inv s ∧ s.sh.words.length = n := by
  obtain ⟨as, h⟩ := h
  refine ⟨inv_run as (inv_init n k hn) h, ?_⟩
  have := (run_length as h).1
  simpa [initState, length_init] using this

/-- ∀ schedule: the bit of the reserved id 0 stays set; every id handed out is in 1..NumStreams-1
    (and a failing `GetStream` returns `0, false`). -/
theorem C08_reserved_and_range (n k : Nat) (hn : 0 < n) (s : State) (h : Reachable n k s) :
    bitAt s.sh.words 0 = true ∧
    (∀ id, id ∈ s.held → 1 ≤ id ∧ id < 64 * n) ∧
    (∀ a s' id ok, legal s a = true → step s a = some (s', some (.stream id ok)) →
        (ok = true → 1 ≤ id ∧ id < 64 * n) ∧ (ok = false → id = 0)) := by
  obtain ⟨hI, hlen⟩ := reachable_inv hn h
  refine ⟨hI.reserved, ?_, ?_⟩
  · intro id hid
    have := hI.heldOk id hid
    rw [hlen] at this; exact ⟨this.1, this.2.1⟩
  · intro a s' id ok hl hs
    have := (inv_step hI hl hs).2
    cases ok
    · simp only [retOk] at this; simp [this]
    · simp only [retOk] at this
      rw [hlen] at this; simp [this.1, this.2.1]

/-- ∀ schedule: the ids handed out and not given back are pairwise distinct, their bits are set, and
    an id that `GetStream` returns is not held by anybody at that moment. -/
theorem C08_unique (n k : Nat) (hn : 0 < n) (s : State) (h : Reachable n k s) :
    s.held.Nodup ∧
    (∀ id, id ∈ s.held → bitAt s.sh.words id = true) ∧
    (∀ a s' id, legal s a = true → step s a = some (s', some (.stream id true)) →
        id ∉ s.held ∧ s'.held = id :: s.held ∧ s'.held.Nodup) := by
  obtain ⟨hI, _⟩ := reachable_inv hn h
  refine ⟨hI.heldNodup, fun id hid => (hI.heldOk id hid).2.2, ?_⟩
  intro a s' id hl hs
  obtain ⟨hI', hr⟩ := inv_step hI hl hs
  simp only [retOk] at hr
  refine ⟨hr.2.2, ?_, hI'.heldNodup⟩
  -- the ghost update of `exec`
  cases a with
  | start t op =>
    simp only [step] at hs
    split at hs
    · simp only [Option.some.injEq, exec, Prod.mk.injEq] at hs
      obtain ⟨h1, h2⟩ := hs
      rw [← h1]; simp only [h2]
      cases op with
      | get => rfl
      | avail => rfl
      | clear x =>
        -- the first atomic operation of Clear never returns a stream
        exfalso
        simp only [startPC, tstep] at h2
        split at h2
        · split at h2 <;> cases h2
        · cases h2
    · cases hs
  | step t =>
    simp only [step] at hs
    split at hs
    · split at hs
      · cases hs
      · simp only [Option.some.injEq, exec, Prod.mk.injEq] at hs
        obtain ⟨h1, h2⟩ := hs
        rw [← h1]; simp only [h2]
    · cases hs

theorem countP_split (l : List PC) :
    l.countP isOwner + l.countP isC11 = l.countP inClear + l.countP isG7 := by
  induction l with
  | nil => rfl
  | cons pc l ih =>
    cases pc <;> simp [List.countP_cons, isOwner, owns, isC11, inClear, isG7] <;> omega

/-- ∀ schedule: `inuse + (#threads between successful CAS and add in GetStream)
    − (#threads between successful CAS and add in Clear) = popcount − 1`; `inuse` is never negative
    (so `Clear` never panics); and when no call is in progress `Available()` is exactly the number of
    free ids and `inuse` the number of ids handed out. -/
theorem C08_count (n k : Nat) (hn : 0 < n) (s : State) (h : Reachable n k s) :
    s.sh.inuse + (s.threads.countP isG7 : Nat) - (s.threads.countP isC11 : Nat)
        = (countBelow (bitAt s.sh.words) (64 * n) : Nat) - 1 ∧
    0 ≤ s.sh.inuse ∧
    ((∀ pc, pc ∈ s.threads → pc = .idle) →
        s.sh.inuse = s.held.length ∧
        available s.sh = ((64 * n - countBelow (bitAt s.sh.words) (64 * n) : Nat) : Int) ∧
        available s.sh = ((64 * n - 1 - s.held.length : Nat) : Int)) := by
  obtain ⟨hI, hlen⟩ := reachable_inv hn h
  have hc := hI.count
  have hi := hI.inuse
  have hs := countP_split s.threads
  rw [hlen] at hc
  have hle := countBelow_le (bitAt s.sh.words) (64 * n)
  refine ⟨by omega, by omega, ?_⟩
  intro hq
  have h1 : s.threads.countP inClear = 0 := by
    rw [List.countP_eq_zero]; intro pc hpc; rw [hq pc hpc]; simp [inClear]
  have h2 : s.threads.countP isOwner = 0 := by
    rw [List.countP_eq_zero]; intro pc hpc; rw [hq pc hpc]; simp [isOwner, owns]
  simp only [available, hlen]
  refine ⟨by omega, by omega, by omega⟩

/-- ∀ schedule: no call panics, `Clear` by a holder never reports "already cleared" -/
theorem C08_no_panic (n k : Nat) (hn : 0 < n) (s : State) (h : Reachable n k s) :
    ∀ a s' r, legal s a = true → step s a = some (s', some r) →
      r ≠ .crashNegative ∧ r ≠ .crashIndex ∧ r ≠ .cleared false := by
  obtain ⟨hI, _⟩ := reachable_inv hn h
  intro a s' r hl hs
  have := (inv_step hI hl hs).2
  refine ⟨?_, ?_, ?_⟩ <;> (intro heq; subst heq; simp [retOk] at this)

/-! ### sequential use -/

/-- `k` sequential calls of `GetStream` -/
def getMany : Nat → Shared → List (Option Ret) × Shared
  | 0, sh => ([], sh)
  | k + 1, sh => (((getStream sh).2) :: (getMany k (getStream sh).1).1, (getMany k (getStream sh).1).2)

structure SeqInv (n : Nat) (sh : Shared) (held : List Nat) : Prop where
  len : sh.words.length = n
  nodup : held.Nodup
  heldOk : ∀ id, id ∈ held → 1 ≤ id ∧ id < 64 * n ∧ bitAt sh.words id = true
  reserved : bitAt sh.words 0 = true
  count : countBelow (bitAt sh.words) (64 * n) = 1 + held.length
  inuse : sh.inuse = held.length

theorem seqInv_get {n : Nat} (hn : 0 < n) {sh : Shared} {held : List Nat} (hI : SeqInv n sh held) :
    (held.length < 64 * n - 1 → ∃ id, (getStream sh).2 = some (.stream id true) ∧ 1 ≤ id ∧ id < 64 * n ∧
        id ∉ held ∧ SeqInv n (getStream sh).1 (id :: held)) ∧
    (held.length = 64 * n - 1 → (getStream sh).2 = some (.stream 0 false) ∧
        SeqInv n (getStream sh).1 held) := by
  have hlen := hI.len
  have hc := hI.count
  rcases getStream_spec sh (by omega) with ⟨id, h1, h2, h3⟩ | ⟨h1, h2⟩
  · rw [hlen] at h1
    have hfull : ¬ held.length = 64 * n - 1 := by
      intro hf
      have : countBelow (bitAt sh.words) (64 * n) = 64 * n := by omega
      have := countBelow_eq_all _ this id h1
      rw [this] at h2; cases h2
    have hid0 : 1 ≤ id := by
      rcases Nat.eq_zero_or_pos id with h0 | h0
      · rw [h0, hI.reserved] at h2; cases h2
      · exact h0
    have hnm : id ∉ held := by
      intro hm; rw [(hI.heldOk id hm).2.2] at h2; cases h2
    have hbits : ∀ x, bitAt (setBit sh.words id) x = (decide (x = id) || bitAt sh.words x) :=
      fun x => bitAt_setBit _ _ _ (by omega)
    refine ⟨fun _ => ⟨id, by rw [h3], hid0, h1, hnm, ?_⟩, fun hf => absurd hf hfull⟩
    rw [h3]
    refine ⟨by simpa [length_setBit] using hlen, List.nodup_cons.mpr ⟨hnm, hI.nodup⟩, ?_, ?_, ?_, ?_⟩
    · intro x hx
      rcases List.mem_cons.mp hx with rfl | hx
      · exact ⟨hid0, h1, by simp [hbits]⟩
      · have := hI.heldOk x hx; simp [hbits, this]
    · simp [hbits, hI.reserved]
    · have := countBelow_set (p := bitAt sh.words) (q := bitAt (setBit sh.words id)) id hbits h2 (64 * n)
      simp [h1] at this
      simp only [List.length_cons]; omega
    · have := hI.inuse
      simp only [List.length_cons]; omega
  · rw [hlen] at h1
    have : countBelow (bitAt sh.words) (64 * n) = 64 * n := countBelow_all _ h1
    refine ⟨fun hlt => by omega, fun _ => ⟨by rw [h2], ?_⟩⟩
    rw [h2]
    exact ⟨hlen, hI.nodup, hI.heldOk, hI.reserved, hI.count, hI.inuse⟩

theorem seqInv_getMany {n : Nat} (hn : 0 < n) (k : Nat) :
    ∀ (sh : Shared) (held : List Nat), SeqInv n sh held → held.length + k ≤ 64 * n - 1 →
      ∃ ids : List Nat, ids.length = k ∧
        (getMany k sh).1 = ids.map (fun id => some (.stream id true)) ∧
        SeqInv n (getMany k sh).2 (ids.reverse ++ held) := by
  induction k with
  | zero => intro sh held hI _; exact ⟨[], rfl, rfl, by simpa [getMany] using hI⟩
  | succ k ih =>
    intro sh held hI hk
    obtain ⟨id, h1, _, _, _, h5⟩ := (seqInv_get hn hI).1 (by omega)
    obtain ⟨ids, h6, h7, h8⟩ := ih (getStream sh).1 (id :: held) h5 (by simp only [List.length_cons]; omega)
    refine ⟨id :: ids, by simp [h6], ?_, ?_⟩
    · simp only [getMany, h1, h7, List.map_cons]
    · simp only [getMany, List.reverse_cons, List.append_assoc, List.singleton_append]
      exact h8

theorem seqInv_init (n : Nat) (hn : 0 < n) : SeqInv n (init n) [] := by
  have hI := inv_init n 0 hn
  refine ⟨length_init n, List.nodup_nil, by simp, hI.reserved, ?_, rfl⟩
  have := hI.count
  simpa [initState, length_init] using this

/-- used sequentially without release, a fresh generator hands out `NumStreams − 1` pairwise
    distinct ids, all in `1..NumStreams-1`, then reports exhaustion (with `Available() = 0`);
    for every number of words (both capacities). -/
theorem C08_sequential_all_ids (n : Nat) (hn : 0 < n) :
    ∃ ids : List Nat, ids.length = 64 * n - 1 ∧ ids.Nodup ∧ (∀ id, id ∈ ids → 1 ≤ id ∧ id < 64 * n) ∧
      (getMany (64 * n - 1) (init n)).1 = ids.map (fun id => some (.stream id true)) ∧
      (getStream (getMany (64 * n - 1) (init n)).2).2 = some (.stream 0 false) ∧
      available (getMany (64 * n - 1) (init n)).2 = 0 := by
  obtain ⟨ids, h1, h2, h3⟩ := seqInv_getMany hn (64 * n - 1) (init n) [] (seqInv_init n hn) (by simp)
  simp only [List.append_nil] at h3
  have hnd : ids.Nodup := (List.reverse_perm ids).nodup_iff.mp h3.nodup
  refine ⟨ids, h1, hnd, ?_, h2, ?_, ?_⟩
  · intro id hid
    have := h3.heldOk id (by simpa using hid)
    exact ⟨this.1, this.2.1⟩
  · exact ((seqInv_get hn h3).2 (by simp [h1])).1
  · have := h3.inuse
    simp only [available, h3.len, this, List.length_reverse, h1]
    omega

/-- sequential `Clear`: it returns true iff it flipped the bit (with the counter at zero the
    decrement panics instead — after having flipped the bit); afterwards the bit is clear and no
    other bit changed; a second `Clear` returns false and changes nothing. -/
theorem C08_clear_reports (sh : Shared) (id : Nat) (hid : id < 64 * sh.words.length) :
    ((clear sh id).2 = some (.cleared false) ↔ bitAt sh.words id = false) ∧
    (bitAt sh.words id = true → 0 < sh.inuse → (clear sh id).2 = some (.cleared true)) ∧
    (bitAt sh.words id = true → (clear sh id).1.inuse = sh.inuse - 1) ∧
    (bitAt sh.words id = false → (clear sh id).1 = sh) ∧
    (∀ x, bitAt (clear sh id).1.words x = (!decide (x = id) && bitAt sh.words x)) ∧
    clear (clear sh id).1 id = ((clear sh id).1, some (.cleared false)) := by
  have hlt : id / 64 < sh.words.length := by omega
  cases hb : bitAt sh.words id
  · have h := clear_free sh id hlt hb
    rw [h]
    refine ⟨by simp, by simp, by simp, by simp, ?_, ?_⟩
    · intro x
      by_cases hx : x = id
      · subst hx; simp [hb]
      · simp [hx]
    · exact h
  · have h := clear_inuse sh id hlt hb
    have hbits : ∀ x, bitAt (clrBit sh.words id) x = (!decide (x = id) && bitAt sh.words x) :=
      fun x => bitAt_clrBit _ _ _ hlt
    rw [h]
    refine ⟨?_, ?_, by simp, by simp, hbits, ?_⟩
    · simp only []
      split <;> simp
    · intro _ hpos
      have : ¬ sh.inuse - 1 < 0 := by omega
      simp [this]
    · apply clear_free
      · simpa [length_clrBit] using hlt
      · simp [hbits]


/-! ### no false exhaustion -/

/-- `GetStream` never reports exhaustion while some id stays free for the whole duration of the
    call. The caller is looked at in isolation: its k-th atomic operation acts on `env[k]`, an
    ARBITRARY shared state with `n` words (whatever the other goroutines did in between). If the call
    returns `0, false` then every id was in use at one of those moments. (Lock-freedom only: while a
    free id keeps being snatched away the caller may retry for ever — `threadRun` then has no result.) -/
theorem C08_no_false_exhaustion (n : Nat) (hn : 0 < n) (env : List Shared)
    (hlen : ∀ sh, sh ∈ env → sh.words.length = n)
    (h : (threadRun (startPC .get) env).2 = some (.stream 0 false)) :
    ∀ id, id < 64 * n → ∃ sh, sh ∈ env ∧ bitAt sh.words id = true := by
  intro id hid
  rcases threadRun_exhausted hn env .g1 (fun _ => False) hlen trivial h id hid with h | h
  · exact h.elim
  · exact h

/-- contrapositive: an id that is free at every step of the call makes the call not fail -/
theorem C08_no_false_exhaustion_contra (n : Nat) (hn : 0 < n) (env : List Shared)
    (hlen : ∀ sh, sh ∈ env → sh.words.length = n) (id : Nat) (hid : id < 64 * n)
    (hfree : ∀ sh, sh ∈ env → bitAt sh.words id = false) :
    (threadRun (startPC .get) env).2 ≠ some (.stream 0 false) := by
  intro h
  obtain ⟨sh, hm, hb⟩ := C08_no_false_exhaustion n hn env hlen h id hid
  rw [hfree sh hm] at hb; cases hb

/-- no false exhaustion as a statement about the MACHINE, ∀ schedule of ALL threads, NO client protocol, from
    ANY state `s0` (any bitset, counter, offset word; other threads anywhere inside their calls): thread `t` calls
    `GetStream` (`s0 → s1`), then an arbitrary schedule `as` of all threads runs (`runVis`: every thread may start
    and perform any calls — acquisitions, releases of any id, double releases —; `t` itself only continues its
    call), and the next atomic operation of `t` returns `0, false`. Then every id `< NumStreams` was in use in one
    of the machine states visited between the call and its return (`vis` = the state in front of every action,
    `s2` = the state in front of the returning operation): an id that stayed free for the whole duration of the
    call does not exist. -/
theorem C08_no_false_exhaustion_run (s0 s1 s2 s3 : State) (hn : 0 < s0.sh.words.length) (t : Nat)
    (r0 : Option Ret) (as : List Action) (vis : List State)
    (hcall : step s0 (.start t .get) = some (s1, r0))
    (hns : ∀ a, a ∈ as → startsCall t a = false)
    (hrun : runVis s1 as = some (s2, vis))
    (hret : step s2 (.step t) = some (s3, some (.stream 0 false))) :
    ∀ id, id < 64 * s0.sh.words.length → ∃ s, s ∈ vis ++ [s2] ∧ bitAt s.sh.words id = true := by
  intro id hid
  -- the call: load of the offset word, nothing changes
  have h1 : s1.threads[t]? = some (.g2 s0.sh.offset) ∧ s1.sh = s0.sh := by
    simp only [step] at hcall
    split at hcall
    · rename_i hidle
      simp only [Option.some.injEq, exec, startPC, tstep, Prod.mk.injEq] at hcall
      rw [← hcall.1]
      exact ⟨by simp only []; rw [get_set hidle]; simp, rfl⟩
    · cases hcall
  rcases run_exhausted (n := s0.sh.words.length) (t := t) hn as s1 s2 s3 vis (.g2 s0.sh.offset) (fun _ => False)
      h1.1 trivial (by rw [h1.2]) hns hrun hret id hid with h | h
  · exact h.elim
  · exact h

/-- contrapositive: an id that is free in every machine state between the call and the returning operation
    makes the call not report exhaustion -/
theorem C08_no_false_exhaustion_run_contra (s0 s1 s2 s3 : State) (hn : 0 < s0.sh.words.length) (t : Nat)
    (r0 r : Option Ret) (as : List Action) (vis : List State)
    (hcall : step s0 (.start t .get) = some (s1, r0))
    (hns : ∀ a, a ∈ as → startsCall t a = false)
    (hrun : runVis s1 as = some (s2, vis))
    (hret : step s2 (.step t) = some (s3, r))
    (id : Nat) (hid : id < 64 * s0.sh.words.length)
    (hfree : ∀ s, s ∈ vis ++ [s2] → bitAt s.sh.words id = false) :
    r ≠ some (.stream 0 false) := by
  intro hr; subst hr
  obtain ⟨s, hm, hb⟩ := C08_no_false_exhaustion_run s0 s1 s2 s3 hn t r0 as vis hcall hns hrun hret id hid
  rw [hfree s hm] at hb; cases hb

/-! ### what does NOT hold on the unchanged code: `Available()` while calls are in progress

Full statement of the property text ("the available count always equals the number of
non-reserved ids not handed out"):
  `∀ reachable s, available s.sh = 64 * n - 1 - s.held.length`.
It holds when no call is in progress (`C08_count`, third part = the `_partial` form with the
excluding hypothesis "all threads idle"). In general it is off by the number of `Clear` calls that
have cleared their bit but not yet decremented the counter minus the number of `GetStream` calls that
have set their bit but not yet incremented it (`C08_count`, first part) and can even be negative: -/

def oneGet (t : Nat) : List Action := [.start t .get, .step t, .step t, .step t, .step t]

/-- 128-id generator, 2 goroutines: goroutine 0 acquires all 127 ids, calls `Clear(1)` and is
    pre-empted between the CAS and the decrement; goroutine 1 acquires id 1. -/
def cexAvailable : List Action :=
  (List.replicate 126 (oneGet 0)).flatten ++ oneGet 0 ++ [.step 0] ++ [.start 0 (.clear 1), .step 0]
    ++ oneGet 1 ++ [.step 1]

set_option maxRecDepth 100000 in
/-- … now 127 ids are handed out (0 free) and `Available()` = -1 -/
theorem C08_cex_available_transient :
    (run (initState 2 2) cexAvailable).map (fun s => (s.held.length, available s.sh)) = some (127, -1) := by
  decide

/-! ## WITHOUT the client protocol

`runAny ok` runs a schedule in which every thread may call `GetStream`, `Available` and `Clear(id)` of
ANY id at ANY time (double / stale / racing releases of one id, ids that were never handed out, the
reserved id 0, ids beyond the capacity); `ok` restricts the actions (`anyAct`: no restriction).
Events: `got id` = a `GetStream` call returned `id, true`; `released id` = a `Clear(id)` call that
flipped the bit of `id` from 1 to 0 returned (`true`, or the 'negative streams inuse' panic). -/

theorem runAny_length (ok : State → Action → Bool) (as : List Action) :
    ∀ (s : State) (evs : List Ev) (s' : State) (evs' : List Ev), runAny ok s evs as = some (s', evs') →
      s'.sh.words.length = s.sh.words.length := by
  induction as with
  | nil =>
    intro s evs s' evs' h
    simp only [runAny, Option.some.injEq, Prod.mk.injEq] at h
    rw [h.1]
  | cons a as ih =>
    intro s evs s' evs' h
    simp only [runAny] at h
    split at h
    · split at h
      · rename_i s1 r hs
        rw [ih s1 _ s' evs' h, (step_length hs).1]
      · cases h
    · cases h

/-- ∀ schedule, NO protocol, no exclusion: `inuse + #(GetStream between CAS and add) − #(Clear between
    CAS and add) = popcount − 1`; when no call is in progress `Available()` is exactly the number of
    zero bits of the bitset. -/
theorem C08_count_any (n k : Nat) (hn : 0 < n) (as : List Action) (s : State) (evs : List Ev)
    (h : runAny anyAct (initState n k) [] as = some (s, evs)) :
    s.sh.inuse + (s.threads.countP isG7 : Nat) - (s.threads.countP isC11 : Nat)
        = (countBelow (bitAt s.sh.words) (64 * n) : Nat) - 1 ∧
    ((∀ pc, pc ∈ s.threads → pc = .idle) →
        available s.sh = ((64 * n : Nat) : Int) - (countBelow (bitAt s.sh.words) (64 * n) : Nat)) := by
  have hlen : s.sh.words.length = n := by
    rw [runAny_length anyAct as _ _ _ _ h]; simp [initState, length_init]
  have hA := invA_runAny anyAct as _ _ _ _ (invN_init n k hn).1.a h
  have hc := hA.count
  rw [hlen] at hc
  refine ⟨by omega, fun hq => ?_⟩
  rw [countP_idle (f := isG7) rfl hq, countP_idle (f := isC11) rfl hq] at hc
  simp only [available, hlen]
  omega

theorem runAny_threads_length (ok : State → Action → Bool) (as : List Action) :
    ∀ (s : State) (evs : List Ev) (s' : State) (evs' : List Ev), runAny ok s evs as = some (s', evs') →
      s'.threads.length = s.threads.length := by
  induction as with
  | nil =>
    intro s evs s' evs' h
    simp only [runAny, Option.some.injEq, Prod.mk.injEq] at h
    rw [h.1]
  | cons a as ih =>
    intro s evs s' evs' h
    simp only [runAny] at h
    split at h
    · split at h
      · rename_i s1 r hs
        rw [ih s1 _ s' evs' h, (step_length hs).2]
      · cases h
    · cases h

/-- ∀ schedule, NO protocol, no exclusion: the in-use counter stays within `-(k+1) .. NumStreams-1+k` for `k`
    goroutines (it is `popcount − 1` corrected by the calls between their CAS and their add), so the `int32` of the
    code never wraps for either capacity and any realistic number of goroutines (below 2^31 − 32768): modelling it
    as an unbounded `Int` loses nothing. -/
theorem C08_counter_fits_int32 (n k : Nat) (hn : 0 < n) (as : List Action) (s : State) (evs : List Ev)
    (h : runAny anyAct (initState n k) [] as = some (s, evs)) :
    -(k : Int) - 1 ≤ s.sh.inuse ∧ s.sh.inuse ≤ ((64 * n : Nat) : Int) - 1 + k ∧
    (64 * n ≤ 32768 → k ≤ 2147450879 → -2147483648 ≤ s.sh.inuse ∧ s.sh.inuse ≤ 2147483647) := by
  have hc := (C08_count_any n k hn as s evs h).1
  have hk : s.threads.length = k := by
    rw [runAny_threads_length anyAct as _ _ _ _ h]; simp [initState]
  have h1 : s.threads.countP isG7 ≤ k := hk ▸ List.countP_le_length
  have h2 : s.threads.countP isC11 ≤ k := hk ▸ List.countP_le_length
  have h3 := countBelow_le (bitAt s.sh.words) (64 * n)
  refine ⟨by omega, by omega, fun _ _ => ⟨by omega, by omega⟩⟩

/-- ∀ schedule, NO protocol, no exclusion, from ANY state without calls in progress (fresh or pre-filled):
    for every id `x`
      #(`Clear(x)` calls that returned true) + #(`Clear(x)` between CAS and add) + [bit x]
        = #(`GetStream` calls that returned x) + #(`GetStream` calls that have set bit x and are about to
          return x) + [bit x initially];
    hence the successful releases of `x` never exceed its acquisitions (+1 if `x` was in use initially):
    of several racing `Clear(x)` at most one per acquisition returns true (double release reports false),
    and when no call is in progress the equation holds without the in-progress terms. -/
theorem C08_release_conservation (s0 : State) (hn : 0 < s0.sh.words.length)
    (hidle : ∀ pc, pc ∈ s0.threads → pc = .idle) (as : List Action) (s : State) (evs : List Ev)
    (h : runAny anyAct s0 [] as = some (s, evs)) (x : Nat) :
    evs.count (.released x) + s.threads.countP (c11x x) + b2n (bitAt s.sh.words x)
      = evs.count (.got x) + s.threads.countP (g7x x) + b2n (bitAt s0.sh.words x) ∧
    evs.count (.released x) ≤ evs.count (.got x) + s.threads.countP (g7x x) + b2n (bitAt s0.sh.words x) ∧
    ((∀ pc, pc ∈ s.threads → pc = .idle) →
      evs.count (.released x) + b2n (bitAt s.sh.words x) = evs.count (.got x) + b2n (bitAt s0.sh.words x)) := by
  have hA := invA_runAny anyAct as _ _ _ _ (invA_start s0 hn hidle) h
  have hc := hA.cons x
  refine ⟨hc, by omega, fun hq => ?_⟩
  rw [countP_idle (f := g7x x) (by simp [g7x]) hq, countP_idle (f := c11x x) (by simp [c11x]) hq] at hc
  omega

/-- `Clear` of an id whose bit is clear returns false and changes nothing (first load and every
    re-load after a failed CAS); beyond the capacity it returns false and changes nothing (fix of KF-C08-3);
    and the only steps of a `Clear` call that change the shared state are the successful CAS — whose
    compare value has the bit set (`localA`) — and the decrement after it. -/
theorem C08_clear_noop (sh : Shared) (id : Nat) :
    (id / 64 < sh.words.length → bitAt sh.words id = false →
        tstep sh (.c8 id) = (sh, .idle, some (.cleared false)) ∧
        tstep sh (.c10 id) = (sh, .idle, some (.cleared false))) ∧
    (¬ id / 64 < sh.words.length → tstep sh (.c8 id) = (sh, .idle, some (.cleared false))) ∧
    (tstep sh (.c8 id)).1 = sh ∧ (tstep sh (.c10 id)).1 = sh ∧
    (∀ b, sh.words.getD (bucketOffset id) 0 ≠ b → tstep sh (.c9 id b) = (sh, .c10 id, none)) := by
  refine ⟨?_, ?_, ?_, ?_, ?_⟩
  · intro hlt hb
    have h' : bucketOffset id < sh.words.length := hlt
    have hb' : (sh.words.getD (bucketOffset id) 0).getLsbD (streamOffset id) = false := hb
    have hne : sh.words.getD (bucketOffset id) 0 &&& mask id ≠ mask id := (and_mask_ne_mask _ _).mpr hb'
    constructor
    · simp only [tstep, h', ↓reduceIte, if_pos hne]
    · simp only [tstep, if_pos hne]
  · intro hlt
    have h' : ¬ bucketOffset id < sh.words.length := hlt
    simp only [tstep, h', ↓reduceIte]
  · simp only [tstep]
    split
    · split <;> rfl
    · rfl
  · simp only [tstep]
    split <;> rfl
  · intro b hb
    simp only [tstep, hb, ↓reduceIte]

/-- ∀ schedule, NO protocol, in which `Clear(0)` is not called: the bit of the reserved id stays set and
    every id handed out is in `1..NumStreams-1`. -/
theorem C08_reserved_and_range_any (n k : Nat) (hn : 0 < n) (as : List Action) (s : State) (evs : List Ev)
    (h : runAny noClear0 (initState n k) [] as = some (s, evs)) :
    bitAt s.sh.words 0 = true ∧ ∀ id, Ev.got id ∈ evs → 1 ≤ id ∧ id < 64 * n := by
  have hN := invN_runAny noClear0 (fun _ _ h => h) as _ _ _ _ (invN_init n k hn).1 h
  exact ⟨hN.b.reserved, hN.b.gotOk⟩

/-! Full statement of "releasing is harmless / no call panics" without the protocol:
  `∀ schedule (runAny anyAct), no step returns crashNegative, and 0 ≤ inuse`.
It does NOT hold on the unchanged code, in two exactly delimited cases:
  1. `Clear(0)` is called (`noClear0`): the reserved bit is cleared, the counter goes to −1
     (`C08_cex_clear_reserved`);
  2. the CAS of a `Clear(x)` succeeds while a `GetStream` call has set the bit of `x` again but has not
     returned yet (`rogueCAS`; only a double / stale release racing the re-acquisition of the id does
     that): the bit of an id that is being handed out is cleared, the counter is decremented before it
     was incremented (`C08_cex_double_release_negative`).
The `_partial` form excludes exactly these two kinds of actions (`calm`). -/

/-- ∀ schedule, NO protocol, without the two excluded kinds of actions: the counter never goes negative
    and no call panics with 'negative streams inuse'. -/
theorem C08_no_negative_partial (n k : Nat) (hn : 0 < n) (as : List Action) (s : State) (evs : List Ev)
    (h : runAny calm (initState n k) [] as = some (s, evs)) :
    0 ≤ s.sh.inuse ∧
    ∀ a s' r, calm s a = true → step s a = some (s', r) → r ≠ some .crashNegative := by
  obtain ⟨hN, hC⟩ := invC_runAny as _ _ _ _ (invN_init n k hn).1 (invN_init n k hn).2 h
  refine ⟨?_, fun a s' r hok hs => (invC_step hN hC hok hs).2⟩
  have := inuse_ge hN.a (by rw [hN.len]; exact hN.b) hC
  omega

/-- the values returned by the actions of a schedule -/
def retsOf : State → List Action → List (Option Ret)
  | _, [] => []
  | s, a :: as =>
    match step s a with
    | some (s', r) => r :: retsOf s' as
    | none => []

/-- 128-id generator, 3 goroutines. Goroutine 0 acquires ids 1 and 64 and releases 64 (id 1 in use,
    counter 1). Goroutine 1 calls `Clear(1)` and loads the word (bit set). Goroutine 0 calls `Clear(1)`:
    true, counter 0. Goroutine 2 calls `GetStream`; its CAS sets the bit of id 1 again; it is parked in
    front of the increment. -/
def cexDouble : List Action :=
  oneGet 0 ++ oneGet 0 ++ [.start 0 (.clear 64), .step 0, .step 0]
    ++ [.start 1 (.clear 1)]
    ++ [.start 0 (.clear 1), .step 0, .step 0]
    ++ [.start 2 .get, .step 2, .step 2, .step 2]

set_option maxRecDepth 100000 in
/-- … now the CAS of goroutine 1 (the double release) succeeds on the same word value (excluded case 2),
    its decrement panics with 'negative streams inuse'; goroutine 2 then returns id 1 although the bit
    of id 1 is clear and `Available()` = 127 = NumStreams − 1. -/
theorem C08_cex_double_release_negative :
    (runAny anyAct (initState 2 3) [] cexDouble).map (fun p => rogueCAS p.1 (.step 1)) = some true ∧
    (retsOf (initState 2 3) (cexDouble ++ [.step 1, .step 1, .step 2])).drop cexDouble.length
      = [none, some .crashNegative, some (.stream 1 true)] ∧
    (runAny anyAct (initState 2 3) [] (cexDouble ++ [.step 1, .step 1, .step 2])).map
      (fun p => (bitAt p.1.sh.words 1, available p.1.sh)) = some (false, 127) := by
  decide

/-- excluded case 1, sequentially: `Clear(0)` on a fresh 128-id generator clears the reserved bit and
    panics (counter −1, `Available()` = 128); the next `GetStream` hands out id 0. -/
theorem C08_cex_clear_reserved :
    seqTrace (init 2) [.clear 0, .get] =
      [(.clear 0, some .crashNegative, 128), (.get, some (.stream 0 true), 127)] := by
  decide

/-! ### `Clear` of something that is not an id of the generator (KF-C08-3, repaired)

Before the fix `Clear(-1..-63)` answered true and decremented the counter without clearing a bit, `Clear(-64..)` and
`Clear(id ≥ NumStreams)` panicked with an index error. The repaired code (`if stream < 0 || stream >= s.NumStreams
{ return false }`) satisfies the full statement: -/

/-- `Clear` of ANY argument outside `0..NumStreams-1` — negative (`clearNeg`, every `k`) or `≥ NumStreams` —, in
    EVERY state: answers false and changes nothing (no bit, not the counter, not the offset word); as a step of the
    concurrent machine it leaves the shared state alone and returns at once. -/
theorem C08_clear_out_of_range (sh : Shared) :
    (∀ k, clearNeg sh k = (sh, some (.cleared false))) ∧
    (∀ id, 64 * sh.words.length ≤ id →
      clear sh id = (sh, some (.cleared false)) ∧ tstep sh (.c8 id) = (sh, .idle, some (.cleared false))) := by
  refine ⟨fun _ => rfl, fun id hid => ?_⟩
  have hr : ¬ id / 64 < sh.words.length := by omega
  exact ⟨clear_oob sh id hr, (C08_clear_noop sh id).2.1 hr⟩

/-- non-vacuity: one id handed out; `Clear(-1)`, `Clear(-64)`, `Clear(128)`, `Clear(100000)` answer false and
    `Available()` stays 126 -/
example : (hTrace (init 2) [.op .get, .clearNeg 1, .clearNeg 64, .op (.clear 128), .op (.clear 100000)]).map
      (fun r => (r.2.1, r.2.2)) =
    [(some (.stream 1 true), 126), (some (.cleared false), 126), (some (.cleared false), 126),
     (some (.cleared false), 126), (some (.cleared false), 126)] := by decide

/-! ### sequential use, all op sequences -/

/-- sequential use, ALL sequences of `GetStream` / `Clear(id)` (any id ≠ 0: held, free, released twice,
    beyond the capacity) / `Available`, both capacities: every answer is allowed by the abstract id-set
    specification `specStep` — an id handed out is in `1..NumStreams-1` and was free; `GetStream` fails
    only when all `NumStreams-1` ids are handed out; `Clear` returns whether the id was handed out (false,
    nothing changes, beyond the capacity) — and after EVERY op `Available()` = `NumStreams-1-#handed
    out`. (`seqMon` is the fused form the driver runs.) -/
theorem C08_sequential_spec (n : Nat) (hn : 0 < n) (ops : List Op) (hops : ∀ op, op ∈ ops → op ≠ .clear 0) :
    specCheck (64 * n) (specInit (64 * n)) (seqTrace (init n) ops) = true ∧
    seqMon (64 * n) (init n) (specInit (64 * n)).tbl 0 ops = true := by
  have h := specInv_run hn ops hops (init n) (specInit (64 * n)).tbl 0 (specInv_init n hn)
  exact ⟨h, by rw [seqMon_eq]; exact h⟩

/-! ### any history: every value of the rotating offset word; the counter is never consulted by `GetStream` -/

/-- The word scan of `GetStream`, for EVERY value `o` of the offset word (all 2^32) and every number of
    words `nb` (1 ≤ nb ≤ 2^31; the code has 2 and 512):
    (1) the uint32 computation of the code (`scanPos32`: `(i + (o+1)%nb) % nb`, the increment wrapping at
        2^32) is the `Nat` expression `tstep` uses — in particular for `o = 2^32-1`, `2^31-1`;
    (2) the word index stays inside the bitset;
    (3) the scan `i = 0..nb-1` visits every word exactly once (some `i` reaches it, and only one). -/
theorem C08_scan_every_word_once (nb o : UInt32) (h0 : 0 < nb.toNat) (hmax : nb.toNat ≤ 2147483648) :
    (∀ i, i < nb.toNat →
        (scanPos32 nb o (UInt32.ofNat i)).toNat = (i + nextOffset nb.toNat o.toNat) % nb.toNat) ∧
    (∀ i, i < nb.toNat → (scanPos32 nb o (UInt32.ofNat i)).toNat < nb.toNat) ∧
    (∀ pos, pos < nb.toNat → ∃ i, i < nb.toNat ∧ (scanPos32 nb o (UInt32.ofNat i)).toNat = pos ∧
        ∀ i', i' < nb.toNat → (scanPos32 nb o (UInt32.ofNat i')).toNat = pos → i' = i) := by
  have hoff := nextOffset_lt h0 o.toNat
  have e := scanPos32_toNat nb o h0 hmax
  refine ⟨e, ?_, ?_⟩
  · intro i hi; rw [e i hi]; exact Nat.mod_lt _ h0
  · intro pos hpos
    obtain ⟨i, hi, hp⟩ := rot_surj hoff hpos
    refine ⟨i, hi, by rw [e i hi]; exact hp, ?_⟩
    intro i' hi' hp'
    rw [e i' hi'] at hp'
    exact rot_inj hi' hi hoff (by rw [hp', hp])

/-- A complete `GetStream` (running alone: sequentially, or inside a window in which the other goroutines are
    parked in the middle of their calls — e.g. a `Clear` between its CAS and its decrement, when the counter
    still counts an id whose bit is already clear) succeeds whenever some id is free in the bitset, for EVERY
    value of the in-use counter and EVERY value of the offset word: it consults neither to decide. -/
theorem C08_getstream_any_counter_any_offset (sh : Shared) (hn : 0 < sh.words.length)
    (x : Nat) (hx : x < 64 * sh.words.length) (hfree : bitAt sh.words x = false) :
    ∃ id, id < 64 * sh.words.length ∧ bitAt sh.words id = false ∧
      (getStream sh).2 = some (.stream id true) ∧ (getStream sh).1.words = setBit sh.words id ∧
      (getStream sh).1.inuse = sh.inuse + 1 := by
  rcases getStream_spec sh hn with ⟨id, h1, h2, h3⟩ | ⟨h1, _⟩
  · exact ⟨id, h1, h2, by rw [h3], by rw [h3], by rw [h3]⟩
  · rw [h1 x hx] at hfree; cases hfree

/-- sequential use, ALL histories: all sequences of `GetStream` / `Clear(id)` (id ≠ 0) / `Available` in which
    the offset word is set to ARBITRARY values between the calls (the state the word has after any number of
    past calls, e.g. 2^32 − k), both capacities: every answer is allowed by the abstract id-set specification
    and `Available()` = `NumStreams-1-#handed out` after every op. (`seqMonH` is the fused form the driver
    runs for `smon` lines.) -/
theorem C08_sequential_spec_any_history (n : Nat) (hn : 0 < n) (ops : List HOp) (hops : HOp.op (.clear 0) ∉ ops) :
    specCheck (64 * n) (specInit (64 * n)) (hTrace (init n) ops) = true ∧
    seqMonH (64 * n) (init n) (specInit (64 * n)).tbl 0 ops = true := by
  have h := specInv_runH hn ops hops (init n) (specInit (64 * n)).tbl 0 (specInv_init n hn)
  exact ⟨h, by rw [seqMonH_eq]; exact h⟩

/-! ### linearization of the concurrent machine to the abstract id-set specification

Full statement of the design (`C08_refines_spec`): "the concurrent object is linearizable to the abstract id set".
It does NOT hold for every operation of the unchanged code: a failing `GetStream` has no linearization point (it
saw every id in use, but at different moments — the property only asks for `C08_no_false_exhaustion`), and
`Available()` reads a counter that lags behind the bitset (`C08_cex_available_transient`). The `_partial` form
below covers every other call — `GetStream` returning an id, `Clear` returning true, false, or panicking beyond
the capacity — for ALL schedules and WITHOUT the client protocol (any goroutine may release any id ≠ 0 at any
time). -/

/-- ∀ schedule, NO client protocol (`Clear(0)` excluded): the calls with a linearization point (`lpOf`: the
    successful CAS of `GetStream` / of `Clear`, the load of `Clear` that sees the bit clear, `Clear` beyond the
    capacity), taken in the order of their linearization points with the answers they return (`C08_lp_answers`),
    form a history the sequential specification `specStep` accepts from the empty set — every id handed out was
    free and in `1..NumStreams-1`, every successful release was of an id handed out, every `false` release of a
    free id — and the specification's set at the end is the bitset without the reserved bit, its cardinality the
    number of set bits − 1. -/
theorem C08_linearizable_partial (n k : Nat) (hn : 0 < n) (as : List Action) (s : State)
    (lin : List (Op × Option Ret)) (h : runLin noClear0 (initState n k) as = some (s, lin)) :
    ∃ st, specAccepts (64 * n) (specInit (64 * n)) lin = some st ∧
      (∀ id, id < 64 * n → st.tbl.getD id false = (decide (id ≠ 0) && bitAt s.sh.words id)) ∧
      countBelow (bitAt s.sh.words) (64 * n) = 1 + st.cnt := by
  have hL0 : LinInv n (initState n k).sh.words (specInit (64 * n)).tbl 0 := linInv_init n hn
  obtain ⟨st, h1, hL⟩ := lin_run hn as (initState n k) s lin _ [] _ _ (invN_init n k hn).1 hL0 h
  exact ⟨st, h1, hL.tblOk, hL.count⟩

/-- the answer of a call is the answer of its linearization point, and the linearization point is an atomic
    operation of the call itself (so it lies between call and return): a `Clear` load that makes the call return
    `r` linearizes `(Clear id, r)`; a word CAS of `GetStream` that succeeds (changes the shared state) linearizes
    `(GetStream, id)` and leaves the thread in front of the increment after which it returns exactly `id, true`; a
    CAS of `Clear(id)` that succeeds linearizes `(Clear id, true)` and leaves the thread in front of the decrement
    after which it returns true (or panics 'negative streams inuse' — excluded cases, `C08_no_negative_partial`). -/
theorem C08_lp_answers (sh : Shared) :
    (∀ id r, (tstep sh (.c8 id)).2.2 = some r → lpOf sh (.c8 id) = [(.clear id, some r)]) ∧
    (∀ id r, (tstep sh (.c10 id)).2.2 = some r → lpOf sh (.c10 id) = [(.clear id, some r)]) ∧
    (∀ off i j b, (lpOf sh (.g5 off i j b) ≠ [] ∨ (tstep sh (.g5 off i j b)).1 ≠ sh) →
        ∃ id, lpOf sh (.g5 off i j b) = [(.get, some (.stream id true))] ∧ (tstep sh (.g5 off i j b)).2.1 = .g7 id ∧
          ∀ sh', (tstep sh' (.g7 id)).2.2 = some (.stream id true)) ∧
    (∀ id b, (lpOf sh (.c9 id b) ≠ [] ∨ (tstep sh (.c9 id b)).1 ≠ sh) →
        lpOf sh (.c9 id b) = [(.clear id, some (.cleared true))] ∧ (tstep sh (.c9 id b)).2.1 = .c11 id ∧
          ∀ sh', (tstep sh' (.c11 id)).2.2 = some (.cleared true) ∨ (tstep sh' (.c11 id)).2.2 = some .crashNegative) :=
  lp_answers sh

/-- counterexample to the full statement: a failing `GetStream` with no linearization point. 128-id generator,
    ids 1 and 64 free. Thread 0 calls `GetStream`... (kernel-checked below): thread 0 scans word 0 while only id 64
    (word 1) is free, then thread 1 releases id 1 and acquires id 64, then thread 0 scans word 1: it reports
    exhaustion although at EVERY moment of its call some id was free — no single moment at which the sequential
    specification would allow `0, false`. -/
def linCexState : State :=
  { sh := { words := [allOnes, allOnes &&& ~~~ mask 64], inuse := 126, offset := 1 },
    threads := [.idle, .idle], held := [] }
def linCexSched : List Action :=
  [.start 0 .get, .step 0, .step 0,                       -- thread 0: offset load, offset CAS, word 0 loaded: full
   .start 1 (.clear 1), .step 1, .step 1,                 -- thread 1: Clear(1) → true (id 1 free, word 0)
   .start 1 .get, .step 1, .step 1, .step 1, .step 1,     -- thread 1: GetStream → 64 (its scan starts at word 1)
   .step 0]                                               -- thread 0: word 1 loaded: full → 0, false

set_option maxRecDepth 100000 in
theorem C08_cex_failing_get_not_linearizable :
    retsOf linCexState linCexSched =
      [none, none, none, none, none, some (.cleared true), none, none, none, none, some (.stream 64 true),
       some (.stream 0 false)] ∧
    -- at every moment of the run at least one non-reserved id is free
    ((runVis linCexState linCexSched).map (fun p => (p.2 ++ [p.1]).all (fun s =>
        decide (countBelow (bitAt s.sh.words) 128 < 128)))) = some true := by
  decide

/-! ### the capacity belongs to the protocol version -/

/-- for EVERY protocol version the generator `New(protocol)` builds (`wordsOfProto` words) has exactly the capacity
    the property prescribes (`specCap`: 128 ids for v1-2, 32768 ids for v3+, written from the property text):
    `NumStreams`, and `Available()` of the fresh generator = 127 / 32767. -/
theorem C08_capacity_by_protocol (proto : Nat) :
    0 < wordsOfProto proto ∧ (init (wordsOfProto proto)).numStreams = specCap proto ∧
    available (init (wordsOfProto proto)) = ((specCap proto - 1 : Nat) : Int) ∧
    (proto ≤ 2 → specCap proto = 128) ∧ (2 < proto → specCap proto = 32768) := by
  have hlen : ∀ n, (init n).words.length = n := length_init
  have hns : ∀ n, (init n).numStreams = 64 * n := fun n => by simp only [Shared.numStreams, hlen]
  have hav : ∀ n, available (init n) = ((64 * n : Nat) : Int) - 0 - 1 := fun n => by
    simp only [available, hlen]; rfl
  rw [hns, hav]
  by_cases h : proto ≤ 2
  · have h' : ¬ proto > 2 := by omega
    simp only [wordsOfProto, specCap, h, h', ↓reduceIte]
    refine ⟨by decide, by decide, by decide, ?_, ?_⟩ <;> intros <;> first | trivial | omega
  · have h' : proto > 2 := by omega
    simp only [wordsOfProto, specCap, h, h', ↓reduceIte]
    refine ⟨by decide, by decide, by decide, ?_, ?_⟩ <;> intros <;> first | trivial | omega

/-- ∀ protocol version, ∀ schedule (client protocol): every id handed out is in 1..127 for v1-2 and in 1..32767 for
    v3+ — the range of the PROTOCOL VERSION, not of whatever bitset the generator happens to have. -/
theorem C08_range_by_protocol (proto k : Nat) (s : State) (h : Reachable (wordsOfProto proto) k s) :
    (∀ id, id ∈ s.held → 1 ≤ id ∧ id < specCap proto ∧ (proto ≤ 2 → id ≤ 127) ∧ (2 < proto → id ≤ 32767)) ∧
    (∀ a s' id, legal s a = true → step s a = some (s', some (.stream id true)) →
        1 ≤ id ∧ id < specCap proto ∧ (proto ≤ 2 → id ≤ 127) ∧ (2 < proto → id ≤ 32767)) := by
  obtain ⟨hn, hcap, _, h1, h2⟩ := C08_capacity_by_protocol proto
  have hc : 64 * wordsOfProto proto = specCap proto := by
    rw [← hcap]; simp only [Shared.numStreams, length_init]
  obtain ⟨_, hheld, hstep⟩ := C08_reserved_and_range (wordsOfProto proto) k hn s h
  refine ⟨fun id hid => ?_, fun a s' id hl hs => ?_⟩
  · have := hheld id hid
    refine ⟨this.1, by omega, fun hp => ?_, fun hp => ?_⟩
    · have := h1 hp; omega
    · have := h2 hp; omega
  · have := (hstep a s' id true hl hs).1 rfl
    refine ⟨this.1, by omega, fun hp => ?_, fun hp => ?_⟩
    · have := h1 hp; omega
    · have := h2 hp; omega

/-- sequential use, ALL histories (offset presets included), EVERY protocol version: the model of `New(protocol)`
    satisfies the abstract id-set specification instantiated with the capacity of the protocol version
    (`specCap`). This is what the driver runs for `smon <proto> …` lines; the harness judges the real code by the
    same specification with the same, protocol-given capacity. -/
theorem C08_sequential_spec_by_protocol (proto : Nat) (ops : List HOp) (hops : HOp.op (.clear 0) ∉ ops) :
    specCheck (specCap proto) (specInit (specCap proto)) (hTrace (init (wordsOfProto proto)) ops) = true ∧
    seqMonH (specCap proto) (init (wordsOfProto proto)) (specInit (specCap proto)).tbl 0 ops = true := by
  obtain ⟨hn, hcap, _⟩ := C08_capacity_by_protocol proto
  have hc : 64 * wordsOfProto proto = specCap proto := by
    rw [← hcap]; simp only [Shared.numStreams, length_init]
  rw [← hc]
  exact C08_sequential_spec_any_history (wordsOfProto proto) hn ops hops

/-! ### non-vacuity -/

/-- the capacities: protocol 2 is the last small one, protocol 3 the first large one; the specification with the
    capacity of protocol 2 rejects an id above 127 -/
example : specCap 2 = 128 ∧ specCap 3 = 32768 ∧ wordsOfProto 2 = 2 ∧ wordsOfProto 3 = 512 ∧
    specCheck (specCap 2) (specInit (specCap 2)) [(.get, some (.stream 128 true), 126)] = false := by decide

/-- the scan across the wrap of the offset word: offset = 2^32-1, two words: the scan starts at word 0 -/
example : scanPos32 2 4294967295 0 = 0 ∧ scanPos32 2 4294967295 1 = 1 ∧
    scanPos32 512 4294967294 0 = 511 ∧ scanPos32 512 4294967294 1 = 0 := by decide

/-- a history with the offset word at 2^32-1: the model hands out id 1 (word 0), then id 64 (word 1) -/
example : (hTrace (init 2) [.setOffset 4294967295, .op .get, .op .get]).map (fun r => r.2.1) =
    [some (.stream 1 true), some (.stream 64 true)] := by decide

/-- the window of `C08_getstream_any_counter_any_offset`: all 127 ids handed out, a `Clear(1)` between its CAS
    and its decrement (bit clear, counter still 127): a complete `GetStream` returns id 1 -/
example : let sh : Shared := { words := [allOnes &&& ~~~ mask 1, allOnes], inuse := 127, offset := 1 }
    (getStream sh).2 = some (.stream 1 true) := by decide

/-- the hypothesis of `C08_no_false_exhaustion` is satisfiable: a full generator -/
example : let full : Shared := { words := [allOnes, allOnes], inuse := 127, offset := 1 }
    (threadRun (startPC .get) [full, full, full, full]).2 = some (.stream 0 false) := by decide

/-- the hypotheses of `C08_no_false_exhaustion_run` are satisfiable: 128-id generator, id 127 free; thread 0 calls
    `GetStream` and is parked in front of its CAS on bit 127; thread 1 acquires id 127 in the meantime; thread 2
    calls `GetStream` in between and its last operation reports exhaustion … -/
def fexState : State :=
  { sh := { words := [allOnes, allOnes &&& ~~~ mask 127], inuse := 126, offset := 1 },
    threads := [.idle, .idle, .idle], held := [] }
def fexSched : List Action := [.step 2, .start 1 .get, .step 1, .step 1, .step 1, .step 2]

example : (∀ a, a ∈ fexSched → startsCall 2 a = false) ∧
    ((step fexState (.start 2 .get)).bind (fun p => (runVis p.1 fexSched).bind (fun q =>
      (step q.1 (.step 2)).map (fun x => (q.2.length, x.2))))) = some (6, some (.stream 0 false)) := by
  decide

/-- `C08_sequential_spec` is not vacuous: the specification rejects a false exhaustion and a wrong
    `Clear` result -/
example : specCheck 8 (specInit 8) [(.get, some (.stream 0 false), 7)] = false ∧
    specCheck 8 (specInit 8) [(.clear 5, some (.cleared true), 7)] = false ∧
    specCheck 8 (specInit 8) [(.get, some (.stream 3 true), 6), (.get, some (.stream 3 true), 5)] = false ∧
    specCheck 8 (specInit 8) [(.get, some (.stream 3 true), 6), (.clear 3, some (.cleared true), 7),
      (.clear 3, some (.cleared false), 7)] = true := by decide

set_option maxRecDepth 100000 in
/-- `C08_linearizable_partial` on the schedule of the excluded double release (allowed here: only `Clear(0)` is
    excluded): the linearization is get 1, get 64, release 64, release 1, get 1 (re-acquisition), release 1 (the
    stale double release, successful because the id was handed out again) — accepted by the specification -/
example : (runLin noClear0 (initState 2 3) (cexDouble ++ [.step 1])).map (fun p => p.2) =
    some [(.get, some (.stream 1 true)), (.get, some (.stream 64 true)), (.clear 64, some (.cleared true)),
          (.clear 1, some (.cleared true)), (.get, some (.stream 1 true)), (.clear 1, some (.cleared true))] := by
  decide

set_option maxRecDepth 100000 in
/-- … and the specification rejects a history in which an id is handed out twice without a release in between -/
example : (specAccepts 128 (specInit 128) [(.get, some (.stream 5 true)), (.get, some (.stream 5 true))]).isSome = false ∧
    (specAccepts 128 (specInit 128) [(.get, some (.stream 5 true)), (.clear 5, some (.cleared true)),
      (.get, some (.stream 5 true))]).isSome = true := by decide

/-- `C08_counter_fits_int32`: the lower bound is approached — after the excluded double release the counter is −1 -/
example : (runAny anyAct (initState 2 3) [] (cexDouble ++ [.step 1, .step 1])).map (fun p => p.1.sh.inuse) = some (-1) := by
  decide

/-- the schedules of `C08_no_negative_partial` include racing double releases: two goroutines `Clear(1)` -/
example : (runAny calm (initState 2 2) [] (oneGet 0 ++ [.start 0 (.clear 1), .start 1 (.clear 1), .step 0, .step 1,
    .step 0, .step 1])).isSome = true := by decide

/-- the machine runs: two threads race for ids on the 128-id generator -/
example : (run (initState 2 2) [.start 0 .get, .start 1 .get, .step 0, .step 1, .step 1, .step 1, .step 0]).isSome = true := by
  decide

end C08
