import Model.Streams
namespace C08
open Streams

/-- the reserved id 0 is marked in use by `New` -/
theorem C08_init_reserved (n : Nat) (hn : 0 < n) : bitAt (init n).words 0 = true := by
  cases n with
  | zero => omega
  | succ m => simp [init, bitAt, List.replicate_succ, mask, streamOffset]

end C08
