import Model.PagingHist
import Proofs.C15Paging
/-! helper lemmas for the history model of C15 (`Model/PagingHist.lean`): what an iterator WILL still
    deliver (`fut`) plus what it has delivered (`out`, `reqs`) is an invariant of every step of every
    history, and equals the result of running its snapshot alone (`Paging.run`). -/
namespace Paging.Hist
open Paging

/-- rows, QUERY/EXECUTE requests (PREPAREs dropped: whether one is needed depends on what ran before on
    the session), final error -/
def obs3 (o : Out) : List Int × List Req × Option Fail := (o.rows, o.reqs.filter Req.isExec, o.err)

/-- what draining page `p` (from its position) and then its chain delivers -/
def futPage (ppOf : Int → Nat → Nat) (p : Iter) (rest : List Reply) : Out :=
  match p.err with
  | some f => ⟨[], [], some f⟩
  | none =>
    match p.next with
    | none => ⟨p.rows.drop p.pos, [], none⟩
    | some n =>
      let o := run (ppOf n.qry.pf) rest true n.qry
      ⟨p.rows.drop p.pos ++ o.rows, o.reqs, o.err⟩

/-- what draining iterator `it` from here delivers (contexts alive) -/
def fut (ppOf : Int → Nat → Nat) (it : It) : Out :=
  match it.pre with
  | none => futPage ppOf it.cur it.rest
  | some nx =>
    match it.cur.err with
    | some f => ⟨[], [], some f⟩
    | none =>
      match it.cur.next with
      | none => ⟨it.cur.rows.drop it.cur.pos, [], none⟩
      | some _ =>
        let o := futPage ppOf nx it.rest
        ⟨it.cur.rows.drop it.cur.pos ++ o.rows, o.reqs, o.err⟩

/-- delivered so far ++ still to come -/
def tot (ppOf : Int → Nat → Nat) (it : It) : List Int × List Req × Option Fail :=
  (it.out ++ (fut ppOf it).rows, (it.reqs ++ (fut ppOf it).reqs).filter Req.isExec, (fut ppOf it).err)

/-- the snapshot run alone against the node's answers to it -/
def target (ppOf : Int → Nat → Nat) (it : It) : List Int × List Req × Option Fail :=
  obs3 (run (ppOf it.snap.pf) it.script false it.snap)

theorem filter_prep_nil (c : Bool) (q : Qry) : (prep c q).filter Req.isExec = [] := by
  unfold prep; split <;> simp [Req.isExec]

theorem filter_prep (c : Bool) (q : Qry) (l : List Req) :
    (prep c q ++ l).filter Req.isExec = l.filter Req.isExec := by
  rw [List.filter_append, filter_prep_nil, List.nil_append]

/-- the prepared-cache flag only decides about PREPAREs -/
theorem run_obs3_cached (pp : Nat → Nat) (script : List Reply) (c c' : Bool) (q : Qry) :
    obs3 (run pp script c q) = obs3 (run pp script c' q) := by
  cases script with
  | nil => simp [run, obs3, filter_prep_nil]
  | cons r rest =>
    cases r with
    | unprepared => simp [run, obs3, filter_prep_nil]
    | fail f => simp [run, obs3, filter_prep_nil]
    | page rows st =>
      simp only [run]
      cases (pageIter pp q rows st).next <;> simp [obs3, filter_prep_nil]

/-- `run` = one executeQuery, then the drain of the page it returned -/
theorem run_connExec (ppOf : Int → Nat → Nat) : ∀ (script : List Reply) (c : Bool) (q : Qry),
    run (ppOf q.pf) script c q =
      ⟨(futPage ppOf (connExec (ppOf q.pf) script c q).iter (connExec (ppOf q.pf) script c q).rest).rows,
       (connExec (ppOf q.pf) script c q).reqs ++ (futPage ppOf (connExec (ppOf q.pf) script c q).iter (connExec (ppOf q.pf) script c q).rest).reqs,
       (futPage ppOf (connExec (ppOf q.pf) script c q).iter (connExec (ppOf q.pf) script c q).rest).err⟩ := by
  intro script
  induction script with
  | nil => intro c q; simp [run, connExec, futPage, errIter]
  | cons r rest ih =>
    intro c q
    cases r with
    | unprepared =>
      have h := ih false q
      simp only [run, connExec]
      rw [h]
      simp [List.append_assoc]
    | fail f => simp [run, connExec, futPage, errIter]
    | page rows st =>
      cases st with
      | none => simp [run, connExec, futPage, pageIter]
      | some s =>
        cases hd : q.disableAutoPage <;> simp [run, connExec, futPage, pageIter, hd]

theorem callerDead_nil (e : Env) (h : e.cancelled = []) (c : Option Nat) : callerDead e c = false := by
  cases c <;> simp [callerDead, h]

/-- no caller context cancelled ⇒ the executor (either path) runs conn.executeQuery -/
theorem sessExec_alive (ppOf : Int → Nat → Nat) (e : Env) (h : e.cancelled = []) (script : List Reply) (q : Qry) :
    (sessExec ppOf e script q).1 = connExec (ppOf q.pf) script e.cached q ∧
    (sessExec ppOf e script q).2.cancelled = [] := by
  unfold sessExec
  by_cases hs : (q.idem && decide (0 < q.spec)) = true
  · simp [hs, dead, callerDead_nil e h, h]
  · simp [hs, dead, callerDead_nil e h, h]

/-- what a step may change of an iterator without changing what the application will have seen in the end -/
def Same (ppOf : Int → Nat → Nat) (a b : It) : Prop :=
  tot ppOf a = tot ppOf b ∧ a.snap = b.snap ∧ a.script = b.script

theorem Same.rfl' (ppOf : Int → Nat → Nat) (a : It) : Same ppOf a a := ⟨rfl, rfl, rfl⟩

theorem Same.trans' {ppOf : Int → Nat → Nat} {a b c : It} (h1 : Same ppOf a b) (h2 : Same ppOf b c) : Same ppOf a c :=
  ⟨h1.1.trans h2.1, h1.2.1.trans h2.2.1, h1.2.2.trans h2.2.2⟩

theorem force_eq (ppOf : Int → Nat → Nat) (e : Env) (it : It) (n : NextIter)
    (he : it.cur.err = none) (hp : it.pre = none) (hn : it.cur.next = some n) :
    force ppOf e it =
      ({ it with pre := some (sessExec ppOf e it.rest n.qry).1.iter, rest := (sessExec ppOf e it.rest n.qry).1.rest,
                 reqs := it.reqs ++ (sessExec ppOf e it.rest n.qry).1.reqs }, (sessExec ppOf e it.rest n.qry).2) := by
  simp [force, he, hp, hn]

theorem force_noop (ppOf : Int → Nat → Nat) (e : Env) (it : It)
    (h : it.cur.err ≠ none ∨ it.pre ≠ none ∨ it.cur.next = none) : force ppOf e it = (it, e) := by
  unfold force
  cases he : it.cur.err <;> cases hp : it.pre <;> cases hn : it.cur.next <;> simp_all

theorem futPage_next (ppOf : Int → Nat → Nat) (p : Iter) (rest : List Reply) (n : NextIter)
    (he : p.err = none) (hn : p.next = some n) :
    futPage ppOf p rest = ⟨p.rows.drop p.pos ++ (run (ppOf n.qry.pf) rest true n.qry).rows,
      (run (ppOf n.qry.pf) rest true n.qry).reqs, (run (ppOf n.qry.pf) rest true n.qry).err⟩ := by
  simp [futPage, he, hn]

theorem force_same (ppOf : Int → Nat → Nat) (e : Env) (h : e.cancelled = []) (it : It) :
    Same ppOf (force ppOf e it).1 it ∧ (force ppOf e it).2.cancelled = [] ∧ (force ppOf e it).1.cur = it.cur := by
  by_cases hc : it.cur.err ≠ none ∨ it.pre ≠ none ∨ it.cur.next = none
  · rw [force_noop ppOf e it hc]; exact ⟨Same.rfl' ppOf it, h, rfl⟩
  · have he : it.cur.err = none := by
      cases hh : it.cur.err with
      | none => rfl
      | some f => exact absurd (Or.inl (by simp [hh])) hc
    have hp : it.pre = none := by
      cases hh : it.pre with
      | none => rfl
      | some f => exact absurd (Or.inr (Or.inl (by simp [hh]))) hc
    obtain ⟨n, hn⟩ : ∃ n, it.cur.next = some n := by
      cases hh : it.cur.next with
      | none => exact absurd (Or.inr (Or.inr hh)) hc
      | some n => exact ⟨n, rfl⟩
    rw [force_eq ppOf e it n he hp hn]
    have ha := sessExec_alive ppOf e h it.rest n.qry
    refine ⟨⟨?_, rfl, rfl⟩, ha.2, rfl⟩
    have h1 := run_connExec ppOf it.rest e.cached n.qry
    have h3 := run_obs3_cached (ppOf n.qry.pf) it.rest true e.cached n.qry
    rw [h1] at h3
    simp only [obs3, Prod.mk.injEq] at h3
    have hold : fut ppOf it = ⟨it.cur.rows.drop it.cur.pos ++ (run (ppOf n.qry.pf) it.rest true n.qry).rows,
        (run (ppOf n.qry.pf) it.rest true n.qry).reqs, (run (ppOf n.qry.pf) it.rest true n.qry).err⟩ := by
      simp only [fut, hp]; exact futPage_next ppOf it.cur it.rest n he hn
    rw [ha.1]
    generalize connExec (ppOf n.qry.pf) it.rest e.cached n.qry = F at h3 ⊢
    have hnew : fut ppOf { it with pre := some F.iter, rest := F.rest, reqs := it.reqs ++ F.reqs } =
        ⟨it.cur.rows.drop it.cur.pos ++ (futPage ppOf F.iter F.rest).rows, (futPage ppOf F.iter F.rest).reqs,
         (futPage ppOf F.iter F.rest).err⟩ := by
      simp only [fut, he, hn]
    simp only [tot, hold, hnew, Prod.mk.injEq]
    refine ⟨?_, ?_, ?_⟩
    · rw [h3.1]
    · rw [List.filter_append, List.filter_append, List.filter_append, h3.2.1, List.filter_append, List.append_assoc]
    · rw [h3.2.2]

theorem drop_of_getElem?_none {α} (l : List α) (n : Nat) (h : l[n]? = none) : l.drop n = [] := by
  rw [List.getElem?_eq_none_iff] at h
  exact List.drop_eq_nil_of_le h

theorem scanF_same (ppOf : Int → Nat → Nat) : ∀ (k : Nat) (e : Env) (it : It), e.cancelled = [] →
    Same ppOf (scanF ppOf k e it).1 it ∧ (scanF ppOf k e it).2.1.cancelled = [] := by
  intro k
  induction k with
  | zero => intro e it h; simp [scanF, Same, h]
  | succ k ih =>
    intro e it h
    unfold scanF
    cases hs : scanRow it.cur with
    | some rc =>
      obtain ⟨r, c'⟩ := rc
      simp only []
      refine ⟨⟨?_, rfl, rfl⟩, h⟩
      -- a row of the current page
      unfold scanRow at hs
      cases he : it.cur.err with
      | some f => simp [he] at hs
      | none =>
        simp only [he] at hs
        cases hr : it.cur.rows[it.cur.pos]? with
        | none => simp [hr] at hs
        | some r' =>
          simp only [hr, Option.some.injEq, Prod.mk.injEq] at hs
          obtain ⟨h1, h2⟩ := hs
          subst h1; subst h2
          have hlt : it.cur.pos < it.cur.rows.length := by
            rcases Nat.lt_or_ge it.cur.pos it.cur.rows.length with h | h
            · exact h
            · rw [List.getElem?_eq_none_iff.2 h] at hr; cases hr
          have hd : it.cur.rows.drop it.cur.pos = r' :: it.cur.rows.drop (it.cur.pos + 1) := by
            rw [List.drop_eq_getElem_cons hlt]
            congr 1
            rw [List.getElem?_eq_getElem hlt] at hr
            exact Option.some.inj hr
          simp only [tot, fut, futPage, he, Prod.mk.injEq]
          cases it.pre <;> cases it.cur.next <;> simp [hd]
    | none =>
      simp only []
      cases he : it.cur.err with
      | some f => simp [Same, h]
      | none =>
        simp only []
        cases hn : it.cur.next with
        | none => simp [Same, h]
        | some n =>
          simp only []
          have hf := force_same ppOf e h it
          cases hp : (force ppOf e it).1.pre with
          | none => exact ⟨hf.1, hf.2.1⟩
          | some nx =>
            simp only []
            have hi := ih (force ppOf e it).2 { (force ppOf e it).1 with cur := nx, pre := none } hf.2.1
            have hsw : Same ppOf { (force ppOf e it).1 with cur := nx, pre := none } (force ppOf e it).1 := by
              refine ⟨?_, rfl, rfl⟩
              -- the page switch: the current page has no row left
              have hrow : it.cur.rows[it.cur.pos]? = none := by
                unfold scanRow at hs
                simp only [he] at hs
                cases hr : it.cur.rows[it.cur.pos]? with
                | none => rfl
                | some r' => simp [hr] at hs
              have hd := drop_of_getElem?_none _ _ hrow
              simp only [tot, fut, hp, hf.2.2, he, hn, hd, List.nil_append]
            exact ⟨Same.trans' hi.1 (Same.trans' hsw hf.1), hi.2⟩

theorem scanN_same (ppOf : Int → Nat → Nat) : ∀ (n : Nat) (e : Env) (it : It), e.cancelled = [] →
    Same ppOf (scanN ppOf n e it).1 it ∧ (scanN ppOf n e it).2.cancelled = [] := by
  intro n
  induction n with
  | zero => intro e it h; simp [scanN, Same, h]
  | succ n ih =>
    intro e it h
    unfold scanN
    have hs := scanF_same ppOf (scanFuel it) e it h
    simp only []
    split
    · have hi := ih (scanF ppOf (scanFuel it) e it).2.1 (scanF ppOf (scanFuel it) e it).1 hs.2
      exact ⟨Same.trans' hi.1 hs.1, hi.2⟩
    · exact hs

/-- the invariant of histories without cancellation -/
def Inv (ppOf : Int → Nat → Nat) (w : World) : Prop :=
  w.env.cancelled = [] ∧ ∀ it ∈ w.its, tot ppOf it = target ppOf it

def noCancel : Step → Prop
  | .cancel _ => False
  | _ => True

theorem target_of_same {ppOf : Int → Nat → Nat} {a b : It} (h : Same ppOf a b) : target ppOf a = target ppOf b := by
  unfold target; rw [h.2.1, h.2.2]

theorem inv_set (ppOf : Int → Nat → Nat) (w : World) (i : Nat) (it x : It) (e' : Env)
    (hw : Inv ppOf w) (hi : w.its[i]? = some it) (hx : Same ppOf x it) (he : e'.cancelled = []) :
    Inv ppOf { w with its := w.its.set i x, env := e' } := by
  refine ⟨he, ?_⟩
  intro y hy
  rcases List.mem_or_eq_of_mem_set hy with hm | rfl
  · exact hw.2 y hm
  · have hmem : it ∈ w.its := List.mem_of_getElem? hi
    rw [hx.1, target_of_same hx]
    exact hw.2 it hmem

/-- a new iterator will deliver exactly what its snapshot, run alone, delivers -/
theorem startIter_inv (srv : Nat → Bytes → List Reply) (ppOf : Int → Nat → Nat) (e : Env) (h : e.cancelled = []) (q : Qry) :
    tot ppOf (startIter srv ppOf e q).1 = target ppOf (startIter srv ppOf e q).1 ∧
    (startIter srv ppOf e q).2.cancelled = [] := by
  have ha := sessExec_alive ppOf e h (srv q.ident q.pageState) q
  refine ⟨?_, ha.2⟩
  have h1 := run_connExec ppOf (srv q.ident q.pageState) e.cached q
  have h3 := run_obs3_cached (ppOf q.pf) (srv q.ident q.pageState) false e.cached q
  rw [h1] at h3
  simp only [startIter, tot, target, fut, ha.1, List.nil_append]
  rw [h3]
  simp [obs3]

theorem step_inv (srv : Nat → Bytes → List Reply) (ppOf : Int → Nat → Nat) (w : World) (s : Step)
    (hw : Inv ppOf w) (hs : noCancel s) : Inv ppOf (step srv ppOf w s) := by
  cases s with
  | cancel c => exact absurd hs (by simp [noCancel])
  | iter c =>
    have hsi := startIter_inv srv ppOf w.env hw.1 (iterQry w.obj c)
    refine ⟨hsi.2, ?_⟩
    intro y hy
    simp only [step] at hy
    rcases List.mem_append.1 hy with hm | hm
    · exact hw.2 y hm
    · simp only [List.mem_singleton] at hm
      subst hm
      exact hsi.1
  | scan i n =>
    simp only [step]
    cases hi : w.its[i]? with
    | none => exact hw
    | some it =>
      have h := scanN_same ppOf n w.env it hw.1
      exact inv_set ppOf w i it _ _ hw hi h.1 h.2
  | prefetched i =>
    simp only [step]
    cases hi : w.its[i]? with
    | none => exact hw
    | some it =>
      have h := force_same ppOf w.env hw.1 it
      exact inv_set ppOf w i it _ _ hw hi h.1 h.2.1
  | _ => exact hw

theorem exec_inv (srv : Nat → Bytes → List Reply) (ppOf : Int → Nat → Nat) : ∀ (h : List Step) (w : World),
    Inv ppOf w → (∀ s ∈ h, noCancel s) → Inv ppOf (exec srv ppOf w h) := by
  intro h
  induction h with
  | nil => intro w hw _; exact hw
  | cons s rest ih =>
    intro w hw hs
    exact ih _ (step_inv srv ppOf w s hw (hs s (by simp))) (fun x hx => hs x (by simp [hx]))

/-- an iterator that has ended has nothing to come -/
theorem tot_finished (ppOf : Int → Nat → Nat) (it : It) (h : finished it) :
    tot ppOf it = (it.out, it.reqs.filter Req.isExec, it.cur.err) := by
  unfold finished at h
  rcases h with h | ⟨hr, hn⟩
  · cases he : it.cur.err with
    | none => simp [he] at h
    | some f => cases hp : it.pre <;> simp [tot, fut, futPage, he, hp]
  · have hd := drop_of_getElem?_none _ _ hr
    cases he : it.cur.err <;> cases hp : it.pre <;> simp [tot, fut, futPage, he, hp, hn, hd]

/-- conn.executeQuery's next-page query: the executed query with only the paging state replaced -/
theorem connExec_next_copy (pp : Nat → Nat) : ∀ (script : List Reply) (c : Bool) (q : Qry) (n : NextIter),
    (connExec pp script c q).iter.next = some n → n.qry = { q with pageState := n.qry.pageState } := by
  intro script
  induction script with
  | nil => intro c q n hn; simp [connExec, errIter] at hn
  | cons r rest ih =>
    intro c q n hn
    cases r with
    | unprepared => exact ih false q n (by simpa [connExec] using hn)
    | fail f => simp [connExec, errIter] at hn
    | page rows st =>
      cases st with
      | none => simp [connExec, pageIter] at hn
      | some s =>
        cases hd : q.disableAutoPage with
        | true => simp [connExec, pageIter, hd] at hn
        | false =>
          simp only [connExec, pageIter, hd, Bool.false_eq_true, if_false, Option.some.injEq] at hn
          subst hn; rfl

theorem force_snap (ppOf : Int → Nat → Nat) (e : Env) (it : It) :
    (force ppOf e it).1.snap = it.snap ∧ (force ppOf e it).1.script = it.script := by
  unfold force
  cases it.cur.err <;> cases it.pre <;> cases it.cur.next <;> exact ⟨rfl, rfl⟩

theorem scanF_snap (ppOf : Int → Nat → Nat) : ∀ (k : Nat) (e : Env) (it : It),
    (scanF ppOf k e it).1.snap = it.snap ∧ (scanF ppOf k e it).1.script = it.script := by
  intro k
  induction k with
  | zero => intro e it; exact ⟨rfl, rfl⟩
  | succ k ih =>
    intro e it
    unfold scanF
    cases scanRow it.cur with
    | some rc => exact ⟨rfl, rfl⟩
    | none =>
      simp only []
      cases it.cur.err with
      | some f => exact ⟨rfl, rfl⟩
      | none =>
        simp only []
        cases it.cur.next with
        | none => exact ⟨rfl, rfl⟩
        | some n =>
          simp only []
          have hf := force_snap ppOf e it
          cases hp : (force ppOf e it).1.pre with
          | none => exact hf
          | some nx =>
            simp only []
            have hi := ih (force ppOf e it).2 { (force ppOf e it).1 with cur := nx, pre := none }
            exact ⟨hi.1.trans hf.1, hi.2.trans hf.2⟩

theorem scanN_snap (ppOf : Int → Nat → Nat) : ∀ (n : Nat) (e : Env) (it : It),
    (scanN ppOf n e it).1.snap = it.snap ∧ (scanN ppOf n e it).1.script = it.script := by
  intro n
  induction n with
  | zero => intro e it; exact ⟨rfl, rfl⟩
  | succ n ih =>
    intro e it
    unfold scanN
    have hs := scanF_snap ppOf (scanFuel it) e it
    simp only []
    split
    · have hi := ih (scanF ppOf (scanFuel it) e it).2.1 (scanF ppOf (scanFuel it) e it).1
      exact ⟨hi.1.trans hs.1, hi.2.trans hs.2⟩
    · exact hs

/-! ### the fuel of `scanF` is enough: a Scan that returns false has really ended the iterator -/

theorem connExec_progress (pp : Nat → Nat) : ∀ (script : List Reply) (c : Bool) (q : Qry),
    (connExec pp script c q).rest.length < script.length ∨ (connExec pp script c q).iter.err.isSome = true := by
  intro script
  induction script with
  | nil => intro c q; right; simp [connExec, errIter]
  | cons r rest ih =>
    intro c q
    cases r with
    | unprepared =>
      rcases ih false q with h | h
      · left; simp only [connExec, List.length_cons]; omega
      · right; simpa [connExec] using h
    | fail f => left; simp [connExec]
    | page rows st => left; simp [connExec]

/-- either executor path: nothing sent and `context canceled` if the caller's context is done, otherwise
    conn.executeQuery of the unchanged query -/
theorem sessExec_fst (ppOf : Int → Nat → Nat) (e : Env) (script : List Reply) (q : Qry) :
    (sessExec ppOf e script q).1 =
      (if callerDead e q.ctx then ⟨errIter .ctx, script, []⟩ else connExec (ppOf q.pf) script e.cached q) := by
  unfold sessExec
  by_cases hs : (q.idem && decide (0 < q.spec)) = true <;> cases hd : callerDead e q.ctx <;> simp [hs, dead, hd]

theorem sessExec_progress (ppOf : Int → Nat → Nat) (e : Env) (script : List Reply) (q : Qry) :
    (sessExec ppOf e script q).1.rest.length < script.length ∨ (sessExec ppOf e script q).1.iter.err.isSome = true := by
  rw [sessExec_fst]
  split
  · right; simp [errIter]
  · exact connExec_progress _ script e.cached q

theorem scanF_false_finished (ppOf : Int → Nat → Nat) : ∀ (k : Nat) (e : Env) (it : It),
    (it.rest.length + (if it.pre.isSome then 1 else 0) + 2 ≤ k ∨ (1 ≤ k ∧ it.cur.err.isSome = true)) →
    (scanF ppOf k e it).2.2 = false → finished (scanF ppOf k e it).1 := by
  intro k
  induction k with
  | zero => intro e it h; rcases h with h | h <;> omega
  | succ k ih =>
    intro e it hk
    unfold scanF
    cases hs : scanRow it.cur with
    | some rc => obtain ⟨r, c'⟩ := rc; simp
    | none =>
      simp only []
      cases he : it.cur.err with
      | some f => intro _; left; simp [he]
      | none =>
        simp only []
        have hrow : it.cur.rows[it.cur.pos]? = none := by
          unfold scanRow at hs
          simp only [he] at hs
          cases hr : it.cur.rows[it.cur.pos]? with
          | none => rfl
          | some r' => simp [hr] at hs
        cases hn : it.cur.next with
        | none => intro _; right; exact ⟨hrow, hn⟩
        | some n =>
          simp only []
          have hk1 : it.rest.length + (if it.pre.isSome then 1 else 0) + 2 ≤ k + 1 := by
            rcases hk with h | h
            · exact h
            · simp [he] at h
          cases hp : it.pre with
          | some nx =>
            have hno := force_noop ppOf e it (Or.inr (Or.inl (by simp [hp])))
            rw [hno]
            simp only [hp]
            apply ih
            left
            simp [hp] at hk1
            simp; omega
          | none =>
            rw [force_eq ppOf e it n he hp hn]
            simp only []
            apply ih
            simp [hp] at hk1
            rcases sessExec_progress ppOf e it.rest n.qry with h | h
            · left; simp; omega
            · right; exact ⟨by omega, by simpa using h⟩

theorem scanF_fuel (ppOf : Int → Nat → Nat) (e : Env) (it : It)
    (h : (scanF ppOf (scanFuel it) e it).2.2 = false) : finished (scanF ppOf (scanFuel it) e it).1 := by
  apply scanF_false_finished ppOf (scanFuel it) e it _ h
  left; unfold scanFuel; split <;> omega

end Paging.Hist
